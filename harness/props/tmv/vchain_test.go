package tmv

// A virtual Tendermint counterparty "V": deterministic validator keys, validator sets with
// generated voting powers, and hand-built signed headers whose commit is assembled vote by
// vote, so that every signature slot, every signed field and every shipped validator set can
// be chosen (or damaged) independently. Nothing here draws randomness: a header is a pure
// function of its plain-data hdrSpec and of the world clock.

import (
	"crypto/sha256"
	"fmt"
	"sync"
	"time"

	"github.com/cometbft/cometbft/crypto/ed25519"
	cmtproto "github.com/cometbft/cometbft/proto/tendermint/types"
	cmtprotoversion "github.com/cometbft/cometbft/proto/tendermint/version"
	cmttypes "github.com/cometbft/cometbft/types"

	clienttypes "github.com/cosmos/ibc-go/v11/modules/core/02-client/types"
	ibctm "github.com/cosmos/ibc-go/v11/modules/light-clients/07-tendermint"

	"github.com/cosmos/ibc-go/v11/modules/apps/callbacks/verifx/vx"
)

// vMember is one validator of a virtual validator set: key index K (private key derived
// from the secret "val-<K>") and voting power P.
type vMember struct {
	K int   `json:"k"`
	P int64 `json:"p"`
}

type vSet []vMember

var (
	keyMu    sync.Mutex
	keyCache = map[int]ed25519.PrivKey{}
)

func vKey(i int) ed25519.PrivKey {
	keyMu.Lock()
	defer keyMu.Unlock()
	k, ok := keyCache[i]
	if !ok {
		k = ed25519.GenPrivKeyFromSecret([]byte(fmt.Sprintf("val-%d", i)))
		keyCache[i] = k
	}
	return k
}

func (s vSet) total() int64 {
	var t int64
	for _, m := range s {
		t += m.P
	}
	return t
}

func (s vSet) clone() vSet { return append(vSet(nil), s...) }

func (s vSet) has(k int) bool {
	for _, m := range s {
		if m.K == k {
			return true
		}
	}
	return false
}

// cmt builds the cometbft validator set (sorted by cometbft: power descending, address
// ascending). Members must have distinct keys and positive power.
func (s vSet) cmt() *cmttypes.ValidatorSet {
	if len(s) == 0 {
		return nil
	}
	vals := make([]*cmttypes.Validator, len(s))
	for i, m := range s {
		vals[i] = cmttypes.NewValidator(vKey(m.K).PubKey(), m.P)
	}
	var out *cmttypes.ValidatorSet
	func() {
		defer func() {
			if r := recover(); r != nil {
				vx.Harnessf("validator set %v cannot be built: %v", s, r)
			}
		}()
		out = cmttypes.NewValidatorSet(vals)
	}()
	return out
}

func (s vSet) hash() []byte {
	vs := s.cmt()
	if vs == nil {
		return sha("empty-valset")
	}
	return vs.Hash()
}

func sha(parts ...any) []byte {
	h := sha256.Sum256([]byte(fmt.Sprint(parts...)))
	return h[:]
}

// sigSpec says how one member of the signing set fills its slot in the commit.
//
//	ok          a valid precommit signature for the block
//	absent      BlockIDFlagAbsent, empty slot
//	nil         BlockIDFlagNil with a valid signature over a nil-block vote
//	flip        valid signature with one bit flipped
//	chainid     vote signed for another chain id
//	height      vote signed for another height
//	round       vote signed for another round
//	otherkey    slot carries this validator's address but is signed with another key
//	reassign    slot carries ANOTHER validator's address and that validator's valid signature
//	ts          timestamp changed after signing
//	otherblock  vote signed for a different block hash
//	empty       BlockIDFlagCommit with an empty signature
type sigSpec struct {
	M string `json:"m"`
	A int    `json:"a,omitempty"`
}

// mutSpec is a mutation applied to the finished (signed) protobuf header.
type mutSpec struct {
	M string `json:"m"`
	A int    `json:"a,omitempty"`
}

// hdrSpec is the full recipe of one client header.
type hdrSpec struct {
	Chain    string    `json:"chain"`           // chain id written into the header and signed
	H        int64     `json:"h"`               // header height
	TrustRev uint64    `json:"trev"`            // trusted height
	TrustH   uint64    `json:"th"`              //
	Own      vSet      `json:"own"`             // validator set that is hashed into the header, signs and is shipped
	Next     vSet      `json:"next"`            // next validator set (hash only)
	TVals    vSet      `json:"tvals,omitempty"` // shipped trusted validators (empty: nil)
	Fork     int       `json:"fork,omitempty"`  // alters AppHash before signing (a genuinely different block)
	TMode    string    `json:"tmode"`           // chain: base+TD | trusted: stored trusted timestamp+TD | drift: now+maxClockDrift+TD
	TD       int64     `json:"td"`              // nanoseconds
	Round    int32     `json:"round,omitempty"` //
	Sigs     []sigSpec `json:"sigs,omitempty"`  // aligned with Own; missing entries mean "ok"
	Post     []mutSpec `json:"post,omitempty"`  // post-signing mutations
}

// buildEnv is what a header recipe may refer to besides its own data.
type buildEnv struct {
	base      time.Time     // time of the client's initial block
	now       time.Time     // block time of the transaction that will carry the header
	drift     time.Duration // the client's max clock drift
	trustedTS func(clienttypes.Height) (time.Time, bool)
}

func mkBlockID(hash []byte) cmttypes.BlockID {
	return cmttypes.BlockID{Hash: hash, PartSetHeader: cmttypes.PartSetHeader{Total: 3, Hash: sha("parts", hash)}}
}

func signVote(key ed25519.PrivKey, chainID string, height int64, round int32, bid cmttypes.BlockID, ts time.Time) []byte {
	v := &cmtproto.Vote{Type: cmtproto.PrecommitType, Height: height, Round: round, BlockID: bid.ToProto(), Timestamp: ts}
	sig, err := key.Sign(cmttypes.VoteSignBytes(chainID, v))
	if err != nil {
		vx.Harnessf("sign: %v", err)
	}
	return sig
}

func flipBit(b []byte, bit int) []byte {
	out := append([]byte(nil), b...)
	if len(out) == 0 {
		return []byte{1}
	}
	bit %= len(out) * 8
	if bit < 0 {
		bit = -bit
	}
	out[bit/8] ^= 1 << uint(bit%8)
	return out
}

func (s hdrSpec) time(env buildEnv) time.Time {
	switch s.TMode {
	case "trusted":
		if ts, ok := env.trustedTS(clienttypes.NewHeight(s.TrustRev, s.TrustH)); ok {
			return ts.Add(time.Duration(s.TD))
		}
		return env.base.Add(time.Duration(s.TD))
	case "drift":
		return env.now.Add(env.drift).Add(time.Duration(s.TD))
	default:
		return env.base.Add(time.Duration(s.TD))
	}
}

// buildHeader assembles, signs and then mutates a header according to its recipe.
func buildHeader(s hdrSpec, env buildEnv) *ibctm.Header {
	own := s.Own.cmt()
	if own == nil {
		vx.Harnessf("header recipe without validator set")
	}
	t := s.time(env).UTC()
	hdr := cmttypes.Header{
		Version:            cmtprotoversion.Consensus{Block: 11, App: 2},
		ChainID:            s.Chain,
		Height:             s.H,
		Time:               t,
		LastBlockID:        mkBlockID(sha("block", s.Chain, s.H-1)),
		LastCommitHash:     sha("lastcommit", s.H),
		DataHash:           sha("data", s.H),
		ValidatorsHash:     own.Hash(),
		NextValidatorsHash: s.Next.hash(),
		ConsensusHash:      sha("consensus-params"),
		AppHash:            sha("app", s.H, s.Fork),
		LastResultsHash:    sha("results", s.H),
		EvidenceHash:       sha("evidence"),
		ProposerAddress:    own.Proposer.Address,
	}
	bid := mkBlockID(hdr.Hash())
	commit := &cmttypes.Commit{Height: s.H, Round: s.Round, BlockID: bid, Signatures: make([]cmttypes.CommitSig, own.Size())}

	// position of every recipe member inside the cometbft-sorted set
	specAt := make([]int, own.Size())
	for pos, v := range own.Validators {
		specAt[pos] = -1
		for j, m := range s.Own {
			if string(vKey(m.K).PubKey().Address()) == string(v.Address) {
				specAt[pos] = j
			}
		}
		if specAt[pos] < 0 {
			vx.Harnessf("validator not found in recipe")
		}
	}
	n := len(s.Own)
	for pos, v := range own.Validators {
		j := specAt[pos]
		m := s.Own[j]
		sg := sigSpec{M: "ok"}
		if j < len(s.Sigs) && s.Sigs[j].M != "" {
			sg = s.Sigs[j]
		}
		key := vKey(m.K)
		ts := t.Add(time.Duration(pos+1) * time.Millisecond)
		cs := cmttypes.CommitSig{BlockIDFlag: cmttypes.BlockIDFlagCommit, ValidatorAddress: v.Address, Timestamp: ts}
		switch sg.M {
		case "ok":
			cs.Signature = signVote(key, s.Chain, s.H, s.Round, bid, ts)
		case "absent":
			cs = cmttypes.NewCommitSigAbsent()
		case "nil":
			cs.BlockIDFlag = cmttypes.BlockIDFlagNil
			cs.Signature = signVote(key, s.Chain, s.H, s.Round, cmttypes.BlockID{}, ts)
		case "flip":
			cs.Signature = flipBit(signVote(key, s.Chain, s.H, s.Round, bid, ts), sg.A)
		case "chainid":
			other := "xchain-1"
			if sg.A%2 == 1 {
				other = s.Chain + "0"
			}
			cs.Signature = signVote(key, other, s.H, s.Round, bid, ts)
		case "height":
			cs.Signature = signVote(key, s.Chain, s.H+1+int64(sg.A%3), s.Round, bid, ts)
		case "round":
			cs.Signature = signVote(key, s.Chain, s.H, s.Round+1+int32(sg.A%3), bid, ts)
		case "otherkey":
			ok := vKey(1000 + sg.A%3)
			if n > 1 {
				ok = vKey(s.Own[(j+1+sg.A%(n-1))%n].K)
			}
			cs.Signature = signVote(ok, s.Chain, s.H, s.Round, bid, ts)
		case "reassign":
			o := s.Own[(j+1)%n]
			if n == 1 {
				o = vMember{K: 1000, P: 1}
			}
			cs.ValidatorAddress = vKey(o.K).PubKey().Address()
			cs.Signature = signVote(vKey(o.K), s.Chain, s.H, s.Round, bid, ts)
		case "ts":
			cs.Signature = signVote(key, s.Chain, s.H, s.Round, bid, ts)
			cs.Timestamp = ts.Add(time.Nanosecond)
		case "otherblock":
			cs.Signature = signVote(key, s.Chain, s.H, s.Round, mkBlockID(sha("other-block", s.H, sg.A)), ts)
		case "empty":
			cs.Signature = nil
		default:
			vx.Harnessf("unknown signature mode %q", sg.M)
		}
		commit.Signatures[pos] = cs
	}

	ownProto, err := own.ToProto()
	if err != nil {
		vx.Harnessf("valset to proto: %v", err)
	}
	ownProto.TotalVotingPower = own.TotalVotingPower()
	out := &ibctm.Header{
		SignedHeader:  &cmtproto.SignedHeader{Header: hdr.ToProto(), Commit: commit.ToProto()},
		ValidatorSet:  ownProto,
		TrustedHeight: clienttypes.NewHeight(s.TrustRev, s.TrustH),
	}
	if tv := s.TVals.cmt(); tv != nil {
		tvp, err := tv.ToProto()
		if err != nil {
			vx.Harnessf("trusted valset to proto: %v", err)
		}
		tvp.TotalVotingPower = tv.TotalVotingPower()
		out.TrustedValidators = tvp
	}
	for _, m := range s.Post {
		applyMut(out, m)
	}
	return out
}

func extraValidator(k int, p int64) *cmtproto.Validator {
	v, err := cmttypes.NewValidator(vKey(k).PubKey(), p).ToProto()
	if err != nil {
		vx.Harnessf("validator to proto: %v", err)
	}
	return v
}

func mutValset(vs **cmtproto.ValidatorSet, op string, a int) {
	if op == "nil" {
		*vs = nil
		return
	}
	if *vs == nil {
		return
	}
	v := *vs
	n := len(v.Validators)
	switch op {
	case "add":
		v.Validators = append(v.Validators, extraValidator(2000+a%3, 1+int64(a%5)))
	case "remove":
		if n > 0 {
			i := a % n
			v.Validators = append(append([]*cmtproto.Validator(nil), v.Validators[:i]...), v.Validators[i+1:]...)
		}
	case "reweight":
		if n > 0 {
			c := *v.Validators[a%n]
			c.VotingPower++
			v.Validators[a%n] = &c
		}
	case "swap":
		if n > 1 {
			i := a % (n - 1)
			v.Validators[i], v.Validators[i+1] = v.Validators[i+1], v.Validators[i]
		} else {
			v.Validators = append(v.Validators, extraValidator(2000, 1))
		}
	case "proposer": // benign: the proposer is not part of the validator-set hash
		if n > 0 {
			v.Proposer = v.Validators[(a+1)%n]
		}
	case "totalpower": // benign: recomputed by the verifier
		v.TotalVotingPower += 1000
	default:
		vx.Harnessf("unknown validator-set mutation %q", op)
	}
}

// mutationKinds lists every post-signing mutation of applyMut (generator and histogram).
var headerFieldMuts = []string{"hf-version-block", "hf-version-app", "hf-chainid", "hf-height", "hf-time", "hf-lastblockid",
	"hf-lastcommit", "hf-data", "hf-valshash", "hf-nextvalshash", "hf-consensus", "hf-apphash", "hf-lastresults", "hf-evidence", "hf-proposer"}
var commitMuts = []string{"cm-height", "cm-round", "cm-blockhash", "cm-parts", "cm-dropsig", "cm-addsig"}
var valsetMuts = []string{"vs-add", "vs-remove", "vs-reweight", "vs-swap", "vs-nil"}
var trustedValsMuts = []string{"tv-add", "tv-remove", "tv-reweight", "tv-swap", "tv-nil"}
var benignMuts = []string{"vs-proposer", "vs-totalpower", "tv-proposer", "tv-totalpower"}

func applyMut(h *ibctm.Header, m mutSpec) {
	hd := h.SignedHeader.Header
	cm := h.SignedHeader.Commit
	fl := func(b []byte) []byte { return flipBit(b, m.A) }
	switch m.M {
	case "hf-version-block":
		hd.Version.Block++
	case "hf-version-app":
		hd.Version.App++
	case "hf-chainid":
		if m.A%2 == 0 {
			rev := clienttypes.ParseChainID(hd.ChainID)
			if id, err := clienttypes.SetRevisionNumber(hd.ChainID, rev+1); err == nil {
				hd.ChainID = id
			} else {
				hd.ChainID += "x"
			}
		} else {
			hd.ChainID = "w" + hd.ChainID
		}
	case "hf-height":
		if m.A%2 == 0 {
			hd.Height++
		} else {
			hd.Height--
		}
	case "hf-time":
		if m.A%2 == 0 {
			hd.Time = hd.Time.Add(time.Nanosecond)
		} else {
			hd.Time = hd.Time.Add(-time.Second)
		}
	case "hf-lastblockid":
		hd.LastBlockId.Hash = fl(hd.LastBlockId.Hash)
	case "hf-lastcommit":
		hd.LastCommitHash = fl(hd.LastCommitHash)
	case "hf-data":
		hd.DataHash = fl(hd.DataHash)
	case "hf-valshash":
		hd.ValidatorsHash = fl(hd.ValidatorsHash)
	case "hf-nextvalshash":
		hd.NextValidatorsHash = fl(hd.NextValidatorsHash)
	case "hf-consensus":
		hd.ConsensusHash = fl(hd.ConsensusHash)
	case "hf-apphash":
		hd.AppHash = fl(hd.AppHash)
	case "hf-lastresults":
		hd.LastResultsHash = fl(hd.LastResultsHash)
	case "hf-evidence":
		hd.EvidenceHash = fl(hd.EvidenceHash)
	case "hf-proposer":
		hd.ProposerAddress = fl(hd.ProposerAddress)
	case "cm-height":
		cm.Height++
	case "cm-round":
		cm.Round++
	case "cm-blockhash":
		cm.BlockID.Hash = fl(cm.BlockID.Hash)
	case "cm-parts":
		cm.BlockID.PartSetHeader.Total++
	case "cm-dropsig":
		if len(cm.Signatures) > 0 {
			cm.Signatures = cm.Signatures[:len(cm.Signatures)-1]
		}
	case "cm-addsig":
		if len(cm.Signatures) > 0 {
			cm.Signatures = append(cm.Signatures, cm.Signatures[len(cm.Signatures)-1])
		}
	case "vs-add", "vs-remove", "vs-reweight", "vs-swap", "vs-nil", "vs-proposer", "vs-totalpower":
		mutValset(&h.ValidatorSet, m.M[3:], m.A)
	case "tv-add", "tv-remove", "tv-reweight", "tv-swap", "tv-nil", "tv-proposer", "tv-totalpower":
		mutValset(&h.TrustedValidators, m.M[3:], m.A)
	default:
		vx.Harnessf("unknown mutation %q", m.M)
	}
}
