package gen

import (
	"fmt"
	"time"

	banktypes "github.com/cosmos/cosmos-sdk/x/bank/types"
	"github.com/cosmos/gogoproto/proto"
	gmptypes "github.com/cosmos/ibc-go/v11/modules/apps/27-gmp/types"

	sdkmath "cosmossdk.io/math"

	sdk "github.com/cosmos/cosmos-sdk/types"

	icacontrollertypes "github.com/cosmos/ibc-go/v11/modules/apps/27-interchain-accounts/controller/types"
	icatypes "github.com/cosmos/ibc-go/v11/modules/apps/27-interchain-accounts/types"
	ratelimittypes "github.com/cosmos/ibc-go/v11/modules/apps/rate-limiting/types"
	transfertypes "github.com/cosmos/ibc-go/v11/modules/apps/transfer/types"
	clienttypes "github.com/cosmos/ibc-go/v11/modules/core/02-client/types"
	channeltypes "github.com/cosmos/ibc-go/v11/modules/core/04-channel/types"
	channeltypesv2 "github.com/cosmos/ibc-go/v11/modules/core/04-channel/v2/types"
	ibctesting "github.com/cosmos/ibc-go/v11/testing"

	"github.com/cosmos/ibc-go/v11/modules/apps/callbacks/verifx/sim"
	"github.com/cosmos/ibc-go/v11/modules/apps/callbacks/verifx/vx"
)

// Extras is the plain-data description of the application activity added to a pktsim
// world before its history runs, so that the application modules own real state
// (denoms, escrow, rate limits + flows + pending packets, an interchain account).
// Everything except the rate limit itself (a governance action, applied with a direct
// keeper call exactly like a passed proposal would) is done with transactions.
type Extras struct {
	Transfer  bool `json:"transfer,omitempty"`  // ICS-20 channel; one completed A->B transfer, one in flight each way
	AliasXfer bool `json:"aliasxfer,omitempty"` // additionally one in-flight ICS-20 transfer sent as a v2 packet over the channel alias
	RateLimit bool `json:"ratelimit,omitempty"` // rate limit on the native denom of chain A over the ICS-20 channel (needs Transfer)
	ICA       bool `json:"ica,omitempty"`       // register an interchain account (controller A, host B)
	PFM       bool `json:"pfm,omitempty"`       // A->B transfer forwarded back to A by the packet-forward middleware on B, left in flight (needs Transfer)
	GMP       int  `json:"gmp,omitempty"`       // 1: ICS-27 GMP call A->B over the first v2 client link, 2: over the alias of the ICS-20 channel (needs Transfer); received on B
}

// extraState is what addExtras leaves behind for the history to play with.
type extraState struct {
	Xfer      *sim.Link // the ICS-20 channel registered as an extra v1-unordered link (nil if none)
	XferAlias *sim.Link // alias view of Xfer (v2 packets addressed to the channel ids)
}

// addLink registers an already set-up ibctesting path as an additional link of the world.
func addLink(w *sim.World, kind sim.LinkKind, p *ibctesting.Path, base *sim.Link) *sim.Link {
	l := &sim.Link{Idx: len(w.Links), Kind: kind, Chain: [2]int{0, 1}, Path: p, Base: base}
	w.Links = append(w.Links, l)
	return l
}

// transferV1 sends an ICS-20 transfer over link l from side dir and registers the packet.
func transferV1(w *sim.World, l *sim.Link, dir, signer int, coin sdk.Coin, timeoutBlocks int64) (*sim.Pkt, sim.TxResult) {
	c, d := l.Chain[dir], l.Chain[1-dir]
	th := clienttypes.NewHeight(clienttypes.ParseChainID(w.Chains[d].ChainID), uint64(w.Height(d)+timeoutBlocks))
	msg := transfertypes.NewMsgTransfer(l.Port(dir), l.ID(dir), coin, w.Addr(c, signer).String(), w.Addr(d, signer).String(), th, 0, "")
	res := w.Deliver(c, signer, msg)
	if !res.OK {
		return nil, res
	}
	pkt, err := ibctesting.ParseV1PacketFromEvents(res.Events)
	if err != nil {
		vx.Harnessf("cannot parse transfer packet: %v", err)
	}
	p := &sim.Pkt{Idx: len(w.Pkts), Link: l.Idx, Dir: dir, SrcHeight: res.Height, P1: pkt}
	w.Pkts = append(w.Pkts, p)
	return p, res
}

// transferAlias sends an ICS-20 transfer as a v2 packet addressed to the channel id of the
// v1 ICS-20 channel (MsgTransfer.UseAliasing) and registers the packet on the alias link.
func transferAlias(w *sim.World, alias *sim.Link, dir, signer int, coin sdk.Coin, timeoutSec int64) (*sim.Pkt, sim.TxResult) {
	c, d := alias.Chain[dir], alias.Chain[1-dir]
	ts := uint64(w.Coord.CurrentTime.Unix() + timeoutSec)
	msg := transfertypes.NewMsgTransferAliased(alias.Port(dir), alias.ID(dir), coin, w.Addr(c, signer).String(), w.Addr(d, signer).String(), clienttypes.ZeroHeight(), ts, "")
	res := w.Deliver(c, signer, msg)
	if !res.OK {
		return nil, res
	}
	pkt, err := ibctesting.ParseV2PacketFromEvents(res.Events)
	if err != nil {
		vx.Harnessf("cannot parse aliased transfer packet: %v", err)
	}
	p := &sim.Pkt{Idx: len(w.Pkts), Link: alias.Idx, Dir: dir, V2: true, SrcHeight: res.Height, P2: pkt}
	w.Pkts = append(w.Pkts, p)
	return p, res
}

// relayFull relays p honestly: receive on the destination, then acknowledge on the source.
func relayFull(w *sim.World, p *sim.Pkt, signer int) {
	l := w.Links[p.Link]
	h := w.FreshHeight(l, 1-p.Dir, signer)
	res := w.Deliver(w.DstChain(p), signer, w.BuildRecv(p, h, signer))
	if !res.OK {
		vx.Harnessf("extras: honest recv failed: %v", res.Err)
	}
	w.NoteAck(p, res)
	h = w.FreshHeight(l, p.Dir, signer)
	var a2 channeltypesv2.Acknowledgement
	if p.Ack2 != nil {
		a2 = *p.Ack2
	}
	res = w.Deliver(w.SrcChain(p), signer, w.BuildAck(p, p.Ack1, a2, h, signer))
	if !res.OK {
		vx.Harnessf("extras: honest ack failed: %v", res.Err)
	}
}

func addExtras(w *sim.World, ex Extras) extraState { return addExtrasWith(w, ex, nil, false) }

// addExtrasWith calls onRateLimit (if set) right after the block that committed the direct
// AddRateLimit keeper call.
//
// replayable: do not use ibctesting's process-global channel-id counter (a direct store
// write outside any block) when opening the extra channels.
func addExtrasWith(w *sim.World, ex Extras, onRateLimit func(*ratelimittypes.MsgAddRateLimit), replayable bool) extraState {
	var st extraState
	if ex.Transfer {
		sim.Guard("transfer path", func() {
			tp := ibctesting.NewTransferPath(w.Chains[0], w.Chains[1])
			if replayable {
				tp.DisableUniqueChannelIDs()
			}
			tp.Setup()
			st.Xfer = addLink(w, sim.V1Unordered, tp, nil)
			st.XferAlias = addLink(w, sim.V2Alias, tp, st.Xfer)
		})
		l := st.Xfer
		if ex.RateLimit {
			// governance action: same keeper entry point the MsgAddRateLimit handler calls
			msg := &ratelimittypes.MsgAddRateLimit{Signer: w.App(0).RateLimitKeeper.GetAuthority(), Denom: sdk.DefaultBondDenom, ChannelOrClientId: l.ID(0),
				MaxPercentSend: sdkmath.NewInt(50), MaxPercentRecv: sdkmath.NewInt(50), DurationHours: 1}
			if err := w.App(0).RateLimitKeeper.AddRateLimit(w.Ctx(0), msg); err != nil {
				vx.Harnessf("AddRateLimit: %v", err)
			}
			w.Block(0, 1)
			if onRateLimit != nil {
				onRateLimit(msg)
			}
		}
		// one completed transfer A->B (voucher denom on B, escrow on A) ...
		p, res := transferV1(w, l, 0, 0, sdk.NewInt64Coin(sdk.DefaultBondDenom, 1000), 1000)
		if p == nil {
			vx.Harnessf("extras: transfer failed: %v", res.Err)
		}
		relayFull(w, p, 0)
		// ... one of the secondary denom in flight A->B, and one native of B in flight B->A
		if p, res = transferV1(w, l, 0, 1, sdk.NewInt64Coin(ibctesting.SecondaryDenom, 77), 1000); p == nil {
			vx.Harnessf("extras: transfer 2 failed: %v", res.Err)
		}
		if p, res = transferV1(w, l, 1, 1, sdk.NewInt64Coin(sdk.DefaultBondDenom, 55), 30); p == nil {
			vx.Harnessf("extras: transfer 3 failed: %v", res.Err)
		}
		if ex.AliasXfer {
			if p, res = transferAlias(w, st.XferAlias, 0, 2, sdk.NewInt64Coin(sdk.DefaultBondDenom, 33), 900); p == nil {
				vx.Harnessf("extras: aliased transfer failed: %v", res.Err)
			}
		}
	}
	if ex.Transfer && ex.PFM {
		// A -> B with a forward memo: B's middleware escrows, sends B -> A on the same channel and
		// keeps an in-flight record until that second packet is acknowledged or times out
		l := st.Xfer
		memo := fmt.Sprintf(`{"forward":{"receiver":%q,"port":%q,"channel":%q}}`, w.Addr(0, 2).String(), l.Port(1), l.ID(1))
		th := clienttypes.NewHeight(clienttypes.ParseChainID(w.Chains[1].ChainID), uint64(w.Height(1)+1000))
		msg := transfertypes.NewMsgTransfer(l.Port(0), l.ID(0), sdk.NewInt64Coin(sdk.DefaultBondDenom, 21), w.Addr(0, 2).String(), w.Addr(1, 2).String(), th, 0, memo)
		res := w.Deliver(0, 2, msg)
		if !res.OK {
			vx.Harnessf("extras: pfm transfer failed: %v", res.Err)
		}
		pkt, err := ibctesting.ParseV1PacketFromEvents(res.Events)
		if err != nil {
			vx.Harnessf("cannot parse pfm transfer packet: %v", err)
		}
		p := &sim.Pkt{Idx: len(w.Pkts), Link: l.Idx, Dir: 0, SrcHeight: res.Height, P1: pkt}
		w.Pkts = append(w.Pkts, p)
		h := w.FreshHeight(l, 1, 2)
		res = w.Deliver(1, 2, w.BuildRecv(p, h, 2))
		if !res.OK {
			vx.Harnessf("extras: pfm recv failed: %v", res.Err)
		}
		if fwd, err := ibctesting.ParseV1PacketFromEvents(res.Events); err == nil {
			w.Pkts = append(w.Pkts, &sim.Pkt{Idx: len(w.Pkts), Link: l.Idx, Dir: 1, SrcHeight: res.Height, P1: fwd})
		} else {
			vx.Harnessf("extras: middleware on B did not forward: %v", err)
		}
	}
	if ex.GMP != 0 {
		var l *sim.Link
		if ex.GMP == 1 {
			for _, c := range w.Links {
				if c.Kind == sim.V2Clients {
					l = c
					break
				}
			}
		}
		if l == nil {
			l = st.XferAlias
		}
		if l != nil {
			sender := w.Addr(0, 2).String()
			salt := []byte("vx")
			acct, err := w.App(1).GMPKeeper.GetOrComputeICS27Address(w.Ctx(1), &gmptypes.AccountIdentifier{ClientId: l.ID(1), Sender: sender, Salt: salt})
			if err != nil {
				vx.Harnessf("gmp address: %v", err)
			}
			if res := w.Deliver(1, 2, banktypes.NewMsgSend(w.Addr(1, 2), sdk.MustAccAddressFromBech32(acct), sdk.NewCoins(sdk.NewInt64Coin(sdk.DefaultBondDenom, 10)))); !res.OK {
				vx.Harnessf("extras: funding the gmp account failed: %v", res.Err)
			}
			payload, err := gmptypes.SerializeCosmosTx(w.App(0).AppCodec(), []proto.Message{banktypes.NewMsgSend(sdk.MustAccAddressFromBech32(acct), w.Addr(1, 0), sdk.NewCoins(sdk.NewInt64Coin(sdk.DefaultBondDenom, 3)))})
			if err != nil {
				vx.Harnessf("gmp payload: %v", err)
			}
			ts := uint64(w.Coord.CurrentTime.Unix() + 3000)
			res := w.Deliver(0, 2, gmptypes.NewMsgSendCall(l.ID(0), sender, "", payload, salt, ts, gmptypes.EncodingProtobuf, ""))
			if !res.OK {
				vx.Harnessf("extras: MsgSendCall failed: %v", res.Err)
			}
			pkt, err := ibctesting.ParseV2PacketFromEvents(res.Events)
			if err != nil {
				vx.Harnessf("cannot parse gmp packet: %v", err)
			}
			p := &sim.Pkt{Idx: len(w.Pkts), Link: l.Idx, Dir: 0, V2: true, SrcHeight: res.Height, P2: pkt}
			w.Pkts = append(w.Pkts, p)
			h := w.FreshHeight(l, 1, 2)
			res = w.Deliver(1, 2, w.BuildRecv(p, h, 2))
			if !res.OK {
				vx.Harnessf("extras: gmp recv failed: %v", res.Err)
			}
			w.NoteAck(p, res)
		}
	}
	if ex.ICA {
		var ip *ibctesting.Path
		sim.Guard("ica connections", func() {
			ip = ibctesting.NewPath(w.Chains[0], w.Chains[1])
			if replayable {
				ip.DisableUniqueChannelIDs()
			}
			ip.EndpointA.ChannelConfig.PortID = icatypes.HostPortID
			ip.EndpointB.ChannelConfig.PortID = icatypes.HostPortID
			ip.EndpointA.ChannelConfig.Order = channeltypes.ORDERED
			ip.EndpointB.ChannelConfig.Order = channeltypes.ORDERED
			ip.SetupConnections()
		})
		version := string(icatypes.ModuleCdc.MustMarshalJSON(&icatypes.Metadata{
			Version: icatypes.Version, ControllerConnectionId: ip.EndpointA.ConnectionID, HostConnectionId: ip.EndpointB.ConnectionID,
			Encoding: icatypes.EncodingProtobuf, TxType: icatypes.TxTypeSDKMultiMsg,
		}))
		ip.EndpointA.ChannelConfig.Version = version
		ip.EndpointB.ChannelConfig.Version = version
		owner := w.Addr(0, 1).String()
		seq := w.App(0).IBCKeeper.ChannelKeeper.GetNextChannelSequence(w.Ctx(0))
		res := w.Deliver(0, 1, icacontrollertypes.NewMsgRegisterInterchainAccount(ip.EndpointA.ConnectionID, owner, version, channeltypes.ORDERED))
		if !res.OK {
			vx.Harnessf("extras: MsgRegisterInterchainAccount failed: %v", res.Err)
		}
		portID, err := icatypes.NewControllerPortID(owner)
		if err != nil {
			vx.Harnessf("controller port: %v", err)
		}
		ip.EndpointA.ChannelID = channeltypes.FormatChannelIdentifier(seq)
		ip.EndpointA.ChannelConfig.PortID = portID
		sim.Guard("ica handshake", func() {
			if err := ip.EndpointB.ChanOpenTry(); err != nil {
				vx.Harnessf("ica ChanOpenTry: %v", err)
			}
			if err := ip.EndpointA.ChanOpenAck(); err != nil {
				vx.Harnessf("ica ChanOpenAck: %v", err)
			}
			if err := ip.EndpointB.ChanOpenConfirm(); err != nil {
				vx.Harnessf("ica ChanOpenConfirm: %v", err)
			}
		})
	}
	return st
}

var _ = time.Second
