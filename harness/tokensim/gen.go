package tokensim

import (
	"pgregory.net/rapid"
)

// History is the plain-data case of the stateful token properties: a world and a list of ops.
type History struct {
	Spec Spec `json:"spec"`
	Ops  []Op `json:"ops"`
}

// GenCfg tunes GenHistory.
type GenCfg struct {
	MaxScripts int  // number of interleaved scripts (each a short scenario), at least 2
	Donate     bool // include plain bank sends to escrow accounts
	Grants     bool // include authz grants, MsgExec-wrapped sends and signer != sender sends
	SameDenom  bool // bias toward escrowing one denomination on several channels of one chain
	Race       bool // include timeout-boundary race scripts (receive in the block whose time == timeout, timeout proven at exactly that height)
}

// GenSpec draws a world: 2 chains with every link kind, or a 3-chain triangle whose edges carry
// a random non-empty set of link kinds (always at least one v1 channel, one v2 pair and one alias
// in the world).
func GenSpec(t *rapid.T) Spec {
	pool := SafeNativeDenoms
	denoms := func() []string {
		n := rapid.IntRange(1, 2).Draw(t, "ndenoms")
		var out []string
		for i := 0; i < n; i++ {
			out = append(out, rapid.SampledFrom(pool).Draw(t, "denom"))
		}
		return out
	}
	var s Spec
	if rapid.IntRange(0, 3).Draw(t, "shape") == 0 {
		s.Chains = 2
		s.Links = []LinkSpec{{KV1, 0, 1}, {KV2, 0, 1}, {KAlias, 0, 1}}
		if rapid.Bool().Draw(t, "second-v1") {
			s.Links = append(s.Links, LinkSpec{KV1, 1, 0})
		}
	} else {
		s.Chains = 3
		edges := [][2]int{{0, 1}, {1, 2}, {2, 0}}
		// every edge gets a v1 channel or a v2 pair; extras are sprinkled
		for i, e := range edges {
			k := rapid.SampledFrom([]int{KV1, KV1, KV2, KAlias}).Draw(t, "edgekind")
			s.Links = append(s.Links, LinkSpec{k, e[0], e[1]})
			_ = i
		}
		extra := rapid.IntRange(1, 3).Draw(t, "extra")
		for i := 0; i < extra; i++ {
			e := edges[rapid.IntRange(0, 2).Draw(t, "extraedge")]
			k := rapid.SampledFrom([]int{KV1, KV2, KAlias, KAlias}).Draw(t, "extrakind")
			if rapid.Bool().Draw(t, "flip") {
				e[0], e[1] = e[1], e[0]
			}
			s.Links = append(s.Links, LinkSpec{k, e[0], e[1]})
		}
	}
	for i := 0; i < s.Chains; i++ {
		s.Denoms = append(s.Denoms, denoms())
	}
	return s
}

type script struct {
	ops    []Op
	refs   []int // per op: local index of the transfer op whose packet it refers to, or -1
	atomic bool  // emitted in one piece (its ops depend on the exact number of blocks in between)
}

func (s *script) add(op Op, ref int) int {
	s.ops = append(s.ops, op)
	s.refs = append(s.refs, ref)
	return len(s.ops) - 1
}

func genHeight(t *rapid.T) int {
	if rapid.IntRange(0, 9).Draw(t, "hfresh") < 7 {
		return -1
	}
	return rapid.IntRange(0, 30).Draw(t, "hidx")
}

func genSigner(t *rapid.T) int { return rapid.IntRange(0, 9).Draw(t, "signer") }

// routeTo draws a route index of chain c leading to chain `to` (any route when none does).
func routeTo(t *rapid.T, spec Spec, c, to int) (int, PlannedRoute) {
	rs := spec.PlanRoutes(c)
	var idx []int
	for i, r := range rs {
		if r.Peer == to {
			idx = append(idx, i)
		}
	}
	if len(idx) == 0 {
		if len(rs) == 0 {
			return 0, PlannedRoute{}
		}
		i := rapid.IntRange(0, len(rs)-1).Draw(t, "anyroute")
		return i, rs[i]
	}
	i := rapid.SampledFrom(idx).Draw(t, "route")
	return i, rs[i]
}

func genTransfer(t *rapid.T, spec Spec, c, to, s, r, pref int) Op {
	li, pr := routeTo(t, spec, c, to)
	op := Op{K: "transfer", C: c, L: li, S: s, R: r, Sig: s, Pref: pref,
		Den:  rapid.IntRange(0, 3).Draw(t, "den"),
		Memo: rapid.SampledFrom([]int{0, 0, 0, 1, 2}).Draw(t, "memo"),
		Via:  rapid.IntRange(0, 1).Draw(t, "via"),
		Enc:  rapid.IntRange(0, 2).Draw(t, "enc"),
	}
	if pref == 2 && pr.K != KV1 && rapid.IntRange(0, 9).Draw(t, "plain") < 8 {
		op.Pref = 3
	}
	switch rapid.IntRange(0, 9).Draw(t, "amtmode") {
	case 0:
		op.AM = 1
	case 1, 2:
		op.AM = 2
	case 3:
		op.AM, op.Amt = 3, rapid.Int64Range(1, 5).Draw(t, "over")
	default:
		op.Amt = rapid.Int64Range(1, 5000).Draw(t, "amt")
	}
	if pr.K != KV1 && op.Via == 1 && rapid.IntRange(0, 5).Draw(t, "twolegs") == 0 {
		op.Leg2 = rapid.IntRange(1, 2).Draw(t, "leg2")
	}
	return op
}

// scriptRoute: a token travels along 2-4 hops (c0 -> c1 -> c2 -> c0 ...), each hop received (and
// mostly acknowledged) before the next one starts; the receiver of a hop is the sender of the
// next, which then forwards the voucher with the most hops.
func scriptRoute(t *rapid.T, spec Spec) *script {
	sc := &script{}
	n := spec.Chains
	c := rapid.IntRange(0, n-1).Draw(t, "start")
	dirn := 1
	if n == 3 && rapid.Bool().Draw(t, "ccw") {
		dirn = 2
	}
	hops := rapid.IntRange(2, 4).Draw(t, "hops")
	s := rapid.IntRange(0, NAcct-1).Draw(t, "acct")
	pref := 2
	for h := 0; h < hops; h++ {
		to := (c + dirn) % n
		if n == 2 {
			to = 1 - c
		} else if h > 0 && rapid.IntRange(0, 4).Draw(t, "turnback") == 0 {
			to = (c + 3 - dirn) % n // go back where the token came from: unwinds one hop
		}
		r := rapid.IntRange(0, NAcct-1).Draw(t, "racct")
		op := genTransfer(t, spec, c, to, s, r, pref)
		op.AM, op.Leg2 = 0, 0
		if h == 0 {
			op.Amt = rapid.Int64Range(50, 5000).Draw(t, "amt0")
		} else {
			op.AM = rapid.SampledFrom([]int{1, 2, 2}).Draw(t, "hopamt")
		}
		ti := sc.add(op, -1)
		sc.add(Op{K: "recv", H: -1, Sig: genSigner(t)}, ti)
		if rapid.IntRange(0, 3).Draw(t, "ackit") > 0 {
			sc.add(Op{K: "ack", H: genHeight(t), Sig: genSigner(t)}, ti)
		}
		c, s, pref = to, r, 1
	}
	return sc
}

// scriptFail: one transfer that ends in a refund: a forced receive-side failure (receive
// disabled / blocked receiver / invalid receiver) followed by its error acknowledgement, or a
// timeout by height or time; then duplicates of the terminal message.
func scriptFail(t *rapid.T, spec Spec) *script {
	sc := &script{}
	n := spec.Chains
	c := rapid.IntRange(0, n-1).Draw(t, "fchain")
	to := (c + rapid.IntRange(1, n-1).Draw(t, "fto")) % n
	s := rapid.IntRange(0, NAcct-1).Draw(t, "fs")
	pref := rapid.SampledFrom([]int{1, 1, 2, 0}).Draw(t, "fpref")
	op := genTransfer(t, spec, c, to, s, rapid.IntRange(0, NAcct-1).Draw(t, "fr"), pref)
	if op.AM == 3 {
		op.AM = 0
		op.Amt = 10
	}
	mode := rapid.IntRange(0, 4).Draw(t, "failmode")
	var ti int
	switch mode {
	case 0: // receive disabled on the destination
		sc.add(Op{K: "force", C: to, On: false}, -1)
		ti = sc.add(op, -1)
		sc.add(Op{K: "recv", H: -1, Sig: genSigner(t)}, ti)
		sc.add(Op{K: "force", C: to, On: true}, -1)
		sc.add(Op{K: "ack", H: -1, Sig: genSigner(t)}, ti)
	case 1, 2:
		op.RK = mode // RInvalid / RBlocked
		ti = sc.add(op, -1)
		sc.add(Op{K: "recv", H: -1, Sig: genSigner(t)}, ti)
		if rapid.Bool().Draw(t, "forgefirst") {
			sc.add(Op{K: "ack", H: -1, Sig: genSigner(t), Forge: true}, ti)
		}
		sc.add(Op{K: "ack", H: -1, Sig: genSigner(t)}, ti)
	case 3: // timeout by height (v1) / by time
		op.TH = rapid.IntRange(1, 3).Draw(t, "th")
		op.TT = rapid.IntRange(5, 40).Draw(t, "ttv2")
		ti = sc.add(op, -1)
		sc.add(Op{K: "block", C: to, N: 2}, -1)
		sc.add(Op{K: "block", C: to, N: 2}, -1)
		sc.add(Op{K: "time", N: 60}, -1)
		if rapid.Bool().Draw(t, "laterecv") {
			sc.add(Op{K: "recv", H: -1, Sig: genSigner(t)}, ti)
		}
		sc.add(Op{K: "timeout", H: -1, Sig: genSigner(t)}, ti)
	default: // timeout by time
		op.TT = rapid.IntRange(5, 60).Draw(t, "tt")
		ti = sc.add(op, -1)
		sc.add(Op{K: "time", N: 60 + rapid.IntRange(0, 600).Draw(t, "wait")}, -1)
		sc.add(Op{K: "timeout", H: -1, Sig: genSigner(t)}, ti)
	}
	// duplicates of terminal messages
	for k := rapid.IntRange(0, 2).Draw(t, "ndup"); k > 0; k-- {
		switch rapid.IntRange(0, 2).Draw(t, "dupkind") {
		case 0:
			sc.add(Op{K: "dup", N: rapid.IntRange(0, 2).Draw(t, "dupn")}, -1)
		case 1:
			sc.add(Op{K: "timeout", H: genHeight(t), Sig: genSigner(t)}, ti)
		default:
			sc.add(Op{K: "ack", H: genHeight(t), Sig: genSigner(t), Forge: rapid.Bool().Draw(t, "forge")}, ti)
		}
	}
	return sc
}

// scriptNoise: arbitrary sends and arbitrary relay messages for arbitrary packets.
func scriptNoise(t *rapid.T, spec Spec, cfg GenCfg) *script {
	sc := &script{}
	n := spec.Chains
	k := rapid.IntRange(2, 6).Draw(t, "noiselen")
	for i := 0; i < k; i++ {
		switch rapid.SampledFrom([]string{"transfer", "transfer", "recv", "recv", "ack", "timeout", "dup", "block", "time", "update", "donate"}).Draw(t, "noisekind") {
		case "transfer":
			c := rapid.IntRange(0, n-1).Draw(t, "nc")
			to := (c + rapid.IntRange(1, n-1).Draw(t, "nto")) % n
			op := genTransfer(t, spec, c, to, rapid.IntRange(0, NAcct-1).Draw(t, "ns"), rapid.IntRange(0, NAcct-1).Draw(t, "nr"), rapid.IntRange(0, 2).Draw(t, "npref"))
			op.RK = rapid.SampledFrom([]int{0, 0, 0, 0, 1, 2}).Draw(t, "nrk")
			if rapid.IntRange(0, 3).Draw(t, "nto") == 0 {
				op.TT = rapid.IntRange(5, 60).Draw(t, "ntt")
			}
			sc.add(op, -1)
		case "recv", "ack", "timeout":
			kind := []string{"recv", "ack", "timeout"}[rapid.IntRange(0, 2).Draw(t, "rk")]
			sc.add(Op{K: kind, P: -1 - rapid.IntRange(0, 5).Draw(t, "back"), H: genHeight(t), Sig: genSigner(t), Forge: rapid.IntRange(0, 5).Draw(t, "nforge") == 0}, -1)
		case "dup":
			sc.add(Op{K: "dup", N: rapid.IntRange(0, 6).Draw(t, "dn")}, -1)
		case "block":
			sc.add(Op{K: "block", C: rapid.IntRange(0, n-1).Draw(t, "bc"), N: rapid.IntRange(0, 2).Draw(t, "bn")}, -1)
		case "time":
			sc.add(Op{K: "time", N: rapid.IntRange(0, 120).Draw(t, "secs")}, -1)
		case "update":
			sc.add(Op{K: "update", L: rapid.IntRange(0, 8).Draw(t, "ul"), C: rapid.IntRange(0, 1).Draw(t, "us"), Sig: genSigner(t)}, -1)
		case "donate":
			if cfg.Donate {
				sc.add(Op{K: "donate", C: rapid.IntRange(0, n-1).Draw(t, "dc"), L: rapid.IntRange(0, 5).Draw(t, "dl"), S: rapid.IntRange(0, NAcct-1).Draw(t, "ds"), Den: rapid.IntRange(0, 3).Draw(t, "dden"), Pref: rapid.IntRange(0, 2).Draw(t, "dpref"), Amt: rapid.Int64Range(1, 500).Draw(t, "damt")}, -1)
			}
		}
	}
	return sc
}

// scriptFan: one account escrows the same denomination on several routes of one chain; some of
// the packets come back refunded, some are delivered and partly returned.
func scriptFan(t *rapid.T, spec Spec, cfg GenCfg) *script {
	sc := &script{}
	n := spec.Chains
	c := rapid.IntRange(0, n-1).Draw(t, "fanchain")
	s := rapid.IntRange(0, NAcct-1).Draw(t, "fans")
	rs := spec.PlanRoutes(c)
	if len(rs) == 0 {
		return sc
	}
	k := rapid.IntRange(2, 4).Draw(t, "fanout")
	start := rapid.IntRange(0, len(rs)-1).Draw(t, "fanstart")
	for i := 0; i < k; i++ {
		li := (start + i) % len(rs)
		r := rapid.IntRange(0, NAcct-1).Draw(t, "fanr")
		op := Op{K: "transfer", C: c, L: li, S: s, R: r, Sig: s, Pref: 3, Den: 0, Amt: rapid.Int64Range(10, 900).Draw(t, "fanamt"), Via: rapid.IntRange(0, 1).Draw(t, "fanvia"), Enc: rapid.IntRange(0, 2).Draw(t, "fanenc")}
		fate := rapid.IntRange(0, 3).Draw(t, "fate")
		if fate == 0 {
			op.RK = rapid.IntRange(1, 2).Draw(t, "fanrk")
		}
		if fate == 1 {
			op.TT = rapid.IntRange(5, 30).Draw(t, "fantt")
		}
		ti := sc.add(op, -1)
		if cfg.Donate && rapid.IntRange(0, 2).Draw(t, "fandonate") == 0 {
			// a plain bank send into one of the chain's escrow accounts: bank balance > tracked escrow
			sc.add(Op{K: "donate", C: c, L: rapid.IntRange(0, 5).Draw(t, "fdl"), S: rapid.IntRange(0, NAcct-1).Draw(t, "fds"), Pref: 3, Amt: rapid.Int64Range(1, 500).Draw(t, "fdamt")}, -1)
		}
		switch fate {
		case 1:
			sc.add(Op{K: "time", N: 90}, -1)
			sc.add(Op{K: "timeout", H: -1, Sig: genSigner(t)}, ti)
		case 3:
			// leave in flight
		default:
			sc.add(Op{K: "recv", H: -1, Sig: genSigner(t)}, ti)
			sc.add(Op{K: "ack", H: -1, Sig: genSigner(t)}, ti)
			if fate == 2 {
				// send part of the voucher back over the same route kind
				back := Op{K: "transfer", C: rs[li].Peer, S: r, R: s, Sig: r, Pref: 1, AM: 2, Via: rapid.IntRange(0, 1).Draw(t, "backvia")}
				bi, _ := routeTo(t, spec, rs[li].Peer, c)
				back.L = bi
				b := sc.add(back, -1)
				sc.add(Op{K: "recv", H: -1, Sig: genSigner(t)}, b)
				sc.add(Op{K: "ack", H: -1, Sig: genSigner(t)}, b)
			}
		}
	}
	return sc
}

// scriptAuthz: a grant from S to G followed by sends executed by G (or by somebody else) in the
// name of S, around the limits of the grant.
func scriptAuthz(t *rapid.T, spec Spec) *script {
	sc := &script{}
	n := spec.Chains
	c := rapid.IntRange(0, n-1).Draw(t, "azchain")
	to := (c + rapid.IntRange(1, n-1).Draw(t, "azto")) % n
	s := rapid.IntRange(0, NAcct-1).Draw(t, "granter")
	g := rapid.IntRange(0, 9).Draw(t, "grantee")
	li, pr := routeTo(t, spec, c, to)
	gk := rapid.SampledFrom([]int{0, 0, 0, 0, 1, 2}).Draw(t, "gk")
	lim := rapid.SampledFrom([]int64{0, 100, 1000, 1000}).Draw(t, "lim")
	pref := 3
	if pr.K == KV1 {
		pref = 2
	}
	grant := Op{K: "grant", C: c, L: li, S: s, G: g, Sig: s, GK: gk, Lim: lim, Pref: pref,
		AR:   rapid.SampledFrom([]int{0, 1, 2, 3}).Draw(t, "ar"),
		AMem: rapid.IntRange(0, 2).Draw(t, "amem"),
		Exp:  rapid.SampledFrom([]int{0, 0, 30, 3600}).Draw(t, "exp"),
	}
	if rapid.IntRange(0, 7).Draw(t, "wronggrantsigner") == 0 {
		grant.Sig = g
	}
	if rapid.IntRange(0, 7).Draw(t, "nogrant") > 0 {
		sc.add(grant, -1)
	}
	k := rapid.IntRange(1, 3).Draw(t, "nexec")
	for i := 0; i < k; i++ {
		if grant.Exp == 30 && rapid.IntRange(0, 3).Draw(t, "letexpire") == 0 {
			sc.add(Op{K: "time", N: 60}, -1)
		}
		op := Op{K: "transfer", C: c, L: li, S: s, Sig: g, Exec: true, Pref: pref,
			R:    rapid.IntRange(0, NAcct-1).Draw(t, "execr"),
			Memo: rapid.SampledFrom([]int{0, 0, 1, 2}).Draw(t, "execmemo"),
			Via:  rapid.IntRange(0, 1).Draw(t, "execvia"),
			Enc:  rapid.IntRange(0, 2).Draw(t, "execenc"),
			Amt:  rapid.Int64Range(1, 600).Draw(t, "execsmall"),
		}
		// a message the grant is meant to cover ...
		if grant.AR > 0 {
			op.R = grant.AR - 1
		}
		switch grant.AMem {
		case 0:
			op.Memo = 0
		case 2:
			op.Memo = 1
		}
		op.Via = 0
		if gk == 2 {
			op.Via = 1
		}
		if lim > 0 {
			op.Amt = rapid.Int64Range(1, lim/3).Draw(t, "withinlim")
		}
		// ... with, in half of the cases, exactly one deviation
		if rapid.Bool().Draw(t, "deviate") {
			switch rapid.SampledFrom([]int{0, 1, 2, 3, 4, 5, 5, 5, 6, 6, 7, 8}).Draw(t, "execdev") {
			case 0:
				op.AM = 1 // entire balance (MaxUint256 sentinel for MsgTransfer)
			case 1:
				op.Amt = lim + rapid.Int64Range(1, 50).Draw(t, "overlim")
			case 2: // somebody who holds no grant
				op.Sig = rapid.IntRange(0, 9).Draw(t, "stranger")
			case 3: // not wrapped at all: the grantee signs a message that names the granter
				op.Exec = false
			case 4: // a different route than the one granted
				op.L = li + rapid.IntRange(1, 4).Draw(t, "otherroute")
			case 5: // a receiver that may not be on the allow list
				op.R = op.R + rapid.IntRange(1, NAcct-1).Draw(t, "otherreceiver")
			case 6: // a memo that may not be allowed
				op.Memo = op.Memo + rapid.IntRange(1, 2).Draw(t, "othermemo")
			case 7: // the other message type than the one granted
				op.Via = 1 - op.Via
			case 8: // MsgExec of one's own MsgSendPacket naming the granter as payload sender
				op.Via, op.Inner = 1, 1
			}
		}
		ti := sc.add(op, -1)
		if rapid.Bool().Draw(t, "relayexec") {
			sc.add(Op{K: "recv", H: -1, Sig: genSigner(t)}, ti)
			sc.add(Op{K: "ack", H: -1, Sig: genSigner(t)}, ti)
		}
	}
	return sc
}

// scriptMismatch: sends whose transaction signer is not the sender named in the message.
func scriptMismatch(t *rapid.T, spec Spec) *script {
	sc := &script{}
	n := spec.Chains
	k := rapid.IntRange(1, 3).Draw(t, "nmis")
	for i := 0; i < k; i++ {
		c := rapid.IntRange(0, n-1).Draw(t, "mischain")
		to := (c + rapid.IntRange(1, n-1).Draw(t, "misto")) % n
		s := rapid.IntRange(0, NAcct-1).Draw(t, "victim")
		op := genTransfer(t, spec, c, to, s, rapid.IntRange(0, NAcct-1).Draw(t, "misr"), rapid.SampledFrom([]int{2, 2, 1}).Draw(t, "mispref"))
		op.AM = 0
		op.Amt = rapid.Int64Range(1, 900).Draw(t, "misamt")
		op.Sig = rapid.IntRange(0, 9).Draw(t, "attacker")
		op.Exec = rapid.IntRange(0, 3).Draw(t, "misexec") == 0
		op.Inner = rapid.IntRange(0, 1).Draw(t, "misinner")
		ti := sc.add(op, -1)
		if rapid.Bool().Draw(t, "misrelay") {
			sc.add(Op{K: "recv", H: -1, Sig: genSigner(t)}, ti)
			sc.add(Op{K: "ack", H: -1, Sig: genSigner(t)}, ti)
		}
	}
	return sc
}

// scriptRace: a transfer whose timeout (whole seconds, on the 5 s block grid of the shared
// clock) coincides with the block time of a later destination block; the receive is delivered in
// the block whose time equals the timeout (or the one before / after), then the timeout is
// submitted with a proof at exactly that block's height, the one before and the one after. At most
// one of receive and timeout may take effect.
func scriptRace(t *rapid.T, spec Spec) *script {
	sc := &script{atomic: true}
	n := spec.Chains
	c := rapid.IntRange(0, n-1).Draw(t, "racechain")
	// prefer v2 / alias routes (timeouts in whole seconds), sometimes v1
	rs := spec.PlanRoutes(c)
	var v2idx, all []int
	for i, r := range rs {
		all = append(all, i)
		if r.K != KV1 {
			v2idx = append(v2idx, i)
		}
	}
	if len(all) == 0 {
		return sc
	}
	pool := all
	if len(v2idx) > 0 && rapid.IntRange(0, 4).Draw(t, "racev2") > 0 {
		pool = v2idx
	}
	li := rapid.SampledFrom(pool).Draw(t, "raceroute")
	s := rapid.IntRange(0, NAcct-1).Draw(t, "races")
	op := Op{K: "transfer", C: c, L: li, S: s, Sig: s, R: rapid.IntRange(0, NAcct-1).Draw(t, "racer"),
		Pref: rapid.SampledFrom([]int{3, 3, 1}).Draw(t, "racepref"), Amt: rapid.Int64Range(1, 3000).Draw(t, "raceamt"),
		TT:  5 * rapid.IntRange(4, 8).Draw(t, "racek"),
		Via: rapid.IntRange(0, 1).Draw(t, "racevia"), Enc: rapid.IntRange(0, 2).Draw(t, "raceenc")}
	ti := sc.add(op, -1)
	sc.add(Op{K: "erecv", HD: rapid.SampledFrom([]int{0, 0, 0, -1, 1}).Draw(t, "recvhd"), Pre: rapid.Bool().Draw(t, "pre"), Sig: genSigner(t)}, ti)
	hds := rapid.SampledFrom([][]int{{0}, {0, 1}, {-1, 0}, {-1, 0, 1}, {1, 0}, {0, -1}}).Draw(t, "tohds")
	for _, hd := range hds {
		sc.add(Op{K: "etimeout", HD: hd, Sig: genSigner(t)}, ti)
	}
	if rapid.Bool().Draw(t, "raceack") {
		sc.add(Op{K: "ack", H: -1, Sig: genSigner(t)}, ti)
	}
	return sc
}

// merge interleaves scripts at random, preserving the order inside each script, and rewrites
// packet references to global step numbers.
func merge(t *rapid.T, scripts []*script) []Op {
	var out []Op
	pos := make([]int, len(scripts))
	glob := make([][]int, len(scripts))
	for i, s := range scripts {
		glob[i] = make([]int, len(s.ops))
	}
	for {
		var live []int
		for i, s := range scripts {
			if pos[i] < len(s.ops) {
				live = append(live, i)
			}
		}
		if len(live) == 0 {
			return out
		}
		i := live[rapid.IntRange(0, len(live)-1).Draw(t, "next")]
		// run a short burst of the chosen script so that scenarios make progress
		burst := rapid.IntRange(1, 3).Draw(t, "burst")
		if scripts[i].atomic {
			burst = len(scripts[i].ops)
		}
		for b := 0; b < burst && pos[i] < len(scripts[i].ops); b++ {
			s := scripts[i]
			op := s.ops[pos[i]]
			if ref := s.refs[pos[i]]; ref >= 0 {
				op.Of = glob[i][ref] + 1
			}
			glob[i][pos[i]] = len(out)
			out = append(out, op)
			pos[i]++
		}
	}
}

// GenHistory draws a world and an interleaving of route, failure, fan-out and noise scripts.
func GenHistory(t *rapid.T, cfg GenCfg) History {
	h := History{Spec: GenSpec(t)}
	if cfg.MaxScripts < 2 {
		cfg.MaxScripts = 2
	}
	lo := 2
	if cfg.Grants || cfg.Race {
		lo = 3
	}
	ns := rapid.IntRange(lo, cfg.MaxScripts).Draw(t, "nscripts")
	var scripts []*script
	for i := 0; i < ns; i++ {
		kinds := []string{"route", "route", "fail", "fail", "noise", "fan"}
		if cfg.SameDenom {
			kinds = append(kinds, "fan", "fan")
		}
		if cfg.Race {
			kinds = append(kinds, "race")
		}
		if cfg.Grants {
			kinds = []string{"route", "fail", "noise", "authz", "authz", "mismatch"}
		}
		kind := rapid.SampledFrom(kinds).Draw(t, "script")
		if i == 0 {
			kind = "route"
		}
		if i == 1 {
			kind = "fail"
			if cfg.SameDenom {
				kind = "fan"
			}
			if cfg.Grants {
				kind = "authz"
			}
		}
		if i == 2 && cfg.Grants {
			kind = "mismatch"
		}
		if i == 2 && cfg.Race {
			kind = "race"
		}
		switch kind {
		case "race":
			scripts = append(scripts, scriptRace(t, h.Spec))
		case "authz":
			scripts = append(scripts, scriptAuthz(t, h.Spec))
		case "mismatch":
			scripts = append(scripts, scriptMismatch(t, h.Spec))
		case "route":
			scripts = append(scripts, scriptRoute(t, h.Spec))
		case "fail":
			scripts = append(scripts, scriptFail(t, h.Spec))
		case "fan":
			scripts = append(scripts, scriptFan(t, h.Spec, cfg))
		default:
			scripts = append(scripts, scriptNoise(t, h.Spec, cfg))
		}
	}
	h.Ops = merge(t, scripts)
	return h
}
