package pktc

import (
	"pgregory.net/rapid"
)

// ---- plain-data case (this is the replay file) ----------------------------------------

// pspec describes one packet of the honest prefix.
type pspec struct {
	Out  []string `json:"o"`             // receiver outcome per payload (v1: exactly one): ok | err | async
	App  []string `json:"app,omitempty"` // v2: mock app per payload (A|B)
	TH   int      `json:"th,omitempty"`  // v1: timeout height = dest height at send + TH (0: none)
	TT   int      `json:"tt,omitempty"`  // timeout time = now + TT seconds (v1: 0 = none)
	AAck string   `json:"aa,omitempty"`  // async packets: the ack written later (ok | err)
}

type noise struct {
	K string `json:"k"` // block | time | update
	C int    `json:"c"`
	N int    `json:"n"`
}

// mut is one catalogue entry applied to the message (or to the environment).
type mut struct {
	K string `json:"k"`
	V int    `json:"v"` // variant selector
	I int    `json:"i"` // index selector (payload / byte / other packet / stored height)
}

type trial struct {
	Pick int   `json:"pick"`
	Sig  int   `json:"sig"`
	Muts []mut `json:"muts"`
}

type mcase struct {
	Prop   string  `json:"prop"`
	Kind   int     `json:"kind"` // sim.LinkKind of the link under test
	Dir    int     `json:"dir"`
	Asym   int     `json:"asym"` // 0: symmetric ids, 1: extra client+channel on chain 0, 2: on chain 1
	Pk     []pspec `json:"pk"`
	NSib   int     `json:"nsib"` // the first NSib packets get an identical twin on the sibling link
	Done   int     `json:"done"` // packets fully processed by the prefix
	Noise  []noise `json:"noise,omitempty"`
	Trials []trial `json:"trials"`
}

// ---- catalogue ---------------------------------------------------------------------------

var envKinds = []string{"env-chan", "env-conn", "env-frozen", "env-expired", "env-timeout"}

func isEnv(k string) bool {
	for _, e := range envKinds {
		if e == k {
			return true
		}
	}
	return false
}

// catalogue lists the mutation kinds applicable to a message of property prop on link kind.
func catalogue(prop string, kind int) []string {
	v2 := kind >= 2
	var c []string
	if v2 {
		c = append(c, "pl-value", "pl-srcport", "pl-dstport", "pl-version", "pl-encoding", "pl-order", "pl-drop", "pl-dup",
			"timeout-timestamp", "src-client", "dst-client")
	} else {
		c = append(c, "data", "timeout-height", "timeout-timestamp", "src-port", "src-channel", "dst-port", "dst-channel")
	}
	c = append(c, "swap-ends", "sequence",
		"proof-flip", "proof-trunc", "proof-other-key", "proof-keyswap", "proof-other-packet", "proof-twin", "proof-other-height",
		"proofheight-other", "proofheight-plus1", "proofheight-rev", "signer")
	if prop == "C05" {
		c = append(c, "twin-src")
	} else {
		if v2 {
			c = append(c, "acks-flip", "acks-other", "acks-reorder", "acks-drop", "acks-append", "acks-sentinel")
		} else {
			c = append(c, "ack-flip", "ack-other", "ack-reencode", "twin-dst")
		}
	}
	c = append(c, "env-frozen", "env-expired", "env-timeout")
	if kind != 2 { // v1 links and the alias link have a channel and a connection underneath
		c = append(c, "env-chan", "env-conn")
	}
	return c
}

func genCase(prop string) func(t *rapid.T) mcase {
	return func(t *rapid.T) mcase {
		c := mcase{Prop: prop}
		c.Kind = rapid.IntRange(0, 3).Draw(t, "kind")
		c.Dir = rapid.IntRange(0, 1).Draw(t, "dir")
		// asymmetric identifiers: with natural per-chain numbering one of the two asymmetric layouts makes an
		// identifier of the sibling channel on the proof chain coincide with the id the message names for the
		// other chain (C05: sibling source id == destination id; C06: sibling destination id == source id) --
		// the layout in which a "verified under the wrong key" defect becomes an acceptance. Prefer it.
		match := 1 + ((c.Kind & 1) ^ c.Dir ^ 1)
		if prop == "C06" {
			match = 3 - match
		}
		c.Asym = rapid.SampledFrom([]int{0, match, match, match, 3 - match}).Draw(t, "asym")
		v2 := c.Kind >= 2
		n := rapid.IntRange(5, 7).Draw(t, "npk")
		for j := 0; j < n; j++ {
			sp := pspec{}
			np := 1
			if v2 {
				np = rapid.IntRange(1, 3).Draw(t, "npayloads")
			}
			for i := 0; i < np; i++ {
				o := rapid.SampledFrom([]string{"ok", "ok", "ok", "err", "async"}).Draw(t, "out")
				if o == "async" && np > 1 {
					o = "ok"
				}
				sp.Out = append(sp.Out, o)
				if v2 {
					sp.App = append(sp.App, rapid.SampledFrom([]string{"A", "B"}).Draw(t, "app"))
				}
				if o == "async" {
					sp.AAck = rapid.SampledFrom([]string{"ok", "err"}).Draw(t, "aack")
				}
			}
			if v2 {
				sp.TT = rapid.IntRange(3000, 6000).Draw(t, "tt")
			} else {
				switch rapid.IntRange(0, 2).Draw(t, "tomode") {
				case 0:
					sp.TH = rapid.IntRange(90, 140).Draw(t, "th")
				case 1:
					sp.TT = rapid.IntRange(3000, 6000).Draw(t, "tt")
				default:
					sp.TH = rapid.IntRange(90, 140).Draw(t, "th")
					sp.TT = rapid.IntRange(3000, 6000).Draw(t, "tt")
				}
			}
			c.Pk = append(c.Pk, sp)
		}
		c.NSib = rapid.IntRange(n-2, n).Draw(t, "nsib")
		if prop == "C05" {
			c.Done = rapid.SampledFrom([]int{0, 0, 1, 2}).Draw(t, "done")
		} else {
			c.Done = rapid.IntRange(0, 1).Draw(t, "done")
		}
		nn := rapid.IntRange(0, 2*n).Draw(t, "nnoise")
		for i := 0; i < nn; i++ {
			c.Noise = append(c.Noise, noise{
				K: rapid.SampledFrom([]string{"", "block", "time", "update"}).Draw(t, "nk"),
				C: rapid.IntRange(0, 1).Draw(t, "nc"),
				N: rapid.IntRange(1, 90).Draw(t, "nn"),
			})
		}
		cat := catalogue(prop, c.Kind)
		nt := rapid.IntRange(2, 5).Draw(t, "ntrials")
		for i := 0; i < nt; i++ {
			tr := trial{Pick: rapid.IntRange(0, 5).Draw(t, "pick"), Sig: rapid.IntRange(0, 2).Draw(t, "sig")}
			nm := rapid.IntRange(1, 3).Draw(t, "nmuts")
			env := false
			for k := 0; k < nm; k++ {
				m := mut{K: rapid.SampledFrom(cat).Draw(t, "mk"), V: rapid.IntRange(0, 11).Draw(t, "mv"), I: rapid.IntRange(0, 400).Draw(t, "mi")}
				env = env || isEnv(m.K)
				tr.Muts = append(tr.Muts, m)
			}
			c.Trials = append(c.Trials, tr)
			if env {
				break // an environment mutation ends the case
			}
		}
		return c
	}
}

// genDirected narrows genCase to the identifier-confusion corner: worlds whose asymmetric layout makes a sibling
// identifier on the proof chain coincide with the identifier the message names for the other chain, no honest
// relays of the link under test in the prefix (C05), and trials of exactly one mutation drawn from the
// wrong-key / wrong-counterparty entries of the catalogue.
func genDirected(prop string) func(t *rapid.T) mcase {
	base := genCase(prop)
	return func(t *rapid.T) mcase {
		c := base(t)
		c.Kind = rapid.SampledFrom([]int{0, 0, 1, 1, 2, 3}).Draw(t, "dkind")
		match := 1 + ((c.Kind & 1) ^ c.Dir ^ 1)
		if prop == "C06" {
			match = 3 - match
		}
		c.Asym = match
		c.Done = 0
		c.NSib = len(c.Pk)
		v2 := c.Kind >= 2
		for j := range c.Pk { // re-shape the packets for the (possibly changed) protocol family
			sp := &c.Pk[j]
			sp.Out, sp.App = sp.Out[:1], []string{"A"}
			if !v2 {
				sp.App = nil
				if sp.TH == 0 && sp.TT == 0 {
					sp.TH = 100
				}
			} else {
				sp.TH = 0
				if sp.TT == 0 {
					sp.TT = 4000
				}
			}
		}
		kinds := []string{"proof-twin", "proof-keyswap", "twin-src", "proof-other-packet", "sequence", "swap-ends"}
		if prop == "C06" {
			kinds = []string{"proof-twin", "proof-keyswap", "proof-other-packet", "sequence", "swap-ends"}
			if v2 {
				kinds = append(kinds, "acks-other", "acks-append")
			} else {
				kinds = append(kinds, "twin-dst", "ack-other")
			}
		}
		c.Trials = nil
		nt := rapid.IntRange(2, 4).Draw(t, "dtrials")
		for i := 0; i < nt; i++ {
			c.Trials = append(c.Trials, trial{Pick: rapid.IntRange(0, 5).Draw(t, "dpick"), Sig: rapid.IntRange(0, 2).Draw(t, "dsig"),
				Muts: []mut{{K: rapid.SampledFrom(kinds).Draw(t, "dk"), V: rapid.IntRange(0, 11).Draw(t, "dv"), I: rapid.IntRange(0, 400).Draw(t, "di")}}})
		}
		return c
	}
}
