// Package tokensim is the ICS-20 world shared by the token properties (C30, C31, C32, C49 ...):
// 2-3 chains connected by transfer links of every kind (v1 UNORDERED transfer channel, v2 client
// pair, v2 traffic addressed to the channel ids of a v1 transfer channel = "alias"), funded
// accounts holding several native denominations, real transactions for every send
// (MsgTransfer, MsgSendPacket with a transfer payload, optionally wrapped in authz.MsgExec), an
// adversarial relayer (package sim) and an independent model ledger written from the ICS-20
// specification: per chain, per channel/client id and per denomination the escrowed amount, the
// vouchers minted and the amount in flight.
//
// Nothing in here draws randomness; every decision comes from plain-data Spec / Op values.
package tokensim

import (
	"fmt"
	"math/big"
	"sort"
	"testing"

	sdkmath "cosmossdk.io/math"

	sdk "github.com/cosmos/cosmos-sdk/types"
	authtypes "github.com/cosmos/cosmos-sdk/x/auth/types"
	distrtypes "github.com/cosmos/cosmos-sdk/x/distribution/types"
	minttypes "github.com/cosmos/cosmos-sdk/x/mint/types"

	transfertypes "github.com/cosmos/ibc-go/v11/modules/apps/transfer/types"
	channeltypes "github.com/cosmos/ibc-go/v11/modules/core/04-channel/types"
	ibctesting "github.com/cosmos/ibc-go/v11/testing"
	"github.com/cosmos/ibc-go/v11/testing/simapp"

	"github.com/cosmos/ibc-go/v11/modules/apps/callbacks/verifx/sim"
	"github.com/cosmos/ibc-go/v11/modules/apps/callbacks/verifx/vx"
)

// Port is the ICS-20 port on every chain.
const Port = "transfer"

// Link kinds of a Spec.
const (
	KV1    = 0 // v1 UNORDERED channel on port "transfer", version ics20-1
	KV2    = 1 // v2 client pair with registered counterparties
	KAlias = 2 // v2 packets addressed to the channel ids of the v1 transfer channel of the same chain pair
	KMock  = 3 // v1 UNORDERED channel A:"transfer" <-> B:"mock" (counterparty port differs, e.g. a contract-based ICS-20); B's scripted mock app speaks version ics20-1 and answers every receive with an error acknowledgement; only A can send
)

// KindName names a Spec link kind.
func KindName(k int) string { return [...]string{"v1", "v2", "alias", "v1-mockport"}[Pick(4, k)] }

// LinkSpec describes one link between chains A and B.
type LinkSpec struct {
	K int `json:"k"`
	A int `json:"a"`
	B int `json:"b"`
}

// Spec is the plain-data description of a world.
type Spec struct {
	Chains int        `json:"chains"`           // 2 or 3
	Links  []LinkSpec `json:"links"`            // in creation order
	Denoms [][]string `json:"denoms,omitempty"` // native denominations per chain (tracked accounts are funded with each)
	Fund   int64      `json:"fund,omitempty"`   // amount of every native denom given to every tracked account (default 1_000_000)
}

// NAcct is the number of tracked (funded) accounts per chain; ibctesting creates 10 accounts per
// chain, the other six hold nothing but the bond denom and must never change.
const NAcct = 4

// End is one end of a transfer route: the identifier packets carry on a chain (channel id for
// v1 and alias links, client id for v2 links). A v1 link and its alias share their Ends (same
// escrow address, same voucher prefix).
type End struct {
	Chain  int
	ID     string
	Peer   *End
	Escrow sdk.AccAddress
	Mock   bool        // the end is bound to the scripted mock application (port "mock"), not to ICS-20
	Links  []*sim.Link // links using this end (v1 and/or alias, or one v2 link)
	Sides  []int       // side of the respective link that this end is
}

func (e *End) String() string { return fmt.Sprintf("chain%d/%s", e.Chain, e.ID) }

// World is a sim.World specialised for ICS-20.
type World struct {
	*sim.World
	Spec   Spec
	Native [][]string // native denominations per chain
	Fund   int64
	Ends   []*End // deterministic order: link creation order, side 0 then side 1
	endIdx map[string]*End
	TP     []*TPkt // model packets, index == sim.Pkt.Idx
	M      *Model
	labels []map[string]string // per chain: bech32 address -> label
	// RecvDisabled mirrors the forced transfer param ReceiveEnabled=false per chain.
	RecvDisabled []bool
	// Grants is the authz model (see authz.go).
	Grants   []*Grant
	mockLink map[int]bool // link index -> it is a KMock link (side 1 is the mock port)
	// SentBy maps a history step number to the index of the packet it committed.
	SentBy map[int]int
	// Relays remembers every relay message delivered, for verbatim duplicates.
	Relays []RelayMsg
}

// RelayMsg is a delivered relay message.
type RelayMsg struct {
	Chain  int
	Signer int
	Msg    sdk.Msg
	Kind   string // recv | ack | timeout
	Pkt    *TPkt
}

// Pick maps any integer onto 0..n-1 (0 when n == 0).
func Pick(n, i int) int {
	if n <= 0 {
		return 0
	}
	i %= n
	if i < 0 {
		i += n
	}
	return i
}

// SafeNativeDenoms is the pool of native denominations used by generators. None of them has a
// second '/'-segment that looks like a channel or client identifier (those are misparsed by
// transfertypes.ExtractDenomFromPath; they belong to properties C33/C42).
var SafeNativeDenoms = []string{"ufoo", "atom2", "gamm/pool/1", "ubar", "factory/osmo1abc/tok", "x:y.z_w", "ufoo"}

func pairKey(a, b int) [2]int {
	if a > b {
		a, b = b, a
	}
	return [2]int{a, b}
}

// Plan expands a Spec into the links NewWorld creates, in creation order: an alias link whose
// chain pair has no v1 transfer channel yet gets one created first; an alias refers to the most
// recent v1 channel of its pair and takes over its orientation. Generators use Plan to address
// routes without a world.
func (spec Spec) Plan() []LinkSpec {
	n := spec.Chains
	if n < 2 {
		n = 2
	}
	if n > 3 {
		n = 3
	}
	var out []LinkSpec
	last := map[[2]int]LinkSpec{}
	has := map[[2]int]bool{}
	for _, ls := range spec.Links {
		a, b := Pick(n, ls.A), Pick(n, ls.B)
		if a == b {
			b = (a + 1) % n
		}
		switch Pick(4, ls.K) {
		case KMock:
			out = append(out, LinkSpec{KMock, a, b})
		case KV1:
			l := LinkSpec{KV1, a, b}
			out = append(out, l)
			last[pairKey(a, b)], has[pairKey(a, b)] = l, true
		case KV2:
			out = append(out, LinkSpec{KV2, a, b})
		case KAlias:
			if !has[pairKey(a, b)] {
				l := LinkSpec{KV1, a, b}
				out = append(out, l)
				last[pairKey(a, b)], has[pairKey(a, b)] = l, true
			}
			base := last[pairKey(a, b)]
			out = append(out, LinkSpec{KAlias, base.A, base.B})
		}
	}
	return out
}

// PlannedRoute is a route leaving a chain, as RoutesFrom will list it.
type PlannedRoute struct {
	K    int // link kind
	Peer int // destination chain
}

// PlanRoutes mirrors World.RoutesFrom for chain c.
func (spec Spec) PlanRoutes(c int) []PlannedRoute {
	var out []PlannedRoute
	for _, l := range spec.Plan() {
		if l.A == c {
			out = append(out, PlannedRoute{l.K, l.B})
		}
		if l.B == c && l.K != KMock {
			out = append(out, PlannedRoute{l.K, l.A})
		}
	}
	return out
}

// NewWorld builds the chains, links, funds the tracked accounts and initialises the model.
func NewWorld(outer *testing.T, spec Spec) *World {
	if spec.Chains < 2 {
		spec.Chains = 2
	}
	if spec.Chains > 3 {
		spec.Chains = 3
	}
	w := &World{World: sim.NewWorld(outer, spec.Chains, nil), Spec: spec, endIdx: map[string]*End{}, SentBy: map[int]int{}, mockLink: map[int]bool{}}
	w.Fund = spec.Fund
	if w.Fund <= 0 {
		w.Fund = 1_000_000
	}
	n := spec.Chains
	w.RecvDisabled = make([]bool, n)
	var lastV1 = map[[2]int]*sim.Link{}
	for _, pl := range spec.Plan() {
		var l *sim.Link
		switch pl.K {
		case KV1:
			a, b := pl.A, pl.B
			sim.Guard("transfer channel setup", func() {
				p := ibctesting.NewTransferPath(w.Chains[a], w.Chains[b])
				p.Setup()
				l = &sim.Link{Idx: len(w.Links), Kind: sim.V1Unordered, Chain: [2]int{a, b}, Path: p}
				w.Links = append(w.Links, l)
			})
			lastV1[pairKey(a, b)] = l
		case KMock:
			a, b := pl.A, pl.B
			// B's mock application agrees to speak ICS-20 (as a contract-based implementation would)
			w.App(b).IBCMockModule.IBCApp.OnChanOpenTry = func(sdk.Context, channeltypes.Order, []string, string, string, channeltypes.Counterparty, string) (string, error) {
				return transfertypes.V1, nil
			}
			sim.Guard("transfer<->mock channel setup", func() {
				p := ibctesting.NewTransferPath(w.Chains[a], w.Chains[b])
				p.EndpointB.ChannelConfig.PortID = ibctesting.MockPort
				p.Setup()
				l = &sim.Link{Idx: len(w.Links), Kind: sim.V1Unordered, Chain: [2]int{a, b}, Path: p}
				w.Links = append(w.Links, l)
			})
			w.mockLink[l.Idx] = true
		case KV2:
			l = w.AddLink(sim.V2Clients, pl.A, pl.B, nil)
		case KAlias:
			base := lastV1[pairKey(pl.A, pl.B)]
			if base == nil {
				vx.Harnessf("plan error: alias without v1 base")
			}
			l = w.AddLink(sim.V2Alias, base.Chain[0], base.Chain[1], base)
		}
		w.addEnds(l)
	}
	// native denominations and funding
	w.Native = make([][]string, n)
	for i := 0; i < n; i++ {
		seen := map[string]bool{}
		var ds []string
		if i < len(spec.Denoms) {
			ds = spec.Denoms[i]
		}
		if len(ds) == 0 {
			ds = []string{"ufoo"}
		}
		for _, d := range ds {
			if d == "" || d == sdk.DefaultBondDenom || seen[d] || sdk.ValidateDenom(d) != nil || !SafeNative(d) {
				continue
			}
			seen[d] = true
			w.Native[i] = append(w.Native[i], d)
		}
		if !seen["ufoo"] {
			// ibctesting's genesis gives every account its secondary denom "ufoo": always native
			w.Native[i] = append(w.Native[i], "ufoo")
		}
		var coins sdk.Coins
		for _, d := range w.Native[i] {
			coins = coins.Add(sdk.NewCoin(d, sdkmath.NewInt(w.Fund)))
		}
		ctx := w.Ctx(i)
		bk := w.App(i).BankKeeper
		for k := 0; k < NAcct; k++ {
			if err := bk.MintCoins(ctx, minttypes.ModuleName, coins); err != nil {
				vx.Harnessf("mint native coins: %v", err)
			}
			if err := bk.SendCoinsFromModuleToAccount(ctx, minttypes.ModuleName, w.Addr(i, k), coins); err != nil {
				vx.Harnessf("fund account: %v", err)
			}
		}
		w.Block(i, 1)
	}
	w.buildLabels()
	w.M = newModel(w)
	return w
}

func endKey(chain int, id string) string { return fmt.Sprintf("%d|%s", chain, id) }

func (w *World) addEnds(l *sim.Link) {
	var es [2]*End
	for side := 0; side < 2; side++ {
		c, id := l.Chain[side], l.ID(side)
		e := w.endIdx[endKey(c, id)]
		if e == nil {
			e = &End{Chain: c, ID: id, Escrow: transfertypes.GetEscrowAddress(Port, id)}
			w.endIdx[endKey(c, id)] = e
			w.Ends = append(w.Ends, e)
		}
		if w.mockLink[l.Idx] && side == 1 {
			e.Mock = true
		}
		e.Links = append(e.Links, l)
		e.Sides = append(e.Sides, side)
		es[side] = e
	}
	es[0].Peer, es[1].Peer = es[1], es[0]
}

// EndOf returns the end of link l on `side`.
func (w *World) EndOf(l *sim.Link, side int) *End { return w.endIdx[endKey(l.Chain[side], l.ID(side))] }

// EndsOn lists the ends located on chain c (deterministic order).
func (w *World) EndsOn(c int) []*End {
	var out []*End
	for _, e := range w.Ends {
		if e.Chain == c {
			out = append(out, e)
		}
	}
	return out
}

// Route is a (link, direction) pair usable for a send from some chain.
type Route struct {
	Link *sim.Link
	Dir  int
}

// RoutesFrom lists every (link, dir) whose source side is on chain c, in link order.
func (w *World) RoutesFrom(c int) []Route {
	var out []Route
	for _, l := range w.Links {
		for d := 0; d < 2; d++ {
			if l.Chain[d] == c && !(w.mockLink[l.Idx] && d == 1) {
				out = append(out, Route{l, d})
			}
		}
	}
	return out
}

// IsMock reports whether l is a KMock link.
func (w *World) IsMock(l *sim.Link) bool { return w.mockLink[l.Idx] }

// SpecKind maps a sim link kind to the Spec kind constants.
func SpecKind(l *sim.Link) int {
	switch l.Kind {
	case sim.V2Clients:
		return KV2
	case sim.V2Alias:
		return KAlias
	}
	return KV1
}

// ---- labels -------------------------------------------------------------------------

// BlockedAddr is a module account that bank (and therefore transfer) refuses as a receiver.
func BlockedAddr() sdk.AccAddress { return authtypes.NewModuleAddress(distrtypes.ModuleName) }

func (w *World) buildLabels() {
	w.labels = make([]map[string]string, len(w.Chains))
	for i := range w.Chains {
		m := map[string]string{}
		for k := range w.Chains[i].SenderAccounts {
			m[w.Addr(i, k).String()] = fmt.Sprintf("acct%d", k)
		}
		names := make([]string, 0)
		for name := range simapp.GetMaccPerms() {
			names = append(names, name)
		}
		sort.Strings(names)
		for _, name := range names {
			m[authtypes.NewModuleAddress(name).String()] = "mod:" + name
		}
		for _, e := range w.EndsOn(i) {
			m[e.Escrow.String()] = "escrow:" + e.ID
		}
		w.labels[i] = m
	}
}

// Label names an address of chain i: acctK, mod:<name>, escrow:<id>, or "?<bech32>" for an
// address the harness does not know (such an address must never change).
func (w *World) Label(i int, addr string) string {
	if l, ok := w.labels[i][addr]; ok {
		return l
	}
	return "?" + addr
}

// AcctLabel is the label of tracked account k.
func AcctLabel(k int) string { return fmt.Sprintf("acct%d", k) }

// EscrowLabel is the label of the escrow account of end id.
func EscrowLabel(id string) string { return "escrow:" + id }

// BlockedLabel is the label of BlockedAddr.
func BlockedLabel() string { return "mod:" + distrtypes.ModuleName }

// ---- bank snapshots -------------------------------------------------------------------

// Bank is a snapshot of all non-bond balances ("b|label|denom") and supplies ("s|denom") of one
// chain.
type Bank map[string]*big.Int

// BankOf snapshots chain i.
func (w *World) BankOf(i int) Bank {
	b := Bank{}
	ctx := w.Ctx(i)
	bk := w.App(i).BankKeeper
	bk.IterateAllBalances(ctx, func(addr sdk.AccAddress, coin sdk.Coin) bool {
		if coin.Denom != sdk.DefaultBondDenom {
			b["b|"+w.Label(i, addr.String())+"|"+coin.Denom] = coin.Amount.BigInt()
		}
		return false
	})
	bk.IterateTotalSupply(ctx, func(coin sdk.Coin) bool {
		if coin.Denom != sdk.DefaultBondDenom {
			b["s|"+coin.Denom] = coin.Amount.BigInt()
		}
		return false
	})
	return b
}

// Banks snapshots every chain.
func (w *World) Banks() []Bank {
	out := make([]Bank, len(w.Chains))
	for i := range w.Chains {
		out[i] = w.BankOf(i)
	}
	return out
}

// Get returns the amount under key (0 when absent).
func (b Bank) Get(key string) *big.Int {
	if v, ok := b[key]; ok {
		return v
	}
	return new(big.Int)
}

// Bal returns the balance of label in denom.
func (b Bank) Bal(label, denom string) *big.Int { return b.Get("b|" + label + "|" + denom) }

// Sup returns the supply of denom.
func (b Bank) Sup(denom string) *big.Int { return b.Get("s|" + denom) }

// Change is one differing entry between two Bank snapshots.
type Change struct {
	Key   string // "b|label|denom" or "s|denom"
	Delta *big.Int
}

func (c Change) String() string { return fmt.Sprintf("%s:%+d", c.Key, c.Delta) }

// BankDiff lists the entries that differ (after - before), sorted by key.
func BankDiff(before, after Bank) []Change {
	keys := map[string]bool{}
	for k := range before {
		keys[k] = true
	}
	for k := range after {
		keys[k] = true
	}
	var out []Change
	for k := range keys {
		d := new(big.Int).Sub(after.Get(k), before.Get(k))
		if d.Sign() != 0 {
			out = append(out, Change{k, d})
		}
	}
	sort.Slice(out, func(i, j int) bool { return out[i].Key < out[j].Key })
	return out
}

// SplitKey splits a Bank key into (isSupply, label, denom).
func SplitKey(k string) (bool, string, string) {
	if len(k) > 2 && k[:2] == "s|" {
		return true, "", k[2:]
	}
	rest := k[2:]
	for i := 0; i < len(rest); i++ {
		if rest[i] == '|' {
			return false, rest[:i], rest[i+1:]
		}
	}
	return false, rest, ""
}

// ---- direct reads ---------------------------------------------------------------------

// EscrowBalance is the bank balance of the escrow account of end e in coin denom.
func (w *World) EscrowBalance(e *End, coinDenom string) *big.Int {
	return w.Balance(e.Chain, e.Escrow, coinDenom).Amount.BigInt()
}

// TrackedEscrow is TransferKeeper.GetTotalEscrowForDenom on chain i.
func (w *World) TrackedEscrow(i int, coinDenom string) *big.Int {
	return w.App(i).TransferKeeper.GetTotalEscrowForDenom(w.Ctx(i), coinDenom).Amount.BigInt()
}

// AllTrackedEscrow returns every (denom, amount) the transfer keeper tracks on chain i.
func (w *World) AllTrackedEscrow(i int) map[string]*big.Int {
	out := map[string]*big.Int{}
	for _, c := range w.App(i).TransferKeeper.GetAllTotalEscrowed(w.Ctx(i)) {
		out[c.Denom] = c.Amount.BigInt()
	}
	return out
}

// SetReceiveEnabled forces the transfer param ReceiveEnabled on chain i (direct SetParams,
// committed with one block).
func (w *World) SetReceiveEnabled(i int, on bool) {
	k := w.App(i).TransferKeeper
	p := k.GetParams(w.Ctx(i))
	p.ReceiveEnabled = on
	p.SendEnabled = true
	k.SetParams(w.Ctx(i), p)
	w.Block(i, 1)
	w.RecvDisabled[i] = !on
}
