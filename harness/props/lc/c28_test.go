package lc

import (
	"bytes"
	"crypto/ecdsa"
	"crypto/sha256"
	"encoding/binary"
	"fmt"
	"math/big"
	"testing"

	"golang.org/x/crypto/sha3"
	"pgregory.net/rapid"

	ethcrypto "github.com/ethereum/go-ethereum/crypto"

	"github.com/cosmos/cosmos-sdk/codec"
	sdk "github.com/cosmos/cosmos-sdk/types"

	clienttypes "github.com/cosmos/ibc-go/v11/modules/core/02-client/types"
	commitmenttypesv2 "github.com/cosmos/ibc-go/v11/modules/core/23-commitment/types/v2"
	"github.com/cosmos/ibc-go/v11/modules/core/exported"
	"github.com/cosmos/ibc-go/v11/modules/light-clients/attestations"
	ibctesting "github.com/cosmos/ibc-go/v11/testing"

	"github.com/cosmos/ibc-go/v11/modules/apps/callbacks/verifx/sim"
	"github.com/cosmos/ibc-go/v11/modules/apps/callbacks/verifx/vx"
)

// C28: attestations light client. An update / proof is accepted only with >= quorum valid
// 65-byte signatures from DISTINCT configured attestors over sha256(tag || sha256(data)) with
// the right tag (state 0x01 / packet 0x02); membership only for an attested (keccak(path),
// 32-byte value) entry at that height; non-membership only if the path is attested with nothing
// but zero commitments; a conflicting timestamp for a stored height freezes; frozen accepts
// nothing.
//
// Everything the oracle needs is computed independently of the module: the ABI encodings, the
// tagged hash, keccak of the path. The harness signs itself, so for every signature it knows
// the signer, the tag and the data that were signed and how the blob was deformed.

type c28Sig struct {
	Who int // 0..N-1 configured attestor; >= N: key outside the set
	// Form: ok | v27 (v+27) | malleated (r, n-s, v^1: the same signer again) | vflip (v^1: recovers a
	// foreign key) | vbad (v=2..3/29+) | short (64 bytes) | long (66 bytes) | other-tag | other-data | zero
	Form string
}

type c28Entry struct {
	Key    int // index into c28Keys; < 0: a path that is no key's hash
	Commit int // index into c28Commits (0 = the zero commitment)
}

type c28Op struct {
	Kind string // update | member | nonmember | xupdate (packet proof sent as update) | xmember (state proof sent as membership proof)
	H    uint64 // height addressed (update: attested height)
	TsS  uint64 // update: attested timestamp in seconds
	AttH uint64 // packet attestation: height inside the attested data
	Ents []c28Entry
	Key  int // membership: path index
	Val  int // membership: value index into c28Commits
	VLen int // 32 | 31 | 33
	Sigs []c28Sig
}

type c28Case struct {
	N, Q   int
	InitH  uint64
	InitTs uint64 // ns
	Ops    []c28Op
}

var (
	c28Keys = []string{"k0", "commitments/ports/transfer/channels/channel-0/sequences/1", "\x00", "receipts/7"}
	// commitments: 0 zero, 1..2 ordinary, 3 a 31-byte value right-padded with one zero byte
	c28Commits = [][]byte{
		make([]byte, 32),
		bytes.Repeat([]byte{0x11}, 32),
		bytes.Repeat([]byte{0x22}, 32),
		append(bytes.Repeat([]byte{0x33}, 31), 0x00),
	}
	c28Heights = []uint64{1, 2, 3, 7, 1 << 40}
	c28Forms   = []string{"ok", "v27", "malleated", "vflip", "vbad", "short", "long", "other-tag", "other-data", "zero"}
)

// c28TsFor is the timestamp (seconds) honest attestors give height h.
func c28TsFor(h uint64) uint64 { return 1_700_000_000 + h&0xff }

// genC28Sigs draws a signature list from the patterns the property quantifies over.
func genC28Sigs(t *rapid.T, n, q int) []c28Sig {
	perm := rapid.Permutation(func() []int {
		p := make([]int, n)
		for i := range p {
			p[i] = i
		}
		return p
	}()).Draw(t, "perm")
	okForm := func() string { return rapid.SampledFrom([]string{"ok", "ok", "ok", "v27"}).Draw(t, "okform") }
	take := func(k int) []c28Sig {
		if k > n {
			k = n
		}
		var out []c28Sig
		for i := 0; i < k; i++ {
			out = append(out, c28Sig{Who: perm[i], Form: okForm()})
		}
		return out
	}
	var out []c28Sig
	switch rapid.SampledFrom([]string{"q", "q", "q", "q-1", "q-1", "q+1", "all", "dup", "dup", "dup-malleated", "dup-malleated", "unknown", "unknown", "one-other-tag", "all-other-tag", "one-other-data", "deformed", "free"}).Draw(t, "pattern") {
	case "q":
		out = take(q)
	case "q-1":
		out = take(q - 1)
	case "q+1":
		out = take(q + 1)
	case "all":
		out = take(n)
	case "dup": // q-1 distinct signers, one of them twice: q blobs, q-1 signers
		out = take(q - 1)
		if len(out) == 0 {
			out = take(1)
		}
		out = append(out, c28Sig{Who: out[0].Who, Form: okForm()})
	case "dup-malleated":
		out = take(q - 1)
		if len(out) == 0 {
			out = take(1)
		}
		out = append(out, c28Sig{Who: out[0].Who, Form: "malleated"})
	case "unknown":
		out = append(take(q-1), c28Sig{Who: n + rapid.IntRange(0, 2).Draw(t, "unk"), Form: okForm()})
	case "one-other-tag":
		out = append(take(q-1), c28Sig{Who: perm[(q-1)%n], Form: "other-tag"})
	case "all-other-tag":
		out = take(q)
		for i := range out {
			out[i].Form = "other-tag"
		}
	case "one-other-data":
		out = append(take(q-1), c28Sig{Who: perm[(q-1)%n], Form: "other-data"})
	case "deformed":
		out = take(q)
		if len(out) > 0 {
			i := rapid.IntRange(0, len(out)-1).Draw(t, "defi")
			out[i].Form = rapid.SampledFrom([]string{"vflip", "vbad", "short", "long", "zero", "malleated"}).Draw(t, "def")
		}
	case "free":
		k := rapid.IntRange(0, n+2).Draw(t, "k")
		for i := 0; i < k; i++ {
			out = append(out, c28Sig{Who: rapid.IntRange(0, n+1).Draw(t, "who"), Form: rapid.SampledFrom(c28Forms).Draw(t, "form")})
		}
	}
	// order must not matter: sometimes rotate
	if len(out) > 1 && rapid.Bool().Draw(t, "rot") {
		out = append(out[1:], out[0])
	}
	return out
}

func genC28(t *rapid.T) c28Case {
	var c c28Case
	c.N = rapid.IntRange(1, 8).Draw(t, "n")
	c.Q = rapid.IntRange(1, c.N).Draw(t, "q")
	c.InitH = rapid.SampledFrom(c28Heights).Draw(t, "inith")
	c.InitTs = c28TsFor(c.InitH) * 1_000_000_000
	switch rapid.IntRange(0, 5).Draw(t, "initts") {
	case 0:
		c.InitTs++ // not a whole number of seconds: every update for InitH conflicts
	case 1:
		c.InitTs = 1
	}
	nops := rapid.IntRange(6, 26).Draw(t, "nops")
	for i := 0; i < nops; i++ {
		var op c28Op
		op.Kind = rapid.SampledFrom([]string{"update", "update", "update", "member", "member", "member", "nonmember", "nonmember", "xupdate", "xmember"}).Draw(t, "kind")
		op.H = rapid.SampledFrom(c28Heights).Draw(t, "h")
		if op.Kind != "update" && rapid.Bool().Draw(t, "hinit") {
			op.H = c.InitH // always has a consensus state
		}
		op.TsS = c28TsFor(op.H)
		switch rapid.IntRange(0, 23).Draw(t, "tsmode") {
		case 0, 1:
			op.TsS++ // another timestamp for this height
		case 2:
			op.TsS = 0
		case 3:
			op.TsS = c28TsFor(op.H + 1)
		case 4:
			op.TsS += 1 << 55 // seconds*1e9 wraps to the same uint64 as the honest timestamp (see TestC28TsWrap)
		}
		op.AttH = op.H
		if rapid.IntRange(0, 7).Draw(t, "atth") == 0 {
			op.AttH = rapid.SampledFrom(c28Heights).Draw(t, "atth2")
		}
		op.Key = rapid.IntRange(0, len(c28Keys)-1).Draw(t, "key")
		op.Val = rapid.IntRange(0, len(c28Commits)-1).Draw(t, "val")
		op.VLen = rapid.SampledFrom([]int{32, 32, 32, 32, 32, 31, 33}).Draw(t, "vlen")
		ne := rapid.IntRange(0, 4).Draw(t, "nents")
		for j := 0; j < ne; j++ {
			e := c28Entry{Key: rapid.IntRange(-1, len(c28Keys)-1).Draw(t, "ekey"), Commit: rapid.IntRange(0, len(c28Commits)-1).Draw(t, "ecommit")}
			// bias towards the statement under test
			switch rapid.IntRange(0, 5).Draw(t, "ebias") {
			case 0, 1:
				e.Key = op.Key
			case 2:
				e.Key, e.Commit = op.Key, op.Val
			case 3:
				e.Key, e.Commit = op.Key, 0
			}
			op.Ents = append(op.Ents, e)
		}
		// half of the proofs are made true statements (so that acceptances are common and the
		// signature list is what decides)
		if rapid.Bool().Draw(t, "truthful") {
			switch op.Kind {
			case "member":
				op.Ents = append([]c28Entry{{Key: op.Key, Commit: op.Val}}, op.Ents...)
				op.VLen, op.AttH = 32, op.H
			case "nonmember":
				for j := range op.Ents {
					if op.Ents[j].Key == op.Key {
						op.Ents[j].Commit = 0
					}
				}
				op.Ents = append(op.Ents, c28Entry{Key: op.Key, Commit: 0})
				op.AttH = op.H
			}
		}
		op.Sigs = genC28Sigs(t, c.N, c.Q)
		c.Ops = append(c.Ops, op)
	}
	return c
}

// ---- independent re-implementations used by the oracle ---------------------------------

func c28Word(v uint64) []byte {
	w := make([]byte, 32)
	binary.BigEndian.PutUint64(w[24:], v)
	return w
}

// abi.encode(uint64 height, uint64 timestampSeconds)
func c28EncodeState(h, tsSec uint64) []byte { return append(c28Word(h), c28Word(tsSec)...) }

// abi.encode(PacketAttestation{uint64 height; (bytes32 path, bytes32 commitment)[] packets})
func c28EncodePacket(h uint64, ents [][2][]byte) []byte {
	out := append([]byte{}, c28Word(0x20)...)
	out = append(out, c28Word(h)...)
	out = append(out, c28Word(0x40)...)
	out = append(out, c28Word(uint64(len(ents)))...)
	for _, e := range ents {
		out = append(out, e[0]...)
		out = append(out, e[1]...)
	}
	return out
}

func c28Keccak(b []byte) []byte {
	h := sha3.NewLegacyKeccak256()
	h.Write(b)
	return h.Sum(nil)
}

func c28Tagged(data []byte, tag byte) []byte {
	inner := sha256.Sum256(data)
	outer := sha256.Sum256(append([]byte{tag}, inner[:]...))
	return outer[:]
}

const (
	c28TagState  = 0x01
	c28TagPacket = 0x02
)

func c28Key(label string, i int) *ecdsa.PrivateKey {
	h := sha256.Sum256([]byte(fmt.Sprintf("verif-c28-%s-%d", label, i)))
	k, err := ethcrypto.ToECDSA(h[:])
	if err != nil {
		vx.Harnessf("ToECDSA: %v", err)
	}
	return k
}

// c28MakeSig builds the blob for one list element and says whether it is a valid 65-byte
// signature by a configured attestor over the RIGHT (tag, data), and by whom.
func c28MakeSig(s c28Sig, n int, data []byte, tag, verifierTag byte) (blob []byte, validBy int) {
	var key *ecdsa.PrivateKey
	if s.Who < n {
		key = c28Key("att", s.Who)
	} else {
		key = c28Key("unknown", s.Who-n)
	}
	signedTag := tag
	if s.Form == "other-tag" {
		signedTag = tag ^ 0x03 // 0x01 <-> 0x02
	}
	msg := c28Tagged(data, signedTag)
	if s.Form == "other-data" {
		msg = c28Tagged(append(append([]byte{}, data...), 0x01), tag)
	}
	sig, err := ethcrypto.Sign(msg, key)
	if err != nil || len(sig) != 65 {
		vx.Harnessf("sign: %v", err)
	}
	valid := s.Who < n && signedTag == verifierTag
	switch s.Form {
	case "ok", "other-tag":
	case "v27":
		sig[64] += 27
	case "malleated":
		order := ethcrypto.S256().Params().N
		sv := new(big.Int).Sub(order, new(big.Int).SetBytes(sig[32:64]))
		sb := sv.Bytes()
		copy(sig[32:64], make([]byte, 32))
		copy(sig[64-len(sb):64], sb)
		sig[64] ^= 1
	case "vflip":
		sig[64] ^= 1
		valid = false
	case "vbad":
		sig[64] += 2
		valid = false
	case "short":
		sig = sig[:64]
		valid = false
	case "long":
		sig = append(sig, 0)
		valid = false
	case "zero":
		sig = make([]byte, 65)
		valid = false
	case "other-data":
		valid = false
	default:
		vx.Harnessf("unknown signature form %q", s.Form)
	}
	if valid {
		return sig, s.Who
	}
	return sig, -1
}

type c28Built struct {
	data      []byte
	sigs      [][]byte
	distinct  int // distinct configured attestors with a valid 65-byte signature over (the VERIFIER's tag, exactly this data)
	blobs     int
	dupSigner bool
	unknown   bool
	wrongTag  bool
	deformed  bool
}

func c28Build(sigs []c28Sig, n int, data []byte, tag, verifierTag byte) c28Built {
	b := c28Built{data: data, blobs: len(sigs)}
	seen := map[int]bool{}
	whoSeen := map[int]bool{}
	for _, s := range sigs {
		blob, by := c28MakeSig(s, n, data, tag, verifierTag)
		b.sigs = append(b.sigs, blob)
		if by >= 0 {
			seen[by] = true
		}
		if whoSeen[s.Who] {
			b.dupSigner = true
		}
		whoSeen[s.Who] = true
		if s.Who >= n {
			b.unknown = true
		}
		switch s.Form {
		case "other-tag":
			b.wrongTag = true
		case "vflip", "vbad", "short", "long", "zero", "other-data":
			b.deformed = true
		}
	}
	b.distinct = len(seen)
	return b
}

type c28World struct {
	w        *sim.World
	cdc      codec.BinaryCodec
	clientID string
	signer   string
}

func (cw *c28World) frozen() bool {
	return cw.w.App(0).IBCKeeper.ClientKeeper.GetClientStatus(cw.w.Ctx(0), cw.clientID) == exported.Frozen
}

func (cw *c28World) proofBz(b c28Built) []byte {
	bz, err := cw.cdc.Marshal(&attestations.AttestationProof{AttestationData: b.data, Signatures: b.sigs})
	if err != nil {
		vx.Harnessf("marshal proof: %v", err)
	}
	return bz
}

func (cw *c28World) update(b c28Built) bool {
	msg, err := clienttypes.NewMsgUpdateClient(cw.clientID, &attestations.AttestationProof{AttestationData: b.data, Signatures: b.sigs}, cw.signer)
	if err != nil {
		vx.Harnessf("NewMsgUpdateClient: %v", err)
	}
	return cw.w.Deliver(0, 0, sdk.Msg(msg)).OK
}

func (cw *c28World) verify(member bool, h uint64, proof []byte, key []byte, value []byte) bool {
	ctx, _ := cw.w.Ctx(0).CacheContext()
	k := cw.w.App(0).IBCKeeper.ClientKeeper
	path := commitmenttypesv2.MerklePath{KeyPath: [][]byte{key}}
	var err error
	pan, msg := vx.Recover(func() {
		if member {
			err = k.VerifyMembership(ctx, cw.clientID, clienttypes.NewHeight(0, h), 0, 0, proof, path, value)
		} else {
			err = k.VerifyNonMembership(ctx, cw.clientID, clienttypes.NewHeight(0, h), 0, 0, proof, path)
		}
	})
	if pan {
		vx.Harnessf("verification panicked: %s", msg)
	}
	return err == nil
}

func c28Ns(sec uint64) *big.Int {
	return new(big.Int).Mul(new(big.Int).SetUint64(sec), big.NewInt(1_000_000_000))
}

func c28Setup(outer *testing.T, n, q int, initH, initTs uint64) *c28World {
	w := sim.NewWorld(outer, 1, nil)
	cw := &c28World{w: w, cdc: w.App(0).AppCodec(), signer: w.Addr(0, 0).String()}
	var addrs []string
	for i := 0; i < n; i++ {
		addrs = append(addrs, ethcrypto.PubkeyToAddress(c28Key("att", i).PublicKey).Hex())
	}
	create, err := clienttypes.NewMsgCreateClient(attestations.NewClientState(addrs, uint32(q), initH), &attestations.ConsensusState{Timestamp: initTs}, cw.signer)
	if err != nil {
		vx.Harnessf("NewMsgCreateClient: %v", err)
	}
	res := w.Deliver(0, 0, create)
	if !res.OK {
		vx.Harnessf("create attestations client failed: %v", res.Err)
	}
	if cw.clientID, err = ibctesting.ParseClientIDFromEvents(res.Events); err != nil {
		vx.Harnessf("client id: %v", err)
	}
	return cw
}

func runC28(outer *testing.T) func(rapid.TB, c28Case, *vx.Case) {
	return func(t rapid.TB, c c28Case, rec *vx.Case) {
		const id = "C28"
		if c.N < 1 || c.Q < 1 || c.Q > c.N {
			vx.Harnessf("bad attestor set %d/%d", c.Q, c.N)
		}
		cw := c28Setup(outer, c.N, c.Q, c.InitH, c.InitTs)
		stored := map[uint64]*big.Int{c.InitH: new(big.Int).SetUint64(c.InitTs)} // height -> exact timestamp in ns
		frozen := false
		nt := false
		rec.Class("quorum-%d-of-%d", c.Q, c.N)

		for i, op := range c.Ops {
			// ---- payload
			var ents [][2][]byte
			for _, e := range op.Ents {
				var p []byte
				if e.Key >= 0 {
					p = c28Keccak([]byte(c28Keys[e.Key%len(c28Keys)]))
				} else {
					x := sha256.Sum256([]byte("no key hashes to this"))
					p = x[:]
				}
				ents = append(ents, [2][]byte{p, c28Commits[e.Commit%len(c28Commits)]})
			}
			var data []byte
			var tag byte
			switch op.Kind {
			case "update", "xmember":
				data, tag = c28EncodeState(op.H, op.TsS), c28TagState
			default:
				data, tag = c28EncodePacket(op.AttH, ents), c28TagPacket
			}
			// the SIGNERS use the payload's own tag (form other-tag: the opposite one); x-ops present the
			// proof to the OTHER verifier, whose tag decides which blobs count
			verifierTag := byte(c28TagPacket)
			if op.Kind == "update" || op.Kind == "xupdate" {
				verifierTag = c28TagState
			}
			b := c28Build(op.Sigs, c.N, data, tag, verifierTag)
			quorum := b.distinct >= c.Q
			if op.Kind == "xmember" {
				ents = nil // the signed data is a state attestation: it attests no (path, commitment) entry
			}
			if b.dupSigner || b.unknown || b.wrongTag || op.Kind == "xupdate" || op.Kind == "xmember" || b.distinct == c.Q-1 {
				nt = true
			}
			if b.dupSigner {
				rec.Class("list-duplicate-signer")
			}
			if b.unknown {
				rec.Class("list-unknown-signer")
			}
			if b.wrongTag {
				rec.Class("list-wrong-tag-signature")
			}
			if b.deformed {
				rec.Class("list-deformed-signature")
			}
			if b.distinct == c.Q-1 {
				rec.Class("list-exactly-q-minus-1-valid")
			}
			if b.distinct == c.Q {
				rec.Class("list-exactly-q-valid")
			}
			desc := func() string {
				return fmt.Sprintf("op %d %s h=%d attH=%d ts=%ds key=%d val=%d/%d entries=%v sigs=%v: attestors %d quorum %d, blobs %d, distinct valid signers under the verifier's tag %d; frozen before=%v",
					i, op.Kind, op.H, op.AttH, op.TsS, op.Key, op.Val, op.VLen, op.Ents, op.Sigs, c.N, c.Q, b.blobs, b.distinct, frozen)
			}

			switch op.Kind {
			case "update", "xupdate":
				ok := cw.update(b)
				now := cw.frozen()
				if ok {
					rec.Add("updates_accepted", 1)
					if frozen {
						vx.Violatef(t, rec, id, "frozen-client-accepted-update", "%s", desc())
					}
					if !quorum {
						sig := "update-accepted-below-quorum-of-distinct-valid-signers"
						if op.Kind == "xupdate" {
							sig = "packet-tagged-signatures-accepted-for-state-update"
						} else if b.wrongTag {
							sig = "update-accepted-with-wrong-tag-signatures"
						}
						vx.Violatef(t, rec, id, sig, "%s", desc())
					}
					// (height, seconds) the update attests. A packet-encoded payload signed under the STATE tag
					// (xupdate + other-tag) is read by the module's ABI decoder as its first two words.
					effH, effTs := op.H, op.TsS
					if op.Kind == "xupdate" {
						effH, effTs = 0x20, op.AttH
						rec.Class("packet-encoded-payload-signed-with-state-tag-accepted")
					}
					ns := c28Ns(effTs)
					if prev, have := stored[effH]; have && prev.Cmp(ns) != 0 {
						rec.Class("update-conflicting-timestamp")
						if !now {
							vx.Violatef(t, rec, id, "conflicting-timestamp-does-not-freeze", "height %d stored with %s ns, accepted update attests %s ns, client not frozen; %s", effH, prev, ns, desc())
						}
					} else {
						if have {
							rec.Class("update-same-height-same-timestamp")
						}
						stored[effH] = ns
					}
				} else {
					rec.Add("updates_rejected", 1)
					if quorum && !frozen && op.Kind == "update" && !b.deformed && !b.unknown && !b.dupSigner && !b.wrongTag {
						rec.Add("clean_quorum_update_rejected", 1)
					}
					if now != frozen {
						vx.Violatef(t, rec, id, "rejected-update-changed-status", "%s", desc())
					}
				}
				if now && !frozen {
					rec.Class("client-frozen")
				}
				if !now && frozen {
					vx.Violatef(t, rec, id, "frozen-client-unfrozen", "%s", desc())
				}
				frozen = now
			case "member", "xmember":
				val := append([]byte{}, c28Commits[op.Val%len(c28Commits)]...)
				switch op.VLen {
				case 31:
					val = val[:31]
				case 33:
					val = append(val, 0)
				}
				key := []byte(c28Keys[op.Key%len(c28Keys)])
				ok := cw.verify(true, op.H, cw.proofBz(b), key, val)
				if ok {
					rec.Add("membership_accepted", 1)
					attested := false
					kh := c28Keccak(key)
					for _, e := range ents {
						if bytes.Equal(e[0], kh) && bytes.Equal(e[1], val) {
							attested = true
						}
					}
					switch {
					case frozen:
						vx.Violatef(t, rec, id, "frozen-client-accepted-membership", "%s", desc())
					case !quorum && op.Kind == "xmember":
						vx.Violatef(t, rec, id, "state-tagged-signatures-accepted-for-membership", "%s", desc())
					case !quorum:
						vx.Violatef(t, rec, id, "membership-accepted-below-quorum-of-distinct-valid-signers", "%s", desc())
					case len(val) != 32:
						vx.Violatef(t, rec, id, "membership-accepted-for-non-32-byte-value", "%s", desc())
					case op.AttH != op.H && op.Kind == "member":
						vx.Violatef(t, rec, id, "membership-accepted-for-another-height", "%s", desc())
					case !attested:
						vx.Violatef(t, rec, id, "membership-accepted-without-attested-entry", "%s", desc())
					}
				} else {
					rec.Add("membership_rejected", 1)
				}
				if op.VLen != 32 {
					rec.Class("membership-value-%d-bytes", op.VLen)
				}
			case "nonmember":
				key := []byte(c28Keys[op.Key%len(c28Keys)])
				ok := cw.verify(false, op.H, cw.proofBz(b), key, nil)
				kh := c28Keccak(key)
				present, allZero := false, true
				for _, e := range ents {
					if bytes.Equal(e[0], kh) {
						present = true
						if !bytes.Equal(e[1], c28Commits[0]) {
							allZero = false
						}
					}
				}
				if present && !allZero {
					rec.Class("nonmembership-path-with-nonzero-commitment")
				}
				if ok {
					rec.Add("nonmembership_accepted", 1)
					switch {
					case frozen:
						vx.Violatef(t, rec, id, "frozen-client-accepted-non-membership", "%s", desc())
					case !quorum:
						vx.Violatef(t, rec, id, "non-membership-accepted-below-quorum-of-distinct-valid-signers", "%s", desc())
					case op.AttH != op.H:
						vx.Violatef(t, rec, id, "non-membership-accepted-for-another-height", "%s", desc())
					case !present:
						vx.Violatef(t, rec, id, "non-membership-accepted-for-unattested-path", "%s", desc())
					case !allZero:
						vx.Violatef(t, rec, id, "non-membership-accepted-despite-non-zero-commitment", "%s", desc())
					}
				} else {
					rec.Add("nonmembership_rejected", 1)
				}
			default:
				vx.Harnessf("unknown op kind %q", op.Kind)
			}
			if frozen {
				rec.Add("ops_on_frozen", 1)
			}
		}
		rec.NonTrivialIf(nt)
	}
}

func TestC28(t *testing.T) {
	vx.Check(t, vx.Prop[c28Case]{
		ID:        "C28",
		Rule:      "cases = attestor set of 1..8 deterministic secp256k1 keys, quorum 1..n, 6..26 ops (state updates incl. same height/other timestamp, membership, non-membership, packet proof sent as update, state proof sent as membership proof); signature lists from patterns q-1/q/q+1/all/duplicate/malleated duplicate/unknown signer/wrong tag/other data/deformed (v flip, v>3, 64/66 bytes, zero)/free; non-trivial = some list has a duplicate, unknown or wrong-tag signature or exactly q-1 valid signers; distinct by full case encoding",
		MinNTFrac: 0.5,
		Gen:       genC28,
		Run:       runC28(t),
	})
}

// ---- regression: seconds -> nanoseconds overflow hid a conflicting timestamp -------------------
//
// Found by this check on the original tree and fixed in /repo (fix: commit): ABIDecodeStateAttestation
// computed Timestamp = seconds * 1e9 in uint64 without an overflow check and CheckForMisbehaviour
// compares the products, so two DIFFERENT attested timestamps s and s + 2^55 seconds
// (2^55 * 1e9 = 1953125 * 2^64) for one height were not seen as a conflict. Strict: no known-finding
// entry exists; on a tree without the overflow check this test reports a violation.

const c28WrapSig = "timestamp-differing-by-2^55-seconds-for-stored-height-does-not-freeze"

type c28WrapCase struct {
	N, Q int
	H    uint64
	Base uint64 // seconds
}

func runC28Wrap(outer *testing.T) func(rapid.TB, c28WrapCase, *vx.Case) {
	return func(t rapid.TB, c c28WrapCase, rec *vx.Case) {
		cw := c28Setup(outer, c.N, c.Q, c.H+1, c28TsFor(c.H+1)*1_000_000_000)
		var all []c28Sig
		for i := 0; i < c.N; i++ {
			all = append(all, c28Sig{Who: i, Form: "ok"})
		}
		first := c28Build(all, c.N, c28EncodeState(c.H, c.Base), c28TagState, c28TagState)
		if !cw.update(first) || cw.frozen() {
			vx.Harnessf("honest first update for height %d failed", c.H)
		}
		twin := c.Base + 1<<55
		second := c28Build(all, c.N, c28EncodeState(c.H, twin), c28TagState, c28TagState)
		ok := cw.update(second)
		rec.NonTrivial()
		rec.Class("twin-update-accepted=%v", ok)
		if cw.frozen() {
			rec.Class("frozen")
			return
		}
		if ok {
			vx.Violatef(t, rec, "C28", c28WrapSig, "height %d stored with timestamp %d s; a quorum-signed update attesting %d s (= +2^55 s) for the same height was accepted and the client is still Active", c.H, c.Base, twin)
		}
	}
}

// TestC28TsWrap keeps the minimal reproduction of the overflow finding as a regression check.
func TestC28TsWrap(t *testing.T) {
	vx.Check(t, vx.Prop[c28WrapCase]{
		ID:        "C28",
		Rule:      "cases = attestor set + honest update (h, s) followed by a quorum-signed update (h, s + 2^55 seconds); every case is non-trivial",
		MinNTFrac: 1,
		Gen: func(t *rapid.T) c28WrapCase {
			n := rapid.IntRange(1, 4).Draw(t, "n")
			return c28WrapCase{N: n, Q: rapid.IntRange(1, n).Draw(t, "q"), H: rapid.SampledFrom(c28Heights).Draw(t, "h"), Base: rapid.SampledFrom([]uint64{5, 1_700_000_000}).Draw(t, "base")}
		},
		Run: runC28Wrap(t),
	})
}
