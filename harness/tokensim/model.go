package tokensim

import (
	"crypto/sha256"
	"encoding/hex"
	"fmt"
	"math/big"
	"regexp"
	"sort"
	"strings"

	"github.com/cosmos/ibc-go/v11/modules/apps/callbacks/verifx/sim"
)

// ---- denominations (independent re-implementation of the ICS-20 naming rules) ----------

// Hop is one (port, channel-or-client id) prefix of a denomination trace.
type Hop struct {
	Port string `json:"port"`
	ID   string `json:"id"`
}

// Denom is a denomination as the model knows it: base name plus the hops it travelled, most
// recent hop first.
type Denom struct {
	Base  string
	Trace []Hop
}

// Path is trace + "/" + base per ICS-20.
func (d Denom) Path() string {
	var sb strings.Builder
	for _, h := range d.Trace {
		sb.WriteString(h.Port)
		sb.WriteByte('/')
		sb.WriteString(h.ID)
		sb.WriteByte('/')
	}
	sb.WriteString(d.Base)
	return sb.String()
}

// Coin is the bank denomination: the base for a native token, otherwise
// "ibc/" + UPPERHEX(sha256(path)).
func (d Denom) Coin() string {
	if len(d.Trace) == 0 {
		return d.Base
	}
	sum := sha256.Sum256([]byte(d.Path()))
	return "ibc/" + strings.ToUpper(hex.EncodeToString(sum[:]))
}

// HasPrefix reports whether the most recent hop is (transfer, id).
func (d Denom) HasPrefix(id string) bool {
	return len(d.Trace) > 0 && d.Trace[0].Port == Port && d.Trace[0].ID == id
}

// Push returns the denomination after being received over end id.
func (d Denom) Push(id string) Denom {
	t := make([]Hop, 0, len(d.Trace)+1)
	t = append(t, Hop{Port, id})
	t = append(t, d.Trace...)
	return Denom{Base: d.Base, Trace: t}
}

// Pop removes the most recent hop.
func (d Denom) Pop() Denom {
	return Denom{Base: d.Base, Trace: append([]Hop(nil), d.Trace[1:]...)}
}

// Hops is the number of hops.
func (d Denom) Hops() int { return len(d.Trace) }

var (
	reChannelLike = regexp.MustCompile(`^channel-[0-9]{1,20}$`)
	reClientLike  = regexp.MustCompile(`^.*[^\n-]-[0-9]{1,20}$`)
)

// SafeNative reports whether a native base denomination stays clear of the hop heuristic of
// transfertypes.ExtractDenomFromPath: no '/'-segment other than the first may look like a
// channel identifier or a client identifier.
func SafeNative(base string) bool {
	segs := strings.Split(base, "/")
	for i, s := range segs {
		if i == 0 {
			continue
		}
		if reChannelLike.MatchString(s) || reClientLike.MatchString(s) {
			return false
		}
	}
	return true
}

// ---- model packets ---------------------------------------------------------------------

// Packet status in the model.
const (
	StSent     = "sent"     // committed on the source, nothing happened on the destination
	StRecvOK   = "recv-ok"  // received, success acknowledgement written
	StRecvErr  = "recv-err" // received, error acknowledgement written (refund pending)
	StAcked    = "acked"    // success acknowledgement processed on the source (terminal)
	StRefunded = "refunded" // error acknowledgement or timeout processed on the source (terminal)
)

// Receiver kinds.
const (
	RAcct    = 0 // tracked account R of the destination chain
	RInvalid = 1 // a string that is not an address of the destination chain
	RBlocked = 2 // a module account the bank module blocks
)

// Leg is one token movement of a packet (one transfer payload; v1 packets have exactly one).
type Leg struct {
	Denom    Denom    // as held on the source chain
	Amount   *big.Int // as committed in the packet data
	Sender   int      // tracked account index on the source chain (data.Sender)
	RKind    int
	Receiver int  // tracked account index on the destination chain when RKind == RAcct
	Return   bool // the denom is prefixed by the source end: vouchers are burned and the origin releases escrow
	Memo     string
}

// TPkt is a committed transfer packet.
type TPkt struct {
	P      *sim.Pkt
	Src    *End
	Dst    *End
	Legs   []Leg
	Status string
	Kind   int    // KV1 / KV2 / KAlias
	Via    string // msgtransfer | sendpacket (+"/exec")
	// RecvStep / EndStep are the history steps of the committed receive and terminal message.
	RecvStep, EndStep int
	Terminal          string // "ack-ok" | "ack-err" | "timeout"
	EdgeH             int64  // destination height of the block that carried the last erecv (0: none)
}

// InFlight reports whether the tokens of the packet are neither delivered nor refunded.
func (p *TPkt) InFlight() bool { return p.Status == StSent || p.Status == StRecvErr }

func (p *TPkt) String() string {
	return fmt.Sprintf("%s [%s %s legs=%d status=%s]", p.P, KindName(p.Kind), p.Via, len(p.Legs), p.Status)
}

// ---- the ledger ------------------------------------------------------------------------

// Model is the reference ledger. All maps are keyed by bank denomination (Denom.Coin()).
type Model struct {
	w *World
	// Denoms[chain][coin] is what the model knows about a bank denomination of a chain.
	Denoms []map[string]Denom
	// Bal[chain][label][coin]: expected balances of tracked accounts, escrow accounts and the
	// blocked module account.
	Bal []map[string]map[string]*big.Int
	// Supply0[chain][coin]: supply of the native denominations after funding.
	Supply0 []map[string]*big.Int
	// Escrowed[endKey][coin]: amount the model holds in the escrow account of an end.
	Escrowed map[string]map[string]*big.Int
	// Minted[endKey][coin]: vouchers (coin = voucher denom) minted minus burned through an end.
	Minted map[string]map[string]*big.Int
	// TotalEscrow[chain][coin]: Σ escrow movements of IBC transfers (+ on escrow, - on release).
	TotalEscrow []map[string]*big.Int
	// Donated[chain][coin]: amounts sent to escrow accounts by plain bank sends (not IBC).
	Donated []map[string]*big.Int
}

func newModel(w *World) *Model {
	n := len(w.Chains)
	m := &Model{w: w, Escrowed: map[string]map[string]*big.Int{}, Minted: map[string]map[string]*big.Int{}}
	for i := 0; i < n; i++ {
		m.Denoms = append(m.Denoms, map[string]Denom{})
		m.Bal = append(m.Bal, map[string]map[string]*big.Int{})
		m.Supply0 = append(m.Supply0, map[string]*big.Int{})
		m.TotalEscrow = append(m.TotalEscrow, map[string]*big.Int{})
		m.Donated = append(m.Donated, map[string]*big.Int{})
		for _, d := range w.Native[i] {
			m.Denoms[i][d] = Denom{Base: d}
			m.Supply0[i][d] = w.Supply(i, d).Amount.BigInt()
		}
		// the ledger starts from the real genesis + funding state (ibctesting funds all ten
		// accounts with its secondary denom "ufoo" at genesis)
		for k, v := range w.BankOf(i) {
			isSup, label, coin := SplitKey(k)
			if !isSup {
				m.add(i, label, coin, v)
			}
		}
	}
	return m
}

func addTo(m map[string]*big.Int, k string, v *big.Int) {
	cur, ok := m[k]
	if !ok {
		cur = new(big.Int)
		m[k] = cur
	}
	cur.Add(cur, v)
}

func neg(v *big.Int) *big.Int { return new(big.Int).Neg(v) }

func (m *Model) add(chain int, label, coin string, v *big.Int) {
	if m.Bal[chain][label] == nil {
		m.Bal[chain][label] = map[string]*big.Int{}
	}
	addTo(m.Bal[chain][label], coin, v)
}

// BalOf is the model balance of label on chain in coin.
func (m *Model) BalOf(chain int, label, coin string) *big.Int {
	if v, ok := m.Bal[chain][label][coin]; ok {
		return v
	}
	return new(big.Int)
}

func (m *Model) sub2(mm map[string]map[string]*big.Int, k1, k2 string, v *big.Int) {
	if mm[k1] == nil {
		mm[k1] = map[string]*big.Int{}
	}
	addTo(mm[k1], k2, v)
}

// Held lists the coins tracked account k of chain holds per the model (positive balance),
// vouchers first when voucherFirst, each group sorted by model path.
func (m *Model) Held(chain, k int) []Denom {
	var out []Denom
	for coin, v := range m.Bal[chain][AcctLabel(k)] {
		if v.Sign() > 0 {
			out = append(out, m.Denoms[chain][coin])
		}
	}
	sort.Slice(out, func(i, j int) bool {
		if out[i].Hops() != out[j].Hops() {
			return out[i].Hops() < out[j].Hops()
		}
		return out[i].Path() < out[j].Path()
	})
	return out
}

func (m *Model) learn(chain int, d Denom) { m.Denoms[chain][d.Coin()] = d }

// onSend applies a committed send.
func (m *Model) onSend(p *TPkt) {
	c := p.Src.Chain
	ek := endKey(c, p.Src.ID)
	for _, l := range p.Legs {
		coin := l.Denom.Coin()
		m.add(c, AcctLabel(l.Sender), coin, neg(l.Amount))
		if l.Return {
			// vouchers minted through this very end are burned
			m.sub2(m.Minted, ek, coin, neg(l.Amount))
		} else {
			m.add(c, EscrowLabel(p.Src.ID), coin, l.Amount)
			m.sub2(m.Escrowed, ek, coin, l.Amount)
			addTo(m.TotalEscrow[c], coin, l.Amount)
		}
	}
	p.Status = StSent
}

// onRecv applies a committed (non-noop) receive with the observed acknowledgement status.
func (m *Model) onRecv(p *TPkt, success bool) {
	if !success {
		p.Status = StRecvErr
		return
	}
	c := p.Dst.Chain
	ek := endKey(c, p.Dst.ID)
	for _, l := range p.Legs {
		to := ""
		switch l.RKind {
		case RAcct:
			to = AcctLabel(l.Receiver)
		case RBlocked:
			to = BlockedLabel()
		default:
			to = "invalid-receiver"
		}
		if l.Return {
			d := l.Denom.Pop()
			coin := d.Coin()
			m.learn(c, d)
			m.add(c, EscrowLabel(p.Dst.ID), coin, neg(l.Amount))
			m.sub2(m.Escrowed, ek, coin, neg(l.Amount))
			addTo(m.TotalEscrow[c], coin, neg(l.Amount))
			m.add(c, to, coin, l.Amount)
		} else {
			d := l.Denom.Push(p.Dst.ID)
			coin := d.Coin()
			m.learn(c, d)
			m.sub2(m.Minted, ek, coin, l.Amount)
			m.add(c, to, coin, l.Amount)
		}
	}
	p.Status = StRecvOK
}

// onRefund applies a committed (non-noop) error acknowledgement or timeout on the source.
func (m *Model) onRefund(p *TPkt) {
	c := p.Src.Chain
	ek := endKey(c, p.Src.ID)
	for _, l := range p.Legs {
		coin := l.Denom.Coin()
		if l.Return {
			m.sub2(m.Minted, ek, coin, l.Amount)
		} else {
			m.add(c, EscrowLabel(p.Src.ID), coin, neg(l.Amount))
			m.sub2(m.Escrowed, ek, coin, neg(l.Amount))
			addTo(m.TotalEscrow[c], coin, neg(l.Amount))
		}
		m.add(c, AcctLabel(l.Sender), coin, l.Amount)
	}
	p.Status = StRefunded
}

// onDonate applies a plain bank send of a tracked account to an escrow account.
func (m *Model) onDonate(chain, from int, e *End, coin string, amt *big.Int) {
	m.add(chain, AcctLabel(from), coin, neg(amt))
	m.add(chain, EscrowLabel(e.ID), coin, amt)
	addTo(m.Donated[chain], coin, amt)
}

// ExpectRecvSuccess is the model's prediction for a receive of p processed now: it fails when
// receiving is disabled on the destination or a leg names an invalid or blocked receiver.
func (w *World) ExpectRecvSuccess(p *TPkt) bool {
	if w.RecvDisabled[p.Dst.Chain] || p.Dst.Mock {
		return false
	}
	for _, l := range p.Legs {
		if l.RKind != RAcct {
			return false
		}
	}
	return true
}

// EscrowingEnds counts, per chain and coin, the ends whose model escrow is positive, and returns
// the maximum.
func (w *World) MaxEndsEscrowingSameDenom() int {
	best := 0
	for i := range w.Chains {
		cnt := map[string]int{}
		for _, e := range w.EndsOn(i) {
			for coin, v := range w.M.Escrowed[endKey(i, e.ID)] {
				if v.Sign() > 0 {
					cnt[coin]++
				}
			}
		}
		for _, c := range cnt {
			if c > best {
				best = c
			}
		}
	}
	return best
}

// InFlightOf sums the amounts of in-flight legs sent from end e carrying denom d (compared by path).
func (w *World) InFlightOf(e *End, d Denom) *big.Int {
	sum := new(big.Int)
	path := d.Path()
	for _, p := range w.TP {
		if p.Src != e || !p.InFlight() {
			continue
		}
		for _, l := range p.Legs {
			if l.Denom.Path() == path {
				sum.Add(sum, l.Amount)
			}
		}
	}
	return sum
}

// ---- findings ----------------------------------------------------------------------------

// Finding is a failed oracle clause: a structural signature plus a message.
type Finding struct {
	Sig string
	Msg string
}

func sortedCoins(m map[string]Denom) []string {
	out := make([]string, 0, len(m))
	for k := range m {
		out = append(out, k)
	}
	sort.Strings(out)
	return out
}

// CheckChannelBalance evaluates, on the real chain state, the per-channel conservation equation
// of ICS-20 for every end e = (X, c) with peer (Y, c') and every denomination D the model knows on
// X that is not a voucher of e itself:
//
//	bank balance of escrow_X(c) in D  ==  supply on Y of voucher(c', D)
//	                                       + in-flight D sent over c (not delivered, not refunded)
//	                                       + in-flight voucher(c', D) sent back over c' (burned on Y, not released, not refunded)
//
// nativeOnly restricts D to native denominations of X. The in-flight set is the model's (driven
// only by observed transaction outcomes and acknowledgement status).
func (w *World) CheckChannelBalance(nativeOnly bool) (out []Finding, evaluated int) {
	for _, e := range w.Ends {
		x, y := e.Chain, e.Peer.Chain
		for _, coin := range sortedCoins(w.M.Denoms[x]) {
			d := w.M.Denoms[x][coin]
			if d.HasPrefix(e.ID) {
				continue
			}
			if nativeOnly && d.Hops() > 0 {
				continue
			}
			v := d.Push(e.Peer.ID)
			esc := w.EscrowBalance(e, coin)
			sup := w.Supply(y, v.Coin()).Amount.BigInt()
			fwd := w.InFlightOf(e, d)
			back := w.InFlightOf(e.Peer, v)
			rhs := new(big.Int).Add(sup, fwd)
			rhs.Add(rhs, back)
			evaluated++
			if esc.Cmp(rhs) != 0 {
				sig := "escrow-ne-vouchers-plus-inflight"
				if d.Hops() > 0 {
					sig = "escrow-ne-vouchers-plus-inflight-multihop"
				}
				out = append(out, Finding{sig, fmt.Sprintf("end %s denom %q (coin %s): escrow balance %s != voucher supply on chain%d %s + in-flight out %s + in-flight back %s", e, d.Path(), coin, esc, y, sup, fwd, back)})
			}
		}
	}
	return out, evaluated
}

// CheckNativeSupply compares the supply of every native denomination with its value after funding.
func (w *World) CheckNativeSupply() []Finding {
	var out []Finding
	for i := range w.Chains {
		for _, d := range w.Native[i] {
			got := w.Supply(i, d).Amount.BigInt()
			if got.Cmp(w.M.Supply0[i][d]) != 0 {
				out = append(out, Finding{"native-supply-changed", fmt.Sprintf("chain%d native %q supply %s, was %s", i, d, got, w.M.Supply0[i][d])})
			}
		}
	}
	return out
}

// CheckEscrowTotals evaluates C31 on every chain and every denomination the model or the keeper
// knows: tracked total == Σ model escrow movements, 0 <= tracked <= Σ bank balances of the
// transfer escrow accounts of that chain.
func (w *World) CheckEscrowTotals() (out []Finding, evaluated int) {
	for i := range w.Chains {
		coins := map[string]bool{}
		for c := range w.M.Denoms[i] {
			coins[c] = true
		}
		for c := range w.M.TotalEscrow[i] {
			coins[c] = true
		}
		tracked := w.AllTrackedEscrow(i)
		for c := range tracked {
			coins[c] = true
		}
		list := make([]string, 0, len(coins))
		for c := range coins {
			list = append(list, c)
		}
		sort.Strings(list)
		for _, c := range list {
			got := w.TrackedEscrow(i, c)
			if it, ok := tracked[c]; ok && it.Cmp(got) != 0 {
				out = append(out, Finding{"tracked-escrow-iterator-disagrees", fmt.Sprintf("chain%d %s: GetTotalEscrowForDenom %s, GetAllTotalEscrowed %s", i, c, got, it)})
			}
			want := new(big.Int)
			if v, ok := w.M.TotalEscrow[i][c]; ok {
				want = v
			}
			bank := new(big.Int)
			for _, e := range w.EndsOn(i) {
				bank.Add(bank, w.EscrowBalance(e, c))
			}
			evaluated++
			if got.Sign() < 0 {
				out = append(out, Finding{"tracked-escrow-negative", fmt.Sprintf("chain%d %s: tracked escrow %s", i, c, got)})
			}
			if got.Cmp(want) != 0 {
				out = append(out, Finding{"tracked-escrow-ne-movements", fmt.Sprintf("chain%d %s: tracked escrow %s, Σ model escrow movements %s (Σ escrow account balances %s)", i, c, got, want, bank)})
			}
			if got.Cmp(bank) > 0 {
				out = append(out, Finding{"tracked-escrow-exceeds-balances", fmt.Sprintf("chain%d %s: tracked escrow %s > Σ escrow account balances %s", i, c, got, bank)})
			}
		}
	}
	return out, evaluated
}

// ModelDiff compares every balance the model tracks (tracked accounts, escrow accounts, blocked
// module account) and every balance the chain holds for a known label with the model ledger.
func (w *World) ModelDiff() []string { return w.ModelDiffFrom(w.Banks()) }

// ModelDiffFrom is ModelDiff on snapshots already taken.
func (w *World) ModelDiffFrom(banks []Bank) []string {
	var out []string
	for i := range w.Chains {
		b := banks[i]
		seen := map[string]bool{}
		for k, v := range b {
			isSup, label, coin := SplitKey(k)
			if isSup || strings.HasPrefix(label, "mod:") && label != BlockedLabel() {
				continue
			}
			seen[label+"|"+coin] = true
			if want := w.M.BalOf(i, label, coin); want.Cmp(v) != 0 {
				out = append(out, fmt.Sprintf("chain%d %s %s: chain %s model %s", i, label, coin, v, want))
			}
		}
		for label, mm := range w.M.Bal[i] {
			for coin, want := range mm {
				if seen[label+"|"+coin] || want.Sign() == 0 {
					continue
				}
				out = append(out, fmt.Sprintf("chain%d %s %s: chain 0 model %s", i, label, coin, want))
			}
		}
	}
	sort.Strings(out)
	return out
}
