package gmpcb

import (
	_ "github.com/cosmos/ibc-go/v11/modules/apps/callbacks/internal"
	_ "github.com/cosmos/ibc-go/v11/modules/apps/callbacks/testing/simapp"
	_ "github.com/cosmos/ibc-go/v11/modules/apps/callbacks/verifx/sim"
)
