package tm

import (
	"testing"

	"pgregory.net/rapid"

	"github.com/cosmos/ibc-go/v11/modules/apps/callbacks/verifx/vx"
)

// C23: a Tendermint client update never stores a consensus state whose timestamp is not
// strictly between the timestamps of its stored neighbours; an update that would break
// this freezes the client instead.

func runC23(outer *testing.T) func(t rapid.TB, c Case, rec *vx.Case) {
	return func(t rapid.TB, c Case, rec *vx.Case) {
		const id = "C23"
		e := newEnv(outer, t, c, false)
		gapBad, gapGood, tipBad, badRejected := 0, 0, 0, 0
		for i, op := range c.Ops {
			st := e.exec(i, op)
			// invariant: timestamps strictly increase in (revision, height) order
			hs := st.Post.Heights()
			for k := 1; k < len(hs); k++ {
				if !(st.PostTs[hs[k-1]] < st.PostTs[hs[k]]) {
					vx.Violatef(t, rec, id, "timestamps-not-increasing", "after the step, height %s has ts %d and height %s has ts %d; %s", hs[k-1], st.PostTs[hs[k-1]], hs[k], st.PostTs[hs[k]], describe(st))
				}
			}
			if st.Hdr == nil || st.Kind == "misb" || st.StoredBefore {
				continue
			}
			if !st.TimeOK && !st.OK {
				badRejected++
			}
			if !st.OK {
				continue
			}
			if st.TimeOK {
				if st.Between {
					gapGood++
					rec.Class("gap-fill-stored")
				}
				continue
			}
			// the header passed verification but its time is not strictly between the neighbours'
			if st.Between {
				gapBad++
				rec.Class("gap-fill-bad-time-%s", st.Op.TM)
			} else {
				tipBad++
				rec.Class("edge-bad-time-%s", st.Op.TM)
			}
			for _, h := range hs {
				if _, ok := st.Pre.Cons[h]; !ok {
					vx.Violatef(t, rec, id, "bad-time-stored", "a header with time %d outside (%d,%d) of its neighbours stored height %s; %s", st.Hdr.Ts, st.PrevTs, st.NextTs, h, describe(st))
				}
			}
			if !frozenCS(st.PostCS) {
				vx.Violatef(t, rec, id, "bad-time-not-frozen", "a verified header with time %d outside (%d,%d) of its neighbours did not freeze the client; %s", st.Hdr.Ts, st.PrevTs, st.NextTs, describe(st))
			}
		}
		rec.Add("gap_fill_bad_time_verified", int64(gapBad))
		rec.Add("gap_fill_good_time_stored", int64(gapGood))
		rec.Add("edge_bad_time_verified", int64(tipBad))
		rec.Add("bad_time_rejected_by_verification", int64(badRejected))
		rec.NonTrivialIf(gapBad >= 1)
	}
}

var wC23 = weights{"tip": 7, "past": 8, "update": 2, "time": 1, "block": 1}

func TestC23(t *testing.T) {
	vx.Check(t, vx.Prop[Case]{
		ID:          "C23",
		Rule:        "updates in arbitrary height order (tip, gap-filling) with header times drawn relative to the stored neighbours (prev.ts-1, prev.ts, prev.ts+1, midpoint, next.ts-1, next.ts, next.ts+1, trusted.ts, now); non-trivial = a gap-filling header whose time is at/outside a neighbour's and that passed signature verification; distinct by full history",
		MinNTFrac:   0.25,
		Assumptions: []string{"counterparty chain V is virtual: the harness owns its validator keys (ed25519 from secret val-<i>) and signs headers itself", "recovery = ClientKeeper.RecoverClient (MsgRecoverClient after its authority check); upgrades and client genesis import are not exercised", "raw client store parsed by its documented key layout; stored protobuf values decoded with the app codec"},
		Gen: func(t *rapid.T) Case {
			return genCase(t, wC23, 24, func(i, n int) int {
				if i < 4 {
					return 0
				}
				return 45
			})
		},
		Run: runC23(t),
	})
}
