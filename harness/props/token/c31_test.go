package token

import (
	"testing"

	"pgregory.net/rapid"

	"github.com/cosmos/ibc-go/v11/modules/apps/callbacks/verifx/tokensim"
	"github.com/cosmos/ibc-go/v11/modules/apps/callbacks/verifx/vx"
)

// C31: after every step, on every chain and for every denomination the model or the keeper knows:
// TransferKeeper.GetTotalEscrowForDenom == Σ model escrow movements (+ amount on a committed send
// that escrows, - amount on a refund of an escrowed leg, - amount on a successful receive that
// releases escrow), it is >= 0, and it is <= Σ bank balances of that denomination over all
// transfer escrow accounts of the chain (strictly smaller after plain bank sends to an escrow
// address, which the generator includes). Packet-forward refund moves are C43's.

func runC31(outer *testing.T) func(t rapid.TB, h tokensim.History, rec *vx.Case) {
	return func(t rapid.TB, h tokensim.History, rec *vx.Case) {
		const id = "C31"
		w := tokensim.NewWorld(outer, h.Spec)
		ta := newTally()
		var evaluated int64
		v2Escrow := false
		for i, op := range h.Ops {
			st := w.Exec(i, op)
			ta.note(w, st)
			if st.Effect == "send" && st.Pkt.Kind != tokensim.KV1 {
				for _, l := range st.Pkt.Legs {
					if !l.Return {
						v2Escrow = true
					}
				}
			}
			fs, n := w.CheckEscrowTotals()
			evaluated += int64(n)
			if len(fs) > 0 {
				vx.Violatef(t, rec, id, fs[0].Sig, "after step %d: %s -- %s", i, fmtFindings(fs), st.Describe())
				return
			}
		}
		rec.Add("totals_evaluated", evaluated)
		ta.record(rec, h)
		if v2Escrow {
			rec.Class("escrow-through-v2-or-alias")
		}
		if ta.donations > 0 {
			rec.Class("donation-to-escrow")
		}
		rec.NonTrivialIf(ta.maxSameEsc >= 2 && (ta.refunds >= 1 || ta.returns >= 1))
	}
}

func TestC31(t *testing.T) {
	vx.Check(t, vx.Prop[tokensim.History]{
		ID: "C31",
		Rule: "C30's worlds and scripts, biased toward fan-out scripts (one account escrows the same denomination over several v1 / v2 / alias routes of one chain, some packets refunded, some delivered and partly returned) plus plain bank sends to escrow addresses; " +
			"non-trivial = at some step >= 2 channels/clients of one chain hold escrow of the same denomination AND at least one release happened (refund or returned voucher); distinct by full history",
		MinNTFrac:   0.3,
		Assumptions: []string{assumeDenoms, "packet-forward-middleware escrow moves are out of scope here (C43)"},
		Gen: func(t *rapid.T) tokensim.History {
			return tokensim.GenHistory(t, tokensim.GenCfg{MaxScripts: 5, Donate: true, SameDenom: true})
		},
		Run: runC31(t),
	})
}
