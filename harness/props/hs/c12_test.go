package hs

import (
	"fmt"
	"strings"
	"testing"

	"pgregory.net/rapid"

	sdk "github.com/cosmos/cosmos-sdk/types"

	channeltypes "github.com/cosmos/ibc-go/v11/modules/core/04-channel/types"
	host "github.com/cosmos/ibc-go/v11/modules/core/24-host"
	ibctesting "github.com/cosmos/ibc-go/v11/testing"
	ibcmock "github.com/cosmos/ibc-go/v11/testing/mock"

	"github.com/cosmos/ibc-go/v11/modules/apps/callbacks/verifx/sim"
	"github.com/cosmos/ibc-go/v11/modules/apps/callbacks/verifx/vx"
)

// C12: channel handshake state machine and end-to-end agreement.
//
// Two chains, 1 or 2 OPEN connections, up to 3 concurrent channel attempts on the mock port.
// Every handshake message is built by hand so that any message can be sent in any state with a
// proof taken at any consensus height the verifying client stores (or does not store),
// duplicated, replayed verbatim, out of order, with crossing INITs. The mock application
// negotiates versions ("a>b" proposed by INIT is answered with "b" by TRY, "a>" with the EMPTY
// version, a proposal "_" is stored as the empty version by INIT and answered with "" (UNORDERED)
// or "dflt" (ORDERED)), so version agreement - including every empty/non-empty boundary - is
// not vacuous. The negotiation is exercised in all four shapes: answer equal to the proposal,
// different non-empty answer, empty answer to a non-empty proposal, non-empty answer to an empty
// proposal.
// is not vacuous. A low-weight "plant" op overwrites one non-state field of a not-yet-OPEN end
// by a direct store write (a counterparty chain that does not run ibc-go): the oracle is always
// relative to the RECORDED history of both chains, so it stays sound.

type c12Attempt struct {
	Ord   int    // 1 UNORDERED, 2 ORDERED
	Ver   string // version proposed by INIT
	Conn  int    // which of the connections
	First int    // chain that sends the first INIT
}

type c12Op struct {
	K string // init try ack confirm closeinit closeconfirm update block plant replay
	C int    // chain the op acts on
	A int    // attempt
	L int    // local channel id selector
	R int    // remote channel id selector
	H int    // proof height selector (see pickHeight)
	M string // mutation: "" ord ver conn xa (for replay: message kind filter)
	N int    // replay: N-th newest matching message
}

type c12Case struct {
	NConn    int
	Attempts []c12Attempt
	Ops      []c12Op
}

var c12Kinds = []string{"init", "try", "ack", "confirm", "closeinit", "closeconfirm", "update", "block", "plant", "replay"}
var c12Muts = []string{"ord", "ver", "conn", "xa"}

func genC12Op(nAtt int) func(t *rapid.T) c12Op {
	return func(t *rapid.T) c12Op {
		return c12Op{
			K: rapid.SampledFrom(c12Kinds).Draw(t, "k"),
			C: rapid.IntRange(0, 1).Draw(t, "c"),
			A: rapid.IntRange(0, nAtt-1).Draw(t, "a"),
			L: rapid.IntRange(-1, 2).Draw(t, "l"),
			R: rapid.IntRange(-1, 2).Draw(t, "r"),
			H: rapid.IntRange(-1, 3).Draw(t, "h"),
			M: rapid.SampledFrom(append([]string{"", "", ""}, c12Muts...)).Draw(t, "m"),
			N: rapid.IntRange(0, 6).Draw(t, "n"),
		}
	}
}

func genC12(t *rapid.T) c12Case {
	c := c12Case{NConn: 1}
	if chance(t, 40, "twoConns") {
		c.NConn = 2
	}
	nAtt := rapid.IntRange(1, 3).Draw(t, "attempts")
	var lists [][]c12Op
	for a := 0; a < nAtt; a++ {
		att := c12Attempt{
			Ord:   rapid.IntRange(1, 2).Draw(t, "ord"),
			Ver:   rapid.SampledFrom([]string{"v1", "a>b", "a>", "_", "mock-version", "", "p>q>r", "a>", "_"}).Draw(t, "ver"),
			Conn:  rapid.IntRange(0, c.NConn-1).Draw(t, "conn"),
			First: rapid.IntRange(0, 1).Draw(t, "first"),
		}
		c.Attempts = append(c.Attempts, att)
		lists = append(lists, genC12Skeleton(t, a, att))
	}
	// honest client updates / empty blocks at random points
	var noise []c12Op
	for k := rapid.IntRange(0, 3).Draw(t, "noise"); k > 0; k-- {
		noise = append(noise, c12Op{K: rapid.SampledFrom([]string{"update", "block"}).Draw(t, "nk"),
			C: rapid.IntRange(0, 1).Draw(t, "nc"), A: rapid.IntRange(0, nAtt-1).Draw(t, "na"), H: -1})
	}
	lists = append(lists, noise)
	c.Ops = interleave(t, lists)
	c.Ops = perturb(t, c.Ops, rapid.IntRange(0, 5).Draw(t, "edits"), genC12Op(nAtt))
	if len(c.Ops) > 30 {
		c.Ops = c.Ops[:30]
	}
	return c
}

// genC12Skeleton emits the relayer's happy path for one attempt (optionally with crossing INITs
// and both directions completing), each step optionally preceded by a stale-proof variant and a
// mutated variant and occasionally dropped, followed by an optional closing handshake with a
// premature close-confirm and verbatim replays of earlier messages.
func genC12Skeleton(t *rapid.T, a int, att c12Attempt) []c12Op {
	x, y := att.First, 1-att.First
	var pre []c12Op
	step := func(dst *[]c12Op, op c12Op) {
		op.A, op.H = a, -1
		if op.K != "init" && op.K != "closeinit" && chance(t, 20, "stale") {
			s := op
			s.H = rapid.IntRange(0, 2).Draw(t, "staleH")
			*dst = append(*dst, s)
		}
		if chance(t, 18, "mut") {
			m := op
			m.M = rapid.SampledFrom(c12Muts).Draw(t, "mutKind")
			*dst = append(*dst, m)
		}
		if chance(t, 93, "keep") {
			*dst = append(*dst, op)
		}
	}
	step(&pre, c12Op{K: "init", C: x})
	ix, iy, ty, tx := 0, 0, 0, 0
	crossing := chance(t, 35, "crossing")
	if crossing {
		step(&pre, c12Op{K: "init", C: y})
		ty = 1
		if chance(t, 50, "swapInits") && len(pre) >= 2 {
			pre[0], pre[len(pre)-1] = pre[len(pre)-1], pre[0]
		}
	}
	var d1, d2 []c12Op
	if chance(t, 25, "plant") {
		d1 = append(d1, c12Op{K: "plant", C: rapid.IntRange(0, 1).Draw(t, "plantC"), A: a, L: 0, M: rapid.SampledFrom(c12Muts[:3]).Draw(t, "plantM")})
	}
	step(&d1, c12Op{K: "try", C: y, R: ix})
	step(&d1, c12Op{K: "ack", C: x, L: ix, R: ty})
	step(&d1, c12Op{K: "confirm", C: y, L: ty})
	if crossing && chance(t, 50, "dir2") {
		tx = 1
		step(&d2, c12Op{K: "try", C: x, R: iy})
		step(&d2, c12Op{K: "ack", C: y, L: iy, R: tx})
		step(&d2, c12Op{K: "confirm", C: x, L: tx})
	}
	out := append(pre, interleave(t, [][]c12Op{d1, d2})...)
	if chance(t, 50, "close") {
		z := rapid.IntRange(0, 1).Draw(t, "closer")
		lz, lo := ix, ty // local selectors of the dir-1 pair on x and y
		if z == y {
			lz, lo = ty, ix
		}
		o := 1 - z
		if chance(t, 50, "premature") {
			out = append(out, c12Op{K: "closeconfirm", C: o, A: a, L: lo, H: -1})
		}
		step(&out, c12Op{K: "closeinit", C: z, L: lz})
		if chance(t, 60, "reopen") {
			out = append(out, c12Op{K: "replay", C: z, A: a, M: rapid.SampledFrom([]string{"ack", "confirm", ""}).Draw(t, "replayK"), N: rapid.IntRange(0, 2).Draw(t, "replayN")})
		}
		step(&out, c12Op{K: "closeconfirm", C: o, L: lo})
		if chance(t, 40, "reopen2") {
			out = append(out, c12Op{K: "replay", C: o, A: a, M: rapid.SampledFrom([]string{"ack", "confirm", ""}).Draw(t, "replayK2"), N: rapid.IntRange(0, 2).Draw(t, "replayN2")})
		}
	}
	return out
}

// ---- execution -----------------------------------------------------------------------

type chanEnds = map[string]channeltypes.Channel // "port/channel" -> end

type c12World struct {
	w       *sim.World
	conns   [2][]string // connection ids per chain, by connection index
	clients [2][]string // client ids per chain, by connection index
	ids     [][2][]string
	cur     [2]chanEnds
	hist    [2]hist[channeltypes.Channel]
	sent    []sentRec
}

func chanKey(port, id string) string { return port + "/" + id }

// initStored is the version the mock application stores on INIT for a proposal: "_" stands for
// the empty version (the mock module wrapper replaces a literally blank proposal by
// "mock-version" before the callback runs, so blank itself never reaches the store).
func initStored(v string) string {
	if v == "_" {
		return ""
	}
	return v
}

// negotiate is the mock application's answer on TRY to the version stored by INIT: "a>b" is
// answered with "b", "a>" with the empty version, the empty version with "" on UNORDERED and
// "dflt" on ORDERED channels, anything else is echoed.
func negotiate(v string, ord channeltypes.Order) string {
	if v == "" {
		if ord == channeltypes.ORDERED {
			return "dflt"
		}
		return ""
	}
	if i := strings.Index(v, ">"); i >= 0 {
		return v[i+1:]
	}
	return v
}

func (x *c12World) readChannels(c int) chanEnds {
	out := chanEnds{}
	for _, ic := range x.w.App(c).IBCKeeper.ChannelKeeper.GetAllChannels(x.w.Ctx(c)) {
		out[chanKey(ic.PortId, ic.ChannelId)] = channeltypes.Channel{State: ic.State, Ordering: ic.Ordering,
			Counterparty: ic.Counterparty, ConnectionHops: ic.ConnectionHops, Version: ic.Version}
	}
	return out
}

func newC12World(outer *testing.T, nconn int, nAtt int) *c12World {
	x := &c12World{w: sim.NewWorld(outer, 2, nil), ids: make([][2][]string, nAtt)}
	w := x.w
	sim.Guard("connection setup", func() {
		for k := 0; k < nconn; k++ {
			p := ibctesting.NewPath(w.Chains[0], w.Chains[1])
			p.SetupConnections()
			x.conns[0] = append(x.conns[0], p.EndpointA.ConnectionID)
			x.conns[1] = append(x.conns[1], p.EndpointB.ConnectionID)
			x.clients[0] = append(x.clients[0], p.EndpointA.ClientID)
			x.clients[1] = append(x.clients[1], p.EndpointB.ClientID)
		}
	})
	for c := 0; c < 2; c++ {
		w.App(c).IBCMockModule.IBCApp.OnChanOpenInit = func(_ sdk.Context, _ channeltypes.Order, _ []string, _, _ string, _ channeltypes.Counterparty, version string) (string, error) {
			return initStored(version), nil
		}
		w.App(c).IBCMockModule.IBCApp.OnChanOpenTry = func(_ sdk.Context, order channeltypes.Order, _ []string, _, _ string, _ channeltypes.Counterparty, counterpartyVersion string) (string, error) {
			return negotiate(counterpartyVersion, order), nil
		}
		x.cur[c] = x.readChannels(c)
		x.hist[c].record(w.Height(c), x.cur[c])
	}
	return x
}

func flipOrder(o channeltypes.Order) channeltypes.Order {
	if o == channeltypes.ORDERED {
		return channeltypes.UNORDERED
	}
	return channeltypes.ORDERED
}

// hopFor returns (connection id, verifying client id) used by attempt att on chain c; with
// mutate the other connection (or a non-existent one) is named instead.
func (x *c12World) hopFor(c int, att c12Attempt, mutate bool) (string, string) {
	n := len(x.conns[c])
	i := att.Conn % n
	if !mutate {
		return x.conns[c][i], x.clients[c][i]
	}
	if n == 1 {
		return "connection-9", x.clients[c][i]
	}
	j := (i + 1) % n
	return x.conns[c][j], x.clients[c][j]
}

// clientOfChannel returns the client that verifies proofs for an existing local channel end.
func (x *c12World) clientOfChannel(c int, ch channeltypes.Channel, fallback string) string {
	if len(ch.ConnectionHops) == 1 {
		if conn, ok := x.w.App(c).IBCKeeper.ConnectionKeeper.GetConnection(x.w.Ctx(c), ch.ConnectionHops[0]); ok {
			for _, cl := range x.clients[c] {
				if cl == conn.ClientId {
					return cl
				}
			}
		}
	}
	return fallback
}

type c12Step struct {
	kind    string // message kind delivered ("" if no handshake tx)
	chain   int
	h       uint64
	ok      bool
	hadTx   bool
	planted bool
	fresh   bool
	stale   bool // proof height below the client's latest height at submission
	replay  bool
	basicOK bool
}

// build constructs the handshake message of op (nil if the op is not a message op).
func (x *c12World) build(cs c12Case, op c12Op) (sdk.Msg, uint64, bool) {
	w := x.w
	c := op.C & 1
	o := 1 - c
	a := op.A % len(cs.Attempts)
	att := cs.Attempts[a]
	ra := a
	if op.M == "xa" {
		ra = (a + 1) % len(cs.Attempts)
	}
	signer := w.Addr(c, 0).String()
	port := ibcmock.PortID
	ord := channeltypes.Order(att.Ord)
	localID := selID(x.ids[a][c], op.L, "channel-")
	remoteID := selID(x.ids[ra][o], op.R, "channel-")
	local, haveLocal := x.cur[c][chanKey(port, localID)]
	_, fallbackClient := x.hopFor(c, att, false)

	switch op.K {
	case "init":
		hop, _ := x.hopFor(c, att, op.M == "conn")
		if op.M == "ord" {
			ord = flipOrder(ord)
		}
		ver := att.Ver
		if op.M == "ver" {
			ver += "x"
		}
		return channeltypes.NewMsgChannelOpenInit(port, ver, ord, []string{hop}, port, signer), 0, false
	case "try":
		hop, client := x.hopFor(c, att, op.M == "conn")
		cpVer := initStored(att.Ver)
		if cp, ok := x.cur[o][chanKey(port, remoteID)]; ok { // what a relayer reads off the counterparty
			cpVer, ord = cp.Version, cp.Ordering
		}
		if op.M == "ord" {
			ord = flipOrder(ord)
		}
		if op.M == "ver" {
			cpVer += "x"
		}
		h, fresh := pickHeight(w, c, client, o, op.H)
		proof, ph := w.Proof(o, host.ChannelKey(port, remoteID), h)
		return channeltypes.NewMsgChannelOpenTry(port, att.Ver, ord, []string{hop}, port, remoteID, cpVer, proof, ph, signer), h, fresh
	case "ack":
		client := x.clientOfChannel(c, local, fallbackClient)
		cpVer := negotiate(initStored(att.Ver), ord)
		if cp, ok := x.cur[o][chanKey(port, remoteID)]; ok {
			cpVer = cp.Version
		}
		if op.M == "ver" {
			cpVer += "x"
		}
		h, fresh := pickHeight(w, c, client, o, op.H)
		proof, ph := w.Proof(o, host.ChannelKey(port, remoteID), h)
		return channeltypes.NewMsgChannelOpenAck(port, localID, remoteID, cpVer, proof, ph, signer), h, fresh
	case "confirm", "closeconfirm":
		client := x.clientOfChannel(c, local, fallbackClient)
		proofID := remoteID
		if haveLocal && local.Counterparty.ChannelId != "" && op.M != "xa" {
			proofID = local.Counterparty.ChannelId
		}
		h, fresh := pickHeight(w, c, client, o, op.H)
		proof, ph := w.Proof(o, host.ChannelKey(port, proofID), h)
		if op.K == "confirm" {
			return channeltypes.NewMsgChannelOpenConfirm(port, localID, proof, ph, signer), h, fresh
		}
		return channeltypes.NewMsgChannelCloseConfirm(port, localID, proof, ph, signer), h, fresh
	case "closeinit":
		return channeltypes.NewMsgChannelCloseInit(port, localID, signer), 0, false
	}
	return nil, 0, false
}

func (x *c12World) exec(cs c12Case, op c12Op, rec *vx.Case) c12Step {
	w := x.w
	c := op.C & 1
	o := 1 - c
	a := op.A % len(cs.Attempts)
	att := cs.Attempts[a]
	st := c12Step{chain: c}
	switch op.K {
	case "update":
		_, client := x.hopFor(c, att, false)
		w.UpdateClient(c, client, o, 0)
		return st
	case "block":
		w.Block(c, 1)
		return st
	case "plant":
		id := selID(x.ids[a][c], op.L, "channel-")
		ch, ok := x.cur[c][chanKey(ibcmock.PortID, id)]
		if !ok || (ch.State != channeltypes.INIT && ch.State != channeltypes.TRYOPEN) {
			rec.Add("plant_skipped", 1)
			return st
		}
		switch op.M {
		case "ord":
			ch.Ordering = flipOrder(ch.Ordering)
		case "ver":
			ch.Version += "~"
		case "conn":
			hop, _ := x.hopFor(c, att, true)
			ch.ConnectionHops = []string{hop}
		default:
			ch.Counterparty.ChannelId = "channel-7"
		}
		w.App(c).IBCKeeper.ChannelKeeper.SetChannel(w.Ctx(c), ibcmock.PortID, id, ch)
		w.Block(c, 1)
		st.planted = true
		rec.Add("planted", 1)
		return st
	case "replay":
		var pool []sentRec
		for _, s := range x.sent {
			if s.Chain == c && (op.M == "" || (s.Kind == op.M && s.A == a)) {
				pool = append(pool, s)
			}
		}
		if len(pool) == 0 {
			rec.Add("replay_skipped", 1)
			return st
		}
		s := pool[len(pool)-1-op.N%len(pool)]
		st.kind, st.h, st.replay, st.hadTx = s.Kind, s.H, true, true
		st.basicOK = validateBasic(s.Msg) == nil
		if s.H != 0 {
			_, client := x.hopFor(c, att, false)
			st.stale = s.H < latestHeight(w, c, client)
		}
		res := w.Deliver(c, 0, s.Msg)
		st.ok = res.OK
		x.noteNew(c, s.A, s.Kind, res.OK)
		return st
	}
	msg, h, fresh := x.build(cs, op)
	if msg == nil {
		return st
	}
	st.kind, st.h, st.fresh, st.hadTx = op.K, h, fresh, true
	st.basicOK = validateBasic(msg) == nil
	if h != 0 && !fresh {
		_, client := x.hopFor(c, att, false)
		st.stale = h < latestHeight(w, c, client)
	}
	res := w.Deliver(c, 0, msg)
	st.ok = res.OK
	debugf("C12 %+v -> ok=%v h=%d err=%v", op, res.OK, h, res.Err)
	x.sent = append(x.sent, sentRec{Chain: c, Kind: op.K, A: a, H: h, Msg: msg})
	x.noteNew(c, a, op.K, res.OK)
	return st
}

// noteNew attributes channel ends created by a successful INIT/TRY to the attempt.
func (x *c12World) noteNew(c, a int, kind string, ok bool) {
	if !ok || (kind != "init" && kind != "try") {
		return
	}
	now := x.readChannels(c)
	for _, k := range sortedKeys(now) {
		if _, had := x.cur[c][k]; !had && strings.HasPrefix(k, ibcmock.PortID+"/") {
			x.ids[a][c] = append(x.ids[a][c], strings.TrimPrefix(k, ibcmock.PortID+"/"))
		}
	}
}

func allowedChanTransition(b, a channeltypes.State, existed, exists bool) bool {
	switch {
	case existed && !exists:
		return false
	case !existed && !exists:
		return true
	case !existed:
		return a == channeltypes.INIT || a == channeltypes.TRYOPEN
	case b == a:
		return true
	case b == channeltypes.CLOSED:
		return false
	case a == channeltypes.CLOSED:
		return true
	case a == channeltypes.OPEN:
		return b == channeltypes.INIT || b == channeltypes.TRYOPEN
	}
	return false
}

// check applies the C12 oracle after one step and rolls the model forward.
func (x *c12World) check(t rapid.TB, rec *vx.Case, i int, op c12Op, st c12Step) {
	const id = "C12"
	w := x.w
	for c := 0; c < 2; c++ {
		o := 1 - c
		now := x.readChannels(c)
		prev := x.cur[c]
		for _, k := range sortedKeys(prev, now) {
			pb, existed := prev[k]
			pa, exists := now[k]
			if !allowedChanTransition(pb.State, pa.State, existed, exists) {
				vx.Violatef(t, rec, id, fmt.Sprintf("bad-transition-%s-to-%s", stateName(pb.State, existed), stateName(pa.State, exists)),
					"step %d %+v on chain %d: channel end %s went %s -> %s (tx kind %q ok=%v)", i, op, c, k, stateName(pb.State, existed), stateName(pa.State, exists), st.kind, st.ok)
			}
			if !exists || (existed && pb.State == pa.State) {
				continue
			}
			port, chID, _ := strings.Cut(k, "/")
			// ---- a transition to OPEN needs the proven matching counterparty end
			if pa.State == channeltypes.OPEN {
				if !st.hadTx || !st.ok || st.chain != c || (st.kind != "ack" && st.kind != "confirm") {
					vx.Violatef(t, rec, id, "open-without-ack-or-confirm", "step %d %+v: end %s on chain %d became OPEN in a step that is not a successful ack/confirm on it (%+v)", i, op, k, c, st)
					continue
				}
				want := channeltypes.TRYOPEN
				if pb.State == channeltypes.TRYOPEN {
					want = channeltypes.OPEN
				}
				cp, ok := x.hist[o].provableAt(st.h)[chanKey(pa.Counterparty.PortId, pa.Counterparty.ChannelId)]
				why := ""
				switch {
				case !ok:
					why = "absent"
				case cp.State != want:
					why = "state"
				case cp.Ordering != pa.Ordering:
					why = "ordering"
				case cp.Counterparty.PortId != port || cp.Counterparty.ChannelId != chID:
					why = "ids"
				case cp.Version != pa.Version:
					why = "version"
				default:
					conn, found := w.App(c).IBCKeeper.ConnectionKeeper.GetConnection(w.Ctx(c), pa.ConnectionHops[0])
					if !found || len(cp.ConnectionHops) != 1 || cp.ConnectionHops[0] != conn.Counterparty.ConnectionId {
						why = "hops"
					}
				}
				if why != "" {
					vx.Violatef(t, rec, id, "open-without-matching-counterparty-"+why,
						"step %d %+v: end %s on chain %d went %s->OPEN with proof height %d, but the counterparty end %s/%s provable at that height was %+v (found=%v); own end now %+v",
						i, op, k, c, pb.State, st.h, pa.Counterparty.PortId, pa.Counterparty.ChannelId, cp, ok, pa)
				}
				rec.Add("open_transitions_checked", 1)
				if ok && pb.State == channeltypes.INIT {
					switch {
					case cp.Version == "" && pb.Version != "":
						rec.Class("ack-empty-answer-to-nonempty-proposal")
					case cp.Version != "" && pb.Version == "":
						rec.Class("ack-nonempty-answer-to-empty-proposal")
					case cp.Version == pb.Version:
						rec.Class("ack-answer-equals-proposal")
					default:
						rec.Class("ack-different-nonempty-answer")
					}
				}
			}
			// ---- close-confirm needs a proven CLOSED counterparty
			if pa.State == channeltypes.CLOSED && st.hadTx && st.ok && st.chain == c && st.kind == "closeconfirm" {
				cp, ok := x.hist[o].provableAt(st.h)[chanKey(pb.Counterparty.PortId, pb.Counterparty.ChannelId)]
				if !ok || cp.State != channeltypes.CLOSED {
					vx.Violatef(t, rec, id, "closeconfirm-counterparty-not-closed",
						"step %d %+v: close-confirm closed %s on chain %d with proof height %d, but the counterparty end provable at that height was %+v (found=%v)", i, op, k, c, st.h, cp, ok)
				}
				rec.Add("closeconfirm_checked", 1)
			}
		}
		x.cur[c] = now
		x.hist[c].record(w.Height(c), now)
	}
	// ---- agreement whenever both ends are OPEN
	for c := 0; c < 2; c++ {
		o := 1 - c
		for _, k := range sortedKeys(x.cur[c]) {
			e := x.cur[c][k]
			if e.State != channeltypes.OPEN {
				continue
			}
			port, chID, _ := strings.Cut(k, "/")
			f, ok := x.cur[o][chanKey(e.Counterparty.PortId, e.Counterparty.ChannelId)]
			if !ok || f.State != channeltypes.OPEN {
				continue
			}
			if f.Counterparty.PortId != port || f.Counterparty.ChannelId != chID || f.Ordering != e.Ordering || f.Version != e.Version {
				vx.Violatef(t, rec, id, "open-ends-disagree", "step %d %+v: both ends OPEN but disagree: chain %d %s = %+v ; chain %d = %+v", i, op, c, k, e, o, f)
			}
		}
	}
}

func stateName(s channeltypes.State, exists bool) string {
	if !exists {
		return "NONE"
	}
	return strings.TrimPrefix(s.String(), "STATE_")
}

func (x *c12World) bothOpen() (both, one bool) {
	for _, k := range sortedKeys(x.cur[0]) {
		e := x.cur[0][k]
		if e.State != channeltypes.OPEN {
			continue
		}
		one = true
		if f, ok := x.cur[1][chanKey(e.Counterparty.PortId, e.Counterparty.ChannelId)]; ok && f.State == channeltypes.OPEN {
			both = true
		}
	}
	for _, e := range x.cur[1] {
		if e.State == channeltypes.OPEN {
			one = true
		}
	}
	return both, one
}

func runC12(outer *testing.T) func(t rapid.TB, cs c12Case, rec *vx.Case) {
	return func(t rapid.TB, cs c12Case, rec *vx.Case) {
		if len(cs.Attempts) == 0 {
			return
		}
		if cs.NConn < 1 {
			cs.NConn = 1
		}
		x := newC12World(outer, cs.NConn, len(cs.Attempts))
		everBoth, everOne, rejStateful, everClosedPair := false, false, 0, false
		for i, op := range cs.Ops {
			x.w.StepNo = i
			st := x.exec(cs, op, rec)
			x.check(t, rec, i, op, st)
			if st.hadTx {
				verdict := "rejected"
				if st.ok {
					verdict = "accepted"
				}
				rec.Add(verdict+"_"+st.kind, 1)
				if !st.ok && st.basicOK {
					rejStateful++
				}
				if !st.ok && !st.basicOK {
					rec.Add("rejected_stateless", 1)
				}
				if st.replay {
					rec.Class("replay-%s", verdict)
				}
				if st.stale {
					rec.Class("stale-proof-%s", verdict)
				}
				if op.M == "" && op.H < 0 && !st.replay {
					rec.Add("plain_"+verdict, 1)
				}
				if st.ok && st.kind == "closeconfirm" {
					everClosedPair = true
				}
			}
			if st.planted {
				rec.Class("planted")
			}
			b, o := x.bothOpen()
			everBoth, everOne = everBoth || b, everOne || o
		}
		// crossing INITs: an attempt with INIT-created ends on both chains
		for a := range cs.Attempts {
			n := 0
			for c := 0; c < 2; c++ {
				for _, id := range x.ids[a][c] {
					if x.createdByInit(c, id) {
						n |= 1 << c
					}
				}
			}
			if n == 3 {
				rec.Class("crossing-inits")
			}
		}
		switch {
		case everBoth:
			rec.Class("open-both")
		case everOne:
			rec.Class("open-one-end-only")
		default:
			rec.Class("open-none")
		}
		if everClosedPair {
			rec.Class("close-handshake-completed")
		}
		if cs.NConn > 1 {
			rec.Class("two-connections")
		}
		rec.Add("rejected_state_or_proof", int64(rejStateful))
		rec.NonTrivialIf(everBoth && rejStateful >= 1)
	}
}

// createdByInit reports whether the first recorded state of the end was INIT.
func (x *c12World) createdByInit(c int, id string) bool {
	for _, m := range x.hist[c].vs {
		if e, ok := m[chanKey(ibcmock.PortID, id)]; ok {
			return e.State == channeltypes.INIT
		}
	}
	return false
}

func TestC12(t *testing.T) {
	vx.Check(t, vx.Prop[c12Case]{
		ID: "C12",
		Rule: "2 chains, 1-2 OPEN connections, 1-3 concurrent channel attempts on the mock port (ordering, version, connection, initiator drawn; mock app negotiates versions); " +
			"history = relayer happy paths (crossing INITs, both directions) interleaved, each step optionally preceded by a stale-proof or field-mutated variant or dropped, " +
			"closing handshakes with premature close-confirms, verbatim replays, honest client updates, direct-store plants on not-yet-OPEN ends, plus random edits (dup/swap/drop/random op); " +
			"non-trivial = some channel reached OPEN on both ends AND >=1 message passing ValidateBasic was rejected by the handler (state/proof reason); distinct by full history",
		MinNTFrac: 0.3,
		Assumptions: []string{
			"random search over interleavings, not exhaustive model checking",
			"model = recorded per-height history of both chains' channel ends read through ChannelKeeper.GetAllChannels; light clients are honest 07-tendermint clients",
		},
		Gen: genC12,
		Run: runC12(t),
	})
}
