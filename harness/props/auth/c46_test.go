package auth

import (
	"fmt"
	"os"
	"sort"
	"strings"
	"testing"
	"time"

	"pgregory.net/rapid"

	sdkmath "cosmossdk.io/math"

	sdk "github.com/cosmos/cosmos-sdk/types"
	authtypes "github.com/cosmos/cosmos-sdk/x/auth/types"
	govtypes "github.com/cosmos/cosmos-sdk/x/gov/types"
	upgradetypes "github.com/cosmos/cosmos-sdk/x/upgrade/types"

	cmtproto "github.com/cometbft/cometbft/proto/tendermint/types"

	icacontrollertypes "github.com/cosmos/ibc-go/v11/modules/apps/27-interchain-accounts/controller/types"
	icahosttypes "github.com/cosmos/ibc-go/v11/modules/apps/27-interchain-accounts/host/types"
	ratelimittypes "github.com/cosmos/ibc-go/v11/modules/apps/rate-limiting/types"
	transfertypes "github.com/cosmos/ibc-go/v11/modules/apps/transfer/types"
	clienttypes "github.com/cosmos/ibc-go/v11/modules/core/02-client/types"
	clientv2types "github.com/cosmos/ibc-go/v11/modules/core/02-client/v2/types"
	connectiontypes "github.com/cosmos/ibc-go/v11/modules/core/03-connection/types"
	channeltypesv2 "github.com/cosmos/ibc-go/v11/modules/core/04-channel/v2/types"
	commitmenttypes "github.com/cosmos/ibc-go/v11/modules/core/23-commitment/types"
	"github.com/cosmos/ibc-go/v11/modules/core/exported"
	ibctm "github.com/cosmos/ibc-go/v11/modules/light-clients/07-tendermint"
	ibctesting "github.com/cosmos/ibc-go/v11/testing"

	"github.com/cosmos/ibc-go/v11/modules/apps/callbacks/verifx/sim"
	"github.com/cosmos/ibc-go/v11/modules/apps/callbacks/verifx/vx"
)

// C46: privileged operations succeed only when the configured authority signs them; counterparty
// registration only for the client's creator and only once; client config updates / creator deletion
// need the authority or the creator; for a client with a non-empty relayer allow list v2 packet
// messages and client updates succeed only for listed relayers; clients whose type is not on the
// allowed-clients list cannot be created, updated or used.
//
// The check is a matrix walk: a history of requests (operation x requested signer class x delivery
// path x configuration) is executed against chain 0 of a two-chain world. The oracle is the model
// table `allows` below, written from the statement; it is a SAFETY oracle (an accepted request must
// be allowed by the model) plus "a rejected request leaves the state unchanged". The converse (a
// well-formed request of a rightful signer succeeds) is the health metric folded into the
// non-trivial rule.

const c46 = "C46"

const govID = "gov" // the x/gov module account: the keeper authority of every ibc-go module in simapp

// aop is one request of the history (plain data).
type aop struct {
	Op  string `json:"op"`            // operation (see opsAll) or "cfg-cpauth"
	Who string `json:"who,omitempty"` // requested signer class: auth | creator | listed | stranger
	Via string `json:"via,omitempty"` // direct (MsgServiceRouter handler, as x/gov executes messages) | tx (signed tx) | forged (Signer field names the class member, another key signs)
	Tgt int    `json:"tgt,omitempty"` // target client selector
	N   int    `json:"n,omitempty"`   // nonce / argument selector
	LC  string `json:"lc,omitempty"`  // relayer allow list of the target before the request: keep | empty | signer | others
	TC  string `json:"tc,omitempty"`  // allowed-clients param before the request: keep | star | with | without (the relevant client type)
	CT  string `json:"ct,omitempty"`  // create-client: tm | solo
}

type authCase struct {
	CPAuth bool  `json:"cp_auth"` // consensus-params authority override (an ordinary account) active from the start
	PadA   int   `json:"pad_a"`   // dummy clients created on chain 0 before the v2 path (shifts its client ids)
	PadB   int   `json:"pad_b"`   // dummy clients created on chain 1 before the v2 path; always != PadA so the two ends of every path have DIFFERENT ids
	Ops    []aop `json:"ops"`
}

var opsAll = []string{
	"recover", "upgrade",
	"params-client", "params-conn", "params-transfer", "params-icactl", "params-icahost",
	"rl-add", "rl-update", "rl-remove", "rl-reset",
	"register-cp", "update-config", "delete-creator",
	"recv", "ack", "timeout", "update-client",
	"create-client", "use-send", "use-conninit",
}

var sigClasses = []string{"authority", "creator", "listed", "stranger"}

// ---- model ----------------------------------------------------------------------------

type mclient struct {
	ID      string
	Type    string
	Role    string // P (v2 link to chain 1) | R (recovery subject) | U (substitute) | S (solo machine) | new
	Creator string // identity of the creator; "" once deleted
	Ex      string // former creator after deletion
	List    []string
	CP      bool // counterparty registered
	Solo    *ibctesting.Solomachine
}

type model struct {
	clients []*mclient
	allowed []string // allowed-clients param
	cpAuth  bool     // consensus-params authority override active
	rl      bool     // the (stake, P) rate limit exists
	trSend  bool
	trRecv  bool
	icaCtl  bool
}

func contains(l []string, s string) bool {
	for _, e := range l {
		if e == s {
			return true
		}
	}
	return false
}

func sameList(a, b []string) bool {
	if len(a) != len(b) {
		return false
	}
	for i := range a {
		if a[i] != b[i] {
			return false
		}
	}
	return true
}

// typeAllowed: the client type is on the allowed-clients list ("*" alone allows every type).
func (m *model) typeAllowed(t string) bool {
	if len(m.allowed) == 1 && m.allowed[0] == "*" {
		return true
	}
	return contains(m.allowed, t)
}

func (m *model) authority() string {
	if m.cpAuth {
		return "a5"
	}
	return govID
}

// allows is the model table: may identity s perform op on client x (ctype: type of the client to be
// created) in the current configuration? Written from the property statement only.
func (m *model) allows(op, s string, x *mclient, recoverSubjectType, ctype string) bool {
	isAuth := s == m.authority()
	isCreator := x.Creator != "" && s == x.Creator
	relayerOK := len(x.List) == 0 || contains(x.List, s)
	switch op {
	case "recover":
		return isAuth && m.typeAllowed(recoverSubjectType)
	case "upgrade", "params-client", "params-conn", "params-transfer", "params-icactl", "params-icahost",
		"rl-add", "rl-update", "rl-remove", "rl-reset":
		return isAuth
	case "register-cp":
		return isCreator && !x.CP
	case "update-config", "delete-creator":
		return isAuth || isCreator
	case "recv", "ack", "timeout", "update-client":
		return relayerOK && m.typeAllowed(x.Type)
	case "create-client":
		return m.typeAllowed(ctype)
	case "use-send", "use-conninit":
		return m.typeAllowed(x.Type)
	}
	return false
}

func (m *model) classify(s string, x *mclient) string {
	switch {
	case s == m.authority():
		return "authority"
	case x.Creator != "" && s == x.Creator:
		return "creator"
	case contains(x.List, s):
		return "listed"
	}
	return "stranger"
}

// ---- runner ---------------------------------------------------------------------------

type runner struct {
	t       rapid.TB
	rec     *vx.Case
	outer   *testing.T
	w       *sim.World
	l       *sim.Link
	m       *model
	P, R, U *mclient
	stores  []string
	step    int
	nonce   int

	pendRecv, pendAck, pendTimeout []*sim.Pkt

	forbidden, posExpected, posOK int
	cells                         map[string]bool
}

func ident(k int) string { return fmt.Sprintf("a%d", k) }

func keyIdx(id string) int {
	if id == govID || id == "" {
		return -1
	}
	return int(id[1] - '0')
}

func (r *runner) addr(id string) string {
	if id == govID {
		return authtypes.NewModuleAddress(govtypes.ModuleName).String()
	}
	return r.w.Addr(0, keyIdx(id)).String()
}

func (r *runner) addrs(ids []string) []string {
	out := make([]string, 0, len(ids))
	for _, i := range ids {
		out = append(out, r.addr(i))
	}
	return out
}

// direct executes msg the way x/gov executes the messages of a passed proposal: the handler
// registered in the MsgServiceRouter runs on a cached context carrying the consensus params of
// the chain; the cache is written only on success. Used for signers without a key (the gov module
// account) and, as a second path, for every other signer.
func (r *runner) direct(msg sdk.Msg) (ok bool) {
	app := r.w.App(0)
	base := r.w.Ctx(0)
	base = base.WithConsensusParams(app.GetConsensusParams(base))
	ctx, write := base.CacheContext()
	h := app.MsgServiceRouter().Handler(msg)
	if h == nil {
		vx.Harnessf("no MsgServiceRouter handler for %T", msg)
	}
	var err error
	func() {
		defer func() {
			if p := recover(); p != nil {
				if he, is := p.(vx.HarnessError); is {
					panic(he)
				}
				err = fmt.Errorf("handler panic: %v", p)
				r.rec.Add("direct_handler_panics", 1)
			}
		}()
		_, err = h(ctx, msg)
	}()
	if err != nil {
		return false
	}
	write()
	r.w.Block(0, 1)
	return true
}

// submit delivers msg on chain 0: via "direct" or as a tx signed by account key.
func (r *runner) submit(msg sdk.Msg, via string, key int) bool {
	if via == "direct" || key < 0 {
		return r.direct(msg)
	}
	return r.w.Deliver(0, key, msg).OK
}

// asAuthority sends a configuration message built for the effective authority (a genuine
// privileged request on the positive path: it is counted in the matrix and in the health metric).
func (r *runner) asAuthority(op string, n int, build func(signer string) sdk.Msg) bool {
	a := r.m.authority()
	via := "direct"
	if keyIdx(a) >= 0 && n%2 == 0 {
		via = "tx"
	}
	ok := r.submit(build(r.addr(a)), via, keyIdx(a))
	r.count(op, "authority", ok)
	r.posExpected++
	if ok {
		r.posOK++
	} else {
		r.rec.Add("posfail/cfg-"+op, 1)
	}
	r.rec.Add("config_requests", 1)
	return ok
}

func (r *runner) count(op, class string, ok bool) {
	res := "rej"
	if ok {
		res = "ok"
	}
	r.rec.Add("cell/"+op+"/"+class+"/"+res, 1)
	r.cells[op+"/"+class] = true
	cellSeen[op+"/"+class]++
}

// ---- setup ----------------------------------------------------------------------------

func (r *runner) newTMCreateMsg(signer string) sdk.Msg {
	cp := r.w.Chains[1]
	r.w.Block(1, 1)
	h, ok := cp.LatestCommittedHeader.GetHeight().(clienttypes.Height)
	if !ok {
		vx.Harnessf("no committed header height")
	}
	cs := ibctm.NewClientState(cp.ChainID, ibctesting.DefaultTrustLevel, ibctesting.TrustingPeriod, ibctesting.UnbondingPeriod,
		ibctesting.MaxClockDrift, h, commitmenttypes.GetSDKSpecs(), ibctesting.UpgradePath)
	msg, err := clienttypes.NewMsgCreateClient(cs, cp.LatestCommittedHeader.ConsensusState(), signer)
	if err != nil {
		vx.Harnessf("NewMsgCreateClient: %v", err)
	}
	return msg
}

func (r *runner) newSoloCreateMsg(signer string) (sdk.Msg, *ibctesting.Solomachine) {
	r.nonce++
	var solo *ibctesting.Solomachine
	var msg sdk.Msg
	sim.Guard("solomachine", func() {
		solo = ibctesting.NewSolomachine(r.outer, r.w.App(0).AppCodec(), "06-solomachine-vx", fmt.Sprintf("vx-%d", r.nonce), 1)
		m, err := clienttypes.NewMsgCreateClient(solo.ClientState(), solo.ConsensusState(), signer)
		if err != nil {
			vx.Harnessf("NewMsgCreateClient(solo): %v", err)
		}
		msg = m
	})
	return msg, solo
}

func (r *runner) nextClientID(ctype string) string {
	seq := r.w.App(0).IBCKeeper.ClientKeeper.GetNextClientSequence(r.w.Ctx(0))
	return clienttypes.FormatClientIdentifier(ctype, seq)
}

func (r *runner) setupClient(role, ctype string) *mclient {
	c := &mclient{Type: ctype, Role: role, Creator: "a0"}
	c.ID = r.nextClientID(ctype)
	var msg sdk.Msg
	if ctype == exported.Tendermint {
		msg = r.newTMCreateMsg(r.addr("a0"))
		c.ID = r.nextClientID(ctype)
	} else {
		msg, c.Solo = r.newSoloCreateMsg(r.addr("a0"))
	}
	if res := r.w.Deliver(0, 0, msg); !res.OK {
		vx.Harnessf("setup: create %s client failed: %v", role, res.Err)
	}
	r.m.clients = append(r.m.clients, c)
	return c
}

func (r *runner) setCPAuth(on bool) {
	app := r.w.App(0)
	ctx := r.w.Ctx(0)
	cp, err := app.ConsensusParamsKeeper.ParamsStore.Get(ctx)
	if err != nil {
		vx.Harnessf("consensus params: %v", err)
	}
	if on {
		cp.Authority = &cmtproto.AuthorityParams{Authority: r.addr("a5")}
	} else {
		cp.Authority = nil
	}
	if err := app.ConsensusParamsKeeper.ParamsStore.Set(ctx, cp); err != nil {
		vx.Harnessf("set consensus params: %v", err)
	}
	r.w.Block(0, 1)
	r.m.cpAuth = on
}

func (r *runner) setup(c authCase) {
	r.w = sim.NewWorld(r.outer, 2, nil)
	// Asymmetric identifiers: ibctesting would otherwise call both ends of the path 07-tendermint-0,
	// and a handler that looks a config / counterparty up under the OTHER chain's id would go unnoticed.
	padA, padB := c.PadA%3, c.PadB%3
	if padA < 0 {
		padA = -padA
	}
	if padB < 0 {
		padB = -padB
	}
	if padA == padB {
		padB = (padA + 1) % 3
	}
	sim.Guard("padding clients", func() {
		pad := ibctesting.NewPath(r.w.Chains[0], r.w.Chains[1])
		for i := 0; i < padA; i++ {
			if err := pad.EndpointA.CreateClient(); err != nil {
				vx.Harnessf("padding client on chain 0: %v", err)
			}
		}
		for i := 0; i < padB; i++ {
			if err := pad.EndpointB.CreateClient(); err != nil {
				vx.Harnessf("padding client on chain 1: %v", err)
			}
		}
	})
	r.l = r.w.AddLink(sim.V2Clients, 0, 1, nil)
	if r.l.Client(0) == r.l.Client(1) {
		vx.Harnessf("client ids of the v2 path coincide (%s): padding failed", r.l.Client(0))
	}
	r.rec.Class("ids:%s<->%s", r.l.Client(0), r.l.Client(1))
	r.m = &model{allowed: []string{"*"}, trSend: true, trRecv: true, icaCtl: true}
	r.P = &mclient{ID: r.l.Client(0), Type: exported.Tendermint, Role: "P", Creator: "a0", CP: true}
	r.m.clients = append(r.m.clients, r.P)
	r.R = r.setupClient("R", exported.Tendermint)
	r.U = r.setupClient("U", exported.Tendermint)
	r.setupClient("S", exported.Solomachine)
	r.stores = append(append([]string{}, sim.DefaultStores...), upgradetypes.StoreKey)
	if c.CPAuth {
		r.setCPAuth(true)
	}
}

// ---- honest helpers (pre-steps) -------------------------------------------------------

func (r *runner) tmLatest(x *mclient) (clienttypes.Height, bool) {
	cs, found := r.w.App(0).IBCKeeper.ClientKeeper.GetClientState(r.w.Ctx(0), x.ID)
	if !found {
		return clienttypes.Height{}, false
	}
	tm, ok := cs.(*ibctm.ClientState)
	if !ok {
		return clienttypes.Height{}, false
	}
	return tm.LatestHeight, true
}

// tmUpdateMsg builds an honest MsgUpdateClient for tendermint client x (tracking chain 1) from
// the latest committed header of chain 1.
func (r *runner) tmUpdateMsg(x *mclient, signer string) (sdk.Msg, bool) {
	trusted, ok := r.tmLatest(x)
	if !ok {
		return nil, false
	}
	cp := r.w.Chains[1]
	hdr, err := cp.IBCClientHeader(cp.LatestCommittedHeader, trusted)
	if err != nil {
		return nil, false
	}
	msg, err := clienttypes.NewMsgUpdateClient(x.ID, hdr, signer)
	if err != nil {
		return nil, false
	}
	return msg, true
}

// honestUpdate brings tendermint client x up to date using a relayer its allow list admits.
// Returns the client's latest revision height afterwards and whether the update succeeded.
func (r *runner) honestUpdate(x *mclient) (uint64, bool) {
	s := "a0"
	if len(x.List) > 0 {
		s = ""
		for _, e := range x.List {
			if keyIdx(e) >= 0 {
				s = e
				break
			}
		}
		if s == "" {
			s = x.List[0]
		}
	}
	r.w.Block(1, 1)
	ok := false
	if msg, built := r.tmUpdateMsg(x, r.addr(s)); built {
		via := "tx"
		if keyIdx(s) < 0 {
			via = "direct"
		}
		ok = r.submit(msg, via, keyIdx(s))
	}
	r.rec.Add("presteps", 1)
	if !ok {
		r.rec.Add("presteps_failed", 1)
	}
	h, _ := r.tmLatest(x)
	return h.RevisionHeight, ok
}

func (r *runner) payload() channeltypesv2.Payload {
	r.nonce++
	return sim.MockPayload("A", sim.Script{N: r.nonce, Out: "ok"})
}

func (r *runner) now() int64 { return r.w.Coord.CurrentTime.Unix() }

func (r *runner) prepRecv() (*sim.Pkt, uint64, bool) {
	if len(r.pendRecv) == 0 {
		p, _ := r.w.SendV2(r.l, 1, 0, uint64(r.now()+6*3600), r.payload())
		if p == nil {
			return nil, 0, false
		}
		r.pendRecv = append(r.pendRecv, p)
	}
	h, ok := r.honestUpdate(r.P)
	return r.pendRecv[0], h, ok
}

func (r *runner) prepAck() (*sim.Pkt, uint64, bool) {
	if len(r.pendAck) == 0 {
		p, _ := r.w.SendV2(r.l, 0, 0, uint64(r.now()+6*3600), r.payload())
		if p == nil {
			return nil, 0, false
		}
		h1 := r.w.FreshHeight(r.l, 1, 0)
		res := r.w.Deliver(1, 0, r.w.BuildRecv(p, h1, 0))
		if !res.OK {
			return nil, 0, false
		}
		r.w.NoteAck(p, res)
		if p.Ack2 == nil {
			return nil, 0, false
		}
		r.pendAck = append(r.pendAck, p)
	}
	h, ok := r.honestUpdate(r.P)
	return r.pendAck[0], h, ok
}

func (r *runner) prepTimeout() (*sim.Pkt, uint64, bool) {
	if len(r.pendTimeout) == 0 {
		p, _ := r.w.SendV2(r.l, 0, 0, uint64(r.now()+15), r.payload())
		if p == nil {
			return nil, 0, false
		}
		r.w.AdvanceTime(20 * time.Second)
		r.w.Block(1, 1)
		r.pendTimeout = append(r.pendTimeout, p)
	}
	h, ok := r.honestUpdate(r.P)
	return r.pendTimeout[0], h, ok
}

func (r *runner) prepRecover() bool {
	app := r.w.App(0)
	ctx := r.w.Ctx(0)
	cs, found := app.IBCKeeper.ClientKeeper.GetClientState(ctx, r.R.ID)
	if !found {
		vx.Harnessf("recovery subject missing")
	}
	tm, ok := cs.(*ibctm.ClientState)
	if !ok {
		vx.Harnessf("recovery subject is %T", cs)
	}
	if tm.FrozenHeight.IsZero() {
		tm.FrozenHeight = clienttypes.NewHeight(0, 1)
		app.IBCKeeper.ClientKeeper.SetClientState(ctx, r.R.ID, tm)
		r.w.Block(0, 1)
	}
	_, ok = r.honestUpdate(r.U)
	return ok
}

// ---- configuration pre-steps ----------------------------------------------------------

var otherPool = []string{"a1", "a2", "a3", govID}

func listFor(lc, s string, n int) []string {
	switch lc {
	case "empty":
		return []string{}
	case "signer":
		l := []string{s}
		if n%2 == 1 {
			if o := ident(1 + (n/2)%3); o != s {
				l = append(l, o)
			}
		}
		return l
	case "others":
		var pool []string
		for _, o := range otherPool {
			if o != s {
				pool = append(pool, o)
			}
		}
		l := []string{pool[n%len(pool)]}
		if (n/4)%2 == 1 {
			if o := pool[(n/8)%len(pool)]; o != l[0] {
				l = append(l, o)
			}
		}
		return l
	}
	return nil
}

func (r *runner) applyListCfg(x *mclient, lc, s string, n int) {
	if lc == "" || lc == "keep" {
		return
	}
	l := listFor(lc, s, n)
	if sameList(l, x.List) {
		return
	}
	ok := r.asAuthority("update-config", n, func(signer string) sdk.Msg {
		return clientv2types.NewMsgUpdateClientConfig(x.ID, signer, clientv2types.NewConfig(r.addrs(l)...))
	})
	if ok {
		x.List = l
	}
}

func otherType(t string) string {
	if t == exported.Tendermint {
		return exported.Solomachine
	}
	return exported.Tendermint
}

func typesFor(tc, t string, n int) []string {
	switch tc {
	case "star":
		return []string{"*"}
	case "with":
		if n%2 == 0 {
			return []string{t}
		}
		return []string{otherType(t), t}
	case "without":
		switch n % 3 {
		case 0:
			return []string{otherType(t)}
		case 1:
			return []string{}
		}
		return []string{exported.Localhost, "08-wasm"}
	}
	return nil
}

func (r *runner) applyTypeCfg(tc, t string, n int) {
	if tc == "" || tc == "keep" {
		return
	}
	l := typesFor(tc, t, n)
	if sameList(l, r.m.allowed) {
		return
	}
	ok := r.asAuthority("params-client", n, func(signer string) sdk.Msg {
		return clienttypes.NewMsgUpdateParams(signer, clienttypes.NewParams(l...))
	})
	if ok {
		r.m.allowed = l
	}
}

// ensureRateLimit makes the (stake, P) rate limit exist / not exist through genuine authority requests,
// so that the request under test is well-formed for a rightful signer.
func (r *runner) ensureRateLimit(want bool, n int) {
	if r.m.rl == want {
		return
	}
	if want {
		if !r.m.typeAllowed(r.P.Type) {
			return // adding needs the client to be usable
		}
		if r.asAuthority("rl-add", n, func(signer string) sdk.Msg {
			m := ratelimittypes.NewMsgAddRateLimit(sdk.DefaultBondDenom, r.P.ID, sdkmath.NewInt(10), sdkmath.NewInt(10), 24)
			m.Signer = signer
			return m
		}) {
			r.m.rl = true
		}
		return
	}
	if r.asAuthority("rl-remove", n, func(signer string) sdk.Msg {
		m := ratelimittypes.NewMsgRemoveRateLimit(sdk.DefaultBondDenom, r.P.ID)
		m.Signer = signer
		return m
	}) {
		r.m.rl = false
	}
}

// ---- requests -------------------------------------------------------------------------

type attempt struct {
	msg   sdk.Msg
	wf    bool // well-formed: the request of a rightful signer is expected to succeed
	onOK  func()
	onRej func()
	ctype string
}

var allowedOptions = [][]string{
	{"*"}, {exported.Tendermint}, {exported.Solomachine}, {exported.Tendermint, exported.Solomachine}, {exported.Localhost}, {},
	{"*"}, {"*"},
}

func setRelaySigner(m sdk.Msg, signer string) sdk.Msg {
	switch v := m.(type) {
	case *channeltypesv2.MsgRecvPacket:
		v.Signer = signer
	case *channeltypesv2.MsgAcknowledgement:
		v.Signer = signer
	case *channeltypesv2.MsgTimeout:
		v.Signer = signer
	default:
		vx.Harnessf("unexpected relay message %T", m)
	}
	return m
}

func removePkt(l []*sim.Pkt, p *sim.Pkt) []*sim.Pkt {
	var out []*sim.Pkt
	for _, e := range l {
		if e != p {
			out = append(out, e)
		}
	}
	return out
}

// build constructs the (otherwise well-formed) request of operation op on client x with Signer
// field `signer`; nil msg means the pre-steps could not produce a request at all.
func (r *runner) build(op aop, x *mclient, signer string, sid string) attempt {
	a := attempt{wf: true}
	n := op.N
	switch op.Op {
	case "recover":
		a.wf = r.prepRecover()
		a.msg = clienttypes.NewMsgRecoverClient(signer, r.R.ID, r.U.ID)
	case "upgrade":
		c0 := r.w.Chains[0]
		plan := upgradetypes.Plan{Name: fmt.Sprintf("vx-%d-%d", r.step, n), Height: r.w.Height(0) + 1_000_000 + int64(n)}
		cs := ibctm.NewClientState(c0.ChainID, ibctesting.DefaultTrustLevel, ibctesting.TrustingPeriod+time.Duration(n+1)*time.Second,
			ibctesting.UnbondingPeriod+time.Duration(n+1)*time.Second, ibctesting.MaxClockDrift,
			clienttypes.NewHeight(clienttypes.ParseChainID(c0.ChainID), uint64(plan.Height+1)), commitmenttypes.GetSDKSpecs(), ibctesting.UpgradePath)
		msg, err := clienttypes.NewMsgIBCSoftwareUpgrade(signer, plan, cs)
		if err != nil {
			vx.Harnessf("NewMsgIBCSoftwareUpgrade: %v", err)
		}
		a.msg = msg
	case "params-client":
		l := allowedOptions[n%len(allowedOptions)]
		if sameList(l, r.m.allowed) {
			l = allowedOptions[(n+1)%len(allowedOptions)]
		}
		a.msg = clienttypes.NewMsgUpdateParams(signer, clienttypes.NewParams(l...))
		a.onOK = func() { r.m.allowed = l }
	case "params-conn":
		a.msg = connectiontypes.NewMsgUpdateParams(signer, connectiontypes.NewParams(uint64(30*time.Second)+uint64(r.step*1000+n+1)))
	case "params-transfer":
		s, v := n&1 == 1, n&2 == 2
		if s == r.m.trSend && v == r.m.trRecv {
			s = !s
		}
		a.msg = transfertypes.NewMsgUpdateParams(signer, transfertypes.NewParams(s, v))
		a.onOK = func() { r.m.trSend, r.m.trRecv = s, v }
	case "params-icactl":
		e := !r.m.icaCtl
		a.msg = icacontrollertypes.NewMsgUpdateParams(signer, icacontrollertypes.NewParams(e))
		a.onOK = func() { r.m.icaCtl = e }
	case "params-icahost":
		a.msg = icahosttypes.NewMsgUpdateParams(signer, icahosttypes.NewParams(n%2 == 0, []string{fmt.Sprintf("/vx.v1.Msg%dx%d", r.step, n)}))
	case "rl-add":
		r.ensureRateLimit(false, n)
		m := ratelimittypes.NewMsgAddRateLimit(sdk.DefaultBondDenom, r.P.ID, sdkmath.NewInt(int64(1+n%100)), sdkmath.NewInt(int64(1+(n/7)%100)), uint64(1+n%48))
		m.Signer = signer
		a.msg = m
		a.wf = !r.m.rl && r.m.typeAllowed(r.P.Type)
		a.onOK = func() { r.m.rl = true }
	case "rl-update":
		r.ensureRateLimit(true, n)
		m := ratelimittypes.NewMsgUpdateRateLimit(sdk.DefaultBondDenom, r.P.ID, sdkmath.NewInt(int64(1+n%100)), sdkmath.NewInt(int64(1+(n/7)%100)), uint64(50+r.step))
		m.Signer = signer
		a.msg = m
		a.wf = r.m.rl
	case "rl-remove":
		r.ensureRateLimit(true, n)
		m := ratelimittypes.NewMsgRemoveRateLimit(sdk.DefaultBondDenom, r.P.ID)
		m.Signer = signer
		a.msg = m
		a.wf = r.m.rl
		a.onOK = func() { r.m.rl = false }
	case "rl-reset":
		r.ensureRateLimit(true, n)
		m := ratelimittypes.NewMsgResetRateLimit(sdk.DefaultBondDenom, r.P.ID)
		m.Signer = signer
		a.msg = m
		a.wf = r.m.rl
	case "register-cp":
		a.msg = clientv2types.NewMsgRegisterCounterparty(x.ID, [][]byte{[]byte("ibc"), []byte("")}, r.l.Client(1), signer)
		a.onOK = func() { x.CP = true }
	case "update-config":
		var l []string
		pool := []string{govID, "a0", "a1", "a2", "a3"}
		for i, p := range pool {
			if (n>>uint(i))&1 == 1 {
				l = append(l, p)
			}
		}
		if sameList(l, x.List) {
			if contains(l, "a1") {
				l = l[:0:0]
			} else {
				l = append(l, "a1")
			}
		}
		if l == nil {
			l = []string{}
		}
		a.msg = clientv2types.NewMsgUpdateClientConfig(x.ID, signer, clientv2types.NewConfig(r.addrs(l)...))
		a.onOK = func() { x.List = l }
	case "delete-creator":
		a.msg = clienttypes.NewMsgDeleteClientCreator(x.ID, signer)
		a.wf = x.Creator != ""
		a.onOK = func() { x.Ex, x.Creator = x.Creator, "" }
	case "recv":
		p, h, ok := r.prepRecv()
		if p == nil {
			return attempt{}
		}
		a.wf = ok
		a.msg = setRelaySigner(r.w.BuildRecv(p, h, 0), signer)
		a.onOK = func() { r.pendRecv = removePkt(r.pendRecv, p) }
	case "ack":
		p, h, ok := r.prepAck()
		if p == nil {
			return attempt{}
		}
		a.wf = ok
		a.msg = setRelaySigner(r.w.BuildAck(p, nil, *p.Ack2, h, 0), signer)
		a.onOK = func() { r.pendAck = removePkt(r.pendAck, p) }
	case "timeout":
		p, h, ok := r.prepTimeout()
		if p == nil {
			return attempt{}
		}
		a.wf = ok
		a.msg = setRelaySigner(r.w.BuildTimeout(p, 0, h, 0), signer)
		a.onOK = func() { r.pendTimeout = removePkt(r.pendTimeout, p) }
	case "update-client":
		if x.Type == exported.Tendermint {
			r.w.Block(1, 1)
			msg, ok := r.tmUpdateMsg(x, signer)
			if !ok {
				return attempt{}
			}
			a.msg = msg
		} else {
			saved := *x.Solo
			var msg sdk.Msg
			sim.Guard("solomachine header", func() {
				hdr := x.Solo.CreateHeader(x.Solo.Diversifier)
				m, err := clienttypes.NewMsgUpdateClient(x.ID, hdr, signer)
				if err != nil {
					vx.Harnessf("NewMsgUpdateClient(solo): %v", err)
				}
				msg = m
			})
			a.msg = msg
			a.onRej = func() { *x.Solo = saved }
		}
	case "create-client":
		nc := &mclient{Role: "new", Creator: sid}
		if op.CT == "solo" {
			nc.Type = exported.Solomachine
			a.msg, nc.Solo = r.newSoloCreateMsg(signer)
		} else {
			nc.Type = exported.Tendermint
			a.msg = r.newTMCreateMsg(signer)
		}
		nc.ID = r.nextClientID(nc.Type)
		a.ctype = nc.Type
		a.onOK = func() { r.m.clients = append(r.m.clients, nc) }
	case "use-send":
		a.msg = channeltypesv2.NewMsgSendPacket(x.ID, uint64(r.now()+6*3600), signer, r.payload())
		a.wf = x.CP && x.Type == exported.Tendermint
	case "use-conninit":
		a.msg = connectiontypes.NewMsgConnectionOpenInit(x.ID, r.l.Client(1), commitmenttypes.NewMerklePrefix([]byte("ibc")), ibctesting.ConnectionVersion, 0, signer)
	default:
		vx.Harnessf("unknown op %q", op.Op)
	}
	return a
}

// target selects the client an operation addresses (and relative to which the signer is classified).
func (r *runner) target(op aop) *mclient {
	switch op.Op {
	case "register-cp", "update-config", "delete-creator", "update-client", "use-send", "use-conninit":
		var cands []*mclient
		for _, c := range r.m.clients {
			if c.Role == "R" {
				continue
			}
			if op.Op == "register-cp" && op.Tgt%2 == 0 && c.CP {
				continue
			}
			if op.Op == "use-send" && op.Tgt%2 == 0 && !c.CP {
				continue
			}
			cands = append(cands, c)
		}
		if len(cands) == 0 {
			return r.P
		}
		return cands[(op.Tgt/2)%len(cands)]
	}
	return r.P
}

// resolve maps the requested signer class to a concrete identity given the current facts.
func (r *runner) resolve(op aop, x *mclient) (string, string) {
	lc := op.LC
	switch op.Who {
	case "auth":
		return r.m.authority(), lc
	case "creator":
		if x.Creator != "" {
			return x.Creator, lc
		}
		return x.Ex, lc
	case "listed":
		if lc == "empty" || lc == "others" {
			lc = "keep"
		}
		if len(x.List) > 0 && (lc == "keep" || lc == "") {
			return x.List[op.N%len(x.List)], lc
		}
		return ident(1 + op.N%3), "signer"
	}
	cands := []string{"a1", "a2", "a3", "a4"}
	if r.m.cpAuth {
		cands = append(cands, govID)
	}
	if lc == "signer" {
		lc = "others"
	}
	for i := range cands {
		c := cands[(op.N+i)%len(cands)]
		if c != r.m.authority() && c != x.Creator && !contains(x.List, c) {
			return c, lc
		}
	}
	return "", lc
}

func (r *runner) exec(op aop) {
	if op.Op == "cfg-cpauth" {
		r.setCPAuth(op.N%2 == 0)
		r.rec.Class("cfg:cp-authority-toggled")
		return
	}
	x := r.target(op)
	s, lc := r.resolve(op, x)
	if s == "" {
		r.rec.Add("skipped_no_signer", 1)
		return
	}
	relType := x.Type
	if op.Op == "create-client" {
		relType = exported.Tendermint
		if op.CT == "solo" {
			relType = exported.Solomachine
		}
	}
	r.applyListCfg(x, lc, s, op.N)
	r.applyTypeCfg(op.TC, relType, op.N)

	via := op.Via
	key := keyIdx(s)
	class := r.m.classify(s, x)
	if via == "forged" {
		// the Signer field names s, but the transaction is signed by somebody else's key
		key = -1
		for i := 0; i < 4; i++ {
			if c := ident(1 + (op.N+i)%4); c != s {
				key = keyIdx(c)
				break
			}
		}
		class = "forger"
	} else if key < 0 {
		via = "direct"
	}

	a := r.build(op, x, r.addr(s), s)
	if a.msg == nil {
		r.rec.Add("skipped_no_request/"+op.Op, 1)
		return
	}
	allowed := via != "forged" && r.m.allows(op.Op, s, x, r.R.Type, a.ctype)

	cpBefore := x.CP
	before := r.w.Snapshot(0, r.stores...)
	var ok bool
	if via == "forged" {
		ok = r.w.Deliver(0, key, a.msg).OK
	} else {
		ok = r.submit(a.msg, via, key)
	}
	desc := fmt.Sprintf("step %d: %s on %s(%s) signer=%s class=%s via=%s | authority=%s creator=%q ex=%q list=%v cp=%v allowed-clients=%v",
		r.step, op.Op, x.ID, x.Role, s, class, via, r.m.authority(), x.Creator, x.Ex, x.List, x.CP, r.m.allowed)

	if op.Op == "recover" {
		desc += fmt.Sprintf(" | subject=%s substitute=%s", r.R.ID, r.U.ID)
	}
	r.count(op.Op, class, ok)
	r.rec.Add("requests", 1)
	r.rec.Add("via/"+via, 1)
	if ok {
		r.rec.Add("accepted/"+class, 1)
		if !allowed {
			sig := "accepted-forbidden:" + op.Op + "/" + class
			if vx.Violatef(r.t, r.rec, c46, sig, "%s: the request SUCCEEDED although the model forbids it", desc) {
				return
			}
		}
		if a.onOK != nil {
			a.onOK()
		}
	} else {
		r.rec.Add("rejected/"+class, 1)
		after := r.w.Snapshot(0, r.stores...)
		d := sim.Diff(before, after)
		epoch := false
		for _, k := range d {
			if k == ratelimittypes.StoreKey+":"+string(ratelimittypes.HourEpochKey) {
				epoch = true
			}
		}
		if epoch {
			r.rec.Add("unchanged_check_skipped_epoch", 1)
		} else if len(d) > 0 {
			if vx.Violatef(r.t, r.rec, c46, "rejected-changed-state:"+op.Op, "%s: the request was REJECTED but state changed: %v", desc, d) {
				return
			}
		}
		if a.onRej != nil {
			a.onRej()
		}
	}
	if !allowed {
		r.forbidden++
		r.rec.Add("forbidden_requests", 1)
	} else if a.wf {
		r.posExpected++
		r.rec.Add("positive_expected", 1)
		if ok {
			r.posOK++
			r.rec.Add("positive_ok", 1)
		} else {
			r.rec.Add("posfail/"+op.Op+"/"+class, 1)
		}
	} else {
		r.rec.Add("allowed_but_malformed", 1)
	}

	// configuration labels (case-level histogram)
	switch op.Op {
	case "recv", "ack", "timeout", "update-client":
		ls := "list-others"
		if len(x.List) == 0 {
			ls = "list-empty"
		} else if contains(x.List, s) {
			ls = "list-has-signer"
		}
		r.rec.Class("cfg:relay/%s/%s", ls, class)
	}
	switch op.Op {
	case "recv", "ack", "timeout", "update-client", "create-client", "use-send", "use-conninit", "recover":
		ts := "subset-without"
		if len(r.m.allowed) == 1 && r.m.allowed[0] == "*" {
			ts = "star"
		} else if r.m.typeAllowed(relType) {
			ts = "subset-with"
		}
		r.rec.Class("cfg:types/%s/%s", ts, op.Op)
	case "register-cp":
		r.rec.Class("cfg:register-cp/already=%v/%s", cpBefore, class)
	}
	if op.Who == "creator" && x.Creator == "" && !ok {
		r.rec.Class("cfg:creator-deleted/%s", op.Op)
	}
	if r.m.cpAuth {
		r.rec.Class("cfg:cp-authority/%s", class)
		if s == govID {
			r.rec.Class("cfg:keeper-authority-overridden/%s", op.Op)
		}
	}
	if x.Role != "P" {
		r.rec.Class("target:%s/%s", x.Role, op.Op)
	}
}

func runC46(outer *testing.T) func(t rapid.TB, c authCase, rec *vx.Case) {
	return func(t rapid.TB, c authCase, rec *vx.Case) {
		r := &runner{t: t, rec: rec, outer: outer, cells: map[string]bool{}}
		r.setup(c)
		for i, op := range c.Ops {
			r.step = i
			r.w.StepNo = i
			r.exec(op)
		}
		// model vs chain drift (diagnostic only)
		for _, x := range r.m.clients {
			cr := r.w.App(0).IBCKeeper.ClientKeeper.GetClientCreator(r.w.Ctx(0), x.ID)
			want := ""
			if x.Creator != "" {
				want = r.addr(x.Creator)
			}
			got := ""
			if len(cr) > 0 {
				got = cr.String()
			}
			if got != want {
				rec.Add("model_drift_creator", 1)
			}
			cfg := r.w.App(0).IBCKeeper.ClientV2Keeper.GetConfig(r.w.Ctx(0), x.ID)
			if !sameList(cfg.AllowedRelayers, r.addrs(x.List)) {
				rec.Add("model_drift_list", 1)
			}
		}
		if p := r.w.App(0).IBCKeeper.ClientKeeper.GetParams(r.w.Ctx(0)); !sameList(p.AllowedClients, r.m.allowed) {
			rec.Add("model_drift_allowed_clients", 1)
		}
		rec.Add("cells_in_case", int64(len(r.cells)))
		rec.Class("cp-authority-initial=%v", c.CPAuth)
		healthy := r.posExpected >= 3 && r.posOK*10 >= r.posExpected*8
		if !healthy {
			rec.Class("unhealthy-positive-path")
		}
		rec.NonTrivialIf(r.forbidden >= 5 && healthy)
	}
}

// cellSeen counts (operation, signer class) occurrences over the whole process.
var cellSeen = map[string]int{}

func genC46(t *rapid.T) authCase {
	c := authCase{CPAuth: rapid.IntRange(0, 3).Draw(t, "cpauth") == 0}
	c.PadA = rapid.IntRange(0, 2).Draw(t, "padA")
	c.PadB = (c.PadA + rapid.IntRange(1, 2).Draw(t, "padBdelta")) % 3
	n := rapid.IntRange(26, 44).Draw(t, "nops")
	whos := []string{"auth", "creator", "listed", "stranger"}
	vias := []string{"direct", "direct", "direct", "direct", "tx", "tx", "tx", "tx", "forged"}
	lcs := []string{"keep", "keep", "keep", "keep", "keep", "empty", "signer", "signer", "others", "others"}
	tcs := []string{"keep", "keep", "keep", "keep", "keep", "keep", "star", "star", "with", "without"}
	for i := 0; i < n; i++ {
		if rapid.IntRange(0, 49).Draw(t, "special") == 0 {
			c.Ops = append(c.Ops, aop{Op: "cfg-cpauth", N: rapid.IntRange(0, 1).Draw(t, "on")})
			continue
		}
		op := aop{
			Op:  rapid.SampledFrom(opsAll).Draw(t, "op"),
			Who: rapid.SampledFrom(whos).Draw(t, "who"),
			Via: rapid.SampledFrom(vias).Draw(t, "via"),
			Tgt: rapid.IntRange(0, 15).Draw(t, "tgt"),
			N:   rapid.IntRange(0, 999).Draw(t, "n"),
			LC:  rapid.SampledFrom(lcs).Draw(t, "lc"),
			TC:  rapid.SampledFrom(tcs).Draw(t, "tc"),
		}
		if op.Op == "create-client" {
			op.CT = rapid.SampledFrom([]string{"tm", "tm", "solo"}).Draw(t, "ct")
		}
		c.Ops = append(c.Ops, op)
	}
	return c
}

func TestC46(t *testing.T) {
	vx.Check(t, vx.Prop[authCase]{
		ID: c46,
		Rule: "histories of 26-44 requests on chain 0 of a 2-chain world whose two ends of every path carry DIFFERENT client ids (0-2 padding clients per chain), each = operation (21 kinds: recover, ibc software upgrade, 5 param updates, 4 rate-limit admin msgs, " +
			"register counterparty, update client config, delete creator, v2 recv/ack/timeout, update client, create client, v2 send / conn-open-init through a client) x requested signer " +
			"class (authority, creator, listed relayer, stranger; plus forged Signer field) x delivery (MsgServiceRouter handler as x/gov does | signed tx) x configuration " +
			"(relayer allow list empty / has signer / others; allowed-clients * / subset with / without the type; creator deleted; counterparty registered; consensus-params authority override); " +
			"non-trivial = >=5 requests the model forbids AND >=3 well-formed rightful requests of which >=80% succeed; distinct by full history",
		MinNTFrac: 0.6,
		Assumptions: []string{
			"authority-signed requests are executed through the MsgServiceRouter handler on a cached context (the path x/gov uses); the gov module account has no key",
			"wasm rows (MsgStoreCode / MsgRemoveChecksum / MsgMigrateContract) are covered by a separate test in the 08-wasm harness module, if registered",
		},
		Gen: genC46,
		Run: runC46(t),
	})
	// every (operation, signer class) cell must have occurred in a campaign of useful size
	if os.Getenv("VERIF_REPLAY_IN") != "" || t.Failed() {
		return
	}
	total := 0
	for _, n := range cellSeen {
		total += n
	}
	if total < 1500 {
		return // too small a campaign to demand full coverage (e.g. --checks 5 while developing)
	}
	var missing []string
	for _, op := range opsAll {
		for _, cl := range sigClasses {
			if cellSeen[op+"/"+cl] == 0 {
				missing = append(missing, op+"/"+cl)
			}
		}
	}
	sort.Strings(missing)
	if len(missing) > 0 {
		t.Logf("COVERAGE note (per-process; the merged cell histogram is in the evidence metrics): matrix cells never exercised in %d requests: %s", total, strings.Join(missing, " "))
	}
}
