package auth

import (
	"encoding/hex"
	"encoding/json"
	"fmt"
	"os"
	"sort"
	"strings"
	"testing"

	wasmvm "github.com/CosmWasm/wasmvm/v3"
	wasmvmtypes "github.com/CosmWasm/wasmvm/v3/types"
	dbm "github.com/cosmos/cosmos-db"
	"pgregory.net/rapid"

	"cosmossdk.io/log/v2"

	simtestutil "github.com/cosmos/cosmos-sdk/testutil/sims"
	sdk "github.com/cosmos/cosmos-sdk/types"
	authtypes "github.com/cosmos/cosmos-sdk/x/auth/types"
	govtypes "github.com/cosmos/cosmos-sdk/x/gov/types"

	abci "github.com/cometbft/cometbft/abci/types"
	cmtproto "github.com/cometbft/cometbft/proto/tendermint/types"

	wasmtesting "github.com/cosmos/ibc-go/modules/light-clients/08-wasm/v11/testing"
	"github.com/cosmos/ibc-go/modules/light-clients/08-wasm/v11/testing/simapp"
	"github.com/cosmos/ibc-go/modules/light-clients/08-wasm/v11/types"
	clienttypes "github.com/cosmos/ibc-go/v11/modules/core/02-client/types"
	clientv2types "github.com/cosmos/ibc-go/v11/modules/core/02-client/v2/types"
	host "github.com/cosmos/ibc-go/v11/modules/core/24-host"
	"github.com/cosmos/ibc-go/v11/modules/core/exported"
	ibctm "github.com/cosmos/ibc-go/v11/modules/light-clients/07-tendermint"
	ibctesting "github.com/cosmos/ibc-go/v11/testing"

	"github.com/cosmos/ibc-go/v11/modules/apps/callbacks/verifx/vx"
)

// C46 (wasm rows): MsgStoreCode, MsgRemoveChecksum and MsgMigrateContract of 08-wasm succeed only
// when the configured authority signs them. Same matrix walk as TestC46 in the main harness:
// operation x signer class (authority, client creator, listed relayer, stranger, forged Signer
// field) x delivery path (MsgServiceRouter handler as x/gov | signed tx) x authority configuration
// (keeper authority | consensus-params override). Oracle: accepted => signer is the configured
// authority; rejected => ibc and 08-wasm stores unchanged AND the (non-transactional) VM saw no
// StoreCode call. The VM is the mock engine of 08-wasm/testing.

const c46 = "C46"

const govID = "gov"

type wop struct {
	Op  string `json:"op"`  // store | remove | migrate | cfg-cpauth
	Who string `json:"who"` // auth | creator | listed | stranger
	Via string `json:"via"` // direct | tx | forged
	N   int    `json:"n"`
}

type wasmCase struct {
	CPAuth bool  `json:"cp_auth"`
	Ops    []wop `json:"ops"`
}

var wasmOps = []string{"store", "remove", "migrate"}
var wasmClasses = []string{"authority", "creator", "listed", "stranger"}

type tbShim struct{ testing.TB }

func (s tbShim) Errorf(format string, args ...any) {
	vx.Harnessf("ibctesting assertion: "+format, args...)
}
func (s tbShim) Error(args ...any)                 { vx.Harnessf("ibctesting assertion: %s", fmt.Sprint(args...)) }
func (s tbShim) Fatalf(format string, args ...any) { vx.Harnessf("ibctesting fatal: "+format, args...) }
func (s tbShim) Fatal(args ...any)                 { vx.Harnessf("ibctesting fatal: %s", fmt.Sprint(args...)) }
func (s tbShim) FailNow()                          { vx.Harnessf("ibctesting FailNow") }
func (s tbShim) Fail()                             { vx.Harnessf("ibctesting Fail") }

func guard(what string, f func()) {
	defer func() {
		if r := recover(); r != nil {
			if _, ok := r.(vx.HarnessError); ok {
				panic(r)
			}
			if t := fmt.Sprintf("%T", r); t == "rapid.invalidData" || t == "rapid.stopTest" {
				panic(r)
			}
			vx.Harnessf("%s panicked: %v", what, r)
		}
	}()
	f()
}

type wrunner struct {
	t      rapid.TB
	rec    *vx.Case
	coord  *ibctesting.Coordinator
	chain  *ibctesting.TestChain
	app    *simapp.SimApp
	vm     *wasmtesting.MockWasmEngine
	vmSeen map[string]int // checksum hex -> number of StoreCode calls that reached the VM

	cpAuth   bool
	clientID string
	current  []byte   // checksum the client runs
	stored   [][]byte // model: checksums on chain
	step     int
	nonce    int

	forbidden, posExpected, posOK int
}

var wasmCellSeen = map[string]int{}

func ident(k int) string { return fmt.Sprintf("a%d", k) }

func keyIdx(id string) int {
	if id == govID || id == "" {
		return -1
	}
	return int(id[1] - '0')
}

func (r *wrunner) authority() string {
	if r.cpAuth {
		return "a5"
	}
	return govID
}

func (r *wrunner) addr(id string) string {
	if id == govID {
		return authtypes.NewModuleAddress(govtypes.ModuleName).String()
	}
	return r.chain.SenderAccounts[keyIdx(id)].SenderAccount.GetAddress().String()
}

func (r *wrunner) ctx() sdk.Context { return r.chain.GetContext() }

func (r *wrunner) block() { r.coord.CommitBlock(r.chain) }

func (r *wrunner) setup(outer *testing.T, c wasmCase) {
	guard("wasm world setup", func() {
		r.vm = wasmtesting.NewMockWasmEngine()
		r.vmSeen = map[string]int{}
		inner := r.vm.StoreCodeFn
		r.vm.StoreCodeFn = func(code wasmvm.WasmCode, gasLimit uint64) (wasmvmtypes.Checksum, uint64, error) {
			cs, _ := types.CreateChecksum(code)
			r.vmSeen[hex.EncodeToString(cs)]++
			return inner(code, gasLimit)
		}
		var cdcApp *simapp.SimApp
		r.vm.InstantiateFn = func(checksum wasmvm.Checksum, env wasmvmtypes.Env, info wasmvmtypes.MessageInfo, initMsg []byte, store wasmvm.KVStore, goapi wasmvm.GoAPI, querier wasmvm.Querier, gasMeter wasmvm.GasMeter, gasLimit uint64, deserCost wasmvmtypes.UFraction) (*wasmvmtypes.ContractResult, uint64, error) {
			var payload types.InstantiateMessage
			if err := json.Unmarshal(initMsg, &payload); err != nil {
				return nil, 0, err
			}
			cdc := cdcApp.AppCodec()
			wrapped, ok := clienttypes.MustUnmarshalClientState(cdc, payload.ClientState).(*ibctm.ClientState)
			if !ok {
				return nil, 0, fmt.Errorf("wrapped client state is not tendermint")
			}
			cs := types.NewClientState(payload.ClientState, payload.Checksum, wrapped.LatestHeight)
			store.Set(host.ClientStateKey(), clienttypes.MustMarshalClientState(cdc, cs))
			cons := types.NewConsensusState(payload.ConsensusState)
			store.Set(host.ConsensusStateKey(cs.LatestHeight), clienttypes.MustMarshalConsensusState(cdc, cons))
			resp, _ := json.Marshal(types.EmptyResult{})
			return &wasmvmtypes.ContractResult{Ok: &wasmvmtypes.Response{Data: resp}}, 0, nil
		}
		r.vm.RegisterQueryCallback(types.StatusMsg{}, func(checksum wasmvm.Checksum, env wasmvmtypes.Env, queryMsg []byte, store wasmvm.KVStore, goapi wasmvm.GoAPI, querier wasmvm.Querier, gasMeter wasmvm.GasMeter, gasLimit uint64, deserCost wasmvmtypes.UFraction) (*wasmvmtypes.QueryResult, uint64, error) {
			resp, _ := json.Marshal(types.StatusResult{Status: exported.Active.String()})
			return &wasmvmtypes.QueryResult{Ok: resp}, wasmtesting.DefaultGasUsed, nil
		})
		r.vm.MigrateFn = func(_ wasmvm.Checksum, _ wasmvmtypes.Env, _ []byte, _ wasmvm.KVStore, _ wasmvm.GoAPI, _ wasmvm.Querier, _ wasmvm.GasMeter, _ uint64, _ wasmvmtypes.UFraction) (*wasmvmtypes.ContractResult, uint64, error) {
			data, _ := json.Marshal(types.EmptyResult{})
			return &wasmvmtypes.ContractResult{Ok: &wasmvmtypes.Response{Data: data}}, wasmtesting.DefaultGasUsed, nil
		}
		creator := func() (ibctesting.TestingApp, map[string]json.RawMessage) {
			app := simapp.NewUnitTestSimApp(log.NewNopLogger(), dbm.NewMemDB(), true, simtestutil.EmptyAppOptions{}, r.vm)
			cdcApp = app
			return app, app.DefaultGenesis()
		}
		r.coord = ibctesting.NewCustomAppCoordinator(outer, 1, creator)
		r.chain = r.coord.GetChain(ibctesting.GetChainID(1))
		r.chain.TB = tbShim{outer}
		app, ok := r.chain.App.(*simapp.SimApp)
		if !ok {
			vx.Harnessf("chain app is %T", r.chain.App)
		}
		r.app = app
	})
	// genesis content: one stored code and one wasm client created by account 0 (setup, by the
	// keeper authority through the handler)
	if !r.direct(types.NewMsgStoreCode(r.addr(govID), wasmtesting.Code)) {
		vx.Harnessf("setup: store code failed")
	}
	cs, _ := types.CreateChecksum(wasmtesting.Code)
	r.current = cs
	r.stored = [][]byte{cs}
	guard("wasm client", func() {
		ep := wasmtesting.NewWasmEndpoint(r.chain)
		if err := ep.CreateClient(); err != nil {
			vx.Harnessf("setup: create wasm client: %v", err)
		}
		r.clientID = ep.ClientID
	})
	// account 1 is the only listed relayer of the wasm client
	r.app.IBCKeeper.ClientV2Keeper.SetConfig(r.ctx(), r.clientID, clientv2types.NewConfig(r.addr("a1")))
	r.block()
	if c.CPAuth {
		r.setCPAuth(true)
	}
}

func (r *wrunner) setCPAuth(on bool) {
	ctx := r.ctx()
	cp, err := r.app.ConsensusParamsKeeper.ParamsStore.Get(ctx)
	if err != nil {
		vx.Harnessf("consensus params: %v", err)
	}
	if on {
		cp.Authority = &cmtproto.AuthorityParams{Authority: r.addr("a5")}
	} else {
		cp.Authority = nil
	}
	if err := r.app.ConsensusParamsKeeper.ParamsStore.Set(ctx, cp); err != nil {
		vx.Harnessf("set consensus params: %v", err)
	}
	r.block()
	r.cpAuth = on
}

func (r *wrunner) direct(msg sdk.Msg) bool {
	base := r.ctx()
	base = base.WithConsensusParams(r.app.GetConsensusParams(base))
	ctx, write := base.CacheContext()
	h := r.app.MsgServiceRouter().Handler(msg)
	if h == nil {
		vx.Harnessf("no MsgServiceRouter handler for %T", msg)
	}
	var err error
	func() {
		defer func() {
			if p := recover(); p != nil {
				if he, is := p.(vx.HarnessError); is {
					panic(he)
				}
				err = fmt.Errorf("handler panic: %v", p)
				r.rec.Add("direct_handler_panics", 1)
			}
		}()
		_, err = h(ctx, msg)
	}()
	if err != nil {
		return false
	}
	write()
	r.block()
	return true
}

func (r *wrunner) deliver(key int, msg sdk.Msg) bool {
	acc := r.chain.SenderAccounts[key]
	if on := r.app.AccountKeeper.GetAccount(r.ctx(), acc.SenderAccount.GetAddress()); on != nil {
		_ = acc.SenderAccount.SetSequence(on.GetSequence())
	}
	var res *abci.ExecTxResult
	var err error
	guard("SendMsgs", func() { res, err = r.chain.SendMsgsWithSender(acc, msg) })
	return err == nil && res != nil && res.Code == 0
}

func (r *wrunner) submit(msg sdk.Msg, via string, key int) bool {
	if via == "direct" || key < 0 {
		return r.direct(msg)
	}
	return r.deliver(key, msg)
}

func (r *wrunner) count(op, class string, ok bool) {
	res := "rej"
	if ok {
		res = "ok"
	}
	r.rec.Add("cell/"+op+"/"+class+"/"+res, 1)
	wasmCellSeen[op+"/"+class]++
}

func (r *wrunner) newCode() []byte {
	r.nonce++
	return wasmtesting.CreateMockContract([]byte(fmt.Sprintf("vx-contract-%d-%d", r.step, r.nonce)))
}

// storeAsAuthority is a genuine authority request used as a pre-step (counted in the matrix).
func (r *wrunner) storeAsAuthority(n int) []byte {
	code := r.newCode()
	a := r.authority()
	via := "direct"
	if keyIdx(a) >= 0 && n%2 == 0 {
		via = "tx"
	}
	ok := r.submit(types.NewMsgStoreCode(r.addr(a), code), via, keyIdx(a))
	r.count("store", "authority", ok)
	r.posExpected++
	if !ok {
		r.rec.Add("posfail/pre-store", 1)
		return nil
	}
	r.posOK++
	cs, _ := types.CreateChecksum(code)
	r.stored = append(r.stored, cs)
	return cs
}

// spare returns a stored checksum the client does not run (storing one first if needed).
func (r *wrunner) spare(n int) []byte {
	var sp [][]byte
	for _, c := range r.stored {
		if string(c) != string(r.current) {
			sp = append(sp, c)
		}
	}
	if len(sp) == 0 {
		return r.storeAsAuthority(n)
	}
	return sp[n%len(sp)]
}

func (r *wrunner) snapshot() map[string]string {
	m := map[string]string{}
	for _, name := range []string{exported.StoreKey, types.StoreKey} {
		key := r.app.GetKey(name)
		if key == nil {
			vx.Harnessf("no store key %q", name)
		}
		it := r.ctx().KVStore(key).Iterator(nil, nil)
		for ; it.Valid(); it.Next() {
			m[name+":"+string(it.Key())] = string(it.Value())
		}
		it.Close()
	}
	return m
}

func diff(a, b map[string]string) []string {
	var out []string
	for k, v := range a {
		if bv, ok := b[k]; !ok || bv != v {
			out = append(out, fmt.Sprintf("%q", k))
		}
	}
	for k := range b {
		if _, ok := a[k]; !ok {
			out = append(out, fmt.Sprintf("%q", k))
		}
	}
	sort.Strings(out)
	return out
}

func (r *wrunner) exec(op wop) {
	if op.Op == "cfg-cpauth" {
		r.setCPAuth(op.N%2 == 0)
		r.rec.Class("cfg:cp-authority-toggled")
		return
	}
	// signer
	var s string
	switch op.Who {
	case "auth":
		s = r.authority()
	case "creator":
		s = "a0"
	case "listed":
		s = "a1"
	default:
		cands := []string{"a2", "a3", "a4"}
		if r.cpAuth {
			cands = append(cands, govID) // the keeper authority is a stranger while the override is active
		}
		s = cands[op.N%len(cands)]
	}
	class := map[string]string{"a0": "creator", "a1": "listed"}[s]
	if s == r.authority() {
		class = "authority"
	} else if class == "" {
		class = "stranger"
	}
	via, key := op.Via, keyIdx(s)
	if via == "forged" {
		key = keyIdx(ident(2 + op.N%3))
		if ident(2+op.N%3) == s {
			key = keyIdx("a1")
		}
		class = "forger"
	} else if key < 0 {
		via = "direct"
	}

	// request
	var msg sdk.Msg
	var onOK func()
	var newCS []byte
	switch op.Op {
	case "store":
		code := r.newCode()
		newCS, _ = types.CreateChecksum(code)
		msg = types.NewMsgStoreCode(r.addr(s), code)
		onOK = func() { r.stored = append(r.stored, newCS) }
	case "remove":
		cs := r.spare(op.N)
		if cs == nil {
			r.rec.Add("skipped_no_request", 1)
			return
		}
		msg = types.NewMsgRemoveChecksum(r.addr(s), cs)
		onOK = func() {
			var keep [][]byte
			for _, c := range r.stored {
				if string(c) != string(cs) {
					keep = append(keep, c)
				}
			}
			r.stored = keep
		}
	case "migrate":
		cs := r.spare(op.N)
		if cs == nil {
			r.rec.Add("skipped_no_request", 1)
			return
		}
		msg = types.NewMsgMigrateContract(r.addr(s), r.clientID, cs, []byte("{}"))
		onOK = func() { r.current = cs }
	default:
		vx.Harnessf("unknown op %q", op.Op)
	}
	allowed := via != "forged" && s == r.authority()

	before := r.snapshot()
	vmBefore := 0
	if newCS != nil {
		vmBefore = r.vmSeen[hex.EncodeToString(newCS)]
	}
	var ok bool
	if via == "forged" {
		ok = r.deliver(key, msg)
	} else {
		ok = r.submit(msg, via, key)
	}
	desc := fmt.Sprintf("step %d: %s signer=%s class=%s via=%s authority=%s", r.step, op.Op, s, class, via, r.authority())
	r.count(op.Op, class, ok)
	r.rec.Add("requests", 1)
	r.rec.Add("via/"+via, 1)
	if ok {
		r.rec.Add("accepted/"+class, 1)
		if !allowed {
			if vx.Violatef(r.t, r.rec, c46, "accepted-forbidden:wasm-"+op.Op+"/"+class, "%s: the request SUCCEEDED although only the configured authority may do this", desc) {
				return
			}
		}
		onOK()
	} else {
		r.rec.Add("rejected/"+class, 1)
		if d := diff(before, r.snapshot()); len(d) > 0 {
			if vx.Violatef(r.t, r.rec, c46, "rejected-changed-state:wasm-"+op.Op, "%s: the request was REJECTED but state changed: %v", desc, d) {
				return
			}
		}
		if newCS != nil && !allowed && r.vmSeen[hex.EncodeToString(newCS)] != vmBefore {
			if vx.Violatef(r.t, r.rec, c46, "rejected-reached-vm:wasm-store", "%s: the unauthorized request was rejected but its byte code was handed to the VM", desc) {
				return
			}
		}
	}
	if !allowed {
		r.forbidden++
		r.rec.Add("forbidden_requests", 1)
	} else {
		r.posExpected++
		r.rec.Add("positive_expected", 1)
		if ok {
			r.posOK++
			r.rec.Add("positive_ok", 1)
		} else {
			r.rec.Add("posfail/"+op.Op+"/"+via, 1)
		}
	}
	if r.cpAuth {
		r.rec.Class("cfg:cp-authority/%s", class)
		if s == govID {
			r.rec.Class("cfg:keeper-authority-overridden/%s", op.Op)
		}
	}
	r.rec.Class("cell:%s/%s", op.Op, class)
}

func runC46Wasm(outer *testing.T) func(t rapid.TB, c wasmCase, rec *vx.Case) {
	return func(t rapid.TB, c wasmCase, rec *vx.Case) {
		r := &wrunner{t: t, rec: rec}
		r.setup(outer, c)
		for i, op := range c.Ops {
			r.step = i
			r.exec(op)
		}
		// diagnostic: model vs chain
		n := 0
		for range r.stored {
			n++
		}
		got, err := r.app.WasmClientKeeper.GetAllChecksums(r.ctx())
		if err == nil && len(got) != n {
			rec.Add("model_drift_checksums", 1)
		}
		healthy := r.posExpected >= 3 && r.posOK*10 >= r.posExpected*8
		if !healthy {
			rec.Class("unhealthy-positive-path")
		}
		rec.NonTrivialIf(r.forbidden >= 4 && healthy)
	}
}

func genC46Wasm(t *rapid.T) wasmCase {
	c := wasmCase{CPAuth: rapid.IntRange(0, 3).Draw(t, "cpauth") == 0}
	n := rapid.IntRange(16, 30).Draw(t, "nops")
	for i := 0; i < n; i++ {
		if rapid.IntRange(0, 29).Draw(t, "special") == 0 {
			c.Ops = append(c.Ops, wop{Op: "cfg-cpauth", N: rapid.IntRange(0, 1).Draw(t, "on")})
			continue
		}
		c.Ops = append(c.Ops, wop{
			Op:  rapid.SampledFrom(wasmOps).Draw(t, "op"),
			Who: rapid.SampledFrom([]string{"auth", "auth", "creator", "listed", "stranger"}).Draw(t, "who"),
			Via: rapid.SampledFrom([]string{"direct", "direct", "direct", "direct", "tx", "tx", "tx", "tx", "forged"}).Draw(t, "via"),
			N:   rapid.IntRange(0, 999).Draw(t, "n"),
		})
	}
	return c
}

func TestC46Wasm(t *testing.T) {
	vx.Check(t, vx.Prop[wasmCase]{
		ID: c46,
		Rule: "08-wasm rows: histories of 16-30 requests {MsgStoreCode, MsgRemoveChecksum, MsgMigrateContract} x signer class (authority, wasm-client creator, listed relayer, stranger, forged Signer field) " +
			"x delivery (MsgServiceRouter handler | signed tx) x authority configuration (keeper authority | consensus-params override) on the 08-wasm simapp with the mock VM; " +
			"non-trivial = >=4 requests the model forbids AND >=3 authority requests of which >=80% succeed; distinct by full history",
		MinNTFrac: 0.6,
		Assumptions: []string{
			"the wasm VM is the mock engine of 08-wasm/testing (StoreCode/Migrate/Instantiate are test doubles); only the authorization logic of the 08-wasm MsgServer is exercised",
		},
		Gen: genC46Wasm,
		Run: runC46Wasm(t),
	})
	if os.Getenv("VERIF_REPLAY_IN") != "" || t.Failed() {
		return
	}
	total := 0
	for _, n := range wasmCellSeen {
		total += n
	}
	if total < 300 {
		return
	}
	var missing []string
	for _, op := range wasmOps {
		for _, cl := range wasmClasses {
			if wasmCellSeen[op+"/"+cl] == 0 {
				missing = append(missing, op+"/"+cl)
			}
		}
	}
	if len(missing) > 0 {
		t.Logf("COVERAGE note (per-process; the merged cell histogram is in the evidence metrics): matrix cells never exercised in %d requests: %s", total, strings.Join(missing, " "))
	}
}
