package tokensim

import (
	"math/big"
	"sort"
	"strings"
	"time"

	sdkmath "cosmossdk.io/math"

	sdk "github.com/cosmos/cosmos-sdk/types"
	"github.com/cosmos/cosmos-sdk/x/authz"

	transfertypes "github.com/cosmos/ibc-go/v11/modules/apps/transfer/types"
	channeltypesv2 "github.com/cosmos/ibc-go/v11/modules/core/04-channel/v2/types"

	"github.com/cosmos/ibc-go/v11/modules/apps/callbacks/verifx/vx"
)

func sortStrings(s []string) { sort.Strings(s) }

// Alloc is one allocation of a modelled TransferAuthorization.
type Alloc struct {
	Port, ID  string
	Limit     map[string]*big.Int // coin -> remaining (nil entry: not allowed)
	Unbounded map[string]bool
	Allow     []string // receiver allow list (empty: anyone)
	Memos     []string // allowed packet data (empty: memo must be blank; ["*"]: any)
}

// Grant is a modelled authz grant (one per chain, granter, grantee and message type; a new
// grant replaces the old one).
type Grant struct {
	Chain            int
	Granter, Grantee int // account indices (any of the 10 ibctesting accounts)
	TypeURL          string
	Generic          bool
	Allocs           []*Alloc
	Exp              *time.Time
}

var (
	urlTransfer   = sdk.MsgTypeURL(&transfertypes.MsgTransfer{})
	urlSendPacket = sdk.MsgTypeURL(&channeltypesv2.MsgSendPacket{})
)

func (w *World) acctIndex(chain int, addr string) int {
	for k := range w.Chains[chain].SenderAccounts {
		if w.Addr(chain, k).String() == addr {
			return k
		}
	}
	return -1
}

func (w *World) findGrant(chain, granter, grantee int, url string) (int, *Grant) {
	for i, g := range w.Grants {
		if g.Chain == chain && g.Granter == granter && g.Grantee == grantee && g.TypeURL == url {
			return i, g
		}
	}
	return -1, nil
}

// msgGranter returns the account index whose authority the message needs and its type url.
func (w *World) msgGranter(chain int, msg sdk.Msg) (int, string) {
	switch m := msg.(type) {
	case *transfertypes.MsgTransfer:
		return w.acctIndex(chain, m.Sender), urlTransfer
	case *channeltypesv2.MsgSendPacket:
		return w.acctIndex(chain, m.Signer), urlSendPacket
	}
	return -1, ""
}

// grantCovers: does the model say that executing msg through authz.MsgExec by `grantee` is
// authorised by the account the message speaks for? (Executing one's own message needs no grant.)
func (w *World) grantCovers(chain, grantee int, msg sdk.Msg, now time.Time) bool {
	granter, url := w.msgGranter(chain, msg)
	if granter < 0 {
		return false
	}
	if granter == grantee {
		return true
	}
	_, g := w.findGrant(chain, granter, grantee, url)
	if g == nil {
		return false
	}
	if g.Exp != nil && g.Exp.Before(now) {
		return false
	}
	if g.Generic {
		return true
	}
	mt, ok := msg.(*transfertypes.MsgTransfer)
	if !ok {
		return false
	}
	a := g.alloc(mt)
	if a == nil {
		return false
	}
	if len(a.Allow) > 0 {
		found := false
		for _, r := range a.Allow {
			if r == mt.Receiver {
				found = true
			}
		}
		if !found {
			return false
		}
	}
	if !memoAllowed(mt.Memo, a.Memos) {
		return false
	}
	if a.Unbounded[mt.Token.Denom] {
		return true
	}
	rem, ok := a.Limit[mt.Token.Denom]
	if !ok {
		return false
	}
	return mt.Token.Amount.BigInt().Cmp(rem) <= 0
}

func memoAllowed(memo string, allowed []string) bool {
	if len(allowed) == 0 {
		return strings.TrimSpace(memo) == ""
	}
	if len(allowed) == 1 && allowed[0] == "*" {
		return true
	}
	for _, a := range allowed {
		if strings.TrimSpace(a) == strings.TrimSpace(memo) {
			return true
		}
	}
	return false
}

func (g *Grant) alloc(mt *transfertypes.MsgTransfer) *Alloc {
	for _, a := range g.Allocs {
		if a.Port == mt.SourcePort && a.ID == mt.SourceChannel {
			return a
		}
	}
	return nil
}

// grantConsume updates the model after a committed MsgExec.
func (w *World) grantConsume(chain, grantee int, msg sdk.Msg, now time.Time) {
	granter, url := w.msgGranter(chain, msg)
	if granter < 0 || granter == grantee {
		return
	}
	gi, g := w.findGrant(chain, granter, grantee, url)
	if g == nil || g.Generic {
		return
	}
	mt, ok := msg.(*transfertypes.MsgTransfer)
	if !ok {
		return
	}
	a := g.alloc(mt)
	if a == nil || a.Unbounded[mt.Token.Denom] {
		return
	}
	if rem, ok := a.Limit[mt.Token.Denom]; ok {
		rem.Sub(rem, mt.Token.Amount.BigInt())
		if rem.Sign() <= 0 {
			delete(a.Limit, mt.Token.Denom)
		}
	}
	if len(a.Limit) == 0 && len(a.Unbounded) == 0 {
		for i, x := range g.Allocs {
			if x == a {
				g.Allocs = append(g.Allocs[:i], g.Allocs[i+1:]...)
				break
			}
		}
	}
	if len(g.Allocs) == 0 {
		w.Grants = append(w.Grants[:gi], w.Grants[gi+1:]...)
	}
}

// HasLiveGrant reports whether the model holds any grant from granter to grantee on chain.
func (w *World) HasLiveGrant(chain, granter, grantee int) bool {
	for _, g := range w.Grants {
		if g.Chain == chain && g.Granter == granter && g.Grantee == grantee {
			return true
		}
	}
	return false
}

func (w *World) execGrant(st *Step) {
	op := st.Op
	c := Pick(len(w.Chains), op.C)
	routes := w.RoutesFrom(c)
	if len(routes) == 0 {
		return
	}
	st.Kind = "grant"
	na := len(w.Chains[c].SenderAccounts)
	granter := Pick(NAcct, op.S)
	grantee := Pick(na, op.G)
	sig := st.Signer
	st.Chain, st.Sender = c, granter
	rt := routes[Pick(len(routes), op.L)]
	src := w.EndOf(rt.Link, rt.Dir)
	dst := rt.Link.Chain[1-rt.Dir]
	now := w.Now()
	var exp *time.Time
	if op.Exp > 0 {
		t := now.Add(time.Duration(op.Exp) * time.Second)
		exp = &t
	}
	g := &Grant{Chain: c, Granter: granter, Grantee: grantee, Exp: exp}
	var a authz.Authorization
	switch Pick(3, op.GK) {
	case 1:
		g.Generic, g.TypeURL = true, urlTransfer
		a = authz.NewGenericAuthorization(urlTransfer)
	case 2:
		g.Generic, g.TypeURL = true, urlSendPacket
		a = authz.NewGenericAuthorization(urlSendPacket)
	default:
		g.TypeURL = urlTransfer
		d := w.chooseDenom(c, granter, op.Den, op.Pref)
		al := &Alloc{Port: Port, ID: src.ID, Limit: map[string]*big.Int{}, Unbounded: map[string]bool{}}
		lim := sdkmath.NewInt(op.Lim)
		if op.Lim <= 0 {
			lim = transfertypes.UnboundedSpendLimit()
			al.Unbounded[d.Coin()] = true
		} else {
			al.Limit[d.Coin()] = big.NewInt(op.Lim)
		}
		if op.AR > 0 {
			al.Allow = []string{w.Addr(dst, Pick(NAcct, op.AR-1)).String()}
		}
		switch Pick(3, op.AMem) {
		case 1:
			al.Memos = []string{"*"}
		case 2:
			al.Memos = []string{Memos[1]}
		}
		g.Allocs = []*Alloc{al}
		a = transfertypes.NewTransferAuthorization(transfertypes.Allocation{
			SourcePort: Port, SourceChannel: src.ID, SpendLimit: sdk.NewCoins(sdk.NewCoin(d.Coin(), lim)),
			AllowList: al.Allow, AllowedPacketData: al.Memos,
		})
	}
	msg, err := authz.NewMsgGrant(w.Addr(c, granter), w.Addr(c, grantee), a, exp)
	if err != nil {
		vx.Harnessf("NewMsgGrant: %v", err)
	}
	st.Msg = msg
	st.Before = w.Banks()
	st.Res = w.Deliver(c, sig, msg)
	st.HadTx = true
	st.After = w.Banks()
	if st.Res.OK {
		if i, old := w.findGrant(c, granter, grantee, g.TypeURL); old != nil {
			w.Grants[i] = g
		} else {
			w.Grants = append(w.Grants, g)
		}
		st.Effect = "grant"
	}
}
