package codec

import (
	"fmt"
	"testing"

	sdkmath "cosmossdk.io/math"
	sdk "github.com/cosmos/cosmos-sdk/types"
	transfertypes "github.com/cosmos/ibc-go/v11/modules/apps/transfer/types"
	ibctesting "github.com/cosmos/ibc-go/v11/testing"
	"github.com/cosmos/ibc-go/v11/testing/simapp"
)

func TestProbe(t *testing.T) {
	for _, s := range []string{"010", "+5", "0x1f", "1_0", "0b11", " 5", "5 ", "1e3", "-0", "00"} {
		i, ok := sdkmath.NewIntFromString(s)
		fmt.Printf("%q -> %v %v\n", s, i, ok)
		d := transfertypes.FungibleTokenPacketData{Denom: "uatom", Amount: s, Sender: "a", Receiver: "b"}
		fmt.Println("  vb:", d.ValidateBasic())
		bz, err := transfertypes.MarshalPacketData(d, transfertypes.V1, transfertypes.EncodingABI)
		if err == nil {
			r, err2 := transfertypes.UnmarshalPacketData(bz, transfertypes.V1, transfertypes.EncodingABI)
			fmt.Println("  abi:", r.Token.Amount, err2)
		} else {
			fmt.Println("  abi enc err:", err)
		}
	}
	_ = ibctesting.ChainIDPrefix
	app, _ := ibctesting.SetupTestingApp()
	sa := app.(*simapp.SimApp)
	enc := struct{InterfaceRegistry interface{ListImplementations(string) []string; ListAllInterfaces() []string}}{sa.InterfaceRegistry()}
	n := 0
	for _, u := range enc.InterfaceRegistry.ListImplementations(sdk.MsgInterfaceProtoName) {
		if len(u) > 5 && u[:5] == "/ibc." {
			fmt.Println(u)
			n++
		}
	}
	fmt.Println(n)
	for _, i := range enc.InterfaceRegistry.ListAllInterfaces() {
		fmt.Println("IFACE", i)
		for _, u := range enc.InterfaceRegistry.ListImplementations(i) {
			if len(u) > 5 && u[:5] == "/ibc." {
				fmt.Println("   ", u)
			}
		}
	}
}
