package pkta

import (
	"fmt"
	"testing"

	"github.com/cosmos/ibc-go/v11/modules/apps/callbacks/verifx/pktsim"
	"github.com/cosmos/ibc-go/v11/modules/apps/callbacks/verifx/sim"
)

func TestDbg(t *testing.T) {
	h := pktsim.History{Links: []int{int(sim.V1Ordered)}}
	ok := []sim.Script{{N: 1, Out: "ok"}}
	h.Ops = []pktsim.Op{
		{K: "send", S: ok}, {K: "send", S: ok}, {K: "send", S: ok},
		{K: "recvnext", H: -1}, {K: "recvnext", H: -1, N: 1}, {K: "recvnext", H: -1},
		{K: "acknext", H: -1, N: 1}, {K: "acknext", H: -1}, {K: "acknext", H: -1}, {K: "recvnext", H: -1}, {K: "acknext", H: -1},
	}
	w := pktsim.NewWorld(t, h)
	for i, op := range h.Ops {
		st := execX(w, i, op)
		fmt.Printf("%d %s log=%d\n", i, pktsim.Describe(st), len(w.Log)-st.LogStart)
	}
}
