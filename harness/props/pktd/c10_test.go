package pktd

import (
	"bytes"
	"fmt"
	"testing"

	"pgregory.net/rapid"

	channeltypesv2 "github.com/cosmos/ibc-go/v11/modules/core/04-channel/v2/types"
	hostv2 "github.com/cosmos/ibc-go/v11/modules/core/24-host/v2"
	"github.com/cosmos/ibc-go/v11/modules/core/exported"

	"github.com/cosmos/ibc-go/v11/modules/apps/callbacks/verifx/sim"
	"github.com/cosmos/ibc-go/v11/modules/apps/callbacks/verifx/vx"
)

// C10: an IBC v2 packet with several payloads is received all-or-nothing. Either every
// payload succeeds, all effects persist and the acknowledgement commitment is
// Commit([ack_1..ack_n]) in payload order; or some payload fails, no application / bank
// state persists and the commitment is Commit([ErrorAcknowledgement]). A success result
// carrying the sentinel is rejected, an async result is accepted only for n = 1, and an
// acknowledgement written later for an async packet must hold one app ack per payload.

type c10Payload struct {
	App string  `json:"app"` // A | B (mockv2A / mockv2B; ports may repeat inside a packet)
	S   xScript `json:"s"`   // Out: ok | err (after F of the effects) | async | sentinel
}

type c10Pkt struct {
	L  int          `json:"l"` // 0: v2 client pair, 1: v2 over the alias of a v1 channel
	D  int          `json:"d"`
	P  []c10Payload `json:"p"`
	AA int          `json:"aa,omitempty"` // accepted single-payload async: number of app acks the application writes afterwards (0: none)
}

type c10Case struct {
	Pkts []c10Pkt `json:"pkts"`
}

func genC10(t *rapid.T) c10Case {
	var c c10Case
	np := rapid.IntRange(3, 6).Draw(t, "npkts")
	nonce := 0
	for i := 0; i < np; i++ {
		pk := c10Pkt{L: rapid.IntRange(0, 1).Draw(t, "link"), D: rapid.IntRange(0, 1).Draw(t, "dir")}
		shape := rapid.SampledFrom([]string{"allok", "allok", "one-err", "one-err", "one-err", "mixed", "mixed", "mixed", "single-async", "single-async", "sentinel", "multi-async"}).Draw(t, "shape")
		n := rapid.SampledFrom([]int{1, 2, 2, 3, 3, 4, 5, 6}).Draw(t, "npayloads")
		if shape == "single-async" {
			n = 1
		}
		if shape == "multi-async" && n < 2 {
			n = 2
		}
		special := rapid.IntRange(0, n-1).Draw(t, "specialPos")
		if shape == "one-err" && n >= 2 && rapid.IntRange(0, 2).Draw(t, "late") > 0 {
			special = rapid.IntRange(1, n-1).Draw(t, "latePos")
		}
		for j := 0; j < n; j++ {
			nonce++
			s := xScript{N: nonce, E: genEffects(t, 3), Out: "ok"}
			switch shape {
			case "one-err":
				if j == special {
					s.Out = "err"
				}
			case "single-async", "multi-async":
				if j == special {
					s.Out = "async"
				}
			case "sentinel":
				if j == special {
					s.Out = "sentinel"
				}
			case "mixed":
				s.Out = rapid.SampledFrom([]string{"ok", "ok", "ok", "ok", "err", "err", "async", "sentinel"}).Draw(t, "out")
			}
			if s.Out == "err" {
				s.F = rapid.IntRange(0, len(s.E)).Draw(t, "failAfter")
				if rapid.IntRange(0, 4).Draw(t, "failKind") == 0 {
					s.FK = "bank"
				}
			}
			pk.P = append(pk.P, c10Payload{App: rapid.SampledFrom([]string{"A", "B"}).Draw(t, "app"), S: s})
		}
		if n == 1 && pk.P[0].S.Out == "async" {
			pk.AA = rapid.SampledFrom([]int{0, 1, 1, 2, 3}).Draw(t, "asyncAcks")
		}
		c.Pkts = append(c.Pkts, pk)
	}
	return c
}

func runC10(outer *testing.T) func(t rapid.TB, c c10Case, rec *vx.Case) {
	return func(t rapid.TB, c c10Case, rec *vx.Case) {
		const id = "C10"
		w := sim.NewWorld(outer, 2, nil)
		base := w.AddLink(sim.V1Unordered, 0, 1, nil)
		links := []*sim.Link{w.AddLink(sim.V2Clients, 0, 1, nil), w.AddLink(sim.V2Alias, 0, 1, base)}
		x := newFx(w)
		x.installV2(0)
		x.installV2(1)
		errCommit := channeltypesv2.CommitAcknowledgement(channeltypesv2.Acknowledgement{AppAcknowledgements: [][]byte{channeltypesv2.ErrorAcknowledgement[:]}})

		nt, nErrAck, nSuccess, nRejected, nAsync, cbAfterFail := 0, 0, 0, 0, 0, 0
		for i, cp := range c.Pkts {
			w.StepNo = i
			if len(cp.P) == 0 {
				continue
			}
			l := links[((cp.L%2)+2)%2]
			dir := ((cp.D % 2) + 2) % 2
			dc := l.Chain[1-dir]
			var pls []channeltypesv2.Payload
			for _, p := range cp.P {
				pls = append(pls, xPayload(p.App, p.S))
			}
			pk, sres := w.SendV2(l, dir, 0, uint64(w.Coord.CurrentTime.Unix()+600), pls...)
			if pk == nil {
				vx.Harnessf("C10: send failed: %v", sres.Err)
			}

			// ---- the model, from the scripts alone
			n := len(cp.P)
			firstErr, rejecting, allOK := -1, "", true
			var okAcks [][]byte
			for j, p := range cp.P {
				switch p.S.Out {
				case "ok":
					okAcks = append(okAcks, sim.OKAck2(p.S.N))
				case "err":
					allOK = false
					if firstErr < 0 {
						firstErr = j
					}
				case "sentinel":
					allOK = false
					if rejecting == "" {
						rejecting = "sentinel"
					}
				case "async":
					allOK = false
					if n > 1 && rejecting == "" {
						rejecting = "multi-async"
					}
				default:
					vx.Harnessf("C10: unknown outcome %q", p.S.Out)
				}
			}
			singleAsync := n == 1 && cp.P[0].S.Out == "async"

			h := w.FreshHeight(l, 1-dir, 0)
			msg := w.BuildRecv(pk, h, 0)
			pre := snapCtx(w, dc, w.Ctx(dc))
			x.txNo++
			mark := len(x.log)
			res := w.Deliver(dc, 0, msg)
			post := snapCtx(w, dc, w.Ctx(dc))
			ackKey := string(hostv2.PacketAcknowledgementKey(pk.P2.DestinationClient, pk.P2.Sequence))
			rcptKey := string(hostv2.PacketReceiptKey(pk.P2.DestinationClient, pk.P2.Sequence))
			stored, hasAck := post[exported.StoreKey][ackKey]
			_, hasRcpt := post[exported.StoreKey][rcptKey]
			where := fmt.Sprintf("pkt %d (%s, %d payloads, outs %v, tx ok=%v)", i, l.Kind, n, outs(cp.P), res.OK)

			// callbacks after the first failing payload (health / log note)
			if firstErr >= 0 && len(x.log)-mark > firstErr+1 {
				cbAfterFail++
				rec.Class("callback-ran-after-failing-payload")
			}
			appUnchanged := len(sim.Diff(without(pre, exported.StoreKey), without(post, exported.StoreKey))) == 0

			switch {
			case !res.OK:
				// a failed transaction must leave nothing behind at all
				nRejected++
				rec.Class("tx-rejected:%s", reasonOf(firstErr, rejecting, allOK, singleAsync))
				if d := sim.Diff(pre, post); len(d) > 0 {
					vx.Violatef(t, rec, id, "rejected-recv-changed-state", "%s: the receive transaction failed but state changed: %s", where, short(d))
				}
				if firstErr >= 0 && rejecting == "" {
					vx.Violatef(t, rec, id, "failing-payload-no-error-ack", "%s: a payload failed (first at %d) and no payload is async/sentinel, so the universal error acknowledgement must be written; instead the transaction failed: %v", where, firstErr, res.Err)
				}
				if allOK {
					rec.Add("all_ok_but_tx_failed", 1)
				}
			case firstErr >= 0:
				// some payload fails: nothing of any application persists, ack is the single sentinel
				nErrAck++
				rec.Class("error-ack:n%d:first-fail-at-%d", n, firstErr)
				if !appUnchanged {
					vx.Violatef(t, rec, id, "failed-payload-state-persisted", "%s: payload %d failed but application/bank state changed: %s", where, firstErr, short(sim.Diff(without(pre, exported.StoreKey), without(post, exported.StoreKey))))
				}
				if !hasAck || !bytes.Equal([]byte(stored), errCommit) {
					vx.Violatef(t, rec, id, "failed-payload-ack-not-universal-error", "%s: payload %d failed but the stored ack commitment is %x, want Commit([ErrorAcknowledgement]) = %x", where, firstErr, stored, errCommit)
				}
				if !hasRcpt {
					rec.Add("error_ack_without_receipt", 1)
				}
				// NT: a failing payload at position >= 2 (index >= 1) after a payload whose effects were visible
				if firstErr >= 1 {
					m := pre
					wrote := false
					for j := 0; j < firstErr; j++ {
						if touches(w, dc, m, cp.P[j].S, len(cp.P[j].S.E)) {
							wrote = true
						}
						m, _ = applyModel(w, dc, m, cp.P[j].S, len(cp.P[j].S.E))
					}
					if wrote {
						nt++
						rec.Class("late-failure-after-writing-payload")
					}
				}
			case rejecting != "":
				// no failing payload, but a sentinel-as-success or an async result in a multi-payload packet:
				// the receive must not be accepted
				sig := "sentinel-success-accepted"
				if rejecting == "multi-async" {
					sig = "multi-payload-async-accepted"
				}
				vx.Violatef(t, rec, id, sig, "%s: the receive transaction succeeded (stored ack %x, app unchanged=%v)", where, stored, appUnchanged)
			case singleAsync:
				nAsync++
				rec.Class("single-async-accepted")
				if hasAck {
					rec.Add("single_async_with_sync_ack", 1)
				}
				want, _ := applyModel(w, dc, pre, cp.P[0].S, len(cp.P[0].S.E))
				// an accepted async receive is not a failure: the payload's state changes persist (C09/C10)
				if d := sim.Diff(without(want, exported.StoreKey), without(post, exported.StoreKey)); len(d) > 0 {
					vx.Violatef(t, rec, id, "async-effects-not-persisted", "%s: the single payload answered async and the receive was accepted, but application/bank state is not pre-state + its %d scripted effects: differing keys %s", where, len(cp.P[0].S.E), short(d))
				}
				rec.Add("single_async_effects_persisted", 1)
				if touches(w, dc, pre, cp.P[0].S, len(cp.P[0].S.E)) {
					rec.Add("single_async_with_visible_effects", 1)
				}
				// the application answers later: the ack must hold exactly one app ack per payload
				if cp.AA > 0 && !hasAck {
					var acks [][]byte
					for k := 0; k < cp.AA; k++ {
						acks = append(acks, []byte(fmt.Sprintf("late-%d-%d", cp.P[0].S.N, k)))
					}
					cctx, write := w.Ctx(dc).CacheContext()
					err := w.App(dc).IBCKeeper.ChannelKeeperV2.WriteAcknowledgement(cctx, pk.P2.DestinationClient, pk.P2.Sequence, channeltypesv2.Acknowledgement{AppAcknowledgements: acks})
					rec.Class("late-ack-with-%d-app-acks:accepted=%v", cp.AA, err == nil)
					if err == nil {
						write()
						w.Block(dc, 1)
						if cp.AA != n {
							vx.Violatef(t, rec, id, "ack-length-mismatch-accepted", "%s: an acknowledgement with %d app acks was written for a packet with %d payload(s)", where, cp.AA, n)
						}
					}
				}
			case allOK:
				nSuccess++
				rec.Class("success:n%d", n)
				want := pre
				for _, p := range cp.P {
					var ok bool
					if want, ok = applyModel(w, dc, want, p.S, len(p.S.E)); !ok {
						vx.Harnessf("C10: scripted bank send not affordable")
					}
				}
				if d := sim.Diff(without(want, exported.StoreKey), without(post, exported.StoreKey)); len(d) > 0 {
					vx.Violatef(t, rec, id, "success-effects-not-persisted", "%s: every payload succeeded but application/bank state is not pre-state + all effects in payload order: %s", where, short(d))
				}
				wantCommit := channeltypesv2.CommitAcknowledgement(channeltypesv2.Acknowledgement{AppAcknowledgements: okAcks})
				if !hasAck || !bytes.Equal([]byte(stored), wantCommit) {
					vx.Violatef(t, rec, id, "success-ack-not-per-payload-in-order", "%s: stored ack commitment %x, want Commit([ack_1..ack_%d]) in payload order = %x", where, stored, n, wantCommit)
				}
			default:
				vx.Harnessf("C10: unclassified packet %s", where)
			}
		}
		if x.bankErrs > 0 {
			vx.Harnessf("C10: %d scripted bank sends were refused", x.bankErrs)
		}
		rec.Add("error_ack_recvs", int64(nErrAck))
		rec.Add("success_recvs", int64(nSuccess))
		rec.Add("rejected_recv_txs", int64(nRejected))
		rec.Add("single_async_recvs", int64(nAsync))
		rec.Add("callbacks_after_failing_payload", int64(cbAfterFail))
		rec.Add("late_failures_after_writing_payload", int64(nt))
		rec.NonTrivialIf(nt >= 1)
	}
}

func outs(ps []c10Payload) []string {
	var o []string
	for _, p := range ps {
		o = append(o, p.App+":"+p.S.Out)
	}
	return o
}

func reasonOf(firstErr int, rejecting string, allOK, singleAsync bool) string {
	switch {
	case rejecting != "" && firstErr >= 0:
		return rejecting + "+err"
	case rejecting != "":
		return rejecting
	case firstErr >= 0:
		return "err-only"
	case allOK:
		return "all-ok"
	case singleAsync:
		return "single-async"
	}
	return "other"
}

func TestC10(t *testing.T) {
	vx.Check(t, vx.Prop[c10Case]{
		ID:        "C10",
		Rule:      "3..6 IBC v2 packets (client pair and v2-over-alias links, both directions) with 1..6 payloads routed to mockv2A/mockv2B (ports repeat); each payload = script of 0..3 effects (app-store set/delete, bank send) then ok | err after a prefix | async | sentinel-as-success; accepted single-payload async packets are later acknowledged by the application with 1..3 app acks; non-trivial = a packet with >= 2 payloads whose first failing payload sits at position >= 2 after a payload with model-visible effects; distinct by full case",
		MinNTFrac: 0.3,
		Gen:       genC10,
		Run:       runC10(t),
	})
}
