package denom

import (
	"fmt"
	"math/big"
	"sort"
	"strings"
	"sync"
	"testing"

	sdkmath "cosmossdk.io/math"

	sdk "github.com/cosmos/cosmos-sdk/types"

	"pgregory.net/rapid"

	ratelimitkeeper "github.com/cosmos/ibc-go/v11/modules/apps/rate-limiting/keeper"
	ratelimittypes "github.com/cosmos/ibc-go/v11/modules/apps/rate-limiting/types"
	transfertypes "github.com/cosmos/ibc-go/v11/modules/apps/transfer/types"
	clienttypes "github.com/cosmos/ibc-go/v11/modules/core/02-client/types"
	channeltypes "github.com/cosmos/ibc-go/v11/modules/core/04-channel/types"
	channeltypesv2 "github.com/cosmos/ibc-go/v11/modules/core/04-channel/v2/types"
	porttypes "github.com/cosmos/ibc-go/v11/modules/core/05-port/types"
	"github.com/cosmos/ibc-go/v11/modules/core/api"
	ibctesting "github.com/cosmos/ibc-go/v11/testing"

	"github.com/cosmos/ibc-go/v11/modules/apps/callbacks/verifx/sim"
	"github.com/cosmos/ibc-go/v11/modules/apps/callbacks/verifx/vx"
)

// C42: for every ICS-20 packet (v1 or v2) rate limiting charges a send / receive to exactly the
// denomination and channel ICS-20 uses (escrow|burn on send, mint|unescrow on receive).
//
// Differential with an oracle that RUNS ICS-20: every step of a case is executed twice on
// (discarded) cached contexts of one long-lived chain:
//   probe   through the real stack with no rate limit registered; the bank is diffed to learn
//           which denom M moved, how much, and between which accounts (sender / receiver /
//           the escrow account of which channel / supply);
//   charged again, after registering a 100 % quota on exactly (M, our channel-or-client id): the
//           quota's Outflow (send) / Inflow (receive) must grow by exactly the amount moved.
// For v1 the exported parsers (ParsePacketInfo -> ParseDenomFromSendPacket / ...RecvPacket) are
// additionally applied to the very packet and must name (our id, M, amount).
// Sends are real MsgTransfer handled by the transfer msg server (v1 over open channels; v2 over
// client ids and over aliased channel ids); receives call the top of the transfer stacks
// (rate-limit -> PFM -> transfer; rate-limit-v2 -> transfer-v2) with packets whose source /
// destination identifiers are free (no channel state is consulted by these layers).
// Steps in which ICS-20 itself refuses (nothing moves) are counted, not judged.

// Signatures. Send side: sigHopLike (recorded finding, class sendKnownClass). Receive side: the
// receive parser disagreeing with ICS-20 for the two anticipated shapes (two-segment base with a
// hop-like second segment arriving as a foreign token; returning packet from a source id that is
// not channel-N / {type}-N shaped) is sigRecvParser - NOT excluded from any generator: on a tree
// where ParseDenomFromRecvPacket mirrors ICS-20's OnRecvPacket these cases simply pass.
const (
	sigRecvParser = "recv-parser-differs-from-ics20"
)

type c42Case struct {
	V2    bool        `json:"v2"`
	Alias bool        `json:"alias"` // v2 packets addressed to v1 channel ids (aliasing)
	Enc   int         `json:"enc"`   // v2 payload encoding of received packets: 0 json 1 protobuf 2 abi
	Kind  int         `json:"kind"`  // 0: native out (send) and back (receive); 1: foreign token in (receive) then Next
	Base  string      `json:"base"`
	Trace [][2]string `json:"trace"` // hops in front of the base in the incoming packet (kind 1), outermost first
	// counterparty port / id of the packets we receive
	SrcPort string `json:"src_port"`
	SrcID   string `json:"src_id"`
	Our     int    `json:"our"`  // our id: index into the open ids (0,1) or, >= 2, a synthetic id (receive only)
	Next    int    `json:"next"` // kind 1: 0 stop, 1 send the voucher back (unwind), 2 forward over the other open id, 3 forward and take it back
	Amount  string `json:"amount"`
	Part    int    `json:"part"` // quarters moved in the later steps
	// bookkeeping of the generator
	ExcludedHop int `json:"excluded_hop"`
}

var (
	c42SrcPorts     = []string{"transfer", "transfer", "transfer", "transfer", "xfer", "ibc", "wasm.cosmos1xyz", "icahost"}
	c42SrcChannels  = []string{"channel-0", "channel-1", "channel-10", "channel-11", "channel-100", "channel-3", "channel-9", "channel-141", "channel-14", "channel-18446744073709551615"}
	c42ForeignChans = []string{"channel.17", "solchan#42", "channelA01", "chan-abcdef"}
	c42SrcClients   = []string{"07-tendermint-0", "07-tendermint-1", "07-tendermint-10", "07-tendermint-100", "07-tendermint-5", "08-wasm-7", "08-wasm-70", "client-5", "client-50", "cosmoshub-4", "10-attestations-2"}
	c42SynthChans   = []string{"channel-9", "channel-1", "channel-10", "channel-77", "channel-18446744073709551615"}
	c42SynthClients = []string{"07-tendermint-44", "07-tendermint-1", "07-tendermint-10", "08-wasm-1", "client-0"}
	c42Encodings    = []string{transfertypes.EncodingJSON, transfertypes.EncodingProtobuf, transfertypes.EncodingABI}
)

// prefixSibling returns an identifier that is string-prefix related to id without being equal to
// it: id with one or two more digits (channel-1 -> channel-10, channel-100) or, when id ends in two
// digits, id without its last digit (channel-10 -> channel-1). A first trace hop built from it has
// the sender's port and an id that merely STARTS WITH (or is a prefix of) the packet's source id.
func prefixSibling(t *rapid.T, id string) string {
	n := len(id)
	shorter := n >= 2 && id[n-1] >= '0' && id[n-1] <= '9' && id[n-2] >= '0' && id[n-2] <= '9'
	switch k := rapid.IntRange(0, 3).Draw(t, "sibling"); {
	case k == 0 && shorter:
		return id[:n-1]
	case k == 1:
		return id + "1"
	case k == 2:
		return id + "00"
	default:
		return id + "0"
	}
}

func genC42(t *rapid.T) c42Case {
	c := c42Case{}
	c.V2 = rapid.IntRange(0, 2).Draw(t, "v2") == 0
	if c.V2 {
		c.Alias = rapid.IntRange(0, 2).Draw(t, "alias") == 0
		c.Enc = rapid.IntRange(0, 2).Draw(t, "enc")
	}
	c.Kind = rapid.SampledFrom([]int{0, 1, 1}).Draw(t, "kind")
	if c.Kind == 0 {
		// the native denom is SENT: the recorded send-side class (>= 3 segments, hop-like second
		// segment) is repaired out by construction; two-segment hop-like names stay in
		c.Base, c.ExcludedHop = genBase(t, "base", repairHopLikeSend)
	} else {
		// the denom only ARRIVES (and its voucher is sent on): nothing is excluded
		c.Base, _ = genBase(t, "base", keepHopLike)
	}
	if c.V2 && rapid.IntRange(0, 2).Draw(t, "v2-slashless") > 0 {
		// ICS-20 over IBC v2 refuses to SEND base denoms with '/', keep most v2 bases slash-free
		c.Base = strings.ReplaceAll(c.Base, "/", "")
		for len(c.Base) < 3 {
			c.Base += "x"
		}
	}
	c.SrcPort = "transfer"
	if !c.V2 {
		c.SrcPort = rapid.SampledFrom(c42SrcPorts).Draw(t, "src-port")
		c.SrcID = rapid.SampledFrom(append(append([]string{}, c42SrcChannels...), c42ForeignChans...)).Draw(t, "src-id")
	} else if c.Alias {
		c.SrcID = rapid.SampledFrom(c42SrcChannels).Draw(t, "src-id")
	} else {
		c.SrcID = rapid.SampledFrom(c42SrcClients).Draw(t, "src-id")
	}
	if c.Kind == 0 {
		c.Our = rapid.IntRange(0, 1).Draw(t, "our")
	} else {
		c.Our = rapid.IntRange(0, 4).Draw(t, "our")
		c.Next = rapid.IntRange(0, 3).Draw(t, "next")
		if c.Our >= 2 {
			c.Next = 0
		}
		nh := rapid.SampledFrom([]int{0, 0, 1, 1, 2, 3}).Draw(t, "nhops")
		for i := 0; i < nh; i++ {
			port := rapid.SampledFrom(c42SrcPorts).Draw(t, "hop-port")
			var id string
			if c.V2 && !c.Alias {
				id = rapid.SampledFrom(c42SrcClients).Draw(t, "hop-id")
			} else {
				id = rapid.SampledFrom(append(append([]string{}, c42SrcChannels...), c42SrcClients...)).Draw(t, "hop-id")
			}
			if i == 0 && rapid.IntRange(0, 2).Draw(t, "sibling-first-hop") == 0 {
				// first hop = the sender's port with an id that is only string-prefix related to the source id
				port, id = c.SrcPort, prefixSibling(t, c.SrcID)
			}
			if i == 0 && port == c.SrcPort && id == c.SrcID {
				continue // would read as a returning token with nothing in escrow
			}
			c.Trace = append(c.Trace, [2]string{port, id})
		}
	}
	c.Amount = genAmount(t, "amount")
	c.Part = rapid.IntRange(1, 4).Draw(t, "part")
	return c
}

// the recorded send-side finding, re-demonstrated deterministically: native denoms with >= 3
// segments and a hop-like second segment, sent out over v1.
func genC42Known(t *rapid.T) c42Case {
	return c42Case{Kind: 0, Base: rapid.SampledFrom([]string{"ab/client-10/e", "transfer/channel-0/foo", "lp/07-tendermint-0/share/x", "factory/channel-12/sub"}).Draw(t, "base"),
		SrcPort: "transfer", SrcID: "channel-3", Our: rapid.IntRange(0, 1).Draw(t, "our"), Amount: genAmount(t, "amount"), Part: 4}
}

// the two receive-side shapes in which ParseDenomFromRecvPacket used to disagree with ICS-20
// (regression cases: they must pass once the receive parser mirrors OnRecvPacket).
func genC42RecvParser(t *rapid.T) c42Case {
	if rapid.IntRange(0, 2).Draw(t, "prefix-shape") == 0 {
		// a foreign token whose FIRST hop has the sender's port and an id that only starts with (or is
		// a prefix of) the packet's source id: ICS-20 is a sink here and mints
		c := c42Case{Kind: 1, Base: rapid.SampledFrom([]string{"uosmo", "gamm/pool/1", "ab/cd"}).Draw(t, "base"),
			V2: rapid.Bool().Draw(t, "v2"), SrcPort: "transfer", Our: rapid.IntRange(0, 4).Draw(t, "our"), Next: rapid.IntRange(0, 3).Draw(t, "next"), Amount: genAmount(t, "amount"), Part: 4}
		if c.V2 {
			c.Alias = rapid.Bool().Draw(t, "alias")
			c.Enc = rapid.IntRange(0, 2).Draw(t, "enc")
		}
		if c.V2 && !c.Alias {
			c.SrcID = rapid.SampledFrom([]string{"07-tendermint-1", "07-tendermint-10", "08-wasm-7", "client-5"}).Draw(t, "src")
			c.Base = strings.ReplaceAll(c.Base, "/", "")
		} else {
			c.SrcPort = rapid.SampledFrom([]string{"transfer", "transfer", "xfer"}).Draw(t, "src-port")
			if c.V2 {
				c.SrcPort = "transfer"
			}
			c.SrcID = rapid.SampledFrom([]string{"channel-1", "channel-10", "channel-11", "channel-100", "channel-3"}).Draw(t, "src")
		}
		c.Trace = [][2]string{{c.SrcPort, prefixSibling(t, c.SrcID)}}
		if rapid.Bool().Draw(t, "second-hop") {
			c.Trace = append(c.Trace, [2]string{"transfer", rapid.SampledFrom(c42SrcChannels).Draw(t, "hop2")})
		}
		if c.Our >= 2 {
			c.Next = 0
		}
		return c
	}
	if rapid.Bool().Draw(t, "shape") {
		// two-segment base with a hop-like second segment arriving as a foreign token (v1, v2, alias)
		c := c42Case{Kind: 1, Base: rapid.SampledFrom([]string{"gamm/pool-1", "a/channel-7", "factory/07-tendermint-0", "lp/09-localhost"}).Draw(t, "base"),
			V2: rapid.Bool().Draw(t, "v2"), SrcPort: "transfer", Our: rapid.IntRange(0, 3).Draw(t, "our"), Next: rapid.IntRange(0, 2).Draw(t, "next"), Amount: genAmount(t, "amount"), Part: 4}
		c.SrcID = rapid.SampledFrom([]string{"channel-3", "client-5"}).Draw(t, "src")
		if c.V2 {
			c.Alias = rapid.Bool().Draw(t, "alias")
			c.Enc = rapid.IntRange(0, 2).Draw(t, "enc")
		}
		if c.Our >= 2 {
			c.Next = 0
		}
		return c
	}
	// native sent to a counterparty whose channel id is not channel-N / {type}-N shaped, and returned
	return c42Case{Kind: 0, Base: rapid.SampledFrom([]string{"uatom", "gamm/pool/1", "gamm/pool-1"}).Draw(t, "base"),
		SrcPort: rapid.SampledFrom([]string{"transfer", "xfer"}).Draw(t, "src-port"), SrcID: rapid.SampledFrom(c42ForeignChans).Draw(t, "src"), Our: rapid.IntRange(0, 1).Draw(t, "our"), Amount: genAmount(t, "amount"), Part: rapid.IntRange(1, 4).Draw(t, "part")}
}

// ---- the long-lived chain -----------------------------------------------------------

type c42Env struct {
	w       *sim.World
	v1stack porttypes.IBCModule
	v2stack api.IBCModule
	openV1  []string    // our open transfer channel ids
	cpV1    [][2]string // their counterparties (port, channel)
	openV2  []string    // our v2 client ids with a registered counterparty
	cpV2    []string
}

var (
	c42Mu   sync.Mutex
	c42Envs = map[string]*c42Env{}
)

func c42World(outer *testing.T) *c42Env {
	c42Mu.Lock()
	defer c42Mu.Unlock()
	if e, ok := c42Envs[outer.Name()]; ok {
		return e
	}
	w := sim.NewWorld(outer, 2, nil)
	e := &c42Env{w: w}
	l0 := addTransferLink(w, 0, 1, 0, 3)
	l1 := addTransferLink(w, 0, 1, 4, 0)
	for _, l := range []*sim.Link{l0, l1} {
		e.openV1 = append(e.openV1, l.ID(0))
		e.cpV1 = append(e.cpV1, [2]string{l.Port(1), l.ID(1)})
	}
	for i := 0; i < 2; i++ {
		l := w.AddLink(sim.V2Clients, 0, 1, nil)
		e.openV2 = append(e.openV2, l.ID(0))
		e.cpV2 = append(e.cpV2, l.ID(1))
	}
	var ok bool
	if e.v1stack, ok = w.App(0).IBCKeeper.PortKeeper.Route(transfertypes.PortID); !ok {
		vx.Harnessf("no v1 route for the transfer port")
	}
	e.v2stack = w.App(0).IBCKeeper.ChannelKeeperV2.Router.Route(transfertypes.PortID)
	if e.v2stack == nil {
		vx.Harnessf("no v2 route for the transfer port")
	}
	c42Envs[outer.Name()] = e
	return e
}

// ---- bank observation ---------------------------------------------------------------

type bankState struct {
	bal map[string]sdkmath.Int // addr|denom
	sup map[string]sdkmath.Int
}

func (e *c42Env) snap(ctx sdk.Context) bankState {
	s := bankState{bal: map[string]sdkmath.Int{}, sup: map[string]sdkmath.Int{}}
	bk := e.w.App(0).BankKeeper
	bk.IterateAllBalances(ctx, func(addr sdk.AccAddress, c sdk.Coin) bool {
		s.bal[addr.String()+"|"+c.Denom] = c.Amount
		return false
	})
	bk.IterateTotalSupply(ctx, func(c sdk.Coin) bool {
		s.sup[c.Denom] = c.Amount
		return false
	})
	return s
}

func delta(a, b map[string]sdkmath.Int) map[string]*big.Int {
	out := map[string]*big.Int{}
	for k, v := range b {
		o, ok := a[k]
		if !ok {
			o = sdkmath.ZeroInt()
		}
		if !v.Equal(o) {
			out[k] = new(big.Int).Sub(v.BigInt(), o.BigInt())
		}
	}
	for k, v := range a {
		if _, ok := b[k]; !ok && !v.IsZero() {
			out[k] = new(big.Int).Neg(v.BigInt())
		}
	}
	return out
}

// moved is what ICS-20 did, read off the bank.
type moved struct {
	Any   bool
	Denom string
	Amt   *big.Int
	How   string // escrow | burn | mint | unescrow
}

func keysOf(m map[string]*big.Int) []string {
	var ks []string
	for k, v := range m {
		ks = append(ks, k+":"+v.String())
	}
	sort.Strings(ks)
	return ks
}

// classifyMove interprets the bank difference of one ICS-20 step. who = the sending / receiving
// user, ourID = the channel or client id on our side, send = direction.
func classifyMove(before, after bankState, who sdk.AccAddress, ourID string, send bool) moved {
	db, ds := delta(before.bal, after.bal), delta(before.sup, after.sup)
	if len(db) == 0 && len(ds) == 0 {
		return moved{}
	}
	var mine []string
	for k := range db {
		if strings.HasPrefix(k, who.String()+"|") {
			mine = append(mine, k)
		}
	}
	if len(mine) != 1 {
		vx.Harnessf("ICS-20 step changed %d balances of the user (want 1): %v supply %v", len(mine), keysOf(db), keysOf(ds))
	}
	m := moved{Any: true, Denom: strings.TrimPrefix(mine[0], who.String()+"|"), Amt: new(big.Int).Abs(db[mine[0]])}
	sign := db[mine[0]].Sign()
	if (send && sign >= 0) || (!send && sign <= 0) {
		vx.Harnessf("user balance moved the wrong way: %v", keysOf(db))
	}
	esc := transfertypes.GetEscrowAddress(transfertypes.PortID, ourID).String() + "|" + m.Denom
	want := new(big.Int).Set(m.Amt)
	if !send {
		want.Neg(want)
	}
	switch {
	case db[esc] != nil && db[esc].Cmp(want) == 0 && len(db) == 2 && len(ds) == 0:
		m.How = map[bool]string{true: "escrow", false: "unescrow"}[send]
	case len(db) == 1 && len(ds) == 1 && ds[m.Denom] != nil && new(big.Int).Neg(ds[m.Denom]).Cmp(want) == 0:
		m.How = map[bool]string{true: "burn", false: "mint"}[send]
	default:
		vx.Harnessf("cannot interpret the bank difference of an ICS-20 step on %s: balances %v supply %v", ourID, keysOf(db), keysOf(ds))
	}
	return m
}

// ---- one step ---------------------------------------------------------------------------

type c42Step struct {
	send     bool
	v2       bool
	alias    bool
	ourID    string
	who      sdk.AccAddress
	describe string
	// run executes the step on ctx; ok=false when ICS-20 refused. For v1 it also returns the packet
	// the rate limiter saw.
	run func(ctx sdk.Context) (ok bool, pkt *channeltypes.Packet, packetDenom string, err error)
}

type c42Run struct {
	t   rapid.TB
	rec *vx.Case
	e   *c42Env
	c   c42Case
}

func (x *c42Run) signature(st c42Step, generic string) string {
	switch {
	case st.send && x.c.Kind == 0 && sendKnownClass(x.c.Base):
		return sigHopLike // a native denom of the recorded class being sent
	case !st.send && (hopLikeBase(x.c.Base) || !hopLike(x.c.SrcID)):
		return sigRecvParser
	}
	return generic
}

func dirName(send bool) string {
	if send {
		return "send"
	}
	return "recv"
}

// exec runs one step (probe, then charged) on the evolving context ectx. It returns what moved.
func (x *c42Run) exec(ectx sdk.Context, st c42Step) (moved, bool) {
	e := x.e
	rl := e.w.App(0).RateLimitKeeper
	dir := dirName(st.send)
	ver := map[bool]string{false: "v1", true: "v2"}[st.v2]

	probe, _ := ectx.CacheContext()
	b0 := e.snap(probe)
	ok, pkt, pdenom, err := st.run(probe)
	m := classifyMove(b0, e.snap(probe), st.who, st.ourID, st.send)
	if !ok || !m.Any {
		if m.Any {
			vx.Harnessf("%s: ICS-20 reported failure (%v) but the bank changed", st.describe, err)
		}
		x.rec.Add("ics20_refused_"+dir, 1)
		x.rec.Class("ics20-refused-" + dir + "-" + ver)
		return m, false
	}
	x.rec.Add("steps_compared", 1)
	x.rec.Class("%s-%s-%s", ver, dir, m.How)
	amt := sdkmath.NewIntFromBigInt(m.Amt)

	// (1) the exported parsers on the very packet (v1)
	if pkt != nil {
		d := ratelimittypes.PACKET_RECV
		if st.send {
			d = ratelimittypes.PACKET_SEND
		}
		info, perr := ratelimitkeeper.ParsePacketInfo(*pkt, d)
		if perr != nil {
			x.violate(st, "parse-error-"+dir, "%s: ICS-20 moved %s %s (%s) but ParsePacketInfo fails: %v", st.describe, m.Amt, m.Denom, m.How, perr)
			return m, false
		}
		if info.Denom != m.Denom {
			x.violate(st, "charged-denom-mismatch-"+dir, "%s: packet denom %q on %s: ICS-20 %s %s of %q, rate limiting charges %q", st.describe, pdenom, st.ourID, m.How, m.Amt, m.Denom, info.Denom)
			return m, false
		}
		if info.ChannelID != st.ourID {
			x.violate(st, "charged-channel-mismatch-"+dir, "%s: ICS-20 used %s, rate limiting charges channel %q", st.describe, st.ourID, info.ChannelID)
			return m, false
		}
		if !info.Amount.Equal(amt) {
			x.violate(st, "charged-amount-mismatch-"+dir, "%s: ICS-20 moved %s, rate limiting charges %s", st.describe, m.Amt, info.Amount)
			return m, false
		}
	}

	// (2) through the stack with a quota on exactly what ICS-20 moved
	if _, found := rl.GetRateLimit(ectx, m.Denom, st.ourID); !found {
		huge := sdkmath.NewIntFromBigInt(new(big.Int).Exp(big.NewInt(10), big.NewInt(70), nil))
		rl.SetRateLimit(ectx, ratelimittypes.RateLimit{
			Path:  &ratelimittypes.Path{Denom: m.Denom, ChannelOrClientId: st.ourID},
			Quota: &ratelimittypes.Quota{MaxPercentSend: sdkmath.NewInt(100), MaxPercentRecv: sdkmath.NewInt(100), DurationHours: 24},
			Flow:  &ratelimittypes.Flow{Inflow: sdkmath.ZeroInt(), Outflow: sdkmath.ZeroInt(), ChannelValue: huge},
		})
	}
	f0, _ := rl.GetRateLimit(ectx, m.Denom, st.ourID)
	b1 := e.snap(ectx)
	ok2, _, _, err2 := st.run(ectx)
	m2 := classifyMove(b1, e.snap(ectx), st.who, st.ourID, st.send)
	if !ok2 || !m2.Any || m2.Denom != m.Denom || m2.Amt.Cmp(m.Amt) != 0 {
		// a 100 % quota of a 10^70 channel value cannot be what stopped it
		x.violate(st, "quota-on-moved-denom-changes-ics20-"+dir, "%s: with a quota on (%s, %s) the step no longer behaves as in the probe: ok=%v err=%v moved=%+v (probe %+v)", st.describe, m.Denom, st.ourID, ok2, err2, m2, m)
		return m, false
	}
	f1, _ := rl.GetRateLimit(ectx, m.Denom, st.ourID)
	var charged sdkmath.Int
	if st.send {
		charged = f1.Flow.Outflow.Sub(f0.Flow.Outflow)
	} else {
		charged = f1.Flow.Inflow.Sub(f0.Flow.Inflow)
	}
	if !charged.Equal(amt) {
		x.violate(st, "flow-not-charged-"+dir, "%s: packet denom %q: ICS-20 %s %s of %q on %s, but the quota registered on exactly (%q, %s) was charged %s", st.describe, pdenom, m.How, m.Amt, m.Denom, st.ourID, m.Denom, st.ourID, charged)
		return m, false
	}
	return m, true
}

func (x *c42Run) violate(st c42Step, generic, format string, args ...any) {
	vx.Violatef(x.t, x.rec, "C42", x.signature(st, generic), "%s", fmt.Sprintf(format, args...))
}

// ---- step constructors -----------------------------------------------------------------

func (x *c42Run) sendStep(ourIdx int, coin sdk.Coin, from sdk.AccAddress) c42Step {
	e, c := x.e, x.c
	id := e.openV1[ourIdx]
	if c.V2 && !c.Alias {
		id = e.openV2[ourIdx]
	}
	st := c42Step{send: true, v2: c.V2, alias: c.Alias, ourID: id, who: from,
		describe: fmt.Sprintf("send %s over %s (v2=%v alias=%v)", coin, id, c.V2, c.Alias)}
	st.run = func(ctx sdk.Context) (bool, *channeltypes.Packet, string, error) {
		ctx = ctx.WithEventManager(sdk.NewEventManager())
		var msg *transfertypes.MsgTransfer
		receiver := "cosmos1receiveronthecounterparty"
		if c.V2 {
			ts := uint64(ctx.BlockTime().Unix()) + 3600
			msg = transfertypes.NewMsgTransferWithEncoding(transfertypes.PortID, id, coin, from.String(), receiver, clienttypes.ZeroHeight(), ts, "", c42Encodings[c.Enc], c.Alias)
		} else {
			msg = transfertypes.NewMsgTransfer(transfertypes.PortID, id, coin, from.String(), receiver, farTimeout(e.w, 1), 0, "")
		}
		if err := msg.ValidateBasic(); err != nil {
			return false, nil, "", err
		}
		if _, err := e.w.App(0).TransferKeeper.Transfer(ctx, msg); err != nil {
			return false, nil, "", err
		}
		evs := ctx.EventManager().ABCIEvents()
		if c.V2 {
			p2, err := ibctesting.ParseV2PacketFromEvents(evs)
			if err != nil || len(p2.Payloads) != 1 {
				vx.Harnessf("v2 MsgTransfer succeeded without a send_packet event: %v", err)
			}
			d, err := transfertypes.UnmarshalPacketData(p2.Payloads[0].Value, p2.Payloads[0].Version, p2.Payloads[0].Encoding)
			if err != nil {
				vx.Harnessf("cannot decode the v2 payload just sent: %v", err)
			}
			return true, nil, d.Token.Denom.Path(), nil
		}
		p1, err := ibctesting.ParseV1PacketFromEvents(evs)
		if err != nil {
			vx.Harnessf("v1 MsgTransfer succeeded without a send_packet event: %v", err)
		}
		var d transfertypes.FungibleTokenPacketData
		_ = transfertypes.ModuleCdc.UnmarshalJSON(p1.Data, &d)
		return true, &p1, d.Denom, nil
	}
	return st
}

func (x *c42Run) recvStep(ourID, srcPort, srcID, denomPath string, amt sdkmath.Int, to sdk.AccAddress, seq uint64) c42Step {
	e, c := x.e, x.c
	st := c42Step{send: false, v2: c.V2, alias: c.Alias, ourID: ourID, who: to,
		describe: fmt.Sprintf("receive %s of packet denom %q from %s/%s on %s/%s (v2=%v)", amt, denomPath, srcPort, srcID, transfertypes.PortID, ourID, c.V2)}
	data := transfertypes.NewFungibleTokenPacketData(denomPath, amt.String(), "sender-on-the-counterparty", to.String(), "")
	relayer := e.w.Addr(0, acctRelayer)
	st.run = func(ctx sdk.Context) (bool, *channeltypes.Packet, string, error) {
		ctx = ctx.WithEventManager(sdk.NewEventManager())
		if c.V2 {
			bz, err := transfertypes.MarshalPacketData(data, transfertypes.V1, c42Encodings[c.Enc])
			if err != nil {
				return false, nil, denomPath, err
			}
			payload := channeltypesv2.NewPayload(transfertypes.PortID, transfertypes.PortID, transfertypes.V1, c42Encodings[c.Enc], bz)
			res := e.v2stack.OnRecvPacket(ctx, srcID, ourID, seq, payload, relayer)
			return res.Status == channeltypesv2.PacketStatus_Success, nil, denomPath, nil
		}
		pkt := channeltypes.NewPacket(data.GetBytes(), seq, srcPort, srcID, transfertypes.PortID, ourID, clienttypes.NewHeight(1, 10_000_000), 0)
		ack := e.v1stack.OnRecvPacket(ctx, transfertypes.V1, pkt, relayer)
		return ack != nil && ack.Success(), &pkt, denomPath, nil
	}
	return st
}

func pathOf(trace [][2]string, base string) string {
	var sb strings.Builder
	for _, h := range trace {
		sb.WriteString(h[0] + "/" + h[1] + "/")
	}
	sb.WriteString(base)
	return sb.String()
}

func runC42(outer *testing.T) func(t rapid.TB, c c42Case, rec *vx.Case) {
	return func(t rapid.TB, c c42Case, rec *vx.Case) {
		e := c42World(outer)
		x := &c42Run{t: t, rec: rec, e: e, c: c}
		w := e.w
		rec.Add("excluded_known", int64(c.ExcludedHop))
		for _, s := range strings.Split(c.Base, "/") {
			selfCheckHopLike(s)
		}
		selfCheckHopLike(c.SrcID)
		if sdk.ValidateDenom(c.Base) != nil {
			rec.Add("not_an_sdk_denom", 1)
			return
		}
		ectx, _ := w.Ctx(0).CacheContext()
		amt := mustInt(c.Amount)
		part := frac(amt, c.Part)
		user, holder := w.Addr(0, acctSender), w.Addr(0, acctHolder)
		unwinding, compared := false, 0

		openIDs := e.openV1
		if c.V2 && !c.Alias {
			openIDs = e.openV2
		}
		cpOf := func(i int) (string, string) {
			if c.V2 && !c.Alias {
				return transfertypes.PortID, e.cpV2[i]
			}
			return e.cpV1[i][0], e.cpV1[i][1]
		}

		switch c.Kind {
		case 0:
			// native out ...
			bk := w.App(0).BankKeeper
			coins := sdk.NewCoins(sdk.NewCoin(c.Base, amt))
			if err := bk.MintCoins(ectx, "mint", coins); err != nil {
				vx.Harnessf("mint: %v", err)
			}
			if err := bk.SendCoinsFromModuleToAccount(ectx, "mint", user, coins); err != nil {
				vx.Harnessf("fund: %v", err)
			}
			m, ok := x.exec(ectx, x.sendStep(c.Our, sdk.NewCoin(c.Base, amt), user))
			if !ok {
				break
			}
			compared++
			// ... and back: the counterparty (SrcPort, SrcID) returns part of it
			_ = m
			back := c.SrcPort + "/" + c.SrcID + "/" + c.Base
			unwinding = true
			if _, ok := x.exec(ectx, x.recvStep(openIDs[c.Our], c.SrcPort, c.SrcID, back, part, holder, 7)); ok {
				compared++
			}
		default:
			ourID := ""
			switch {
			case c.Our < 2:
				ourID = openIDs[c.Our]
			case c.V2 && !c.Alias:
				ourID = c42SynthClients[(c.Our-2)%len(c42SynthClients)]
			default:
				ourID = c42SynthChans[(c.Our-2)%len(c42SynthChans)]
			}
			m, ok := x.exec(ectx, x.recvStep(ourID, c.SrcPort, c.SrcID, pathOf(c.Trace, c.Base), amt, holder, 5))
			if !ok {
				break
			}
			compared++
			voucher := sdk.NewCoin(m.Denom, part)
			switch c.Next {
			case 1:
				unwinding = true
				if _, ok := x.exec(ectx, x.sendStep(c.Our, voucher, holder)); ok {
					compared++
				}
			case 2, 3:
				other := 1 - c.Our
				if _, ok := x.exec(ectx, x.sendStep(other, voucher, holder)); !ok {
					break
				}
				compared++
				if c.Next == 3 {
					unwinding = true
					cpPort, cpID := cpOf(other)
					back := cpPort + "/" + cpID + "/" + transfertypes.PortID + "/" + ourID + "/" + pathOf(c.Trace, c.Base)
					if _, ok := x.exec(ectx, x.recvStep(openIDs[other], cpPort, cpID, back, frac(part, c.Part), user, 9)); ok {
						compared++
					}
				}
			}
		}
		rec.Class("kind-%d", c.Kind)
		if len(c.Trace) > 0 {
			rec.Class("trace-hops-%d", len(c.Trace))
		}
		if hasIdentifierLikeSegment(c.Base) {
			rec.Class("id-like-base-segment")
		}
		if hopLikeBase(c.Base) {
			rec.Class("hop-like-second-base-segment")
		}
		if !hopLike(c.SrcID) {
			rec.Class("foreign-format-source-id")
		}
		rec.NonTrivialIf(compared > 0 && (unwinding || hasIdentifierLikeSegment(c.Base)))
	}
}

func TestC42(t *testing.T) {
	vx.Check(t, vx.Prop[c42Case]{
		ID: "C42",
		Rule: "base denoms from the C33 generator (1-6 segments, identifier-like shapes), v1 / v2 / v2-over-alias, json|protobuf|abi payloads; kind 0: native sent over an open channel/client then a returning packet from (src port, src id); " +
			"kind 1: incoming packet with 0-3 extra hops from (src port, src id) on an open or synthetic id, then unwind-send / forward-send / forward-and-return; every step run through the real stacks on a cached context with ICS-20's bank effect as oracle; " +
			"only the recorded send-side class (a SENT native denom with >=3 segments and a hop-like second segment) is repaired out by construction; non-trivial = >=1 compared step and (an unwinding step or an identifier-like base segment); distinct by full case",
		MinNTFrac: 0.3,
		Gen:       genC42,
		Run:       runC42(t),
	})
}

// TestC42Known re-demonstrates the recorded send-side finding with the same engine.
func TestC42Known(t *testing.T) {
	run := runC42(t)
	vx.Check(t, vx.Prop[c42Case]{
		ID:   "C42",
		Rule: "deterministic re-demonstration of hoplike-base-segment (send side): native ab/client-10/e, transfer/channel-0/foo, lp/07-tendermint-0/share/x, factory/channel-12/sub sent over an open v1 channel; every evaluated case counts",
		Gen:  genC42Known,
		Run: func(t rapid.TB, c c42Case, rec *vx.Case) {
			run(t, c, rec)
			rec.Class("known-subcase")
			rec.NonTrivial()
		},
	})
}

// TestC42RecvParser pins the two receive-side shapes (see genC42RecvParser).
func TestC42RecvParser(t *testing.T) {
	run := runC42(t)
	vx.Check(t, vx.Prop[c42Case]{
		ID:   "C42",
		Rule: "receive-side regression shapes: two-segment base with hop-like second segment arriving as a foreign token (v1/v2/alias, then unwind or forward), a native denom returned by a counterparty whose channel id is not channel-N/{type}-N shaped, and a foreign token whose first hop has the sender's port and an id that is only string-prefix related to the source id (channel-1 vs channel-10, 07-tendermint-1 vs 07-tendermint-10); every evaluated case counts",
		Gen:  genC42RecvParser,
		Run: func(t rapid.TB, c c42Case, rec *vx.Case) {
			run(t, c, rec)
			rec.Class("recv-parser-subcase")
			rec.NonTrivial()
		},
	})
}
