package st

import (
	"testing"

	"github.com/cosmos/ibc-go/v11/modules/apps/callbacks/verifx/vx"
)

func TestMain(m *testing.M) { vx.Main(m) }
