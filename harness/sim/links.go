package sim

import (
	"fmt"

	"github.com/cosmos/gogoproto/proto"

	sdk "github.com/cosmos/cosmos-sdk/types"

	clienttypes "github.com/cosmos/ibc-go/v11/modules/core/02-client/types"
	channeltypes "github.com/cosmos/ibc-go/v11/modules/core/04-channel/types"
	channeltypesv2 "github.com/cosmos/ibc-go/v11/modules/core/04-channel/v2/types"
	host "github.com/cosmos/ibc-go/v11/modules/core/24-host"
	hostv2 "github.com/cosmos/ibc-go/v11/modules/core/24-host/v2"
	ibctesting "github.com/cosmos/ibc-go/v11/testing"

	"github.com/cosmos/ibc-go/v11/modules/apps/callbacks/verifx/vx"
)

// LinkKind enumerates the ways two chains can exchange packets.
type LinkKind int

const (
	V1Unordered LinkKind = iota // v1 UNORDERED channel on the mock port
	V1Ordered                   // v1 ORDERED channel on the mock port
	V2Clients                   // v2 client pair with registered counterparties
	V2Alias                     // v2 packets addressed to the channel ids of a V1Unordered link
)

func (k LinkKind) String() string {
	return [...]string{"v1-unordered", "v1-ordered", "v2", "v2-alias"}[k]
}

// Link connects chain A (index Chain[0]) and chain B (index Chain[1]).
type Link struct {
	Idx   int
	Kind  LinkKind
	Chain [2]int
	Path  *ibctesting.Path
	Base  *Link // for V2Alias: the V1Unordered link whose channel ids are used as client ids
}

func (l *Link) ep(side int) *ibctesting.Endpoint {
	p := l.Path
	if l.Base != nil {
		p = l.Base.Path
	}
	if side == 0 {
		return p.EndpointA
	}
	return p.EndpointB
}

// IsV2 reports whether packets on this link are IBC v2 packets.
func (l *Link) IsV2() bool { return l.Kind == V2Clients || l.Kind == V2Alias }

// Port returns the v1 port id on the given side.
func (l *Link) Port(side int) string { return l.ep(side).ChannelConfig.PortID }

// ID returns the identifier packets carry for the given side: channel id (v1, alias) or
// client id (v2).
func (l *Link) ID(side int) string {
	if l.Kind == V2Clients {
		return l.ep(side).ClientID
	}
	return l.ep(side).ChannelID
}

// Client returns the light client id on `side` that tracks the other chain.
func (l *Link) Client(side int) string { return l.ep(side).ClientID }

// AddLink creates a link of the given kind between chains a and b with honest setup.
func (w *World) AddLink(kind LinkKind, a, b int, base *Link) *Link {
	l := &Link{Idx: len(w.Links), Kind: kind, Chain: [2]int{a, b}, Base: base}
	Guard("link setup", func() {
		switch kind {
		case V1Unordered, V1Ordered:
			p := ibctesting.NewPath(w.Chains[a], w.Chains[b])
			if kind == V1Ordered {
				p.SetChannelOrdered()
			}
			p.Setup()
			l.Path = p
		case V2Clients:
			p := ibctesting.NewPath(w.Chains[a], w.Chains[b])
			p.SetupV2()
			l.Path = p
		case V2Alias:
			if base == nil || base.Kind != V1Unordered {
				vx.Harnessf("alias link needs a v1 unordered base")
			}
			l.Path = base.Path
		}
	})
	w.Links = append(w.Links, l)
	return l
}

// Pkt is a packet that was committed on its source chain.
type Pkt struct {
	Idx       int
	Link      int
	Dir       int // 0: A->B, 1: B->A
	V2        bool
	P1        channeltypes.Packet
	P2        channeltypesv2.Packet
	SrcHeight int64 // block that carried the send
	Ack1      []byte
	Ack2      *channeltypesv2.Acknowledgement
}

func (p *Pkt) Seq() uint64 {
	if p.V2 {
		return p.P2.Sequence
	}
	return p.P1.Sequence
}

func (w *World) src(p *Pkt) (int, int) { l := w.Links[p.Link]; return l.Chain[p.Dir], p.Dir }
func (w *World) dst(p *Pkt) (int, int) { l := w.Links[p.Link]; return l.Chain[1-p.Dir], 1 - p.Dir }

// SrcChain / DstChain return the chain indices of a packet's source and destination.
func (w *World) SrcChain(p *Pkt) int { c, _ := w.src(p); return c }
func (w *World) DstChain(p *Pkt) int { c, _ := w.dst(p); return c }

// SendV1 makes the (mock) application on side `dir` of link l send a v1 packet. The send is
// a direct keeper call (as an application module would do) followed by a block commit.
func (w *World) SendV1(l *Link, dir int, th clienttypes.Height, ts uint64, data []byte) (*Pkt, error) {
	if l.IsV2() {
		vx.Harnessf("SendV1 on v2 link")
	}
	c := l.Chain[dir]
	ep := l.ep(dir)
	ctx, write := w.Ctx(c).CacheContext()
	seq, err := w.App(c).IBCKeeper.ChannelKeeper.SendPacket(ctx, ep.ChannelConfig.PortID, ep.ChannelID, th, ts, data)
	if err != nil {
		return nil, err
	}
	write()
	h := w.Chains[c].ProposedHeader.Height
	w.Block(c, 1)
	cp := l.ep(1 - dir)
	p := &Pkt{Idx: len(w.Pkts), Link: l.Idx, Dir: dir, SrcHeight: h,
		P1: channeltypes.NewPacket(data, seq, ep.ChannelConfig.PortID, ep.ChannelID, cp.ChannelConfig.PortID, cp.ChannelID, th, ts)}
	w.Pkts = append(w.Pkts, p)
	return p, nil
}

// SendV2 delivers a MsgSendPacket on side dir of a v2 / alias link.
func (w *World) SendV2(l *Link, dir int, signer int, timeoutSec uint64, payloads ...channeltypesv2.Payload) (*Pkt, TxResult) {
	if !l.IsV2() {
		vx.Harnessf("SendV2 on v1 link")
	}
	c := l.Chain[dir]
	msg := channeltypesv2.NewMsgSendPacket(l.ID(dir), timeoutSec, w.Addr(c, signer).String(), payloads...)
	res := w.Deliver(c, signer, msg)
	if !res.OK {
		return nil, res
	}
	var msgData sdk.TxMsgData
	if err := proto.Unmarshal(res.Res.Data, &msgData); err != nil || len(msgData.MsgResponses) == 0 {
		vx.Harnessf("cannot decode MsgSendPacket response: %v", err)
	}
	var sr channeltypesv2.MsgSendPacketResponse
	if err := proto.Unmarshal(msgData.MsgResponses[0].Value, &sr); err != nil {
		vx.Harnessf("cannot decode MsgSendPacketResponse: %v", err)
	}
	p := &Pkt{Idx: len(w.Pkts), Link: l.Idx, Dir: dir, V2: true, SrcHeight: res.Height,
		P2: channeltypesv2.NewPacket(sr.Sequence, l.ID(dir), l.ID(1-dir), timeoutSec, payloads...)}
	w.Pkts = append(w.Pkts, p)
	return p, res
}

// MockPayload builds a v2 payload for the scripted mock apps. app is "A" or "B".
func MockPayload(app string, s Script) channeltypesv2.Payload {
	port := "mockv2" + app
	return channeltypesv2.Payload{SourcePort: port, DestinationPort: port, Version: "mock-version", Encoding: "application/json", Value: s.Bytes()}
}

// ---- relay message builders -------------------------------------------------------

// VerifierClient returns (chain, clientID) of the light client that verifies proofs about
// the other side when a message for packet p is processed on `side`.
func (w *World) VerifierClient(l *Link, side int) (int, string) { return l.Chain[side], l.Client(side) }

// FreshHeight updates the client on `side` (tracking the other chain) and returns its new
// latest revision height; proofs at that height see everything committed so far.
func (w *World) FreshHeight(l *Link, side int, signer int) uint64 {
	c, client := w.VerifierClient(l, side)
	res := w.UpdateClient(c, client, l.Chain[1-side], signer)
	_ = res
	return w.Chains[c].GetClientLatestHeight(client).GetRevisionHeight()
}

// StoredHeights lists the consensus heights available to verify proofs on `side`.
func (w *World) StoredHeights(l *Link, side int) []uint64 {
	c, client := w.VerifierClient(l, side)
	return w.ConsensusHeights(c, client)
}

func (w *World) signerAddr(chain, signer int) string { return w.Addr(chain, signer).String() }

// CommitmentKey is the store key of the packet's commitment on its source chain.
func (p *Pkt) CommitmentKey() []byte {
	if p.V2 {
		return hostv2.PacketCommitmentKey(p.P2.SourceClient, p.P2.Sequence)
	}
	return host.PacketCommitmentKey(p.P1.SourcePort, p.P1.SourceChannel, p.P1.Sequence)
}

// AckKey is the store key of the packet's acknowledgement on its destination chain.
func (p *Pkt) AckKey() []byte {
	if p.V2 {
		return hostv2.PacketAcknowledgementKey(p.P2.DestinationClient, p.P2.Sequence)
	}
	return host.PacketAcknowledgementKey(p.P1.DestinationPort, p.P1.DestinationChannel, p.P1.Sequence)
}

// ReceiptKey is the store key whose absence proves non-receipt on the destination chain
// (for ORDERED channels: the nextSequenceRecv key).
func (w *World) ReceiptKey(p *Pkt) []byte {
	if p.V2 {
		return hostv2.PacketReceiptKey(p.P2.DestinationClient, p.P2.Sequence)
	}
	if w.Links[p.Link].Kind == V1Ordered {
		return host.NextSequenceRecvKey(p.P1.DestinationPort, p.P1.DestinationChannel)
	}
	return host.PacketReceiptKey(p.P1.DestinationPort, p.P1.DestinationChannel, p.P1.Sequence)
}

// BuildRecv builds the receive message for p with a commitment proof taken from the source
// chain for consensus height h.
func (w *World) BuildRecv(p *Pkt, h uint64, signer int) sdk.Msg {
	sc := w.SrcChain(p)
	dc := w.DstChain(p)
	proof, ph := w.Proof(sc, p.CommitmentKey(), h)
	if p.V2 {
		return channeltypesv2.NewMsgRecvPacket(p.P2, proof, ph, w.signerAddr(dc, signer))
	}
	return channeltypes.NewMsgRecvPacket(p.P1, proof, ph, w.signerAddr(dc, signer))
}

// BuildAck builds the acknowledgement message for p carrying ack bytes / app acks.
func (w *World) BuildAck(p *Pkt, ack1 []byte, ack2 channeltypesv2.Acknowledgement, h uint64, signer int) sdk.Msg {
	sc := w.SrcChain(p)
	dc := w.DstChain(p)
	proof, ph := w.Proof(dc, p.AckKey(), h)
	if p.V2 {
		return channeltypesv2.NewMsgAcknowledgement(p.P2, ack2, proof, ph, w.signerAddr(sc, signer))
	}
	return channeltypes.NewMsgAcknowledgement(p.P1, ack1, proof, ph, w.signerAddr(sc, signer))
}

// NextSeqRecvAt reads nextSequenceRecv of p's destination channel end as of the state
// provable at consensus height h (version h-1); 0 if unavailable.
func (w *World) NextSeqRecv(p *Pkt) uint64 {
	dc := w.DstChain(p)
	n, _ := w.App(dc).IBCKeeper.ChannelKeeper.GetNextSequenceRecv(w.Ctx(dc), p.P1.DestinationPort, p.P1.DestinationChannel)
	return n
}

// BuildTimeout builds the timeout message for p with a non-receipt proof for height h.
func (w *World) BuildTimeout(p *Pkt, nextSeqRecv uint64, h uint64, signer int) sdk.Msg {
	sc := w.SrcChain(p)
	dc := w.DstChain(p)
	proof, ph := w.Proof(dc, w.ReceiptKey(p), h)
	if p.V2 {
		return channeltypesv2.NewMsgTimeout(p.P2, proof, ph, w.signerAddr(sc, signer))
	}
	return channeltypes.NewMsgTimeout(p.P1, nextSeqRecv, proof, ph, w.signerAddr(sc, signer))
}

// BuildTimeoutOnClose builds MsgTimeoutOnClose (v1 only).
func (w *World) BuildTimeoutOnClose(p *Pkt, nextSeqRecv uint64, h uint64, signer int) sdk.Msg {
	sc := w.SrcChain(p)
	dc := w.DstChain(p)
	proof, ph := w.Proof(dc, w.ReceiptKey(p), h)
	closeProof, _ := w.Proof(dc, host.ChannelKey(p.P1.DestinationPort, p.P1.DestinationChannel), h)
	return channeltypes.NewMsgTimeoutOnClose(p.P1, nextSeqRecv, proof, closeProof, ph, w.signerAddr(sc, signer))
}

// NoteAck extracts the acknowledgement written by a receive transaction from its events
// and remembers it on the packet (this is what an honest relayer would learn).
func (w *World) NoteAck(p *Pkt, res TxResult) {
	if !res.OK {
		return
	}
	if p.V2 {
		bz, err := ibctesting.ParseAckV2FromEvents(res.Events)
		if err != nil {
			return
		}
		var ack channeltypesv2.Acknowledgement
		if proto.Unmarshal(bz, &ack) == nil {
			p.Ack2 = &ack
		}
		return
	}
	if bz, err := ibctesting.ParseAckFromEvents(res.Events); err == nil {
		p.Ack1 = bz
	}
}

// HasCommitment reports whether the source chain still stores p's commitment.
func (w *World) HasCommitment(p *Pkt) bool {
	sc := w.SrcChain(p)
	st := w.Ctx(sc).KVStore(w.App(sc).GetKey("ibc"))
	return st.Has(p.CommitmentKey())
}

// StoredAck returns the ack commitment stored on the destination for p (nil if none).
func (w *World) StoredAck(p *Pkt) []byte {
	dc := w.DstChain(p)
	return w.Ctx(dc).KVStore(w.App(dc).GetKey("ibc")).Get(p.AckKey())
}

// ResultIsNoop reports whether a successful relay transaction returned the NOOP result.
func ResultIsNoop(res TxResult) bool {
	if !res.OK {
		return false
	}
	var msgData sdk.TxMsgData
	if proto.Unmarshal(res.Res.Data, &msgData) != nil || len(msgData.MsgResponses) == 0 {
		return false
	}
	v := msgData.MsgResponses[0].Value
	// every relay response is `message { ResponseResultType result = 1; }`
	var r channeltypes.MsgRecvPacketResponse
	if proto.Unmarshal(v, &r) != nil {
		return false
	}
	return r.Result == channeltypes.NOOP
}

func (p *Pkt) String() string {
	if p.V2 {
		return fmt.Sprintf("pkt#%d v2 %s->%s seq=%d", p.Idx, p.P2.SourceClient, p.P2.DestinationClient, p.P2.Sequence)
	}
	return fmt.Sprintf("pkt#%d v1 %s/%s->%s/%s seq=%d", p.Idx, p.P1.SourcePort, p.P1.SourceChannel, p.P1.DestinationPort, p.P1.DestinationChannel, p.P1.Sequence)
}
