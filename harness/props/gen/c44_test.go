package gen

import (
	"bytes"
	"encoding/json"
	"fmt"
	"regexp"
	"sort"
	"strings"
	"testing"

	"pgregory.net/rapid"

	"github.com/cosmos/gogoproto/proto"

	sdk "github.com/cosmos/cosmos-sdk/types"

	gmptypes "github.com/cosmos/ibc-go/v11/modules/apps/27-gmp/types"
	icacontrollerkeeper "github.com/cosmos/ibc-go/v11/modules/apps/27-interchain-accounts/controller/keeper"
	icacontrollertypes "github.com/cosmos/ibc-go/v11/modules/apps/27-interchain-accounts/controller/types"
	icagenesistypes "github.com/cosmos/ibc-go/v11/modules/apps/27-interchain-accounts/genesis/types"
	icahostkeeper "github.com/cosmos/ibc-go/v11/modules/apps/27-interchain-accounts/host/keeper"
	icahosttypes "github.com/cosmos/ibc-go/v11/modules/apps/27-interchain-accounts/host/types"
	pfmtypes "github.com/cosmos/ibc-go/v11/modules/apps/packet-forward-middleware/types"
	ratelimittypes "github.com/cosmos/ibc-go/v11/modules/apps/rate-limiting/types"
	transfertypes "github.com/cosmos/ibc-go/v11/modules/apps/transfer/types"
	ibc "github.com/cosmos/ibc-go/v11/modules/core"
	channeltypesv2 "github.com/cosmos/ibc-go/v11/modules/core/04-channel/v2/types"
	hostv2 "github.com/cosmos/ibc-go/v11/modules/core/24-host/v2"
	ibcexported "github.com/cosmos/ibc-go/v11/modules/core/exported"
	ibctypes "github.com/cosmos/ibc-go/v11/modules/core/types"
	"github.com/cosmos/ibc-go/v11/testing/simapp"

	"github.com/cosmos/ibc-go/v11/modules/apps/callbacks/verifx/pktsim"
	"github.com/cosmos/ibc-go/v11/modules/apps/callbacks/verifx/sim"
	"github.com/cosmos/ibc-go/v11/modules/apps/callbacks/verifx/vx"
)

// C44: exporting a module's state and initialising an EMPTY store from that export
// reproduces the module's store key by key (KV(M) == KV(Init(empty, Export(M)))), the
// re-export equals the export, and a history that continues on the re-imported state
// reaches the same outcomes as a control run that never went through export/import.

const c44 = "C44"

// Known-finding signatures (proposed; see the report): state of v1 channel ALIASES is not
// part of the exported IBC genesis.
const (
	sigAliasMapping      = "alias-mapping-not-exported"         // key  <channel-id>"alias"
	sigAliasCounterparty = "alias-counterparty-not-exported"    // key  clients/<channel-id>/counterparty
	sigAliasPacketState  = "alias-v2-packet-state-not-exported" // keys <channel-id>{0x01,0x02,0x03}<seq>, <channel-id>"async_packet"<seq>
)

// sigEqualCounterparty: the exported clientv2 genesis contains a counterparty whose client id
// equals the local client id (legal and common: both chains call their first client
// 07-tendermint-0) and GenesisState.Validate() / clientv2.InitGenesis reject exactly that.
const sigEqualCounterparty = "v2-counterparty-equal-client-id-rejected"

func hasEqualCounterpartyID(g *ibctypes.GenesisState) bool {
	for _, ci := range g.ClientV2Genesis.CounterpartyInfos {
		if ci.ClientId == ci.CounterpartyInfo.ClientId {
			return true
		}
	}
	return false
}

// genModule is one module with an ExportGenesis / InitGenesis pair.
type genModule struct {
	name  string
	store string
	// export returns the genesis (as the value handed to init, after a JSON round trip
	// through the app codec exactly like a genesis file) and its canonical JSON.
	export func(ctx sdk.Context, app *simapp.SimApp) (any, []byte, error)
	init   func(ctx sdk.Context, app *simapp.SimApp, gs any)
}

// jsonRoundTrip marshals a proto genesis with the app codec (what `export` writes to the
// genesis file) and decodes it into a fresh value (what InitChain hands to InitGenesis).
func jsonRoundTrip[T any, PT interface {
	*T
	proto.Message
}](app *simapp.SimApp, gs PT) (PT, []byte, error) {
	bz, err := app.AppCodec().MarshalJSON(gs)
	if err != nil {
		return nil, nil, err
	}
	out := PT(new(T))
	if err := app.AppCodec().UnmarshalJSON(bz, out); err != nil {
		return nil, bz, err
	}
	return out, bz, nil
}

var genModules = []genModule{
	{
		name: "ibc", store: ibcexported.StoreKey,
		export: func(ctx sdk.Context, app *simapp.SimApp) (any, []byte, error) {
			gs, bz, err := jsonRoundTrip[ibctypes.GenesisState](app, ibc.ExportGenesis(ctx, *app.IBCKeeper))
			if err != nil {
				return nil, bz, err
			}
			return gs, bz, gs.Validate()
		},
		init: func(ctx sdk.Context, app *simapp.SimApp, gs any) {
			ibc.InitGenesis(ctx, *app.IBCKeeper, gs.(*ibctypes.GenesisState))
		},
	},
	{
		name: "transfer", store: transfertypes.StoreKey,
		export: func(ctx sdk.Context, app *simapp.SimApp) (any, []byte, error) {
			gs, bz, err := jsonRoundTrip[transfertypes.GenesisState](app, app.TransferKeeper.ExportGenesis(ctx))
			if err != nil {
				return nil, bz, err
			}
			return gs, bz, gs.Validate()
		},
		init: func(ctx sdk.Context, app *simapp.SimApp, gs any) {
			app.TransferKeeper.InitGenesis(ctx, *gs.(*transfertypes.GenesisState))
		},
	},
	{
		name: "ratelimit", store: ratelimittypes.StoreKey,
		export: func(ctx sdk.Context, app *simapp.SimApp) (any, []byte, error) {
			gs, bz, err := jsonRoundTrip[ratelimittypes.GenesisState](app, app.RateLimitKeeper.ExportGenesis(ctx))
			if err != nil {
				return nil, bz, err
			}
			return gs, bz, gs.Validate()
		},
		init: func(ctx sdk.Context, app *simapp.SimApp, gs any) {
			app.RateLimitKeeper.InitGenesis(ctx, *gs.(*ratelimittypes.GenesisState))
		},
	},
	{
		name: "pfm", store: pfmtypes.StoreKey,
		export: func(ctx sdk.Context, app *simapp.SimApp) (any, []byte, error) {
			gs, bz, err := jsonRoundTrip[pfmtypes.GenesisState](app, app.PFMKeeper.ExportGenesis(ctx))
			if err != nil {
				return nil, bz, err
			}
			return gs, bz, gs.Validate()
		},
		init: func(ctx sdk.Context, app *simapp.SimApp, gs any) {
			app.PFMKeeper.InitGenesis(ctx, *gs.(*pfmtypes.GenesisState))
		},
	},
	{
		name: "icacontroller", store: icacontrollertypes.StoreKey,
		export: func(ctx sdk.Context, app *simapp.SimApp) (any, []byte, error) {
			g := icacontrollerkeeper.ExportGenesis(ctx, *app.ICAControllerKeeper)
			gs, bz, err := jsonRoundTrip[icagenesistypes.ControllerGenesisState](app, &g)
			if err != nil {
				return nil, bz, err
			}
			return gs, bz, gs.Validate()
		},
		init: func(ctx sdk.Context, app *simapp.SimApp, gs any) {
			icacontrollerkeeper.InitGenesis(ctx, *app.ICAControllerKeeper, *gs.(*icagenesistypes.ControllerGenesisState))
		},
	},
	{
		name: "icahost", store: icahosttypes.StoreKey,
		export: func(ctx sdk.Context, app *simapp.SimApp) (any, []byte, error) {
			g := icahostkeeper.ExportGenesis(ctx, *app.ICAHostKeeper)
			gs, bz, err := jsonRoundTrip[icagenesistypes.HostGenesisState](app, &g)
			if err != nil {
				return nil, bz, err
			}
			return gs, bz, gs.Validate()
		},
		init: func(ctx sdk.Context, app *simapp.SimApp, gs any) {
			icahostkeeper.InitGenesis(ctx, *app.ICAHostKeeper, *gs.(*icagenesistypes.HostGenesisState))
		},
	},
	{
		name: "gmp", store: gmptypes.StoreKey,
		export: func(ctx sdk.Context, app *simapp.SimApp) (any, []byte, error) {
			g, err := app.GMPKeeper.ExportGenesis(ctx)
			if err != nil {
				return nil, nil, err
			}
			gs, bz, err := jsonRoundTrip[gmptypes.GenesisState](app, g)
			if err != nil {
				return nil, bz, err
			}
			return gs, bz, gs.Validate()
		},
		init: func(ctx sdk.Context, app *simapp.SimApp, gs any) {
			if err := app.GMPKeeper.InitGenesis(ctx, gs.(*gmptypes.GenesisState)); err != nil {
				panic(err)
			}
		},
	},
}

// harnessKey: the scripted mock applications of the harness keep their own writes in the
// gmp store under sim.AppKey(...); those are not state of the gmp module and are neither
// wiped nor compared.
var harnessPrefix = sim.AppKey("")

func isHarnessKey(store string, k []byte) bool {
	return store == sim.AppStore && bytes.HasPrefix(k, harnessPrefix)
}

func dumpModule(ctx sdk.Context, app *simapp.SimApp, store string) map[string]string {
	m := map[string]string{}
	it := ctx.KVStore(app.GetKey(store)).Iterator(nil, nil)
	defer it.Close()
	for ; it.Valid(); it.Next() {
		if !isHarnessKey(store, it.Key()) {
			m[string(it.Key())] = string(it.Value())
		}
	}
	return m
}

func wipeModule(ctx sdk.Context, app *simapp.SimApp, store string, pre map[string]string) {
	st := ctx.KVStore(app.GetKey(store))
	for k := range pre {
		st.Delete([]byte(k))
	}
}

var digits = regexp.MustCompile(`[0-9]+`)

// keyClass turns a raw store key into a structural class: identifiers keep their shape,
// numbers become N, a trailing big-endian sequence becomes <seq>, other bytes are hex.
func keyClass(k string) string {
	b := []byte(k)
	seq := ""
	printable := func(x []byte) bool {
		for _, c := range x {
			if c < 0x20 || c > 0x7e {
				return false
			}
		}
		return true
	}
	if !printable(b) && len(b) > 8 {
		head := b[:len(b)-8]
		// <printable id><one discriminator byte> or <printable id + suffix>
		if printable(head) {
			b, seq = head, "<seq>"
		} else if len(head) > 1 && printable(head[:len(head)-1]) {
			b, seq = head, "<seq>"
		}
	}
	var sb strings.Builder
	for i := 0; i < len(b); {
		j := i
		if b[i] >= 0x20 && b[i] <= 0x7e {
			for j < len(b) && b[j] >= 0x20 && b[j] <= 0x7e {
				j++
			}
			sb.WriteString(digits.ReplaceAllString(string(b[i:j]), "N"))
		} else {
			for j < len(b) && (b[j] < 0x20 || b[j] > 0x7e) {
				j++
			}
			if j-i == 1 {
				fmt.Fprintf(&sb, "\\x%02x", b[i])
			} else {
				fmt.Fprintf(&sb, "<bin:%d>", j-i)
			}
		}
		i = j
	}
	return sb.String() + seq
}

// aliasIDs lists the identifiers that carry an alias mapping in an IBC store dump, i.e.
// the exact set of v1 channel ids c for which the key c+"alias" exists.
func aliasIDs(pre map[string]string) []string {
	var ids []string
	for k := range pre {
		if strings.HasSuffix(k, channeltypesv2.KeyAlias) {
			id := strings.TrimSuffix(k, channeltypesv2.KeyAlias)
			if strings.HasPrefix(id, "channel-") && digits.MatchString(strings.TrimPrefix(id, "channel-")) && !strings.Contains(id, "/") {
				ids = append(ids, id)
			}
		}
	}
	sort.Strings(ids)
	return ids
}

// knownAliasSig attributes a LOST key of the IBC store to one of the alias signatures.
// The match is exact: the key must be one of the concrete keys derived from a channel id
// that carries an alias mapping.
func knownAliasSig(k string, aliases []string) string {
	for _, id := range aliases {
		switch {
		case k == string(channeltypesv2.AliasKey(id)):
			return sigAliasMapping
		case k == "clients/"+id+"/counterparty":
			return sigAliasCounterparty
		}
		if len(k) > 8 {
			head := k[:len(k)-8]
			if head == string(hostv2.PacketCommitmentPrefixKey(id)) || head == string(hostv2.PacketReceiptPrefixKey(id)) ||
				head == string(hostv2.PacketAcknowledgementPrefixKey(id)) || head == string(channeltypesv2.AsyncPacketPrefixKey(id)) {
				return sigAliasPacketState
			}
		}
	}
	return ""
}

// rtResult summarises one export/wipe/import round trip of one module.
type rtResult struct {
	keys      int
	lostKnown map[string][]string // signature -> keys (raw)
}

// roundTrip runs the metamorphic check for module m on ctx (which it mutates: callers pass
// a cached context unless the import is meant to persist). Violations are reported through
// vx.Violatef; keys lost under one of the three alias signatures are returned (and, when
// restoreKnown is set, put back so that the history can continue past the known finding).
func roundTrip(t rapid.TB, rec *vx.Case, where string, ctx sdk.Context, app *simapp.SimApp, m genModule, restoreKnown bool) rtResult {
	pre := dumpModule(ctx, app, m.store)
	res := rtResult{keys: len(pre), lostKnown: map[string][]string{}}
	var gs any
	var js []byte
	var err error
	if p, msg := vx.Recover(func() { gs, js, err = m.export(ctx, app) }); p {
		vx.Violatef(t, rec, c44, m.name+":export-panics", "%s: ExportGenesis(%s) panicked: %s", where, m.name, msg)
		return res
	}
	if err != nil {
		sig := m.name + ":export-invalid"
		if g, ok := gs.(*ibctypes.GenesisState); ok && g != nil && hasEqualCounterpartyID(g) {
			sig = sigEqualCounterparty
		}
		vx.Violatef(t, rec, c44, sig, "%s: exported %s genesis does not survive JSON decoding + Validate(): %v\n%s", where, m.name, err, clip(js))
		return res
	}
	wipeModule(ctx, app, m.store, pre)
	if left := dumpModule(ctx, app, m.store); len(left) != 0 {
		vx.Harnessf("wipe of %s left %d keys", m.store, len(left))
	}
	if p, msg := vx.Recover(func() { m.init(ctx, app, gs) }); p {
		vx.Violatef(t, rec, c44, m.name+":import-panics", "%s: InitGenesis(%s) panicked on the module's own export: %s\n%s", where, m.name, msg, clip(js))
		return res
	}
	post := dumpModule(ctx, app, m.store)
	var aliases []string
	if m.store == ibcexported.StoreKey {
		aliases = aliasIDs(pre)
	}
	keys := make([]string, 0, len(pre))
	for k := range pre {
		keys = append(keys, k)
	}
	sort.Strings(keys)
	for _, k := range keys {
		pv, ok := post[k]
		switch {
		case !ok:
			if sig := knownAliasSig(k, aliases); sig != "" {
				// recorded finding: counted when listed in known_findings.json, a violation otherwise
				if len(res.lostKnown[sig]) == 0 {
					vx.Violatef(t, rec, c44, sig, "%s: key %q of the %s store is not reproduced by InitGenesis(ExportGenesis())", where, k, m.store)
				}
				res.lostKnown[sig] = append(res.lostKnown[sig], k)
				continue
			}
			vx.Violatef(t, rec, c44, m.name+":lost:"+keyClass(k), "%s: key %q of the %s store (value %q) is not reproduced by InitGenesis(ExportGenesis())", where, k, m.store, clip([]byte(pre[k])))
		case pv != pre[k]:
			vx.Violatef(t, rec, c44, m.name+":changed:"+keyClass(k), "%s: key %q of the %s store changed through export/import: %q -> %q", where, k, m.store, clip([]byte(pre[k])), clip([]byte(pv)))
		}
	}
	pkeys := make([]string, 0, len(post))
	for k := range post {
		pkeys = append(pkeys, k)
	}
	sort.Strings(pkeys)
	for _, k := range pkeys {
		if _, ok := pre[k]; !ok {
			vx.Violatef(t, rec, c44, m.name+":extra:"+keyClass(k), "%s: InitGenesis(ExportGenesis()) created key %q (value %q) in the %s store that the live chain does not have", where, k, clip([]byte(post[k])), m.store)
		}
	}
	// Export(Import(Export)) == Export
	var js2 []byte
	if p, msg := vx.Recover(func() { _, js2, err = m.export(ctx, app) }); p {
		vx.Violatef(t, rec, c44, m.name+":reexport-panics", "%s: ExportGenesis(%s) panicked after re-import: %s", where, m.name, msg)
		return res
	}
	if !bytes.Equal(js, js2) {
		vx.Violatef(t, rec, c44, m.name+":reexport-differs", "%s: Export(Import(Export(%s))) != Export(%s)\nfirst:  %s\nsecond: %s", where, m.name, m.name, clip(js), clip(js2))
	}
	if restoreKnown {
		st := ctx.KVStore(app.GetKey(m.store))
		for _, ks := range res.lostKnown {
			for _, k := range ks {
				st.Set([]byte(k), []byte(pre[k]))
			}
		}
	}
	return res
}

func clip(b []byte) string {
	if len(b) > 700 {
		return fmt.Sprintf("%q...(%d bytes)", b[:700], len(b))
	}
	return fmt.Sprintf("%q", b)
}

// ---- the case -------------------------------------------------------------------------

type c44Case struct {
	H        pktsim.History `json:"h"`
	Extras   Extras         `json:"extras"`
	ExportAt int            `json:"export_at"` // the export/import is applied to the live state after this many ops (mod len+1)
	Chains   int            `json:"chains"`    // 0: chain A, 1: chain B, 2: both are re-imported at ExportAt
	Continue bool           `json:"continue"`  // run the differential continuation (two worlds)
}

var c44Kinds = []string{"send", "send", "send", "recv", "recv", "recv", "ack", "ack", "timeout", "update", "block", "time", "close"}

func genC44(t *rapid.T) c44Case {
	c := c44Case{H: pktsim.GenLifecycle(t, 26, c44Kinds, []string{"ok", "ok", "err", "async", "async"})}
	c.Extras.Transfer = rapid.IntRange(0, 3).Draw(t, "xfer") > 0
	if c.Extras.Transfer {
		c.Extras.AliasXfer = rapid.Bool().Draw(t, "aliasxfer")
		c.Extras.RateLimit = rapid.Bool().Draw(t, "ratelimit")
	}
	c.Extras.ICA = rapid.IntRange(0, 2).Draw(t, "ica") == 0
	if c.Extras.Transfer {
		c.Extras.PFM = rapid.Bool().Draw(t, "pfm")
	}
	c.Extras.GMP = rapid.IntRange(0, 2).Draw(t, "gmp")
	c.ExportAt = rapid.IntRange(0, len(c.H.Ops)).Draw(t, "exportAt")
	c.Chains = rapid.IntRange(0, 2).Draw(t, "chains")
	c.Continue = rapid.IntRange(0, 2).Draw(t, "continue") > 0
	return c
}

// inflight counts packets whose commitment is still stored on the source chain, split
// into alias links and everything else.
func inflight(w *sim.World) (alias, other int) {
	for _, p := range w.Pkts {
		if w.HasCommitment(p) {
			if w.Links[p.Link].Kind == sim.V2Alias {
				alias++
			} else {
				other++
			}
		}
	}
	return
}

// checkAll runs the round trip of every module on a cached context of chain i.
func checkAll(t rapid.TB, rec *vx.Case, w *sim.World, i int, where string, knownSeen map[string]string) {
	for _, m := range genModules {
		ctx, _ := w.Ctx(i).CacheContext()
		r := roundTrip(t, rec, fmt.Sprintf("%s chain %d", where, i), ctx, w.App(i), m, false)
		rec.Add("roundtrips", 1)
		rec.Add("keys_compared", int64(r.keys))
		if r.keys > 0 {
			rec.Add("roundtrips_nonempty_"+m.name, 1)
		}
		for sig, ks := range r.lostKnown {
			rec.Add("excluded_known", int64(len(ks)))
			rec.Add("excluded_known:"+sig, int64(len(ks)))
			if _, ok := knownSeen[sig]; !ok {
				knownSeen[sig] = fmt.Sprintf("%s chain %d: %q", where, i, ks[0])
			}
		}
	}
}

// outcome is the world-independent summary of a finished run that the continuation
// differential compares (raw addresses, hashes and proofs differ between two worlds).
type outcome struct {
	Steps []string // per op: ok/fail/none
	Log   []string // committed + reverted application callbacks, without relayer addresses
	Pkts  []string // per packet: commitment / receipt-or-ack presence at the end
}

var chanID = regexp.MustCompile(`channel-[0-9]+`)

func summarize(w *sim.World, steps []string) outcome {
	o := outcome{Steps: steps}
	// ibctesting draws channel ids from a process-global counter, so two worlds never use
	// the same ids: name channels by (link, side) instead.
	names := map[string]string{}
	for _, l := range w.Links {
		if l.Kind != sim.V2Clients {
			for side := 0; side < 2; side++ {
				if _, ok := names[l.ID(side)]; !ok {
					names[l.ID(side)] = fmt.Sprintf("<chan L%d/%d>", l.Idx, side)
				}
			}
		}
	}
	norm := func(s string) string {
		return chanID.ReplaceAllStringFunc(s, func(id string) string {
			if n, ok := names[id]; ok {
				return n
			}
			return id
		})
	}
	defer func() {
		for i := range o.Log {
			o.Log[i] = norm(o.Log[i])
		}
		for i := range o.Pkts {
			o.Pkts[i] = norm(o.Pkts[i])
		}
	}()
	for _, e := range w.Log {
		o.Log = append(o.Log, fmt.Sprintf("step=%d chain=%d %s v2=%v port=%s id=%s seq=%d payload=%d data=%s ack=%x reverted=%v", e.Step, e.Chain, e.Kind, e.V2, e.Port, e.ID, e.Seq, e.Payload, e.Data, e.Ack, e.Reverted))
	}
	for _, p := range w.Pkts {
		dc := w.DstChain(p)
		st := w.Ctx(dc).KVStore(w.App(dc).GetKey(ibcexported.StoreKey))
		o.Pkts = append(o.Pkts, fmt.Sprintf("%s commitment=%v receipt=%v ack=%x", p, w.HasCommitment(p), st.Has(w.ReceiptKey(p)), w.StoredAck(p)))
	}
	return o
}

// runHistory executes the case in a fresh world. importAt < 0: control run (an empty block
// is committed where the other run re-imports, to keep the clocks aligned).
func runHistory(outer *testing.T, t rapid.TB, rec *vx.Case, c c44Case, doImport, checkEvery bool, knownSeen map[string]string) (outcome, bool) {
	w := newWorld(outer, c.H, defaultCreator(), true)
	addExtras(w, c.Extras)
	at := pktsim.Pick(len(c.H.Ops)+1, c.ExportAt)
	chains := []int{0, 1}
	if c.Chains < 2 {
		chains = []int{c.Chains}
	}
	nt := false
	var steps []string
	exportPoint := func(k int) {
		a, o := inflight(w)
		if k == at {
			rec.Class("export-inflight-alias=%v,other=%v", a > 0, o > 0)
			nt = a > 0 && o > 0
		}
		if checkEvery || k == at {
			for i := range w.Chains {
				checkAll(t, rec, w, i, fmt.Sprintf("after %d ops", k), knownSeen)
			}
		}
		if k != at || !c.Continue {
			return
		}
		for _, i := range chains {
			if doImport {
				for _, m := range genModules {
					r := roundTrip(t, rec, fmt.Sprintf("live re-import after %d ops chain %d", k, i), w.Ctx(i), w.App(i), m, true)
					for sig, ks := range r.lostKnown {
						rec.Add("restored_known:"+sig, int64(len(ks)))
					}
				}
			}
			w.Block(i, 1)
		}
	}
	for k, op := range c.H.Ops {
		exportPoint(k)
		st := pktsim.Exec(w, k, op)
		switch {
		case !st.HadTx && !st.Sent && st.Res.Err == nil:
			steps = append(steps, op.K+":none")
		case st.Res.OK:
			steps = append(steps, op.K+":ok")
		default:
			steps = append(steps, op.K+":fail")
		}
	}
	exportPoint(len(c.H.Ops))
	return summarize(w, steps), nt
}

func runC44(outer *testing.T) func(t rapid.TB, c c44Case, rec *vx.Case) {
	return func(t rapid.TB, c c44Case, rec *vx.Case) {
		knownSeen := map[string]string{}
		withImport, nt := runHistory(outer, t, rec, c, true, true, knownSeen)
		rec.Class("links=%v", c.H.Links)
		classExtras(rec, c.Extras)
		if c.Continue {
			rec.Class("continuation")
			control, _ := runHistory(outer, t, rec, c, false, false, map[string]string{})
			rec.Add("continuations", 1)
			cmp := func(what string, a, b []string) {
				if len(a) != len(b) {
					vx.Violatef(t, rec, c44, "continuation-diverges:"+what, "after re-import at op %d (chains %d) the history produced %d %s entries, the control run %d\nimport:  %v\ncontrol: %v", c.ExportAt, c.Chains, len(a), what, len(b), a, b)
					return
				}
				for i := range a {
					if a[i] != b[i] {
						vx.Violatef(t, rec, c44, "continuation-diverges:"+what, "after re-import at op %d (chains %d) %s entry %d differs from the control run:\nimport:  %s\ncontrol: %s", c.ExportAt, c.Chains, what, i, a[i], b[i])
						return
					}
				}
			}
			cmp("step-results", withImport.Steps, control.Steps)
			cmp("callbacks", withImport.Log, control.Log)
			cmp("packet-state", withImport.Pkts, control.Pkts)
		}
		for range knownSeen {
			rec.Class("known-alias-loss-seen")
			break
		}
		rec.NonTrivialIf(nt)
	}
}

// classExtras tags the case with one class per kind of application activity.
func classExtras(rec *vx.Case, e Extras) {
	if l := extrasLabel(e); l == "none" {
		rec.Class("extra:none")
	} else {
		for _, x := range strings.Split(l, "+") {
			rec.Class("extra:%s", x)
		}
	}
}

func extrasLabel(e Extras) string {
	var s []string
	if e.Transfer {
		s = append(s, "transfer")
	}
	if e.AliasXfer {
		s = append(s, "aliasxfer")
	}
	if e.RateLimit {
		s = append(s, "ratelimit")
	}
	if e.ICA {
		s = append(s, "ica")
	}
	if e.PFM {
		s = append(s, "pfm")
	}
	if e.GMP != 0 {
		s = append(s, fmt.Sprintf("gmp%d", e.GMP))
	}
	if len(s) == 0 {
		return "none"
	}
	return strings.Join(s, "+")
}

func TestC44(t *testing.T) {
	vx.Check(t, vx.Prop[c44Case]{
		ID: c44,
		Rule: "pktsim lifecycle histories (v1-unordered / v1-ordered / v2 / v2-alias links, async receives, closes) plus optional ICS-20 transfers (v1 and v2-over-alias), a rate limit and an ICA registration; " +
			"every module's export/wipe/import round trip is evaluated on both chains after EVERY op, the drawn export point is additionally applied to the live state and the history continued against a control run; " +
			"non-trivial = at the drawn export point >=1 packet is in flight on an alias link and >=1 on a non-alias link; distinct by full case",
		MinNTFrac: 0.3,
		Assumptions: []string{
			"keys written by the harness's scripted mock applications into the gmp store (prefix sim.AppKey) are not module state and are excluded",
			"lost keys are attributed to the alias known-finding signatures only by exact key derived from a channel id that carries an alias mapping; in the continuation those exact keys are restored after the import so the search continues past the finding",
		},
		Gen: genC44,
		Run: runC44(t),
	})
}

var _ = json.Marshal

// ---- deterministic re-demonstration of the recorded findings ---------------------------

type c44Known struct {
	Variant int `json:"variant"` // which sub-case runs first (0: alias state of an UNORDERED v1 channel, 1: v2 client pair with equal client ids)
}

func runC44Known(outer *testing.T) func(t rapid.TB, c c44Known, rec *vx.Case) {
	return func(t rapid.TB, c c44Known, rec *vx.Case) {
		rec.NonTrivial()
		// both sub-cases run in every execution; Variant only picks which one goes first
		for _, v := range []int{c.Variant % 2, 1 - c.Variant%2} {
			runC44KnownVariant(outer, t, v, rec)
		}
	}
}

func runC44KnownVariant(outer *testing.T, t rapid.TB, variant int, rec *vx.Case) {
	{
		switch variant {
		case 0:
			rec.Class("known:alias-state")
			h := pktsim.History{Links: []int{int(sim.V1Unordered), int(sim.V2Alias)}}
			w := newWorld(outer, h, defaultCreator(), true)
			send := func(n int, dir int, out string) pktsim.Step {
				return pktsim.Exec(w, n, pktsim.Op{K: "send", L: 1, D: dir, S: []sim.Script{{N: n, Out: out}}, App: []string{"A"}})
			}
			// A->B: one async receive (receipt + async packet on B), one acknowledged on B only
			// (receipt + ack on B, commitment on A), one never relayed (commitment on A)
			s0, s1, s2 := send(0, 0, "async"), send(1, 0, "ok"), send(2, 0, "ok")
			if !s0.Sent || !s1.Sent || !s2.Sent {
				vx.Harnessf("alias sends failed: %v %v %v", s0.Res.Err, s1.Res.Err, s2.Res.Err)
			}
			for n, p := range []int{s0.Pkt.Idx, s1.Pkt.Idx} {
				if st := pktsim.Exec(w, 3+n, pktsim.Op{K: "recv", P: p, H: -1}); !st.Res.OK {
					vx.Harnessf("alias recv failed: %v", st.Res.Err)
				}
			}
			lost := map[string][]string{}
			for i := range w.Chains {
				ctx, _ := w.Ctx(i).CacheContext()
				r := roundTrip(t, rec, fmt.Sprintf("known-case chain %d", i), ctx, w.App(i), genModules[0], false)
				for sig, ks := range r.lostKnown {
					for _, k := range ks {
						lost[sig] = append(lost[sig], fmt.Sprintf("chain %d: %q", i, k))
					}
				}
			}
			// consequence on the live state: re-import chain B for real, then relay the packet that
			// was in flight at export time
			consequence := "n/a"
			if len(lost) > 0 {
				roundTrip(t, rec, "known-case live re-import chain 1", w.Ctx(1), w.App(1), genModules[0], false)
				w.Block(1, 1)
				st := pktsim.Exec(w, 9, pktsim.Op{K: "recv", P: s2.Pkt.Idx, H: -1})
				consequence = fmt.Sprintf("after re-importing chain B from its own export, receiving the in-flight packet %s: ok=%v err=%v", s2.Pkt, st.Res.OK, st.Res.Err)
				if st.Res.OK {
					rec.Class("known:alias-inflight-still-deliverable")
				} else {
					rec.Class("known:alias-inflight-undeliverable-after-import")
				}
			}
			for _, sig := range []string{sigAliasMapping, sigAliasCounterparty, sigAliasPacketState} {
				if ks := lost[sig]; len(ks) > 0 {
					vx.Violatef(t, rec, c44, sig, "wipe + ibc.InitGenesis(ibc.ExportGenesis()) does not reproduce %d key(s) of the IBC store, e.g. %v; %s", len(ks), ks[:min(3, len(ks))], consequence)
				} else {
					rec.Class("known:not-reproduced:%s", sig)
				}
			}
		case 1:
			rec.Class("known:equal-client-ids")
			w := newWorld(outer, pktsim.History{Links: []int{int(sim.V2Clients)}}, defaultCreator(), false)
			l := w.Links[0]
			if l.Client(0) != l.Client(1) {
				vx.Harnessf("expected equal client ids, got %s / %s", l.Client(0), l.Client(1))
			}
			ctx, _ := w.Ctx(0).CacheContext()
			roundTrip(t, rec, "known-case (client "+l.Client(0)+" on both chains)", ctx, w.App(0), genModules[0], false)
		}
	}
}

func TestC44Known(t *testing.T) {
	vx.Check(t, vx.Prop[c44Known]{
		ID:   c44,
		Rule: "deterministic re-demonstration of the recorded C44 findings (alias state of an UNORDERED channel with v2-over-alias packets, and a v2 client pair with equal client ids; both run in every execution); always non-trivial",
		Gen: func(t *rapid.T) c44Known {
			return c44Known{Variant: rapid.IntRange(0, 1).Draw(t, "variant")}
		},
		Run: runC44Known(t),
	})
}
