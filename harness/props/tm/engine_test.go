package tm

// Shared engine of the 07-tendermint store properties (C20, C21, C22, C23): a plain-data
// history of operations against ONE tendermint client of the virtual chain V (see tmsim),
// an interpreter that resolves every operation against the current state (so that any
// sub-history is meaningful and shrinks well), and per-step observations (raw client store
// before/after, block time of the transaction, what the submitted header means with
// respect to the stored neighbours). The property files only contain oracles.

import (
	"bytes"
	"fmt"
	"sort"
	"strings"
	"testing"
	"time"

	"pgregory.net/rapid"

	clienttypes "github.com/cosmos/ibc-go/v11/modules/core/02-client/types"
	clientv2types "github.com/cosmos/ibc-go/v11/modules/core/02-client/v2/types"
	connectiontypes "github.com/cosmos/ibc-go/v11/modules/core/03-connection/types"
	channeltypes "github.com/cosmos/ibc-go/v11/modules/core/04-channel/types"
	channeltypesv2 "github.com/cosmos/ibc-go/v11/modules/core/04-channel/v2/types"
	commitmenttypes "github.com/cosmos/ibc-go/v11/modules/core/23-commitment/types"
	"github.com/cosmos/ibc-go/v11/modules/core/exported"
	ibctm "github.com/cosmos/ibc-go/v11/modules/light-clients/07-tendermint"
	ibctesting "github.com/cosmos/ibc-go/v11/testing"
	"github.com/cosmos/ibc-go/v11/testing/mock"

	"github.com/cosmos/ibc-go/v11/modules/apps/callbacks/verifx/sim"
	"github.com/cosmos/ibc-go/v11/modules/apps/callbacks/verifx/tmsim"
	"github.com/cosmos/ibc-go/v11/modules/apps/callbacks/verifx/vx"
)

type H = tmsim.H

// Op is one operation of a history. All fields are selectors that are resolved against the
// state at execution time (indices are taken modulo the current population).
type Op struct {
	K string `json:"k"` // update|tip|past|conflict|resubmit|misb|freeze|recover|time|jump|block|drop|verify|nverify|send2|conninit|chaninit
	H int    `json:"h,omitempty"`
	// T: the trusted height is the (T+1)-th stored height below the header height
	T int `json:"t,omitempty"`
	// TM: header time: mid|now|prev-1|prev|prev+1|next-1|next|next+1|trusted
	TM  string `json:"tm,omitempty"`
	D   int64  `json:"d,omitempty"`   // ns for header times and jump; seconds for "time"
	App uint64 `json:"app,omitempty"` // app-hash tag
	NV  int    `json:"nv,omitempty"`  // next validator set (pool index)
	VS  int    `json:"vs,omitempty"`  // signing validator set: 0 auto, k>0 pool index k-1
	Bad int    `json:"bad,omitempty"` // 0 fully signed; 1 too few signers; 2 corrupted signatures
	V   string `json:"v,omitempty"`   // conflict: app|time|nextvals; misb: fork|time|same|badsig; recover: same|bump; update: mirror|oldrev
	N   int    `json:"n,omitempty"`
}

// Case is the replayable input of the four properties.
type Case struct {
	TP      int64    `json:"tp"`      // trusting period, seconds
	Age     int64    `json:"age"`     // age of the initial consensus state at creation, seconds (< TP)
	Heights []uint64 `json:"heights"` // sorted universe of revision heights
	Init    int      `json:"init"`    // index of the initial height
	NV      int      `json:"nv"`      // initial next validator set
	Ops     []Op     `json:"ops"`
}

// awkward are revision heights whose decimal or big-endian encodings contain '/' bytes or
// sit on byte-length boundaries.
var awkward = []uint64{47, 0x2f00, 0x2f2f2f, 255, 256, 1<<32 - 1, 1 << 32, 1<<32 + 1, 0x2f2f, 0x2f01, 46, 48, 0x2f00 - 1, 1 << 62, 1<<62 - 1, 0x2f << 32, 0x2f2f2f2f2f2f2f}

func isAwkward(h uint64) bool {
	for _, a := range awkward {
		if a == h {
			return true
		}
	}
	return false
}

// weights is a generator profile: op kind -> relative weight.
type weights map[string]int

func pick(t *rapid.T, w weights, label string) string {
	keys := make([]string, 0, len(w))
	for k := range w {
		keys = append(keys, k)
	}
	sort.Strings(keys)
	var bag []string
	for _, k := range keys {
		for i := 0; i < w[k]; i++ {
			bag = append(bag, k)
		}
	}
	return rapid.SampledFrom(bag).Draw(t, label)
}

var timeModesAll = []string{"mid", "mid", "now", "now", "prev-1", "prev", "prev+1", "next-1", "next", "next+1", "trusted"}
var timeModesSane = []string{"mid", "mid", "mid", "prev+1", "next-1"}

// genCase draws a history. rel(i, n) is the probability (in %) that the update at position
// i of n draws its header time from the neighbour-relative modes (C23) instead of the sane ones.
func genCase(t *rapid.T, w weights, maxOps int, rel func(i, n int) int) Case {
	c := Case{}
	c.TP = rapid.SampledFrom([]int64{300, 600, 900, 1500}).Draw(t, "tp")
	c.Age = rapid.Int64Range(0, c.TP/3).Draw(t, "age")
	n := rapid.IntRange(6, 12).Draw(t, "nheights")
	hg := rapid.OneOf(
		rapid.SampledFrom(awkward),
		rapid.SampledFrom(awkward),
		rapid.Uint64Range(1, 40),
		rapid.Uint64Range(1, 1<<62),
		rapid.Custom(func(t *rapid.T) uint64 {
			return rapid.SampledFrom(awkward).Draw(t, "near") + uint64(rapid.IntRange(1, 3).Draw(t, "off"))
		}),
	)
	hs := rapid.SliceOfNDistinct(hg, n, n, func(h uint64) uint64 { return h }).Draw(t, "heights")
	sort.Slice(hs, func(i, j int) bool { return hs[i] < hs[j] })
	c.Heights = hs
	c.Init = rapid.SampledFrom([]int{0, 0, 0, 0, 1, 2}).Draw(t, "init")
	c.NV = rapid.IntRange(0, 3).Draw(t, "nv0")
	nops := rapid.IntRange(8, maxOps).Draw(t, "nops")
	afterTime := false
	for i := 0; i < nops; i++ {
		k := pick(t, w, "kind")
		if afterTime && rapid.IntRange(0, 19).Draw(t, "refresh") < 17 {
			// refresh the client right after a time advance: a fully signed tip header timed "now"
			afterTime = false
			c.Ops = append(c.Ops, Op{K: "tip", H: rapid.IntRange(0, 15).Draw(t, "h"), TM: "now", D: rapid.SampledFrom([]int64{0, 1e9, 3e9}).Draw(t, "d"),
				App: rapid.Uint64Range(0, 5).Draw(t, "app"), NV: rapid.IntRange(0, 3).Draw(t, "nvs")})
			continue
		}
		if (k == "conflict" || k == "misb" || k == "freeze") && i < nops/3 {
			k = "tip" // freezing operations only after some state has been built up
		}
		afterTime = false
		op := Op{K: k}
		switch k {
		case "update", "tip", "past":
			op.H = rapid.IntRange(0, 15).Draw(t, "h")
			op.T = rapid.SampledFrom([]int{0, 0, 0, 1, 1, 2, 3}).Draw(t, "trusted")
			if rapid.IntRange(0, 99).Draw(t, "rel") < rel(i, nops) {
				op.TM = rapid.SampledFrom(timeModesAll).Draw(t, "tm")
				if k == "past" && rapid.IntRange(0, 3).Draw(t, "relpast") > 0 {
					op.TM = rapid.SampledFrom([]string{"prev-1", "prev", "prev+1", "mid", "next-1", "next", "next+1"}).Draw(t, "tmpast")
				}
				if op.TM[0] == 'p' && op.T == 0 {
					op.T = 1 // a header at/below prev.ts can only verify against an older trusted state
				}
			} else {
				op.TM = rapid.SampledFrom(timeModesSane).Draw(t, "tm")
				if k == "tip" {
					op.TM = rapid.SampledFrom([]string{"now", "now", "now", "mid"}).Draw(t, "tmtip")
				}
			}
			if k == "tip" && w["verify"] > 0 && rapid.IntRange(0, 1).Draw(t, "mirror") == 0 {
				op.V = "mirror"
			}
			op.D = rapid.SampledFrom([]int64{0, 1, 1e9, 3e9, 20e9, 60e9}).Draw(t, "d")
			op.App = rapid.Uint64Range(0, 5).Draw(t, "app")
			op.NV = rapid.IntRange(0, 3).Draw(t, "nvs")
			if rapid.IntRange(0, 13).Draw(t, "vsx") == 0 {
				op.VS = rapid.IntRange(1, 5).Draw(t, "vs")
			}
			if rapid.IntRange(0, 15).Draw(t, "badx") == 0 {
				op.Bad = rapid.IntRange(1, 2).Draw(t, "bad")
			}
			if k == "update" && rapid.IntRange(0, 19).Draw(t, "oldrev") == 0 {
				op.V = "oldrev"
			}
		case "conflict":
			op.H = rapid.IntRange(0, 15).Draw(t, "h")
			op.T = rapid.SampledFrom([]int{0, 0, 1, 2}).Draw(t, "trusted")
			op.V = rapid.SampledFrom([]string{"app", "time", "nextvals"}).Draw(t, "variant")
			op.D = rapid.SampledFrom([]int64{-1, 1, 1e9, -1e9}).Draw(t, "d")
			op.App = rapid.Uint64Range(6, 9).Draw(t, "app")
			op.NV = rapid.IntRange(0, 3).Draw(t, "nvs")
			if rapid.IntRange(0, 9).Draw(t, "badx") == 0 {
				op.Bad = rapid.IntRange(1, 2).Draw(t, "bad")
			}
		case "resubmit":
			op.H = rapid.IntRange(0, 15).Draw(t, "h")
		case "misb":
			op.V = rapid.SampledFrom([]string{"fork", "fork", "time", "time", "same", "badsig"}).Draw(t, "variant")
			op.H = rapid.IntRange(0, 15).Draw(t, "h")
			op.T = rapid.SampledFrom([]int{0, 0, 1}).Draw(t, "trusted")
			op.D = rapid.SampledFrom([]int64{0, 1, 1e9}).Draw(t, "d")
			op.N = rapid.IntRange(0, 3).Draw(t, "n")
			op.App = rapid.Uint64Range(10, 12).Draw(t, "app")
		case "freeze":
		case "recover":
			op.V = rapid.SampledFrom([]string{"same", "same", "bump"}).Draw(t, "variant")
			op.H = rapid.IntRange(0, 15).Draw(t, "h")
			op.D = rapid.SampledFrom([]int64{0, 1e9, 30e9}).Draw(t, "d")
			op.NV = rapid.IntRange(0, 3).Draw(t, "nvs")
		case "time":
			// seconds, relative to the trusting period
			op.D = rapid.SampledFrom([]int64{c.TP / 8, c.TP / 4, c.TP / 3, c.TP / 3, c.TP * 2 / 5, c.TP / 2, 30}).Draw(t, "d")
			afterTime = true
		case "jump":
			op.D = rapid.SampledFrom([]int64{-1, 0, 1, -1, 0, 1, -5e9, 2}).Draw(t, "d")
		case "block":
			op.N = rapid.IntRange(1, 3).Draw(t, "n")
		case "drop":
		case "verify", "nverify":
			op.H = rapid.IntRange(0, 15).Draw(t, "h")
		case "send2", "conninit", "chaninit":
		}
		c.Ops = append(c.Ops, op)
		if (k == "conflict" || k == "misb" || k == "freeze") && w["recover"] > 0 && rapid.IntRange(0, 9).Draw(t, "thaw") < 6 {
			// a freezing operation is usually followed by a recovery so that the history goes on
			c.Ops = append(c.Ops, Op{K: "recover", V: rapid.SampledFrom([]string{"same", "same", "bump"}).Draw(t, "variant"), H: rapid.IntRange(0, 15).Draw(t, "h"),
				D: rapid.SampledFrom([]int64{0, 1e9}).Draw(t, "d"), NV: rapid.IntRange(0, 3).Draw(t, "nvs")})
		}
	}
	return c
}

// ---- interpreter ---------------------------------------------------------------------------

type hdrInfo struct {
	Spec      tmsim.HeaderSpec
	H         H
	Ts        int64
	ConsBytes []byte
	Trusted   H
}

// step is what one executed operation exposes to the oracles.
type step struct {
	I    int
	Op   Op
	Kind string // resolved kind (update, conflict, resubmit, misb, recover, time, ...) or "noop"
	Now  time.Time
	// state of the client store before / after
	Pre, Post           *tmsim.RawStore
	PreTs, PostTs       map[H]int64
	PreCS, PostCS       *ibctm.ClientState
	HadTx, OK           bool
	Err                 error
	Hdr                 *hdrInfo // header-carrying operations
	Hdr2                *hdrInfo // misbehaviour: second header
	StoredBefore        bool     // Hdr.H had a consensus state before the step
	SameBytes           bool     // ... and it equals the header's consensus state
	HasPrev, HasNext    bool
	PrevTs, NextTs      int64
	TimeOK              bool // header time strictly between the stored neighbours' times
	Between             bool // header height lies between two stored heights (gap filling)
	MisbConflict        bool // the two headers conflict (fork or time violation) by the model
	ModelStatusAtTx     exported.Status
	Use                 string // for "use" ops: what was attempted
	UseOK               bool
	Recovered           bool
	SubstituteH         H
	SubstituteConsBytes []byte
}

type env struct {
	t       rapid.TB
	w       *sim.World
	d       *tmsim.Driver
	id      string
	c       Case
	tp      time.Duration
	rev     uint64
	cur     *tmsim.RawStore // current raw store (== Post of the last step)
	curTs   map[H]int64
	acc     []tmsim.HeaderSpec // headers that were accepted and newly stored
	mirrors []mirrorRec
	conns   []string
	cpOK    bool
	// model
	frozen bool
	latest H
}

type mirrorRec struct {
	H H
	M tmsim.Mirror
}

const cpClient = "07-tendermint-77" // the (virtual) counterparty's client id of chain A

func newEnv(outer *testing.T, t rapid.TB, c Case, withUses bool) *env {
	if len(c.Heights) == 0 || c.TP <= 0 {
		vx.Harnessf("bad case")
	}
	e := &env{t: t, c: c, tp: time.Duration(c.TP) * time.Second, rev: 1}
	e.w = sim.NewWorld(outer, 1, nil)
	e.d = tmsim.New(e.w, 0, nil)
	h0 := c.Heights[((c.Init%len(c.Heights))+len(c.Heights))%len(c.Heights)]
	ts0 := e.d.Now().Add(-time.Duration(c.Age) * time.Second).UnixNano()
	id, res := e.d.CreateClient(tmsim.Params{Rev: 1, Height: h0, TimeNs: ts0, NextValSet: c.NV, AppTag: 99, TrustingPeriod: e.tp}, 0)
	if !res.OK {
		vx.Harnessf("create client failed: %v", res.Err)
	}
	e.id = id
	e.latest = H{1, h0}
	if withUses {
		r := e.w.Deliver(0, 0, clientv2types.NewMsgRegisterCounterparty(id, [][]byte{[]byte("ibc"), []byte("")}, cpClient, e.w.Addr(0, 0).String()))
		e.cpOK = r.OK
		if !r.OK {
			vx.Harnessf("register counterparty failed: %v", r.Err)
		}
	}
	e.refresh()
	return e
}

func (e *env) decodeTs(rs *tmsim.RawStore) map[H]int64 {
	out := map[H]int64{}
	for h, bz := range rs.Cons {
		if c, ok := e.d.DecodeCons(bz); ok {
			out[h] = c.Timestamp.UnixNano()
		} else {
			vx.Harnessf("undecodable consensus state at %s", h)
		}
	}
	return out
}

func (e *env) refresh() {
	e.cur = e.d.ReadRaw(e.id)
	e.curTs = e.decodeTs(e.cur)
}

// storedInRev returns the stored heights of revision rev, ascending.
func storedInRev(rs *tmsim.RawStore, rev uint64) []H {
	var out []H
	for _, h := range rs.Heights() {
		if h.Rev == rev {
			out = append(out, h)
		}
	}
	return out
}

func neighbours(rs *tmsim.RawStore, h H) (prev H, hasPrev bool, next H, hasNext bool) {
	for _, s := range rs.Heights() {
		if s.Less(h) {
			prev, hasPrev = s, true
		} else if h.Less(s) && !hasNext {
			next, hasNext = s, true
		}
	}
	return
}

var relOff = map[string]int64{"prev-1": -1, "prev": 0, "prev+1": 1, "next-1": -1, "next": 0, "next+1": 1}

func abs64(x int64) int64 {
	if x < 0 {
		return -x
	}
	return x
}

// modelStatus is the status the property statement prescribes at time `now`, from the
// model's frozen flag and latest height and the raw store.
func (e *env) modelStatus(rs *tmsim.RawStore, ts map[H]int64, now time.Time) exported.Status {
	if e.frozen {
		return exported.Frozen
	}
	if _, ok := rs.Cons[e.latest]; !ok {
		return exported.Expired
	}
	if now.UnixNano() >= ts[e.latest]+int64(e.tp) {
		return exported.Expired
	}
	return exported.Active
}

// trustedFor picks the trusted height for a header at h: the (k+1)-th stored height of the
// same revision below h; with nothing below, the lowest stored one (such a header is invalid).
func (e *env) trustedFor(h H, k int) H {
	var below []H
	for _, s := range storedInRev(e.cur, h.Rev) {
		if s.Height < h.Height {
			below = append(below, s)
		}
	}
	if len(below) == 0 {
		all := e.cur.Heights()
		if len(all) == 0 {
			return H{h.Rev, 1}
		}
		return all[0]
	}
	return below[len(below)-1-(k%len(below))]
}

func (e *env) resolveTime(op Op, h, trusted H, now int64) int64 {
	prev, hasPrev, next, hasNext := neighbours(e.cur, h)
	d := abs64(op.D)
	switch op.TM {
	case "now":
		return now - d
	case "prev-1", "prev", "prev+1":
		if hasPrev {
			return e.curTs[prev] + relOff[op.TM]
		}
	case "next-1", "next", "next+1":
		if hasNext {
			return e.curTs[next] + relOff[op.TM]
		}
	case "trusted":
		return e.curTs[trusted]
	}
	switch {
	case hasPrev && hasNext:
		return e.curTs[prev] + (e.curTs[next]-e.curTs[prev])/2
	case hasPrev:
		t := e.curTs[prev] + max(d, 1)
		if t > now {
			t = now
		}
		if t <= e.curTs[prev] {
			t = e.curTs[prev] + 1
		}
		return t
	case hasNext:
		return e.curTs[next] - max(d, 1)
	}
	return now
}

func (e *env) info(spec tmsim.HeaderSpec) (*ibctm.Header, *hdrInfo) {
	hdr := e.d.BuildHeader(e.id, spec)
	return hdr, &hdrInfo{Spec: spec, H: H{spec.Rev, spec.Height}, Ts: spec.TimeNs, ConsBytes: e.d.ConsBytes(hdr), Trusted: H{spec.TrustedRev, spec.TrustedHeight}}
}

func badBits(bad int) (absent, badsig uint64) {
	switch bad {
	case 1:
		return 0b1110, 0 // only the first validator signs
	case 2:
		return 0, 0b1111
	}
	return 0, 0
}

// specFor builds the header spec of an update-like op for height h.
func (e *env) specFor(op Op, h H, now int64) tmsim.HeaderSpec {
	tr := e.trustedFor(h, op.T)
	s := tmsim.HeaderSpec{Rev: h.Rev, Height: h.Height, TrustedRev: tr.Rev, TrustedHeight: tr.Height, ValSet: op.VS - 1, NextValSet: op.NV, TrustedValSet: -1, AppTag: op.App}
	s.TimeNs = e.resolveTime(op, h, tr, now)
	s.Absent, s.BadSig = badBits(op.Bad)
	return s
}

// tipHeight picks a height above the latest one: one of the next three universe heights
// above it, or latest+1+k when the universe is exhausted.
func (e *env) tipHeight(sel int) H {
	var above []uint64
	if e.latest.Rev == e.rev {
		for _, u := range e.c.Heights {
			if u > e.latest.Height {
				above = append(above, u)
			}
		}
	} else {
		above = e.c.Heights
	}
	if len(above) > 3 {
		above = above[:3]
	}
	if len(above) == 0 {
		return H{e.rev, e.latest.Height + 1 + uint64(sel%3)}
	}
	return H{e.rev, above[sel%len(above)]}
}

// pastHeight picks an unstored height strictly between two stored heights of the current
// revision: a universe height if one exists, otherwise a midpoint of a gap.
func (e *env) pastHeight(sel int) (H, bool) {
	st := storedInRev(e.cur, e.rev)
	if len(st) < 2 {
		return H{}, false
	}
	lo, hi := st[0].Height, st[len(st)-1].Height
	var cand []uint64
	for _, u := range e.c.Heights {
		if u > lo && u < hi {
			if _, ok := e.cur.Cons[H{e.rev, u}]; !ok {
				cand = append(cand, u)
			}
		}
	}
	if len(cand) == 0 {
		for i := 0; i+1 < len(st); i++ {
			if st[i+1].Height-st[i].Height > 1 {
				cand = append(cand, st[i].Height+(st[i+1].Height-st[i].Height)/2)
			}
		}
	}
	if len(cand) == 0 {
		return H{}, false
	}
	return H{e.rev, cand[sel%len(cand)]}, true
}

func (e *env) classifyHeader(st *step, hi *hdrInfo) {
	st.Hdr = hi
	if bz, ok := e.cur.Cons[hi.H]; ok {
		st.StoredBefore = true
		st.SameBytes = bytes.Equal(bz, hi.ConsBytes)
	}
	prev, hasPrev, next, hasNext := neighbours(e.cur, hi.H)
	st.HasPrev, st.HasNext = hasPrev, hasNext
	st.TimeOK = true
	if hasPrev {
		st.PrevTs = e.curTs[prev]
		if !(st.PrevTs < hi.Ts) {
			st.TimeOK = false
		}
	}
	if hasNext {
		st.NextTs = e.curTs[next]
		if !(hi.Ts < st.NextTs) {
			st.TimeOK = false
		}
	}
	st.Between = hasPrev && hasNext && !st.StoredBefore
}

// exec runs one operation and returns its observation.
func (e *env) exec(i int, op Op) *step {
	st := &step{I: i, Op: op, Kind: op.K, Pre: e.cur, PreTs: e.curTs, PreCS: e.d.ClientState(e.id), Now: e.d.Now()}
	now := st.Now.UnixNano()
	st.ModelStatusAtTx = e.modelStatus(e.cur, e.curTs, st.Now)
	deliverHeader := func(spec tmsim.HeaderSpec) {
		hdr, hi := e.info(spec)
		e.classifyHeader(st, hi)
		res := e.d.Update(e.id, hdr, 0)
		st.HadTx, st.OK, st.Err = true, res.OK, res.Err
	}
	switch op.K {
	case "update":
		// any universe height that is not stored (below the lowest stored one: invalid, no
		// trusted state; between stored ones: gap filling; above: a new tip)
		var cand []uint64
		for _, u := range e.c.Heights {
			if _, ok := e.cur.Cons[H{e.rev, u}]; !ok {
				cand = append(cand, u)
			}
		}
		h := e.tipHeight(op.H)
		if len(cand) > 0 {
			h = H{e.rev, cand[op.H%len(cand)]}
		}
		if op.V == "oldrev" && e.rev > 1 {
			h.Rev = e.rev - 1
		}
		deliverHeader(e.specFor(op, h, now))
	case "tip":
		st.Kind = "update"
		spec := e.specFor(op, e.tipHeight(op.H), now)
		if op.V == "mirror" {
			if m, ok := e.d.MirrorNow([]byte("clients/"+e.id+"/clientState"), []byte("vx/absent-key")); ok {
				spec.AppHashRaw = m.AppHash
				defer func() {
					if st.OK && !st.StoredBefore {
						e.mirrors = append(e.mirrors, mirrorRec{H: H{spec.Rev, spec.Height}, M: m})
					}
				}()
			}
		}
		deliverHeader(spec)
	case "past":
		h, ok := e.pastHeight(op.H)
		if !ok {
			st.Kind = "noop"
			break
		}
		st.Kind = "update"
		deliverHeader(e.specFor(op, h, now))
	case "conflict":
		var cand []H
		if s := storedInRev(e.cur, e.rev); len(s) > 1 {
			cand = s[1:]
		}
		if len(cand) == 0 {
			st.Kind = "noop"
			break
		}
		h := cand[op.H%len(cand)]
		cons, _ := e.d.DecodeCons(e.cur.Cons[h])
		tr := e.trustedFor(h, op.T)
		nv, _ := e.d.ValSetIndexByHash(cons.NextValidatorsHash)
		spec := tmsim.HeaderSpec{Rev: h.Rev, Height: h.Height, TimeNs: e.curTs[h], TrustedRev: tr.Rev, TrustedHeight: tr.Height, ValSet: -1, NextValSet: nv, TrustedValSet: -1, AppHashRaw: cons.Root.Hash}
		switch op.V {
		case "time":
			spec.TimeNs += op.D
		case "nextvals":
			spec.NextValSet = (nv + 1 + op.NV%3) % len(e.d.ValSets)
		default:
			spec.AppHashRaw, spec.AppTag = nil, op.App
		}
		spec.Absent, spec.BadSig = badBits(op.Bad)
		deliverHeader(spec)
	case "resubmit":
		if len(e.acc) == 0 {
			st.Kind = "noop"
			break
		}
		deliverHeader(e.acc[op.H%len(e.acc)])
	case "misb", "freeze":
		st.Kind = "misb"
		v := op.V
		if op.K == "freeze" {
			v = "fork"
		}
		h2 := e.tipHeight(op.H)
		if op.K == "misb" && op.N == 3 {
			h2 = H{e.rev, e.c.Heights[op.H%len(e.c.Heights)]}
		}
		base := Op{T: op.T, TM: "now", D: op.D, App: op.App, NV: 0}
		s2 := e.specFor(base, h2, now)
		s1 := s2
		switch v {
		case "fork":
			s1.AppTag = s2.AppTag + 1
		case "time":
			s1.Height = s2.Height + 1 + uint64(op.N)
			s1.TimeNs = s2.TimeNs - op.D // <= s2 time
		case "same":
		case "badsig":
			s1.AppTag = s2.AppTag + 1
			s1.BadSig = 0b1111
		}
		hdr1, hi1 := e.info(s1)
		hdr2, hi2 := e.info(s2)
		st.Hdr, st.Hdr2 = hi1, hi2
		hash1, hash2 := hdr1.Commit.BlockID.Hash, hdr2.Commit.BlockID.Hash
		st.MisbConflict = (hi1.H == hi2.H && !bytes.Equal(hash1, hash2)) || (hi2.H.Less(hi1.H) && hi1.Ts <= hi2.Ts)
		res := e.d.Misbehaviour(e.id, hdr1, hdr2, 0)
		st.HadTx, st.OK, st.Err = true, res.OK, res.Err
	case "recover":
		rev := e.rev
		var hs uint64
		if op.V == "bump" {
			rev++
			hs = e.c.Heights[op.H%len(e.c.Heights)]
		} else {
			hs = e.tipHeight(op.H).Height
		}
		sub, res := e.d.CreateClient(tmsim.Params{Rev: rev, Height: hs, TimeNs: now - abs64(op.D), NextValSet: op.NV, AppTag: 98, TrustingPeriod: e.tp}, 0)
		st.HadTx = true
		if !res.OK {
			st.Err = res.Err
			break
		}
		st.SubstituteH = H{rev, hs}
		st.SubstituteConsBytes = e.d.ReadRaw(sub).Cons[st.SubstituteH]
		st.Now = e.d.Now()
		st.ModelStatusAtTx = e.modelStatus(e.cur, e.curTs, st.Now)
		err := e.d.Recover(e.id, sub)
		st.Err, st.OK, st.Recovered = err, err == nil, err == nil
	case "time":
		e.d.AdvanceTime(time.Duration(op.D) * time.Second)
	case "jump":
		ts, ok := e.curTs[e.latest]
		if !ok || !e.d.SetNow(time.Unix(0, ts+int64(e.tp)+op.D).UTC()) {
			st.Kind = "noop"
		}
	case "block":
		e.d.Block(1 + op.N%3)
	case "drop":
		if _, ok := e.cur.Cons[e.latest]; ok {
			e.d.DropConsensusState(e.id, e.latest.IBC())
		} else {
			st.Kind = "noop"
		}
	case "verify", "nverify":
		st.Kind = "use"
		st.Use = op.K
		if len(e.mirrors) == 0 {
			// no provable height: the attempt can only fail; still an attempt
			err := e.d.VerifyMembership(e.id, e.latest, []byte{1}, []byte("k"), []byte("v"))
			st.UseOK, st.Err = err == nil, err
			break
		}
		m := e.mirrors[op.H%len(e.mirrors)]
		var err error
		if op.K == "verify" {
			err = e.d.VerifyMembership(e.id, m.H, m.M.Proof, m.M.Key, m.M.Value)
		} else {
			err = e.d.VerifyNonMembership(e.id, m.H, m.M.AbsentProof, m.M.AbsentKey)
		}
		st.UseOK, st.Err = err == nil, err
	case "send2":
		st.Kind, st.Use = "use", "send2"
		msg := channeltypesv2.NewMsgSendPacket(e.id, uint64(st.Now.Unix())+3600, e.w.Addr(0, 0).String(), sim.MockPayload("A", sim.Script{N: i, Out: "ok"}))
		res := e.w.Deliver(0, 0, msg)
		st.HadTx, st.OK, st.UseOK, st.Err = true, res.OK, res.OK, res.Err
	case "conninit":
		st.Kind, st.Use = "use", "conninit"
		msg := connectiontypes.NewMsgConnectionOpenInit(e.id, cpClient, commitmenttypes.NewMerklePrefix([]byte("ibc")), nil, 0, e.w.Addr(0, 0).String())
		res := e.w.Deliver(0, 0, msg)
		st.HadTx, st.OK, st.UseOK, st.Err = true, res.OK, res.OK, res.Err
		if res.OK {
			if cid, err := ibctesting.ParseConnectionIDFromEvents(res.Events); err == nil {
				e.conns = append(e.conns, cid)
			}
		}
	case "chaninit":
		if len(e.conns) == 0 {
			st.Kind = "noop"
			break
		}
		st.Kind, st.Use = "use", "chaninit"
		msg := channeltypes.NewMsgChannelOpenInit(mock.PortID, mock.Version, channeltypes.UNORDERED, []string{e.conns[len(e.conns)-1]}, mock.PortID, e.w.Addr(0, 0).String())
		res := e.w.Deliver(0, 0, msg)
		st.HadTx, st.OK, st.UseOK, st.Err = true, res.OK, res.OK, res.Err
	default:
		vx.Harnessf("unknown op kind %q", op.K)
	}
	e.refresh()
	st.Post, st.PostTs, st.PostCS = e.cur, e.curTs, e.d.ClientState(e.id)
	if st.PreCS == nil || st.PostCS == nil {
		vx.Harnessf("client state missing")
	}
	e.advanceModel(st)
	return st
}

// advanceModel applies the property statements' transition rules to the model (frozen
// flag, latest height, revision) and remembers accepted headers for resubmission.
func (e *env) advanceModel(st *step) {
	switch st.Kind {
	case "update", "conflict", "resubmit":
		if !st.OK || st.Hdr == nil {
			return
		}
		switch {
		case st.StoredBefore && !st.SameBytes:
			e.frozen = true // conflicting header for a stored height
		case st.StoredBefore:
			// duplicate: no-op
		case !st.TimeOK:
			e.frozen = true // would break timestamp monotonicity
		default:
			if e.latest.Less(st.Hdr.H) {
				e.latest = st.Hdr.H
			}
			if _, ok := st.Post.Cons[st.Hdr.H]; ok {
				e.acc = append(e.acc, st.Hdr.Spec)
			}
		}
	case "misb":
		if st.OK && st.MisbConflict {
			e.frozen = true
		}
	case "recover":
		if st.Recovered {
			e.frozen = false
			e.latest = st.SubstituteH
			e.rev = st.SubstituteH.Rev
		}
	}
}

// rejReason buckets a rejection for the generator-health metrics (never used by an oracle).
func rejReason(err error) string {
	if err == nil {
		return "none"
	}
	m := err.Error()
	for _, kv := range [][2]string{
		{"status", "not_active"}, {"old header has expired", "trusted_expired"}, {"trusting period", "trusted_expired"},
		{"could not get trusted consensus state", "trusted_missing"}, {"must be less than header height", "trusted_not_below"},
		{"header height ≤", "trusted_not_below"}, {"does not hash to latest trusted", "trusted_vals"}, {"insufficient voting power", "power"},
		{"wrong signature", "signature"}, {"invalid signature", "signature"}, {"to be after old header time", "time_not_after_trusted"},
		{"new header has a time from the future", "time_future"}, {"expected old header next validators", "adjacent_vals"},
		{"validators hash", "adjacent_vals"}, {"another chain", "chain_id"}, {"revision", "revision"}, {"can't trust new val set", "trust_level"},
	} {
		if strings.Contains(m, kv[0]) {
			return kv[1]
		}
	}
	return "other"
}

func frozenCS(cs *ibctm.ClientState) bool { return cs != nil && !cs.FrozenHeight.IsZero() }

func latestOf(cs *ibctm.ClientState) H {
	return H{cs.LatestHeight.RevisionNumber, cs.LatestHeight.RevisionHeight}
}

func (e *env) expiredAt(ts int64, now time.Time) bool { return now.UnixNano() >= ts+int64(e.tp) }

func describe(st *step) string {
	s := fmt.Sprintf("step %d op=%+v kind=%s now=%d ok=%v", st.I, st.Op, st.Kind, st.Now.UnixNano(), st.OK)
	if st.Hdr != nil {
		s += fmt.Sprintf(" hdr{h=%s ts=%d trusted=%s storedBefore=%v same=%v timeOK=%v prev=%v/%d next=%v/%d}", st.Hdr.H, st.Hdr.Ts, st.Hdr.Trusted, st.StoredBefore, st.SameBytes, st.TimeOK, st.HasPrev, st.PrevTs, st.HasNext, st.NextTs)
	}
	if st.Err != nil {
		msg := st.Err.Error()
		if len(msg) > 200 {
			msg = msg[:200]
		}
		s += " err=" + msg
	}
	return s
}

var _ = clienttypes.NewHeight
