#!/usr/bin/env python3
"""print one property (statement, quantifier, why, anchors) from properties.jsonl: tools/prop.py C07"""
import json, sys
for l in open('/verif/properties.jsonl'):
    p = json.loads(l)
    if p['id'] in sys.argv[1:]:
        print('##', p['id'], p['title'])
        for k in ('statement', 'quantifier', 'why_tests_cant'):
            print(k.upper() + ':', p.get(k))
        print('ANCHORS:', json.dumps(p.get('anchors'), indent=1))
        print()
