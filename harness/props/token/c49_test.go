package token

import (
	"strings"
	"testing"

	"pgregory.net/rapid"

	channeltypesv2 "github.com/cosmos/ibc-go/v11/modules/core/04-channel/v2/types"

	"github.com/cosmos/ibc-go/v11/modules/apps/callbacks/verifx/tokensim"
	"github.com/cosmos/ibc-go/v11/modules/apps/callbacks/verifx/vx"
)

// C49: tokens leave an account only with its authorization.
//
// Sends: MsgTransfer and v2 MsgSendPacket (transfer payload) with every (tx signer, sender,
// receiver) combination, directly or wrapped in authz.MsgExec, with and without authz grants
// (TransferAuthorization with spend limit / allow list / memo list / expiry, generic
// authorizations for MsgTransfer and MsgSendPacket). Relays: every recv / ack / timeout signed by
// any of the ten accounts, fresh or stale proofs, duplicates, forged acks.
//
// Oracle over the full bank diff of all chains around every transaction:
//   * a user account's balance of any denomination DEcreases only in a transaction that it signed
//     itself, or that is an authz.MsgExec signed by a grantee for which the model (written from the
//     authz / TransferAuthorization rules) holds a live grant of that account covering the message;
//   * a committed MsgSendPacket (direct or inside MsgExec) has payload sender == its Signer;
//   * relay transactions never debit a user account, and credit only the receiver named in the
//     packet (recv) or the sender named in the packet (ack / timeout) -- never the relayer or
//     anybody else.
// Rejections are never violations (safety direction only); how many covered execs were accepted
// is reported as a health metric.

func userLabel(l string) bool {
	return !strings.HasPrefix(l, "escrow:") && l != "mod:transfer"
}

func runC49(outer *testing.T) func(t rapid.TB, h tokensim.History, rec *vx.Case) {
	return func(t rapid.TB, h tokensim.History, rec *vx.Case) {
		const id = "C49"
		w := tokensim.NewWorld(outer, h.Spec)
		ta := newTally()
		var mismatchAttempts, mismatchAccepted, execCoveredOK, execCoveredRej, execUncoveredRej, thirdPartyRelays, grants int
		for i, op := range h.Ops {
			st := w.Exec(i, op)
			ta.note(w, st)
			isRelay := st.Kind == "recv" || st.Kind == "ack" || st.Kind == "timeout"
			if st.Kind == "grant" && st.Effect == "grant" {
				grants++
			}
			if st.Kind == "transfer" && st.HadTx {
				if st.Signer != st.Sender {
					mismatchAttempts++
					if st.Res.OK {
						mismatchAccepted++
					}
				}
				if st.ExecWrap && st.Signer != st.Sender {
					switch {
					case st.Covered && st.Res.OK:
						execCoveredOK++
					case st.Covered:
						execCoveredRej++
					case !st.Res.OK:
						execUncoveredRej++
					}
				}
			}
			if sp, ok := st.Msg.(*channeltypesv2.MsgSendPacket); ok && st.Kind == "transfer" && st.Res.OK {
				// the statement's explicit clause: the payload's sender must equal the signer of MsgSendPacket
				if sp.Signer != w.Addr(st.Chain, st.Sender).String() {
					vx.Violatef(t, rec, id, "v2-send-committed-with-sender-ne-signer", "MsgSendPacket signed by %s committed although its transfer payload names sender acct%d -- %s", sp.Signer, st.Sender, st.Describe())
					return
				}
			}
			if isRelay && st.HadTx && st.Res.OK && !st.Noop && st.Pkt != nil {
				third := true
				for _, l := range st.Pkt.Legs {
					if st.Kind == "recv" && l.RKind == tokensim.RAcct && l.Receiver == st.Signer {
						third = false
					}
					if st.Kind != "recv" && l.Sender == st.Signer {
						third = false
					}
				}
				if third {
					thirdPartyRelays++
				}
			}
			for c := range st.Before {
				for _, ch := range tokensim.BankDiff(st.Before[c], st.After[c]) {
					isSup, label, _ := tokensim.SplitKey(ch.Key)
					if isSup || !userLabel(label) {
						continue
					}
					signerLabel := tokensim.AcctLabel(st.Signer)
					switch {
					case isRelay:
						if ch.Delta.Sign() < 0 {
							vx.Violatef(t, rec, id, "relay-debited-account", "relay transaction debited chain%d %s -- %s", c, ch, st.Describe())
							return
						}
						if c != st.Chain || !st.Allowed[c][label] {
							vx.Violatef(t, rec, id, "relay-credited-unnamed-account", "relay transaction credited chain%d %s, which is neither the packet's receiver (recv) nor its sender (ack/timeout); relayer is %s -- %s", c, ch, signerLabel, st.Describe())
							return
						}
					case ch.Delta.Sign() < 0:
						ok := c == st.Chain && label == signerLabel
						if !ok && c == st.Chain && st.ExecWrap && st.Covered && label == tokensim.AcctLabel(st.Sender) {
							ok = true
						}
						if !ok {
							sig := "debit-without-signature-or-grant"
							if st.ExecWrap {
								sig = "exec-debit-not-covered-by-grant"
							}
							vx.Violatef(t, rec, id, sig, "transaction signed by %s (exec=%v, model says covered=%v, live grant from sender to signer=%v) debited chain%d %s -- %s", signerLabel, st.ExecWrap, st.Covered, w.HasLiveGrant(st.Chain, st.Sender, st.Signer), c, ch, st.Describe())
							return
						}
					}
				}
			}
		}
		ta.record(rec, h)
		rec.Add("signer_ne_sender_attempts", int64(mismatchAttempts))
		rec.Add("signer_ne_sender_committed", int64(mismatchAccepted))
		rec.Add("exec_covered_committed", int64(execCoveredOK))
		rec.Add("exec_covered_rejected", int64(execCoveredRej))
		rec.Add("exec_uncovered_rejected", int64(execUncoveredRej))
		rec.Add("relays_by_third_party_committed", int64(thirdPartyRelays))
		rec.Add("grants_committed", int64(grants))
		if execCoveredOK > 0 {
			rec.Class("exec-with-grant-committed")
		}
		if execUncoveredRej > 0 {
			rec.Class("exec-without-cover-rejected")
		}
		if mismatchAttempts > 0 {
			rec.Class("signer-ne-sender-attempted")
		}
		if thirdPartyRelays > 0 {
			rec.Class("third-party-relay")
		}
		rec.NonTrivialIf(mismatchAttempts >= 1 && thirdPartyRelays >= 1)
	}
}

func TestC49(t *testing.T) {
	vx.Check(t, vx.Prop[tokensim.History]{
		ID: "C49",
		Rule: "C30's worlds; histories interleave authz scripts (a grant -- TransferAuthorization with limit/allow-list/memo-list/expiry or a generic authorization -- followed by MsgExec-wrapped MsgTransfer / MsgSendPacket by the grantee or by a non-grantee, amounts around the limit, listed and unlisted receivers), signer-mismatch scripts (MsgTransfer whose Sender did not sign; MsgSendPacket whose payload sender differs from the signer; MsgExec of one's own MsgSendPacket naming another sender) and C30's route / failure scripts, every relay message signed by any of ten accounts; " +
			"non-trivial = at least one send attempt with tx signer != sender and at least one committed relay signed by an account that is neither the packet's sender nor its receiver; distinct by full history",
		MinNTFrac:   0.4,
		Assumptions: []string{assumeDenoms, "one signer per transaction (ibctesting); grants are modelled per (granter, grantee, message type) as in x/authz"},
		Gen: func(t *rapid.T) tokensim.History {
			return tokensim.GenHistory(t, tokensim.GenCfg{MaxScripts: 5, Grants: true})
		},
		Run: runC49(t),
	})
}
