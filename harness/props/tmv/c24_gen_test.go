package tmv

import (
	"crypto/sha256"
	"encoding/binary"
	"time"

	"pgregory.net/rapid"
)

// upick chooses an index in [0,n) uniformly: rapid's integer generators favour small values,
// which would starve the classes at the end of a list; hashing a drawn word spreads the choice
// evenly while the case stays a pure function of the drawn data.
func upick(t *rapid.T, n int, label string) int {
	var b [4]byte
	binary.BigEndian.PutUint32(b[:], rapid.Uint32().Draw(t, label))
	h := sha256.Sum256(b[:])
	return int(binary.BigEndian.Uint32(h[:4]) % uint32(n))
}

// ---- validator-set generators ------------------------------------------------------------

func genSet(t *rapid.T, label string) vSet {
	n := rapid.IntRange(1, 6).Draw(t, label+"-n")
	keys := rapid.SliceOfNDistinct(rapid.IntRange(0, 9), n, n, func(i int) int { return i }).Draw(t, label+"-keys")
	mode := rapid.SampledFrom([]string{"small", "small", "equal", "whale", "large"}).Draw(t, label+"-mode")
	s := make(vSet, n)
	eq := int64(rapid.IntRange(1, 9).Draw(t, label+"-eq"))
	for i, k := range keys {
		p := int64(rapid.IntRange(1, 10).Draw(t, label+"-p"))
		switch mode {
		case "equal":
			p = eq
		case "large":
			p += 1 << 40
		}
		s[i] = vMember{K: k, P: p}
	}
	if mode == "whale" && n > 1 {
		s[0].P = (s.total() - s[0].P) * int64(rapid.IntRange(1, 3).Draw(t, label+"-whale"))
	}
	return s
}

// evolve derives the next epoch's validator set by one mild change.
func evolve(t *rapid.T, s vSet, label string) vSet {
	out := s.clone()
	switch rapid.SampledFrom([]string{"same", "reweight", "add", "remove"}).Draw(t, label+"-op") {
	case "reweight":
		i := rapid.IntRange(0, len(out)-1).Draw(t, label+"-i")
		out[i].P += int64(rapid.IntRange(1, 3).Draw(t, label+"-d"))
	case "add":
		for k := 0; k < 10; k++ {
			if !out.has(k) {
				p := out.total() / 5
				if p < 1 {
					p = 1
				}
				out = append(out, vMember{K: k, P: p})
				break
			}
		}
	case "remove":
		if len(out) > 2 {
			small := 0
			for i := range out {
				if out[i].P < out[small].P {
					small = i
				}
			}
			out = append(out[:small:small], out[small+1:]...)
		}
	}
	return out
}

type scnOpt struct {
	minUpd   int
	gap      int64 // minimal distance between consecutive stored heights
	oneSet   bool  // no validator-set changes
	equalSet int   // if >0: a single set of that many equal-power validators
	trust    *[2]uint64
}

func genScn(t *rapid.T, o scnOpt) scn {
	sc := scn{Rev: 1}
	tl := rapid.SampledFrom([][2]uint64{{1, 3}, {1, 3}, {1, 2}, {2, 3}, {3, 4}, {2, 5}, {5, 7}, {1, 1}}).Draw(t, "trust")
	if o.trust != nil {
		tl = *o.trust
	}
	sc.TrustN, sc.TrustD = tl[0], tl[1]
	sc.StepS = int64(rapid.SampledFrom([]int{1, 5, 7}).Draw(t, "step"))
	sc.Init = int64(rapid.IntRange(3, 30).Draw(t, "init"))
	nu := rapid.IntRange(o.minUpd, 3).Draw(t, "nupd")
	if o.gap < 1 {
		o.gap = 1
	}
	h := sc.Init
	for i := 0; i < nu; i++ {
		h += int64(rapid.IntRange(int(o.gap), int(o.gap)+3).Draw(t, "upd-gap"))
		sc.Updates = append(sc.Updates, h)
	}
	const span = 32 // every height a probe uses lies in [Init-2, Init+span]
	sc.AgeS = span*sc.StepS + int64(rapid.IntRange(1, 120).Draw(t, "age-extra"))
	sc.TrustingS = sc.AgeS + int64(rapid.SampledFrom([]int{400, 3600, 14 * 86400}).Draw(t, "trusting"))
	sc.DriftS = int64(rapid.SampledFrom([]int{1, 10, 600}).Draw(t, "drift"))
	switch {
	case o.equalSet > 0:
		s := vSet{}
		p := int64(rapid.IntRange(1, 5).Draw(t, "eq-p"))
		for k := 0; k < o.equalSet; k++ {
			s = append(s, vMember{K: k, P: p})
		}
		sc.Sets = []vSet{s}
	case o.oneSet:
		sc.Sets = []vSet{genSet(t, "set0")}
	default:
		s0 := genSet(t, "set0")
		sc.Sets = []vSet{s0}
		ne := rapid.IntRange(0, 2).Draw(t, "epochs")
		b := sc.Init
		for i := 0; i < ne; i++ {
			b += int64(rapid.IntRange(1, 5).Draw(t, "bound-gap"))
			sc.Bounds = append(sc.Bounds, b)
			sc.Sets = append(sc.Sets, evolve(t, sc.Sets[len(sc.Sets)-1], "evolve"))
		}
	}
	// the honest set-up updates (each trusted on the previous stored height, everybody signing)
	// must verify: otherwise keep one validator set and, if need be, a trust level below 1
	for pass := 0; pass < 2; pass++ {
		ok := true
		st := sc.stored()
		for i := 1; i < len(st); i++ {
			if st[i] != st[i-1]+1 && !overlapOK(sc, st[i], st[i-1]) {
				ok = false
			}
		}
		if ok {
			break
		}
		if pass == 0 && len(sc.Sets) > 1 {
			sc.Sets, sc.Bounds = sc.Sets[:1], nil
		} else {
			sc.TrustN, sc.TrustD = 2, 3
		}
	}
	return sc
}

// ---- signer subsets around a threshold -------------------------------------------------------

// crossing walks the members in the given order and returns the shortest prefix whose power
// satisfies crosses; ok=false if even everybody together does not.
func crossing(s vSet, order []int, crosses func(acc int64) bool) ([]int, bool) {
	var acc int64
	for i, j := range order {
		acc += s[j].P
		if crosses(acc) {
			return append([]int(nil), order[:i+1]...), true
		}
	}
	return append([]int(nil), order...), false
}

func ownCrosses(s vSet) func(int64) bool {
	tot := s.total()
	return func(acc int64) bool { return 3*acc > 2*tot }
}

func trustCrosses(s vSet, n, d uint64) func(int64) bool {
	tot := s.total()
	return func(acc int64) bool { return acc*int64(d) > tot*int64(n) }
}

var badSigModes = []string{"absent", "nil", "flip", "chainid", "height", "round", "otherkey", "reassign", "ts", "otherblock", "empty"}

func sigsFor(n int, signers []int, other string) []sigSpec {
	out := make([]sigSpec, n)
	for i := range out {
		out[i] = sigSpec{M: other}
	}
	for _, i := range signers {
		out[i] = sigSpec{M: "ok"}
	}
	return out
}

func perm(t *rapid.T, n int, label string) []int {
	idx := make([]int, n)
	for i := range idx {
		idx[i] = i
	}
	return rapid.Permutation(idx).Draw(t, label)
}

// overlapOK: would an honest non-adjacent header at h trusted on th pass the trust level with
// everybody signing (strictly, as cometbft demands)?
func overlapOK(sc scn, h, th int64) bool {
	tset, own := sc.setAt(th+1), sc.setAt(h)
	var acc int64
	for _, m := range tset {
		if own.has(m.K) {
			acc += m.P
		}
	}
	return trustCrosses(tset, sc.TrustN, sc.TrustD)(acc)
}

// attackers returns a set that alone holds > 2/3 of (base + attackers).
func attackers(base vSet, t *rapid.T) vSet {
	tot := base.total()
	if rapid.Bool().Draw(t, "two-attackers") {
		return vSet{{K: 20, P: tot + 1}, {K: 21, P: tot + 1}}
	}
	return vSet{{K: 20, P: 2*tot + 1}}
}

// ---- probe generators ---------------------------------------------------------------------------

type baseOpt struct {
	adj    string // "adj" | "nonadj" | "" (draw)
	scn    scnOpt
	beyond bool // header height above every stored height
}

// genBase draws a scenario and an honest, fully signed header that the client must accept.
func genBase(t *rapid.T, o baseOpt) (scn, hdrSpec) {
	sc := genScn(t, o.scn)
	st := sc.stored()
	th := st[rapid.IntRange(0, len(st)-1).Draw(t, "trusted-idx")]
	if o.beyond {
		th = st[len(st)-1]
	}
	adj := o.adj
	if adj == "" {
		adj = rapid.SampledFrom([]string{"adj", "nonadj", "nonadj"}).Draw(t, "adjacency")
	}
	h := th + 1
	if adj == "nonadj" {
		h = th + int64(rapid.IntRange(2, 6).Draw(t, "skip"))
		for h > th+1 && !overlapOK(sc, h, th) {
			h--
		}
		if h == th+1 {
			// no honest non-adjacent header verifies under this trust level: freeze the validator set
			sc.Sets, sc.Bounds = sc.Sets[:1], nil
			h = th + 2
			if !overlapOK(sc, h, th) { // trust level 1/1
				sc.TrustN, sc.TrustD = 2, 3
			}
		}
	}
	return sc, sc.honest(h, th)
}

func i64(v int64) *int64 { return &v }

var timeDeltas = []int64{-int64(time.Second), -1, 0, 1, int64(time.Second)}

// c24Classes is the ordered list of probe classes; a case takes consecutive entries.
var c24Classes = func() []string {
	out := []string{"honest-adj", "honest-nonadj", "honest-any",
		"own-below", "own-above", "own-exact", "trust-below", "trust-above", "trust-exact", "trust-rotation"}
	for _, m := range badSigModes[1:] {
		out = append(out, "sig-"+m, "sigx-"+m)
	}
	out = append(out, headerFieldMuts...)
	out = append(out, commitMuts...)
	out = append(out, valsetMuts...)
	out = append(out, trustedValsMuts...)
	out = append(out, benignMuts...)
	out = append(out, "vs-forged-adj", "vs-forged-nooverlap", "tv-forged", "tv-other-epoch",
		"th-missing", "th-eq", "th-gt", "th-rev", "th-zero",
		"rev-header", "rev-header-both", "rev-chainname", "rev-crossrev-adj", "rev-crossrev-nonadj",
		"tm-le-trusted", "tm-drift", "tm-expired",
		"hdr-fork-stored", "hdr-time-violation",
		"mb-fork", "mb-fork-subsets", "mb-time", "mb-same", "mb-ordered", "mb-misordered",
		"mb-h1-forged", "mb-h2-forged", "mb-h2-tv", "mb-h2-undersigned", "mb-h2-trust-below", "mb-h2-trust-above",
		"mb-h2-thmissing", "mb-h2-expired", "mb-h2-hf", "mb-h2-sig", "mb-future")
	return out
}()

// forgeAround builds a forged validator set: the trusted set's members plus attackers that
// dominate it; signers are the attackers plus a subset X of trusted members whose trusted
// power lies just above / just below / exactly at the client's trust level.
func forgeAround(t *rapid.T, sc scn, h *hdrSpec, rel string) {
	tset := sc.setAt(int64(h.TrustH) + 1)
	att := attackers(tset, t)
	own := append(tset.clone(), att...)
	x, _ := crossing(tset, perm(t, len(tset), "trust-order"), trustCrosses(tset, sc.TrustN, sc.TrustD))
	if rel == "below" && len(x) > 0 {
		x = x[:len(x)-1]
	}
	signers := append([]int(nil), x...)
	for i := range att {
		signers = append(signers, len(tset)+i)
	}
	h.Own, h.Next = own, own.clone()
	h.Sigs = sigsFor(len(own), signers, "absent")
}

func genProbe(t *rapid.T, class string) c24Probe {
	p := c24Probe{Class: class, Kind: "header"}
	pick := func(n int, label string) int { return rapid.IntRange(0, n-1).Draw(t, label) }
	arg := func() int { return rapid.IntRange(0, 600).Draw(t, "arg") }
	has := func(pfx string) bool { return len(class) >= len(pfx) && class[:len(pfx)] == pfx }

	switch {
	case class == "honest-adj":
		p.Scn, p.H1 = genBase(t, baseOpt{adj: "adj"})
	case class == "honest-nonadj":
		p.Scn, p.H1 = genBase(t, baseOpt{adj: "nonadj"})
	case class == "honest-any":
		p.Scn, p.H1 = genBase(t, baseOpt{})
		p.H1.Round = int32(pick(3, "round"))

	case class == "own-below" || class == "own-above":
		p.Scn, p.H1 = genBase(t, baseOpt{})
		own := p.H1.Own
		set, _ := crossing(own, perm(t, len(own), "own-order"), ownCrosses(own))
		if class == "own-below" {
			set = set[:len(set)-1]
		}
		p.H1.Sigs = sigsFor(len(own), set, rapid.SampledFrom(badSigModes).Draw(t, "nonsigner-mode"))
	case class == "own-exact":
		n := rapid.SampledFrom([]int{3, 6}).Draw(t, "eq-n")
		p.Scn, p.H1 = genBase(t, baseOpt{scn: scnOpt{equalSet: n, trust: &[2]uint64{1, 3}}})
		p.H1.Sigs = sigsFor(n, perm(t, n, "own-order")[:2*n/3], "absent")

	case class == "trust-below" || class == "trust-above":
		p.Scn, p.H1 = genBase(t, baseOpt{adj: "nonadj"})
		forgeAround(t, p.Scn, &p.H1, class[6:])
	case class == "trust-exact":
		n := rapid.SampledFrom([]int{3, 6}).Draw(t, "eq-n")
		p.Scn, p.H1 = genBase(t, baseOpt{adj: "nonadj", scn: scnOpt{equalSet: n, trust: &[2]uint64{1, 3}}})
		forgeAround(t, p.Scn, &p.H1, "below") // exactly 1/3 of the trusted power signs
	case class == "trust-rotation":
		// an honest-looking rotated set: some trusted members dropped, some new ones, everybody signs
		p.Scn, p.H1 = genBase(t, baseOpt{adj: "nonadj"})
		tset := p.Scn.setAt(int64(p.H1.TrustH) + 1)
		keep := rapid.IntRange(0, len(tset)).Draw(t, "keep")
		own := tset.clone()[:keep]
		for k := 10; k < 10+rapid.IntRange(1, 3).Draw(t, "new"); k++ {
			own = append(own, vMember{K: k, P: int64(rapid.IntRange(1, 12).Draw(t, "new-p"))})
		}
		p.H1.Own, p.H1.Next, p.H1.Sigs = own, own.clone(), nil

	case has("sig-") || has("sigx-"):
		pivotal := has("sig-")
		mode := class[4:]
		if !pivotal {
			mode = class[5:]
		}
		p.Scn, p.H1 = genBase(t, baseOpt{})
		own := p.H1.Own
		set, _ := crossing(own, perm(t, len(own), "own-order"), ownCrosses(own))
		sigs := sigsFor(len(own), set, "absent")
		victim := set[len(set)-1]
		if !pivotal {
			sigs = sigsFor(len(own), set, "ok")
			in := map[int]bool{}
			for _, i := range set {
				in[i] = true
			}
			for i := range own {
				if !in[i] {
					victim = i
				}
			}
		}
		sigs[victim] = sigSpec{M: mode, A: arg()}
		p.H1.Sigs = sigs

	case has("hf-") || has("cm-") || (has("vs-") && class != "vs-forged-adj" && class != "vs-forged-nooverlap") ||
		(has("tv-") && class != "tv-forged" && class != "tv-other-epoch"):
		p.Scn, p.H1 = genBase(t, baseOpt{})
		p.H1.Post = []mutSpec{{M: class, A: arg()}}

	case class == "vs-forged-adj":
		p.Scn, p.H1 = genBase(t, baseOpt{adj: "adj"})
		p.H1.Own = attackers(p.H1.Own, t)
		p.H1.Next = p.H1.Own.clone()
	case class == "vs-forged-nooverlap":
		p.Scn, p.H1 = genBase(t, baseOpt{adj: "nonadj"})
		p.H1.Own = attackers(p.H1.Own, t)
		p.H1.Next = p.H1.Own.clone()
	case class == "tv-forged":
		p.Scn, p.H1 = genBase(t, baseOpt{adj: "nonadj"})
		p.H1.Own = attackers(p.H1.Own, t)
		p.H1.Next, p.H1.TVals = p.H1.Own.clone(), p.H1.Own.clone()
	case class == "tv-other-epoch":
		p.Scn, p.H1 = genBase(t, baseOpt{})
		tv := p.H1.TVals.clone()
		tv[pick(len(tv), "tv-i")].P += int64(1 + pick(3, "tv-d"))
		p.H1.TVals = tv

	case class == "th-missing":
		p.Scn, p.H1 = genBase(t, baseOpt{beyond: true})
		th := int64(p.H1.TrustH) + 1 + int64(pick(2, "th-off"))
		if rapid.Bool().Draw(t, "th-before-init") {
			th = p.Scn.Init - 1 - int64(pick(2, "th-off2"))
		}
		h := th + 1 + int64(pick(3, "skip"))
		p.H1 = p.Scn.honest(h, th)
	case class == "th-eq" || class == "th-gt":
		p.Scn, p.H1 = genBase(t, baseOpt{scn: scnOpt{minUpd: 1, gap: 2}})
		st := p.Scn.stored()
		th := st[1+pick(len(st)-1, "th-i")]
		h := th
		if class == "th-gt" {
			h = th - 1
		}
		p.H1 = p.Scn.honest(h, th)
	case class == "th-rev":
		p.Scn, p.H1 = genBase(t, baseOpt{})
		p.H1.TrustRev = uint64(rapid.SampledFrom([]int{0, 2, 7}).Draw(t, "trev"))
	case class == "th-zero":
		p.Scn, p.H1 = genBase(t, baseOpt{})
		p.H1.TrustH = 0
		p.H1.TrustRev = uint64(pick(2, "trev"))

	case class == "rev-header" || class == "rev-header-both":
		p.Scn, p.H1 = genBase(t, baseOpt{})
		p.H1.Chain = "vchain-2"
		if class == "rev-header-both" {
			p.H1.TrustRev = 2
		}
	case class == "rev-chainname":
		p.Scn, p.H1 = genBase(t, baseOpt{})
		p.H1.Chain = "wchain-1"
	case class == "rev-crossrev-adj" || class == "rev-crossrev-nonadj":
		// a client of vchain-2 that still stores a consensus state of revision 1 (as after an
		// upgrade); the header is of revision 2 but names the revision-1 state as trusted
		p.Scn = genScn(t, scnOpt{oneSet: true})
		p.Scn.Rev = 2
		oh := uint64(p.Scn.Init) + uint64(pick(6, "old-h"))
		p.Scn.Old = &oldRev{H: oh, Set: 0}
		h := int64(oh) + 1
		if class == "rev-crossrev-nonadj" {
			h += 1 + int64(pick(4, "skip"))
		}
		p.H1 = p.Scn.honest(h, int64(oh))
		p.H1.TrustRev = 1

	case class == "tm-le-trusted":
		p.Scn, p.H1 = genBase(t, baseOpt{})
		p.H1.TMode, p.H1.TD = "trusted", timeDeltas[pick(len(timeDeltas), "td")]
	case class == "tm-drift":
		p.Scn, p.H1 = genBase(t, baseOpt{beyond: true})
		p.H1.TMode, p.H1.TD = "drift", timeDeltas[pick(len(timeDeltas), "td")]
	case class == "tm-expired":
		p.Scn = genScn(t, scnOpt{minUpd: 1, gap: 3, oneSet: true})
		last := p.Scn.Updates[len(p.Scn.Updates)-1]
		h := last + 1 + int64(pick(3, "skip"))
		p.H1 = p.Scn.honest(h, p.Scn.Init)
		if !overlapOK(p.Scn, h, p.Scn.Init) {
			p.Scn.TrustN, p.Scn.TrustD = 2, 3
		}
		p.ExpireD = i64(timeDeltas[pick(len(timeDeltas), "td")])

	case class == "hdr-fork-stored":
		p.Scn = genScn(t, scnOpt{minUpd: 1, oneSet: true, trust: &[2]uint64{1, 3}})
		i := pick(len(p.Scn.Updates), "upd-i")
		p.H1 = p.Scn.honest(p.Scn.Updates[i], p.Scn.stored()[i])
		p.H1.Fork = 1 + pick(3, "fork")
	case class == "hdr-time-violation":
		p.Scn = genScn(t, scnOpt{minUpd: 1, gap: 2, oneSet: true, trust: &[2]uint64{1, 3}})
		i := pick(len(p.Scn.Updates), "upd-i")
		lo, hi := p.Scn.stored()[i], p.Scn.Updates[i]
		h := lo + 1 + int64(pick(int(hi-lo-1), "between"))
		p.H1 = p.Scn.honest(h, lo)
		p.H1.TD = p.Scn.td(hi) + []int64{0, 1, int64(time.Second)}[pick(3, "late")]

	case has("mb-"):
		p.Kind = "misb"
		o := baseOpt{beyond: true, adj: "nonadj"}
		if class == "mb-h2-expired" {
			o.scn = scnOpt{minUpd: 1, gap: 3, oneSet: true, trust: &[2]uint64{1, 3}}
		}
		p.Scn, p.H1 = genBase(t, o)
		sc := p.Scn
		h2 := p.H1
		h2.Own, h2.Next, h2.TVals = p.H1.Own.clone(), p.H1.Next.clone(), p.H1.TVals.clone()
		h2.Fork = 1 + pick(3, "fork")
		higher := func() hdrSpec { // an honest header a few blocks above h2, trusted on the same state
			hh := sc.honest(p.H1.H+1+int64(pick(3, "up")), int64(p.H1.TrustH))
			if !overlapOK(sc, hh.H, int64(hh.TrustH)) {
				hh = sc.honest(p.H1.H, int64(p.H1.TrustH))
			}
			return hh
		}
		switch class {
		case "mb-fork":
		case "mb-fork-subsets":
			for _, h := range []*hdrSpec{&p.H1, &h2} {
				set, _ := crossing(h.Own, perm(t, len(h.Own), "own-order"), ownCrosses(h.Own))
				// keep everybody of the trusted set that is needed for the trust level: sign with all if the subset is too thin
				h.Sigs = sigsFor(len(h.Own), set, "absent")
			}
		case "mb-time":
			h2.Fork = 0
			p.H1 = higher()
			p.H1.TD = h2.TD - []int64{0, 1, int64(time.Second)}[pick(3, "early")]
		case "mb-same":
			h2.Fork = 0
		case "mb-ordered":
			h2.Fork = 0
			p.H1 = higher()
		case "mb-misordered":
			h2.Fork = 0
			hi := higher()
			hi.TD = h2.TD
			p.H1, h2 = h2, hi
		case "mb-h1-forged":
			p.H1.Own = attackers(p.H1.Own, t)
			p.H1.Next = p.H1.Own.clone()
		case "mb-h2-forged":
			h2.Own = attackers(h2.Own, t)
			h2.Next = h2.Own.clone()
		case "mb-h2-tv":
			if rapid.Bool().Draw(t, "tv-forged") {
				h2.Own = attackers(h2.Own, t)
				h2.Next, h2.TVals = h2.Own.clone(), h2.Own.clone()
			} else {
				h2.Post = []mutSpec{{M: trustedValsMuts[pick(len(trustedValsMuts), "tv-mut")], A: arg()}}
			}
		case "mb-h2-undersigned":
			set, _ := crossing(h2.Own, perm(t, len(h2.Own), "own-order"), ownCrosses(h2.Own))
			h2.Sigs = sigsFor(len(h2.Own), set[:len(set)-1], "absent")
		case "mb-h2-trust-below":
			forgeAround(t, sc, &h2, "below")
		case "mb-h2-trust-above":
			forgeAround(t, sc, &h2, "above")
		case "mb-h2-thmissing":
			h2.TrustH = h2.TrustH + 1
			if int64(h2.TrustH) >= h2.H {
				h2.TrustH = uint64(sc.Init - 1)
			}
		case "mb-h2-expired":
			// header2 trusts the oldest state, header1 the latest; the clock is moved to the edge of
			// the oldest state's trusting period
			h2.TrustH = uint64(sc.Init)
			h2.TVals = sc.setAt(sc.Init + 1).clone()
			p.ExpireD, p.ExpireOn = i64(timeDeltas[pick(len(timeDeltas), "td")]), 2
		case "mb-h2-hf":
			h2.Post = []mutSpec{{M: headerFieldMuts[pick(len(headerFieldMuts), "hf")], A: arg()}}
		case "mb-h2-sig":
			set, _ := crossing(h2.Own, perm(t, len(h2.Own), "own-order"), ownCrosses(h2.Own))
			sigs := sigsFor(len(h2.Own), set, "absent")
			sigs[set[len(set)-1]] = sigSpec{M: badSigModes[1+pick(len(badSigModes)-1, "mode")], A: arg()}
			h2.Sigs = sigs
		case "mb-future":
			p.H1.TMode, p.H1.TD = "drift", int64(time.Second)*int64(1+pick(100, "future"))
		}
		p.H2 = &h2
	default:
		t.Fatalf("generator: unknown class %q", class)
	}
	return p
}

func genC24(t *rapid.T) c24Case {
	start := upick(t, len(c24Classes), "start")
	var c c24Case
	for j := 0; j < 10; j++ {
		c.Probes = append(c.Probes, genProbe(t, c24Classes[(start+j)%len(c24Classes)]))
	}
	return c
}
