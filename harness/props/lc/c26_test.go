package lc

import (
	"bytes"
	"fmt"
	"math"
	"testing"

	"pgregory.net/rapid"

	"github.com/cosmos/cosmos-sdk/codec"
	codectypes "github.com/cosmos/cosmos-sdk/codec/types"
	kmultisig "github.com/cosmos/cosmos-sdk/crypto/keys/multisig"
	"github.com/cosmos/cosmos-sdk/crypto/keys/secp256k1"
	cryptotypes "github.com/cosmos/cosmos-sdk/crypto/types"
	"github.com/cosmos/cosmos-sdk/crypto/types/multisig"
	sdk "github.com/cosmos/cosmos-sdk/types"
	"github.com/cosmos/cosmos-sdk/types/tx/signing"

	clienttypes "github.com/cosmos/ibc-go/v11/modules/core/02-client/types"
	commitmenttypesv2 "github.com/cosmos/ibc-go/v11/modules/core/23-commitment/types/v2"
	"github.com/cosmos/ibc-go/v11/modules/core/exported"
	solomachine "github.com/cosmos/ibc-go/v11/modules/light-clients/06-solomachine"
	ibctesting "github.com/cosmos/ibc-go/v11/testing"

	"github.com/cosmos/ibc-go/v11/modules/apps/callbacks/verifx/sim"
	"github.com/cosmos/ibc-go/v11/modules/apps/callbacks/verifx/vx"
)

// C26: 06-solomachine. Every successful verification (header, membership, non-membership)
// consumes the current sequence; a signature is accepted at most once and only over exactly
// the (sequence, timestamp, diversifier, path, data) it signed; the consensus timestamp never
// decreases; valid misbehaviour freezes; a frozen client accepts nothing.
//
// The harness owns the solo machine: deterministic secp256k1 key sets (single key and k-of-n
// legacy-amino multisig), and it builds every SignBytes itself, so for each signature it knows
// the exact tuple that was signed and by which key set. The model is (seq, ts, diversifier,
// key set, frozen); acceptance of anything the model forbids is the violation.

type c26Init struct {
	NKeys  int    // keys in key set 0 (1..3); key set j has ((NKeys-1+j)%3)+1 keys
	Thresh int    // multisig threshold (clamped to the key-set size)
	Div    int    // index into c26Divs
	Ts     uint64 // initial consensus timestamp (>0)
	Seq    uint64 // initial sequence (>0)
}

type c26Op struct {
	Kind string // member | nonmember | header | misb | replay | xreplay
	TsD  int64  // claimed timestamp = model timestamp + TsD
	Key  int    // index into c26Keys
	Data int    // index into the data table
	// Mut is the single deviation between what is signed and what is claimed ("" = honest):
	// seq+1 seq-1 ts div-empty div-other path data keyset mask pathlen1 pathlen3
	Mut  string
	Mask int // signer subset for multisig key sets (completed to >= threshold unless Mut == "mask")
	// header
	NewKS, NewDiv int
	// misbehaviour: valid same-data wrong-seq old-seq foreign-key div ts-claim data-claim
	MisbKind    string
	Key2, Data2 int
	TsD2        int64
	// replay / xreplay
	Idx        int
	OfAccepted bool
}

type c26Case struct {
	Init c26Init
	Ops  []c26Op
}

var (
	c26Divs = []string{"", "d1", "d2", "d1 "}
	c26Keys = []string{
		"clients/07-tendermint-0/clientState",
		"connections/connection-0",
		"k",
		solomachine.SentinelHeaderPath,
		"commitments/ports/transfer/channels/channel-0/sequences/1",
	}
	c26Muts      = []string{"seq+1", "seq-1", "ts", "div-empty", "div-other", "path", "data", "keyset", "mask", "pathlen1", "pathlen3"}
	c26MisbKinds = []string{"valid", "valid", "same-data", "wrong-seq", "old-seq", "foreign-key", "div", "ts-claim", "data-claim"}
)

const c26NKeySets = 4

func genC26(t *rapid.T) c26Case {
	var c c26Case
	c.Init.NKeys = rapid.IntRange(1, 3).Draw(t, "nkeys")
	c.Init.Thresh = rapid.IntRange(1, 3).Draw(t, "thresh")
	c.Init.Div = rapid.IntRange(0, len(c26Divs)-2).Draw(t, "div")
	c.Init.Ts = rapid.SampledFrom([]uint64{1, 2, 10, 10, 1_700_000_000_000_000_000, math.MaxUint64 - 1, math.MaxUint64}).Draw(t, "ts")
	c.Init.Seq = rapid.SampledFrom([]uint64{1, 1, 1, 5, 1 << 32, math.MaxUint64 - 40}).Draw(t, "seq")
	n := rapid.IntRange(4, 22).Draw(t, "nops")
	for i := 0; i < n; i++ {
		var op c26Op
		kinds := []string{"member", "member", "member", "nonmember", "nonmember", "nonmember", "header", "header", "replay", "replay", "replay", "replay", "xreplay", "misb"}
		if i < 2 {
			kinds = kinds[:8]
		}
		op.Kind = rapid.SampledFrom(kinds).Draw(t, "kind")
		op.TsD = rapid.SampledFrom([]int64{-1, 0, 0, 0, 1, 1, 1, 7}).Draw(t, "tsd")
		op.Key = rapid.IntRange(0, len(c26Keys)-1).Draw(t, "key")
		op.Data = rapid.IntRange(0, 5).Draw(t, "data")
		op.Mask = rapid.IntRange(0, 7).Draw(t, "mask")
		switch op.Kind {
		case "member", "nonmember", "header":
			if rapid.IntRange(0, 9).Draw(t, "mutate") < 4 {
				op.Mut = rapid.SampledFrom(c26Muts).Draw(t, "mut")
			}
			if op.Kind == "header" {
				op.NewKS = rapid.IntRange(0, c26NKeySets-1).Draw(t, "newks")
				op.NewDiv = rapid.IntRange(0, len(c26Divs)-1).Draw(t, "newdiv")
			}
		case "misb":
			op.MisbKind = rapid.SampledFrom(c26MisbKinds).Draw(t, "misbkind")
			op.Key2 = rapid.IntRange(0, len(c26Keys)-1).Draw(t, "key2")
			op.Data2 = rapid.IntRange(1, 5).Draw(t, "data2")
			op.TsD2 = rapid.SampledFrom([]int64{-1, 0, 1, 3}).Draw(t, "tsd2")
		case "replay", "xreplay":
			op.Idx = rapid.IntRange(0, 40).Draw(t, "idx")
			op.OfAccepted = rapid.IntRange(0, 3).Draw(t, "ofacc") != 0
		}
		c.Ops = append(c.Ops, op)
	}
	return c
}

// ---- the harness's solo machine ------------------------------------------------------

type c26KeySet struct {
	privs []cryptotypes.PrivKey
	pub   cryptotypes.PubKey
	thr   int
}

func c26KeySets(in c26Init) []c26KeySet {
	out := make([]c26KeySet, c26NKeySets)
	for j := range out {
		n := (in.NKeys-1+j)%3 + 1
		ks := c26KeySet{thr: 1}
		pubs := make([]cryptotypes.PubKey, n)
		for i := 0; i < n; i++ {
			p := secp256k1.GenPrivKeyFromSecret([]byte(fmt.Sprintf("verif-c26-keyset-%d-key-%d", j, i)))
			ks.privs = append(ks.privs, p)
			pubs[i] = p.PubKey()
		}
		if n == 1 {
			ks.pub = pubs[0]
		} else {
			ks.thr = in.Thresh
			if ks.thr > n {
				ks.thr = n
			}
			if ks.thr < 1 {
				ks.thr = 1
			}
			ks.pub = kmultisig.NewLegacyAminoPubKey(ks.thr, pubs)
		}
		out[j] = ks
	}
	return out
}

// c26Signed is the harness's knowledge of what one signature blob signed, and who signed.
type c26Signed struct {
	Seq, Ts    uint64
	Div        string
	Path, Data []byte
	KS         int // key set that produced it
	Signers    int // number of individual signatures inside
}

// sign produces the marshalled SignatureData over the marshalled SignBytes of s.
func c26Sign(cdc codec.BinaryCodec, sets []c26KeySet, s *c26Signed, mask int, underThreshold bool) []byte {
	bz, err := cdc.Marshal(&solomachine.SignBytes{Sequence: s.Seq, Timestamp: s.Ts, Diversifier: s.Div, Path: s.Path, Data: s.Data})
	if err != nil {
		vx.Harnessf("marshal sign bytes: %v", err)
	}
	ks := sets[s.KS]
	var sd signing.SignatureData
	if len(ks.privs) == 1 {
		sig, err := ks.privs[0].Sign(bz)
		if err != nil {
			vx.Harnessf("sign: %v", err)
		}
		sd = &signing.SingleSignatureData{Signature: sig}
		s.Signers = 1
	} else {
		n := len(ks.privs)
		var who []int
		for i := 0; i < n; i++ {
			if mask&(1<<i) != 0 {
				who = append(who, i)
			}
		}
		if underThreshold {
			who = nil
			for i := 0; i < ks.thr-1; i++ {
				who = append(who, i)
			}
		} else if len(who) < ks.thr {
			who = nil
			for i := 0; i < n; i++ {
				who = append(who, i)
			}
		}
		ms := multisig.NewMultisig(n)
		for _, i := range who {
			sig, err := ks.privs[i].Sign(bz)
			if err != nil {
				vx.Harnessf("sign: %v", err)
			}
			multisig.AddSignature(ms, &signing.SingleSignatureData{Signature: sig}, i)
		}
		sd = ms
		s.Signers = len(who)
	}
	out, err := cdc.Marshal(signing.SignatureDataToProto(sd))
	if err != nil {
		vx.Harnessf("marshal signature data: %v", err)
	}
	return out
}

type c26Claim struct {
	Ts         uint64
	Path, Data []byte
}

// c26Req is one fully built request, kept so that it can be replayed verbatim.
type c26Req struct {
	Kind string // member | nonmember | header | misb
	// membership / non-membership
	Proof    []byte
	PathKeys [][]byte
	Value    []byte
	// header / misbehaviour
	Msg sdk.Msg
	// what is claimed by the request (model input)
	ClaimTs uint64
	HdrData []byte // header: marshalled HeaderData the header carries
	Sig     c26Signed
	SigBz   []byte
	// misbehaviour
	MSeq   uint64
	Claims [2]c26Claim
	Sigs   [2]c26Signed
	SigsBz [2][]byte

	Accepted bool
}

type c26Model struct {
	seq, ts uint64
	div     string
	ks      int
	frozen  bool
}

// sigOK: does signature s sign exactly (seq, ts, div, path, data) with the current key set?
func (m *c26Model) sigOK(sets []c26KeySet, s c26Signed, seq, ts uint64, path, data []byte) (bool, string) {
	switch {
	case s.KS != m.ks:
		return false, "foreign-key-set"
	case s.Signers < sets[m.ks].thr || s.Signers == 0:
		return false, "below-multisig-threshold"
	case s.Seq != seq:
		return false, "other-sequence"
	case s.Ts != ts:
		return false, "other-timestamp"
	case s.Div != m.div:
		return false, "other-diversifier"
	case !bytes.Equal(s.Path, path):
		return false, "other-path"
	case !bytes.Equal(s.Data, data): // nil and empty are the same data (and the same proto bytes)
		return false, "other-data"
	}
	return true, ""
}

// allows: may the model's solo machine client accept request r now?
func (m *c26Model) allows(sets []c26KeySet, r *c26Req) (bool, string) {
	if m.frozen {
		return false, "frozen"
	}
	switch r.Kind {
	case "member", "nonmember":
		if r.ClaimTs < m.ts {
			return false, "timestamp-decrease"
		}
		if len(r.PathKeys) != 2 {
			return false, "path-length"
		}
		var data []byte
		if r.Kind == "member" {
			data = r.Value
		}
		return m.sigOK(sets, r.Sig, m.seq, r.ClaimTs, r.PathKeys[1], data)
	case "header":
		if r.ClaimTs < m.ts {
			return false, "timestamp-decrease"
		}
		if r.ClaimTs == 0 {
			return false, "zero-timestamp"
		}
		return m.sigOK(sets, r.Sig, m.seq, r.ClaimTs, []byte(solomachine.SentinelHeaderPath), r.HdrData)
	case "misb":
		if r.MSeq == 0 {
			return false, "zero-sequence"
		}
		if bytes.Equal(r.SigsBz[0], r.SigsBz[1]) {
			return false, "identical-signatures"
		}
		if bytes.Equal(r.Claims[0].Path, r.Claims[1].Path) && bytes.Equal(r.Claims[0].Data, r.Claims[1].Data) {
			return false, "same-message"
		}
		for i := 0; i < 2; i++ {
			c := r.Claims[i]
			if c.Ts == 0 || len(c.Data) == 0 || len(c.Path) == 0 {
				return false, "malformed-evidence"
			}
			if ok, why := m.sigOK(sets, r.Sigs[i], r.MSeq, c.Ts, c.Path, c.Data); !ok {
				return false, why
			}
		}
		return true, ""
	}
	return false, "unknown-kind"
}

type c26World struct {
	w        *sim.World
	cdc      codec.BinaryCodec
	clientID string
	sets     []c26KeySet
	anys     []*codectypes.Any
	datas    [][]byte
	signer   string
}

func (cw *c26World) state() (seq, ts uint64, frozen bool) {
	cs, ok := cw.w.App(0).IBCKeeper.ClientKeeper.GetClientState(cw.w.Ctx(0), cw.clientID)
	if !ok {
		vx.Harnessf("client state %s not found", cw.clientID)
	}
	sm, ok := cs.(*solomachine.ClientState)
	if !ok {
		vx.Harnessf("client state has type %T", cs)
	}
	st := cw.w.App(0).IBCKeeper.ClientKeeper.GetClientStatus(cw.w.Ctx(0), cw.clientID)
	if (st == exported.Frozen) != sm.IsFrozen {
		vx.Harnessf("status %s but IsFrozen=%v", st, sm.IsFrozen)
	}
	return sm.Sequence, sm.ConsensusState.Timestamp, sm.IsFrozen
}

func (cw *c26World) headerData(ks, div int) []byte {
	bz, err := cw.cdc.Marshal(&solomachine.HeaderData{NewPubKey: cw.anys[ks], NewDiversifier: c26Divs[div]})
	if err != nil {
		vx.Harnessf("marshal header data: %v", err)
	}
	return bz
}

func (cw *c26World) proof(sigBz []byte, ts uint64) []byte {
	bz, err := cw.cdc.Marshal(&solomachine.TimestampedSignatureData{SignatureData: sigBz, Timestamp: ts})
	if err != nil {
		vx.Harnessf("marshal proof: %v", err)
	}
	return bz
}

func (cw *c26World) updateMsg(cm exported.ClientMessage) sdk.Msg {
	msg, err := clienttypes.NewMsgUpdateClient(cw.clientID, cm, cw.signer)
	if err != nil {
		vx.Harnessf("NewMsgUpdateClient: %v", err)
	}
	return msg
}

func otherDiv(cur string) string { return cur + "x" }

// build turns an op into a request, relative to the model state m.
func (cw *c26World) build(op c26Op, m *c26Model) *c26Req {
	r := &c26Req{Kind: op.Kind}
	key := []byte(c26Keys[op.Key%len(c26Keys)])
	otherKey := []byte(c26Keys[(op.Key+1)%len(c26Keys)])
	data := cw.datas[op.Data%len(cw.datas)]
	otherData := cw.datas[(op.Data%len(cw.datas)+1)%len(cw.datas)]
	if len(otherData) == 0 {
		otherData = []byte("zz")
	}
	r.ClaimTs = m.ts + uint64(op.TsD)

	if op.Kind == "misb" {
		mkPath := func(k []byte) []byte {
			mp := commitmenttypesv2.MerklePath{KeyPath: [][]byte{[]byte("ibc"), k}}
			bz, err := cw.cdc.Marshal(&mp)
			if err != nil {
				vx.Harnessf("marshal merkle path: %v", err)
			}
			return bz
		}
		if len(data) == 0 {
			data = []byte("v")
		}
		d2 := cw.datas[op.Data2%len(cw.datas)]
		if len(d2) == 0 {
			d2 = []byte("w")
		}
		k2 := []byte(c26Keys[op.Key2%len(c26Keys)])
		r.MSeq = m.seq
		if op.MisbKind == "old-seq" && m.seq > 1 {
			r.MSeq = m.seq - 1
		}
		if op.MisbKind == "same-data" {
			k2, d2 = key, data
		} else if bytes.Equal(k2, key) && bytes.Equal(d2, data) {
			d2 = append(append([]byte{}, d2...), '!')
		}
		r.Claims[0] = c26Claim{Ts: m.ts + uint64(op.TsD), Path: mkPath(key), Data: data}
		r.Claims[1] = c26Claim{Ts: m.ts + uint64(op.TsD2), Path: mkPath(k2), Data: d2}
		for i := 0; i < 2; i++ {
			c := r.Claims[i]
			r.Sigs[i] = c26Signed{Seq: r.MSeq, Ts: c.Ts, Div: m.div, Path: c.Path, Data: c.Data, KS: m.ks}
		}
		switch op.MisbKind {
		case "wrong-seq":
			r.Sigs[1].Seq = r.MSeq + 1
		case "foreign-key":
			r.Sigs[1].KS = (m.ks + 1) % c26NKeySets
		case "div":
			r.Sigs[0].Div = otherDiv(m.div)
		case "ts-claim":
			r.Sigs[1].Ts = r.Claims[1].Ts + 1
		case "data-claim":
			r.Sigs[1].Data = append(append([]byte{}, d2...), '?')
		}
		mb := &solomachine.Misbehaviour{Sequence: r.MSeq}
		sad := [2]*solomachine.SignatureAndData{}
		for i := 0; i < 2; i++ {
			r.SigsBz[i] = c26Sign(cw.cdc, cw.sets, &r.Sigs[i], op.Mask, false)
			sad[i] = &solomachine.SignatureAndData{Signature: r.SigsBz[i], Path: r.Claims[i].Path, Data: r.Claims[i].Data, Timestamp: r.Claims[i].Ts}
		}
		mb.SignatureOne, mb.SignatureTwo = sad[0], sad[1]
		r.Msg = cw.updateMsg(mb)
		return r
	}

	// what the request claims
	var claimPath, claimData []byte
	switch op.Kind {
	case "member":
		claimPath, claimData = key, data
		r.Value = data
	case "nonmember":
		claimPath, claimData = key, nil
	case "header":
		r.HdrData = cw.headerData(op.NewKS%c26NKeySets, op.NewDiv%len(c26Divs))
		claimPath, claimData = []byte(solomachine.SentinelHeaderPath), r.HdrData
	}
	// what is signed: the claim, with at most one deviation
	s := c26Signed{Seq: m.seq, Ts: r.ClaimTs, Div: m.div, Path: claimPath, Data: claimData, KS: m.ks}
	under := false
	switch op.Mut {
	case "seq+1":
		s.Seq++
	case "seq-1":
		s.Seq--
	case "ts":
		s.Ts++
	case "div-empty":
		if m.div == "" {
			s.Div = "x"
		} else {
			s.Div = ""
		}
	case "div-other":
		s.Div = otherDiv(m.div)
	case "path":
		s.Path = otherKey
	case "data":
		switch op.Kind {
		case "header":
			s.Data = cw.headerData((op.NewKS+1)%c26NKeySets, op.NewDiv%len(c26Divs))
		default: // for non-membership this is a membership signature presented as absence proof
			s.Data = otherData
		}
	case "keyset":
		s.KS = (m.ks + 1) % c26NKeySets
	case "mask":
		under = true
	}
	r.Sig = s
	r.SigBz = c26Sign(cw.cdc, cw.sets, &r.Sig, op.Mask, under)
	if op.Kind == "header" {
		h := &solomachine.Header{Timestamp: r.ClaimTs, Signature: r.SigBz, NewPublicKey: cw.anys[op.NewKS%c26NKeySets], NewDiversifier: c26Divs[op.NewDiv%len(c26Divs)]}
		r.Msg = cw.updateMsg(h)
		return r
	}
	r.Proof = cw.proof(r.SigBz, r.ClaimTs)
	switch op.Mut {
	case "pathlen1":
		r.PathKeys = [][]byte{key}
	case "pathlen3":
		r.PathKeys = [][]byte{[]byte("ibc"), key, []byte("x")}
	default:
		r.PathKeys = [][]byte{[]byte("ibc"), key}
	}
	return r
}

// cross turns an earlier single-signature request into a request of ANOTHER kind that
// presents the same signature blob as-signed.
func (cw *c26World) cross(old *c26Req) *c26Req {
	r := &c26Req{Sig: old.Sig, SigBz: old.SigBz, ClaimTs: old.Sig.Ts}
	r.Proof = cw.proof(old.SigBz, old.Sig.Ts)
	r.PathKeys = [][]byte{[]byte("ibc"), old.Sig.Path}
	switch old.Kind {
	case "header":
		r.Kind, r.Value = "member", old.Sig.Data
	case "member":
		r.Kind = "nonmember"
	default:
		r.Kind, r.Value = "member", []byte{}
	}
	return r
}

// exec submits the request; accepted = the chain took it.
func (cw *c26World) exec(r *c26Req) bool {
	w := cw.w
	switch r.Kind {
	case "member", "nonmember":
		ctx, write := w.Ctx(0).CacheContext()
		k := w.App(0).IBCKeeper.ClientKeeper
		path := commitmenttypesv2.MerklePath{KeyPath: r.PathKeys}
		h := clienttypes.NewHeight(0, 1)
		var err error
		pan, msg := vx.Recover(func() {
			if r.Kind == "member" {
				err = k.VerifyMembership(ctx, cw.clientID, h, 0, 0, r.Proof, path, r.Value)
			} else {
				err = k.VerifyNonMembership(ctx, cw.clientID, h, 0, 0, r.Proof, path)
			}
		})
		if pan {
			vx.Harnessf("verification panicked: %s", msg)
		}
		if err == nil {
			write()
		}
		w.Block(0, 1)
		return err == nil
	default:
		return w.Deliver(0, 0, r.Msg).OK
	}
}

func runC26(outer *testing.T) func(rapid.TB, c26Case, *vx.Case) {
	return func(t rapid.TB, c c26Case, rec *vx.Case) {
		const id = "C26"
		w := sim.NewWorld(outer, 1, nil)
		cw := &c26World{w: w, cdc: w.App(0).AppCodec(), sets: c26KeySets(c.Init), signer: w.Addr(0, 0).String()}
		for _, ks := range cw.sets {
			a, err := codectypes.NewAnyWithValue(ks.pub)
			if err != nil {
				vx.Harnessf("any: %v", err)
			}
			cw.anys = append(cw.anys, a)
		}
		cw.datas = [][]byte{nil, []byte("v"), []byte("value-1"), []byte("value-2"), bytes.Repeat([]byte{0x11}, 32), nil}
		cw.datas[5] = cw.headerData(1, 1)

		m := &c26Model{seq: c.Init.Seq, ts: c.Init.Ts, div: c26Divs[c.Init.Div%len(c26Divs)], ks: 0}
		if m.seq == 0 || m.ts == 0 {
			vx.Harnessf("bad init %+v", c.Init)
		}
		cons := &solomachine.ConsensusState{PublicKey: cw.anys[0], Diversifier: m.div, Timestamp: m.ts}
		create, err := clienttypes.NewMsgCreateClient(solomachine.NewClientState(m.seq, cons), cons, cw.signer)
		if err != nil {
			vx.Harnessf("NewMsgCreateClient: %v", err)
		}
		res := w.Deliver(0, 0, create)
		if !res.OK {
			vx.Harnessf("create client failed: %v", res.Err)
		}
		cw.clientID, err = ibctesting.ParseClientIDFromEvents(res.Events)
		if err != nil {
			vx.Harnessf("client id: %v", err)
		}
		if s, ts, fr := cw.state(); s != m.seq || ts != m.ts || fr {
			vx.Harnessf("initial state (%d,%d,%v) != model (%d,%d)", s, ts, fr, m.seq, m.ts)
		}
		if len(cw.sets[0].privs) > 1 {
			rec.Class("initial-key-multisig-%d-of-%d", cw.sets[0].thr, len(cw.sets[0].privs))
		} else {
			rec.Class("initial-key-single")
		}

		var reqs []*c26Req
		var accIdx []int
		acceptedSigs := map[string]int{}
		replaysOfAccepted := 0

		for i, op := range c.Ops {
			var r *c26Req
			what := op.Kind
			isReplayOfAccepted := false
			switch op.Kind {
			case "replay", "xreplay":
				if len(reqs) == 0 {
					continue
				}
				var old *c26Req
				if op.OfAccepted && len(accIdx) > 0 {
					old = reqs[accIdx[op.Idx%len(accIdx)]]
				} else {
					old = reqs[op.Idx%len(reqs)]
				}
				isReplayOfAccepted = old.Accepted
				if op.Kind == "replay" {
					cp := *old
					cp.Accepted = false
					r = &cp
				} else {
					if old.Kind == "misb" {
						continue
					}
					r = cw.cross(old)
				}
				what = fmt.Sprintf("%s(of %s, earlier accepted=%v)", op.Kind, old.Kind, old.Accepted)
				if isReplayOfAccepted {
					replaysOfAccepted++
					rec.Class("%s-of-accepted-%s", op.Kind, old.Kind)
				} else {
					rec.Class("%s-of-rejected", op.Kind)
				}
			default:
				r = cw.build(op, m)
				if op.Mut != "" {
					rec.Class("mutated-%s-%s", op.Kind, op.Mut)
					what += " mut=" + op.Mut
				}
				if op.Kind == "misb" {
					rec.Class("misbehaviour-%s", op.MisbKind)
					what += " " + op.MisbKind
				} else if op.TsD < 0 {
					rec.Class("timestamp-minus-1")
				} else if op.TsD == 0 {
					rec.Class("timestamp-equal")
				}
			}
			allowed, why := m.allows(cw.sets, r)
			before := *m
			accepted := cw.exec(r)
			r.Accepted = accepted
			reqs = append(reqs, r)
			seq, ts, frozen := cw.state()
			desc := fmt.Sprintf("op %d %s: model before (seq=%d ts=%d div=%q keyset=%d frozen=%v), claim ts=%d, signed %+v / %+v; chain after (seq=%d ts=%d frozen=%v)",
				i, what, before.seq, before.ts, before.div, before.ks, before.frozen, r.ClaimTs, c26Short(r.Sig), [2]string{c26Short(r.Sigs[0]), c26Short(r.Sigs[1])}, seq, ts, frozen)

			if ts < before.ts {
				vx.Violatef(t, rec, id, "consensus-timestamp-decreased", "%s", desc)
			}
			if before.frozen {
				rec.Add("attempts_on_frozen", 1)
				if !frozen {
					vx.Violatef(t, rec, id, "frozen-client-unfrozen", "%s", desc)
				}
			}
			if accepted {
				rec.Add("accepted", 1)
				if !allowed {
					vx.Violatef(t, rec, id, "accepted-"+r.Kind+"-"+why, "the model forbids this request (%s) but it was accepted; %s", why, desc)
				}
			} else {
				rec.Add("rejected", 1)
				if allowed {
					rec.Add("model_allowed_but_rejected", 1)
				}
			}

			if r.Kind == "misb" {
				if allowed && !(accepted && frozen) {
					vx.Violatef(t, rec, id, "valid-misbehaviour-does-not-freeze", "two valid signatures over different data for sequence %d were submitted but the client is not frozen (tx ok=%v); %s", r.MSeq, accepted, desc)
				}
				if accepted && !frozen {
					vx.Violatef(t, rec, id, "misbehaviour-accepted-without-freeze", "%s", desc)
				}
				if !before.frozen && frozen {
					m.frozen = true
					rec.Class("frozen-by-misbehaviour")
					if !accepted {
						vx.Violatef(t, rec, id, "frozen-by-failed-tx", "%s", desc)
					}
				}
				if seq != before.seq || ts != before.ts {
					vx.Violatef(t, rec, id, "misbehaviour-changed-sequence-or-timestamp", "%s", desc)
				}
				continue
			}

			if accepted {
				accIdx = append(accIdx, len(reqs)-1)
				if seq != before.seq+1 {
					vx.Violatef(t, rec, id, "success-did-not-consume-exactly-one-sequence", "accepted %s left sequence %d -> %d; %s", r.Kind, before.seq, seq, desc)
				}
				if ts != r.ClaimTs {
					vx.Violatef(t, rec, id, "timestamp-not-the-signed-one", "accepted %s set timestamp %d, signed/claimed %d; %s", r.Kind, ts, r.ClaimTs, desc)
				}
				if prev, dup := acceptedSigs[string(r.SigBz)]; dup {
					vx.Violatef(t, rec, id, "signature-accepted-twice", "signature blob first accepted at op %d accepted again; %s", prev, desc)
				}
				acceptedSigs[string(r.SigBz)] = i
				if frozen {
					vx.Violatef(t, rec, id, "froze-on-verification", "%s", desc)
				}
				m.seq, m.ts = seq, ts
				if r.Kind == "header" {
					// new key / diversifier take effect (the header is ours: look them up by value)
					for j := 0; j < c26NKeySets; j++ {
						for d := range c26Divs {
							if bytes.Equal(r.HdrData, cw.headerData(j, d)) {
								m.ks, m.div = j, c26Divs[d]
							}
						}
					}
					rec.Class("header-accepted")
				} else {
					rec.Class("%s-accepted", r.Kind)
				}
			} else {
				if seq != before.seq || ts != before.ts || frozen != before.frozen {
					vx.Violatef(t, rec, id, "rejected-request-changed-client", "a rejected %s changed the client; %s", r.Kind, desc)
				}
			}
		}
		if m.frozen {
			rec.Class("history-reaches-frozen")
		}
		rec.Add("replays_of_accepted", int64(replaysOfAccepted))
		rec.NonTrivialIf(replaysOfAccepted >= 1)
	}
}

func c26Short(s c26Signed) string {
	if s.Signers == 0 && s.Seq == 0 && s.Ts == 0 {
		return "-"
	}
	d := s.Data
	if len(d) > 12 {
		d = d[:12]
	}
	p := s.Path
	if len(p) > 24 {
		p = p[:24]
	}
	return fmt.Sprintf("{seq=%d ts=%d div=%q path=%q data=%q keyset=%d signers=%d}", s.Seq, s.Ts, s.Div, p, d, s.KS, s.Signers)
}

func TestC26(t *testing.T) {
	vx.Check(t, vx.Prop[c26Case]{
		ID:        "C26",
		Rule:      "cases = a solo machine client (single key or k-of-n multisig, deterministic keys) on one chain + 4..22 ops: membership / non-membership verification through ClientKeeper, header updates (new key set / diversifier), misbehaviour, verbatim replays of earlier requests and cross-kind replays of earlier signatures; 40% of signing ops deviate in one sign-bytes field; timestamps -1/0/+1 around the consensus timestamp; non-trivial = >=1 replay of a previously ACCEPTED signature; distinct by full case encoding",
		MinNTFrac: 0.3,
		Gen:       genC26,
		Run:       runC26(t),
	})
}

// ---- known-finding candidate: real double-signing cannot be proven ----------------------
//
// The statement says that two valid signatures over different data for one sequence freeze the
// client. Signatures that verifyMembership accepts sign SignBytes.Path = the raw ICS-24 key
// (key path element 1). Misbehaviour evidence, however, must carry a Path that proto-decodes as a
// MerklePath and is verified over THOSE bytes, so two proofs that the client would each accept
// for the same sequence are not accepted as misbehaviour, in either encoding of the path.

const c26EvidenceSig = "two-acceptable-proofs-for-one-sequence-rejected-as-misbehaviour"

type c26EvCase struct {
	Init       c26Init
	Key1, Key2 int // indexes into c26Keys (made different)
	Data1      int // 1..4
	TsD2       int // second signature's timestamp offset (0..2)
	Encoded    bool
}

func genC26Ev(t *rapid.T) c26EvCase {
	return c26EvCase{
		Init: c26Init{NKeys: rapid.IntRange(1, 3).Draw(t, "nkeys"), Thresh: rapid.IntRange(1, 3).Draw(t, "thresh"), Div: rapid.IntRange(0, 2).Draw(t, "div"),
			Ts: rapid.SampledFrom([]uint64{1, 10, 1_700_000_000_000_000_000}).Draw(t, "ts"), Seq: rapid.SampledFrom([]uint64{1, 5, 1 << 32}).Draw(t, "seq")},
		Key1: rapid.IntRange(0, len(c26Keys)-1).Draw(t, "k1"), Key2: rapid.IntRange(0, len(c26Keys)-1).Draw(t, "k2"),
		Data1: rapid.IntRange(1, 4).Draw(t, "d1"), TsD2: rapid.IntRange(0, 2).Draw(t, "tsd2"), Encoded: rapid.Bool().Draw(t, "encoded"),
	}
}

func runC26Ev(outer *testing.T) func(rapid.TB, c26EvCase, *vx.Case) {
	return func(t rapid.TB, c c26EvCase, rec *vx.Case) {
		w := sim.NewWorld(outer, 1, nil)
		cw := &c26World{w: w, cdc: w.App(0).AppCodec(), sets: c26KeySets(c.Init), signer: w.Addr(0, 0).String()}
		for _, ks := range cw.sets {
			a, err := codectypes.NewAnyWithValue(ks.pub)
			if err != nil {
				vx.Harnessf("any: %v", err)
			}
			cw.anys = append(cw.anys, a)
		}
		div := c26Divs[c.Init.Div%3]
		cons := &solomachine.ConsensusState{PublicKey: cw.anys[0], Diversifier: div, Timestamp: c.Init.Ts}
		create, err := clienttypes.NewMsgCreateClient(solomachine.NewClientState(c.Init.Seq, cons), cons, cw.signer)
		if err != nil {
			vx.Harnessf("NewMsgCreateClient: %v", err)
		}
		res := w.Deliver(0, 0, create)
		if !res.OK {
			vx.Harnessf("create client failed: %v", res.Err)
		}
		if cw.clientID, err = ibctesting.ParseClientIDFromEvents(res.Events); err != nil {
			vx.Harnessf("client id: %v", err)
		}
		k1, k2 := c.Key1%len(c26Keys), c.Key2%len(c26Keys)
		if k1 == k2 {
			k2 = (k2 + 1) % len(c26Keys)
		}
		datas := [][]byte{nil, []byte("v"), []byte("value-1"), []byte("value-2"), bytes.Repeat([]byte{0x11}, 32)}
		type ev struct {
			key, data []byte
			ts        uint64
			sig       []byte
		}
		evs := []ev{{key: []byte(c26Keys[k1]), data: datas[c.Data1], ts: c.Init.Ts}, {key: []byte(c26Keys[k2]), data: append([]byte("other-"), datas[c.Data1]...), ts: c.Init.Ts + uint64(c.TsD2)}}
		k := w.App(0).IBCKeeper.ClientKeeper
		for i := range evs {
			s := c26Signed{Seq: c.Init.Seq, Ts: evs[i].ts, Div: div, Path: evs[i].key, Data: evs[i].data, KS: 0}
			evs[i].sig = c26Sign(cw.cdc, cw.sets, &s, 7, false)
			// each one, on its own, is a proof the client accepts for this sequence (scratch context, discarded)
			ctx, _ := w.Ctx(0).CacheContext()
			if err := k.VerifyMembership(ctx, cw.clientID, clienttypes.NewHeight(0, 1), 0, 0, cw.proof(evs[i].sig, evs[i].ts),
				commitmenttypesv2.MerklePath{KeyPath: [][]byte{[]byte("ibc"), evs[i].key}}, evs[i].data); err != nil {
				vx.Harnessf("evidence signature %d is not an acceptable proof: %v", i, err)
			}
		}
		mb := &solomachine.Misbehaviour{Sequence: c.Init.Seq}
		sad := make([]*solomachine.SignatureAndData, 2)
		for i := range evs {
			p := evs[i].key
			if c.Encoded {
				mp := commitmenttypesv2.MerklePath{KeyPath: [][]byte{[]byte("ibc"), evs[i].key}}
				if p, err = cw.cdc.Marshal(&mp); err != nil {
					vx.Harnessf("marshal path: %v", err)
				}
			}
			sad[i] = &solomachine.SignatureAndData{Signature: evs[i].sig, Path: p, Data: evs[i].data, Timestamp: evs[i].ts}
		}
		mb.SignatureOne, mb.SignatureTwo = sad[0], sad[1]
		r := w.Deliver(0, 0, cw.updateMsg(mb))
		_, _, frozen := cw.state()
		rec.Class("evidence-path-encoded-as-merkle-path=%v", c.Encoded)
		rec.NonTrivial()
		if frozen {
			rec.Class("frozen")
			return
		}
		vx.Violatef(t, rec, "C26", c26EvidenceSig, "sequence %d: signatures over (%q,%q,ts=%d) and (%q,%q,ts=%d) are each accepted by VerifyMembership, but submitting the pair as Misbehaviour (path as %s) does not freeze the client (tx ok=%v err=%v)",
			c.Init.Seq, evs[0].key, evs[0].data, evs[0].ts, evs[1].key, evs[1].data, evs[1].ts, map[bool]string{false: "the signed raw key", true: "proto MerklePath"}[c.Encoded], r.OK, r.Err)
	}
}

// TestC26Evidence re-demonstrates the known-finding candidate above on every run.
func TestC26Evidence(t *testing.T) {
	vx.Check(t, vx.Prop[c26EvCase]{
		ID:        "C26",
		Rule:      "cases = solo machine client + two signatures over different (ICS-24 key, data) for the CURRENT sequence, each shown to be an acceptable membership proof, submitted together as Misbehaviour with the path as signed or proto-encoded; every case is non-trivial",
		MinNTFrac: 1,
		Gen:       genC26Ev,
		Run:       runC26Ev(t),
	})
}
