package pkt

import (
	"testing"

	"pgregory.net/rapid"

	"github.com/cosmos/ibc-go/v11/modules/apps/callbacks/verifx/pktsim"
	"github.com/cosmos/ibc-go/v11/modules/apps/callbacks/verifx/sim"
	"github.com/cosmos/ibc-go/v11/modules/apps/callbacks/verifx/vx"
)

// C01: over any relay history the destination application's receive callback runs at
// most once per (destination channel or client, sequence); relaying an already received
// packet again changes no state and does not reach the application.

func runC01(outer *testing.T) func(t rapid.TB, h pktsim.History, rec *vx.Case) {
	return func(t rapid.TB, h pktsim.History, rec *vx.Case) {
		const id = "C01"
		w := pktsim.NewWorld(outer, h)
		dupRecv, kindsSeen := 0, map[sim.LinkKind]bool{}
		for i, op := range h.Ops {
			// model knowledge BEFORE the step: which packets have been received
			recvd := pktsim.CommittedSteps(w, "recv")
			st := pktsim.Exec(w, i, op)
			isRecv := op.K == "recv" || (op.K == "replay" && st.HadTx && len(w.Msgs) > 0 && pktsim.MsgKind(w.Msgs[len(w.Msgs)-1].Msgs[0]) == "recv")
			if st.Pkt != nil {
				kindsSeen[w.Links[st.Pkt.Link].Kind] = true
			}
			if isRecv && st.Pkt != nil && st.HadTx {
				if len(recvd[pktsim.DstKey(w, st.Pkt)]) > 0 {
					dupRecv++
					rec.Class("dup-recv-%s", w.Links[st.Pkt.Link].Kind)
					if len(w.Log) != st.LogStart {
						vx.Violatef(t, rec, id, "dup-reaches-app", "step %d: re-relay of already received %s reached the application (%d new callbacks); %s", i, st.Pkt, len(w.Log)-st.LogStart, pktsim.Describe(st))
					}
					if d := sim.Diff(st.Before, st.After); len(d) > 0 {
						vx.Violatef(t, rec, id, "dup-changes-state", "step %d: re-relay of already received %s changed state %v; %s", i, st.Pkt, d, pktsim.Describe(st))
					}
					if st.Res.OK {
						rec.Class("dup-recv-noop-result")
						if !sim.ResultIsNoop(st.Res) {
							vx.Violatef(t, rec, id, "dup-not-noop", "step %d: re-relay of already received %s succeeded with a non-NOOP result", i, st.Pkt)
						}
					}
				}
			}
			if op.K == "checktx" && st.Check != nil && st.Pkt != nil {
				rec.Class("checktx")
				if d := sim.Diff(st.Before, st.After); len(d) > 0 {
					vx.Violatef(t, rec, id, "checktx-changes-state", "step %d: CheckTx of a receive changed committed state %v", i, d)
				}
				if len(recvd[pktsim.DstKey(w, st.Pkt)]) > 0 {
					dupRecv++
					rec.Class("checktx-redundant")
					// an all-redundant relay tx must be refused by the mempool check and must not reach the application
					if st.Check.Code == 0 {
						vx.Violatef(t, rec, id, "checktx-accepts-redundant", "step %d: CheckTx accepted a tx that only re-relays already received %s", i, st.Pkt)
					}
					if len(w.Log) != st.LogStart {
						vx.Violatef(t, rec, id, "checktx-dup-reaches-app", "step %d: CheckTx of re-relay of %s reached the application", i, st.Pkt)
					}
				}
			}
			// invariant after every step: at most one committed receive transaction per key
			for k, steps := range pktsim.CommittedSteps(w, "recv") {
				if len(steps) > 1 {
					vx.Violatef(t, rec, id, "double-recv", "receive callback ran in %d transactions (steps %v) for chain %d id %s seq %d", len(steps), steps, k.Chain, k.ID, k.Seq)
				}
			}
		}
		rec.Add("packets", int64(len(w.Pkts)))
		rec.Add("dup_recv_attempts", int64(dupRecv))
		rec.NonTrivialIf(dupRecv >= 1 && len(kindsSeen) >= 2)
	}
}

func TestC01(t *testing.T) {
	vx.Check(t, vx.Prop[pktsim.History]{
		ID:        "C01",
		Rule:      "histories of send/recv/ack/timeout/replay/update/block/time ops over 2 chains with v1-unordered, v1-ordered, v2 and v2-alias links; non-trivial = at least one re-relay of an already received packet and packets on >=2 link kinds; distinct by full history",
		MinNTFrac: 0.25,
		Gen: func(t *rapid.T) pktsim.History {
			return pktsim.GenLifecycle(t, 28, []string{"send", "send", "recv", "recv", "recv", "recv", "replay", "replay", "checktx", "ack", "timeout", "update", "block", "time"}, []string{"ok", "ok", "err", "async"})
		},
		Run: runC01(t),
	})
}
