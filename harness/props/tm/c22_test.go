package tm

import (
	"bytes"
	"fmt"
	"math"
	"sort"
	"testing"

	"pgregory.net/rapid"

	"github.com/cosmos/ibc-go/v11/modules/apps/callbacks/verifx/tmsim"
	"github.com/cosmos/ibc-go/v11/modules/apps/callbacks/verifx/vx"
)

// C22: every stored Tendermint consensus state has exactly one processed-time, one
// processed-height and one iteration entry and none of these exist without it; ascending
// iteration visits the stored heights in (revision, height) order; previous/next lookups
// return the true neighbours; pruning during updates removes only the oldest state, only
// when it has expired, together with all its metadata.
//
// Model: the set of heights `ms`, advanced by the statement's rules (an accepted update of
// an unstored height with a time between its neighbours adds it; recovery adds the
// substitute's latest height; an update MAY remove the oldest height if it is expired).

func sameSet(a, b map[H][]byte) bool {
	if len(a) != len(b) {
		return false
	}
	for k := range a {
		if _, ok := b[k]; !ok {
			return false
		}
	}
	return true
}

func fmtHs(hs []H) string {
	s := make([]string, len(hs))
	for i, h := range hs {
		s[i] = h.String()
	}
	return fmt.Sprint(s)
}

func eqHs(a, b []H) bool {
	if len(a) != len(b) {
		return false
	}
	for i := range a {
		if a[i] != b[i] {
			return false
		}
	}
	return true
}

// queryHeights are the heights whose neighbours are looked up: every stored height and
// its +-1, the universe, awkward encodings, and revision boundaries.
func queryHeights(stored []H, c Case, rev uint64) []H {
	seen := map[H]bool{}
	var out []H
	add := func(h H) {
		if !seen[h] {
			seen[h] = true
			out = append(out, h)
		}
	}
	for _, h := range stored {
		add(h)
		add(H{h.Rev, h.Height + 1})
		if h.Height > 0 {
			add(H{h.Rev, h.Height - 1})
		}
		add(H{h.Rev + 1, h.Height})
		if h.Rev > 0 {
			add(H{h.Rev - 1, h.Height})
		}
	}
	for _, u := range c.Heights {
		add(H{rev, u})
	}
	for _, a := range awkward {
		add(H{rev, a})
	}
	add(H{0, 0})
	add(H{rev, 0})
	add(H{rev + 1, 0})
	add(H{rev, math.MaxUint64})
	add(H{math.MaxUint64, math.MaxUint64})
	return out
}

func runC22(outer *testing.T) func(t rapid.TB, c Case, rec *vx.Case) {
	return func(t rapid.TB, c Case, rec *vx.Case) {
		const id = "C22"
		e := newEnv(outer, t, c, false)
		ms := map[H]bool{}
		for h := range e.cur.Cons {
			ms[h] = true
		}
		maxStored, prunes, awk, multiRev, lookups := 0, 0, false, false, 0
		checkStore := func(rs *tmsim.RawStore, where string) {
			// 1. the four key families cover exactly the same heights
			if !sameSet(rs.Cons, rs.PTime) || !sameSet(rs.Cons, rs.PHeight) || !sameSet(rs.Cons, rs.Iter) {
				vx.Violatef(t, rec, id, "metadata-sets-differ", "%s: consensus %s processedTime %s processedHeight %s iteration %s", where,
					fmtHs(rs.Heights()), fmtHs(tmsim.SortedHeights(rs.PTime)), fmtHs(tmsim.SortedHeights(rs.PHeight)), fmtHs(tmsim.SortedHeights(rs.Iter)))
			}
			for _, h := range tmsim.SortedHeights(rs.Iter) {
				if v := rs.Iter[h]; string(v) != "consensusStates/"+h.String() {
					vx.Violatef(t, rec, id, "iteration-value-wrong", "%s: iteration key of %s maps to %q", where, h, v)
				}
			}
			// 2. iteration order
			want := rs.Heights()
			if got := e.d.IterateAscending(e.id); !eqHs(got, want) {
				vx.Violatef(t, rec, id, "iteration-order", "%s: IterateConsensusStateAscending yields %s, stored heights in order are %s", where, fmtHs(got), fmtHs(want))
			}
			if !eqHs(rs.IterOrder, want) {
				vx.Violatef(t, rec, id, "iteration-key-order", "%s: iteration keys sort as %s, stored heights in order are %s", where, fmtHs(rs.IterOrder), fmtHs(want))
			}
			// 3. neighbours
			for _, q := range queryHeights(want, c, e.rev) {
				var mp, mn []byte
				for _, s := range want {
					if s.Less(q) {
						mp = rs.Cons[s]
					} else if q.Less(s) && mn == nil {
						mn = rs.Cons[s]
					}
				}
				gp, okp := e.d.Prev(e.id, q)
				gn, okn := e.d.Next(e.id, q)
				lookups += 2
				if okp != (mp != nil) || (okp && !bytes.Equal(gp, mp)) {
					vx.Violatef(t, rec, id, "previous-neighbour-wrong", "%s: GetPreviousConsensusState(%s) = (%x,%v), model neighbour %x; stored %s", where, q, gp, okp, mp, fmtHs(want))
				}
				if okn != (mn != nil) || (okn && !bytes.Equal(gn, mn)) {
					vx.Violatef(t, rec, id, "next-neighbour-wrong", "%s: GetNextConsensusState(%s) = (%x,%v), model neighbour %x; stored %s", where, q, gn, okn, mn, fmtHs(want))
				}
			}
		}
		checkStore(e.cur, "after create")
		for i, op := range c.Ops {
			st := e.exec(i, op)
			where := describe(st)
			// 4. transition of the height set
			var msSorted []H
			for h := range ms {
				msSorted = append(msSorted, h)
			}
			sort.Slice(msSorted, func(a, b int) bool { return msSorted[a].Less(msSorted[b]) })
			exp := map[H]bool{}
			for h := range ms {
				exp[h] = true
			}
			updateOK := st.Hdr != nil && st.Kind != "misb" && st.OK
			if updateOK && !st.StoredBefore && st.TimeOK {
				exp[st.Hdr.H] = true
			}
			if st.Recovered {
				exp[st.SubstituteH] = true
			}
			var missing, extra []H
			for h := range exp {
				if _, ok := st.Post.Cons[h]; !ok {
					missing = append(missing, h)
				}
			}
			for h := range st.Post.Cons {
				if !exp[h] {
					extra = append(extra, h)
				}
			}
			sort.Slice(missing, func(a, b int) bool { return missing[a].Less(missing[b]) })
			sort.Slice(extra, func(a, b int) bool { return extra[a].Less(extra[b]) })
			if len(extra) > 0 {
				vx.Violatef(t, rec, id, "unexpected-height-stored", "heights %s appeared that the model does not expect; %s", fmtHs(extra), where)
			}
			for _, h := range missing {
				if !ms[h] {
					vx.Violatef(t, rec, id, "accepted-update-not-stored", "height %s of an accepted update is not in the store; %s", h, where)
				}
			}
			if len(missing) > 0 {
				prunes += len(missing)
				if len(missing) > 1 {
					vx.Violatef(t, rec, id, "pruned-more-than-one", "one step removed %s; %s", fmtHs(missing), where)
				}
				h := missing[0]
				if !updateOK {
					vx.Violatef(t, rec, id, "removed-outside-update", "height %s removed by a step that is not a successful update; %s", h, where)
				}
				if h != msSorted[0] {
					vx.Violatef(t, rec, id, "pruned-not-oldest", "removed %s while the oldest stored height is %s; %s", h, msSorted[0], where)
				}
				if !e.expiredAt(st.PreTs[h], st.Now) {
					vx.Violatef(t, rec, id, "pruned-unexpired", "removed %s (ts %d) at block time %d with trusting period %s; %s", h, st.PreTs[h], st.Now.UnixNano(), e.tp, where)
				}
			}
			ms = map[H]bool{}
			for h := range st.Post.Cons {
				ms[h] = true
			}
			checkStore(st.Post, where)
			if n := len(st.Post.Cons); n > maxStored {
				maxStored = n
			}
			revs := map[uint64]bool{}
			for h := range st.Post.Cons {
				revs[h.Rev] = true
				if len(st.Post.Cons) >= 4 && isAwkward(h.Height) {
					awk = true
				}
			}
			if len(revs) > 1 {
				multiRev = true
			}
			if st.Recovered {
				rec.Class("recovered-%s", st.Op.V)
			}
		}
		if prunes > 0 {
			rec.Class("pruned")
		}
		if multiRev {
			rec.Class("multi-revision-store")
		}
		if awk {
			rec.Class("awkward-height-stored")
		}
		rec.Class("max-stored-%d", min(maxStored, 8))
		rec.Add("pruned_states", int64(prunes))
		rec.Add("neighbour_lookups", int64(lookups))
		rec.Add("multi_revision_cases", b2i(multiRev))
		rec.NonTrivialIf(maxStored >= 4 && awk && prunes >= 1)
	}
}

func b2i(b bool) int64 {
	if b {
		return 1
	}
	return 0
}

var wC22 = weights{"tip": 6, "past": 5, "update": 4, "resubmit": 2, "conflict": 1, "time": 12, "block": 1, "recover": 3}

func TestC22(t *testing.T) {
	vx.Check(t, vx.Prop[Case]{
		ID:          "C22",
		Rule:        "C20-style histories with heights drawn from a universe rich in awkward encodings (47=0x2f, 0x2f00, 0x2f2f2f, 255/256, 2^32+-1, 2^62) and several revisions in one store via recovery from a substitute on revision V-2; non-trivial = >=4 stored heights incl. an awkward one and >=1 prune; distinct by full history",
		MinNTFrac:   0.2,
		Assumptions: []string{"counterparty chain V is virtual: the harness owns its validator keys (ed25519 from secret val-<i>) and signs headers itself", "recovery = ClientKeeper.RecoverClient (MsgRecoverClient after its authority check); upgrades and client genesis import are not exercised", "raw client store parsed by its documented key layout; stored protobuf values decoded with the app codec"},
		Gen:         func(t *rapid.T) Case { return genCase(t, wC22, 36, func(i, n int) int { return 3 }) },
		Run:         runC22(t),
	})
}
