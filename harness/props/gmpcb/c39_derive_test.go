package gmpcb

import (
	"bytes"
	"crypto/sha256"
	"encoding/binary"
	"encoding/hex"
	"encoding/json"
	"fmt"
	"strings"
	"testing"

	"pgregory.net/rapid"

	gmptypes "github.com/cosmos/ibc-go/v11/modules/apps/27-gmp/types"

	"github.com/cosmos/ibc-go/v11/modules/apps/callbacks/verifx/vx"
)

// C39 (a): the (destination client, sender, salt) -> address derivation.
//
// Reference (written from the documented scheme, not from the code):
//
//	preimage = "gmp-accounts" 0x00 be64(len(client)) client be64(len(sender)) sender be64(len(salt)) salt
//	address  = SHA-256( SHA-256("module") || preimage )            (32 bytes)
//
// The preimage encoding has a left inverse (refParse) which is evaluated on every case, so
// distinct triples provably have distinct preimages; the code's address is compared with the
// reference for every triple, and the code's addresses of distinct triples are compared with
// each other.

type triple struct {
	C string // client id
	S string // sender
	X []byte // salt
}

// JSON form (replay files): sender and salt as hex so that arbitrary bytes survive.
type tripleJSON struct {
	C string `json:"c"`
	S string `json:"s_hex"`
	X string `json:"x_hex"`
	N bool   `json:"x_nil,omitempty"`
}

func (a triple) MarshalJSON() ([]byte, error) {
	return json.Marshal(tripleJSON{C: a.C, S: hex.EncodeToString([]byte(a.S)), X: hex.EncodeToString(a.X), N: a.X == nil})
}

func (a *triple) UnmarshalJSON(b []byte) error {
	var j tripleJSON
	if err := json.Unmarshal(b, &j); err != nil {
		return err
	}
	s, err := hex.DecodeString(j.S)
	if err != nil {
		return err
	}
	x, err := hex.DecodeString(j.X)
	if err != nil {
		return err
	}
	a.C, a.S, a.X = j.C, string(s), x
	if j.N {
		a.X = nil
	} else if a.X == nil {
		a.X = []byte{}
	}
	return nil
}

func (a triple) String() string { return fmt.Sprintf("(%q,%q,%x)", a.C, a.S, a.X) }

func (a triple) eq(b triple) bool { return a.C == b.C && a.S == b.S && bytes.Equal(a.X, b.X) }

func be64(n int) []byte {
	var b [8]byte
	binary.BigEndian.PutUint64(b[:], uint64(n))
	return b[:]
}

// refPreimage is the independent re-implementation of the derivation key.
func refPreimage(t triple) []byte {
	var p []byte
	p = append(p, "gmp-accounts"...)
	p = append(p, 0)
	for _, f := range [][]byte{[]byte(t.C), []byte(t.S), t.X} {
		p = append(p, be64(len(f))...)
		p = append(p, f...)
	}
	return p
}

// refParse is the left inverse of refPreimage (ok=false when p is not a well-formed preimage).
func refParse(p []byte) (triple, bool) {
	const pre = "gmp-accounts\x00"
	if !bytes.HasPrefix(p, []byte(pre)) {
		return triple{}, false
	}
	p = p[len(pre):]
	var f [3][]byte
	for i := 0; i < 3; i++ {
		if len(p) < 8 {
			return triple{}, false
		}
		n := binary.BigEndian.Uint64(p[:8])
		p = p[8:]
		if n > uint64(len(p)) {
			return triple{}, false
		}
		f[i] = p[:n]
		p = p[n:]
	}
	if len(p) != 0 {
		return triple{}, false
	}
	return triple{C: string(f[0]), S: string(f[1]), X: append([]byte{}, f[2]...)}, true
}

func refAddress(t triple) []byte {
	th := sha256.Sum256([]byte("module"))
	h := sha256.New()
	h.Write(th[:])
	h.Write(refPreimage(t))
	return h.Sum(nil)
}

// refValid is the documented domain of the derivation: a client identifier of 4..64
// characters from the ICS-24 alphabet, and a sender that is not blank.
func refValid(t triple) bool {
	if len(t.C) < 4 || len(t.C) > 64 {
		return false
	}
	for _, r := range t.C {
		ok := (r >= 'a' && r <= 'z') || (r >= 'A' && r <= 'Z') || (r >= '0' && r <= '9') || strings.ContainsRune("._+-#[]<>", r)
		if !ok {
			return false
		}
	}
	return strings.TrimSpace(t.S) != ""
}

type c39dCase struct {
	Family string
	A, B   triple
}

const idAlphabet = "abcdefghijklmnopqrstuvwxyzABCDEFGHIJKLMNOPQRSTUVWXYZ0123456789._+-#[]<>"

func genIDString(t *rapid.T, label string, min, max int) string {
	n := rapid.IntRange(min, max).Draw(t, label+"len")
	b := make([]byte, n)
	for i := range b {
		b[i] = idAlphabet[rapid.IntRange(0, len(idAlphabet)-1).Draw(t, label+"ch")]
	}
	return string(b)
}

func genClient(t *rapid.T) string {
	switch rapid.IntRange(0, 4).Draw(t, "clientKind") {
	case 0:
		return rapid.SampledFrom([]string{"07-tendermint-0", "07-tendermint-1", "07-tendermint-10", "07-tendermint-100", "08-wasm-7", "client-1", "client-12", "10-attestations-3"}).Draw(t, "clientConst")
	case 1:
		return genIDString(t, "client", 4, 64)
	case 2:
		return genIDString(t, "client", 60, 64)
	default:
		return genIDString(t, "client", 4, 20)
	}
}

func genSender(t *rapid.T) string {
	switch rapid.IntRange(0, 5).Draw(t, "senderKind") {
	case 0:
		return rapid.SampledFrom([]string{"cosmos1sender", "cosmos1qypqxpq9qcrsszg2pvxq6rs0zqg3yyc5lzv7xu", "0x52908400098527886E0F7030069857D2E4169EE7", "a", "1"}).Draw(t, "senderConst")
	case 1:
		return genIDString(t, "sender", 1, 12)
	case 2:
		return genIDString(t, "sender", 1500, 2048) // long
	case 3:
		// arbitrary bytes (a counterparty chain chooses the sender string), incl. bytes that look like length prefixes
		bz := rapid.SliceOfN(rapid.SampledFrom([]byte{0, 0, 0, 1, 2, 8, 'a', 'b', '1', 0xff, ' '}), 1, 24).Draw(t, "senderRaw")
		return string(bz)
	default:
		return genIDString(t, "sender", 1, 64)
	}
}

func genSalt(t *rapid.T) []byte {
	switch rapid.IntRange(0, 5).Draw(t, "saltKind") {
	case 0:
		return nil
	case 1:
		return []byte{}
	case 2:
		return []byte(genIDString(t, "salt", 1, 8))
	case 3:
		return rapid.SliceOfN(rapid.SampledFrom([]byte{0, 0, 1, 2, 8, 'a', '1', 0xff}), 1, 32).Draw(t, "saltRaw")
	case 4:
		return rapid.SliceOfN(rapid.Byte(), 32, 32).Draw(t, "saltMax")
	default:
		return rapid.SliceOfN(rapid.Byte(), 1, 40).Draw(t, "salt")
	}
}

// coinciding builds a second triple whose naive (prefix-free) concatenation coincides with
// that of a, or which coincides under the loss of one particular length prefix.
func coinciding(t *rapid.T, a triple) (triple, triple, string) {
	b := triple{C: a.C, S: a.S, X: append([]byte{}, a.X...)}
	switch rapid.IntRange(0, 7).Draw(t, "family") {
	case 0: // move k characters from the head of the sender to the tail of the client id
		if len(a.S) >= 2 {
			k := rapid.IntRange(1, len(a.S)-1).Draw(t, "k")
			b.C, b.S = a.C+a.S[:k], a.S[k:]
			return a, b, "client<-sender"
		}
	case 1: // move k characters from the tail of the client id to the head of the sender
		if len(a.C) >= 5 {
			k := rapid.IntRange(1, len(a.C)-4).Draw(t, "k")
			b.C, b.S = a.C[:len(a.C)-k], a.C[len(a.C)-k:]+a.S
			return a, b, "client->sender"
		}
	case 2: // salt bytes moved into the sender
		if len(a.X) >= 1 {
			k := rapid.IntRange(1, len(a.X)).Draw(t, "k")
			b.S, b.X = a.S+string(a.X[:k]), a.X[k:]
			return a, b, "salt->sender"
		}
	case 3: // sender bytes moved into the salt
		if len(a.S) >= 2 {
			k := rapid.IntRange(1, len(a.S)-1).Draw(t, "k")
			b.S, b.X = a.S[:len(a.S)-k], append([]byte(a.S[len(a.S)-k:]), a.X...)
			return a, b, "sender->salt"
		}
	case 4, 5: // length-prefix mimicry: coincides when only the sender's length prefix is lost
		// A = (C, S | be64(|X'|) | P, X)   B = (C, S, X' = P | be64(|X|) | X)
		p := rapid.SliceOfN(rapid.SampledFrom([]byte{0, 1, 'p', 'q', 0xff}), 0, 6).Draw(t, "mimicP")
		x2 := append(append(append([]byte{}, p...), be64(len(a.X))...), a.X...)
		a2 := triple{C: a.C, S: a.S + string(be64(len(x2))) + string(p), X: a.X}
		b = triple{C: a.C, S: a.S, X: x2}
		return a2, b, "prefix-mimic"
	case 6: // empty vs nil vs one zero byte of salt
		if len(a.X) == 0 {
			b.X = []byte{0}
		} else {
			b.X = nil
		}
		return a, b, "salt-empty"
	case 7: // rotate: sender and salt swapped
		if len(a.X) > 0 {
			b.S, b.X = string(a.X), []byte(a.S)
			return a, b, "swap"
		}
	}
	// fallback: last character of the sender moved to the salt front
	b.S, b.X = a.S+"x", a.X
	return a, b, "append"
}

func genC39d(t *rapid.T) c39dCase {
	a := triple{C: genClient(t), S: genSender(t), X: genSalt(t)}
	if rapid.IntRange(0, 4).Draw(t, "pairKind") == 0 {
		b := triple{C: genClient(t), S: genSender(t), X: genSalt(t)}
		return c39dCase{Family: "independent", A: a, B: b}
	}
	a2, b, fam := coinciding(t, a)
	return c39dCase{Family: fam, A: a2, B: b}
}

func naiveConcat(t triple) string { return t.C + t.S + string(t.X) }

// noSenderPrefix is the derivation key with the sender's length prefix dropped.
func noSenderPrefix(t triple) string {
	return string(be64(len(t.C))) + t.C + t.S + string(be64(len(t.X))) + string(t.X)
}

// codeAddr evaluates the code under test; ok=false when it rejects the triple.
func codeAddr(t triple) ([]byte, bool) {
	id := gmptypes.NewAccountIdentifier(t.C, t.S, t.X)
	addr, err := gmptypes.BuildAddressPredictable(&id)
	if err != nil {
		return nil, false
	}
	return addr, true
}

func runC39d(t rapid.TB, c c39dCase, rec *vx.Case) {
	const id = "C39"
	// the reference encoding is injective: it parses back to exactly the triple
	for _, tr := range []triple{c.A, c.B} {
		back, ok := refParse(refPreimage(tr))
		if !ok || !back.eq(tr) {
			vx.Harnessf("reference preimage does not parse back: %q", tr)
		}
	}
	distinct := !c.A.eq(c.B)
	if distinct && bytes.Equal(refPreimage(c.A), refPreimage(c.B)) {
		vx.Harnessf("reference preimages coincide for distinct triples")
	}
	var got [2][]byte
	var acc [2]bool
	for i, tr := range []triple{c.A, c.B} {
		a1, ok1 := codeAddr(tr)
		a2, ok2 := codeAddr(tr)
		if ok1 != ok2 || !bytes.Equal(a1, a2) {
			vx.Violatef(t, rec, id, "derive-nondeterministic", "two derivations of %q differ: %x vs %x", tr, a1, a2)
		}
		got[i], acc[i] = a1, ok1
		if !ok1 {
			rec.Add("rejected", 1)
			if refValid(tr) {
				rec.Add("rejected_but_valid", 1) // converse: health only
			}
			continue
		}
		rec.Add("accepted", 1)
		if !refValid(tr) {
			rec.Add("accepted_outside_documented_domain", 1)
		}
		if want := refAddress(tr); !bytes.Equal(a1, want) {
			vx.Violatef(t, rec, id, "derive-differs-from-scheme", "address of (%q,%q,%x) is %x, the length-prefixed scheme gives %x", tr.C, tr.S, tr.X, a1, want)
		}
		if len(a1) != gmptypes.AccountAddrLen {
			vx.Violatef(t, rec, id, "derive-length", "address length %d", len(a1))
		}
	}
	both := acc[0] && acc[1]
	if both && distinct && bytes.Equal(got[0], got[1]) {
		vx.Violatef(t, rec, id, "derive-collision", "distinct triples (%q,%q,%x) and (%q,%q,%x) share address %x", c.A.C, c.A.S, c.A.X, c.B.C, c.B.S, c.B.X, got[0])
	}
	if both && !distinct && !bytes.Equal(got[0], got[1]) {
		vx.Violatef(t, rec, id, "derive-nondeterministic", "equal triples give different addresses")
	}
	coincide := distinct && (naiveConcat(c.A) == naiveConcat(c.B) || noSenderPrefix(c.A) == noSenderPrefix(c.B))
	rec.Class("family:%s", c.Family)
	if coincide {
		rec.Class("naive-concat-coincides")
	}
	if len(c.A.X) == 0 || len(c.B.X) == 0 {
		rec.Class("empty-salt")
	}
	if len(c.A.S) > 1000 {
		rec.Class("long-sender")
	}
	if both {
		rec.Class("both-accepted")
	}
	// non-trivial: a coinciding-concatenation (or prefix-mimicking) pair of distinct triples both accepted
	rec.NonTrivialIf(both && distinct && (coincide || c.Family == "salt-empty"))
}

func TestC39Derive(t *testing.T) {
	vx.Check(t, vx.Prop[c39dCase]{
		ID:        "C39",
		Rule:      "pairs of (client id, sender, salt) triples: second triple derived from the first by moving bytes across a field boundary, mimicking a length prefix inside a field, empty/nil salt, swap, or independent; non-trivial = distinct pair, both accepted, whose prefix-free concatenations coincide or which mimic a length prefix; distinct by full pair",
		MinNTFrac: 0.3,
		Gen:       genC39d,
		Run:       runC39d,
	})
}
