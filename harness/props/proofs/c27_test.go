package proofs

import (
	"bytes"
	"testing"

	"pgregory.net/rapid"

	sdk "github.com/cosmos/cosmos-sdk/types"

	clienttypes "github.com/cosmos/ibc-go/v11/modules/core/02-client/types"
	commitmenttypesv2 "github.com/cosmos/ibc-go/v11/modules/core/23-commitment/types/v2"
	host "github.com/cosmos/ibc-go/v11/modules/core/24-host"
	"github.com/cosmos/ibc-go/v11/modules/core/exported"
	ibctm "github.com/cosmos/ibc-go/v11/modules/light-clients/07-tendermint"
	localhost "github.com/cosmos/ibc-go/v11/modules/light-clients/09-localhost"

	"github.com/cosmos/ibc-go/v11/modules/apps/callbacks/verifx/sim"
	"github.com/cosmos/ibc-go/v11/modules/apps/callbacks/verifx/vx"
)

// C27: 09-localhost VerifyMembership succeeds exactly when the chain's own IBC store holds the
// given value at the given key, VerifyNonMembership exactly when the key is absent; both need
// the sentinel proof (and a path of length 2). The localhost client cannot be created, updated,
// upgraded or recovered.
//
//   TestC27     verification vs a direct read of the IBC store of the same (cached) context.
//   TestC27Ops  every client operation addressed to the localhost client fails and leaves the
//               state unchanged (real transactions, msg-server, keeper and module level).

const c27 = "C27"

type c27World struct {
	w      *sim.World
	l      *sim.Link
	tmID   string // a real tendermint client on chain 0
	menu   [][]byte
	hdr    *ibctm.Header
	cs     exported.ClientState
	cons   exported.ConsensusState
	csBz   []byte
	consBz []byte
	auth   string
}

func getC27World(outer *testing.T) *c27World {
	return sharedWorld("c27", func() *c27World {
		cw := &c27World{w: sim.NewWorld(outer, 2, nil)}
		w := cw.w
		cw.l = w.AddLink(sim.V1Unordered, 0, 1, nil)
		p, err := w.SendV1(cw.l, 0, clienttypes.NewHeight(1, 1_000_000), 0, sim.Script{N: 1}.Bytes())
		if err != nil {
			vx.Harnessf("send: %v", err)
		}
		cw.tmID = cw.l.Client(0)
		ep := cw.l.Path.EndpointA
		cw.menu = [][]byte{
			host.FullClientStateKey(cw.tmID), host.ConnectionKey(ep.ConnectionID), host.ChannelKey(ep.ChannelConfig.PortID, ep.ChannelID),
			host.NextSequenceRecvKey(ep.ChannelConfig.PortID, ep.ChannelID), p.CommitmentKey(),
			host.PacketReceiptKey(ep.ChannelConfig.PortID, ep.ChannelID, 1), host.ConnectionKey(exported.LocalhostConnectionID),
		}
		sim.Guard("c27 setup", func() {
			w.Block(1, 1)
			trusted := w.Chains[0].GetClientLatestHeight(cw.tmID).(clienttypes.Height)
			cw.hdr, err = w.Chains[1].IBCClientHeader(w.Chains[1].LatestCommittedHeader, trusted)
			if err != nil {
				vx.Harnessf("header: %v", err)
			}
			cw.cs = w.Chains[0].GetClientState(cw.tmID)
			var ok bool
			cw.cons, ok = w.Chains[0].GetConsensusState(cw.tmID, trusted)
			if !ok {
				vx.Harnessf("no consensus state")
			}
			cdc := w.App(0).AppCodec()
			cw.csBz = cdc.MustMarshal(cw.cs.(*ibctm.ClientState))
			cw.consBz = cdc.MustMarshal(cw.cons.(*ibctm.ConsensusState))
			cw.auth = w.App(0).IBCKeeper.GetAuthority()
		})
		return cw
	})
}

// ---- verification -----------------------------------------------------------------------------

type c27Case struct {
	Writes    []kv   // extra entries put into the IBC store of the cached context
	KeyKind   string // menu | storeidx | written | variant | raw
	KeyIdx    int
	KeyVar    string // variant of a present key: extend | trunc | flip
	KeyRaw    []byte
	ValKind   string // stored | flip | trunc | extend | prefixed | empty | raw
	ValI      int
	ValX      byte
	ValRaw    []byte
	ProofKind string
	Proof     []byte
	PathLen   int
	Prefix    []byte
	Extra     []byte
	ExtraLast bool
	H         hgt
	DT, DB    uint64
	ViaKeeper bool
}

type hgt struct{ R, H uint64 }

var c27Proofs = map[string][]byte{
	"sentinel": {0x01}, "nil": nil, "empty": {}, "zero": {0x00}, "two": {0x02}, "sentinel+0": {0x01, 0x00}, "0+sentinel": {0x00, 0x01},
	"sentinel-twice": {0x01, 0x01}, "ff": {0xff},
}

func genC27(t *rapid.T) c27Case {
	var c c27Case
	for k, n := 0, rapid.IntRange(0, 4).Draw(t, "writes"); k < n; k++ {
		c.Writes = append(c.Writes, kv{genKey(t, nil, "wk"), genBytes(t, 1, 24, "wv")})
	}
	c.KeyKind = rapid.SampledFrom([]string{"menu", "menu", "storeidx", "storeidx", "written", "variant", "variant", "raw"}).Draw(t, "keykind")
	c.KeyIdx = rapid.IntRange(0, 1<<12).Draw(t, "keyidx")
	c.KeyVar = rapid.SampledFrom([]string{"extend", "trunc", "flip"}).Draw(t, "keyvar")
	c.KeyRaw = genKey(t, nil, "keyraw")
	c.ValKind = rapid.SampledFrom([]string{"stored", "stored", "stored", "flip", "trunc", "extend", "prefixed", "empty", "raw"}).Draw(t, "valkind")
	c.ValI = rapid.IntRange(0, 1<<12).Draw(t, "vali")
	c.ValX = byte(rapid.IntRange(1, 255).Draw(t, "valx"))
	c.ValRaw = genBytes(t, 1, 16, "valraw")
	if rapid.IntRange(0, 9).Draw(t, "sentinel") < 6 {
		c.ProofKind = "sentinel"
	} else {
		names := []string{"nil", "empty", "zero", "two", "sentinel+0", "0+sentinel", "sentinel-twice", "ff", "random"}
		c.ProofKind = rapid.SampledFrom(names).Draw(t, "proofkind")
	}
	if c.ProofKind == "random" {
		c.Proof = genBytes(t, 1, 6, "proof")
		if bytes.Equal(c.Proof, localhost.SentinelProof) {
			c.ProofKind = "sentinel"
		}
	} else {
		c.Proof = c27Proofs[c.ProofKind]
	}
	c.PathLen = rapid.SampledFrom([]int{2, 2, 2, 2, 2, 2, 1, 3}).Draw(t, "pathlen")
	c.Prefix = rapid.SampledFrom([][]byte{[]byte("ibc"), []byte("ibc"), {}, []byte("transfer"), {0x00}}).Draw(t, "prefix")
	c.Extra = genBytes(t, 0, 4, "extra")
	c.ExtraLast = rapid.Bool().Draw(t, "extralast")
	c.H = hgt{vx.U64().Draw(t, "hr"), vx.U64().Draw(t, "hh")}
	c.DT, c.DB = vx.U64().Draw(t, "dt"), vx.U64().Draw(t, "db")
	c.ViaKeeper = rapid.Bool().Draw(t, "viakeeper")
	return c
}

func runC27(outer *testing.T) func(rapid.TB, c27Case, *vx.Case) {
	return func(t rapid.TB, c c27Case, rec *vx.Case) {
		cw := getC27World(outer)
		w := cw.w
		app := w.App(0)
		ctx, _ := w.Ctx(0).CacheContext()
		store := ctx.KVStore(app.GetKey(exported.StoreKey))
		var written [][]byte
		for _, e := range c.Writes {
			if len(e.K) == 0 || len(e.V) == 0 {
				continue
			}
			store.Set(e.K, e.V)
			written = append(written, e.K)
		}
		keys, _ := dumpKV(store)
		if len(keys) < 10 {
			vx.Harnessf("IBC store unexpectedly small: %d keys", len(keys))
		}
		// ---- resolve the key
		var key []byte
		switch c.KeyKind {
		case "menu":
			key = clone(cw.menu[c.KeyIdx%len(cw.menu)])
		case "written":
			if len(written) > 0 {
				key = clone(written[c.KeyIdx%len(written)])
				break
			}
			fallthrough
		case "storeidx":
			key = clone(keys[c.KeyIdx%len(keys)])
		case "variant":
			key = clone(keys[c.KeyIdx%len(keys)])
			switch c.KeyVar {
			case "extend":
				key = append(key, c.ValX)
			case "trunc":
				if len(key) > 1 {
					key = key[:len(key)-1]
				}
			default:
				flipAt(key, c.ValI, c.ValX)
			}
		default:
			key = clone(c.KeyRaw)
		}
		if len(key) == 0 {
			vx.Harnessf("empty key generated")
		}
		// ---- the oracle reads the same store directly
		has := store.Has(key)
		stored := clone(store.Get(key))
		if has != (stored != nil) {
			vx.Harnessf("store Has/Get disagree at %q", key)
		}
		// ---- the claimed value
		base := stored
		if !has {
			base = c.ValRaw
		}
		value := clone(base)
		switch c.ValKind {
		case "flip":
			flipAt(value, c.ValI, c.ValX)
		case "trunc":
			value = value[:len(value)-1]
		case "extend":
			value = append(value, c.ValX)
		case "prefixed":
			value = append([]byte{c.ValX}, value...)
		case "empty":
			value = []byte{}
			if c.ValI%2 == 0 {
				value = nil
			}
		case "raw":
			value = clone(c.ValRaw)
		}
		// ---- the path
		var kp [][]byte
		switch c.PathLen {
		case 1:
			kp = [][]byte{key}
		case 3:
			if c.ExtraLast {
				kp = [][]byte{c.Prefix, key, c.Extra}
			} else {
				kp = [][]byte{c.Prefix, c.Extra, key}
			}
		default:
			kp = [][]byte{c.Prefix, key}
		}
		path := commitmenttypesv2.NewMerklePath(kp...)
		height := clienttypes.NewHeight(c.H.R, c.H.H)
		sentinel := bytes.Equal(c.Proof, localhost.SentinelProof)

		var memErr, nonErr error
		ck := app.IBCKeeper.ClientKeeper
		mod, err := ck.Route(ctx, exported.LocalhostClientID)
		if err != nil {
			vx.Harnessf("no route to the localhost module: %v", err)
		}
		pm, _ := vx.Recover(func() {
			if c.ViaKeeper {
				memErr = ck.VerifyMembership(ctx, exported.LocalhostClientID, height, c.DT, c.DB, c.Proof, path, value)
			} else {
				memErr = mod.VerifyMembership(ctx, exported.LocalhostClientID, height, c.DT, c.DB, c.Proof, path, value)
			}
		})
		pn, _ := vx.Recover(func() {
			if c.ViaKeeper {
				nonErr = ck.VerifyNonMembership(ctx, exported.LocalhostClientID, height, c.DT, c.DB, c.Proof, path)
			} else {
				nonErr = mod.VerifyNonMembership(ctx, exported.LocalhostClientID, height, c.DT, c.DB, c.Proof, path)
			}
		})
		memOK, nonOK := !pm && memErr == nil, !pn && nonErr == nil
		if pm || pn {
			rec.Add("verify_panics", 1)
		}
		wantMem := sentinel && c.PathLen == 2 && has && bytes.Equal(stored, value)
		wantNon := sentinel && c.PathLen == 2 && !has

		reason := func() string {
			switch {
			case !sentinel:
				return "non-sentinel-proof"
			case c.PathLen != 2:
				return "path-length"
			}
			return "store-content"
		}
		if memOK && !wantMem {
			vx.Violatef(t, rec, c27, "membership-accepted-"+reason(), "VerifyMembership(key %q, value %x, proof %x, path length %d) succeeded; store has=%v value=%x", key, value, c.Proof, c.PathLen, has, stored)
		}
		if !memOK && wantMem {
			vx.Violatef(t, rec, c27, "membership-rejected", "VerifyMembership(key %q, value %x, sentinel proof, path length 2) failed although the store holds exactly that value: %v", key, value, memErr)
		}
		if nonOK && !wantNon {
			vx.Violatef(t, rec, c27, "nonmembership-accepted-"+reason(), "VerifyNonMembership(key %q, proof %x, path length %d) succeeded; store has=%v", key, c.Proof, c.PathLen, has)
		}
		if !nonOK && wantNon {
			vx.Violatef(t, rec, c27, "nonmembership-rejected", "VerifyNonMembership(key %q, sentinel proof, path length 2) failed although the key is absent: %v", key, nonErr)
		}
		// ---- classification
		trueMem := has && bytes.Equal(stored, value)
		switch {
		case has && trueMem:
			rec.Class("present-same-value")
		case has:
			rec.Class("present-other-value")
		default:
			rec.Class("absent")
		}
		if sentinel {
			rec.Class("sentinel")
		} else {
			rec.Class("proof-%s", c.ProofKind)
		}
		rec.Class("path-len-%d", c.PathLen)
		if wantMem {
			rec.Add("membership_true", 1)
		}
		if wantNon {
			rec.Add("nonmembership_true", 1)
		}
		otherwiseTrue := c.PathLen == 2 && (trueMem || !has)
		rec.NonTrivialIf((!sentinel && otherwiseTrue) || (has && !trueMem && sentinel && c.PathLen == 2))
	}
}

func TestC27(t *testing.T) {
	vx.Check(t, vx.Prop[c27Case]{
		ID:        c27,
		Rule:      "keys from a populated IBC store (clients, connections, channel, packet commitment, extra random entries written into the cached context), their +-1-byte variants and random keys; value = stored / one-byte flip / truncated / extended / prefixed / empty / random; proof = sentinel or 9 near misses or random bytes; path length 1/2/3, any prefix; any height and delays; module called directly or through ClientKeeper; oracle = exact (both directions) against Get/Has on the same context; non-trivial = non-sentinel proof on an otherwise true statement, or differing value on a present key with the sentinel proof",
		MinNTFrac: 0.25,
		Gen:       genC27,
		Run:       runC27(t),
	})
}

// ---- client operations ---------------------------------------------------------------------------

type c27Op struct {
	Op      string // create | update | misbehaviour | upgrade | recover | initialize | update-state
	Via     string // deliver | server | keeper | module
	ID      int    // which identifier of the localhost client type is addressed
	Sub     int    // recover: substitute variant
	Garbage []byte // upgrade proofs / create payload
	RealBz  bool   // create/upgrade: use the bytes of a real tendermint client/consensus state
	Signer  int
}

var c27IDs = []string{exported.LocalhostClientID, exported.LocalhostClientID, exported.LocalhostClientID + "-0", exported.LocalhostClientID + "-7"}

var c27Vias = map[string][]string{
	"create":       {"keeper"},
	"update":       {"deliver", "server", "keeper", "module"},
	"misbehaviour": {"deliver", "server", "keeper", "module"},
	"upgrade":      {"deliver", "server", "keeper", "module"},
	"recover":      {"server", "keeper", "module"},
	"initialize":   {"module"},
	"update-state": {"module"},
}

func genC27Op(t *rapid.T) c27Op {
	c := c27Op{Op: rapid.SampledFrom([]string{"create", "update", "update", "misbehaviour", "upgrade", "upgrade", "recover", "recover", "initialize", "update-state"}).Draw(t, "op")}
	c.Via = rapid.SampledFrom(c27Vias[c.Op]).Draw(t, "via")
	c.ID = rapid.IntRange(0, len(c27IDs)-1).Draw(t, "id")
	c.Sub = rapid.IntRange(0, 3).Draw(t, "sub")
	c.Garbage = genBytes(t, 1, 12, "garbage")
	c.RealBz = rapid.Bool().Draw(t, "realbz")
	c.Signer = rapid.IntRange(0, 2).Draw(t, "signer")
	return c
}

func runC27Op(outer *testing.T) func(rapid.TB, c27Op, *vx.Case) {
	return func(t rapid.TB, c c27Op, rec *vx.Case) {
		cw := getC27World(outer)
		w := cw.w
		app := w.App(0)
		id := c27IDs[c.ID%len(c27IDs)]
		signer := w.Addr(0, c.Signer).String()
		csBz, consBz := c.Garbage, c.Garbage
		if c.RealBz {
			csBz, consBz = cw.csBz, cw.consBz
		}
		subs := []string{cw.tmID, cw.tmID, exported.LocalhostClientID, "07-tendermint-99"}
		sub := subs[c.Sub%len(subs)]
		var clientMsg exported.ClientMessage = cw.hdr
		if c.Op == "misbehaviour" {
			clientMsg = &ibctm.Misbehaviour{ClientId: id, Header1: cw.hdr, Header2: cw.hdr}
		}
		rec.Class("%s/%s", c.Op, c.Via)
		rec.NonTrivial()

		// the message, where one exists
		var msg sdk.Msg
		switch c.Op {
		case "update", "misbehaviour":
			m, err := clienttypes.NewMsgUpdateClient(id, clientMsg, signer)
			if err != nil {
				vx.Harnessf("NewMsgUpdateClient: %v", err)
			}
			msg = m
		case "upgrade":
			m, err := clienttypes.NewMsgUpgradeClient(id, cw.cs, cw.cons, c.Garbage, c.Garbage, signer)
			if err != nil {
				vx.Harnessf("NewMsgUpgradeClient: %v", err)
			}
			msg = m
		case "recover":
			msg = clienttypes.NewMsgRecoverClient(cw.auth, id, sub)
		}

		if c.Via == "deliver" {
			before := w.Snapshot(0, exported.StoreKey)
			res := w.Deliver(0, c.Signer, msg)
			after := w.Snapshot(0, exported.StoreKey)
			if res.OK {
				vx.Violatef(t, rec, c27, "localhost-"+c.Op+"-succeeded", "transaction with %T addressed to %q succeeded", msg, id)
			}
			if d := sim.Diff(before, after); len(d) > 0 {
				vx.Violatef(t, rec, c27, "localhost-"+c.Op+"-changed-state", "failed %T addressed to %q changed state: %v", msg, id, d)
			}
			rec.Add("tx_rejected", 1)
			return
		}

		ctx, _ := w.Ctx(0).CacheContext()
		store := ctx.KVStore(app.GetKey(exported.StoreKey))
		_, before := dumpKV(store)
		ck := app.IBCKeeper.ClientKeeper
		mod, err := ck.Route(ctx, id)
		if err != nil {
			vx.Harnessf("route %q: %v", id, err)
		}
		var opErr error
		hasErr := true
		panicked, pmsg := vx.Recover(func() {
			switch c.Via {
			case "server":
				switch m := msg.(type) {
				case *clienttypes.MsgUpdateClient:
					_, opErr = app.IBCKeeper.UpdateClient(ctx, m)
				case *clienttypes.MsgUpgradeClient:
					_, opErr = app.IBCKeeper.UpgradeClient(ctx, m)
				case *clienttypes.MsgRecoverClient:
					_, opErr = app.IBCKeeper.RecoverClient(ctx, m)
				}
			case "keeper":
				switch c.Op {
				case "create":
					_, opErr = ck.CreateClient(ctx, exported.Localhost, csBz, consBz)
				case "update", "misbehaviour":
					opErr = ck.UpdateClient(ctx, id, clientMsg)
				case "upgrade":
					opErr = ck.UpgradeClient(ctx, id, csBz, consBz, c.Garbage, c.Garbage)
				case "recover":
					opErr = ck.RecoverClient(ctx, id, sub)
				}
			case "module":
				switch c.Op {
				case "update":
					opErr = mod.VerifyClientMessage(ctx, id, clientMsg)
				case "misbehaviour":
					opErr = mod.VerifyClientMessage(ctx, id, clientMsg)
					if mod.CheckForMisbehaviour(ctx, id, clientMsg) {
						vx.Violatef(t, rec, c27, "localhost-misbehaviour-detected", "CheckForMisbehaviour on the localhost client returned true")
					}
					mod.UpdateStateOnMisbehaviour(ctx, id, clientMsg)
				case "upgrade":
					opErr = mod.VerifyUpgradeAndUpdateState(ctx, id, csBz, consBz, c.Garbage, c.Garbage)
				case "recover":
					opErr = mod.RecoverClient(ctx, id, sub)
				case "initialize":
					opErr = mod.Initialize(ctx, id, csBz, consBz)
				case "update-state":
					hasErr = false
					_ = mod.UpdateState(ctx, id, clientMsg)
				}
			}
		})
		if panicked {
			rec.Add("op_panics", 1)
			rec.Class("panicked")
			_ = pmsg
		} else if hasErr && opErr == nil {
			vx.Violatef(t, rec, c27, "localhost-"+c.Op+"-succeeded", "%s of the localhost client (%q) through the %s returned no error", c.Op, id, c.Via)
		}
		_, after := dumpKV(store)
		changed := len(before) != len(after)
		for k, v := range before {
			if !bytes.Equal(after[k], v) {
				changed = true
			}
		}
		// a returned error makes the caller discard the context, so only calls that report success
		// (or have no error to report) must leave the store untouched themselves
		if changed && (!hasErr || opErr == nil) {
			vx.Violatef(t, rec, c27, "localhost-"+c.Op+"-changed-state", "%s of the localhost client (%q) through the %s changed the IBC store", c.Op, id, c.Via)
		}
		if changed {
			rec.Add("store_written_before_error", 1)
		}
		rec.Add("op_rejected", 1)
	}
}

func TestC27Ops(t *testing.T) {
	vx.Check(t, vx.Prop[c27Op]{
		ID:        c27,
		Rule:      "create / update (header) / update (misbehaviour) / upgrade / recover / initialize / update-state addressed to 09-localhost (and 09-localhost-N, which routes to the same module), submitted as a real transaction (MsgUpdateClient, MsgUpgradeClient), to the msg server (MsgRecoverClient signed by the authority), to ClientKeeper and to the light client module; payloads = real tendermint header / client state / consensus state or garbage; every operation must fail and committed IBC state must be unchanged; every case is non-trivial; distinct by full case",
		MinNTFrac: 0.9,
		Gen:       genC27Op,
		Run:       runC27Op(t),
	})
}
