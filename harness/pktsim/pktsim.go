// Package pktsim is the shared interpreter for packet-lifecycle histories: plain-data ops
// (send / recv / ack / timeout / replay / update / block / time / close) executed against a
// sim.World, plus model helpers over the application callback log and op generators.
package pktsim

import (
	"fmt"
	"testing"
	"time"

	"pgregory.net/rapid"

	sdk "github.com/cosmos/cosmos-sdk/types"

	abci "github.com/cometbft/cometbft/abci/types"

	clienttypes "github.com/cosmos/ibc-go/v11/modules/core/02-client/types"
	channeltypes "github.com/cosmos/ibc-go/v11/modules/core/04-channel/types"
	channeltypesv2 "github.com/cosmos/ibc-go/v11/modules/core/04-channel/v2/types"

	"github.com/cosmos/ibc-go/v11/modules/apps/callbacks/verifx/sim"
	"github.com/cosmos/ibc-go/v11/modules/apps/callbacks/verifx/vx"
)

// Op is one step of a packet-lifecycle history. All "which" fields are indices taken
// modulo the current population, so every op is meaningful in every state.
type Op struct {
	K   string       `json:"k"`             // send recv ack timeout toc update block time replay close asyncack
	L   int          `json:"l,omitempty"`   // link
	D   int          `json:"d,omitempty"`   // direction (0: A->B)
	P   int          `json:"p,omitempty"`   // packet index
	H   int          `json:"h,omitempty"`   // proof height: -1 fresh (update client first), >=0 index into stored heights
	N   int          `json:"n,omitempty"`   // blocks / seconds / replay index
	Sig int          `json:"sig,omitempty"` // signing account
	TH  int          `json:"th,omitempty"`  // send: timeout height = dest height + TH (0: none)
	TT  int          `json:"tt,omitempty"`  // send: timeout time = now + TT seconds (0: none; v2 always set)
	S   []sim.Script `json:"s,omitempty"`   // send: one script per payload (v1: exactly one)
	App []string     `json:"app,omitempty"` // send v2: mock app per payload ("A"/"B")
}

type History struct {
	Links []int `json:"links"` // link kinds in creation order (alias links refer to the first v1-unordered link)
	Ops   []Op  `json:"ops"`
}

// Step is what the interpreter reports for one executed op.
type Step struct {
	Op       Op
	Pkt      *sim.Pkt
	Chain    int // chain that processed the transaction (-1: none)
	Res      sim.TxResult
	HadTx    bool
	Before   sim.Snap
	After    sim.Snap
	LogStart int
	Sent     bool
	Check    *abci.ResponseCheckTx // "checktx" op: the mempool-check response
}

func NewWorld(t *testing.T, h History) *sim.World {
	w := sim.NewWorld(t, 2, nil)
	var base *sim.Link
	for _, k := range h.Links {
		kind := sim.LinkKind(k)
		if kind == sim.V2Alias {
			if base == nil {
				base = w.AddLink(sim.V1Unordered, 0, 1, nil)
			}
			w.AddLink(kind, 0, 1, base)
			continue
		}
		l := w.AddLink(kind, 0, 1, nil)
		if kind == sim.V1Unordered && base == nil {
			base = l
		}
	}
	return w
}

func Pick(n, i int) int {
	if n == 0 {
		return 0
	}
	i %= n
	if i < 0 {
		i += n
	}
	return i
}

// ChooseHeight resolves a proof-height selector for a message processed on `side` of l.
func ChooseHeight(w *sim.World, l *sim.Link, side int, sel int, signer int) uint64 {
	if sel < 0 {
		return w.FreshHeight(l, side, signer)
	}
	hs := w.StoredHeights(l, side)
	if len(hs) == 0 {
		return 2
	}
	return hs[Pick(len(hs), sel)]
}

// exec runs one op. Client updates requested through H<0 happen before the "before" snapshot.
func Exec(w *sim.World, no int, op Op) Step {
	w.StepNo = no
	st := Step{Op: op, Chain: -1, LogStart: len(w.Log)}
	if len(w.Links) == 0 {
		return st
	}
	l := w.Links[Pick(len(w.Links), op.L)]
	switch op.K {
	case "block":
		w.Block(Pick(2, op.D), 1+Pick(3, op.N))
	case "time":
		w.AdvanceTime(time.Duration(1+Pick(3600, op.N)) * time.Second)
	case "update":
		side := Pick(2, op.D)
		c, client := w.VerifierClient(l, side)
		st.Chain = c
		st.Res = w.UpdateClient(c, client, l.Chain[1-side], op.Sig)
		st.HadTx = true
	case "send":
		dir := Pick(2, op.D)
		dstChain := l.Chain[1-dir]
		st.Chain = l.Chain[dir]
		st.Before = w.Snapshot(st.Chain)
		now := w.Coord.CurrentTime
		if l.IsV2() {
			tt := op.TT
			if tt == 0 {
				tt = 600
			}
			var pls []channeltypesv2.Payload
			for i, s := range op.S {
				app := "A"
				if i < len(op.App) && op.App[i] == "B" {
					app = "B"
				}
				pls = append(pls, sim.MockPayload(app, s))
			}
			if len(pls) == 0 {
				pls = append(pls, sim.MockPayload("A", sim.Script{N: no, Out: "ok"}))
			}
			p, res := w.SendV2(l, dir, op.Sig, uint64(now.Unix()+int64(tt)), pls...)
			st.Pkt, st.Res, st.HadTx, st.Sent = p, res, true, p != nil
		} else {
			th := clienttypes.ZeroHeight()
			if op.TH != 0 {
				th = clienttypes.NewHeight(clienttypes.ParseChainID(w.Chains[dstChain].ChainID), uint64(w.Height(dstChain)+int64(op.TH)))
			}
			var ts uint64
			if op.TT != 0 {
				ts = uint64(now.Add(time.Duration(op.TT) * time.Second).UnixNano())
			}
			if op.TH == 0 && op.TT == 0 {
				th = clienttypes.NewHeight(clienttypes.ParseChainID(w.Chains[dstChain].ChainID), uint64(w.Height(dstChain)+1000))
			}
			s := sim.Script{N: no, Out: "ok"}
			if len(op.S) > 0 {
				s = op.S[0]
			}
			p, err := w.SendV1(l, dir, th, ts, s.Bytes())
			st.Pkt, st.Sent = p, err == nil
			st.Res = sim.TxResult{Err: err, OK: err == nil}
		}
		st.After = w.Snapshot(st.Chain)
	case "recv", "ack", "timeout", "toc":
		if len(w.Pkts) == 0 {
			return st
		}
		p := w.Pkts[Pick(len(w.Pkts), op.P)]
		st.Pkt = p
		pl := w.Links[p.Link]
		var msg sdk.Msg
		switch op.K {
		case "recv":
			side := 1 - p.Dir
			st.Chain = pl.Chain[side]
			h := ChooseHeight(w, pl, side, op.H, op.Sig)
			msg = w.BuildRecv(p, h, op.Sig)
		case "ack":
			side := p.Dir
			st.Chain = pl.Chain[side]
			h := ChooseHeight(w, pl, side, op.H, op.Sig)
			var a2 channeltypesv2.Acknowledgement
			if p.Ack2 != nil {
				a2 = *p.Ack2
			} else {
				a2 = channeltypesv2.NewAcknowledgement(sim.OKAck2(0))
			}
			a1 := p.Ack1
			if a1 == nil {
				a1 = sim.OKAck(0).Acknowledgement()
			}
			msg = w.BuildAck(p, a1, a2, h, op.Sig)
		case "timeout":
			side := p.Dir
			st.Chain = pl.Chain[side]
			h := ChooseHeight(w, pl, side, op.H, op.Sig)
			msg = w.BuildTimeout(p, w.NextSeqRecv(p), h, op.Sig)
		case "toc":
			if p.V2 {
				return st
			}
			side := p.Dir
			st.Chain = pl.Chain[side]
			h := ChooseHeight(w, pl, side, op.H, op.Sig)
			msg = w.BuildTimeoutOnClose(p, w.NextSeqRecv(p), h, op.Sig)
		}
		st.Before = w.Snapshot(st.Chain)
		st.Res = w.Deliver(st.Chain, op.Sig, msg)
		st.HadTx = true
		st.After = w.Snapshot(st.Chain)
		if op.K == "recv" && !sim.ResultIsNoop(st.Res) {
			w.NoteAck(p, st.Res)
		}
	case "checktx":
		// offer a receive of packet P to the mempool check only (nothing is committed)
		if len(w.Pkts) == 0 {
			return st
		}
		p := w.Pkts[Pick(len(w.Pkts), op.P)]
		st.Pkt = p
		pl := w.Links[p.Link]
		side := 1 - p.Dir
		st.Chain = pl.Chain[side]
		h := ChooseHeight(w, pl, side, op.H, op.Sig)
		msg := w.BuildRecv(p, h, op.Sig)
		st.Before = w.Snapshot(st.Chain)
		st.Check = w.CheckTx(st.Chain, op.Sig, msg)
		st.After = w.Snapshot(st.Chain)
	case "replay":
		// re-submit an earlier relay message verbatim (stale proof and all)
		var relays []sim.SentMsg
		for _, m := range w.Msgs {
			if len(m.Msgs) == 1 && IsRelayMsg(m.Msgs[0]) {
				relays = append(relays, m)
			}
		}
		if len(relays) == 0 {
			return st
		}
		m := relays[Pick(len(relays), op.N)]
		st.Chain = m.Chain
		st.Pkt = PktOfMsg(w, m.Msgs[0])
		st.Before = w.Snapshot(st.Chain)
		st.Res = w.Deliver(m.Chain, m.Signer, m.Msgs...)
		st.HadTx = true
		st.After = w.Snapshot(st.Chain)
	case "close":
		if l.IsV2() {
			return st
		}
		side := Pick(2, op.D)
		c := l.Chain[side]
		st.Chain = c
		msg := channeltypes.NewMsgChannelCloseInit(l.Port(side), l.ID(side), w.Addr(c, op.Sig).String())
		st.Res = w.Deliver(c, op.Sig, msg)
		st.HadTx = true
	}
	return st
}

func IsRelayMsg(m sdk.Msg) bool {
	switch m.(type) {
	case *channeltypes.MsgRecvPacket, *channeltypes.MsgAcknowledgement, *channeltypes.MsgTimeout, *channeltypes.MsgTimeoutOnClose,
		*channeltypesv2.MsgRecvPacket, *channeltypesv2.MsgAcknowledgement, *channeltypesv2.MsgTimeout:
		return true
	}
	return false
}

// MsgKind returns recv/ack/timeout for a relay message.
func MsgKind(m sdk.Msg) string {
	switch m.(type) {
	case *channeltypes.MsgRecvPacket, *channeltypesv2.MsgRecvPacket:
		return "recv"
	case *channeltypes.MsgAcknowledgement, *channeltypesv2.MsgAcknowledgement:
		return "ack"
	case *channeltypes.MsgTimeout, *channeltypesv2.MsgTimeout:
		return "timeout"
	case *channeltypes.MsgTimeoutOnClose:
		return "toc"
	}
	return ""
}

func PktOfMsg(w *sim.World, m sdk.Msg) *sim.Pkt {
	var v1 *channeltypes.Packet
	var v2 *channeltypesv2.Packet
	switch x := m.(type) {
	case *channeltypes.MsgRecvPacket:
		v1 = &x.Packet
	case *channeltypes.MsgAcknowledgement:
		v1 = &x.Packet
	case *channeltypes.MsgTimeout:
		v1 = &x.Packet
	case *channeltypes.MsgTimeoutOnClose:
		v1 = &x.Packet
	case *channeltypesv2.MsgRecvPacket:
		v2 = &x.Packet
	case *channeltypesv2.MsgAcknowledgement:
		v2 = &x.Packet
	case *channeltypesv2.MsgTimeout:
		v2 = &x.Packet
	}
	for _, p := range w.Pkts {
		if v1 != nil && !p.V2 && p.P1.Sequence == v1.Sequence && p.P1.SourceChannel == v1.SourceChannel && p.P1.SourcePort == v1.SourcePort && p.P1.DestinationChannel == v1.DestinationChannel {
			return p
		}
		if v2 != nil && p.V2 && p.P2.Sequence == v2.Sequence && p.P2.SourceClient == v2.SourceClient && p.P2.DestinationClient == v2.DestinationClient {
			return p
		}
	}
	return nil
}

// ---- model helpers over the callback log ------------------------------------------

type EvKey struct {
	Chain int
	ID    string
	Seq   uint64
}

// DstKey is the (destination chain, destination id, sequence) key of a packet.
func DstKey(w *sim.World, p *sim.Pkt) EvKey {
	if p.V2 {
		return EvKey{w.DstChain(p), p.P2.DestinationClient, p.P2.Sequence}
	}
	return EvKey{w.DstChain(p), p.P1.DestinationChannel, p.P1.Sequence}
}

func SrcKey(w *sim.World, p *sim.Pkt) EvKey {
	if p.V2 {
		return EvKey{w.SrcChain(p), p.P2.SourceClient, p.P2.Sequence}
	}
	return EvKey{w.SrcChain(p), p.P1.SourceChannel, p.P1.Sequence}
}

// CommittedSteps returns, per key, the distinct steps in which a committed callback of one
// of the given kinds ran.
func CommittedSteps(w *sim.World, kinds ...string) map[EvKey][]int {
	out := map[EvKey][]int{}
	for _, e := range w.Log {
		if e.Reverted {
			continue
		}
		ok := false
		for _, k := range kinds {
			if e.Kind == k {
				ok = true
			}
		}
		if !ok {
			continue
		}
		k := EvKey{e.Chain, e.ID, e.Seq}
		steps := out[k]
		if len(steps) == 0 || steps[len(steps)-1] != e.Step {
			out[k] = append(steps, e.Step)
		}
	}
	return out
}

func Describe(st Step) string {
	p := "-"
	if st.Pkt != nil {
		p = st.Pkt.String()
	}
	return fmt.Sprintf("op=%+v pkt=%s ok=%v err=%v", st.Op, p, st.Res.OK, st.Res.Err)
}

// ---- generators --------------------------------------------------------------------

func GenScript(t *rapid.T, n int, outs []string) sim.Script {
	s := sim.Script{N: n, Out: rapid.SampledFrom(outs).Draw(t, "out")}
	nw := rapid.IntRange(0, 3).Draw(t, "nw")
	for i := 0; i < nw; i++ {
		s.W = append(s.W, rapid.SampledFrom([]string{"a", "b", "c", "d"}).Draw(t, "wk"))
	}
	return s
}

func GenHeightSel(t *rapid.T) int {
	if rapid.IntRange(0, 9).Draw(t, "hfresh") < 6 {
		return -1
	}
	return rapid.IntRange(0, 30).Draw(t, "hidx")
}

var _ = vx.Harnessf

// GenLifecycle draws a lifecycle history: a world (2-4 link kinds) and up to maxOps ops whose kinds
// are sampled from `kinds` (repeat a kind to weight it) and receiver outcomes from `outs`.
func GenLifecycle(t *rapid.T, maxOps int, kinds []string, outs []string) History {
	h := History{}
	switch rapid.IntRange(0, 3).Draw(t, "world") {
	case 0:
		h.Links = []int{int(sim.V1Unordered), int(sim.V2Alias)}
	case 1:
		h.Links = []int{int(sim.V1Ordered), int(sim.V2Clients)}
	default:
		h.Links = []int{int(sim.V1Unordered), int(sim.V1Ordered), int(sim.V2Clients), int(sim.V2Alias)}
	}
	n := rapid.IntRange(4, maxOps).Draw(t, "nops")
	sends := 0
	for i := 0; i < n; i++ {
		k := rapid.SampledFrom(kinds).Draw(t, "kind")
		if sends == 0 && k != "block" && k != "update" {
			k = "send"
		}
		op := Op{K: k, Sig: rapid.IntRange(0, 2).Draw(t, "sig")}
		switch k {
		case "send":
			op.L = rapid.IntRange(0, len(h.Links)-1).Draw(t, "link")
			op.D = rapid.IntRange(0, 1).Draw(t, "dir")
			np := 1
			if sim.LinkKind(h.Links[op.L]) == sim.V2Clients || sim.LinkKind(h.Links[op.L]) == sim.V2Alias {
				np = rapid.IntRange(1, 3).Draw(t, "npayloads")
			}
			for j := 0; j < np; j++ {
				op.S = append(op.S, GenScript(t, i*10+j, outs))
				op.App = append(op.App, rapid.SampledFrom([]string{"A", "B"}).Draw(t, "app"))
			}
			switch rapid.IntRange(0, 5).Draw(t, "timeoutKind") {
			case 0:
				op.TH = rapid.IntRange(1, 6).Draw(t, "th")
			case 1:
				op.TT = rapid.IntRange(1, 60).Draw(t, "tt")
			}
			sends++
		case "recv", "ack", "timeout", "toc", "checktx":
			// bias toward recent packets
			if rapid.Bool().Draw(t, "recent") {
				op.P = sends - 1 - rapid.IntRange(0, 1).Draw(t, "back")
			} else {
				op.P = rapid.IntRange(0, sends).Draw(t, "pkt")
			}
			op.H = GenHeightSel(t)
		case "replay":
			op.N = rapid.IntRange(0, 40).Draw(t, "which")
		case "block", "update", "close":
			op.L = rapid.IntRange(0, len(h.Links)-1).Draw(t, "link")
			op.D = rapid.IntRange(0, 1).Draw(t, "dir")
			op.N = rapid.IntRange(0, 2).Draw(t, "n")
		case "time":
			op.N = rapid.IntRange(0, 120).Draw(t, "secs")
		}
		h.Ops = append(h.Ops, op)
	}
	return h
}
