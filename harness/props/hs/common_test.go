package hs

import (
	"fmt"
	"os"
	"sort"

	"pgregory.net/rapid"

	sdk "github.com/cosmos/cosmos-sdk/types"

	"github.com/cosmos/ibc-go/v11/modules/apps/callbacks/verifx/sim"
)

// Shared helpers of the hs group (C12 channel handshake, C13 connection handshake).
//
// Both checks drive two real simapp chains with hand-built handshake messages and judge every
// step against a MODEL that is nothing but the recorded history of the handshake ends of both
// chains per committed block height: "what was the counterparty end in the state provable at
// consensus height h" is a lookup of the state after block h-1 (a Tendermint header of height h
// carries the application hash after block h-1).

// hist is the per-chain history of a keyed state: the value of every key after each block that
// the harness knows changed (or may have changed) it. Blocks in between carry the previous value.
type hist[T any] struct {
	hs []int64
	vs []map[string]T
}

func (x *hist[T]) record(height int64, m map[string]T) {
	if n := len(x.hs); n > 0 && x.hs[n-1] == height {
		x.vs[n-1] = m
		return
	}
	x.hs = append(x.hs, height)
	x.vs = append(x.vs, m)
}

// at returns the state after block `version` (nil map if nothing was recorded that early).
func (x *hist[T]) at(version int64) map[string]T {
	var out map[string]T
	for i, h := range x.hs {
		if h <= version {
			out = x.vs[i]
		} else {
			break
		}
	}
	return out
}

// provableAt is the state a proof for consensus height h is checked against.
func (x *hist[T]) provableAt(h uint64) map[string]T { return x.at(int64(h) - 1) }

// selID resolves an identifier selector against the list of identifiers an attempt created on
// a chain: -1 = newest, k>=0 = k-th (modulo). With an empty list the selector names
// "<prefix>k" directly, so that messages about never-created ends are generated too.
func selID(ids []string, k int, prefix string) string {
	if len(ids) == 0 {
		if k < 0 {
			k = 0
		}
		return fmt.Sprintf("%s%d", prefix, k)
	}
	if k < 0 {
		return ids[len(ids)-1]
	}
	return ids[k%len(ids)]
}

// pickHeight resolves a proof-height selector for the light client `client` on chain c that
// tracks chain o: -1 = update the client first and use its new latest height (sees everything
// committed so far); k>=0 = the k-th newest consensus height ALREADY stored (no update: stale
// unless an update op ran at the right moment); k beyond the stored set = a height for which
// the client has no consensus state.
func pickHeight(w *sim.World, c int, client string, o int, selH int) (h uint64, fresh bool) {
	if selH < 0 {
		w.UpdateClient(c, client, o, 0)
		return w.Chains[c].GetClientLatestHeight(client).GetRevisionHeight(), true
	}
	hs := w.ConsensusHeights(c, client)
	if selH < len(hs) {
		return hs[len(hs)-1-selH], false
	}
	last := uint64(0)
	if len(hs) > 0 {
		last = hs[len(hs)-1]
	}
	return last + uint64(selH) + 1, false
}

func latestHeight(w *sim.World, c int, client string) uint64 {
	hs := w.ConsensusHeights(c, client)
	if len(hs) == 0 {
		return 0
	}
	return hs[len(hs)-1]
}

// sentRec remembers a delivered handshake message so that it can be replayed verbatim.
type sentRec struct {
	Chain int
	Kind  string
	A     int    // attempt the message belonged to
	H     uint64 // proof height carried (0: none)
	Msg   sdk.Msg
}

func validateBasic(m sdk.Msg) error {
	if v, ok := m.(sdk.HasValidateBasic); ok {
		return v.ValidateBasic()
	}
	return nil
}

func sortedKeys[T any](ms ...map[string]T) []string {
	seen := map[string]bool{}
	var out []string
	for _, m := range ms {
		for k := range m {
			if !seen[k] {
				seen[k] = true
				out = append(out, k)
			}
		}
	}
	sort.Strings(out)
	return out
}

func sameSet(a, b []string) bool {
	as, bs := map[string]bool{}, map[string]bool{}
	for _, x := range a {
		as[x] = true
	}
	for _, x := range b {
		bs[x] = true
	}
	if len(as) != len(bs) {
		return false
	}
	for x := range as {
		if !bs[x] {
			return false
		}
	}
	return true
}

// ---- history generation helpers ------------------------------------------------------

// perturb applies n random edits to a skeleton history: duplicate an op to a later position,
// swap neighbours, drop one, or insert a fully random op.
func perturb[T any](t *rapid.T, ops []T, n int, random func(t *rapid.T) T) []T {
	for k := 0; k < n; k++ {
		if len(ops) == 0 {
			ops = append(ops, random(t))
			continue
		}
		switch rapid.IntRange(0, 5).Draw(t, "edit") {
		case 0, 1: // duplicate to a later position
			i := rapid.IntRange(0, len(ops)-1).Draw(t, "dupFrom")
			j := rapid.IntRange(i+1, len(ops)).Draw(t, "dupTo")
			cp := ops[i]
			ops = append(ops[:j], append([]T{cp}, ops[j:]...)...)
		case 2: // swap neighbours
			if len(ops) >= 2 {
				i := rapid.IntRange(0, len(ops)-2).Draw(t, "swap")
				ops[i], ops[i+1] = ops[i+1], ops[i]
			}
		case 3: // drop
			i := rapid.IntRange(0, len(ops)-1).Draw(t, "drop")
			ops = append(ops[:i], ops[i+1:]...)
		default: // insert random
			j := rapid.IntRange(0, len(ops)).Draw(t, "insAt")
			ops = append(ops[:j], append([]T{random(t)}, ops[j:]...)...)
		}
	}
	return ops
}

// interleave merges several op lists into one, preserving the order inside each list.
func interleave[T any](t *rapid.T, lists [][]T) []T {
	var out []T
	for {
		var live []int
		for i, l := range lists {
			if len(l) > 0 {
				live = append(live, i)
			}
		}
		if len(live) == 0 {
			return out
		}
		i := live[rapid.IntRange(0, len(live)-1).Draw(t, "next")]
		out = append(out, lists[i][0])
		lists[i] = lists[i][1:]
	}
}

func chance(t *rapid.T, pct int, label string) bool {
	return rapid.IntRange(0, 99).Draw(t, label) < pct
}

// debugf prints step traces when HS_DEBUG is set (manual triage only; never affects a verdict).
func debugf(format string, args ...any) {
	if os.Getenv("HS_DEBUG") != "" {
		fmt.Fprintf(os.Stderr, format+"\n", args...)
	}
}
