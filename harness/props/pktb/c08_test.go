package pktb

import (
	"encoding/binary"
	"sort"
	"testing"
	"time"

	"github.com/cosmos/gogoproto/proto"
	"pgregory.net/rapid"

	sdkmath "cosmossdk.io/math"

	sdk "github.com/cosmos/cosmos-sdk/types"

	transfertypes "github.com/cosmos/ibc-go/v11/modules/apps/transfer/types"
	clienttypes "github.com/cosmos/ibc-go/v11/modules/core/02-client/types"
	channeltypes "github.com/cosmos/ibc-go/v11/modules/core/04-channel/types"
	channeltypesv2 "github.com/cosmos/ibc-go/v11/modules/core/04-channel/v2/types"
	host "github.com/cosmos/ibc-go/v11/modules/core/24-host"
	hostv2 "github.com/cosmos/ibc-go/v11/modules/core/24-host/v2"
	ibctm "github.com/cosmos/ibc-go/v11/modules/light-clients/07-tendermint"
	ibctesting "github.com/cosmos/ibc-go/v11/testing"

	"github.com/cosmos/ibc-go/v11/modules/apps/callbacks/verifx/sim"
	"github.com/cosmos/ibc-go/v11/modules/apps/callbacks/verifx/vx"
)

// C08: sends allocate consecutive sequences (from 1, +1, shared between v1 and v2 sends on an
// aliased channel), write exactly {nextSequenceSend, one commitment}, and every send that one of
// the listed guards must reject fails without any state change.
//
// World (fixed): chains 0,1 with
//   link 0  v1 UNORDERED channel on the mock port            (sends: direct keeper call, sim.SendV1)
//   link 1  v2 alias of link 0                               (sends: MsgSendPacket tx, mock payload)
//   link 2  v2 client pair                                   (sends: MsgSendPacket tx)
//   link 3  v1 UNORDERED channel on the transfer port        (sends: MsgTransfer tx = v1 send through a real tx)
//   link 4  v2 alias of link 3                               (sends: MsgSendPacket tx with mock payload, or MsgTransfer{UseAliasing})

type sdOp struct {
	K   string `json:"k"`             // m1 x1 v2 ma xa xt | close freeze zero expire update block time
	D   int    `json:"d,omitempty"`   // direction / side
	Sig int    `json:"sig,omitempty"` // signer
	L   int    `json:"l,omitempty"`   // env ops: link
	HK  int    `json:"hk,omitempty"`  // v1 timeout height: 0 none, 1 client latest height + HD, 2 far
	HD  int    `json:"hd,omitempty"`
	HR  int    `json:"hr,omitempty"` // v1 timeout height revision: 0 dest revision, 1 one lower, 2 one higher
	TK  int    `json:"tk,omitempty"` // v1 timeout timestamp: 0 none, 1 client latest consensus time + TD ns, 2 far
	TD  int    `json:"td,omitempty"`
	VK  int    `json:"vk,omitempty"` // v2 timeout (s): 0 blockTime+VD, 1 blockTime+24h+VD, 2 latest consensus time+VD, 3 blockTime+600
	VD  int    `json:"vd,omitempty"`
	N   int    `json:"n,omitempty"` // block count / time ms / expire delta selector / close state selector
}

type sdCase struct {
	Ops []sdOp `json:"ops"`
}

type srcKey struct {
	chain int
	id    string
}

type sdWorld struct {
	w      *sim.World
	next   map[srcKey]uint64
	notOp  map[srcKey]bool // v1 channel end not OPEN (model knowledge from the ops performed)
	broken map[srcKey]bool // (chain, clientID) frozen / zero height by direct write
	v1OK   map[srcKey]int
	alOK   map[srcKey]int
}

func newSendWorld(outer *testing.T) *sdWorld {
	w := sim.NewWorld(outer, 2, nil)
	l0 := w.AddLink(sim.V1Unordered, 0, 1, nil)
	w.AddLink(sim.V2Alias, 0, 1, l0)
	w.AddLink(sim.V2Clients, 0, 1, nil)
	var l3 *sim.Link
	sim.Guard("transfer path setup", func() {
		p := ibctesting.NewTransferPath(w.Chains[0], w.Chains[1])
		p.Setup()
		l3 = &sim.Link{Idx: len(w.Links), Kind: sim.V1Unordered, Chain: [2]int{0, 1}, Path: p}
		w.Links = append(w.Links, l3)
	})
	w.AddLink(sim.V2Alias, 0, 1, l3)
	return &sdWorld{w: w, next: map[srcKey]uint64{}, notOp: map[srcKey]bool{}, broken: map[srcKey]bool{}, v1OK: map[srcKey]int{}, alOK: map[srcKey]int{}}
}

// clientView is what the send-time guards are defined over: the source chain's light client
// of the destination (status inputs and latest consensus state), read from the client store.
type clientView struct {
	hasCons   bool
	rev, h    uint64
	consNs    uint64
	frozen    bool
	trustingP time.Duration
}

func (sw *sdWorld) view(chain int, clientID string) clientView {
	w := sw.w
	cs, ok := w.App(chain).IBCKeeper.ClientKeeper.GetClientState(w.Ctx(chain), clientID)
	if !ok {
		vx.Harnessf("client %s not found", clientID)
	}
	tm, ok := cs.(*ibctm.ClientState)
	if !ok {
		vx.Harnessf("client %s is not tendermint", clientID)
	}
	v := clientView{rev: tm.LatestHeight.RevisionNumber, h: tm.LatestHeight.RevisionHeight, frozen: !tm.FrozenHeight.IsZero(), trustingP: tm.TrustingPeriod}
	if cons, ok := w.App(chain).IBCKeeper.ClientKeeper.GetClientConsensusState(w.Ctx(chain), clientID, tm.LatestHeight); ok {
		v.hasCons = true
		v.consNs = cons.GetTimestamp()
	}
	return v
}

// activeAt is the independent model of "client is Active" at block time nowNs.
func (v clientView) activeAt(nowNs int64) bool {
	if v.frozen || !v.hasCons || (v.rev == 0 && v.h == 0) {
		return false
	}
	return int64(v.consNs)+int64(v.trustingP) > nowNs
}

func be64(s string) (uint64, bool) {
	if len(s) != 8 {
		return 0, false
	}
	return binary.BigEndian.Uint64([]byte(s)), true
}

func decodeSeq(res sim.TxResult, out interface {
	proto.Message
}) bool {
	var msgData sdk.TxMsgData
	if res.Res == nil || proto.Unmarshal(res.Res.Data, &msgData) != nil || len(msgData.MsgResponses) == 0 {
		return false
	}
	return proto.Unmarshal(msgData.MsgResponses[0].Value, out) == nil
}

func runC08(outer *testing.T) func(t rapid.TB, c sdCase, rec *vx.Case) {
	return func(t rapid.TB, c sdCase, rec *vx.Case) {
		const id = "C08"
		sw := newSendWorld(outer)
		w := sw.w
		boundarySends, boundaryOK, boundaryRej := 0, 0, 0
		for i, op := range c.Ops {
			w.StepNo = i
			switch op.K {
			case "block":
				w.Block(pick(2, op.D), 1+pick(2, op.N))
				continue
			case "time":
				w.AdvanceTime(time.Duration(1+pick(3000, op.N)) * time.Millisecond)
				continue
			case "update":
				l := w.Links[[]int{0, 2, 3}[pick(3, op.L)]]
				side := pick(2, op.D)
				if sw.broken[srcKey{l.Chain[side], l.Client(side)}] {
					continue // no honest header can be built for a client whose state was overwritten
				}
				w.UpdateClient(l.Chain[side], l.Client(side), l.Chain[1-side], op.Sig)
				continue
			case "close":
				// mock channel: a real MsgChannelCloseInit; transfer channel (the application refuses
				// user-initiated closing): direct write of a non-OPEN state
				side := pick(2, op.D)
				if pick(2, op.L) == 0 {
					l := w.Links[0]
					res := w.Deliver(l.Chain[side], op.Sig, channeltypes.NewMsgChannelCloseInit(l.Port(side), l.ID(side), w.Addr(l.Chain[side], op.Sig).String()))
					if res.OK {
						sw.notOp[srcKey{l.Chain[side], l.ID(side)}] = true
						rec.Class("env-close-init")
					}
				} else {
					l := w.Links[3]
					ch := l.Chain[side]
					k := w.App(ch).IBCKeeper.ChannelKeeper
					end, ok := k.GetChannel(w.Ctx(ch), l.Port(side), l.ID(side))
					if !ok {
						vx.Harnessf("transfer channel end missing")
					}
					end.State = []channeltypes.State{channeltypes.CLOSED, channeltypes.TRYOPEN, channeltypes.INIT}[pick(3, op.N)]
					k.SetChannel(w.Ctx(ch), l.Port(side), l.ID(side), end)
					w.Block(ch, 1)
					sw.notOp[srcKey{ch, l.ID(side)}] = true
					rec.Class("env-channel-state-%s", end.State)
				}
				continue
			case "freeze", "zero":
				l := w.Links[[]int{0, 2, 3}[pick(3, op.L)]]
				side := pick(2, op.D)
				ch, client := l.Chain[side], l.Client(side)
				ck := w.App(ch).IBCKeeper.ClientKeeper
				cs, ok := ck.GetClientState(w.Ctx(ch), client)
				if !ok {
					vx.Harnessf("client missing")
				}
				tm := cs.(*ibctm.ClientState)
				if op.K == "freeze" {
					tm.FrozenHeight = clienttypes.NewHeight(0, 1)
				} else {
					tm.LatestHeight = clienttypes.ZeroHeight()
				}
				ck.SetClientState(w.Ctx(ch), client, tm)
				w.Block(ch, 1)
				sw.broken[srcKey{ch, client}] = true
				rec.Class("env-client-%s", op.K)
				continue
			case "expire":
				// move the shared clock to (latest consensus time + trusting period + d) of one client
				l := w.Links[[]int{0, 2, 3}[pick(3, op.L)]]
				side := pick(2, op.D)
				v := sw.view(l.Chain[side], l.Client(side))
				if !v.hasCons {
					continue
				}
				d := []int64{-1, 0, 1, int64(time.Hour)}[pick(4, op.N)]
				target := time.Unix(0, int64(v.consNs)+int64(v.trustingP)+d).UTC()
				if target.After(w.Coord.CurrentTime) {
					w.AdvanceTime(target.Sub(w.Coord.CurrentTime))
					rec.Class("env-clock-at-expiry%+d", d)
				}
				continue
			}

			// ---- a send
			var l *sim.Link
			v1 := false
			switch op.K {
			case "m1":
				l, v1 = w.Links[0], true
			case "x1":
				l, v1 = w.Links[3], true
			case "v2":
				l = w.Links[2]
			case "ma":
				l = w.Links[1]
			case "xa", "xt":
				l = w.Links[4]
			default:
				continue
			}
			dir := pick(2, op.D)
			ch := l.Chain[dir]
			srcID := l.ID(dir)
			key := srcKey{ch, srcID}
			if _, ok := sw.next[key]; !ok {
				sw.next[key] = 1
			}
			client := l.Client(dir)
			cv := sw.view(ch, client)
			nowNs := w.Coord.CurrentTime.UnixNano()
			dstRev := clienttypes.ParseChainID(w.Chains[l.Chain[1-dir]].ChainID)

			// ---- timeouts at the guards' boundaries + the model's verdict
			var th clienttypes.Height
			var ts, tsec uint64
			var guards []string
			boundary := false
			if !cv.activeAt(nowNs) {
				guards = append(guards, "client-not-active")
			}
			if v1 {
				if sw.notOp[key] {
					guards = append(guards, "channel-not-open")
				}
				switch pick(3, op.HK) {
				case 1:
					r := dstRev
					if op.HR == 1 && r > 0 {
						r--
					} else if op.HR == 2 {
						r++
					}
					th = clienttypes.NewHeight(r, uint64(int64(cv.h)+int64(op.HD)))
					boundary = true
				case 2:
					th = clienttypes.NewHeight(dstRev, cv.h+1000)
				}
				switch pick(3, op.TK) {
				case 1:
					ts = uint64(int64(cv.consNs) + int64(op.TD))
					boundary = true
				case 2:
					ts = uint64(nowNs + int64(time.Hour))
				}
				elapsedH := !(th.RevisionNumber == 0 && th.RevisionHeight == 0) && cmpHeight(cv.rev, cv.h, th.RevisionNumber, th.RevisionHeight) >= 0
				elapsedT := ts != 0 && cv.consNs >= ts
				if cv.hasCons && (elapsedH || elapsedT) {
					guards = append(guards, "timeout-passed-per-client")
				}
			} else {
				blockSec := nowNs / 1_000_000_000
				switch pick(4, op.VK) {
				case 0:
					tsec, boundary = uint64(blockSec+int64(op.VD)), true
				case 1:
					tsec, boundary = uint64(blockSec+86400+int64(op.VD)), true
				case 2:
					tsec, boundary = uint64(int64(cv.consNs/1_000_000_000)+int64(op.VD)), true
				default:
					tsec = uint64(blockSec + 600)
				}
				if tsec == 0 {
					tsec = 1
				}
				if !(tsec*1_000_000_000 > uint64(nowNs)) {
					guards = append(guards, "v2-timeout-not-after-block-time")
				}
				if tsec*1_000_000_000 > uint64(nowNs)+uint64(channeltypesv2.MaxTimeoutDelta) {
					guards = append(guards, "v2-timeout-beyond-max-delta")
				}
				if cv.hasCons && cv.consNs/1_000_000_000 >= tsec {
					guards = append(guards, "timeout-passed-per-client")
				}
			}
			if boundary {
				boundarySends++
			}

			before := w.Snapshot(ch)
			var ok bool
			var seq uint64
			viaTx := true
			switch op.K {
			case "m1":
				viaTx = false
				p, err := w.SendV1(l, dir, th, ts, sim.Script{N: i, Out: "ok"}.Bytes())
				if ok = err == nil; ok {
					seq = p.P1.Sequence
				}
			case "x1", "xt":
				sender := w.Addr(ch, op.Sig).String()
				recv := w.Addr(l.Chain[1-dir], 0).String()
				coin := sdk.NewCoin(sdk.DefaultBondDenom, sdkmath.NewInt(int64(1+i)))
				var msg *transfertypes.MsgTransfer
				if op.K == "x1" {
					msg = transfertypes.NewMsgTransfer(l.Port(dir), srcID, coin, sender, recv, th, ts, "")
				} else {
					msg = transfertypes.NewMsgTransferAliased(transfertypes.PortID, srcID, coin, sender, recv, clienttypes.ZeroHeight(), tsec, "")
				}
				res := w.Deliver(ch, op.Sig, msg)
				if ok = res.OK; ok {
					var r transfertypes.MsgTransferResponse
					if !decodeSeq(res, &r) {
						vx.Harnessf("cannot decode MsgTransferResponse")
					}
					seq = r.Sequence
				}
			default: // v2, ma, xa
				p, res := w.SendV2(l, dir, op.Sig, tsec, sim.MockPayload("A", sim.Script{N: i, Out: "ok"}))
				if ok = res.OK; ok {
					seq = p.P2.Sequence
				}
			}
			after := w.Snapshot(ch)
			rec.Class("send-%s", op.K)

			nsKey := string(hostv2.NextSequenceSendKey(srcID))
			if boundary && ok {
				boundaryOK++
			}
			if boundary && !ok && len(guards) > 0 {
				boundaryRej++
			}
			if !ok {
				rec.Add("sends_rejected", 1)
				if len(guards) > 0 {
					rec.Add("sends_rejected_by_listed_guard", 1)
					for _, g := range guards {
						rec.Class("guard-%s", g)
					}
					if viaTx {
						rec.Add("listed_guard_rejections_through_tx", 1)
					}
					if d := sim.Diff(before, after); len(d) > 0 {
						vx.Violatef(t, rec, id, "rejected-send-changed-state", "step %d: %s send on chain %d id %s rejected (guards %v) but state changed: %v", i, op.K, ch, srcID, guards, d)
					}
				} else {
					rec.Add("sends_rejected_model_would_accept", 1) // converse: health only
				}
			} else {
				rec.Add("sends_ok", 1)
				if len(guards) > 0 {
					sort.Strings(guards)
					vx.Violatef(t, rec, id, "send-accepted-despite-"+guards[0], "step %d: %s send on chain %d id %s (seq %d) accepted although guards %v must reject it: timeout height %s, timeout v1 %d ns / v2 %d s, block time %d ns, client view %+v", i, op.K, ch, srcID, seq, guards, th, ts, tsec, nowNs, cv)
				}
				want := sw.next[key]
				if seq != want {
					vx.Violatef(t, rec, id, "wrong-sequence", "step %d: %s send on chain %d id %s returned sequence %d, model expects %d (v1 and alias sends share one counter starting at 1)", i, op.K, ch, srcID, seq, want)
				}
				sw.next[key] = want + 1
				var commitKey string
				if v1 {
					commitKey = string(host.PacketCommitmentKey(l.Port(dir), srcID, seq))
					sw.v1OK[key]++
				} else {
					commitKey = string(hostv2.PacketCommitmentKey(srcID, seq))
					if l.Kind == sim.V2Alias {
						sw.alOK[key]++
					}
				}
				diff := rawDiff(before, after, "ibc")
				sort.Strings(diff)
				wantDiff := []string{nsKey, commitKey}
				sort.Strings(wantDiff)
				if len(diff) != 2 || diff[0] != wantDiff[0] || diff[1] != wantDiff[1] {
					vx.Violatef(t, rec, id, "send-write-set", "step %d: %s send on chain %d id %s seq %d changed IBC store keys %q, expected exactly %q", i, op.K, ch, srcID, seq, diff, wantDiff)
				}
				if _, existed := before["ibc"][commitKey]; existed {
					vx.Violatef(t, rec, id, "commitment-overwritten", "step %d: commitment key for seq %d existed before the send", i, seq)
				}
				if got, ok := be64(after["ibc"][nsKey]); !ok || got != want+1 {
					vx.Violatef(t, rec, id, "next-sequence-not-incremented", "step %d: stored nextSequenceSend for %s is %d after sending seq %d", i, srcID, got, seq)
				}
				// nothing else for mock applications; the ICS-20 application may write its own store and move coins
				for _, d := range sim.Diff(before, after) {
					if len(d) >= 4 && d[:4] == "ibc:" {
						continue
					}
					isTransfer := op.K == "x1" || op.K == "xt"
					if isTransfer && (hasPrefix(d, "transfer:") || hasPrefix(d, "bank:")) {
						continue
					}
					vx.Violatef(t, rec, id, "send-extra-write", "step %d: %s send changed %s outside the IBC store", i, op.K, d)
				}
			}
			// stored counter always equals the model counter
			if got, found := be64(after["ibc"][nsKey]); found && got != sw.next[key] {
				vx.Violatef(t, rec, id, "counter-mismatch", "step %d: stored nextSequenceSend of chain %d id %s is %d, model %d", i, ch, srcID, got, sw.next[key])
			}
			if !v1 && l.Kind == sim.V2Alias && ok && sw.notOp[key] {
				rec.Add("alias_send_accepted_on_non_open_channel", 1) // observation only: v2 sends do not consult the v1 channel state
			}
		}
		shared := false
		for k, n := range sw.v1OK {
			if n > 0 && sw.alOK[k] > 0 {
				shared = true
			}
		}
		if shared {
			rec.Class("v1-and-alias-on-one-channel")
		}
		if boundarySends > 0 {
			rec.Class("boundary-timeout")
		}
		if boundaryOK > 0 && boundaryRej > 0 {
			rec.Class("boundary-timeout-both-sides")
		}
		rec.NonTrivialIf(shared || (boundaryOK > 0 && boundaryRej > 0))
	}
}

func hasPrefix(s, p string) bool { return len(s) >= len(p) && s[:len(p)] == p }

func genC08(t *rapid.T) sdCase {
	c := sdCase{}
	n := rapid.IntRange(6, 28).Draw(t, "nops")
	for i := 0; i < n; i++ {
		var k string
		if r := rapid.IntRange(0, 99).Draw(t, "kindroll"); r < 78 {
			k = rapid.SampledFrom([]string{"m1", "ma", "x1", "xa", "xt", "v2", "m1", "ma", "x1"}).Draw(t, "send")
		} else if r < 92 {
			k = rapid.SampledFrom([]string{"update", "block", "time", "update"}).Draw(t, "benign")
		} else {
			k = rapid.SampledFrom([]string{"close", "freeze", "expire", "close", "zero", "expire"}).Draw(t, "env")
		}
		op := sdOp{K: k, D: rapid.IntRange(0, 1).Draw(t, "d"), Sig: rapid.IntRange(0, 2).Draw(t, "sig")}
		switch k {
		case "m1", "x1":
			op.HK = rapid.SampledFrom([]int{1, 1, 0, 2, 0}).Draw(t, "hk")
			op.HD = rapid.IntRange(-1, 1).Draw(t, "hd")
			op.HR = rapid.SampledFrom([]int{0, 0, 0, 0, 1, 2}).Draw(t, "hr")
			op.TK = rapid.SampledFrom([]int{0, 1, 1, 2}).Draw(t, "tk")
			op.TD = rapid.IntRange(-1, 1).Draw(t, "td")
		case "v2", "ma", "xa", "xt":
			op.VK = rapid.SampledFrom([]int{0, 1, 3, 0, 1, 2, 3}).Draw(t, "vk")
			op.VD = rapid.IntRange(-1, 1).Draw(t, "vd")
		case "update", "freeze", "zero", "expire", "close":
			op.L = rapid.IntRange(0, 2).Draw(t, "l")
			op.N = rapid.IntRange(0, 3).Draw(t, "n")
		case "block":
			op.N = rapid.IntRange(0, 1).Draw(t, "n")
		case "time":
			op.N = rapid.IntRange(0, 2999).Draw(t, "ms")
		}
		c.Ops = append(c.Ops, op)
	}
	return c
}

func TestC08(t *testing.T) {
	vx.Check(t, vx.Prop[sdCase]{
		ID:        "C08",
		Rule:      "two chains; interleavings of v1 mock sends (keeper call), v1 ICS-20 MsgTransfer txs, MsgSendPacket on a v2 client pair, MsgSendPacket / MsgTransfer{UseAliasing} addressed to the aliases of the mock and the transfer channel, in both directions, with timeouts at the guards' boundaries (v1: client latest height +-1 incl. other revisions, latest consensus time +-1 ns; v2: block time +-1 s, block time + 24 h +-1 s, latest consensus time +-1 s) and environment ops (channel close / non-OPEN state, client frozen / zero height, clock moved to trusting-period expiry +-1 ns, client updates, sub-second clock steps); non-trivial = a successful v1 send and a successful alias send on the same channel id, or boundary-timeout sends on both sides of a guard (one accepted and one rejected by a listed guard) in one history; distinct by full history",
		MinNTFrac: 0.6,
		Gen:       genC08,
		Run:       runC08(t),
	})
}
