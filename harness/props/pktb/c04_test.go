package pktb

import (
	"encoding/binary"
	"testing"
	"time"

	"pgregory.net/rapid"

	clienttypes "github.com/cosmos/ibc-go/v11/modules/core/02-client/types"
	channeltypesv2 "github.com/cosmos/ibc-go/v11/modules/core/04-channel/v2/types"

	"github.com/cosmos/ibc-go/v11/modules/apps/callbacks/verifx/pktsim"
	"github.com/cosmos/ibc-go/v11/modules/apps/callbacks/verifx/sim"
	"github.com/cosmos/ibc-go/v11/modules/apps/callbacks/verifx/vx"
)

// C04 (i): two chains, all four link kinds. Packets whose timeouts are drawn around the
// destination's current height / time, an adversarial relayer that picks proof heights among
// all stored consensus heights (or a fresh one), receives racing timeouts.
//
// Oracles (none of them uses a light client or channeltypes.Timeout):
//   - global: no packet has both a committed destination recv callback and a committed source
//     timeout callback;
//   - whenever a timeout transaction is accepted with proof height H: the destination's IBC
//     store at version H-1 (what a consensus state at H commits to) shows the packet as not
//     received, and H >= timeoutHeight (non-zero) or headerTime(H) >= timeoutTimestamp
//     (non-zero) where headerTime comes from the destination chain's own FinalizeBlock
//     requests (v2: floor(headerTime/1e9) >= timeoutSeconds);
//   - whenever a receive executes in destination block (R, time T): the timeout had not
//     elapsed at (R, T).

type toOp struct {
	K   string `json:"k"`             // send recv erecv v2edge timeout chase update block time
	L   int    `json:"l,omitempty"`   // link
	D   int    `json:"d,omitempty"`   // direction / side / chain
	P   int    `json:"p,omitempty"`   // packet
	Sig int    `json:"sig,omitempty"` // signer
	TH  int    `json:"th,omitempty"`  // send v1: 0 none, else timeout height = dest committed height + TH - 1
	TT  int    `json:"tt,omitempty"`  // send: 0 none (v1), else timeout = now + TT seconds
	TN  int    `json:"tn,omitempty"`  // send v1: nanosecond adjustment
	HM  int    `json:"hm,omitempty"`  // relay: 0 fresh, 1 stored[H], 2 timeout: stored[first elapsed + HD] / recv: H-th stored height that commits to the send
	H   int    `json:"h,omitempty"`
	HD  int    `json:"hd,omitempty"`
	N   int    `json:"n,omitempty"`
}

type toCase struct {
	Links []int  `json:"links"`
	Ops   []toOp `json:"ops"`
}

type toWorld struct {
	w  *sim.World
	ck []*blockClock
}

func newTimeoutWorld(outer *testing.T, links []int) *toWorld {
	w, cks := newClockWorld(outer, 2)
	var base *sim.Link
	for _, k := range links {
		kind := sim.LinkKind(k)
		if kind == sim.V2Alias {
			if base == nil {
				base = w.AddLink(sim.V1Unordered, 0, 1, nil)
			}
			w.AddLink(kind, 0, 1, base)
			continue
		}
		l := w.AddLink(kind, 0, 1, nil)
		if kind == sim.V1Unordered && base == nil {
			base = l
		}
	}
	return &toWorld{w: w, ck: cks}
}

// elapsedAt is the independent model of "the destination at (height, header time) has
// reached the packet's timeout".
func elapsedAt(p *sim.Pkt, rev, height uint64, timeNs int64) bool {
	if p.V2 {
		return timeNs >= 0 && uint64(timeNs)/1_000_000_000 >= p.P2.TimeoutTimestamp
	}
	return reachedV1(p.P1, rev, height, timeNs)
}

// elapsedAtHeight evaluates elapsedAt for destination height h using the recorded header
// time; known=false when the destination never executed block h.
func (tw *toWorld) elapsedAtHeight(p *sim.Pkt, h uint64) (elapsed, known bool) {
	dc := tw.w.DstChain(p)
	t, ok := tw.ck[dc].At(h)
	if !ok {
		return false, false
	}
	return elapsedAt(p, clienttypes.ParseChainID(tw.w.Chains[dc].ChainID), h, t), true
}

// receivedAtVersion reports whether the destination's IBC store at `version` shows p as received.
func (tw *toWorld) receivedAtVersion(p *sim.Pkt, version int64) (received, known bool) {
	w := tw.w
	dc := w.DstChain(p)
	val, ok := ibcAt(w, dc, w.ReceiptKey(p), version)
	if !ok {
		return false, false
	}
	if !p.V2 && w.Links[p.Link].Kind == sim.V1Ordered {
		if len(val) != 8 {
			return false, false
		}
		return binary.BigEndian.Uint64(val) > p.P1.Sequence, true
	}
	return len(val) > 0, true
}

func (tw *toWorld) chooseTimeoutHeight(op toOp, p *sim.Pkt) (h uint64, class string) {
	w := tw.w
	l := w.Links[p.Link]
	side := p.Dir
	switch pick(3, op.HM) {
	case 0:
		return w.FreshHeight(l, side, op.Sig), "fresh"
	case 1:
		hs := w.StoredHeights(l, side)
		if len(hs) == 0 {
			return 2, "none"
		}
		return hs[pick(len(hs), op.H)], "stored"
	default:
		hs := w.StoredHeights(l, side)
		if len(hs) == 0 {
			return 2, "none"
		}
		i0 := len(hs) - 1
		for i, x := range hs {
			if e, ok := tw.elapsedAtHeight(p, x); ok && e {
				i0 = i
				break
			}
		}
		i := i0 + op.HD
		if i < 0 {
			i = 0
		}
		if i >= len(hs) {
			i = len(hs) - 1
		}
		return hs[i], "around-first-elapsed"
	}
}

func runC04(outer *testing.T) func(t rapid.TB, c toCase, rec *vx.Case) {
	return func(t rapid.TB, c toCase, rec *vx.Case) {
		const id = "C04"
		tw := newTimeoutWorld(outer, c.Links)
		w := tw.w
		if len(w.Links) == 0 {
			vx.Harnessf("no links")
		}
		boundary := 0
		triedRecv, triedTO := map[int]bool{}, map[int]bool{}
		// attempt submits one MsgTimeout for p with proof height h and judges it; returns accepted.
		attempt := func(i int, op toOp, p *sim.Pkt, h uint64, hclass string) bool {
			pl := w.Links[p.Link]
			sc, dc := w.SrcChain(p), w.DstChain(p)
			nsr := w.NextSeqRecv(p)
			if pl.Kind == sim.V1Ordered && h >= 2 {
				if val, ok := ibcAt(w, dc, w.ReceiptKey(p), int64(h)-1); ok && len(val) == 8 {
					nsr = binary.BigEndian.Uint64(val)
				}
			}
			msg := w.BuildTimeout(p, nsr, h, op.Sig)
			triedTO[p.Idx] = true
			e, eKnown := tw.elapsedAtHeight(p, h)
			ePrev, prevKnown := tw.elapsedAtHeight(p, h-1)
			eNext, nextKnown := tw.elapsedAtHeight(p, h+1)
			atBoundary := eKnown && ((prevKnown && ePrev != e) || (nextKnown && eNext != e))
			if eKnown && !e && !nextKnown {
				// the destination has not produced block h+1 yet: would it be elapsed one block interval later?
				bt, _ := tw.ck[dc].At(h)
				atBoundary = elapsedAt(p, clienttypes.ParseChainID(w.Chains[dc].ChainID), h+1, bt+int64(5*time.Second))
			}
			if atBoundary && w.HasCommitment(p) {
				boundary++
				if e {
					rec.Class("timeout-proof-first-elapsed-height")
				} else {
					rec.Class("timeout-proof-last-unelapsed-height")
				}
			}
			logStart := len(w.Log)
			w.Deliver(sc, op.Sig, msg)
			if !committedCallback(w, logStart, "timeout", pktsim.SrcKey(w, p)) {
				rec.Add("timeouts_rejected_or_noop", 1)
				if eKnown && e && w.HasCommitment(p) && len(pktsim.CommittedSteps(w, "recv")[pktsim.DstKey(w, p)]) == 0 {
					rec.Add("timeouts_rejected_though_elapsed_and_unreceived", 1) // converse: health only
				}
				return false
			}
			rec.Add("timeouts_accepted", 1)
			rec.Class("timeout-%s-%s", pl.Kind, hclass)
			if !eKnown {
				vx.Violatef(t, rec, id, "timeout-at-unbacked-height", "step %d: timeout of %s accepted with proof height %d, a height the destination chain %d never executed", i, p, h, dc)
				return true
			}
			if !e {
				bt, _ := tw.ck[dc].At(h)
				vx.Violatef(t, rec, id, "timeout-before-elapsed-"+pl.Kind.String(), "step %d: timeout of %s accepted with proof height %d whose real header time on chain %d is %d ns, but neither height nor time had reached the timeout (timeout height %s, timeout timestamp v1 %d ns / v2 %d s)",
					i, p, h, dc, bt, p.P1.TimeoutHeight, p.P1.TimeoutTimestamp, p.P2.TimeoutTimestamp)
			}
			if got, ok := tw.receivedAtVersion(p, int64(h)-1); ok {
				rec.Add("nonreceipt_checked", 1)
				if got {
					vx.Violatef(t, rec, id, "timeout-of-received-packet", "step %d: timeout of %s accepted with proof height %d although the destination store at version %d shows it received", i, p, h, h-1)
				}
			} else {
				rec.Add("nonreceipt_unknown", 1)
			}
			return true
		}
		for i, op := range c.Ops {
			w.StepNo = i
			l := w.Links[pick(len(w.Links), op.L)]
			switch op.K {
			case "block":
				w.Block(pick(2, op.D), 1+pick(2, op.N))
			case "time":
				w.AdvanceTime(time.Duration(1+pick(4000, op.N)) * time.Millisecond)
			case "update":
				side := pick(2, op.D)
				cch, client := w.VerifierClient(l, side)
				w.UpdateClient(cch, client, l.Chain[1-side], op.Sig)
			case "send":
				dir := pick(2, op.D)
				dc := l.Chain[1-dir]
				now := w.Coord.CurrentTime
				if l.IsV2() {
					tt := op.TT
					if tt == 0 {
						tt = 600
					}
					p, _ := w.SendV2(l, dir, op.Sig, uint64(now.Unix()+int64(tt)), sim.MockPayload("A", sim.Script{N: i, Out: "ok"}))
					if p != nil {
						rec.Add("sends_ok", 1)
					} else {
						rec.Add("sends_rejected", 1)
					}
					continue
				}
				th := clienttypes.ZeroHeight()
				if op.TH != 0 {
					th = clienttypes.NewHeight(clienttypes.ParseChainID(w.Chains[dc].ChainID), uint64(w.Height(dc)+int64(op.TH)-1))
				}
				var ts uint64
				if op.TT != 0 {
					ts = uint64(now.Add(time.Duration(op.TT)*time.Second).UnixNano() + int64(op.TN))
				}
				if op.TH == 0 && op.TT == 0 {
					ts = uint64(now.Add(10 * time.Minute).UnixNano())
				}
				if _, err := w.SendV1(l, dir, th, ts, sim.Script{N: i, Out: "ok"}.Bytes()); err == nil {
					rec.Add("sends_ok", 1)
				} else {
					rec.Add("sends_rejected", 1)
				}
			case "recv", "erecv":
				if len(w.Pkts) == 0 {
					continue
				}
				p := w.Pkts[pick(len(w.Pkts), op.P)]
				pl := w.Links[p.Link]
				side := 1 - p.Dir
				dc := pl.Chain[side]
				var h uint64
				if op.K == "erecv" {
					// edge receive: take a proof height now, then let the destination produce empty blocks
					// until the block that will carry the receive is the one just before / exactly at /
					// just after the timeout boundary (HD = -1 / 0 / +1), and receive with the stale proof.
					h = pktsim.ChooseHeight(w, pl, side, -1, op.Sig)
					for k := 0; k < 16; k++ {
						nextH := uint64(w.Chains[dc].ProposedHeader.Height)
						nextT := w.Coord.CurrentTime.UnixNano()
						wait := false
						if p.V2 {
							wait = nextT < int64(p.P2.TimeoutTimestamp)*1_000_000_000+int64(op.HD)*int64(5*time.Second)
						} else {
							if th := p.P1.TimeoutHeight; !th.IsZero() && int64(nextH) < int64(th.RevisionHeight)+int64(op.HD) {
								wait = true
							}
							if ts := p.P1.TimeoutTimestamp; ts != 0 && p.P1.TimeoutHeight.IsZero() && nextT < int64(ts)+int64(op.HD)*int64(5*time.Second) {
								wait = true
							}
						}
						if !wait {
							break
						}
						w.Block(dc, 1)
					}
				}
				hm := pick(3, op.HM)
				if op.K == "erecv" {
					hm = -1
				}
				switch hm {
				case -1:
				case 0:
					h = pktsim.ChooseHeight(w, pl, side, -1, op.Sig)
				case 1:
					h = pktsim.ChooseHeight(w, pl, side, op.H, op.Sig)
				default:
					// a stored height that already commits to the send (stale but valid proofs)
					var valid []uint64
					for _, x := range w.StoredHeights(pl, side) {
						if int64(x) > p.SrcHeight {
							valid = append(valid, x)
						}
					}
					if len(valid) == 0 {
						h = pktsim.ChooseHeight(w, pl, side, -1, op.Sig)
					} else {
						h = valid[pick(len(valid), op.H)]
					}
				}
				msg := w.BuildRecv(p, h, op.Sig)
				triedRecv[p.Idx] = true
				logStart := len(w.Log)
				res := w.Deliver(dc, op.Sig, msg)
				R := uint64(res.Height)
				// first elapsed block or the one just before it (exact, from the recorded header times)
				eR, okR := tw.elapsedAtHeight(p, R)
				ePrev, okPrev := tw.elapsedAtHeight(p, R-1)
				lastOpen := false
				if okR && !eR {
					bt, _ := tw.ck[dc].At(R)
					lastOpen = elapsedAt(p, clienttypes.ParseChainID(w.Chains[dc].ChainID), R+1, bt+int64(5*time.Second))
				}
				if okR && ((okPrev && eR && !ePrev) || lastOpen) && w.HasCommitment(p) {
					boundary++
					if eR {
						rec.Class("recv-attempt-in-first-elapsed-block")
					} else {
						rec.Class("recv-attempt-in-last-open-block")
					}
				}
				if !committedCallback(w, logStart, "recv", pktsim.DstKey(w, p)) {
					rec.Add("recvs_rejected_or_noop", 1)
					break
				}
				rec.Add("recvs_accepted", 1)
				rec.Class("%s-%s", op.K, pl.Kind)
				e, ok := tw.elapsedAtHeight(p, R)
				if !ok {
					vx.Harnessf("no recorded header time for block %d of chain %d", R, dc)
				}
				if e {
					bt, _ := tw.ck[dc].At(R)
					vx.Violatef(t, rec, id, "recv-after-timeout-"+pl.Kind.String(), "step %d: %s executed on chain %d in block %d (header time %d ns) although its timeout had elapsed there (timeout height %s, timeout timestamp v1 %d ns / v2 %d s)",
						i, p, dc, R, bt, p.P1.TimeoutHeight, p.P1.TimeoutTimestamp, p.P2.TimeoutTimestamp)
				}
				if nearTimeout(tw, p, R) {
					rec.Class("recv-accepted-near-boundary")
				}
			case "v2edge":
				// nanosecond edge for v2 / v2-alias packets (timeouts are whole seconds, consensus times are
				// nanoseconds): place a destination block at header time timeoutSeconds*1e9 -/+ d ns, either
				// carrying the receive itself (stale valid proof) or empty, update the source's client to exactly
				// that header and submit the timeout proven at that height (whose state is the one before that block).
				var live []*sim.Pkt
				for _, q := range w.Pkts {
					if q.V2 && w.HasCommitment(q) && len(pktsim.CommittedSteps(w, "recv")[pktsim.DstKey(w, q)]) == 0 {
						live = append(live, q)
					}
				}
				var p *sim.Pkt
				if len(live) > 0 {
					p = live[len(live)-1-pick(len(live), op.P)]
				}
				if p == nil || int64(p.P2.TimeoutTimestamp)*1_000_000_000-w.Coord.CurrentTime.UnixNano() < int64(12*time.Second) {
					// nothing usable in flight: send a fresh v2 packet 30 s ahead on a v2 / alias link
					var v2links []*sim.Link
					for _, x := range w.Links {
						if x.IsV2() {
							v2links = append(v2links, x)
						}
					}
					if len(v2links) == 0 {
						continue
					}
					np, _ := w.SendV2(v2links[pick(len(v2links), op.L)], pick(2, op.D), op.Sig, uint64(w.Coord.CurrentTime.Unix()+30), sim.MockPayload("A", sim.Script{N: i, Out: "ok"}))
					if np == nil {
						rec.Add("v2edge_send_failed", 1)
						continue
					}
					rec.Add("sends_ok", 1)
					p = np
				}
				pl := w.Links[p.Link]
				sc, dc := w.SrcChain(p), w.DstChain(p)
				d := []int64{1, 2, 50, 100, 119, 120, 500, 1_000_000}[pick(8, op.N)]
				if op.HD <= 0 {
					d = -d
				}
				tgt := int64(p.P2.TimeoutTimestamp)*1_000_000_000 + d
				withRecv := pick(2, op.HM) == 0
				var rh uint64
				if withRecv {
					for _, x := range w.StoredHeights(pl, 1-p.Dir) {
						if int64(x) > p.SrcHeight {
							rh = x
						}
					}
					if rh == 0 && tgt-w.Coord.CurrentTime.UnixNano() > int64(11*time.Second) {
						rh = w.FreshHeight(pl, 1-p.Dir, op.Sig)
					}
					if rh == 0 {
						withRecv = false
					}
				}
				if gap := tgt - w.Coord.CurrentTime.UnixNano(); gap <= 0 {
					rec.Add("v2edge_too_late", 1)
					continue
				} else {
					w.AdvanceTime(time.Duration(gap))
				}
				var hx uint64
				if withRecv {
					triedRecv[p.Idx] = true
					logStart := len(w.Log)
					res := w.Deliver(dc, op.Sig, w.BuildRecv(p, rh, op.Sig))
					hx = uint64(res.Height)
					if committedCallback(w, logStart, "recv", pktsim.DstKey(w, p)) {
						rec.Add("recvs_accepted", 1)
						rec.Class("v2edge-recv-accepted%+d", sign(d))
						if e, ok := tw.elapsedAtHeight(p, hx); ok && e {
							bt, _ := tw.ck[dc].At(hx)
							vx.Violatef(t, rec, id, "recv-after-timeout-"+pl.Kind.String(), "step %d: %s executed on chain %d in block %d (header time %d ns) although its timeout (%d s) had elapsed there", i, p, dc, hx, bt, p.P2.TimeoutTimestamp)
						}
					} else {
						rec.Add("recvs_rejected_or_noop", 1)
					}
				} else {
					w.Block(dc, 1)
					hx = uint64(w.Height(dc))
				}
				if bt, ok := tw.ck[dc].At(hx); !ok || bt != tgt {
					vx.Harnessf("v2edge: block %d of chain %d has header time %d, wanted %d", hx, dc, bt, tgt)
				}
				w.UpdateClientNoCommit(sc, pl.Client(p.Dir), dc, op.Sig)
				boundary++
				rec.Class("v2edge-timeout-at-T%+dns", d)
				attempt(i, op, p, hx, "v2edge")
			case "timeout", "chase":
				if len(w.Pkts) == 0 {
					continue
				}
				p := w.Pkts[pick(len(w.Pkts), op.P)]
				if op.K == "timeout" {
					h, hclass := tw.chooseTimeoutHeight(op, p)
					attempt(i, op, p, h, hclass)
					break
				}
				// chase: an honest-looking relayer polls the destination block by block (fresh client
				// update, then MsgTimeout) until the timeout is accepted: walks the proof height across
				// the elapsed boundary one destination block at a time.
				for k := 0; k < 1+pick(6, op.N); k++ {
					h := w.FreshHeight(w.Links[p.Link], p.Dir, op.Sig)
					if attempt(i, op, p, h, "chase") || !w.HasCommitment(p) {
						break
					}
				}
			}
			// global invariant after every step
			recvd := pktsim.CommittedSteps(w, "recv")
			tos := pktsim.CommittedSteps(w, "timeout")
			for _, p := range w.Pkts {
				if len(recvd[pktsim.DstKey(w, p)]) > 0 && len(tos[pktsim.SrcKey(w, p)]) > 0 {
					vx.Violatef(t, rec, id, "recv-and-timeout", "%s was both received (steps %v) and timed out (steps %v)", p, recvd[pktsim.DstKey(w, p)], tos[pktsim.SrcKey(w, p)])
				}
			}
		}
		race := 0
		for idx := range triedTO {
			if triedRecv[idx] {
				race++
			}
		}
		if race > 0 {
			rec.Class("race")
		}
		rec.Add("packets", int64(len(w.Pkts)))
		rec.Add("races", int64(race))
		rec.NonTrivialIf(boundary > 0 || race > 0)
	}
}

// committedCallback reports whether a committed application callback of the given kind for
// key k was logged since logStart.
func committedCallback(w *sim.World, logStart int, kind string, k pktsim.EvKey) bool {
	for _, e := range w.Log[logStart:] {
		if e.Kind == kind && !e.Reverted && e.Chain == k.Chain && e.ID == k.ID && e.Seq == k.Seq {
			return true
		}
	}
	return false
}

// nearTimeout: destination block R is within one block of the packet's timeout height or
// within one block interval (5 s) of its timeout time.
func nearTimeout(tw *toWorld, p *sim.Pkt, R uint64) bool {
	dc := tw.w.DstChain(p)
	bt, ok := tw.ck[dc].At(R)
	if !ok {
		return false
	}
	if p.V2 {
		return absDiff(uint64(bt)/1_000_000_000, p.P2.TimeoutTimestamp) <= 5
	}
	th := p.P1.TimeoutHeight
	if !th.IsZero() && R+1 >= th.RevisionHeight && R <= th.RevisionHeight+1 {
		return true
	}
	return p.P1.TimeoutTimestamp != 0 && absDiff(uint64(bt), p.P1.TimeoutTimestamp) <= uint64(5*time.Second)
}

func genC04(t *rapid.T) toCase {
	c := toCase{}
	switch rapid.IntRange(0, 3).Draw(t, "world") {
	case 0:
		c.Links = []int{int(sim.V1Unordered), int(sim.V2Alias)}
	case 1:
		c.Links = []int{int(sim.V1Ordered), int(sim.V2Clients)}
	default:
		c.Links = []int{int(sim.V1Unordered), int(sim.V1Ordered), int(sim.V2Clients), int(sim.V2Alias)}
	}
	n := rapid.IntRange(5, 30).Draw(t, "nops")
	sends := 0
	for i := 0; i < n; i++ {
		k := rapid.SampledFrom([]string{"recv", "recv", "erecv", "erecv", "v2edge", "v2edge", "chase", "chase", "timeout", "timeout", "timeout", "send", "send", "send", "send", "update", "block", "block", "time", "update"}).Draw(t, "kind")
		if sends == 0 {
			k = "send"
		}
		op := toOp{K: k, Sig: rapid.IntRange(0, 2).Draw(t, "sig")}
		switch k {
		case "send":
			sends++
			op.L = rapid.IntRange(0, len(c.Links)-1).Draw(t, "link")
			op.D = rapid.IntRange(0, 1).Draw(t, "dir")
			kind := sim.LinkKind(c.Links[op.L])
			if kind == sim.V2Clients || kind == sim.V2Alias {
				if rapid.IntRange(0, 5).Draw(t, "v2far") == 0 {
					op.TT = 600
				} else {
					op.TT = rapid.IntRange(1, 60).Draw(t, "tt")
				}
				break
			}
			switch rapid.IntRange(0, 10).Draw(t, "tokind") {
			case 0, 1, 2, 3, 4: // height only: dest height + {0..8}
				op.TH = 1 + rapid.IntRange(0, 8).Draw(t, "th")
			case 5, 6: // timestamp only, on the 5 s block grid +-1 ns
				op.TT = 5 * rapid.IntRange(1, 12).Draw(t, "tt5")
				op.TN = rapid.IntRange(-1, 1).Draw(t, "tn")
			case 7: // timestamp only, off grid
				op.TT = rapid.IntRange(1, 60).Draw(t, "tt")
			case 8: // both
				op.TH = 1 + rapid.IntRange(0, 8).Draw(t, "th")
				op.TT = rapid.IntRange(1, 60).Draw(t, "tt")
			default: // far
			}
		case "recv", "erecv", "timeout", "chase":
			if rapid.IntRange(0, 3).Draw(t, "recent") > 0 {
				op.P = sends - 1 - rapid.IntRange(0, 1).Draw(t, "back")
			} else {
				op.P = rapid.IntRange(0, sends).Draw(t, "pkt")
			}
			op.HM = rapid.SampledFrom([]int{0, 0, 1, 2, 2}).Draw(t, "hmode")
			op.H = rapid.IntRange(0, 30).Draw(t, "hidx")
			op.HD = rapid.IntRange(-1, 1).Draw(t, "hdelta")
			if k == "chase" {
				op.N = rapid.IntRange(0, 5).Draw(t, "attempts")
			}
		case "v2edge":
			op.P = rapid.IntRange(0, 2).Draw(t, "livepkt")
			op.L = rapid.IntRange(0, 3).Draw(t, "v2link")
			op.D = rapid.IntRange(0, 1).Draw(t, "dir")
			op.N = rapid.IntRange(0, 7).Draw(t, "dns")
			op.HD = rapid.SampledFrom([]int{-1, -1, 1}).Draw(t, "sign")
			op.HM = rapid.IntRange(0, 1).Draw(t, "withrecv")
		case "update":
			op.L = rapid.IntRange(0, len(c.Links)-1).Draw(t, "link")
			op.D = rapid.IntRange(0, 1).Draw(t, "side")
		case "block":
			op.D = rapid.IntRange(0, 1).Draw(t, "chain")
			op.N = rapid.IntRange(0, 1).Draw(t, "n")
		case "time":
			op.N = rapid.IntRange(0, 3999).Draw(t, "ms")
		}
		c.Ops = append(c.Ops, op)
	}
	return c
}

func TestC04(t *testing.T) {
	vx.Check(t, vx.Prop[toCase]{
		ID:        "C04",
		Rule:      "two chains with v1-unordered, v1-ordered, v2 and v2-alias links; histories of send (timeout height = dest height + {0..8}, timeout time = now + k*5 s +-1 ns or + 1..60 s, v2 in whole seconds 1..60 s ahead), recv and timeout with proof heights {fresh, any stored consensus height, the stored heights around the first elapsed one}, chase = poll with fresh heights block by block until accepted, v2edge = for v2 / v2-alias packets a destination block (carrying the receive or empty) at header time timeoutSeconds*1e9 -/+ {1,2,50,100,119,120,500,1e6} ns, source client updated to exactly that header, timeout proven at that height, erecv = receive with a stale valid proof in the destination block just before / at / after the timeout boundary, client updates, blocks, sub-second clock steps; non-trivial = a timeout whose proof height is the first elapsed / last unelapsed destination height, a receive attempted in the first elapsed / last open destination block, or a recv/timeout race on one packet; distinct by full history",
		MinNTFrac: 0.5,
		Gen:       genC04,
		Run:       runC04(t),
	})
}

var _ = channeltypesv2.MaxTimeoutDelta

func sign(d int64) int {
	if d < 0 {
		return -1
	}
	return 1
}
