package pkta

import (
	"pgregory.net/rapid"

	channeltypes "github.com/cosmos/ibc-go/v11/modules/core/04-channel/types"

	"github.com/cosmos/ibc-go/v11/modules/apps/callbacks/verifx/pktsim"
	"github.com/cosmos/ibc-go/v11/modules/apps/callbacks/verifx/sim"
)

// Shared helpers of the pkta group (C02, C03, C14): a thin wrapper around pktsim.Exec that adds
// one op kind, and classification helpers over executed steps.
//
// Packet selectors: pktsim resolves Op.P modulo the packet population, and negative values
// count from the end (-1 = the most recently sent packet), which keeps generated histories
// meaningful when an earlier send was rejected.

// execX runs one op. In addition to the pktsim kinds it understands
//
//	dupterm  re-submit verbatim the (N+1)-th most recent acknowledgement / timeout /
//	         timeout-on-close message of the history (stale proof and all)
//	recvnext relay the receive of the packet sent on (link L, direction D) whose sequence is
//	         N ahead of the next one the destination application expects (N=0: in order,
//	         N>=1: skip ahead by N); falls back to packet selector P when there is none
//	acknext  same for acknowledgements and the sender's acknowledgement order
func execX(w *sim.World, no int, op pktsim.Op) pktsim.Step {
	switch op.K {
	case "dupterm":
	case "recvnext", "acknext":
		kind := "recv"
		if op.K == "acknext" {
			kind = "ack"
		}
		if len(w.Links) > 0 {
			l := w.Links[pktsim.Pick(len(w.Links), op.L)]
			dir := pktsim.Pick(2, op.D)
			for _, p := range w.Pkts {
				if p.Link != l.Idx || p.Dir != dir || p.V2 {
					continue
				}
				end := dstEnd(w, p)
				if kind == "ack" {
					end = srcEnd(w, p)
				}
				done := 0
				for _, e := range w.Log {
					if !e.Reverted && e.Kind == kind && !e.V2 && e.Chain == end.Chain && e.ID == end.ID {
						done++
					}
				}
				if p.Seq() == uint64(done+1+op.N) {
					op.P = p.Idx
					break
				}
			}
		}
		op.K = kind
		return pktsim.Exec(w, no, op)
	default:
		return pktsim.Exec(w, no, op)
	}
	w.StepNo = no
	st := pktsim.Step{Op: op, Chain: -1, LogStart: len(w.Log)}
	var terms []sim.SentMsg
	for _, m := range w.Msgs {
		if len(m.Msgs) != 1 {
			continue
		}
		switch pktsim.MsgKind(m.Msgs[0]) {
		case "ack", "timeout", "toc":
			terms = append(terms, m)
		}
	}
	if len(terms) == 0 {
		return st
	}
	m := terms[len(terms)-1-pktsim.Pick(len(terms), op.N)]
	st.Chain = m.Chain
	st.Pkt = pktsim.PktOfMsg(w, m.Msgs[0])
	st.Before = w.Snapshot(st.Chain)
	st.Res = w.Deliver(m.Chain, m.Signer, m.Msgs...)
	st.HadTx = true
	st.After = w.Snapshot(st.Chain)
	return st
}

// relayKind classifies an executed step as a relay of kind recv / ack / timeout / toc for
// packet st.Pkt ("" when the step carried no relay message for a known packet).
func relayKind(w *sim.World, st pktsim.Step) string {
	if !st.HadTx || st.Pkt == nil {
		return ""
	}
	switch st.Op.K {
	case "recv", "ack", "timeout", "toc":
		return st.Op.K
	case "replay", "dupterm":
		if len(w.Msgs) == 0 {
			return ""
		}
		return pktsim.MsgKind(w.Msgs[len(w.Msgs)-1].Msgs[0])
	}
	return ""
}

// committedIn returns the committed (non-reverted) callback log entries of the given kinds
// that were appended while the step ran.
func committedIn(w *sim.World, st pktsim.Step, kinds ...string) []sim.Event {
	var out []sim.Event
	for _, e := range w.Log[st.LogStart:] {
		if e.Reverted {
			continue
		}
		for _, k := range kinds {
			if e.Kind == k {
				out = append(out, e)
			}
		}
	}
	return out
}

// stateDiff is sim.Diff minus the one key that changes by block time alone: the rate-limiting
// module's BeginBlocker rewrites "hour-epoch" in the first block after every full hour of
// chain time, whatever transaction that block carries (DESIGN 2.3: time-driven begin-block
// bookkeeping is outside "state unchanged"). No rate limits exist in these worlds.
func stateDiff(a, b sim.Snap) []string {
	var out []string
	for _, d := range sim.Diff(a, b) {
		if d == "ratelimit:hour-epoch" {
			continue
		}
		out = append(out, d)
	}
	return out
}

// endKey identifies one channel end.
type endKey struct {
	Chain int
	ID    string
}

func srcEnd(w *sim.World, p *sim.Pkt) endKey {
	k := pktsim.SrcKey(w, p)
	return endKey{k.Chain, k.ID}
}

func dstEnd(w *sim.World, p *sim.Pkt) endKey {
	k := pktsim.DstKey(w, p)
	return endKey{k.Chain, k.ID}
}

// channelState reads the state of a v1 channel end through the channel keeper.
func channelState(w *sim.World, l *sim.Link, side int) (channeltypes.State, bool) {
	c := l.Chain[side]
	ch, ok := w.App(c).IBCKeeper.ChannelKeeper.GetChannel(w.Ctx(c), l.Port(side), l.ID(side))
	return ch.State, ok
}

// ---- generator helpers -----------------------------------------------------------------

func genScript(t *rapid.T, n int, outs []string) sim.Script {
	return sim.Script{N: n, Out: rapid.SampledFrom(outs).Draw(t, "out")}
}

// genSel draws a proof-height selector: mostly "fresh" (client updated first, proof sees
// everything committed), sometimes a stored (possibly stale) consensus height.
func genSel(t *rapid.T, freshPct int) int {
	if rapid.IntRange(0, 99).Draw(t, "hfresh") < freshPct {
		return -1
	}
	return rapid.IntRange(0, 30).Draw(t, "hidx")
}
