#!/usr/bin/env python3
"""print the markdown table of seeded changes for DESIGN.md §9.5"""
import json, glob, os
print("| seed (aimed at) | change (one line) | needs to manifest | result of our checks |")
print("|---|---|---|---|")
for d in sorted(glob.glob('/verif/seeded/*/')):
    n = os.path.basename(d.rstrip('/'))
    try:
        m = json.load(open(d + 'meta.json'))
    except Exception:
        continue
    res = {}
    first_miss = {}
    for c in m.get('confirmed', []):
        for k, v in c['checks'].items():
            if v['detected']:
                res[k] = 'caught'
            else:
                res.setdefault(k, 'missed')
                first_miss[k] = True
    out = []
    for k in sorted(res):
        if res[k] == 'caught' and first_miss.get(k):
            out.append("%s caught after strengthening (first run missed)" % k)
        else:
            out.append("%s %s" % (k, res[k]))
    cell = lambda s: str(s).replace('|', '/').replace('\n', ' ')[:260]
    print("| %s | %s | %s | %s |" % (n, cell(m.get('summary', '')), cell(m.get('needs', '')), '; '.join(out) or 'not yet run'))
