package purea

import (
	"fmt"
	"sort"
	"strings"
	"testing"

	"pgregory.net/rapid"

	portkeeper "github.com/cosmos/ibc-go/v11/modules/core/05-port/keeper"
	porttypes "github.com/cosmos/ibc-go/v11/modules/core/05-port/types"
	"github.com/cosmos/ibc-go/v11/modules/core/api"

	"github.com/cosmos/ibc-go/v11/modules/apps/callbacks/verifx/vx"
)

// C48: every port identifier resolves to at most one application module, independent of
// registration order and of map iteration; the v2 router refuses every registration that
// would make a route or prefix ambiguous.
//
// Model (semantic, from the statement): a direct route r matches exactly the port r; a
// prefix route p matches every port that starts with p. Two registrations are ambiguous
// iff some port is matched by both:  route/route: equal names; route/prefix: the route
// starts with the prefix; prefix/prefix: one is a prefix of the other.
// v1: exact key, else the first key in sorted order contained in the port.

type c48Reg struct {
	Name   string
	Prefix bool
}

type c48Case struct {
	Regs  []c48Reg
	Perms [][]int // extra registration orders (permutations of indices of Regs)
	Ports []string
}

// modules that only carry an identity
type c48ModV2 struct {
	api.IBCModule
	id int
}

type c48ModV1 struct {
	porttypes.IBCModule
	name string
}

func c48Alnum(s string) bool {
	if s == "" {
		return false
	}
	for i := 0; i < len(s); i++ {
		c := s[i]
		if !(c >= 'a' && c <= 'z' || c >= 'A' && c <= 'Z' || c >= '0' && c <= '9') {
			return false
		}
	}
	return true
}

func c48Ambiguous(a, b c48Reg) bool {
	switch {
	case !a.Prefix && !b.Prefix:
		return a.Name == b.Name
	case a.Prefix && b.Prefix:
		return strings.HasPrefix(a.Name, b.Name) || strings.HasPrefix(b.Name, a.Name)
	case a.Prefix:
		return strings.HasPrefix(b.Name, a.Name)
	default:
		return strings.HasPrefix(a.Name, b.Name)
	}
}

func c48Matches(r c48Reg, port string) bool {
	if r.Prefix {
		return strings.HasPrefix(port, r.Name)
	}
	return port == r.Name
}

func genC48(t *rapid.T) c48Case {
	var c c48Case
	name := rapid.Custom(func(t *rapid.T) string {
		if rapid.IntRange(0, 24).Draw(t, "odd") == 0 {
			return rapid.SampledFrom([]string{"", "a-b", "a/b", "a b", "ab_", "é", "a.b"}).Draw(t, "oddname")
		}
		return rapid.StringOfN(rapid.SampledFrom([]rune("ab1B")), 1, 4, -1).Draw(t, "name")
	})
	n := rapid.IntRange(1, 7).Draw(t, "nregs")
	for i := 0; i < n; i++ {
		c.Regs = append(c.Regs, c48Reg{Name: name.Draw(t, "regname"), Prefix: rapid.IntRange(0, 2).Draw(t, "isprefix") == 0})
	}
	idx := make([]int, n)
	for i := range idx {
		idx[i] = i
	}
	for k := 0; k < 2; k++ {
		c.Perms = append(c.Perms, rapid.Permutation(idx).Draw(t, "perm"))
	}
	np := rapid.IntRange(3, 8).Draw(t, "nports")
	for i := 0; i < np; i++ {
		var p string
		r := c.Regs[rapid.IntRange(0, n-1).Draw(t, "pick")]
		r2 := c.Regs[rapid.IntRange(0, n-1).Draw(t, "pick2")]
		sfx := rapid.StringOfN(rapid.SampledFrom([]rune("ab1B-")), 0, 3, -1).Draw(t, "sfx")
		switch rapid.IntRange(0, 6).Draw(t, "portkind") {
		case 0:
			p = r.Name
		case 1:
			p = r.Name + sfx
		case 2:
			p = sfx + r.Name
		case 3:
			p = r.Name + r2.Name
		case 4:
			p = sfx + r.Name + "-" + r2.Name
		case 5:
			if len(r.Name) > 1 {
				p = r.Name[:len(r.Name)-1]
			} else {
				p = sfx
			}
		default:
			p = rapid.StringOfN(rapid.SampledFrom([]rune("ab1B")), 0, 6, -1).Draw(t, "rnd")
		}
		c.Ports = append(c.Ports, p)
	}
	return c
}

const c48Repeats = 50

func runC48(t rapid.TB, c c48Case, rec *vx.Case) {
	const id = "C48"
	n := len(c.Regs)
	base := make([]int, n)
	rev := make([]int, n)
	for i := range base {
		base[i], rev[i] = i, n-1-i
	}
	orders := [][]int{base, rev}
	for _, p := range c.Perms {
		if len(p) != n {
			vx.Harnessf("permutation of wrong length")
		}
		seen := map[int]bool{}
		for _, i := range p {
			if i < 0 || i >= n || seen[i] {
				vx.Harnessf("not a permutation: %v", p)
			}
			seen[i] = true
		}
		orders = append(orders, p)
	}

	// is the whole set conflict-free per the model?
	conflictFree := true
	for i := range c.Regs {
		if !c48Alnum(c.Regs[i].Name) {
			conflictFree = false
		}
		for j := 0; j < i; j++ {
			if c48Ambiguous(c.Regs[i], c.Regs[j]) {
				conflictFree = false
			}
		}
	}

	// ---------------- v2 router
	refused, overRefused := 0, 0
	var tables []string
	hits := map[string]bool{}
	for oi, ord := range orders {
		r := api.NewRouter()
		var acc []int // indices accepted by the router, in order
		for _, i := range ord {
			reg := c.Regs[i]
			mustRefuse := !c48Alnum(reg.Name)
			why := "not alphanumeric"
			for _, j := range acc {
				if c48Ambiguous(reg, c.Regs[j]) {
					mustRefuse = true
					why = fmt.Sprintf("ambiguous with accepted %+v", c.Regs[j])
				}
			}
			panicked := c48Try(func() {
				if reg.Prefix {
					r.AddPrefixRoute(reg.Name, c48ModV2{id: i})
				} else {
					r.AddRoute(reg.Name, c48ModV2{id: i})
				}
			})
			if panicked {
				refused++
				if !mustRefuse {
					overRefused++
				}
				continue
			}
			if mustRefuse {
				kind := "route"
				if reg.Prefix {
					kind = "prefix"
				}
				vx.Violatef(t, rec, id, "v2-ambiguous-"+kind+"-accepted", "order %v: router accepted %+v although it is %s (accepted so far: %v)", ord, reg, why, c48Show(c.Regs, acc))
			}
			acc = append(acc, i)
		}
		// resolution of every probe port, repeated to expose map-iteration dependence
		var tab []string
		ports := append([]string{}, c.Ports...)
		for _, i := range acc {
			ports = append(ports, c.Regs[i].Name, c.Regs[i].Name+"x")
		}
		for _, port := range ports {
			var m []int
			for _, i := range acc {
				if c48Matches(c.Regs[i], port) {
					m = append(m, i)
				}
			}
			if len(m) > 1 {
				vx.Violatef(t, rec, id, "v2-port-matches-two", "order %v: port %q is matched by %v", ord, port, c48Show(c.Regs, m))
			}
			want := -1
			if len(m) == 1 {
				want = m[0]
				if c.Regs[want].Prefix {
					hits["prefix"] = true
				} else {
					hits["exact"] = true
				}
			} else {
				hits["none"] = true
			}
			for rep := 0; rep < c48Repeats; rep++ {
				got := -1
				has := r.HasRoute(port)
				panicked := c48Try(func() {
					mod := r.Route(port)
					mm, ok := mod.(c48ModV2)
					if !ok {
						got = -2
						return
					}
					got = mm.id
				})
				if panicked {
					got = -1
				}
				if has != (got != -1) {
					vx.Violatef(t, rec, id, "v2-hasroute-route-disagree", "port %q: HasRoute=%v but Route gave module %d", port, has, got)
				}
				if got != want {
					vx.Violatef(t, rec, id, "v2-resolution", "order %v call %d: Route(%q) = module %d (%s), model says %d (%s); accepted %v", ord, rep, port, got, c48Name(c.Regs, got), want, c48Name(c.Regs, want), c48Show(c.Regs, acc))
				}
			}
			if oi == 0 || conflictFree {
				tab = append(tab, fmt.Sprintf("%q->%d", port, want))
			}
		}
		if conflictFree {
			if len(acc) != n {
				// a conflict-free set must be registrable in any order, otherwise the outcome depends on the order
				vx.Violatef(t, rec, id, "v2-order-dependent-refusal", "conflict-free set %+v: order %v had %d of %d registrations refused", c.Regs, ord, n-len(acc), n)
			}
			// same ports list for every order because acc is the full set
			sort.Strings(tab)
			tables = append(tables, strings.Join(tab, ";"))
		}
	}
	for i := 1; i < len(tables); i++ {
		if tables[i] != tables[0] {
			vx.Violatef(t, rec, id, "v2-order-dependent", "conflict-free set %+v resolves differently under order %v: %s vs %s", c.Regs, orders[i], tables[i], tables[0])
		}
	}

	// ---------------- v1 port keeper
	var names []string
	seenName := map[string]bool{}
	for _, r := range c.Regs {
		if c48Alnum(r.Name) && !seenName[r.Name] {
			seenName[r.Name] = true
			names = append(names, r.Name)
		}
	}
	sorted := append([]string{}, names...)
	sort.Strings(sorted)
	v1Model := func(port string) (string, int) {
		cnt := 0
		first := ""
		for _, k := range sorted {
			if strings.Contains(port, k) {
				if cnt == 0 {
					first = k
				}
				cnt++
			}
		}
		if seenName[port] {
			return port, cnt
		}
		return first, cnt
	}
	multi := false
	v1orders := [][]int{}
	{
		m := len(names)
		a, b := make([]int, m), make([]int, m)
		for i := range a {
			a[i], b[i] = i, m-1-i
		}
		v1orders = append(v1orders, a, b)
		// derive one more order from the first generated permutation
		var d []int
		for _, i := range c.Perms[0] {
			if i < m {
				d = append(d, i)
			}
		}
		if len(d) == m {
			v1orders = append(v1orders, d)
		}
	}
	v1ports := append([]string{}, c.Ports...)
	for _, nm := range names {
		v1ports = append(v1ports, nm, "x"+nm+"-y")
	}
	for _, ord := range v1orders {
		rt := porttypes.NewRouter()
		for _, i := range ord {
			nm := names[i]
			if p, msg := vx.Recover(func() { rt.AddRoute(nm, c48ModV1{name: nm}) }); p {
				vx.Harnessf("v1 AddRoute(%q) of a fresh alphanumeric name panicked: %s", nm, msg)
			}
		}
		// duplicates and non-alphanumeric names are refused
		for _, r := range c.Regs {
			dup := c48Try(func() { rt.AddRoute(r.Name, c48ModV1{name: "DUP:" + r.Name}) })
			if !dup {
				vx.Violatef(t, rec, id, "v1-duplicate-or-invalid-accepted", "v1 router accepted a second/invalid registration of %q", r.Name)
			}
		}
		k := portkeeper.NewKeeper()
		k.Router = rt
		for _, port := range v1ports {
			want, cnt := v1Model(port)
			if cnt >= 2 {
				multi = true
			}
			for rep := 0; rep < c48Repeats; rep++ {
				mod, ok := k.Route(port)
				got := ""
				if ok {
					mm, isMod := mod.(c48ModV1)
					if !isMod {
						vx.Violatef(t, rec, id, "v1-foreign-module", "Route(%q) returned %T", port, mod)
					}
					got = mm.name
				}
				if ok != (want != "") || got != want {
					sig := "v1-resolution"
					if got != "" && want != "" && strings.Contains(port, got) && !seenName[port] {
						sig = "v1-not-first-sorted-match"
					}
					vx.Violatef(t, rec, id, sig, "order %v call %d: v1 Route(%q) = (%q,%v), model (exact, else first sorted key contained) says %q; keys %v", ord, rep, port, got, ok, want, sorted)
				}
			}
		}
	}

	// ---------------- evidence
	if conflictFree {
		rec.Class("v2:conflict-free-set")
	}
	if refused > 0 {
		rec.Class("v2:refusals")
	}
	for h := range map[string]bool{"prefix": true, "exact": true, "none": true} {
		if hits[h] {
			rec.Class("v2:port-%s", h)
		}
	}
	if multi {
		rec.Class("v1:port-contains-2+-keys")
	}
	rec.Add("v2_refused", int64(refused))
	rec.Add("v2_refused_without_model_conflict", int64(overRefused))
	rec.Add("v2_registrations", int64(len(orders)*n))
	rec.NonTrivialIf(refused > 0 || multi)
}

// c48Try runs f and reports whether it panicked (registration refusal / missing route).
// Harness errors are re-panicked.
func c48Try(f func()) (panicked bool) {
	defer func() {
		if r := recover(); r != nil {
			if he, ok := r.(vx.HarnessError); ok {
				panic(he)
			}
			panicked = true
		}
	}()
	f()
	return false
}

func c48Show(regs []c48Reg, idx []int) string {
	var s []string
	for _, i := range idx {
		s = append(s, c48Name(regs, i))
	}
	return "[" + strings.Join(s, " ") + "]"
}

func c48Name(regs []c48Reg, i int) string {
	if i < 0 || i >= len(regs) {
		return "none"
	}
	if regs[i].Prefix {
		return fmt.Sprintf("prefix:%q", regs[i].Name)
	}
	return fmt.Sprintf("route:%q", regs[i].Name)
}

func TestC48(t *testing.T) {
	vx.Check(t, vx.Prop[c48Case]{
		ID:        "C48",
		Rule:      "case = 1-7 route/prefix registrations over the alphabet {a,b,1,B} (len 1-4, a few non-alphanumeric), registered in 4 orders (given, reversed, 2 random permutations) on fresh v2 routers and v1 port routers; probe ports = exact names, name+suffix, suffix+name, concatenations, truncations, random; every resolution repeated 50x. non-trivial = at least one registration refused by the v2 router or a probe port containing >=2 v1 keys; distinct by full case encoding",
		MinNTFrac: 0.4,
		Gen:       genC48,
		Run:       runC48,
	})
}
