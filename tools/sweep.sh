#!/bin/bash
# run the quick tier of every registered check once; summary to $1 (default /tmp/sweep.log)
out=${1:-/tmp/sweep.log}; seed=${2:-1}
cd /verif; : > $out
for f in checks.d/*.json; do id=$(basename $f .json); s=$(date +%s); VERIF_SEED=$seed ./check $id --tier quick > /tmp/sweep_$id.out 2>&1; rc=$?; e=$(( $(date +%s) - s )); echo "$id rc=$rc ${e}s $(grep -E '^(OK|VIOLATION|INCONCLUSIVE|KNOWN-FINDING)' /tmp/sweep_$id.out | head -3 | cut -c1-200 | tr '\n' '|')" >> $out; done
echo SWEEPDONE >> $out
