package codec

import (
	sdk "github.com/cosmos/cosmos-sdk/types"

	cmtproto "github.com/cometbft/cometbft/proto/tendermint/types"

	ratelimittypes "github.com/cosmos/ibc-go/v11/modules/apps/rate-limiting/types"
	transfertypes "github.com/cosmos/ibc-go/v11/modules/apps/transfer/types"
	clienttypes "github.com/cosmos/ibc-go/v11/modules/core/02-client/types"
	solomachine "github.com/cosmos/ibc-go/v11/modules/light-clients/06-solomachine"
	ibctm "github.com/cosmos/ibc-go/v11/modules/light-clients/07-tendermint"
)

// Panics found on the snapshot tree and repaired by the fix: commits prepared under
// /verif/fixes (C47-*.diff). For each: the structural signature produced by panicSite and a
// deterministic minimal input (c47Demos) that is replayed on every run as a plain
// regression case. The generators do not avoid these shapes: on an unfixed tree they are
// found again both by these cases and by the random search.
const (
	sigTMMisbehaviour   = "panic:nil-deref@light-clients/07-tendermint.Misbehaviour.ValidateBasic"
	sigAddRateLimit     = "panic:nil-deref@apps/rate-limiting/types.(*MsgAddRateLimit).ValidateBasic"
	sigUpdateRateLimit  = "panic:nil-deref@apps/rate-limiting/types.(*MsgUpdateRateLimit).ValidateBasic"
	sigSoloClientUnpack = "panic:nil-deref@light-clients/06-solomachine.ClientState.UnpackInterfaces"
	sigSoloMisbehaviour = "panic:nil-deref@light-clients/06-solomachine.Misbehaviour.ValidateBasic"
	sigTransferAuthz    = "panic:nil-deref@apps/transfer/types.(*TransferAuthorization).ValidateBasic"
	sigCreateClient     = "panic:nil-deref@core/02-client/types.MsgCreateClient.ValidateBasic"
	sigParseChainID     = "panic:explicit@core/02-client/types.ParseChainID"
)

type c47Demo struct {
	Sig  string
	What string
	Run  func(out *findings)
}

var c47Demos = []c47Demo{
	{sigTMMisbehaviour, "07-tendermint Misbehaviour whose headers carry no signed_header", func(out *findings) {
		h := func() *ibctm.Header {
			return &ibctm.Header{TrustedHeight: clienttypes.NewHeight(0, 1), TrustedValidators: &cmtproto.ValidatorSet{}}
		}
		m := ibctm.Misbehaviour{ClientId: "07-tendermint-0", Header1: h(), Header2: h()}
		noPanic(out, "tendermint.Misbehaviour.ValidateBasic", func() string {
			return "Misbehaviour{Header1,Header2: {TrustedHeight 0-1, TrustedValidators {}, no SignedHeader}}"
		}, func() { _ = m.ValidateBasic() })
	}},
	{sigAddRateLimit, "MsgAddRateLimit without max_percent_send / max_percent_recv", func(out *findings) {
		m := &ratelimittypes.MsgAddRateLimit{Signer: goodAddr, Denom: "uatom", ChannelOrClientId: "channel-0"}
		noPanic(out, "ratelimit.MsgAddRateLimit.ValidateBasic", func() string { return `MsgAddRateLimit{signer, denom "uatom", channel-0, percent fields absent}` }, func() { _ = m.ValidateBasic() })
	}},
	{sigUpdateRateLimit, "MsgUpdateRateLimit without max_percent_send / max_percent_recv", func(out *findings) {
		m := &ratelimittypes.MsgUpdateRateLimit{Signer: goodAddr, Denom: "uatom", ChannelOrClientId: "channel-0"}
		noPanic(out, "ratelimit.MsgUpdateRateLimit.ValidateBasic", func() string { return `MsgUpdateRateLimit{signer, denom "uatom", channel-0, percent fields absent}` }, func() { _ = m.ValidateBasic() })
	}},
	{sigSoloClientUnpack, "decoding a 06-solomachine ClientState that has no consensus_state", func(out *findings) {
		noPanic(out, "solomachine.ClientState decode (UnpackInterfaces)", func() string { return "wire 0801 (sequence: 1)" }, func() {
			_ = getEnv().cdc.Unmarshal([]byte{0x08, 0x01}, &solomachine.ClientState{})
		})
	}},
	{sigSoloMisbehaviour, "06-solomachine Misbehaviour without signature_one / signature_two", func(out *findings) {
		noPanic(out, "solomachine.Misbehaviour.ValidateBasic", func() string { return "Misbehaviour{Sequence: 1}" }, func() { _ = solomachine.Misbehaviour{Sequence: 1}.ValidateBasic() })
	}},
	{sigTransferAuthz, "TransferAuthorization whose spend limit holds a coin without amount", func(out *findings) {
		a := &transfertypes.TransferAuthorization{Allocations: []transfertypes.Allocation{{SourcePort: "transfer", SourceChannel: "channel-0", SpendLimit: sdk.Coins{{Denom: "uatom"}}}}}
		noPanic(out, "transfer.TransferAuthorization.ValidateBasic", func() string { return `Allocation{transfer, channel-0, spend_limit [{denom "uatom", amount absent}]}` }, func() { _ = a.ValidateBasic() })
	}},
	{sigCreateClient, "MsgCreateClient without client_state", func(out *findings) {
		noPanic(out, "client.MsgCreateClient.ValidateBasic", func() string { return "MsgCreateClient{Signer: valid, ClientState: nil}" }, func() { _ = clienttypes.MsgCreateClient{Signer: goodAddr}.ValidateBasic() })
	}},
	{sigParseChainID, "chain id in revision format whose revision number exceeds uint64", func(out *findings) {
		noPanic(out, "clienttypes.ParseChainID", func() string { return `"a-18446744073709551616"` }, func() { clienttypes.ParseChainID("a-18446744073709551616") })
	}},
}
