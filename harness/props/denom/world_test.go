package denom

// Shared helpers of the denom group: transfer (ICS-20 v1) links on a sim.World, real MsgTransfer
// sends recovered as sim.Pkt records, honest relay of one packet (recv + ack with proofs), bank
// observation. Nothing in here draws randomness.

import (
	"crypto/sha256"
	"encoding/hex"
	"math/big"
	"regexp"
	"strconv"
	"strings"

	sdkmath "cosmossdk.io/math"

	sdk "github.com/cosmos/cosmos-sdk/types"
	minttypes "github.com/cosmos/cosmos-sdk/x/mint/types"

	transfertypes "github.com/cosmos/ibc-go/v11/modules/apps/transfer/types"
	clienttypes "github.com/cosmos/ibc-go/v11/modules/core/02-client/types"
	channeltypes "github.com/cosmos/ibc-go/v11/modules/core/04-channel/types"
	channeltypesv2 "github.com/cosmos/ibc-go/v11/modules/core/04-channel/v2/types"
	ibctesting "github.com/cosmos/ibc-go/v11/testing"

	"github.com/cosmos/ibc-go/v11/modules/apps/callbacks/verifx/sim"
	"github.com/cosmos/ibc-go/v11/modules/apps/callbacks/verifx/vx"
)

const (
	acctSender   = 0 // holder of the native denom on the origin
	acctHolder   = 1 // receiver of vouchers on the other chains
	acctRelayer  = 2 // signs client updates and relay messages
	acctReceiver = 3 // receiver of the returned tokens on the origin
	acctGrantee  = 4
)

// addTransferLink opens an ICS-20 v1 channel between chains a and b. skipA / skipB advance the
// chains' next channel sequence first, so that the two channel ends get different, case-chosen
// identifiers (ibctesting's process-global "unique id" counter is disabled: ids are a function of
// the case only).
func addTransferLink(w *sim.World, a, b int, skipA, skipB int) *sim.Link {
	var p *ibctesting.Path
	sim.Guard("transfer link setup", func() {
		p = ibctesting.NewTransferPath(w.Chains[a], w.Chains[b]).DisableUniqueChannelIDs()
		p.SetupConnections()
		for _, x := range [][2]int{{a, skipA}, {b, skipB}} {
			if x[1] > 0 {
				ck := w.App(x[0]).IBCKeeper.ChannelKeeper
				ctx := w.Ctx(x[0])
				ck.SetNextChannelSequence(ctx, ck.GetNextChannelSequence(ctx)+uint64(x[1]))
			}
		}
		p.CreateChannels()
	})
	l := &sim.Link{Idx: len(w.Links), Kind: sim.V1Unordered, Chain: [2]int{a, b}, Path: p}
	w.Links = append(w.Links, l)
	return l
}

// mintTo creates `coins` out of thin air on chain i for account k (committed by one block).
func mintTo(w *sim.World, i int, addr sdk.AccAddress, coins sdk.Coins) {
	ctx := w.Ctx(i)
	bk := w.App(i).BankKeeper
	if err := bk.MintCoins(ctx, minttypes.ModuleName, coins); err != nil {
		vx.Harnessf("MintCoins(%s): %v", coins, err)
	}
	if err := bk.SendCoinsFromModuleToAccount(ctx, minttypes.ModuleName, addr, coins); err != nil {
		vx.Harnessf("SendCoinsFromModuleToAccount(%s): %v", coins, err)
	}
	w.Block(i, 1)
}

// farTimeout is a timeout height on the destination chain that is never reached.
func farTimeout(w *sim.World, dst int) clienttypes.Height {
	return clienttypes.NewHeight(clienttypes.ParseChainID(w.Chains[dst].ChainID), 10_000_000)
}

// sendTransfer delivers a real MsgTransfer on side `dir` of link l. On success the packet is
// recovered from the events and registered in w.Pkts so that w.BuildRecv / w.BuildAck work.
func sendTransfer(w *sim.World, l *sim.Link, dir, signer int, coin sdk.Coin, receiver, memo string) (*sim.Pkt, sim.TxResult) {
	c := l.Chain[dir]
	msg := transfertypes.NewMsgTransfer(l.Port(dir), l.ID(dir), coin, w.Addr(c, signer).String(), receiver,
		farTimeout(w, l.Chain[1-dir]), 0, memo)
	return deliverTransfer(w, l, dir, signer, msg)
}

func deliverTransfer(w *sim.World, l *sim.Link, dir, signer int, msgs ...sdk.Msg) (*sim.Pkt, sim.TxResult) {
	c := l.Chain[dir]
	res := w.Deliver(c, signer, msgs...)
	if !res.OK {
		return nil, res
	}
	p1, err := ibctesting.ParseV1PacketFromEvents(res.Events)
	if err != nil {
		vx.Harnessf("successful MsgTransfer without send_packet event: %v", err)
	}
	p := &sim.Pkt{Idx: len(w.Pkts), Link: l.Idx, Dir: dir, SrcHeight: res.Height, P1: p1}
	w.Pkts = append(w.Pkts, p)
	return p, res
}

// relayResult is the outcome of relaying one packet honestly.
type relayResult struct {
	Recv    sim.TxResult
	Ack     sim.TxResult
	AckOK   bool // the destination wrote a success acknowledgement
	HaveAck bool
}

// relay delivers MsgRecvPacket on the destination (with a fresh commitment proof) and, if an
// acknowledgement was written, MsgAcknowledgement on the source.
func relay(w *sim.World, p *sim.Pkt) relayResult {
	l := w.Links[p.Link]
	var out relayResult
	h := w.FreshHeight(l, 1-p.Dir, acctRelayer)
	out.Recv = w.Deliver(w.DstChain(p), acctRelayer, w.BuildRecv(p, h, acctRelayer))
	if !out.Recv.OK {
		return out
	}
	w.NoteAck(p, out.Recv)
	if p.Ack1 == nil {
		return out
	}
	out.HaveAck = true
	var ack channeltypes.Acknowledgement
	if err := transfertypes.ModuleCdc.UnmarshalJSON(p.Ack1, &ack); err == nil {
		out.AckOK = ack.Success()
	}
	h2 := w.FreshHeight(l, p.Dir, acctRelayer)
	out.Ack = w.Deliver(w.SrcChain(p), acctRelayer, w.BuildAck(p, p.Ack1, channeltypesv2.Acknowledgement{}, h2, acctRelayer))
	return out
}

// balances returns all non-zero balances of addr on chain i as denom -> amount.
func balances(w *sim.World, i int, addr sdk.AccAddress) map[string]sdkmath.Int {
	m := map[string]sdkmath.Int{}
	for _, c := range w.App(i).BankKeeper.GetAllBalances(w.Ctx(i), addr) {
		m[c.Denom] = c.Amount
	}
	return m
}

// gained lists the denoms whose balance grew between two observations, sorted, with the increase.
func gained(before, after map[string]sdkmath.Int) (denoms []string, by map[string]sdkmath.Int) {
	by = map[string]sdkmath.Int{}
	for d, a := range after {
		b, ok := before[d]
		if !ok {
			b = sdkmath.ZeroInt()
		}
		if a.GT(b) {
			by[d] = a.Sub(b)
			denoms = append(denoms, d)
		}
	}
	sortStrings(denoms)
	return denoms, by
}

func sortStrings(s []string) {
	for i := 1; i < len(s); i++ {
		for j := i; j > 0 && s[j] < s[j-1]; j-- {
			s[j], s[j-1] = s[j-1], s[j]
		}
	}
}

// voucherName is the ICS-20 / ADR-001 name of a token with the given full path, written
// independently of transfertypes: "ibc/" + upper-hex(sha256(path)).
func voucherName(fullPath string) string {
	s := sha256.Sum256([]byte(fullPath))
	return "ibc/" + strings.ToUpper(hex.EncodeToString(s[:]))
}

// ---- the hop-like segment class -----------------------------------------------------

var (
	reChannelID = regexp.MustCompile(`^channel-[0-9]{1,20}$`)
	reClientID  = regexp.MustCompile(`^\w+([\w-]+\w)?-[0-9]{1,20}$`)
)

// hopLike is this harness's own statement of "a segment that ibc-go's trace parser takes for the
// channel part of a hop": the SDK channel identifier format `channel-{uint64}` or the client
// identifier format `{type}-{uint64}` (plus the localhost client id). It is cross-checked against
// channeltypes.IsValidChannelID / clienttypes.IsValidClientID in selfCheckHopLike.
func hopLike(seg string) bool {
	if seg == "09-localhost" {
		return true
	}
	if !reChannelID.MatchString(seg) && !reClientID.MatchString(seg) {
		return false
	}
	n := seg[strings.LastIndex(seg, "-")+1:]
	_, err := strconv.ParseUint(n, 10, 64)
	if err != nil {
		return false
	}
	return strings.TrimSpace(seg[:strings.LastIndex(seg, "-")]) != ""
}

func selfCheckHopLike(seg string) {
	lib := channeltypes.IsValidChannelID(seg) || clienttypes.IsValidClientID(seg)
	if lib != hopLike(seg) {
		vx.Harnessf("hopLike(%q)=%v disagrees with IsValidChannelID||IsValidClientID=%v", seg, hopLike(seg), lib)
	}
}

// hopLikeBase is the structural class of the recorded finding "hoplike-base-segment": the base
// denomination, split on '/', has at least two segments and the SECOND one (index 1) is hop-like.
// Why exactly index 1: transfertypes.ExtractDenomFromPath walks the '/'-separated full path in
// pairs from the front and stops at the first pair whose second element is not hop-like. Every
// real hop contributes exactly two segments, so the base denomination always starts at an even
// offset and its segment 1 is the first one examined after the genuine trace: if it is hop-like
// the pair (segment 0, segment 1) is taken for another hop and the base is cut short (or becomes
// empty); if it is not, parsing stops and the base is recovered whole, whatever the later segments
// look like.
func hopLikeBase(base string) bool {
	s := strings.Split(base, "/")
	return len(s) >= 2 && hopLike(s[1])
}

// sendKnownClass is the structural class of C42's recorded send-side finding: a NATIVE base
// denomination with at least three segments whose second segment is hop-like. When such a denom is
// sent, ICS-20 escrows the native denom (the msg server never parses a bank denom that does not
// start with "ibc/"), while ParseDenomFromSendPacket parses the packet denom with
// ExtractDenomFromPath, takes (segment 0, segment 1) for a hop and charges ibc/{hash}. Two-segment
// names are outside the class: the parser leaves a two-segment string alone.
func sendKnownClass(base string) bool {
	return hopLikeBase(base) && len(strings.Split(base, "/")) >= 3
}

// hasIdentifierLikeSegment: some segment (at any index) is hop-like.
func hasIdentifierLikeSegment(base string) bool {
	for _, s := range strings.Split(base, "/") {
		if hopLike(s) {
			return true
		}
	}
	return false
}

func mustInt(s string) sdkmath.Int {
	b, ok := new(big.Int).SetString(s, 10)
	if !ok {
		vx.Harnessf("bad integer %q in case", s)
	}
	return sdkmath.NewIntFromBigInt(b)
}

// frac returns ceil(x*n/4) (n in 1..4), at least 1 for positive x.
func frac(x sdkmath.Int, n int) sdkmath.Int {
	if n >= 4 {
		return x
	}
	if n < 1 {
		n = 1
	}
	r := x.MulRaw(int64(n)).AddRaw(3).QuoRaw(4)
	if r.IsZero() && x.IsPositive() {
		return sdkmath.OneInt()
	}
	return r
}
