package sim

import (
	"math/rand"

	simtestutil "github.com/cosmos/cosmos-sdk/testutil/sims"
	sdk "github.com/cosmos/cosmos-sdk/types"

	abci "github.com/cometbft/cometbft/abci/types"

	"github.com/cosmos/ibc-go/v11/modules/apps/callbacks/verifx/vx"
)

// CheckTx signs msgs with account k of chain i and offers the transaction to the
// mempool check (ante handlers incl. RedundantRelayDecorator run in check state). Nothing
// is committed. The tx memo is derived from a fixed seed so the bytes are reproducible.
func (w *World) CheckTx(i, k int, msgs ...sdk.Msg) *abci.ResponseCheckTx {
	c := w.Chains[i]
	acc := w.Acct(i, k)
	seq := acc.SenderAccount.GetSequence()
	if onchain := w.App(i).AccountKeeper.GetAccount(w.Ctx(i), acc.SenderAccount.GetAddress()); onchain != nil {
		seq = onchain.GetSequence()
	}
	var res *abci.ResponseCheckTx
	Guard("CheckTx", func() {
		tx, err := simtestutil.GenSignedMockTx(rand.New(rand.NewSource(1)), c.TxConfig, msgs,
			sdk.Coins{sdk.NewInt64Coin(sdk.DefaultBondDenom, 0)}, simtestutil.DefaultGenTxGas, c.ChainID,
			[]uint64{acc.SenderAccount.GetAccountNumber()}, []uint64{seq}, acc.SenderPrivKey)
		if err != nil {
			vx.Harnessf("GenSignedMockTx: %v", err)
		}
		bz, err := c.TxConfig.TxEncoder()(tx)
		if err != nil {
			vx.Harnessf("encode tx: %v", err)
		}
		res, err = c.App.CheckTx(&abci.RequestCheckTx{Tx: bz, Type: abci.CheckTxType_New})
		if err != nil {
			vx.Harnessf("CheckTx returned an ABCI error: %v", err)
		}
	})
	return res
}
