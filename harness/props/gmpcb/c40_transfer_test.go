package gmpcb

import (
	"encoding/json"
	"errors"
	"fmt"
	"strconv"
	"testing"
	"time"

	"github.com/cosmos/gogoproto/proto"
	"pgregory.net/rapid"

	sdkmath "cosmossdk.io/math"

	sdk "github.com/cosmos/cosmos-sdk/types"

	cbtypes "github.com/cosmos/ibc-go/v11/modules/apps/callbacks/types"
	transfertypes "github.com/cosmos/ibc-go/v11/modules/apps/transfer/types"
	clienttypes "github.com/cosmos/ibc-go/v11/modules/core/02-client/types"
	channeltypes "github.com/cosmos/ibc-go/v11/modules/core/04-channel/types"
	channeltypesv2 "github.com/cosmos/ibc-go/v11/modules/core/04-channel/v2/types"
	host "github.com/cosmos/ibc-go/v11/modules/core/24-host"
	hostv2 "github.com/cosmos/ibc-go/v11/modules/core/24-host/v2"
	ibcexported "github.com/cosmos/ibc-go/v11/modules/core/exported"
	ibctesting "github.com/cosmos/ibc-go/v11/testing"

	"github.com/cosmos/ibc-go/v11/modules/apps/callbacks/verifx/vx"
)

// C40 (b): ICS-20 transfers with callback memos through the callbacks middleware (v1 channel
// and IBC v2 client pair) on the callbacks test application, the contract keeper's callbacks
// replaced by scripted contracts.

const cbMaxGas = uint64(1_000_000) // maxCallbackGas of the callbacks test application

type c40iCase struct {
	V2      bool   `json:"v2,omitempty"`
	Path    string `json:"path"`               // ack | errack | timeout
	HasSrc  bool   `json:"has_src"`            // memo carries src_callback
	HasDst  bool   `json:"has_dst"`            // memo carries dest_callback
	Send    string `json:"send,omitempty"`     // contract behaviour in the send callback
	Src     string `json:"src,omitempty"`      // ... in the acknowledgement / timeout callback
	Dst     string `json:"dst,omitempty"`      // ... in the receive callback
	UserGas uint64 `json:"user_gas,omitempty"` // gas_limit of the memo (0: absent)
	LowGas  uint64 `json:"low_gas,omitempty"`  // gas limit of the first ack/timeout transaction attempt (0: default)
	Amount  int64  `json:"amount"`
}

var cbBehaviours = []string{"ok", "ok", "err", "panic", "oog", "oogerr", "oognil"}

func genC40i(t *rapid.T) c40iCase {
	c := c40iCase{Amount: rapid.Int64Range(1, 1000).Draw(t, "amount")}
	c.V2 = rapid.Bool().Draw(t, "v2")
	c.Path = rapid.SampledFrom([]string{"ack", "ack", "ack", "errack", "timeout", "timeout"}).Draw(t, "path")
	c.HasSrc = rapid.IntRange(0, 5).Draw(t, "hasSrc") > 0
	c.HasDst = c.Path != "timeout" && rapid.IntRange(0, 3).Draw(t, "hasDst") > 0
	if c.HasSrc {
		c.Send = rapid.SampledFrom([]string{"ok", "ok", "ok", "ok", "ok", "ok", "ok", "err", "panic", "oog"}).Draw(t, "send")
		c.Src = rapid.SampledFrom(cbBehaviours).Draw(t, "src")
	}
	if c.HasDst {
		c.Dst = rapid.SampledFrom(cbBehaviours).Draw(t, "dst")
	}
	switch rapid.IntRange(0, 4).Draw(t, "userGasKind") {
	case 0:
		c.UserGas = 0
	case 1:
		c.UserGas = rapid.SampledFrom([]uint64{cbMaxGas - 1, cbMaxGas, cbMaxGas + 1, 2 * cbMaxGas}).Draw(t, "userGasEdge")
	default:
		c.UserGas = rapid.Uint64Range(60_000, cbMaxGas).Draw(t, "userGas")
	}
	if c.HasSrc && rapid.IntRange(0, 2).Draw(t, "low") == 0 {
		// first ack/timeout attempt with little gas: mostly aimed at "remaining < commit" with a gas-burning contract
		c.LowGas = rapid.Uint64Range(120_000, 1_200_000).Draw(t, "lowGas")
		if rapid.IntRange(0, 3).Draw(t, "lowAim") > 0 {
			c.UserGas = rapid.SampledFrom([]uint64{0, cbMaxGas, 2 * cbMaxGas, 900_000}).Draw(t, "lowUserGas")
			c.LowGas = rapid.Uint64Range(150_000, 850_000).Draw(t, "lowGasAimed")
			c.Src = rapid.SampledFrom([]string{"oog", "oog", "oogerr", "oognil", "ok", "err", "panic"}).Draw(t, "lowSrc")
		}
	}
	return c
}

type contractLog struct {
	Calls      map[cbtypes.CallbackType]int
	ExecLimits map[cbtypes.CallbackType][]uint64
}

// installContract replaces the contract keeper's callbacks of chain c by scripted ones.
func installContract(w *cbWorld, chainIdx int, beh map[cbtypes.CallbackType]string) *contractLog {
	c := w.A
	if chainIdx == 1 {
		c = w.B
	}
	k := cbApp(c).MockContractKeeper
	lg := &contractLog{Calls: map[cbtypes.CallbackType]int{}, ExecLimits: map[cbtypes.CallbackType][]uint64{}}
	run := func(ctx sdk.Context, typ cbtypes.CallbackType) (err error) {
		lg.Calls[typ]++
		lg.ExecLimits[typ] = append(lg.ExecLimits[typ], ctx.GasMeter().Limit())
		k.IncrementStateEntryCounter(ctx) // the contract's own state change
		switch beh[typ] {
		case "err":
			ctx.GasMeter().ConsumeGas(ctx.GasMeter().GasRemaining()/2, "contract work")
			return errors.New("contract error")
		case "panic":
			panic("contract panic")
		case "oog":
			ctx.GasMeter().ConsumeGas(ctx.GasMeter().GasRemaining()+1, "contract burns all gas")
		case "oogerr", "oognil":
			swallowToNil := beh[typ] == "oognil"
			defer func() {
				if r := recover(); r != nil {
					err = errors.New("contract ran out of gas")
					if swallowToNil {
						err = nil // burns all gas, swallows the panic, reports success
					}
				}
			}()
			ctx.GasMeter().ConsumeGas(ctx.GasMeter().GasRemaining()+1, "contract burns all gas")
		default:
			ctx.GasMeter().ConsumeGas(min(ctx.GasMeter().GasRemaining()/2, 20_000), "contract work")
		}
		return nil
	}
	k.IBCSendPacketCallbackFn = func(ctx sdk.Context, _, _ string, _ clienttypes.Height, _ uint64, _ []byte, _, _, _ string) error {
		return run(ctx, cbtypes.CallbackTypeSendPacket)
	}
	k.IBCOnAcknowledgementPacketCallbackFn = func(ctx sdk.Context, _ channeltypes.Packet, _ []byte, _ sdk.AccAddress, _, _, _ string) error {
		return run(ctx, cbtypes.CallbackTypeAcknowledgementPacket)
	}
	k.IBCOnTimeoutPacketCallbackFn = func(ctx sdk.Context, _ channeltypes.Packet, _ sdk.AccAddress, _, _, _ string) error {
		return run(ctx, cbtypes.CallbackTypeTimeoutPacket)
	}
	k.IBCReceivePacketCallbackFn = func(ctx sdk.Context, _ ibcexported.PacketI, _ ibcexported.Acknowledgement, _, _ string) error {
		return run(ctx, cbtypes.CallbackTypeReceivePacket)
	}
	return lg
}

type c40iRun struct {
	t   rapid.TB
	rec *vx.Case
	w   *cbWorld
	c   c40iCase

	idA, idB string // channel ids (v1) or client ids (v2)
	p1       channeltypes.Packet
	p2       channeltypesv2.Packet
	seq      uint64
	sender   sdk.AccAddress
	receiver sdk.AccAddress
	escrow   sdk.AccAddress
	voucher  string
	logA     *contractLog
	logB     *contractLog
}

const c40 = "C40"

func (r *c40iRun) stakeA(a sdk.AccAddress) sdkmath.Int {
	return cbApp(r.w.A).BankKeeper.GetBalance(r.w.A.GetContext(), a, sdk.DefaultBondDenom).Amount
}
func (r *c40iRun) voucherB() (bal, supply sdkmath.Int) {
	app := cbApp(r.w.B)
	return app.BankKeeper.GetBalance(r.w.B.GetContext(), r.receiver, r.voucher).Amount, app.BankKeeper.GetSupply(r.w.B.GetContext(), r.voucher).Amount
}
func (r *c40iRun) counter(c *ibctesting.TestChain) uint8 {
	return cbApp(c).MockContractKeeper.GetStateEntryCounter(c.GetContext())
}
func (r *c40iRun) hasCommitment() bool {
	ctx := r.w.A.GetContext()
	if r.c.V2 {
		return len(cbApp(r.w.A).IBCKeeper.ChannelKeeperV2.GetPacketCommitment(ctx, r.idA, r.seq)) > 0
	}
	return cbApp(r.w.A).IBCKeeper.ChannelKeeper.HasPacketCommitment(ctx, transfertypes.PortID, r.idA, r.seq)
}

func (r *c40iRun) memo() string {
	m := map[string]any{}
	cb := func(addr string) map[string]any {
		x := map[string]any{"address": addr}
		if r.c.UserGas > 0 {
			x["gas_limit"] = strconv.FormatUint(r.c.UserGas, 10)
		}
		return x
	}
	if r.c.HasSrc {
		m[cbtypes.SourceCallbackKey] = cb("src-contract")
	}
	if r.c.HasDst {
		m[cbtypes.DestinationCallbackKey] = cb("dst-contract")
	}
	if len(m) == 0 {
		return ""
	}
	b, _ := json.Marshal(m)
	return string(b)
}

func isFailing(b string) bool { return b != "" && b != "ok" }

// srcTx delivers an acknowledgement / timeout message on A, first with the low gas limit if
// the case has one, and applies the "abort and retry" clause. It returns the transaction
// that finally processed the message.
func (r *c40iRun) srcTx(kind string, typ cbtypes.CallbackType, build func() sdk.Msg, snapshot func() string) (final cbTx, fullGas bool) {
	commit := modelCommit(r.c.UserGas, cbMaxGas)
	if r.c.LowGas > 0 {
		before := snapshot()
		n := len(r.logA.ExecLimits[typ])
		tx := r.w.deliver(r.w.A, r.c.LowGas, build())
		limits := r.logA.ExecLimits[typ][n:]
		invoked := len(limits) > 0
		short := invoked && limits[0] < commit
		switch {
		case !invoked:
			r.rec.Class("lowgas/callback-not-reached")
		case short:
			r.rec.Class("lowgas/exec<commit/%s", r.c.Src)
		default:
			r.rec.Class("lowgas/exec=commit")
		}
		if invoked && limits[0] > commit {
			vx.Violatef(r.t, r.rec, c40, "callback-meter-limit", "%s callback ran under gas limit %d > commit %d", kind, limits[0], commit)
		}
		if !tx.OK {
			r.rec.Add("lowgas_tx_failed", 1)
			if after := snapshot(); after != before {
				vx.Violatef(r.t, r.rec, c40, "aborted-tx-changed-state", "failed %s transaction (gas %d) changed state: %s -> %s", kind, r.c.LowGas, before, after)
			}
			if short && (r.c.Src == "oog" || r.c.Src == "oogerr" || r.c.Src == "oognil") {
				r.rec.Class("retry-abort-then-retry")
			}
			// retry with enough gas
			updateClient(r.w.Path.EndpointA)
			return r.w.deliver(r.w.A, 0, build()), true
		}
		r.rec.Add("lowgas_tx_ok", 1)
		if short && (r.c.Src == "oog" || r.c.Src == "oogerr" || r.c.Src == "oognil") {
			vx.Violatef(r.t, r.rec, c40, "retry-oog-did-not-abort", "%s callback ran out of gas under execLimit %d < commit %d (tx gas %d) but the transaction was committed", kind, limits[0], commit, r.c.LowGas)
		}
		return tx, false
	}
	return r.w.deliver(r.w.A, 0, build()), true
}

func runC40i(outer *testing.T) func(rapid.TB, c40iCase, *vx.Case) {
	return func(t rapid.TB, c c40iCase, rec *vx.Case) {
		w := newCbWorld(outer)
		r := &c40iRun{t: t, rec: rec, w: w, c: c}
		p := w.Path
		if c.V2 {
			func() {
				defer func() {
					if x := recover(); x != nil {
						if _, ok := x.(vx.HarnessError); ok {
							panic(x)
						}
						vx.Harnessf("SetupV2 panicked: %v", x)
					}
				}()
				p.SetupV2()
			}()
			r.idA, r.idB = p.EndpointA.ClientID, p.EndpointB.ClientID
		} else {
			p.EndpointA.ChannelConfig.PortID, p.EndpointB.ChannelConfig.PortID = ibctesting.TransferPort, ibctesting.TransferPort
			p.EndpointA.ChannelConfig.Version, p.EndpointB.ChannelConfig.Version = transfertypes.V1, transfertypes.V1
			func() {
				defer func() {
					if x := recover(); x != nil {
						if _, ok := x.(vx.HarnessError); ok {
							panic(x)
						}
						vx.Harnessf("Setup panicked: %v", x)
					}
				}()
				p.Setup()
			}()
			r.idA, r.idB = p.EndpointA.ChannelID, p.EndpointB.ChannelID
		}
		r.sender = w.A.SenderAccount.GetAddress()
		r.receiver = w.B.SenderAccounts[1].SenderAccount.GetAddress()
		r.escrow = transfertypes.GetEscrowAddress(transfertypes.PortID, r.idA)
		r.voucher = transfertypes.NewDenom(sdk.DefaultBondDenom, transfertypes.NewHop(transfertypes.PortID, r.idB)).IBCDenom()
		srcType := cbtypes.CallbackTypeAcknowledgementPacket
		if c.Path == "timeout" {
			srcType = cbtypes.CallbackTypeTimeoutPacket
		}
		r.logA = installContract(w, 0, map[cbtypes.CallbackType]string{cbtypes.CallbackTypeSendPacket: c.Send, srcType: c.Src})
		r.logB = installContract(w, 1, map[cbtypes.CallbackType]string{cbtypes.CallbackTypeReceivePacket: c.Dst})
		commit := modelCommit(c.UserGas, cbMaxGas)

		rec.Class("path=%s v2=%v", c.Path, c.V2)
		rec.NonTrivialIf(isFailing(c.Src) || isFailing(c.Dst) || c.LowGas > 0)

		// ---------------------------------------------------------------- send on A
		recvAddr := r.receiver.String()
		if c.Path == "errack" {
			recvAddr = "not-a-bech32-address"
		}
		amount := sdkmath.NewInt(c.Amount)
		now := w.A.GetContext().BlockTime()
		timeout := now.Add(time.Hour)
		if c.Path == "timeout" {
			timeout = now.Add(30 * time.Second)
		}
		var sendMsg sdk.Msg
		if c.V2 {
			data := transfertypes.NewFungibleTokenPacketData(sdk.DefaultBondDenom, amount.String(), r.sender.String(), recvAddr, r.memo())
			pl := channeltypesv2.NewPayload(transfertypes.PortID, transfertypes.PortID, transfertypes.V1, transfertypes.EncodingJSON, data.GetBytes())
			sendMsg = channeltypesv2.NewMsgSendPacket(r.idA, uint64(timeout.Unix()), r.sender.String(), pl)
			r.p2 = channeltypesv2.NewPacket(1, r.idA, r.idB, uint64(timeout.Unix()), pl)
		} else {
			sendMsg = transfertypes.NewMsgTransfer(transfertypes.PortID, r.idA, sdk.NewCoin(sdk.DefaultBondDenom, amount), r.sender.String(), recvAddr,
				clienttypes.ZeroHeight(), uint64(timeout.UnixNano()), r.memo())
		}
		balBefore, cntBefore := r.stakeA(r.sender), r.counter(w.A)
		stx := w.deliver(w.A, 0, sendMsg)
		r.seq = 1
		if isFailing(c.Send) {
			rec.Class("send-callback-fails/%s", c.Send)
			if stx.OK {
				rec.Add("failing_send_callback_accepted", 1) // the statement does not constrain send callbacks
				return
			}
			rec.Add("failing_send_callback_rejected", 1)
			if !r.stakeA(r.sender).Equal(balBefore) || r.counter(w.A) != cntBefore || r.hasCommitment() {
				vx.Violatef(t, rec, c40, "rejected-send-changed-state", "send rejected by the %s send callback but state changed (balance %s->%s counter %d->%d commitment %v)", c.Send, balBefore, r.stakeA(r.sender), cntBefore, r.counter(w.A), r.hasCommitment())
			}
			return
		}
		if !stx.OK {
			vx.Harnessf("honest transfer rejected: %v", stx.Err)
		}
		if !c.V2 {
			pk, err := ibctesting.ParseV1PacketFromEvents(stx.Res.Events)
			if err != nil {
				vx.Harnessf("no packet in transfer events: %v", err)
			}
			r.p1, r.seq = pk, pk.Sequence
		}
		if !r.hasCommitment() {
			vx.Harnessf("no commitment after send")
		}
		if got := r.logA.ExecLimits[cbtypes.CallbackTypeSendPacket]; c.HasSrc {
			if len(got) != 1 {
				vx.Harnessf("send callback ran %d times", len(got))
			}
			if got[0] != commit {
				vx.Violatef(t, rec, c40, "exec-limit", "send callback gas limit %d, want commit %d (user %d, max %d, plenty of gas remaining)", got[0], commit, c.UserGas, cbMaxGas)
			}
		}
		afterSend := r.stakeA(r.sender)
		if !afterSend.Equal(balBefore.Sub(amount)) {
			vx.Harnessf("sender balance after send %s, want %s", afterSend, balBefore.Sub(amount))
		}
		escrowAfterSend := r.stakeA(r.escrow)

		// ---------------------------------------------------------------- receive on B
		ackIsError := false
		var ack1 []byte
		var ack2 channeltypesv2.Acknowledgement
		if c.Path != "timeout" {
			updateClient(p.EndpointB)
			var recvMsg sdk.Msg
			if c.V2 {
				proof, ph := w.A.QueryProof(hostv2.PacketCommitmentKey(r.idA, r.seq))
				recvMsg = channeltypesv2.NewMsgRecvPacket(r.p2, proof, ph, w.B.SenderAccount.GetAddress().String())
			} else {
				proof, ph := w.A.QueryProof(host.PacketCommitmentKey(transfertypes.PortID, r.idA, r.seq))
				recvMsg = channeltypes.NewMsgRecvPacket(r.p1, proof, ph, w.B.SenderAccount.GetAddress().String())
			}
			vb0, vs0 := r.voucherB()
			cntB0 := r.counter(w.B)
			rtx := w.deliver(w.B, 0, recvMsg)
			limits := r.logB.ExecLimits[cbtypes.CallbackTypeReceivePacket]
			if len(limits) > 0 && limits[0] != commit {
				vx.Violatef(t, rec, c40, "exec-limit", "receive callback gas limit %d, want commit %d (10M tx gas)", limits[0], commit)
			}
			if !rtx.OK {
				// with 10M gas on the transaction the callback always gets its full commit limit: a failing
				// destination callback must become an error acknowledgement, not a failed transaction
				if c.HasDst && len(limits) > 0 {
					vx.Violatef(t, rec, c40, "recv-tx-failed-by-callback", "receive transaction failed (%v) with destination callback behaviour %q", rtx.Err, c.Dst)
				}
				vx.Harnessf("receive transaction failed: %v", rtx.Err)
			}
			if c.V2 {
				bz, err := ibctesting.ParseAckV2FromEvents(rtx.Res.Events)
				if err != nil || proto.Unmarshal(bz, &ack2) != nil {
					vx.Harnessf("no v2 ack in receive events: %v", err)
				}
				ackIsError = !ack2.Success()
			} else {
				bz, err := ibctesting.ParseAckFromEvents(rtx.Res.Events)
				if err != nil {
					vx.Harnessf("no ack in receive events: %v", err)
				}
				ack1 = bz
				var a channeltypes.Acknowledgement
				if err := transfertypes.ModuleCdc.UnmarshalJSON(bz, &a); err != nil {
					vx.Harnessf("ack does not decode: %v", err)
				}
				ackIsError = !a.Success()
			}
			vb1, vs1 := r.voucherB()
			cntB1 := r.counter(w.B)
			dstRan := len(limits) > 0
			switch {
			case c.Path == "ack" && isFailing(c.Dst):
				rec.Class("dest-callback-fails/%s", c.Dst)
				if !dstRan {
					vx.Harnessf("destination callback did not run")
				}
				if !ackIsError {
					vx.Violatef(t, rec, c40, "failing-dest-callback-success-ack", "destination callback %q failed but the acknowledgement is a success acknowledgement", c.Dst)
				}
				if !vb1.Equal(vb0) || !vs1.Equal(vs0) {
					vx.Violatef(t, rec, c40, "failing-dest-callback-app-state", "destination callback %q failed but vouchers were minted: balance %s->%s supply %s->%s", c.Dst, vb0, vb1, vs0, vs1)
				}
				if cntB1 != cntB0 {
					vx.Violatef(t, rec, c40, "failed-callback-writes-persist", "failed destination callback %q left its state change (counter %d->%d)", c.Dst, cntB0, cntB1)
				}
			case c.Path == "ack":
				rec.Class("dest-callback-%s", map[bool]string{true: "ok", false: "absent"}[c.HasDst])
				if ackIsError || !vb1.Equal(vb0.Add(amount)) {
					rec.Add("honest_receive_failed", 1)
				}
				if c.HasDst && cntB1 != cntB0+1 {
					rec.Add("ok_callback_state_missing", 1)
				}
			default: // errack: the application itself refuses; no callback
				rec.Class("app-error-ack")
				if !ackIsError {
					vx.Harnessf("invalid receiver produced a success acknowledgement")
				}
				if dstRan {
					rec.Add("dest_callback_on_failed_receive", 1)
				}
				if !vb1.Equal(vb0) || !vs1.Equal(vs0) {
					vx.Harnessf("vouchers minted on failed receive")
				}
			}
		}

		// ---------------------------------------------------------------- ack / timeout on A
		snapshot := func() string {
			return fmt.Sprintf("sender=%s escrow=%s counter=%d commitment=%v", r.stakeA(r.sender), r.stakeA(r.escrow), r.counter(w.A), r.hasCommitment())
		}
		cntA0 := r.counter(w.A)
		var ftx cbTx
		fullGas := true
		refund := true
		kind := "acknowledgement"
		if c.Path == "timeout" {
			kind = "timeout"
			w.Coord.IncrementTimeBy(2 * time.Minute)
			w.Coord.CommitBlock(w.B)
			build := func() sdk.Msg {
				if c.V2 {
					proof, ph := w.B.QueryProof(hostv2.PacketReceiptKey(r.idB, r.seq))
					return channeltypesv2.NewMsgTimeout(r.p2, proof, ph, r.sender.String())
				}
				proof, ph := w.B.QueryProof(host.PacketReceiptKey(transfertypes.PortID, r.idB, r.seq))
				return channeltypes.NewMsgTimeout(r.p1, 1, proof, ph, r.sender.String())
			}
			updateClient(p.EndpointA)
			ftx, fullGas = r.srcTx(kind, srcType, build, snapshot)
		} else {
			refund = ackIsError
			build := func() sdk.Msg {
				if c.V2 {
					proof, ph := w.B.QueryProof(hostv2.PacketAcknowledgementKey(r.idB, r.seq))
					return channeltypesv2.NewMsgAcknowledgement(r.p2, ack2, proof, ph, r.sender.String())
				}
				proof, ph := w.B.QueryProof(host.PacketAcknowledgementKey(transfertypes.PortID, r.idB, r.seq))
				return channeltypes.NewMsgAcknowledgement(r.p1, ack1, proof, ph, r.sender.String())
			}
			updateClient(p.EndpointA)
			ftx, fullGas = r.srcTx(kind, srcType, build, snapshot)
		}
		limits := r.logA.ExecLimits[srcType]
		srcRan := len(limits) > 0
		if c.HasSrc {
			rec.Class("%s-callback/%s", kind, c.Src)
		}
		if !ftx.OK {
			// the final attempt has 10M gas: the callback cannot legitimately block it
			if srcRan && fullGas {
				vx.Violatef(t, rec, c40, "lifecycle-blocked-by-callback", "%s transaction with 10M gas failed (%v); source callback behaviour %q", kind, ftx.Err, c.Src)
			}
			vx.Harnessf("%s transaction failed: %v", kind, ftx.Err)
		}
		if c.HasSrc && !srcRan {
			vx.Harnessf("source callback did not run")
		}
		if srcRan && fullGas && limits[len(limits)-1] != commit {
			vx.Violatef(t, rec, c40, "exec-limit", "%s callback gas limit %d, want commit %d (10M tx gas)", kind, limits[len(limits)-1], commit)
		}
		// the packet's acknowledgement / timeout and the application's effects stand
		if r.hasCommitment() {
			vx.Violatef(t, rec, c40, "commitment-not-deleted", "%s processed (callback %q) but the packet commitment is still there", kind, c.Src)
		}
		wantSender, wantEscrow := afterSend, escrowAfterSend
		if refund {
			wantSender, wantEscrow = afterSend.Add(amount), escrowAfterSend.Sub(amount)
			rec.Class("refund")
		}
		if got := r.stakeA(r.sender); !got.Equal(wantSender) {
			vx.Violatef(t, rec, c40, "app-effects-missing", "%s processed (callback %q, refund=%v): sender balance %s, want %s", kind, c.Src, refund, got, wantSender)
		}
		if got := r.stakeA(r.escrow); !got.Equal(wantEscrow) {
			vx.Violatef(t, rec, c40, "app-effects-missing", "%s processed (callback %q, refund=%v): escrow balance %s, want %s", kind, c.Src, refund, got, wantEscrow)
		}
		// the callback's own state change
		cntA1 := r.counter(w.A)
		switch {
		case isFailing(c.Src) && cntA1 != cntA0:
			vx.Violatef(t, rec, c40, "failed-callback-writes-persist", "failed %s callback %q left its state change (counter %d->%d)", kind, c.Src, cntA0, cntA1)
		case c.HasSrc && !isFailing(c.Src) && cntA1 != cntA0+1:
			rec.Add("ok_callback_state_missing", 1)
		}
		rec.Add("lifecycles_completed", 1)
	}
}

func TestC40Transfer(t *testing.T) {
	vx.Check(t, vx.Prop[c40iCase]{
		ID:        "C40",
		Rule:      "one ICS-20 transfer (v1 channel or IBC v2) with src_callback / dest_callback memos on the callbacks test app; scripted contracts (ok/error/panic/burn-all-gas/burn-and-swallow-to-error/burn-and-swallow-to-success) per callback type; paths success-ack, app error-ack, dest-callback failure, timeout; user gas_limit absent/below/at/above the chain max; optional first ack/timeout attempt with a low transaction gas limit; non-trivial = a failing source or destination callback, or a low-gas attempt; distinct by full case",
		MinNTFrac: 0.4,
		Gen:       genC40i,
		Run:       runC40i(t),
	})
}
