package lc

import (
	"encoding/json"
	"fmt"
	"strings"
	"testing"

	wasmvm "github.com/CosmWasm/wasmvm/v3"
	wasmvmtypes "github.com/CosmWasm/wasmvm/v3/types"
	dbm "github.com/cosmos/cosmos-db"
	"pgregory.net/rapid"

	"cosmossdk.io/log/v2"

	storetypes "github.com/cosmos/cosmos-sdk/store/v2/types"
	simtestutil "github.com/cosmos/cosmos-sdk/testutil/sims"
	authtypes "github.com/cosmos/cosmos-sdk/x/auth/types"
	govtypes "github.com/cosmos/cosmos-sdk/x/gov/types"

	wasmtesting "github.com/cosmos/ibc-go/modules/light-clients/08-wasm/v11/testing"
	"github.com/cosmos/ibc-go/modules/light-clients/08-wasm/v11/testing/simapp"
	"github.com/cosmos/ibc-go/modules/light-clients/08-wasm/v11/types"
	clienttypes "github.com/cosmos/ibc-go/v11/modules/core/02-client/types"
	host "github.com/cosmos/ibc-go/v11/modules/core/24-host"
	"github.com/cosmos/ibc-go/v11/modules/core/exported"
	ibctm "github.com/cosmos/ibc-go/v11/modules/light-clients/07-tendermint"
	ibctesting "github.com/cosmos/ibc-go/v11/testing"

	"github.com/cosmos/ibc-go/v11/modules/apps/callbacks/verifx/vx"
)

// Integration variant of C29: the same op scripts are executed by a (mock VM) contract inside
// the sudo callback of LightClientModule.RecoverClient of a real 08-wasm client on a simapp
// chain, i.e. against the store object and the sdk.Context-backed client stores that recovery
// really uses. Observations are collected inside the callback and judged afterwards.

type tbShimW struct{ testing.TB }

func (s tbShimW) Errorf(format string, args ...any) {
	vx.Harnessf("ibctesting assertion: "+format, args...)
}
func (s tbShimW) Fatalf(format string, args ...any) { vx.Harnessf("ibctesting fatal: "+format, args...) }
func (s tbShimW) FailNow()                          { vx.Harnessf("ibctesting FailNow") }
func (s tbShimW) Fail()                             { vx.Harnessf("ibctesting Fail") }

type c29RecCase struct {
	Subj  []c29KV // extra keys put into the subject client's store before recovery
	Subst []c29KV
	Ops   []c29Op
}

func genC29Rec(t *rapid.T) c29RecCase {
	c := genC29(t)
	return c29RecCase{Subj: c.Subj, Subst: c.Subst, Ops: c.Ops}
}

func runC29Rec(outer *testing.T) func(rapid.TB, c29RecCase, *vx.Case) {
	return func(t rapid.TB, c c29RecCase, rec *vx.Case) {
		const id = "C29"
		mockVM := wasmtesting.NewMockWasmEngine()
		var chain *ibctesting.TestChain
		mockVM.InstantiateFn = func(checksum wasmvm.Checksum, env wasmvmtypes.Env, info wasmvmtypes.MessageInfo, initMsg []byte, store wasmvm.KVStore, goapi wasmvm.GoAPI, querier wasmvm.Querier, gasMeter wasmvm.GasMeter, gasLimit uint64, deserCost wasmvmtypes.UFraction) (*wasmvmtypes.ContractResult, uint64, error) {
			var payload types.InstantiateMessage
			if err := json.Unmarshal(initMsg, &payload); err != nil {
				return nil, 0, err
			}
			wrapped, ok := clienttypes.MustUnmarshalClientState(chain.App.AppCodec(), payload.ClientState).(*ibctm.ClientState)
			if !ok {
				return nil, 0, fmt.Errorf("wrapped client state is not tendermint")
			}
			cs := types.NewClientState(payload.ClientState, payload.Checksum, wrapped.LatestHeight)
			store.Set(host.ClientStateKey(), clienttypes.MustMarshalClientState(chain.App.AppCodec(), cs))
			cons := types.NewConsensusState(payload.ConsensusState)
			store.Set(host.ConsensusStateKey(cs.LatestHeight), clienttypes.MustMarshalConsensusState(chain.App.AppCodec(), cons))
			resp, _ := json.Marshal(types.EmptyResult{})
			return &wasmvmtypes.ContractResult{Ok: &wasmvmtypes.Response{Data: resp}}, 0, nil
		}
		mockVM.RegisterQueryCallback(types.StatusMsg{}, func(checksum wasmvm.Checksum, env wasmvmtypes.Env, queryMsg []byte, store wasmvm.KVStore, goapi wasmvm.GoAPI, querier wasmvm.Querier, gasMeter wasmvm.GasMeter, gasLimit uint64, deserCost wasmvmtypes.UFraction) (*wasmvmtypes.QueryResult, uint64, error) {
			resp, _ := json.Marshal(types.StatusResult{Status: exported.Active.String()})
			return &wasmvmtypes.QueryResult{Ok: resp}, wasmtesting.DefaultGasUsed, nil
		})
		var app *simapp.SimApp
		func() {
			defer func() {
				if r := recover(); r != nil {
					if _, ok := r.(vx.HarnessError); ok {
						panic(r)
					}
					if n := fmt.Sprintf("%T", r); n == "rapid.invalidData" || n == "rapid.stopTest" {
						panic(r)
					}
					vx.Harnessf("chain setup panicked: %v", r)
				}
			}()
			coord := ibctesting.NewCustomAppCoordinator(outer, 1, func() (ibctesting.TestingApp, map[string]json.RawMessage) {
				a := simapp.NewUnitTestSimApp(log.NewNopLogger(), dbm.NewMemDB(), true, simtestutil.EmptyAppOptions{}, mockVM)
				return a, a.DefaultGenesis()
			})
			chain = coord.GetChain(ibctesting.GetChainID(1))
			chain.TB = tbShimW{outer}
			app = chain.App.(*simapp.SimApp)
			ctx := chain.GetContext().WithBlockGasMeter(storetypes.NewInfiniteGasMeter())
			if _, err := app.WasmClientKeeper.StoreCode(ctx, types.NewMsgStoreCode(authtypes.NewModuleAddress(govtypes.ModuleName).String(), wasmtesting.Code)); err != nil {
				vx.Harnessf("store code: %v", err)
			}
		}()
		mk := func() string {
			ep := wasmtesting.NewWasmEndpoint(chain)
			if err := ep.CreateClient(); err != nil {
				vx.Harnessf("create wasm client: %v", err)
			}
			return ep.ClientID
		}
		subjectID, substituteID := mk(), mk()

		ctx, _ := chain.GetContext().CacheContext()
		ck := app.IBCKeeper.ClientKeeper
		subjStore, substStore := ck.ClientStore(ctx, subjectID), ck.ClientStore(ctx, substituteID)
		for _, kv := range c.Subj {
			subjStore.Set(kv.K, kv.V)
		}
		for _, kv := range c.Subst {
			substStore.Set(kv.K, kv.V)
		}
		model := [2]map[string]string{c29Dump(subjStore), c29Dump(substStore)}
		substInitial := c29Dump(substStore)
		subjPfx, substPfx := "clients/"+subjectID+"/", "clients/"+substituteID+"/"
		ibcStore := ctx.KVStore(app.GetKey(exported.StoreKey))
		others := func() map[string]string {
			m := map[string]string{}
			for k, v := range c29Dump(ibcStore) {
				if !strings.HasPrefix(k, subjPfx) && !strings.HasPrefix(k, substPfx) {
					m[k] = v
				}
			}
			return m
		}
		otherInitial := others()

		type finding struct{ sig, msg string }
		var bad *finding
		report := func(sig, format string, args ...any) {
			if bad == nil {
				bad = &finding{sig, fmt.Sprintf(format, args...)}
			}
		}
		var foreignWrites, mixedRanges, okRanges, panics int64
		called := false

		mockVM.RegisterSudoCallback(types.MigrateClientStoreMsg{}, func(_ wasmvm.Checksum, _ wasmvmtypes.Env, _ []byte, store wasmvm.KVStore, _ wasmvm.GoAPI, _ wasmvm.Querier, _ wasmvm.GasMeter, _ uint64, _ wasmvmtypes.UFraction) (*wasmvmtypes.ContractResult, uint64, error) {
			called = true
			for i, op := range c.Ops {
				if bad != nil {
					break
				}
				name := c29OpNames[op.Kind]
				full := op.K.full()
				which, inner := c29Route(full)
				switch op.Kind {
				case c29Get, c29Has: // contracts have no Has: both read through Get
					var got []byte
					if pan, _ := vx.Recover(func() { got = store.Get(full) }); pan {
						panics++
						break
					}
					want := ""
					if which >= 0 {
						want = model[which][string(inner)]
					}
					if string(got) != want {
						sig := "get-routing"
						if which < 0 {
							sig = "unprefixed-get-not-empty"
						}
						report(sig, "op %d: contract Get(%q) = %q, model (store %d, inner %q) says %q", i, full, got, which, inner, want)
					}
				case c29Set, c29Delete:
					pan, _ := vx.Recover(func() {
						if op.Kind == c29Set {
							store.Set(full, op.V)
						} else {
							store.Delete(full)
						}
					})
					if pan {
						panics++
					} else if which == 0 {
						if op.Kind == c29Set {
							model[0][string(inner)] = string(op.V)
						} else {
							delete(model[0], string(inner))
						}
					}
					if which != 0 {
						foreignWrites++
					}
				case c29Iter, c29RevIter:
					fullEnd := op.E.full()
					whichE, innerE := c29Route(fullEnd)
					var got []c29Pair
					pan, _ := vx.Recover(func() {
						var it wasmvmtypes.Iterator
						if op.Kind == c29Iter {
							it = store.Iterator(full, fullEnd)
						} else {
							it = store.ReverseIterator(full, fullEnd)
						}
						for n := 0; it.Valid() && n < 1000; n++ {
							got = append(got, c29Pair{string(it.Key()), string(it.Value())})
							it.Next()
						}
						_ = it.Close()
					})
					if pan {
						panics++
						break
					}
					consistent := which >= 0 && which == whichE
					var want []c29Pair
					if consistent {
						okRanges++
						want = c29Range(model[which], inner, innerE, op.Kind == c29RevIter)
					} else {
						mixedRanges++
					}
					same := c29PairsEq(got, want)
					if !same {
						sig := "iterator-routing"
						if !consistent {
							sig = "mixed-or-unprefixed-range-not-empty"
						}
						report(sig, "op %d: contract %s(%q,%q) yielded %q, model (stores %d/%d) says %q", i, name, full, fullEnd, got, which, whichE, want)
					}
				}
				if ok, d := c29MapEq(c29Dump(substStore), substInitial); !ok {
					report("substitute-store-modified", "after op %d %s(%q): substitute client store changed: %s", i, name, full, d)
				}
				if ok, d := c29MapEq(c29Dump(subjStore), model[0]); !ok {
					sig := "subject-store-differs-from-model"
					if which != 0 && (op.Kind == c29Set || op.Kind == c29Delete) {
						sig = "non-subject-key-write-reached-subject"
					}
					report(sig, "after op %d %s(%q): subject client store differs from model: %s", i, name, full, d)
				}
				if ok, d := c29MapEq(others(), otherInitial); !ok {
					report("write-outside-both-client-stores", "after op %d %s(%q): IBC store keys outside both clients changed: %s", i, name, full, d)
				}
			}
			resp, _ := json.Marshal(types.EmptyResult{})
			return &wasmvmtypes.ContractResult{Ok: &wasmvmtypes.Response{Data: resp}}, wasmtesting.DefaultGasUsed, nil
		})

		lcm, err := ck.Route(ctx, subjectID)
		if err != nil {
			vx.Harnessf("route: %v", err)
		}
		var recErr error
		if pan, msg := vx.Recover(func() { recErr = lcm.RecoverClient(ctx, subjectID, substituteID) }); pan {
			vx.Harnessf("RecoverClient panicked: %s", msg)
		}
		if !called {
			vx.Harnessf("sudo callback not reached: %v", recErr)
		}
		if bad != nil {
			vx.Violatef(t, rec, id, bad.sig, "RecoverClient(%s <- %s): %s", subjectID, substituteID, bad.msg)
		}
		if recErr == nil {
			rec.Class("recover-ok")
		} else {
			rec.Class("recover-error-after-script")
		}
		if mixedRanges > 0 {
			rec.Class("range-mixed-or-unprefixed")
		}
		if okRanges > 0 {
			rec.Class("range-consistent-prefix")
		}
		rec.Add("foreign_writes", foreignWrites)
		rec.Add("store_panics", panics)
		rec.Add("ops", int64(len(c.Ops)))
		rec.NonTrivialIf(foreignWrites > 0)
	}
}

func TestC29Recover(t *testing.T) {
	vx.Check(t, vx.Prop[c29RecCase]{
		ID:        "C29",
		Rule:      "integration: the TestC29 op scripts executed by the mock-VM contract inside the sudo(MigrateClientStore) callback of RecoverClient for two real 08-wasm clients on a simapp chain (client stores pre-populated with extra keys); non-trivial = >=1 set/delete with a substitute/ or illegal prefix; distinct by full case encoding",
		MinNTFrac: 0.5,
		Gen:       genC29Rec,
		Run:       runC29Rec(t),
	})
}
