// Package tmsim drives 07-tendermint light clients that live on a REAL chain A (a
// sim.World with one or more chains; the clients are created on chain index Driver.Chain)
// and track a VIRTUAL chain V. The harness owns V's validator keys (derived
// deterministically from their index, never random) and signs headers itself with the
// exported cometbft types, so any height (1 … 2^62), header time, validator-set change,
// app hash, trusted height and partial commit can be produced. Nothing in here draws
// randomness or reads the wall clock; chain A's block time is the "now" of the light
// client and is controlled through the sim.World clock.
package tmsim

import (
	"bytes"
	"crypto/sha256"
	"encoding/binary"
	"fmt"
	"sort"
	"strconv"
	"strings"
	"time"

	"github.com/cosmos/gogoproto/proto"

	storetypes "github.com/cosmos/cosmos-sdk/store/v2/types"
	sdk "github.com/cosmos/cosmos-sdk/types"

	abci "github.com/cometbft/cometbft/abci/types"
	"github.com/cometbft/cometbft/crypto/ed25519"
	"github.com/cometbft/cometbft/crypto/tmhash"
	cmtproto "github.com/cometbft/cometbft/proto/tendermint/types"
	cmtprotoversion "github.com/cometbft/cometbft/proto/tendermint/version"
	cmttypes "github.com/cometbft/cometbft/types"
	cmtversion "github.com/cometbft/cometbft/version"

	clienttypes "github.com/cosmos/ibc-go/v11/modules/core/02-client/types"
	commitmenttypes "github.com/cosmos/ibc-go/v11/modules/core/23-commitment/types"
	commitmenttypesv2 "github.com/cosmos/ibc-go/v11/modules/core/23-commitment/types/v2"
	host "github.com/cosmos/ibc-go/v11/modules/core/24-host"
	"github.com/cosmos/ibc-go/v11/modules/core/exported"
	ibctm "github.com/cosmos/ibc-go/v11/modules/light-clients/07-tendermint"
	ibctesting "github.com/cosmos/ibc-go/v11/testing"

	"github.com/cosmos/ibc-go/v11/modules/apps/callbacks/verifx/sim"
	"github.com/cosmos/ibc-go/v11/modules/apps/callbacks/verifx/vx"
)

// ChainPrefix is the chain-id prefix of the virtual chain: revision r has id "V-r".
const ChainPrefix = "V"

// ChainID returns the chain id of revision rev of the virtual chain.
func ChainID(rev uint64) string { return ChainPrefix + "-" + strconv.FormatUint(rev, 10) }

// NumKeys is the number of validator keys of the virtual chain.
const NumKeys = 6

// ValPower is one member of a validator set: key index and voting power.
type ValPower struct {
	Key   int
	Power int64
}

// DefaultValSets is the pool of validator sets used unless a driver is given its own.
// Any two of them overlap in more than 1/3 of the (trusted) power, so a non-adjacent
// update between any two of them can pass the default trust level; set 4 overlaps set 3
// only.
var DefaultValSets = [][]ValPower{
	{{0, 10}, {1, 10}, {2, 10}, {3, 10}},
	{{0, 10}, {1, 10}, {2, 10}, {4, 10}},
	{{0, 10}, {1, 20}, {2, 30}, {3, 40}},
	{{2, 10}, {3, 10}, {4, 10}, {5, 10}},
	{{4, 10}, {5, 10}},
}

// Driver drives tendermint clients of the virtual chain on chain `Chain` of the world.
type Driver struct {
	W       *sim.World
	Chain   int
	Signer  int // default account index used to sign transactions on chain A
	Keys    []ed25519.PrivKey
	ValSets []*cmttypes.ValidatorSet
	byAddr  map[string]int // validator address -> key index
	byHash  map[string]int // validator set hash -> valset index
}

// New builds a driver with the given validator-set pool (nil: DefaultValSets).
func New(w *sim.World, chain int, valsets [][]ValPower) *Driver {
	if valsets == nil {
		valsets = DefaultValSets
	}
	d := &Driver{W: w, Chain: chain, byAddr: map[string]int{}, byHash: map[string]int{}}
	for i := 0; i < NumKeys; i++ {
		k := ed25519.GenPrivKeyFromSecret([]byte("val-" + strconv.Itoa(i)))
		d.Keys = append(d.Keys, k)
		d.byAddr[string(k.PubKey().Address())] = i
	}
	for i, spec := range valsets {
		var vals []*cmttypes.Validator
		for _, vp := range spec {
			if vp.Key < 0 || vp.Key >= NumKeys {
				vx.Harnessf("tmsim: valset %d uses key %d", i, vp.Key)
			}
			vals = append(vals, cmttypes.NewValidator(d.Keys[vp.Key].PubKey(), vp.Power))
		}
		vs := cmttypes.NewValidatorSet(vals)
		d.ValSets = append(d.ValSets, vs)
		if _, dup := d.byHash[string(vs.Hash())]; !dup {
			d.byHash[string(vs.Hash())] = i
		}
	}
	return d
}

// ValSetIndexByHash returns the pool index of the validator set with the given hash.
func (d *Driver) ValSetIndexByHash(h []byte) (int, bool) {
	i, ok := d.byHash[string(h)]
	return i, ok
}

// ---- clock -------------------------------------------------------------------------

// Now is the block time the next transaction / query on chain A will see.
func (d *Driver) Now() time.Time { return d.W.Coord.CurrentTime }

// AdvanceTime moves chain A's clock forward.
func (d *Driver) AdvanceTime(dur time.Duration) { d.W.AdvanceTime(dur) }

// SetNow sets chain A's clock to t; refuses (returns false) to move it backwards.
func (d *Driver) SetNow(t time.Time) bool {
	if t.Before(d.W.Coord.CurrentTime) {
		return false
	}
	d.W.Coord.SetTime(t)
	return true
}

// Block commits n empty blocks on chain A (5 s each).
func (d *Driver) Block(n int) { d.W.Block(d.Chain, n) }

func (d *Driver) ctx() sdk.Context { return d.W.Ctx(d.Chain) }

// ---- client creation -----------------------------------------------------------------

// Params describes a client of the virtual chain to be created.
type Params struct {
	Rev             uint64 // revision of V (chain id V-<rev>)
	Height          uint64 // initial (latest) revision height
	TimeNs          int64  // timestamp of the initial consensus state (unix ns)
	NextValSet      int    // pool index of the validator set that signs height+1
	AppTag          uint64 // the initial root is AppHash(AppTag)
	TrustingPeriod  time.Duration
	UnbondingPeriod time.Duration
	MaxClockDrift   time.Duration
}

// AppHash derives a 32-byte app hash from a small tag.
func AppHash(tag uint64) []byte {
	var b [8]byte
	binary.BigEndian.PutUint64(b[:], tag)
	s := sha256.Sum256(append([]byte("tmsim-app/"), b[:]...))
	return s[:]
}

// InitialStates builds the client and consensus state CreateClient submits.
func (d *Driver) InitialStates(p Params) (*ibctm.ClientState, *ibctm.ConsensusState) {
	if p.UnbondingPeriod == 0 {
		p.UnbondingPeriod = p.TrustingPeriod * 3 / 2
	}
	if p.MaxClockDrift == 0 {
		p.MaxClockDrift = ibctesting.MaxClockDrift
	}
	cs := ibctm.NewClientState(ChainID(p.Rev), ibctm.DefaultTrustLevel, p.TrustingPeriod, p.UnbondingPeriod, p.MaxClockDrift,
		clienttypes.NewHeight(p.Rev, p.Height), commitmenttypes.GetSDKSpecs(), ibctesting.UpgradePath)
	cons := ibctm.NewConsensusState(time.Unix(0, p.TimeNs).UTC(), commitmenttypes.NewMerkleRoot(AppHash(p.AppTag)), d.ValSets[p.NextValSet%len(d.ValSets)].Hash())
	return cs, cons
}

// CreateClient submits MsgCreateClient on chain A signed by account `signer` and returns
// the new client id ("" when the transaction failed).
func (d *Driver) CreateClient(p Params, signer int) (string, sim.TxResult) {
	cs, cons := d.InitialStates(p)
	msg, err := clienttypes.NewMsgCreateClient(cs, cons, d.W.Addr(d.Chain, signer).String())
	if err != nil {
		vx.Harnessf("tmsim: NewMsgCreateClient: %v", err)
	}
	res := d.W.Deliver(d.Chain, signer, msg)
	if !res.OK {
		return "", res
	}
	id, err := ibctesting.ParseClientIDFromEvents(res.Events)
	if err != nil {
		vx.Harnessf("tmsim: no client id in events: %v", err)
	}
	return id, res
}

// ---- headers ---------------------------------------------------------------------------

// HeaderSpec describes a header of the virtual chain. ValSet / TrustedValSet may be -1
// ("auto"): the validator set the trusted consensus state of the given client committed
// to as its next validators (pool index found through the stored NextValidatorsHash).
type HeaderSpec struct {
	Rev           uint64 // revision: chain id V-<Rev>
	Height        uint64
	TimeNs        int64
	TrustedRev    uint64
	TrustedHeight uint64
	ValSet        int    // signs this header; -1 auto
	NextValSet    int    // committed to as NextValidatorsHash
	TrustedValSet int    // sent as TrustedValidators; -1 auto
	AppTag        uint64 // app hash = AppHash(AppTag) unless AppHashRaw is set
	AppHashRaw    []byte
	Absent        uint64 // bit i set: the i-th validator (in set order) does not sign
	BadSig        uint64 // bit i set: the i-th validator's signature is over other bytes
}

// resolveVals returns the pool index meant by idx for a header trusting (rev,h) of client.
func (d *Driver) resolveVals(clientID string, idx int, rev, h uint64) int {
	if idx >= 0 {
		return idx % len(d.ValSets)
	}
	if clientID != "" {
		if cons, ok := d.ConsensusState(clientID, clienttypes.NewHeight(rev, h)); ok {
			if i, ok := d.byHash[string(cons.NextValidatorsHash)]; ok {
				return i
			}
		}
	}
	return 0
}

// BuildHeader signs the header described by s. clientID is only used to resolve "auto"
// validator sets against the trusted consensus state currently stored on chain A.
func (d *Driver) BuildHeader(clientID string, s HeaderSpec) *ibctm.Header {
	vi := d.resolveVals(clientID, s.ValSet, s.TrustedRev, s.TrustedHeight)
	ti := d.resolveVals(clientID, s.TrustedValSet, s.TrustedRev, s.TrustedHeight)
	vals, trusted := d.ValSets[vi], d.ValSets[ti]
	next := d.ValSets[((s.NextValSet%len(d.ValSets))+len(d.ValSets))%len(d.ValSets)]
	chainID := ChainID(s.Rev)
	appHash := s.AppHashRaw
	if appHash == nil {
		appHash = AppHash(s.AppTag)
	}
	unused := tmhash.Sum([]byte("tmsim-unused"))
	ts := time.Unix(0, s.TimeNs).UTC()
	hdr := cmttypes.Header{
		Version:            cmtprotoversion.Consensus{Block: cmtversion.BlockProtocol, App: 2},
		ChainID:            chainID,
		Height:             int64(s.Height),
		Time:               ts,
		LastBlockID:        ibctesting.MakeBlockID(make([]byte, tmhash.Size), 10_000, make([]byte, tmhash.Size)),
		LastCommitHash:     unused,
		DataHash:           unused,
		ValidatorsHash:     vals.Hash(),
		NextValidatorsHash: next.Hash(),
		ConsensusHash:      unused,
		AppHash:            appHash,
		LastResultsHash:    unused,
		EvidenceHash:       unused,
		ProposerAddress:    vals.Validators[0].Address,
	}
	blockID := ibctesting.MakeBlockID(hdr.Hash(), 3, unused)
	commit := &cmttypes.Commit{Height: hdr.Height, Round: 1, BlockID: blockID, Signatures: make([]cmttypes.CommitSig, len(vals.Validators))}
	for i, v := range vals.Validators {
		if s.Absent&(1<<uint(i)) != 0 {
			commit.Signatures[i] = cmttypes.NewCommitSigAbsent()
			continue
		}
		commit.Signatures[i] = cmttypes.CommitSig{BlockIDFlag: cmttypes.BlockIDFlagCommit, ValidatorAddress: v.Address, Timestamp: ts}
		key := d.Keys[d.byAddr[string(v.Address)]]
		signBytes := commit.VoteSignBytes(chainID, int32(i))
		if s.BadSig&(1<<uint(i)) != 0 {
			signBytes = append([]byte("bad/"), signBytes...)
		}
		sig, err := key.Sign(signBytes)
		if err != nil {
			vx.Harnessf("tmsim: sign: %v", err)
		}
		commit.Signatures[i].Signature = sig
	}
	valsProto, err := vals.ToProto()
	if err != nil {
		vx.Harnessf("tmsim: valset proto: %v", err)
	}
	valsProto.TotalVotingPower = vals.TotalVotingPower()
	trustedProto, err := trusted.ToProto()
	if err != nil {
		vx.Harnessf("tmsim: trusted valset proto: %v", err)
	}
	trustedProto.TotalVotingPower = trusted.TotalVotingPower()
	return &ibctm.Header{
		SignedHeader:      &cmtproto.SignedHeader{Header: hdr.ToProto(), Commit: commit.ToProto()},
		ValidatorSet:      valsProto,
		TrustedHeight:     clienttypes.NewHeight(s.TrustedRev, s.TrustedHeight),
		TrustedValidators: trustedProto,
	}
}

// ConsBytes is the exact value 07-tendermint stores for the consensus state a header
// yields (the protobuf Any encoding of ibctm.ConsensusState).
func (d *Driver) ConsBytes(h *ibctm.Header) []byte {
	return clienttypes.MustMarshalConsensusState(d.W.App(d.Chain).AppCodec(), h.ConsensusState())
}

// Update delivers MsgUpdateClient{header}.
func (d *Driver) Update(clientID string, h *ibctm.Header, signer int) sim.TxResult {
	return d.SubmitClientMessage(clientID, h, signer)
}

// Misbehaviour delivers MsgUpdateClient{Misbehaviour{h1,h2}} (h1.height >= h2.height).
func (d *Driver) Misbehaviour(clientID string, h1, h2 *ibctm.Header, signer int) sim.TxResult {
	return d.SubmitClientMessage(clientID, ibctm.NewMisbehaviour(clientID, h1, h2), signer)
}

// SubmitClientMessage delivers any client message through the real tx path.
func (d *Driver) SubmitClientMessage(clientID string, m exported.ClientMessage, signer int) sim.TxResult {
	msg, err := clienttypes.NewMsgUpdateClient(clientID, m, d.W.Addr(d.Chain, signer).String())
	if err != nil {
		vx.Harnessf("tmsim: NewMsgUpdateClient: %v", err)
	}
	return d.W.Deliver(d.Chain, signer, msg)
}

// ---- keeper-level operations that have no user transaction ------------------------------

// Recover performs what MsgRecoverClient does after its authority check: a cached
// ClientKeeper.RecoverClient call that is written only on success, then one block.
func (d *Driver) Recover(subject, substitute string) error {
	ctx, write := d.ctx().CacheContext()
	err := d.W.App(d.Chain).IBCKeeper.ClientKeeper.RecoverClient(ctx, subject, substitute)
	if err == nil {
		write()
	}
	d.Block(1)
	return err
}

// FreezeDirect writes the client state with FrozenHeight set (state injection, used only
// where no transaction can produce the state), then commits a block.
func (d *Driver) FreezeDirect(clientID string) {
	cs := d.ClientState(clientID)
	if cs == nil {
		vx.Harnessf("tmsim: no client state for %s", clientID)
	}
	cs.FrozenHeight = ibctm.FrozenHeight
	d.W.App(d.Chain).IBCKeeper.ClientKeeper.SetClientState(d.ctx(), clientID, cs)
	d.Block(1)
}

// DropConsensusState deletes one consensus state with its metadata straight from the
// store (state injection), then commits a block.
func (d *Driver) DropConsensusState(clientID string, h clienttypes.Height) {
	st := d.Store(clientID)
	st.Delete(host.ConsensusStateKey(h))
	st.Delete(ibctm.ProcessedTimeKey(h))
	st.Delete(ibctm.ProcessedHeightKey(h))
	st.Delete(ibctm.IterationKey(h))
	d.Block(1)
}

// ---- readers ---------------------------------------------------------------------------------

// Store is the client-prefixed store of clientID at chain A's current state.
func (d *Driver) Store(clientID string) storetypes.KVStore {
	return d.W.App(d.Chain).IBCKeeper.ClientKeeper.ClientStore(d.ctx(), clientID)
}

// Status is ClientKeeper.GetClientStatus at the current clock.
func (d *Driver) Status(clientID string) exported.Status {
	return d.W.App(d.Chain).IBCKeeper.ClientKeeper.GetClientStatus(d.ctx(), clientID)
}

// ClientState decodes the stored client state (nil if absent / not tendermint).
func (d *Driver) ClientState(clientID string) *ibctm.ClientState {
	bz := d.Store(clientID).Get(host.ClientStateKey())
	if len(bz) == 0 {
		return nil
	}
	csI, err := clienttypes.UnmarshalClientState(d.W.App(d.Chain).AppCodec(), bz)
	if err != nil {
		return nil
	}
	cs, _ := csI.(*ibctm.ClientState)
	return cs
}

// ConsensusState decodes the stored consensus state at h.
func (d *Driver) ConsensusState(clientID string, h clienttypes.Height) (*ibctm.ConsensusState, bool) {
	return d.DecodeCons(d.Store(clientID).Get(host.ConsensusStateKey(h)))
}

// DecodeCons decodes raw consensus-state bytes as stored by 07-tendermint.
func (d *Driver) DecodeCons(bz []byte) (*ibctm.ConsensusState, bool) {
	if len(bz) == 0 {
		return nil, false
	}
	cI, err := clienttypes.UnmarshalConsensusState(d.W.App(d.Chain).AppCodec(), bz)
	if err != nil {
		return nil, false
	}
	c, ok := cI.(*ibctm.ConsensusState)
	return c, ok
}

// H is a (revision, height) pair usable as a map key.
type H struct{ Rev, Height uint64 }

func (h H) Less(o H) bool { return h.Rev < o.Rev || (h.Rev == o.Rev && h.Height < o.Height) }
func (h H) String() string {
	return strconv.FormatUint(h.Rev, 10) + "-" + strconv.FormatUint(h.Height, 10)
}
func (h H) IBC() clienttypes.Height { return clienttypes.NewHeight(h.Rev, h.Height) }

// RawStore is an independent parse of every key of one client store.
type RawStore struct {
	All         map[string]string // every key/value
	ClientState []byte
	Cons        map[H][]byte // consensusStates/<rev>-<h>
	PTime       map[H][]byte // consensusStates/<rev>-<h>/processedTime
	PHeight     map[H][]byte // consensusStates/<rev>-<h>/processedHeight
	Iter        map[H][]byte // iterateConsensusStates<BE rev><BE h> -> value
	IterOrder   []H          // iteration keys in raw store (byte) order
	Other       []string     // keys that are none of the above
}

const (
	consPrefix = "consensusStates/"
	iterPrefix = "iterateConsensusStates"
)

func parseH(s string) (H, bool) {
	i := strings.IndexByte(s, '-')
	if i <= 0 {
		return H{}, false
	}
	r, err1 := strconv.ParseUint(s[:i], 10, 64)
	h, err2 := strconv.ParseUint(s[i+1:], 10, 64)
	if err1 != nil || err2 != nil {
		return H{}, false
	}
	// canonical decimal only
	if strconv.FormatUint(r, 10) != s[:i] || strconv.FormatUint(h, 10) != s[i+1:] {
		return H{}, false
	}
	return H{r, h}, true
}

// ReadRaw dumps and parses the client store of clientID without using any 07-tendermint
// store helper (keys are recognised by their ICS-24 / documented layout).
func (d *Driver) ReadRaw(clientID string) *RawStore {
	rs := &RawStore{All: map[string]string{}, Cons: map[H][]byte{}, PTime: map[H][]byte{}, PHeight: map[H][]byte{}, Iter: map[H][]byte{}}
	it := d.Store(clientID).Iterator(nil, nil)
	defer it.Close()
	for ; it.Valid(); it.Next() {
		k, v := string(it.Key()), append([]byte(nil), it.Value()...)
		rs.All[k] = string(v)
		switch {
		case k == "clientState":
			rs.ClientState = v
		case strings.HasPrefix(k, iterPrefix) && len(k) == len(iterPrefix)+16:
			b := []byte(k[len(iterPrefix):])
			h := H{binary.BigEndian.Uint64(b[:8]), binary.BigEndian.Uint64(b[8:])}
			rs.Iter[h] = v
			rs.IterOrder = append(rs.IterOrder, h)
		case strings.HasPrefix(k, consPrefix):
			rest := k[len(consPrefix):]
			switch {
			case strings.HasSuffix(rest, "/processedTime"):
				if h, ok := parseH(strings.TrimSuffix(rest, "/processedTime")); ok {
					rs.PTime[h] = v
					continue
				}
				rs.Other = append(rs.Other, k)
			case strings.HasSuffix(rest, "/processedHeight"):
				if h, ok := parseH(strings.TrimSuffix(rest, "/processedHeight")); ok {
					rs.PHeight[h] = v
					continue
				}
				rs.Other = append(rs.Other, k)
			default:
				if h, ok := parseH(rest); ok {
					rs.Cons[h] = v
					continue
				}
				rs.Other = append(rs.Other, k)
			}
		default:
			rs.Other = append(rs.Other, k)
		}
	}
	return rs
}

// Heights returns the heights that have a consensus state, ascending by (rev, height).
func (rs *RawStore) Heights() []H { return SortedHeights(rs.Cons) }

// SortedHeights returns the keys of m ascending by (rev, height).
func SortedHeights(m map[H][]byte) []H {
	out := make([]H, 0, len(m))
	for h := range m {
		out = append(out, h)
	}
	sort.Slice(out, func(i, j int) bool { return out[i].Less(out[j]) })
	return out
}

// DiffKeys lists the raw keys whose presence or value differs between two dumps, sorted.
func DiffKeys(a, b *RawStore) []string {
	var out []string
	for k, v := range a.All {
		if bv, ok := b.All[k]; !ok || bv != v {
			out = append(out, k)
		}
	}
	for k := range b.All {
		if _, ok := a.All[k]; !ok {
			out = append(out, k)
		}
	}
	sort.Strings(out)
	return out
}

// KeysOf returns the four raw keys that belong to consensus height h.
func KeysOf(h H) []string {
	var ib [16]byte
	binary.BigEndian.PutUint64(ib[:8], h.Rev)
	binary.BigEndian.PutUint64(ib[8:], h.Height)
	c := consPrefix + h.String()
	return []string{c, c + "/processedTime", c + "/processedHeight", iterPrefix + string(ib[:])}
}

// IterateAscending returns what ibctm.IterateConsensusStateAscending yields.
func (d *Driver) IterateAscending(clientID string) []H {
	var out []H
	ibctm.IterateConsensusStateAscending(d.Store(clientID), func(h exported.Height) bool {
		out = append(out, H{h.GetRevisionNumber(), h.GetRevisionHeight()})
		return false
	})
	return out
}

// Prev / Next return the raw (re-marshalled) consensus state 07-tendermint reports as the
// previous / next neighbour of h.
func (d *Driver) Prev(clientID string, h H) ([]byte, bool) {
	c, ok := ibctm.GetPreviousConsensusState(d.Store(clientID), d.W.App(d.Chain).AppCodec(), h.IBC())
	if !ok {
		return nil, false
	}
	return clienttypes.MustMarshalConsensusState(d.W.App(d.Chain).AppCodec(), c), true
}

func (d *Driver) Next(clientID string, h H) ([]byte, bool) {
	c, ok := ibctm.GetNextConsensusState(d.Store(clientID), d.W.App(d.Chain).AppCodec(), h.IBC())
	if !ok {
		return nil, false
	}
	return clienttypes.MustMarshalConsensusState(d.W.App(d.Chain).AppCodec(), c), true
}

// ---- proofs against the virtual chain --------------------------------------------------

// Mirror is a snapshot of chain A's own committed state that a header of V can commit to
// (as its app hash), so that real membership / non-membership proofs verify against V.
type Mirror struct {
	AppHash     []byte
	Key         []byte // a key present in A's ibc store
	Value       []byte
	Proof       []byte
	AbsentKey   []byte // a key absent from A's ibc store
	AbsentProof []byte
}

// MirrorNow captures chain A's last committed app hash together with a membership proof of
// `key` and a non-membership proof of `absent` in the ibc store at that version.
func (d *Driver) MirrorNow(key, absent []byte) (Mirror, bool) {
	c := d.W.Chains[d.Chain]
	ver := c.App.LastBlockHeight()
	m := Mirror{AppHash: append([]byte(nil), c.ProposedHeader.AppHash...), Key: key, AbsentKey: absent}
	q := func(k []byte) ([]byte, []byte, bool) {
		res, err := c.App.Query(d.ctx().Context(), &abci.RequestQuery{Path: "store/" + exported.StoreKey + "/key", Height: ver, Data: k, Prove: true})
		if err != nil || res == nil || res.ProofOps == nil {
			return nil, nil, false
		}
		mp, err := commitmenttypes.ConvertProofs(res.ProofOps)
		if err != nil {
			return nil, nil, false
		}
		bz, err := proto.Marshal(&mp)
		if err != nil {
			return nil, nil, false
		}
		return res.Value, bz, true
	}
	var ok bool
	if m.Value, m.Proof, ok = q(key); !ok || len(m.Value) == 0 {
		return m, false
	}
	var v []byte
	if v, m.AbsentProof, ok = q(absent); !ok || len(v) != 0 {
		return m, false
	}
	return m, true
}

// Path is the merkle path of an ibc-store key of a chain with the default "ibc" prefix.
func Path(key []byte) commitmenttypesv2.MerklePath {
	return commitmenttypesv2.NewMerklePath([]byte(exported.StoreKey), key)
}

// VerifyMembership / VerifyNonMembership call the ClientKeeper entry points on a cached
// context that is discarded.
func (d *Driver) VerifyMembership(clientID string, h H, proof, key, value []byte) error {
	ctx, _ := d.ctx().CacheContext()
	return d.W.App(d.Chain).IBCKeeper.ClientKeeper.VerifyMembership(ctx, clientID, h.IBC(), 0, 0, proof, Path(key), value)
}

func (d *Driver) VerifyNonMembership(clientID string, h H, proof, key []byte) error {
	ctx, _ := d.ctx().CacheContext()
	return d.W.App(d.Chain).IBCKeeper.ClientKeeper.VerifyNonMembership(ctx, clientID, h.IBC(), 0, 0, proof, Path(key))
}

var _ = bytes.Equal
var _ = fmt.Sprintf
