package tm

import (
	"fmt"
	"testing"
	"time"

	"github.com/cosmos/ibc-go/v11/modules/apps/callbacks/verifx/sim"
	"github.com/cosmos/ibc-go/v11/modules/apps/callbacks/verifx/tmsim"
)

func TestProbe(t *testing.T) {
	t0 := time.Now()
	w := sim.NewWorld(t, 1, nil)
	fmt.Println("world", time.Since(t0))
	d := tmsim.New(w, 0, nil)
	now := d.Now()
	id, res := d.CreateClient(tmsim.Params{Rev: 1, Height: 47, TimeNs: now.Add(-100 * time.Second).UnixNano(), NextValSet: 0, TrustingPeriod: 1000 * time.Second}, 0)
	fmt.Println("create", id, res.OK, res.Err, d.Status(id))
	h := d.BuildHeader(id, tmsim.HeaderSpec{Rev: 1, Height: 0x2f00, TimeNs: now.Add(-50 * time.Second).UnixNano(), TrustedRev: 1, TrustedHeight: 47, ValSet: -1, NextValSet: 1, TrustedValSet: -1, AppTag: 3})
	r := d.Update(id, h, 0)
	fmt.Println("update", r.OK, r.Err, d.Status(id))
	h2 := d.BuildHeader(id, tmsim.HeaderSpec{Rev: 1, Height: 1 << 62, TimeNs: now.Add(-40 * time.Second).UnixNano(), TrustedRev: 1, TrustedHeight: 0x2f00, ValSet: 3, NextValSet: 2, TrustedValSet: -1, AppTag: 4})
	r = d.Update(id, h2, 0)
	fmt.Println("update2", r.OK, r.Err, d.Status(id))
	h3 := d.BuildHeader(id, tmsim.HeaderSpec{Rev: 1, Height: 48, TimeNs: now.Add(-60 * time.Second).UnixNano(), TrustedRev: 1, TrustedHeight: 47, ValSet: -1, NextValSet: 2, TrustedValSet: -1, AppTag: 5})
	r = d.Update(id, h3, 0)
	fmt.Println("update3 adjacent past", r.OK, r.Err, d.Status(id))
	rs := d.ReadRaw(id)
	fmt.Println(rs.Heights(), len(rs.PTime), len(rs.PHeight), rs.IterOrder, rs.Other, d.IterateAscending(id))
	// partial commit
	h4 := d.BuildHeader(id, tmsim.HeaderSpec{Rev: 1, Height: 100, TimeNs: now.Add(-55 * time.Second).UnixNano(), TrustedRev: 1, TrustedHeight: 48, ValSet: 0, NextValSet: 2, TrustedValSet: -1, AppTag: 5, Absent: 0b0110})
	r = d.Update(id, h4, 0)
	fmt.Println("update4 partial", r.OK, r.Err)
	// conflict
	h5 := d.BuildHeader(id, tmsim.HeaderSpec{Rev: 1, Height: 48, TimeNs: now.Add(-60 * time.Second).UnixNano(), TrustedRev: 1, TrustedHeight: 47, ValSet: -1, NextValSet: 2, TrustedValSet: -1, AppTag: 6})
	m, ok := d.MirrorNow([]byte("clients/"+id+"/clientState"), []byte("vx/absent"))
	fmt.Println("mirror", ok, len(m.Proof), len(m.AbsentProof))
	h6 := d.BuildHeader(id, tmsim.HeaderSpec{Rev: 1, Height: 200, TimeNs: now.Add(-52 * time.Second).UnixNano(), TrustedRev: 1, TrustedHeight: 48, ValSet: 0, NextValSet: 2, TrustedValSet: -1, AppHashRaw: m.AppHash})
	r = d.Update(id, h6, 0)
	fmt.Println("update6 mirror", r.OK, r.Err)
	fmt.Println("verify mem", d.VerifyMembership(id, tmsim.H{1, 200}, m.Proof, m.Key, m.Value))
	fmt.Println("verify nonmem", d.VerifyNonMembership(id, tmsim.H{1, 200}, m.AbsentProof, m.AbsentKey))
	fmt.Println("verify mem wrong", d.VerifyMembership(id, tmsim.H{1, 48}, m.Proof, m.Key, m.Value))
	r = d.Update(id, h5, 0)
	fmt.Println("conflict", r.OK, r.Err, d.Status(id))
	fmt.Println("total", time.Since(t0))
}
