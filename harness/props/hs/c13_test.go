package hs

import (
	"fmt"
	"strings"
	"testing"

	"pgregory.net/rapid"

	sdk "github.com/cosmos/cosmos-sdk/types"

	connectiontypes "github.com/cosmos/ibc-go/v11/modules/core/03-connection/types"
	channeltypes "github.com/cosmos/ibc-go/v11/modules/core/04-channel/types"
	commitmenttypes "github.com/cosmos/ibc-go/v11/modules/core/23-commitment/types"
	host "github.com/cosmos/ibc-go/v11/modules/core/24-host"
	"github.com/cosmos/ibc-go/v11/modules/core/exported"
	ibctesting "github.com/cosmos/ibc-go/v11/testing"
	ibcmock "github.com/cosmos/ibc-go/v11/testing/mock"

	"github.com/cosmos/ibc-go/v11/modules/apps/callbacks/verifx/sim"
	"github.com/cosmos/ibc-go/v11/modules/apps/callbacks/verifx/vx"
)

// C13 (stateful part): connection handshake safety, localhost refusal and the channel-side
// version guard.
//
// Two chains with 1 or 2 honest Tendermint client pairs and NO connections. Every connection
// handshake message is built by hand (generated version lists, delay periods, crossing INITs,
// stale / unknown proof heights, wrong client / prefix / delay, verbatim replays). A "plant" op
// overwrites the version list or delay period of an existing connection end by a direct store
// write (ConnectionKeeper.SetConnection): this models a counterparty that is not ibc-go and lets
// every single check of Ack / Confirm / ChanOpenInit / ChanOpenTry be probed in isolation. The
// oracle is relative to the RECORDED per-height history of both chains' connection ends.

type c13Attempt struct {
	Cl    int    // client pair
	IV    int    // version selector for MsgConnectionOpenInit (see initVersion)
	Delay uint64 // delay period proposed by INIT
	First int    // chain that sends the first INIT
	Ord   int    // ordering of the channel opened afterwards
}

type c13Op struct {
	K string // init try ack confirm update block plant replay lh chaninit chantry
	C int
	A int
	L int    // local connection id selector
	R int    // remote connection id / channel id selector
	H int    // proof height selector
	M string // mutation / plant kind / replay kind filter
	V int    // version list selector: -1 honest (what a relayer reads off the counterparty), k = VLists[k]
	N int    // replay index / localhost probe variant
	O int    // channel ordering: 0 honest (chantry) / attempt's (chaninit), 1 UNORDERED, 2 ORDERED
}

type c13Case struct {
	NCl      int
	VLists   [][]pver
	Attempts []c13Attempt
	Ops      []c13Op
}

var c13Kinds = []string{"init", "try", "ack", "confirm", "update", "block", "plant", "replay", "lh", "chaninit", "chantry"}
var c13Muts = []string{"cl", "cpcl", "prefix", "delay", "xa"}
var c13Plants = []string{"v0", "v2", "v1o", "v1u", "vx", "vl", "delay"}

// plants used right before a channel-open probe: biased to the cases the channel-side guard decides
var c13ChanPlants = []string{"v1o", "v1u", "v1o", "v1u", "v2", "v2", "v0", "vx", "vl"}

const (
	fO = "ORDER_ORDERED"
	fU = "ORDER_UNORDERED"
)

// initVersion maps the attempt's selector to the optional version of MsgConnectionOpenInit.
func initVersion(cs c13Case, sel int) *connectiontypes.Version {
	fixed := []*connectiontypes.Version{
		nil, nil,
		connectiontypes.NewVersion("1", []string{fO, fU}),
		connectiontypes.NewVersion("1", []string{fO}),
		connectiontypes.NewVersion("1", []string{fU}),
		connectiontypes.NewVersion("1", []string{fU, fO}),
		connectiontypes.NewVersion("2", []string{fO}),
		connectiontypes.NewVersion("1", []string{fO, "X"}),
		connectiontypes.NewVersion("1", nil),
	}
	if sel < len(fixed) {
		return fixed[sel]
	}
	if len(cs.VLists) > 0 {
		if l := cs.VLists[(sel-len(fixed))%len(cs.VLists)]; len(l) > 0 {
			return l[0].v()
		}
	}
	return nil
}

func genC13Op(nAtt, nLists int) func(t *rapid.T) c13Op {
	return func(t *rapid.T) c13Op {
		k := rapid.SampledFrom(c13Kinds).Draw(t, "k")
		ms := append([]string{"", "", ""}, c13Muts...)
		if k == "plant" {
			ms = c13Plants
		}
		return c13Op{
			K: k,
			C: rapid.IntRange(0, 1).Draw(t, "c"),
			A: rapid.IntRange(0, nAtt-1).Draw(t, "a"),
			L: rapid.IntRange(-1, 2).Draw(t, "l"),
			R: rapid.IntRange(-1, 2).Draw(t, "r"),
			H: rapid.IntRange(-1, 3).Draw(t, "h"),
			M: rapid.SampledFrom(ms).Draw(t, "m"),
			V: rapid.IntRange(-1, nLists-1).Draw(t, "v"),
			N: rapid.IntRange(0, 5).Draw(t, "n"),
			O: rapid.IntRange(0, 2).Draw(t, "o"),
		}
	}
}

func genC13(t *rapid.T) c13Case {
	c := c13Case{NCl: 1}
	if chance(t, 35, "twoClients") {
		c.NCl = 2
	}
	for k := rapid.IntRange(1, 3).Draw(t, "nLists"); k > 0; k-- {
		l := genPverList(t, 3)
		// keep the lists mostly ValidateBasic-clean so that they reach the handlers
		for i := range l {
			if chance(t, 85, "clean") {
				if strings.TrimSpace(l[i].ID) == "" {
					l[i].ID = "1"
				}
				var f []string
				for _, x := range l[i].F {
					if strings.TrimSpace(x) != "" && len(f) < 4 {
						f = append(f, x)
					}
				}
				l[i].F = f
			}
		}
		c.VLists = append(c.VLists, l)
	}
	nAtt := rapid.IntRange(1, 2).Draw(t, "attempts")
	var lists [][]c13Op
	for a := 0; a < nAtt; a++ {
		att := c13Attempt{
			Cl:    rapid.IntRange(0, c.NCl-1).Draw(t, "cl"),
			IV:    rapid.IntRange(0, 5).Draw(t, "iv"), // always a version ibc-go supports; unsupported ones come as "badv" variants
			Delay: rapid.SampledFrom([]uint64{0, 0, 1, 7, 1_000_000_000_000_000_000}).Draw(t, "delay"),
			First: rapid.IntRange(0, 1).Draw(t, "first"),
			Ord:   rapid.IntRange(1, 2).Draw(t, "ord"),
		}
		c.Attempts = append(c.Attempts, att)
		lists = append(lists, genC13Skeleton(t, a, att, len(c.VLists)))
	}
	var noise []c13Op
	for k := rapid.IntRange(0, 2).Draw(t, "noise"); k > 0; k-- {
		noise = append(noise, c13Op{K: rapid.SampledFrom([]string{"update", "block"}).Draw(t, "nk"),
			C: rapid.IntRange(0, 1).Draw(t, "nc"), A: rapid.IntRange(0, nAtt-1).Draw(t, "na"), H: -1, V: -1})
	}
	for k := rapid.IntRange(1, 2).Draw(t, "lhProbes"); k > 0; k-- {
		noise = append(noise, c13Op{K: "lh", C: rapid.IntRange(0, 1).Draw(t, "lc"), A: rapid.IntRange(0, nAtt-1).Draw(t, "la"),
			N: rapid.IntRange(0, 4).Draw(t, "lv"), R: -1, H: -1, V: -1})
	}
	lists = append(lists, noise)
	c.Ops = interleave(t, lists)
	c.Ops = perturb(t, c.Ops, rapid.IntRange(0, 4).Draw(t, "edits"), genC13Op(nAtt, len(c.VLists)))
	if len(c.Ops) > 36 {
		c.Ops = c.Ops[:36]
	}
	return c
}

func genC13Skeleton(t *rapid.T, a int, att c13Attempt, nLists int) []c13Op {
	x, y := att.First, 1-att.First
	var out []c13Op
	step := func(op c13Op) {
		op.A, op.H, op.V = a, -1, -1
		if op.K != "init" && op.K != "chaninit" && chance(t, 18, "stale") {
			s := op
			s.H = rapid.IntRange(0, 2).Draw(t, "staleH")
			out = append(out, s)
		}
		if (op.K == "try" || op.K == "ack" || op.K == "confirm") && chance(t, 20, "mut") {
			m := op
			if chance(t, 40, "mutV") {
				m.V = rapid.IntRange(0, nLists-1).Draw(t, "mutVsel")
			} else {
				m.M = rapid.SampledFrom(c13Muts).Draw(t, "mutKind")
			}
			out = append(out, m)
		}
		if chance(t, 94, "keep") {
			out = append(out, op)
		}
	}
	plant := func(c, l int, kinds []string) {
		out = append(out, c13Op{K: "plant", C: c, A: a, L: l, H: -1, M: rapid.SampledFrom(kinds).Draw(t, "plantKind"), V: rapid.IntRange(0, nLists-1).Draw(t, "plantV")})
	}
	// probe: the counterparty (or this chain's own connection) stores something else than what was
	// negotiated, one message is tried against it, then the stored value is restored so that the
	// honest handshake can go on
	probe := func(c, l int, kinds []string, op c13Op) {
		plant(c, l, kinds)
		op.A, op.H, op.V = a, -1, -1
		out = append(out, op)
		out = append(out, c13Op{K: "plant", C: c, A: a, L: l, H: -1, M: "undo", V: -1})
	}
	if chance(t, 25, "badInit") {
		out = append(out, c13Op{K: "init", C: x, A: a, H: -1, V: -1, M: "badv", N: rapid.IntRange(0, 2).Draw(t, "badv")})
	}
	step(c13Op{K: "init", C: x})
	ty := 0
	if chance(t, 30, "crossing") {
		step(c13Op{K: "init", C: y})
		ty = 1
	}
	step(c13Op{K: "try", C: y, R: 0})
	if chance(t, 30, "ackProbe") {
		probe(y, ty, []string{"vx", "v1o", "v1u", "vl", "delay", "v2"}, c13Op{K: "ack", C: x, L: 0, R: ty})
	}
	step(c13Op{K: "ack", C: x, L: 0, R: ty})
	if chance(t, 25, "confirmProbe") {
		probe(x, 0, []string{"vx", "v1o", "delay", "delay", "vl"}, c13Op{K: "confirm", C: y, L: ty})
	}
	step(c13Op{K: "confirm", C: y, L: ty})
	if chance(t, 30, "replayHs") {
		out = append(out, c13Op{K: "replay", C: rapid.IntRange(0, 1).Draw(t, "rc"), A: a, M: rapid.SampledFrom([]string{"ack", "confirm", "try", ""}).Draw(t, "rk"), N: rapid.IntRange(0, 2).Draw(t, "rn"), H: -1, V: -1})
	}
	// channel phase: probe the single-version / ordering guard of ChanOpenInit and ChanOpenTry
	if chance(t, 85, "chanPhase") {
		if chance(t, 45, "plantX") {
			probe(x, 0, c13ChanPlants, c13Op{K: "chaninit", C: x, L: 0, O: rapid.IntRange(0, 2).Draw(t, "probeInitOrd")})
		}
		step(c13Op{K: "chaninit", C: x, L: 0})
		if chance(t, 55, "plantY") {
			probe(y, ty, c13ChanPlants, c13Op{K: "chantry", C: y, L: ty, R: -1})
		}
		step(c13Op{K: "chantry", C: y, L: ty, R: -1, O: rapid.SampledFrom([]int{0, 0, 0, 1, 2}).Draw(t, "tryOrd")})
	}
	return out
}

// ---- execution -----------------------------------------------------------------------

type connEnds = map[string]connectiontypes.ConnectionEnd

type c13World struct {
	w       *sim.World
	clients [2][]string
	ids     [][2][]string // connection ids per attempt per chain
	chans   [2][]string   // channel ids created on each chain
	cur     [2]connEnds
	hist    [2]hist[connectiontypes.ConnectionEnd]
	sent    []sentRec
	sentVer map[int][]pver                           // index in sent -> counterparty versions of a MsgConnectionOpenTry
	saved   map[string]connectiontypes.ConnectionEnd // "chain/id" -> end before the first not-yet-undone plant
}

func (x *c13World) readConns(c int) connEnds {
	out := connEnds{}
	for _, ic := range x.w.App(c).IBCKeeper.ConnectionKeeper.GetAllConnections(x.w.Ctx(c)) {
		out[ic.Id] = connectiontypes.ConnectionEnd{ClientId: ic.ClientId, Versions: ic.Versions, State: ic.State, Counterparty: ic.Counterparty, DelayPeriod: ic.DelayPeriod}
	}
	return out
}

func (x *c13World) chanIDs(c int) []string {
	var out []string
	for _, ic := range x.w.App(c).IBCKeeper.ChannelKeeper.GetAllChannels(x.w.Ctx(c)) {
		if ic.PortId == ibcmock.PortID {
			out = append(out, ic.ChannelId)
		}
	}
	return out
}

func newC13World(outer *testing.T, ncl, nAtt int) *c13World {
	x := &c13World{w: sim.NewWorld(outer, 2, nil), ids: make([][2][]string, nAtt), sentVer: map[int][]pver{}, saved: map[string]connectiontypes.ConnectionEnd{}}
	w := x.w
	sim.Guard("client setup", func() {
		for k := 0; k < ncl; k++ {
			p := ibctesting.NewPath(w.Chains[0], w.Chains[1])
			p.SetupClients()
			x.clients[0] = append(x.clients[0], p.EndpointA.ClientID)
			x.clients[1] = append(x.clients[1], p.EndpointB.ClientID)
		}
	})
	for c := 0; c < 2; c++ {
		x.cur[c] = x.readConns(c)
		x.hist[c].record(w.Height(c), x.cur[c])
	}
	return x
}

func (x *c13World) clientFor(c int, att c13Attempt, other bool) string {
	n := len(x.clients[c])
	i := att.Cl % n
	if !other {
		return x.clients[c][i]
	}
	if n == 1 {
		return "07-tendermint-9"
	}
	return x.clients[c][(i+1)%n]
}

// realClient returns a client of chain c that exists (for height selection), preferring want.
func (x *c13World) realClient(c int, want string, att c13Attempt) string {
	for _, cl := range x.clients[c] {
		if cl == want {
			return cl
		}
	}
	return x.clientFor(c, att, false)
}

type c13Step struct {
	kind    string
	chain   int
	h       uint64
	ok      bool
	hadTx   bool
	planted bool
	stale   bool
	replay  bool
	basicOK bool
	cpVers  []pver // try: the counterparty versions carried by the message
	lh      int    // localhost probe variant+1 (0: not a probe)
	connID  string // chaninit / chantry: the connection named by the message
	order   channeltypes.Order
}

func (x *c13World) versionList(cs c13Case, sel int, honest []*connectiontypes.Version) []*connectiontypes.Version {
	if sel >= 0 && len(cs.VLists) > 0 {
		return toVersions(cs.VLists[sel%len(cs.VLists)])
	}
	return honest
}

var ibcPrefix = commitmenttypes.NewMerklePrefix([]byte("ibc"))

func (x *c13World) build(cs c13Case, op c13Op, st *c13Step) sdk.Msg {
	w := x.w
	c := op.C & 1
	o := 1 - c
	a := op.A % len(cs.Attempts)
	att := cs.Attempts[a]
	ra := a
	if op.M == "xa" {
		ra = (a + 1) % len(cs.Attempts)
	}
	signer := w.Addr(c, 0).String()
	localID := selID(x.ids[a][c], op.L, "connection-")
	remoteID := selID(x.ids[ra][o], op.R, "connection-")
	local, haveLocal := x.cur[c][localID]
	remote, haveRemote := x.cur[o][remoteID]

	switch op.K {
	case "init":
		delay := att.Delay
		if op.M == "delay" {
			delay++
		}
		v := initVersion(cs, att.IV)
		if op.V >= 0 {
			if l := x.versionList(cs, op.V, nil); len(l) > 0 {
				v = l[0]
			}
		}
		if op.M == "badv" { // versions ibc-go does not support
			v = initVersion(cs, 6+op.N%3)
		}
		return connectiontypes.NewMsgConnectionOpenInit(x.clientFor(c, att, op.M == "cl"), x.clientFor(o, att, op.M == "cpcl"), ibcPrefix, v, delay, signer)
	case "try":
		client := x.clientFor(c, att, op.M == "cl")
		cpClient := x.clientFor(o, att, op.M == "cpcl")
		delay := att.Delay
		honest := connectiontypes.GetCompatibleVersions()
		if haveRemote { // what a relayer reads off the counterparty
			delay, honest = remote.DelayPeriod, remote.Versions
		}
		if op.M == "delay" {
			delay++
		}
		prefix := ibcPrefix
		if op.M == "prefix" {
			prefix = commitmenttypes.NewMerklePrefix([]byte("xibc"))
		}
		vers := x.versionList(cs, op.V, honest)
		st.cpVers = fromVersions(vers)
		h, fresh := pickHeight(w, c, x.realClient(c, client, att), o, op.H)
		st.h, st.stale = h, !fresh && h < latestHeight(w, c, x.realClient(c, client, att))
		proof, ph := w.Proof(o, host.ConnectionKey(remoteID), h)
		return connectiontypes.NewMsgConnectionOpenTry(client, remoteID, cpClient, prefix, vers, delay, proof, ph, signer)
	case "ack":
		client := x.clientFor(c, att, false)
		if haveLocal {
			client = x.realClient(c, local.ClientId, att)
		}
		v := connectiontypes.DefaultIBCVersion
		if haveRemote && len(remote.Versions) > 0 {
			v = remote.Versions[0]
		}
		if l := x.versionList(cs, op.V, nil); len(l) > 0 {
			v = l[0]
		}
		h, fresh := pickHeight(w, c, client, o, op.H)
		st.h, st.stale = h, !fresh && h < latestHeight(w, c, client)
		proof, ph := w.Proof(o, host.ConnectionKey(remoteID), h)
		return connectiontypes.NewMsgConnectionOpenAck(localID, remoteID, proof, ph, v, signer)
	case "confirm":
		client := x.clientFor(c, att, false)
		proofID := remoteID
		if haveLocal {
			client = x.realClient(c, local.ClientId, att)
			if local.Counterparty.ConnectionId != "" && op.M != "xa" {
				proofID = local.Counterparty.ConnectionId
			}
		}
		h, fresh := pickHeight(w, c, client, o, op.H)
		st.h, st.stale = h, !fresh && h < latestHeight(w, c, client)
		proof, ph := w.Proof(o, host.ConnectionKey(proofID), h)
		return connectiontypes.NewMsgConnectionOpenConfirm(localID, proof, ph, signer)
	case "lh":
		// handshake messages over the localhost client / connection; everything else honest
		client := x.clientFor(c, att, false)
		cpClient := x.clientFor(o, att, false)
		h, _ := pickHeight(w, c, client, o, op.H)
		st.h = h
		proof, ph := w.Proof(o, host.ConnectionKey(remoteID), h)
		if len(proof) == 0 {
			proof = []byte{1} // keep the message past the empty-proof check: the probe is about the client id
		}
		st.lh = op.N%5 + 1
		switch op.N % 5 {
		case 0:
			return connectiontypes.NewMsgConnectionOpenInit(exported.LocalhostClientID, cpClient, ibcPrefix, initVersion(cs, att.IV%6), att.Delay, signer)
		case 1:
			delay, vers := att.Delay, connectiontypes.GetCompatibleVersions()
			if haveRemote && len(remote.Versions) > 0 {
				delay, vers = remote.DelayPeriod, remote.Versions
			}
			st.cpVers = fromVersions(vers)
			return connectiontypes.NewMsgConnectionOpenTry(exported.LocalhostClientID, remoteID, cpClient, ibcPrefix, vers, delay, proof, ph, signer)
		case 2:
			return connectiontypes.NewMsgConnectionOpenAck(exported.LocalhostConnectionID, remoteID, proof, ph, connectiontypes.DefaultIBCVersion, signer)
		case 3:
			return connectiontypes.NewMsgConnectionOpenConfirm(exported.LocalhostConnectionID, proof, ph, signer)
		default: // localhost named as the COUNTERPARTY client: measured, not claimed
			return connectiontypes.NewMsgConnectionOpenInit(client, exported.LocalhostClientID, ibcPrefix, nil, att.Delay, signer)
		}
	case "chaninit":
		ord := channeltypes.Order(att.Ord)
		if op.O != 0 {
			ord = channeltypes.Order(op.O)
		}
		st.connID, st.order = localID, ord
		return channeltypes.NewMsgChannelOpenInit(ibcmock.PortID, ibcmock.Version, ord, []string{localID}, ibcmock.PortID, signer)
	case "chantry":
		cpChan := selID(x.chans[o], op.R, "channel-")
		ord, cpVer := channeltypes.Order(att.Ord), ibcmock.Version
		if ch, ok := w.App(o).IBCKeeper.ChannelKeeper.GetChannel(w.Ctx(o), ibcmock.PortID, cpChan); ok {
			ord, cpVer = ch.Ordering, ch.Version
		}
		if op.O != 0 {
			ord = channeltypes.Order(op.O)
		}
		client := x.clientFor(c, att, false)
		if haveLocal {
			client = x.realClient(c, local.ClientId, att)
		}
		h, fresh := pickHeight(w, c, client, o, op.H)
		st.h, st.stale = h, !fresh && h < latestHeight(w, c, client)
		proof, ph := w.Proof(o, host.ChannelKey(ibcmock.PortID, cpChan), h)
		st.connID, st.order = localID, ord
		return channeltypes.NewMsgChannelOpenTry(ibcmock.PortID, ibcmock.Version, ord, []string{localID}, ibcmock.PortID, cpChan, cpVer, proof, ph, signer)
	}
	return nil
}

func plantedVersions(cs c13Case, op c13Op) []*connectiontypes.Version {
	switch op.M {
	case "v0":
		return nil
	case "v2":
		return []*connectiontypes.Version{connectiontypes.NewVersion("1", []string{fO, fU}), connectiontypes.NewVersion("2", []string{fO, fU})}
	case "v1o":
		return []*connectiontypes.Version{connectiontypes.NewVersion("1", []string{fO})}
	case "v1u":
		return []*connectiontypes.Version{connectiontypes.NewVersion("1", []string{fU})}
	case "vx":
		return []*connectiontypes.Version{connectiontypes.NewVersion("1", []string{fO, fU, "X"})}
	default:
		if len(cs.VLists) == 0 {
			return nil
		}
		v := op.V
		if v < 0 {
			v = 0
		}
		return toVersions(cs.VLists[v%len(cs.VLists)])
	}
}

func (x *c13World) exec(cs c13Case, op c13Op, rec *vx.Case) (c13Step, sim.Snap) {
	w := x.w
	c := op.C & 1
	o := 1 - c
	a := op.A % len(cs.Attempts)
	att := cs.Attempts[a]
	st := c13Step{chain: c}
	switch op.K {
	case "update":
		w.UpdateClient(c, x.clientFor(c, att, false), o, 0)
		return st, nil
	case "block":
		w.Block(c, 1)
		return st, nil
	case "plant":
		id := selID(x.ids[a][c], op.L, "connection-")
		end, ok := x.cur[c][id]
		if !ok {
			rec.Add("plant_skipped", 1)
			return st, nil
		}
		key := fmt.Sprintf("%d/%s", c, id)
		switch op.M {
		case "undo":
			old, had := x.saved[key]
			if !had {
				rec.Add("plant_skipped", 1)
				return st, nil
			}
			end.Versions, end.DelayPeriod = old.Versions, old.DelayPeriod
			delete(x.saved, key)
		case "delay":
			if _, had := x.saved[key]; !had {
				x.saved[key] = end
			}
			if end.DelayPeriod != 0 {
				end.DelayPeriod = 0
			} else {
				end.DelayPeriod = 1
			}
		default:
			if _, had := x.saved[key]; !had {
				x.saved[key] = end
			}
			end.Versions = plantedVersions(cs, op)
		}
		w.App(c).IBCKeeper.ConnectionKeeper.SetConnection(w.Ctx(c), id, end)
		w.Block(c, 1)
		st.planted = true
		rec.Add("planted", 1)
		return st, nil
	case "replay":
		var pool []int
		for i, s := range x.sent {
			if s.Chain == c && (op.M == "" || (s.Kind == op.M && s.A == a)) {
				pool = append(pool, i)
			}
		}
		if len(pool) == 0 {
			rec.Add("replay_skipped", 1)
			return st, nil
		}
		idx := pool[len(pool)-1-op.N%len(pool)]
		s := x.sent[idx]
		st.kind, st.h, st.replay, st.hadTx, st.cpVers = s.Kind, s.H, true, true, x.sentVer[idx]
		st.basicOK = validateBasic(s.Msg) == nil
		if m, ok := s.Msg.(*channeltypes.MsgChannelOpenInit); ok {
			st.connID, st.order = m.Channel.ConnectionHops[0], m.Channel.Ordering
		}
		if m, ok := s.Msg.(*channeltypes.MsgChannelOpenTry); ok {
			st.connID, st.order = m.Channel.ConnectionHops[0], m.Channel.Ordering
		}
		if s.H != 0 {
			st.stale = s.H < latestHeight(w, c, x.clientFor(c, att, false))
		}
		res := w.Deliver(c, 0, s.Msg)
		st.ok = res.OK
		x.noteNew(c, s.A, s.Kind, res.OK)
		return st, nil
	}
	msg := x.build(cs, op, &st)
	if msg == nil {
		return st, nil
	}
	st.kind, st.hadTx = op.K, true
	st.basicOK = validateBasic(msg) == nil
	var before sim.Snap
	if st.lh != 0 {
		before = w.Snapshot(c, exported.StoreKey)
	}
	res := w.Deliver(c, 0, msg)
	st.ok = res.OK
	debugf("C13 %+v -> ok=%v h=%d err=%v", op, res.OK, st.h, res.Err)
	if st.lh == 0 {
		x.sent = append(x.sent, sentRec{Chain: c, Kind: op.K, A: a, H: st.h, Msg: msg})
		if op.K == "try" {
			x.sentVer[len(x.sent)-1] = st.cpVers
		}
	}
	x.noteNew(c, a, op.K, res.OK)
	return st, before
}

func (x *c13World) noteNew(c, a int, kind string, ok bool) {
	if !ok {
		return
	}
	switch kind {
	case "init", "try", "lh":
		now := x.readConns(c)
		for _, k := range sortedKeys(now) {
			if _, had := x.cur[c][k]; !had {
				x.ids[a][c] = append(x.ids[a][c], k)
			}
		}
	case "chaninit", "chantry":
		x.chans[c] = x.chanIDs(c)
	}
}

func connStateName(s connectiontypes.State, exists bool) string {
	if !exists {
		return "NONE"
	}
	return strings.TrimPrefix(s.String(), "STATE_")
}

func singleVersion(vs []*connectiontypes.Version) (pver, bool) {
	if len(vs) != 1 || vs[0] == nil {
		return pver{}, false
	}
	return pver{ID: vs[0].Identifier, F: vs[0].Features}, true
}

func sameVersion(a, b pver) bool { return a.ID == b.ID && sameSet(a.F, b.F) }

// supportedBy: the version is acceptable to a side that offered `list`.
func supportedBy(list []*connectiontypes.Version, v pver) bool {
	if len(v.F) == 0 {
		return false
	}
	for _, e := range list {
		if e != nil && e.Identifier == v.ID && setEq(interSet(v.F, e.Features), fset(v.F)) {
			return true
		}
	}
	return false
}

func (x *c13World) check(t rapid.TB, rec *vx.Case, i int, op c13Op, st c13Step, before sim.Snap) {
	const id = "C13"
	w := x.w
	// ---- localhost probes: refused, nothing written
	if st.lh >= 1 && st.lh <= 4 {
		rec.Add("localhost_probes", 1)
		if st.ok {
			vx.Violatef(t, rec, id, fmt.Sprintf("localhost-handshake-accepted-%d", st.lh), "step %d %+v: a connection handshake message over the localhost client/connection was accepted on chain %d", i, op, st.chain)
		} else if d := sim.Diff(before, w.Snapshot(st.chain, exported.StoreKey)); len(d) > 0 {
			vx.Violatef(t, rec, id, "localhost-handshake-changed-state", "step %d %+v: refused localhost handshake message changed the IBC store of chain %d: %v", i, op, st.chain, d)
		}
	}
	if st.lh == 5 {
		if st.ok {
			rec.Add("localhost_as_counterparty_client_accepted", 1)
		} else {
			rec.Add("localhost_as_counterparty_client_refused", 1)
		}
	}
	// ---- channel-side guard: exactly one version containing the requested ordering
	if (st.kind == "chaninit" || st.kind == "chantry") && st.hadTx && st.ok {
		conn, ok := x.cur[st.chain][st.connID] // state before the transaction
		v, single := singleVersion(conn.Versions)
		has := false
		for _, f := range v.F {
			has = has || f == st.order.String()
		}
		rec.Add("channel_opens_checked", 1)
		switch {
		case !ok:
			vx.Violatef(t, rec, id, "channel-open-on-missing-connection", "step %d %+v: %s succeeded on chain %d naming connection %s which does not exist", i, op, st.kind, st.chain, st.connID)
		case !single:
			vx.Violatef(t, rec, id, "channel-open-without-single-version", "step %d %+v: %s succeeded on chain %d although connection %s has versions %v", i, op, st.kind, st.chain, st.connID, conn.Versions)
		case !has:
			vx.Violatef(t, rec, id, "channel-open-ordering-not-in-version", "step %d %+v: %s with %s succeeded on chain %d although connection %s negotiated %v", i, op, st.kind, st.order, st.chain, st.connID, conn.Versions)
		}
	}
	// ---- connection ends
	for c := 0; c < 2; c++ {
		o := 1 - c
		now := x.readConns(c)
		prev := x.cur[c]
		for _, k := range sortedKeys(prev, now) {
			pb, existed := prev[k]
			pa, exists := now[k]
			if existed && pb.State == connectiontypes.OPEN && (!exists || pa.State != connectiontypes.OPEN) {
				vx.Violatef(t, rec, id, "connection-left-open", "step %d %+v: connection %s on chain %d left OPEN (now %s)", i, op, k, c, connStateName(pa.State, exists))
			}
			if !exists || (existed && pb.State == pa.State) {
				continue
			}
			// negotiated version of a new TRYOPEN end: the PickVersion contract on the message's list
			if !existed && pa.State == connectiontypes.TRYOPEN && st.hadTx && st.ok && st.chain == c && st.kind == "try" {
				v, single := singleVersion(pa.Versions)
				if !single {
					vx.Violatef(t, rec, id, "try-stored-not-single-version", "step %d %+v: TRYOPEN end %s on chain %d stores versions %v", i, op, k, c, pa.Versions)
				} else {
					checkPick(t, rec, fromVersions(connectiontypes.GetCompatibleVersions()), st.cpVers, v.v(), fmt.Sprintf("step %d ConnOpenTry on chain %d", i, c))
				}
				rec.Add("try_versions_checked", 1)
			}
			if pa.State != connectiontypes.OPEN {
				continue
			}
			// ---- a transition to OPEN needs the proven matching counterparty end
			if !st.hadTx || !st.ok || st.chain != c || (st.kind != "ack" && st.kind != "confirm") || !existed {
				vx.Violatef(t, rec, id, "open-without-ack-or-confirm", "step %d %+v: connection %s on chain %d became OPEN (from %s) in a step that is not a successful ack/confirm on it (%+v)", i, op, k, c, connStateName(pb.State, existed), st)
				continue
			}
			want := connectiontypes.TRYOPEN
			if pb.State == connectiontypes.TRYOPEN {
				want = connectiontypes.OPEN
			}
			cp, ok := x.hist[o].provableAt(st.h)[pa.Counterparty.ConnectionId]
			own, ownSingle := singleVersion(pa.Versions)
			cpv, cpSingle := singleVersion(cp.Versions)
			why := ""
			switch {
			case !ok:
				why = "absent"
			case cp.State != want:
				why = "state"
			case cp.ClientId != pa.Counterparty.ClientId || cp.Counterparty.ClientId != pa.ClientId:
				why = "clients"
			case cp.Counterparty.ConnectionId != k:
				why = "ids"
			case string(cp.Counterparty.Prefix.KeyPrefix) != string(ibcPrefix.KeyPrefix) || string(pa.Counterparty.Prefix.KeyPrefix) != string(ibcPrefix.KeyPrefix):
				why = "prefix"
			case cp.DelayPeriod != pa.DelayPeriod:
				why = "delay"
			case !ownSingle || !cpSingle || !sameVersion(own, cpv):
				why = "version"
			}
			if why != "" {
				vx.Violatef(t, rec, id, "open-without-matching-counterparty-"+why,
					"step %d %+v: connection %s on chain %d went %s->OPEN with proof height %d, but the counterparty end %s provable at that height was %+v (found=%v); own end now %+v",
					i, op, k, c, pb.State, st.h, pa.Counterparty.ConnectionId, cp, ok, pa)
			}
			// the negotiated version must be one this side offered (identifier both sides support)
			if pb.State == connectiontypes.INIT && ownSingle && !supportedBy(pb.Versions, own) {
				vx.Violatef(t, rec, id, "open-with-unsupported-version", "step %d %+v: connection %s on chain %d opened with version %+v which is not supported by the versions it offered on INIT %v", i, op, k, c, own, pb.Versions)
			}
			rec.Add("open_transitions_checked", 1)
		}
		x.cur[c] = now
		x.hist[c].record(w.Height(c), now)
	}
}

func (x *c13World) bothOpen() bool {
	for _, k := range sortedKeys(x.cur[0]) {
		e := x.cur[0][k]
		if e.State != connectiontypes.OPEN || e.ClientId == exported.LocalhostClientID {
			continue
		}
		if f, ok := x.cur[1][e.Counterparty.ConnectionId]; ok && f.State == connectiontypes.OPEN && f.Counterparty.ConnectionId == k {
			return true
		}
	}
	return false
}

func runC13(outer *testing.T) func(t rapid.TB, cs c13Case, rec *vx.Case) {
	return func(t rapid.TB, cs c13Case, rec *vx.Case) {
		if len(cs.Attempts) == 0 {
			return
		}
		if cs.NCl < 1 {
			cs.NCl = 1
		}
		x := newC13World(outer, cs.NCl, len(cs.Attempts))
		everBoth, rejected, rejStateful, chanOK, chanRej := false, 0, 0, 0, 0
		for i, op := range cs.Ops {
			x.w.StepNo = i
			st, before := x.exec(cs, op, rec)
			x.check(t, rec, i, op, st, before)
			if st.hadTx {
				verdict := "rejected"
				if st.ok {
					verdict = "accepted"
				}
				kind := st.kind
				if st.lh != 0 {
					kind = fmt.Sprintf("lh%d", st.lh)
				}
				rec.Add(verdict+"_"+kind, 1)
				if !st.ok {
					rejected++
					if st.basicOK {
						rejStateful++
					} else {
						rec.Add("rejected_stateless", 1)
					}
				}
				if st.replay {
					rec.Class("replay-%s", verdict)
				}
				if st.stale {
					rec.Class("stale-proof-%s", verdict)
				}
				if op.M == "" && op.H < 0 && op.V < 0 && !st.replay && st.lh == 0 {
					rec.Add("plain_"+verdict, 1)
				}
				if st.kind == "chaninit" || st.kind == "chantry" {
					if st.ok {
						chanOK++
					} else {
						chanRej++
					}
				}
			}
			if st.planted {
				rec.Class("planted")
			}
			everBoth = everBoth || x.bothOpen()
		}
		if everBoth {
			rec.Class("conn-open-both")
		} else {
			rec.Class("conn-not-open-both")
		}
		if chanOK > 0 {
			rec.Class("channel-open-accepted")
		}
		if chanRej > 0 {
			rec.Class("channel-open-rejected")
		}
		if cs.NCl > 1 {
			rec.Class("two-client-pairs")
		}
		rec.Add("rejected_state_or_proof", int64(rejStateful))
		rec.NonTrivialIf(everBoth && rejected >= 1)
	}
}

func TestC13(t *testing.T) {
	vx.Check(t, vx.Prop[c13Case]{
		ID: "C13",
		Rule: "2 chains, 1-2 honest client pairs, 1-2 connection attempts (INIT version, delay period, initiator drawn) each followed by ChanOpenInit/Try probes; history = relayer happy path (crossing INITs) with stale-proof / mutated (client, counterparty client, prefix, delay, version list) variants, " +
			"direct-store plants of altered version lists / delay on existing ends, verbatim replays, localhost probes (ClientId 09-localhost, connection-localhost), random edits; " +
			"non-trivial = some connection reached OPEN on both ends AND >=1 message was rejected; distinct by full history",
		MinNTFrac: 0.3,
		Assumptions: []string{
			"random search over interleavings, not exhaustive",
			"model = recorded per-height history of both chains' connection ends read through ConnectionKeeper.GetAllConnections; planted ends model a counterparty that is not ibc-go",
		},
		Gen: genC13,
		Run: runC13(t),
	})
}
