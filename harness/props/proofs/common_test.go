package proofs

import (
	"bytes"
	"math/big"
	"sort"
	"testing"

	"pgregory.net/rapid"

	storetypes "github.com/cosmos/cosmos-sdk/store/v2/types"

	"github.com/cosmos/ibc-go/v11/modules/apps/callbacks/verifx/sim"
)

// Every check in this package observes ibc-go through read-only calls on a cached
// (never written back) context, or — C18 — rewrites one private module store completely
// at the start of every case. The world (chains, clients, channels) is therefore built
// once per test process and reused: a case stays a pure function of its plain data.
var worldCache = map[string]any{}

func sharedWorld[T any](name string, build func() *T) *T {
	if v, ok := worldCache[name]; ok {
		return v.(*T)
	}
	v := build()
	worldCache[name] = v
	return v
}

var _ = sim.Guard
var _ *testing.T

// kv is one key/value pair of a generated store content (base64 in replay files).
type kv struct {
	K []byte
	V []byte
}

func bigU(x uint64) *big.Int { return new(big.Int).SetUint64(x) }

// sumFitsBelow reports a+b <= c over the integers.
func sumLE(a, b, c uint64) bool {
	return new(big.Int).Add(bigU(a), bigU(b)).Cmp(bigU(c)) <= 0
}

// sumOverflows reports a+b >= 2^64 over the integers.
func sumOverflows(a, b uint64) bool {
	return new(big.Int).Add(bigU(a), bigU(b)).BitLen() > 64
}

func dumpKV(st storetypes.KVStore) (keys [][]byte, m map[string][]byte) {
	m = map[string][]byte{}
	it := st.Iterator(nil, nil)
	defer it.Close()
	for ; it.Valid(); it.Next() {
		k := append([]byte(nil), it.Key()...)
		keys = append(keys, k)
		m[string(k)] = append([]byte(nil), it.Value()...)
	}
	sort.Slice(keys, func(i, j int) bool { return bytes.Compare(keys[i], keys[j]) < 0 })
	return keys, m
}

// genBytes draws a byte string of length lo..hi.
func genBytes(t *rapid.T, lo, hi int, label string) []byte {
	return rapid.SliceOfN(rapid.Byte(), lo, hi).Draw(t, label)
}

func clone(b []byte) []byte { return append([]byte(nil), b...) }
