package pktc

import (
	"bytes"

	"pgregory.net/rapid"

	sdk "github.com/cosmos/cosmos-sdk/types"

	clienttypes "github.com/cosmos/ibc-go/v11/modules/core/02-client/types"
	connectiontypes "github.com/cosmos/ibc-go/v11/modules/core/03-connection/types"
	channeltypes "github.com/cosmos/ibc-go/v11/modules/core/04-channel/types"
	channeltypesv2 "github.com/cosmos/ibc-go/v11/modules/core/04-channel/v2/types"
	host "github.com/cosmos/ibc-go/v11/modules/core/24-host"
	hostv2 "github.com/cosmos/ibc-go/v11/modules/core/24-host/v2"
	"github.com/cosmos/ibc-go/v11/modules/core/exported"

	"github.com/cosmos/ibc-go/v11/modules/apps/callbacks/verifx/sim"
	"github.com/cosmos/ibc-go/v11/modules/apps/callbacks/verifx/vx"
)

// rmsg is a relay message under construction together with the provenance of its proof bytes
// (which chain / key / height they were queried for, and whether they were corrupted afterwards).
type rmsg struct {
	V2    bool
	IsAck bool
	P1    channeltypes.Packet
	P2    channeltypesv2.Packet
	A1    []byte
	A2    channeltypesv2.Acknowledgement
	Proof []byte
	PH    clienttypes.Height
	Sig   int

	MChain   int
	MKey     []byte
	MHeight  uint64
	MCorrupt bool
}

func cp(b []byte) []byte { return append([]byte(nil), b...) }

func (m *rmsg) clone() *rmsg {
	n := *m
	n.P1.Data = cp(m.P1.Data)
	n.P2.Payloads = nil
	for _, pl := range m.P2.Payloads {
		pl.Value = cp(pl.Value)
		n.P2.Payloads = append(n.P2.Payloads, pl)
	}
	n.A1 = cp(m.A1)
	n.A2.AppAcknowledgements = nil
	for _, a := range m.A2.AppAcknowledgements {
		n.A2.AppAcknowledgements = append(n.A2.AppAcknowledgements, cp(a))
	}
	n.Proof = cp(m.Proof)
	n.MKey = cp(m.MKey)
	return &n
}

func (m *rmsg) seq() uint64 {
	if m.V2 {
		return m.P2.Sequence
	}
	return m.P1.Sequence
}

func (m *rmsg) toMsg(w *sim.World, chain int) sdk.Msg {
	signer := w.Addr(chain, m.Sig).String()
	switch {
	case m.V2 && m.IsAck:
		return channeltypesv2.NewMsgAcknowledgement(m.P2, m.A2, m.Proof, m.PH, signer)
	case m.V2:
		return channeltypesv2.NewMsgRecvPacket(m.P2, m.Proof, m.PH, signer)
	case m.IsAck:
		return channeltypes.NewMsgAcknowledgement(m.P1, m.A1, m.Proof, m.PH, signer)
	default:
		return channeltypes.NewMsgRecvPacket(m.P1, m.Proof, m.PH, signer)
	}
}

func (m *rmsg) equalWire(o *rmsg) bool {
	if m.Sig != o.Sig || !bytes.Equal(m.Proof, o.Proof) || !m.PH.EQ(o.PH) {
		return false
	}
	if m.V2 {
		return eqP2(m.P2, o.P2) && eqA2(m.A2, o.A2)
	}
	return eqP1(m.P1, o.P1) && bytes.Equal(m.A1, o.A1)
}

func eqP1(a, b channeltypes.Packet) bool {
	return a.Sequence == b.Sequence && a.SourcePort == b.SourcePort && a.SourceChannel == b.SourceChannel &&
		a.DestinationPort == b.DestinationPort && a.DestinationChannel == b.DestinationChannel && bytes.Equal(a.Data, b.Data) &&
		a.TimeoutHeight.RevisionNumber == b.TimeoutHeight.RevisionNumber && a.TimeoutHeight.RevisionHeight == b.TimeoutHeight.RevisionHeight &&
		a.TimeoutTimestamp == b.TimeoutTimestamp
}

func eqP2(a, b channeltypesv2.Packet) bool {
	if a.Sequence != b.Sequence || a.SourceClient != b.SourceClient || a.DestinationClient != b.DestinationClient ||
		a.TimeoutTimestamp != b.TimeoutTimestamp || len(a.Payloads) != len(b.Payloads) {
		return false
	}
	for i := range a.Payloads {
		x, y := a.Payloads[i], b.Payloads[i]
		if x.SourcePort != y.SourcePort || x.DestinationPort != y.DestinationPort || x.Version != y.Version || x.Encoding != y.Encoding || !bytes.Equal(x.Value, y.Value) {
			return false
		}
	}
	return true
}

func eqA2(a, b channeltypesv2.Acknowledgement) bool {
	if len(a.AppAcknowledgements) != len(b.AppAcknowledgements) {
		return false
	}
	for i := range a.AppAcknowledgements {
		if !bytes.Equal(a.AppAcknowledgements[i], b.AppAcknowledgements[i]) {
			return false
		}
	}
	return true
}

// findLink returns the honest link of the message's protocol family whose end on `chain` carries the given ids.
func (x *exec) findLink(v2 bool, chain int, port, id string) (*sim.Link, int) {
	for _, l := range x.links {
		if l.IsV2() != v2 {
			continue
		}
		for s := 0; s < 2; s++ {
			if l.Chain[s] == chain && l.ID(s) == id && (v2 || l.Port(s) == port) {
				return l, s
			}
		}
	}
	return nil, 0
}

// findSent returns the packet sent on l from side `from` that is field-for-field equal to the message's packet.
func (x *exec) findSent(m *rmsg, l *sim.Link, from int) *sim.Pkt {
	for _, q := range x.w.Pkts {
		if q.Link != l.Idx || q.Dir != from || q.V2 != m.V2 {
			continue
		}
		if (m.V2 && eqP2(q.P2, m.P2)) || (!m.V2 && eqP1(q.P1, m.P1)) {
			return q
		}
	}
	return nil
}

func hasHeight(hs []uint64, h uint64) bool {
	for _, v := range hs {
		if v == h {
			return true
		}
	}
	return false
}

// proofClause checks that the message's proof bytes are an untouched proof, served by chain pc for exactly
// `key` at exactly the claimed proof height, that the verifying client stores a consensus state for that
// height, and that the proven value is `want`.
func (x *exec) proofClause(m *rmsg, pc int, key, want []byte, vc int, client string) string {
	w := x.w
	switch {
	case m.MCorrupt:
		return "proof-corrupt"
	case m.MChain != pc:
		return "proof-chain"
	case !bytes.Equal(m.MKey, key):
		return "proof-key"
	case m.PH.RevisionNumber != rev(w, pc) || m.PH.RevisionHeight != m.MHeight:
		return "proof-height"
	case !hasHeight(w.ConsensusHeights(vc, client), m.MHeight):
		return "proof-height-unknown"
	case !bytes.Equal(valueAt(w, pc, key, m.MHeight), want) || len(want) == 0:
		return "proof-value"
	}
	return ""
}

func (x *exec) clientInactive(chain int, client string) bool {
	st := x.w.App(chain).IBCKeeper.ClientKeeper.GetClientStatus(x.w.Ctx(chain), client)
	return st != exported.Active || x.frozen || x.expired
}

// verdictRecv is the C05 model: "" when every precondition of the statement holds for message m processed
// now on chain vc, otherwise the name of the first precondition that does not hold.
func (x *exec) verdictRecv(m *rmsg, vc int) string {
	w := x.w
	ctx := w.Ctx(vc)
	now := w.Coord.CurrentTime
	if m.V2 {
		l, s := x.findLink(true, vc, "", m.P2.DestinationClient)
		if l == nil {
			return "dest-unknown"
		}
		if m.P2.SourceClient != l.ID(1-s) {
			return "counterparty-mismatch"
		}
		if x.clientInactive(vc, l.Client(s)) {
			return "client-not-active"
		}
		if uint64(now.Unix()) >= m.P2.TimeoutTimestamp {
			return "timeout-time"
		}
		if x.findSent(m, l, 1-s) == nil {
			return "packet-altered"
		}
		sc := l.Chain[1-s]
		key := hostv2.PacketCommitmentKey(m.P2.SourceClient, m.P2.Sequence)
		want := channeltypesv2.CommitPacket(m.P2)
		if !bytes.Equal(curValue(w, sc, key), want) {
			return "no-commitment"
		}
		return x.proofClause(m, sc, key, want, vc, l.Client(s))
	}
	l, s := x.findLink(false, vc, m.P1.DestinationPort, m.P1.DestinationChannel)
	if l == nil {
		return "dest-unknown"
	}
	if m.P1.SourcePort != l.Port(1-s) || m.P1.SourceChannel != l.ID(1-s) {
		return "counterparty-mismatch"
	}
	ch, ok := w.App(vc).IBCKeeper.ChannelKeeper.GetChannel(ctx, m.P1.DestinationPort, m.P1.DestinationChannel)
	if !ok || ch.State != channeltypes.OPEN {
		return "channel-not-open"
	}
	conn, ok := w.App(vc).IBCKeeper.ConnectionKeeper.GetConnection(ctx, ch.ConnectionHops[0])
	if !ok || conn.State != connectiontypes.OPEN {
		return "connection-not-open"
	}
	if x.clientInactive(vc, l.Client(s)) {
		return "client-not-active"
	}
	th := m.P1.TimeoutHeight
	selfRev, selfH := rev(w, vc), uint64(w.Chains[vc].ProposedHeader.Height)
	if !th.IsZero() && (selfRev > th.RevisionNumber || (selfRev == th.RevisionNumber && selfH >= th.RevisionHeight)) {
		return "timeout-height"
	}
	if m.P1.TimeoutTimestamp != 0 && uint64(now.UnixNano()) >= m.P1.TimeoutTimestamp {
		return "timeout-time"
	}
	if x.findSent(m, l, 1-s) == nil {
		return "packet-altered"
	}
	sc := l.Chain[1-s]
	key := host.PacketCommitmentKey(m.P1.SourcePort, m.P1.SourceChannel, m.P1.Sequence)
	want := channeltypes.CommitPacket(m.P1)
	if !bytes.Equal(curValue(w, sc, key), want) {
		return "no-commitment"
	}
	return x.proofClause(m, sc, key, want, vc, l.Client(s))
}

// verdictAck is the C06 model for message m processed now on chain vc (the sender).
func (x *exec) verdictAck(m *rmsg, vc int) string {
	w := x.w
	if m.V2 {
		l, s := x.findLink(true, vc, "", m.P2.SourceClient)
		if l == nil {
			return "source-unknown"
		}
		if m.P2.DestinationClient != l.ID(1-s) {
			return "counterparty-mismatch"
		}
		q := x.findSent(m, l, s)
		if q == nil {
			return "packet-altered"
		}
		if !bytes.Equal(curValue(w, vc, hostv2.PacketCommitmentKey(m.P2.SourceClient, m.P2.Sequence)), channeltypesv2.CommitPacket(m.P2)) {
			return "no-commitment"
		}
		if q.Ack2 == nil || !eqA2(*q.Ack2, m.A2) {
			return "ack-altered"
		}
		key := hostv2.PacketAcknowledgementKey(m.P2.DestinationClient, m.P2.Sequence)
		return x.proofClause(m, l.Chain[1-s], key, channeltypesv2.CommitAcknowledgement(m.A2), vc, l.Client(s))
	}
	l, s := x.findLink(false, vc, m.P1.SourcePort, m.P1.SourceChannel)
	if l == nil {
		return "source-unknown"
	}
	if m.P1.DestinationPort != l.Port(1-s) || m.P1.DestinationChannel != l.ID(1-s) {
		return "counterparty-mismatch"
	}
	q := x.findSent(m, l, s)
	if q == nil {
		return "packet-altered"
	}
	if !bytes.Equal(curValue(w, vc, host.PacketCommitmentKey(m.P1.SourcePort, m.P1.SourceChannel, m.P1.Sequence)), channeltypes.CommitPacket(m.P1)) {
		return "no-commitment"
	}
	if q.Ack1 == nil || !bytes.Equal(q.Ack1, m.A1) {
		return "ack-altered"
	}
	key := host.PacketAcknowledgementKey(m.P1.DestinationPort, m.P1.DestinationChannel, m.P1.Sequence)
	return x.proofClause(m, l.Chain[1-s], key, channeltypes.CommitAcknowledgement(m.A1), vc, l.Client(s))
}

func (x *exec) verdict(m *rmsg, vc int) string {
	if m.IsAck {
		return x.verdictAck(m, vc)
	}
	return x.verdictRecv(m, vc)
}

// submit delivers m on chain vc and applies the oracles. It returns (accepted, verdict).
func (x *exec) submit(t rapid.TB, m *rmsg, vc int, what string) (bool, string) {
	w, rec, id := x.w, x.rec, x.c.Prop
	verdict := x.verdict(m, vc)
	msg := m.toMsg(w, vc)
	if vb, ok := msg.(sdk.HasValidateBasic); ok && vb.ValidateBasic() != nil {
		rec.Add("stateless_invalid", 1)
	}
	before := w.Snapshot(vc)
	mark := len(w.Log)
	res := w.Deliver(vc, m.Sig, msg)
	after := w.Snapshot(vc)
	noop := sim.ResultIsNoop(res)
	verb := "recv"
	if m.IsAck {
		verb = "ack"
	}
	if res.OK && !noop {
		if verdict != "" {
			vx.Violatef(t, rec, id, verb+"-accepted:"+verdict, "%s message (%s) was processed although the model forbids it (%s): link %s dir %d msg=%+v", verb, what, verdict, x.L.Kind, x.c.Dir, msg)
			return true, verdict
		}
		if m.IsAck {
			x.checkAckCallbacks(t, m, vc, mark)
		}
		return true, verdict
	}
	if noop {
		rec.Add("noop_results", 1)
	}
	if d := sim.Diff(before, after); len(d) > 0 {
		vx.Violatef(t, rec, id, verb+"-rejected-state-changed", "%s message (%s) was rejected/no-op (err=%v) but changed state: %v", verb, what, res.Err, d)
	}
	for _, e := range w.Log[mark:] {
		if !e.Reverted {
			vx.Violatef(t, rec, id, verb+"-rejected-callback-committed", "%s message (%s) was rejected/no-op (err=%v) but application callback %s seq %d persisted", verb, what, res.Err, e.Kind, e.Seq)
		}
	}
	return false, verdict
}

// checkAckCallbacks: the committed OnAcknowledgementPacket invocations of an accepted ack message must be for
// the sent packet and carry exactly the acknowledgement its destination wrote.
func (x *exec) checkAckCallbacks(t rapid.TB, m *rmsg, vc int, mark int) {
	w, rec, id := x.w, x.rec, x.c.Prop
	var evs []sim.Event
	for _, e := range w.Log[mark:] {
		if e.Kind == "ack" && !e.Reverted {
			evs = append(evs, e)
		}
	}
	bad := func(why string) {
		vx.Violatef(t, rec, id, "ack-callback-args", "accepted ack for seq %d: %s (events %+v)", m.seq(), why, evs)
	}
	if !m.V2 {
		if len(evs) != 1 {
			bad("expected exactly one ack callback")
			return
		}
		e := evs[0]
		if e.Chain != vc || e.Seq != m.P1.Sequence || e.ID != m.P1.SourceChannel || !bytes.Equal(e.Data, m.P1.Data) || !bytes.Equal(e.Ack, m.A1) {
			bad("callback arguments differ from the proven packet/ack")
		}
		return
	}
	if len(evs) != len(m.P2.Payloads) {
		bad("expected one ack callback per payload")
		return
	}
	errAck := bytes.Equal(m.A2.AppAcknowledgements[0], channeltypesv2.ErrorAcknowledgement[:])
	for i, e := range evs {
		want := channeltypesv2.ErrorAcknowledgement[:]
		if !errAck {
			want = m.A2.AppAcknowledgements[i]
		}
		if e.Chain != vc || e.Seq != m.P2.Sequence || e.ID != m.P2.SourceClient || !bytes.Equal(e.Data, m.P2.Payloads[i].Value) || !bytes.Equal(e.Ack, want) {
			bad("callback arguments differ from the proven packet/ack")
		}
	}
}
