#!/usr/bin/env python3
"""Mutant schemata: one build, mutants switched at run time with VXMUT=<name> (scratch worktree only)."""
import sys,re
root=sys.argv[1]
def patch(path, subs, imp=True):
    p=root+'/'+path
    s=open(p).read()
    for old,new in subs:
        assert s.count(old)==1, (path, old[:60], s.count(old))
        s=s.replace(old,new)
    if imp and '\t"os"\n' not in s:
        s=s.replace('import (\n','import (\n\t"os"\n',1)
    open(p,'w').write(s)

# ---- 04-channel/types/timeout.go
patch('modules/core/04-channel/types/timeout.go',[
 ('return !t.Height.IsZero() && height.GTE(t.Height)',
  'if os.Getenv("VXMUT") == "elapsed-height-gt" {\n\t\treturn !t.Height.IsZero() && height.GT(t.Height)\n\t}\n\treturn !t.Height.IsZero() && height.GTE(t.Height)'),
 ('return t.Timestamp != 0 && timestamp >= t.Timestamp',
  'if os.Getenv("VXMUT") == "elapsed-time-gt" {\n\t\treturn t.Timestamp != 0 && timestamp > t.Timestamp\n\t}\n\treturn t.Timestamp != 0 && timestamp >= t.Timestamp'),
])
# ---- v1 keeper/packet.go
patch('modules/core/04-channel/keeper/packet.go',[
 ('''	if channel.State != types.OPEN {
		return 0, errorsmod.Wrapf(types.ErrInvalidChannelState, "channel is not OPEN (got %s)", channel.State)
	}

	sequence, found := k.GetNextSequenceSend(ctx, sourcePort, sourceChannel)''',
  '''	if channel.State != types.OPEN && os.Getenv("VXMUT") != "v1-send-no-channel-state-check" {
		return 0, errorsmod.Wrapf(types.ErrInvalidChannelState, "channel is not OPEN (got %s)", channel.State)
	}

	sequence, found := k.GetNextSequenceSend(ctx, sourcePort, sourceChannel)'''),
 ('''	if status := k.clientKeeper.GetClientStatus(ctx, connectionEnd.ClientId); status != exported.Active {
		return 0, errorsmod.Wrapf(clienttypes.ErrClientNotActive, "cannot send packet using client (%s) with status %s", connectionEnd.ClientId, status)''',
  '''	if status := k.clientKeeper.GetClientStatus(ctx, connectionEnd.ClientId); status != exported.Active && os.Getenv("VXMUT") != "v1-send-no-status-check" {
		return 0, errorsmod.Wrapf(clienttypes.ErrClientNotActive, "cannot send packet using client (%s) with status %s", connectionEnd.ClientId, status)'''),
 ('''	if timeout.Elapsed(latestHeight, latestTimestamp) {
		return 0, errorsmod.Wrap(timeout.ErrTimeoutElapsed(latestHeight, latestTimestamp), "invalid packet timeout")''',
  '''	if timeout.Elapsed(latestHeight, latestTimestamp) && os.Getenv("VXMUT") != "v1-send-no-elapsed-check" {
		return 0, errorsmod.Wrap(timeout.ErrTimeoutElapsed(latestHeight, latestTimestamp), "invalid packet timeout")'''),
 ('''	if timeout.Elapsed(selfHeight, selfTimestamp) {
		return "", errorsmod.Wrap(timeout.ErrTimeoutElapsed(selfHeight, selfTimestamp), "packet timeout elapsed")''',
  '''	if timeout.Elapsed(selfHeight, selfTimestamp) && os.Getenv("VXMUT") != "v1-recv-no-timeout-check" {
		return "", errorsmod.Wrap(timeout.ErrTimeoutElapsed(selfHeight, selfTimestamp), "packet timeout elapsed")'''),
])
# ---- v1 keeper/keeper.go: own sequence key
patch('modules/core/04-channel/keeper/keeper.go',[
 ('''	store := k.storeService.OpenKVStore(ctx)
	bz, err := store.Get(hostv2.NextSequenceSendKey(channelID))''',
  '''	store := k.storeService.OpenKVStore(ctx)
	if os.Getenv("VXMUT") == "v1-own-seq-key" {
		bz, err := store.Get([]byte("nextSequenceSend/ports/" + portID + "/channels/" + channelID))
		if err != nil {
			panic(err)
		}
		if len(bz) == 0 {
			return 0, false
		}
		return sdk.BigEndianToUint64(bz), true
	}
	bz, err := store.Get(hostv2.NextSequenceSendKey(channelID))'''),
 ('''	bz := sdk.Uint64ToBigEndian(sequence)
	if err := store.Set(hostv2.NextSequenceSendKey(channelID), bz); err != nil {''',
  '''	bz := sdk.Uint64ToBigEndian(sequence)
	if os.Getenv("VXMUT") == "v1-own-seq-key" {
		if err := store.Set([]byte("nextSequenceSend/ports/"+portID+"/channels/"+channelID), bz); err != nil {
			panic(err)
		}
		return
	}
	if os.Getenv("VXMUT") == "seq-start-0" && sequence == 1 {
		bz = sdk.Uint64ToBigEndian(0)
	}
	if err := store.Set(hostv2.NextSequenceSendKey(channelID), bz); err != nil {'''),
])
# ---- v2 keeper/packet.go
patch('modules/core/04-channel/v2/keeper/packet.go',[
 ('	if !timeout.After(ctx.BlockTime()) {',
  '	if (os.Getenv("VXMUT") != "v2-send-timeout-before" && !timeout.After(ctx.BlockTime())) || (os.Getenv("VXMUT") == "v2-send-timeout-before" && timeout.Before(ctx.BlockTime())) {'),
 ('	if timeout.After(ctx.BlockTime().Add(types.MaxTimeoutDelta)) {',
  '	if timeout.After(ctx.BlockTime().Add(types.MaxTimeoutDelta)) && os.Getenv("VXMUT") != "v2-send-no-max-delta" {'),
 ('''	if status := k.ClientKeeper.GetClientStatus(ctx, clientID); status != exported.Active {
		return 0, "", errorsmod.Wrapf(clienttypes.ErrClientNotActive, "client (%s) status is %s", clientID, status)''',
  '''	if status := k.ClientKeeper.GetClientStatus(ctx, clientID); status != exported.Active && os.Getenv("VXMUT") != "v2-send-no-status-check" {
		return 0, "", errorsmod.Wrapf(clienttypes.ErrClientNotActive, "client (%s) status is %s", clientID, status)'''),
 ('''	if currentTimestamp >= packet.TimeoutTimestamp {
		return errorsmod.Wrapf(types.ErrTimeoutElapsed, "current timestamp: %d, timeout timestamp: %d", currentTimestamp, packet.TimeoutTimestamp)''',
  '''	if os.Getenv("VXMUT") == "v2-recv-timeout-gt" {
		if currentTimestamp > packet.TimeoutTimestamp {
			return errorsmod.Wrapf(types.ErrTimeoutElapsed, "current timestamp: %d, timeout timestamp: %d", currentTimestamp, packet.TimeoutTimestamp)
		}
	} else if currentTimestamp >= packet.TimeoutTimestamp {
		return errorsmod.Wrapf(types.ErrTimeoutElapsed, "current timestamp: %d, timeout timestamp: %d", currentTimestamp, packet.TimeoutTimestamp)'''),
 ('''	proofTimestamp := uint64(time.Unix(0, int64(proofTimestampNano)).Unix())

	if proofTimestamp < packet.TimeoutTimestamp {''',
  '''	proofTimestamp := uint64(time.Unix(0, int64(proofTimestampNano)).Unix())
	switch os.Getenv("VXMUT") {
	case "v2-timeout-ns-vs-s":
		proofTimestamp = proofTimestampNano
	case "v2-timeout-round-up":
		proofTimestamp = (proofTimestampNano + 999_999_999) / 1_000_000_000
	}

	if proofTimestamp < packet.TimeoutTimestamp {'''),
])
# ---- 07-tendermint: drop latest-height check in verifyNonMembership
p=root+'/modules/light-clients/07-tendermint/client_state.go'
s=open(p).read()
i=s.index('func (cs ClientState) verifyNonMembership(')
j=s.index('if cs.LatestHeight.LT(height) {', i)
s=s[:j]+'if cs.LatestHeight.LT(height) && os.Getenv("VXMUT") != "tm-nonmembership-no-latest-check" {'+s[j+len('if cs.LatestHeight.LT(height) {'):]
if '\t"os"\n' not in s:
    s=s.replace('import (\n','import (\n\t"os"\n',1)
open(p,'w').write(s)
# ---- 09-localhost: switch the candidate fix off
patch('modules/light-clients/09-localhost/light_client_module.go',[
 ('	if selfHeight := clienttypes.GetSelfHeight(ctx); height.GT(selfHeight) {',
  '	if selfHeight := clienttypes.GetSelfHeight(ctx); height.GT(selfHeight) && os.Getenv("VXMUT") != "localhost-nofix" {'),
])
print("ok")
