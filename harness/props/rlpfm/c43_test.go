package rlpfm

// C43: packet forwarding is all-or-nothing and conserves tokens.
//
// World: 3 chains in a triangle or 4 chains in a ring (optionally with a chord 0-2), one ICS-20 v1
// channel per linked pair. 1-2 concurrent forwards. Each forward moves a token (native / voucher after a
// pre-walk of plain transfers / unwinding when its route retraces the pre-walk) along a walk of
// 2-4 hops described by nested `forward` memos. Every hop has a plan: how many attempts time out
// (against the retries written in the memo) and how the delivered attempt ends (ok, receive
// disabled, invalid final receiver, send disabled on the forwarding chain, unknown next channel).
// All packets are relayed to quiescence in an order drawn from the history.
//
// Oracle (reference ledger written from the ICS-20 specification: a hop escrows at the sender
// unless the token returns over the channel it arrived on, in which case it is burned; the receiver
// mints a voucher or releases escrow):
//   * after every step, on every chain and denom: tracked total escrow <= sum of the escrow
//     accounts' balances, and the native supply on the origin chain never changes;
//   * the denomination put into hop k+1 is the bank denomination credited on the intermediate
//     chain by hop k (bank coin_received event of the override receiver);
//   * at quiescence: no packet commitment of the forward and no PFM in-flight record is left;
//     per forward EITHER (sender -amount, final receiver +amount in the ledger's denomination)
//     OR (sender whole, receiver nothing); override receivers and decoy memo receivers hold nothing;
//     every chain's supply, per-channel escrow balances and total escrow equal the baseline plus the
//     ledger effect of the delivered forwards only (refunded forwards leave every chain where it
//     started);
//   * a hop is attempted at most retries+1 times.

import (
	"encoding/json"
	"fmt"
	"sort"
	"strconv"
	"strings"
	"testing"
	"time"

	sdkmath "cosmossdk.io/math"

	sdk "github.com/cosmos/cosmos-sdk/types"
	sdkaddress "github.com/cosmos/cosmos-sdk/types/address"

	pfmtypes "github.com/cosmos/ibc-go/v11/modules/apps/packet-forward-middleware/types"
	transfertypes "github.com/cosmos/ibc-go/v11/modules/apps/transfer/types"

	"pgregory.net/rapid"

	"github.com/cosmos/ibc-go/v11/modules/apps/callbacks/verifx/sim"
	"github.com/cosmos/ibc-go/v11/modules/apps/callbacks/verifx/vx"
)

const c43 = "C43"

// Recorded finding: a forward that leaves an intermediate chain over the very channel it arrived
// on (A -> B -> A ...) and then fails is refunded on B by minting the voucher into B's escrow
// account although the receive had minted (not released) it: an unbacked voucher and an
// inflated total escrow stay on B.
const sigUturn = "uturn-refund-mints-into-escrow"

// uturnAt returns the first hop k (1-based) such that hop k reaches its chain by minting a voucher
// (non-unwinding) and hop k+1 leaves over the same link; 0 if none.
func uturnAt(links []int, pre []int) int {
	var stack []int // links whose channel prefixes the token's trace, innermost last
	stack = append(stack, pre...)
	// the pre-walk never backtracks, so every pre-hop pushed
	for k, li := range links {
		if n := len(stack); n > 0 && stack[n-1] == li {
			stack = stack[:n-1]
			continue
		}
		stack = append(stack, li)
		if k+1 < len(links) && links[k+1] == li {
			return k + 1
		}
	}
	return 0
}

func hopLinks(fw pfForward) []int {
	var out []int
	for _, h := range fw.Hops {
		out = append(out, h.Link)
	}
	return out
}

// ---- plain-data history -------------------------------------------------------------------

type pfHop struct {
	Link     int    `json:"link"`               // topology link walked by this hop
	Timeouts int    `json:"timeouts,omitempty"` // attempts of this hop that are timed out before one is delivered
	Out      string `json:"out"`                // delivered attempt: ok | rcvoff | badrecv | sendoff | badchan
	Retries  int    `json:"retries"`            // memo retries for this hop (hop >= 2); -1 = not in the memo
	Timeout  string `json:"timeout,omitempty"`  // memo timeout: "" | duration string | integer nanoseconds
	NextStr  bool   `json:"nextstr,omitempty"`  // encode this hop's memo entry as a JSON string inside its parent
}

type pfForward struct {
	Origin int     `json:"origin"` // chain on which the base denomination is native
	Pre    []int   `json:"pre"`    // links walked by plain transfers from the origin to the starting chain
	Hops   []pfHop `json:"hops"`
	Amount int64   `json:"amount"`
	Sender int     `json:"sender"` // account index on the starting chain
	Recv   int     `json:"recv"`   // account index on the final chain
}

type pfCase struct {
	N     int         `json:"n"`
	Chord bool        `json:"chord"`
	Same  bool        `json:"same"` // both forwards use one base denomination when their origins coincide
	Fwd   []pfForward `json:"fwd"`
	Order []int       `json:"order"`
}

// pfTopology: 3 chains form a triangle, 4 chains a ring 0-1-2-3-0 with an optional chord 0-2, so
// that long routes exist that never leave a chain over the channel they arrived on.
func pfTopology(n int, chord bool) [][2]int {
	if n == 3 {
		return [][2]int{{0, 1}, {1, 2}, {0, 2}}
	}
	t := [][2]int{{0, 1}, {1, 2}, {2, 3}, {0, 3}}
	if chord {
		t = append(t, [2]int{0, 2})
	}
	return t
}

func otherEnd(l [2]int, c int) int {
	if l[0] == c {
		return l[1]
	}
	if l[1] == c {
		return l[0]
	}
	return -1
}

// ---- execution ----------------------------------------------------------------------------------

type pfPkt struct {
	p       *sim.Pkt
	f, k    int // forward, hop (1-based)
	attempt int
	state   string // sent | await | ackready | done
	forced  bool   // receive failed (expired): must be timed out
}

type pfRun struct {
	w      *sim.World
	links  []*sim.Link
	c      pfCase
	base   []string   // base denom per forward
	chains [][]int    // per forward: chains c_0..c_H
	traces [][]trace  // per forward: token trace on c_0..c_H
	over   [][]string // per forward: override receiver on c_1..c_{H-1} (index k), "" elsewhere
	live   []*pfPkt
	maxHop []int
	tries  [][]int // per forward, per hop: attempts seen
	forced int
}

func pfOverride(channel, sender string) string {
	h := sdkaddress.Hash(pfmtypes.ModuleName, []byte(channel+"/"+sender))
	return sdk.AccAddress(h[:20]).String()
}

const decoy = 7 // account used as the (ignored) intermediate receiver in memos

func tracked(denom string) bool {
	return strings.HasPrefix(denom, "utok") || strings.HasPrefix(denom, "ibc/")
}

// observe lists supply, per-channel escrow balances and tracked total escrow of the tracked denoms.
func (r *pfRun) observe() map[string]string {
	w := r.w
	out := map[string]string{}
	for i := range w.Chains {
		ctx := w.Ctx(i)
		w.App(i).BankKeeper.IterateTotalSupply(ctx, func(c sdk.Coin) bool {
			if tracked(c.Denom) && !c.Amount.IsZero() {
				out[fmt.Sprintf("chain%d/supply/%s", i, c.Denom)] = c.Amount.String()
			}
			return false
		})
		for _, l := range r.links {
			s := sideOf(l, i)
			if s < 0 {
				continue
			}
			esc := transfertypes.GetEscrowAddress(l.Port(s), l.ID(s))
			for _, c := range w.App(i).BankKeeper.GetAllBalances(ctx, esc) {
				if tracked(c.Denom) && !c.Amount.IsZero() {
					out[fmt.Sprintf("chain%d/escrow/link%d/%s", i, l.Idx, c.Denom)] = c.Amount.String()
				}
			}
		}
		for _, c := range w.App(i).TransferKeeper.GetAllTotalEscrowed(ctx) {
			if tracked(c.Denom) && !c.Amount.IsZero() {
				out[fmt.Sprintf("chain%d/total/%s", i, c.Denom)] = c.Amount.String()
			}
		}
	}
	return out
}

// stepInvariants: tracked total escrow <= sum of escrow balances; native supplies constant.
func (r *pfRun) stepInvariants(t rapid.TB, rec *vx.Case, what string, native map[string]string) bool {
	w := r.w
	for i := range w.Chains {
		ctx := w.Ctx(i)
		for _, c := range w.App(i).TransferKeeper.GetAllTotalEscrowed(ctx) {
			sum := sdkmath.ZeroInt()
			for _, l := range r.links {
				if s := sideOf(l, i); s >= 0 {
					sum = sum.Add(w.App(i).BankKeeper.GetBalance(ctx, transfertypes.GetEscrowAddress(l.Port(s), l.ID(s)), c.Denom).Amount)
				}
			}
			if c.Amount.IsNegative() || c.Amount.GT(sum) {
				return vx.Violatef(t, rec, c43, "total-escrow-exceeds-balances", "%s: chain %d denom %s: tracked total escrow %s, escrow accounts hold %s", what, i, c.Denom, c.Amount, sum)
			}
		}
	}
	for f, fw := range r.c.Fwd {
		k := fmt.Sprintf("%d/%s", fw.Origin, r.base[f])
		if got := w.Supply(fw.Origin, r.base[f]).Amount.String(); got != native[k] {
			return vx.Violatef(t, rec, c43, "native-supply-changed", "%s: supply of %s on its origin chain %d is %s, was %s", what, r.base[f], fw.Origin, got, native[k])
		}
	}
	return false
}

// memoFor builds the nested forward memo for hops from..H of forward f (from >= 2).
func (r *pfRun) memoFor(f, from int) any {
	fw := r.c.Fwd[f]
	H := len(fw.Hops)
	h := fw.Hops[from-1]
	prev := r.chains[f][from-1]
	l := r.links[h.Link]
	entry := map[string]any{"port": l.Port(sideOf(l, prev)), "channel": l.ID(sideOf(l, prev))}
	if from-2 >= 0 && fw.Hops[from-2].Out == "badchan" {
		entry["channel"] = "channel-9999"
	}
	dst := r.chains[f][from]
	if from == H {
		entry["receiver"] = r.w.Addr(dst, fw.Recv).String()
		if h.Out == "badrecv" {
			entry["receiver"] = badReceiver
		}
	} else {
		entry["receiver"] = r.w.Addr(dst, decoy).String()
		entry["next"] = r.memoFor(f, from+1)
	}
	if h.Retries >= 0 {
		entry["retries"] = h.Retries
	}
	if h.Timeout != "" {
		if n, err := strconv.ParseInt(h.Timeout, 10, 64); err == nil {
			entry["timeout"] = n
		} else {
			entry["timeout"] = h.Timeout
		}
	}
	m := map[string]any{"forward": entry}
	if h.NextStr && from > 2 {
		bz, _ := json.Marshal(m)
		return string(bz)
	}
	return m
}

func (r *pfRun) setParams(chain int, send, recv bool) {
	r.w.App(chain).TransferKeeper.SetParams(r.w.Ctx(chain), transfertypes.Params{SendEnabled: send, ReceiveEnabled: recv})
}

func runC43(outer *testing.T) func(t rapid.TB, c pfCase, rec *vx.Case) {
	return func(t rapid.TB, c pfCase, rec *vx.Case) {
		w := sim.NewWorld(outer, c.N, nil)
		r := &pfRun{w: w, c: c}
		topo := pfTopology(c.N, c.Chord)
		for _, e := range topo {
			r.links = append(r.links, addTransferLink(w, e[0], e[1]))
		}
		far := func() uint64 { return uint64(now(w).Add(48 * time.Hour).UnixNano()) }

		// ---- setup: mint, pre-walk, model traces
		for f, fw := range c.Fwd {
			base := fmt.Sprintf("utok%d", f)
			if c.Same && f > 0 && fw.Origin == c.Fwd[0].Origin {
				base = r.base[0]
			}
			r.base = append(r.base, base)
			mintTo(w, fw.Origin, w.Addr(fw.Origin, fw.Sender), base, 2*fw.Amount)
			w.Block(fw.Origin, 1)
			cur, tr := fw.Origin, trace{Base: base}
			for _, li := range fw.Pre {
				l := r.links[li]
				s := sideOf(l, cur)
				if s < 0 {
					vx.Harnessf("pre-walk link %d does not touch chain %d", li, cur)
				}
				p, res := sendTransfer(w, l, s, fw.Sender, sdk.NewInt64Coin(tr.denom(), 2*fw.Amount), w.Addr(l.Chain[1-s], fw.Sender).String(), far(), "")
				if p == nil {
					vx.Harnessf("pre-walk send failed: %v", res.Err)
				}
				if rr, _ := relayRecv(w, p); !rr.OK || p.Ack1 == nil {
					vx.Harnessf("pre-walk recv failed: %v", rr.Err)
				}
				if rr, _ := relayAck(w, p); !rr.OK {
					vx.Harnessf("pre-walk ack failed: %v", rr.Err)
				}
				tr = tr.after(l.Port(s), l.ID(s), l.Port(1-s), l.ID(1-s))
				cur = l.Chain[1-s]
			}
			chains, traces := []int{cur}, []trace{tr}
			for _, h := range fw.Hops {
				l := r.links[h.Link]
				s := sideOf(l, cur)
				if s < 0 {
					vx.Harnessf("route link %d does not touch chain %d", h.Link, cur)
				}
				tr = tr.after(l.Port(s), l.ID(s), l.Port(1-s), l.ID(1-s))
				cur = l.Chain[1-s]
				chains, traces = append(chains, cur), append(traces, tr)
			}
			r.chains, r.traces = append(r.chains, chains), append(r.traces, traces)
			r.tries = append(r.tries, make([]int, len(fw.Hops)+1))
			r.maxHop = append(r.maxHop, 0)
			if got := w.Balance(chains[0], w.Addr(chains[0], fw.Sender), traces[0].denom()).Amount.Int64(); got < 2*fw.Amount {
				vx.Harnessf("forward %d: sender holds %d of %s after the pre-walk, want >= %d", f, got, traces[0].denom(), 2*fw.Amount)
			}
		}
		// override receivers
		for f, fw := range c.Fwd {
			H := len(fw.Hops)
			ov := make([]string, H+1)
			sender := w.Addr(r.chains[f][0], fw.Sender).String()
			for k := 1; k < H; k++ {
				l := r.links[fw.Hops[k-1].Link]
				ov[k] = pfOverride(l.ID(sideOf(l, r.chains[f][k])), sender)
				sender = ov[k]
			}
			r.over = append(r.over, ov)
		}

		// ---- baseline
		baseline := r.observe()
		native := map[string]string{}
		type acct struct {
			chain int
			addr  sdk.AccAddress
			denom string
		}
		var senders, receivers []acct
		var startS, startR []sdkmath.Int
		for f, fw := range c.Fwd {
			native[fmt.Sprintf("%d/%s", fw.Origin, r.base[f])] = w.Supply(fw.Origin, r.base[f]).Amount.String()
			H := len(fw.Hops)
			s := acct{r.chains[f][0], w.Addr(r.chains[f][0], fw.Sender), r.traces[f][0].denom()}
			rc := acct{r.chains[f][H], w.Addr(r.chains[f][H], fw.Recv), r.traces[f][H].denom()}
			senders, receivers = append(senders, s), append(receivers, rc)
			startS = append(startS, w.Balance(s.chain, s.addr, s.denom).Amount)
			startR = append(startR, w.Balance(rc.chain, rc.addr, rc.denom).Amount)
		}
		for i := range w.Chains {
			if n := len(dumpKeys(w, i, pfmtypes.StoreKey)); n != 0 {
				vx.Harnessf("PFM store of chain %d not empty at baseline", i)
			}
		}

		// ---- initial sends
		for f, fw := range c.Fwd {
			l := r.links[fw.Hops[0].Link]
			s := sideOf(l, r.chains[f][0])
			to := far()
			if fw.Hops[0].Timeouts > 0 {
				to = uint64(now(w).Add(2 * time.Minute).UnixNano())
			}
			memoBz, _ := json.Marshal(r.memoFor(f, 2))
			p, res := sendTransfer(w, l, s, fw.Sender, sdk.NewCoin(r.traces[f][0].denom(), sdkmath.NewInt(fw.Amount)), w.Addr(r.chains[f][1], decoy).String(), to, string(memoBz))
			if p == nil {
				vx.Harnessf("forward %d: initial MsgTransfer failed: %v %s", f, res.Err, logOf(res))
			}
			r.live = append(r.live, &pfPkt{p: p, f: f, k: 1, attempt: 1, state: "sent"})
			r.tries[f][1] = 1
			r.maxHop[f] = 1
			if r.stepInvariants(t, rec, fmt.Sprintf("forward %d initial send", f), native) {
				return
			}
		}

		// ---- relay to quiescence
		type action struct {
			q    *pfPkt
			kind string // recv | timeout | ack
		}
		steps := 0
		for ; ; steps++ {
			var acts []action
			for _, q := range r.live {
				switch q.state {
				case "sent":
					if q.forced || q.attempt <= c.Fwd[q.f].Hops[q.k-1].Timeouts {
						acts = append(acts, action{q, "timeout"})
					} else {
						acts = append(acts, action{q, "recv"})
					}
				case "ackready":
					acts = append(acts, action{q, "ack"})
				}
			}
			if len(acts) == 0 {
				break
			}
			if steps > 200 {
				vx.Harnessf("relay loop did not terminate")
			}
			pick := 0
			if len(c.Order) > 0 {
				pick = c.Order[steps%len(c.Order)] % len(acts)
			}
			a := acts[pick]
			q := a.q
			fw := c.Fwd[q.f]
			hop := fw.Hops[q.k-1]
			what := fmt.Sprintf("step %d: %s of forward %d hop %d attempt %d (%s)", steps, a.kind, q.f, q.k, q.attempt, q.p)
			w.StepNo = steps
			var res sim.TxResult
			var sent []*sim.Pkt
			switch a.kind {
			case "recv":
				dst := r.chains[q.f][q.k]
				switch hop.Out {
				case "rcvoff":
					r.setParams(dst, true, false)
				case "sendoff":
					if q.k < len(fw.Hops) {
						r.setParams(dst, false, true)
					}
				}
				res, sent = relayRecv(w, q.p)
				r.setParams(dst, true, true)
				if !res.OK {
					// the only legitimate reason: the packet expired while other packets were timed out
					q.forced = true
					r.forced++
					dbg("%s failed: %v %s", what, res.Err, logOf(res))
					rec.Class("recv-expired-forced-timeout")
					break
				}
				switch {
				case q.p.Ack1 != nil:
					q.state = "ackready"
					if len(sent) != 0 {
						return_ := vx.Violatef(t, rec, c43, "forward-and-ack", "%s: the receive wrote an acknowledgement and also sent %d packets", what, len(sent))
						if return_ {
							return
						}
					}
				case len(sent) == 1:
					q.state = "await"
					child := &pfPkt{p: sent[0], f: q.f, k: q.k + 1, attempt: 1, state: "sent"}
					r.live = append(r.live, child)
					r.tries[q.f][q.k+1]++
					r.maxHop[q.f] = max(r.maxHop[q.f], q.k+1)
					// forwarded denomination = denomination credited to the override receiver
					if r.checkForwardDenom(t, rec, what, res, q, sent[0]) {
						return
					}
				default:
					if vx.Violatef(t, rec, c43, "receive-without-outcome", "%s: the receive neither wrote an acknowledgement nor forwarded exactly one packet (%d sent)", what, len(sent)) {
						return
					}
				}
			case "ack":
				res, sent = relayAck(w, q.p)
				if !res.OK {
					if vx.Violatef(t, rec, c43, "relay-failed-ack", "%s: an honest MsgAcknowledgement failed, the forward can never resolve: %v %s", what, res.Err, logOf(res)) {
						return
					}
				}
				q.state = "done"
				if len(sent) != 0 {
					if vx.Violatef(t, rec, c43, "send-on-ack", "%s: acknowledgement processing sent %d packets", what, len(sent)) {
						return
					}
				}
			case "timeout":
				res, sent = relayTimeout(w, q.p)
				if !res.OK {
					if vx.Violatef(t, rec, c43, "relay-failed-timeout", "%s: an honest MsgTimeout failed, the forward can never resolve: %v %s", what, res.Err, logOf(res)) {
						return
					}
				}
				q.state = "done"
				rec.Class("timeout-hop%d", min(q.k, 3))
				if len(sent) == 1 {
					rec.Class("retry")
					child := &pfPkt{p: sent[0], f: q.f, k: q.k, attempt: q.attempt + 1, state: "sent"}
					r.live = append(r.live, child)
					r.tries[q.f][q.k]++
					allowed := 1
					if q.k >= 2 && hop.Retries >= 0 {
						allowed = hop.Retries + 1
					}
					if q.k == 1 || r.tries[q.f][q.k] > allowed {
						if vx.Violatef(t, rec, c43, "retry-bound-exceeded", "%s: hop attempted %d times, memo retries allow %d attempts", what, r.tries[q.f][q.k], allowed) {
							return
						}
					}
				} else if len(sent) > 1 {
					if vx.Violatef(t, rec, c43, "send-on-timeout", "%s: timeout processing sent %d packets", what, len(sent)) {
						return
					}
				}
			}
			// a downstream resolution may have written the upstream packet's acknowledgement
			for _, u := range r.live {
				if u.state == "await" && u.p.Ack1 != nil {
					u.state = "ackready"
				}
			}
			if r.stepInvariants(t, rec, what, native) {
				return
			}
		}

		// ---- quiescence
		for _, q := range r.live {
			if q.state != "done" {
				if vx.Violatef(t, rec, c43, "stuck-forward", "no relay action left but forward %d hop %d attempt %d (%s) is in state %q", q.f, q.k, q.attempt, q.p, q.state) {
					return
				}
			}
			if w.HasCommitment(q.p) {
				if vx.Violatef(t, rec, c43, "commitment-left", "forward %d hop %d attempt %d (%s): packet commitment still stored at quiescence", q.f, q.k, q.attempt, q.p) {
					return
				}
			}
		}
		for i := range w.Chains {
			if keys := dumpKeys(w, i, pfmtypes.StoreKey); len(keys) != 0 {
				if vx.Violatef(t, rec, c43, "inflight-record-left", "chain %d keeps PFM in-flight records at quiescence: %q", i, keys) {
					return
				}
			}
		}
		expect := map[string]sdkmath.Int{}
		add := func(k string, v int64) {
			cur, ok := expect[k]
			if !ok {
				cur = sdkmath.ZeroInt()
			}
			expect[k] = cur.AddRaw(v)
		}
		for k, v := range baseline {
			n, _ := sdkmath.NewIntFromString(v)
			expect[k] = n
		}
		nDelivered := 0
		for f, fw := range c.Fwd {
			H := len(fw.Hops)
			s, rc := senders[f], receivers[f]
			dS := w.Balance(s.chain, s.addr, s.denom).Amount.Sub(startS[f])
			dR := w.Balance(rc.chain, rc.addr, rc.denom).Amount.Sub(startR[f])
			amt := sdkmath.NewInt(fw.Amount)
			delivered := dS.Equal(amt.Neg()) && dR.Equal(amt)
			refunded := dS.IsZero() && dR.IsZero()
			if !delivered && !refunded {
				sig := "not-all-or-nothing"
				switch {
				case dS.Equal(amt.Neg()) && dR.IsZero():
					sig = "funds-lost"
				case dS.IsZero() && dR.Equal(amt):
					sig = "funds-duplicated"
				}
				if vx.Violatef(t, rec, c43, sig, "forward %d (%+v): sender balance of %s changed by %s, final receiver balance of %s changed by %s, amount %d", f, fw, s.denom, dS, rc.denom, dR, fw.Amount) {
					return
				}
			}
			if delivered {
				nDelivered++
				rec.Class("delivered-hops=%d", H)
				for k := 1; k <= H; k++ {
					l := r.links[fw.Hops[k-1].Link]
					x, y := r.chains[f][k-1], r.chains[f][k]
					sx := sideOf(l, x)
					tx, ty := r.traces[f][k-1], r.traces[f][k]
					if tx.unwinds(l.Port(sx), l.ID(sx)) {
						add(fmt.Sprintf("chain%d/supply/%s", x, tx.denom()), -fw.Amount)
						add(fmt.Sprintf("chain%d/escrow/link%d/%s", y, l.Idx, ty.denom()), -fw.Amount)
						add(fmt.Sprintf("chain%d/total/%s", y, ty.denom()), -fw.Amount)
					} else {
						add(fmt.Sprintf("chain%d/escrow/link%d/%s", x, l.Idx, tx.denom()), fw.Amount)
						add(fmt.Sprintf("chain%d/total/%s", x, tx.denom()), fw.Amount)
						add(fmt.Sprintf("chain%d/supply/%s", y, ty.denom()), fw.Amount)
					}
				}
			} else {
				rec.Class("refunded-at-hop=%d-of-%d", r.maxHop[f], H)
			}
			// intermediate accounts hold nothing
			for k := 1; k < H; k++ {
				ch := r.chains[f][k]
				for _, who := range []struct {
					name string
					addr sdk.AccAddress
				}{{"override receiver", sdk.MustAccAddressFromBech32(r.over[f][k])}, {"memo receiver", w.Addr(ch, decoy)}} {
					for _, coin := range w.App(ch).BankKeeper.GetAllBalances(w.Ctx(ch), who.addr) {
						if tracked(coin.Denom) && !coin.Amount.IsZero() {
							if vx.Violatef(t, rec, c43, "intermediate-keeps-funds", "forward %d: %s on chain %d (hop %d) holds %s at quiescence", f, who.name, ch, k, coin) {
								return
							}
						}
					}
				}
			}
		}
		// did a refunded forward get past a U-turn (see sigUturn)?
		uturnHit := false
		for f, fw := range c.Fwd {
			s := senders[f]
			if k := uturnAt(hopLinks(fw), fw.Pre); k > 0 && r.maxHop[f] >= k+1 && w.Balance(s.chain, s.addr, s.denom).Amount.Equal(startS[f]) {
				uturnHit = true
				rec.Class("uturn-then-refund")
			}
		}
		final := r.observe()
		var keys []string
		for k := range expect {
			keys = append(keys, k)
		}
		for k := range final {
			if _, ok := expect[k]; !ok {
				keys = append(keys, k)
			}
		}
		sort.Strings(keys)
		for _, k := range keys {
			want := "0"
			if v, ok := expect[k]; ok {
				want = v.String()
			}
			got := "0"
			if v, ok := final[k]; ok {
				got = v
			}
			if want != got {
				sig := "ledger-mismatch-" + strings.Split(k, "/")[1]
				if nDelivered == 0 {
					sig = "refund-leaves-" + strings.Split(k, "/")[1] + "-changed"
				}
				if uturnHit {
					sig = sigUturn
				}
				if vx.Violatef(t, rec, c43, sig, "at quiescence %s = %s, reference ledger says %s (delivered forwards: %d of %d; case %+v)", k, got, want, nDelivered, len(c.Fwd), c) {
					return
				}
			}
		}

		// ---- evidence
		nt := false
		for f, fw := range c.Fwd {
			H := len(fw.Hops)
			kind := "native"
			if len(r.traces[f][0].Hops) > 0 {
				kind = "voucher"
				l := r.links[fw.Hops[0].Link]
				if r.traces[f][0].unwinds(l.Port(sideOf(l, r.chains[f][0])), l.ID(sideOf(l, r.chains[f][0]))) {
					kind = "unwinding"
				}
			}
			rec.Class("token-" + kind)
			failedAt := 0
			s, _ := senders[f], receivers[f]
			if w.Balance(s.chain, s.addr, s.denom).Amount.Equal(startS[f]) {
				failedAt = r.maxHop[f]
			}
			if failedAt >= 2 && H >= 3 {
				nt = true
			}
			for k := 1; k <= r.maxHop[f] && k <= H; k++ {
				if fw.Hops[k-1].Out != "ok" && k == r.maxHop[f] && failedAt > 0 {
					rec.Class("fault-" + fw.Hops[k-1].Out)
				}
			}
		}
		rec.Add("forwards", int64(len(c.Fwd)))
		rec.Add("delivered", int64(nDelivered))
		rec.Add("refunded", int64(len(c.Fwd)-nDelivered))
		rec.Add("relay_steps", int64(steps))
		rec.Add("packets", int64(len(r.live)))
		rec.Add("forced_timeouts", int64(r.forced))
		rec.Add("excluded_known", int64(excludedUturns))
		excludedUturns = 0
		rec.NonTrivialIf(nt)
	}
}

// checkForwardDenom: the denomination carried by the forwarded packet is the bank denomination
// credited to the override receiver by the receive that triggered the forward.
func (r *pfRun) checkForwardDenom(t rapid.TB, rec *vx.Case, what string, res sim.TxResult, q *pfPkt, child *sim.Pkt) bool {
	var d transfertypes.FungibleTokenPacketData
	if err := transfertypes.ModuleCdc.UnmarshalJSON(child.P1.Data, &d); err != nil {
		return vx.Violatef(t, rec, c43, "forward-data-undecodable", "%s: forwarded packet data: %v", what, err)
	}
	fwdDenom := parseTrace(d.Denom).denom()
	over := r.over[q.f][q.k]
	credited := ""
	for _, ev := range res.Events {
		if ev.Type != "coin_received" {
			continue
		}
		var recv, amount string
		for _, a := range ev.Attributes {
			switch a.Key {
			case "receiver":
				recv = a.Value
			case "amount":
				amount = a.Value
			}
		}
		if recv == over {
			credited = strings.TrimLeft(amount, "0123456789")
			break
		}
	}
	if credited == "" {
		return vx.Violatef(t, rec, c43, "override-not-credited", "%s: no bank credit to the override receiver %s in the forwarding receive", what, over)
	}
	if credited != fwdDenom {
		return vx.Violatef(t, rec, c43, "forward-denom-mismatch", "%s: ICS-20 credited %s on the intermediate chain but hop %d carries %s (%s)", what, credited, q.k+1, fwdDenom, d.Denom)
	}
	if d.Sender != over {
		return vx.Violatef(t, rec, c43, "forward-sender-not-override", "%s: forwarded packet sender %s, override receiver %s", what, d.Sender, over)
	}
	if want := fmt.Sprint(r.c.Fwd[q.f].Amount); d.Amount != want {
		return vx.Violatef(t, rec, c43, "forward-amount-changed", "%s: forwarded amount %s, original %s", what, d.Amount, want)
	}
	return false
}

func dumpKeys(w *sim.World, chain int, store string) []string {
	st := w.Ctx(chain).KVStore(w.App(chain).GetKey(store))
	it := st.Iterator(nil, nil)
	defer it.Close()
	var out []string
	for ; it.Valid(); it.Next() {
		out = append(out, string(it.Key()))
	}
	return out
}

// ---- generator --------------------------------------------------------------------------------

var excludedUturns int

func genC43(t *rapid.T) pfCase {
	c := pfCase{N: rapid.IntRange(3, 4).Draw(t, "n"), Chord: rapid.IntRange(0, 2).Draw(t, "chord") == 0, Same: rapid.Bool().Draw(t, "same")}
	topo := pfTopology(c.N, c.Chord)
	incident := func(ch int) []int {
		var out []int
		for i, e := range topo {
			if e[0] == ch || e[1] == ch {
				out = append(out, i)
			}
		}
		return out
	}
	nf := 1
	if rapid.IntRange(0, 2).Draw(t, "two") == 0 {
		nf = 2
	}
	for f := 0; f < nf; f++ {
		fw := pfForward{Origin: rapid.IntRange(0, c.N-1).Draw(t, "origin"), Amount: int64(rapid.IntRange(1, 1000).Draw(t, "amount")),
			Sender: 1 + 2*f, Recv: 2 + 2*f}
		cur := fw.Origin
		last := -1
		for i, n := 0, rapid.IntRange(0, 2).Draw(t, "prelen"); i < n; i++ {
			var opts []int
			for _, li := range incident(cur) {
				if li != last {
					opts = append(opts, li)
				}
			}
			if len(opts) == 0 {
				break
			}
			li := rapid.SampledFrom(opts).Draw(t, "prelink")
			fw.Pre = append(fw.Pre, li)
			cur, last = otherEnd(topo[li], cur), li
		}
		H := rapid.SampledFrom([]int{2, 3, 3, 3, 4, 4}).Draw(t, "hops")
		back := append([]int(nil), fw.Pre...) // links that would unwind, innermost last
		unwind := rapid.Bool().Draw(t, "unwind")
		for k := 1; k <= H; k++ {
			var li int
			if unwind && len(back) > 0 && rapid.IntRange(0, 4).Draw(t, "keepunwinding") > 0 {
				li = back[len(back)-1]
				back = back[:len(back)-1]
			} else {
				// leaving over the link just used is either an unwinding hop (drawn above) or a
				// U-turn; U-turns after a minting hop are the recorded finding sigUturn: rare, and
				// excluded by construction while that finding is listed as known
				opts := incident(cur)
				prev := -1
				if k > 1 {
					prev = fw.Hops[k-2].Link
				} else if len(fw.Pre) > 0 {
					prev = fw.Pre[len(fw.Pre)-1]
				}
				if len(opts) > 1 && prev >= 0 && rapid.IntRange(0, 7).Draw(t, "uturn") > 0 {
					var o2 []int
					for _, o := range opts {
						if o != prev {
							o2 = append(o2, o)
						}
					}
					opts = o2
				}
				li = rapid.SampledFrom(opts).Draw(t, "link")
				back = nil
			}
			cur = otherEnd(topo[li], cur)
			h := pfHop{Link: li, Out: "ok", Retries: -1}
			if k >= 2 {
				h.Retries = rapid.IntRange(-1, 2).Draw(t, "retries")
				h.Timeout = rapid.SampledFrom([]string{"", "", "5m", "2m30s", "180000000000", "1h"}).Draw(t, "timeout")
				h.NextStr = rapid.IntRange(0, 3).Draw(t, "nextstr") == 0
				if h.Retries > 0 && rapid.IntRange(0, 2).Draw(t, "retryok") == 0 {
					h.Timeouts = rapid.IntRange(1, h.Retries).Draw(t, "timeouts")
				}
			}
			fw.Hops = append(fw.Hops, h)
		}
		// one planned failure on most routes, biased to the later hops
		if rapid.IntRange(0, 9).Draw(t, "fault") > 2 {
			k := rapid.IntRange(1, H).Draw(t, "faulthop")
			if k == 1 && rapid.IntRange(0, 3).Draw(t, "later") > 0 {
				k = rapid.IntRange(2, H).Draw(t, "faulthop2")
			}
			h := &fw.Hops[k-1]
			kinds := []string{"timeout", "rcvoff"}
			if k == H {
				kinds = append(kinds, "badrecv", "badrecv")
			} else {
				kinds = append(kinds, "sendoff", "badchan")
			}
			switch kind := rapid.SampledFrom(kinds).Draw(t, "faultkind"); kind {
			case "timeout":
				h.Timeouts = 1
				if k >= 2 && h.Retries > 0 {
					h.Timeouts = h.Retries + 1
				}
			default:
				h.Out = kind
			}
		}
		if uturnAt(hopLinks(fw), fw.Pre) > 0 && vx.IsKnown(c43, sigUturn) {
			// excluded by construction: re-route the hop after the U-turn is not possible on a
			// line end, so the whole forward is redrawn as a plain 2-hop line route
			excludedUturns++
			f--
			continue
		}
		c.Fwd = append(c.Fwd, fw)
	}
	c.Order = rapid.SliceOfN(rapid.IntRange(0, 5), 1, 12).Draw(t, "order")
	return c
}

func TestC43(t *testing.T) {
	vx.Check(t, vx.Prop[pfCase]{
		ID: c43,
		Rule: "3 chains (triangle) or 4 chains (ring, optional chord), 1-2 concurrent forwards of 2-4 hops with nested forward memos (map or string `next`, custom timeouts and retries); token native / voucher (0-2 plain pre-hops) / unwinding; " +
			"per hop: timeouts against retries, then ok | receive disabled | invalid final receiver | send disabled on the forwarding chain | unknown next channel; relay order drawn; " +
			"non-trivial = a route of >= 3 hops that was refunded after reaching hop >= 2; distinct by full case",
		MinNTFrac: 0.15,
		Assumptions: []string{
			"honest relayer, honest light clients; transfer params are toggled by direct keeper calls around single receives",
			"the reference ledger applies the ICS-20 escrow/mint/burn/unescrow rules hop by hop for delivered forwards; refunded forwards must leave every chain at its baseline",
		},
		Gen: genC43,
		Run: runC43(t),
	})
}

// TestC43Known re-demonstrates the recorded finding sigUturn on its minimal route: chain 0 sends a
// native token to chain 1 with a forward back to chain 0 over the same channel and an invalid final
// receiver.
func TestC43Known(t *testing.T) {
	run := runC43(t)
	demo := pfCase{N: 3, Fwd: []pfForward{{Origin: 0, Amount: 100, Sender: 1, Recv: 2,
		Hops: []pfHop{{Link: 0, Out: "ok", Retries: -1}, {Link: 0, Out: "badrecv", Retries: -1}}}}, Order: []int{0}}
	vx.Check(t, vx.Prop[pfCase]{
		ID:        c43,
		Rule:      "deterministic re-demonstration of the recorded C43 finding " + sigUturn + " (0 -> 1 -> 0 over one channel, invalid final receiver)",
		MinNTFrac: 0,
		Gen:       func(t *rapid.T) pfCase { return rapid.Just(demo).Draw(t, "demo") },
		Run: func(t rapid.TB, c pfCase, rec *vx.Case) {
			rec.Class("demo-" + sigUturn)
			run(t, c, rec)
		},
	})
}
