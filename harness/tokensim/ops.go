package tokensim

import (
	"bytes"
	"encoding/json"
	"fmt"
	"math/big"
	"strings"
	"time"

	"github.com/cosmos/gogoproto/proto"

	sdkmath "cosmossdk.io/math"

	sdk "github.com/cosmos/cosmos-sdk/types"
	"github.com/cosmos/cosmos-sdk/x/authz"
	banktypes "github.com/cosmos/cosmos-sdk/x/bank/types"

	transfertypes "github.com/cosmos/ibc-go/v11/modules/apps/transfer/types"
	clienttypes "github.com/cosmos/ibc-go/v11/modules/core/02-client/types"
	channeltypes "github.com/cosmos/ibc-go/v11/modules/core/04-channel/types"
	channeltypesv2 "github.com/cosmos/ibc-go/v11/modules/core/04-channel/v2/types"
	ibctesting "github.com/cosmos/ibc-go/v11/testing"

	"github.com/cosmos/ibc-go/v11/modules/apps/callbacks/verifx/pktsim"
	"github.com/cosmos/ibc-go/v11/modules/apps/callbacks/verifx/sim"
	"github.com/cosmos/ibc-go/v11/modules/apps/callbacks/verifx/vx"
)

// Op is one step of a token history. Every "which" field is an index taken modulo the current
// population, so every op means something in every state.
type Op struct {
	K string `json:"k"` // transfer recv ack timeout erecv etimeout dup force block time update donate grant

	C int `json:"c,omitempty"` // chain (transfer: source chain)
	L int `json:"l,omitempty"` // transfer/grant: route index among the routes leaving C; update: link; donate: end on C

	// transfer
	Den   int   `json:"den,omitempty"`  // index into the denominations the sender holds (per the model)
	Pref  int   `json:"pref,omitempty"` // 0 any held denom, 1 vouchers with most hops first, 2 native first, 3 native without '/' first
	Amt   int64 `json:"amt,omitempty"`
	AM    int   `json:"am,omitempty"` // 0 exactly Amt, 1 entire balance (MsgTransfer: the MaxUint256 sentinel), 2 half the balance, 3 balance + Amt
	S     int   `json:"s,omitempty"`  // sender account (packet data sender, MsgTransfer.Sender)
	R     int   `json:"r,omitempty"`  // receiver account on the destination chain / variant of the invalid string
	RK    int   `json:"rk,omitempty"` // RAcct | RInvalid | RBlocked
	Sig   int   `json:"sig"`          // account signing the transaction
	TH    int   `json:"th,omitempty"` // v1: timeout height = destination height + TH (0: none)
	TT    int   `json:"tt,omitempty"` // timeout time = now + TT seconds (0: one hour when no height is set; v2 always has one)
	Memo  int   `json:"memo,omitempty"`
	Via   int   `json:"via,omitempty"`   // v2/alias links: 0 MsgTransfer, 1 MsgSendPacket with a transfer payload
	Enc   int   `json:"enc,omitempty"`   // v2/alias: 0 JSON, 1 protobuf, 2 ABI
	Exec  bool  `json:"exec,omitempty"`  // wrap the message in authz.MsgExec with grantee Sig
	Inner int   `json:"inner,omitempty"` // Exec + MsgSendPacket: inner signer 0 = S, 1 = Sig
	Leg2  int   `json:"leg2,omitempty"`  // MsgSendPacket: >0 adds a second transfer payload (denom index Den+Leg2, amount Amt, receiver R+Leg2)

	// relay
	P     int  `json:"p,omitempty"`     // packet index (negative: from the most recent)
	Of    int  `json:"of,omitempty"`    // >0: the packet sent by history step Of-1 (the op does nothing when that step sent none); overrides P
	H     int  `json:"h,omitempty"`     // proof height: -1 fresh (update the client first), >= 0 index into stored consensus heights
	Forge bool `json:"forge,omitempty"` // ack: relay the opposite acknowledgement content
	// boundary race (erecv / etimeout). erecv: take a fresh proof, then let the destination produce
	// empty blocks until the block that carries the receive has block time == timeout + HD*5 s
	// (HD in -1,0,+1; the shared clock moves 5 s per block); Pre additionally stores the header of
	// the destination block just before on the source's client. etimeout: MsgTimeout proven at
	// exactly (destination height that carried the erecv) + HD, after updating the source's client
	// with exactly that header (no extra block in between).
	HD  int  `json:"hd,omitempty"`
	Pre bool `json:"pre,omitempty"`

	N  int  `json:"n,omitempty"`  // block: blocks; time: seconds; dup: how far back
	On bool `json:"on,omitempty"` // force: ReceiveEnabled value

	// grant
	G    int   `json:"g,omitempty"`    // grantee
	GK   int   `json:"gk,omitempty"`   // 0 TransferAuthorization, 1 generic for MsgTransfer, 2 generic for MsgSendPacket
	Lim  int64 `json:"lim,omitempty"`  // spend limit (0: unbounded sentinel)
	AR   int   `json:"ar,omitempty"`   // allow list: 0 empty (any receiver), k>0: only account (k-1) of the destination chain
	AMem int   `json:"amem,omitempty"` // allowed packet data: 0 none (memo must be empty), 1 "*", 2 exactly the memo list entry 1
	Exp  int   `json:"exp,omitempty"`  // expiration = now + Exp seconds (0: none)
}

// Memos are the memo strings ops choose from (none of them is packet-forward metadata).
var Memos = []string{"", "memo", `{"k":"v"}`}

// InvalidReceivers are strings that are not addresses of any chain.
var InvalidReceivers = []string{"not-an-address", "cosmos1qqqqqqqqqqqqqqqqqqqqqqqqqqqqqqqqqqqqqq", "0x52908400098527886E0F7030069857D2E4169EE7"}

// Encodings of v2 transfer payloads.
var Encodings = []string{transfertypes.EncodingJSON, transfertypes.EncodingProtobuf, transfertypes.EncodingABI}

// Step is what the interpreter reports for one executed op.
type Step struct {
	No     int
	Op     Op
	Kind   string // transfer recv ack timeout (a dup reports the kind of the duplicated message) force block time update donate grant none
	Dup    bool
	Chain  int // chain that processed the transaction (-1: none)
	Signer int
	HadTx  bool
	Res    sim.TxResult
	Noop   bool
	Pkt    *TPkt
	Sent   bool
	// Effect is the model transition applied: "", send, recv-ok, recv-err, ack-ok, refund,
	// again (a relay message was processed, not as a no-op, for a packet the model had already
	// moved past that stage), donate, grant.
	Effect string
	Before []Bank
	After  []Bank
	// Allowed[chain][label]: accounts the op names (sender / receiver / escrow / transfer module).
	Allowed map[int]map[string]bool
	// transfer details
	Sender    int
	SrcEnd    *End
	LinkKind  int
	ExecWrap  bool
	Covered   bool // authz model: a grant of the sender to the signer covers the message
	Msg       sdk.Msg
	DataNote  string // committed packet data differed from the message (should never happen)
	Coin      string
	Amount    *big.Int
	SendDenom Denom
	// relay details
	Edge        bool // erecv / etimeout
	EdgeAligned bool // erecv: the carrying block's time equals the packet timeout (in seconds); etimeout: proof height is exactly the requested one
	AckSuccess  bool // recv: status of the written acknowledgement; ack: content relayed
	ExpectOK    bool // recv: the model's prediction (made before the transaction) that the receive succeeds
}

func (st *Step) allow(chain int, labels ...string) {
	if st.Allowed == nil {
		st.Allowed = map[int]map[string]bool{}
	}
	if st.Allowed[chain] == nil {
		st.Allowed[chain] = map[string]bool{}
	}
	for _, l := range labels {
		st.Allowed[chain][l] = true
	}
}

func (w *World) pktFor(op Op) *TPkt {
	if op.Of > 0 {
		if i, ok := w.SentBy[op.Of-1]; ok {
			return w.TP[i]
		}
		return nil
	}
	return w.pktAt(op.P)
}

func (w *World) pktAt(i int) *TPkt {
	n := len(w.TP)
	if n == 0 {
		return nil
	}
	if i < 0 {
		return w.TP[n-1-Pick(n, -1-i)]
	}
	return w.TP[Pick(n, i)]
}

// chooseDenom resolves (Den, Pref) against the model holdings of account k on chain c.
func (w *World) chooseDenom(c, k, den, pref int) Denom {
	held := w.M.Held(c, k) // natives first, then by hops ascending
	if len(held) == 0 {
		return Denom{Base: w.Native[c][0]}
	}
	switch pref {
	case 1: // most hops first
		rev := make([]Denom, len(held))
		for i := range held {
			rev[len(held)-1-i] = held[i]
		}
		held = rev
		// restrict to the vouchers when there are any
		nv := 0
		for _, d := range held {
			if d.Hops() > 0 {
				nv++
			}
		}
		if nv > 0 {
			held = held[:nv]
		}
	case 2:
		nn := 0
		for _, d := range held {
			if d.Hops() == 0 {
				nn++
			}
		}
		if nn > 0 {
			held = held[:nn]
		}
	case 3: // natives whose name has no '/' (the only natives IBC v2 accepts)
		var plain []Denom
		for _, d := range held {
			if d.Hops() == 0 && !strings.Contains(d.Base, "/") {
				plain = append(plain, d)
			}
		}
		if len(plain) > 0 {
			held = plain
		}
	}
	return held[Pick(len(held), den)]
}

func (w *World) receiverString(dst int, rk, r int) string {
	switch rk {
	case RInvalid:
		return InvalidReceivers[Pick(len(InvalidReceivers), r)]
	case RBlocked:
		return BlockedAddr().String()
	}
	return w.Addr(dst, Pick(NAcct, r)).String()
}

// Now is the shared clock.
func (w *World) Now() time.Time { return w.Coord.CurrentTime }

type wireData struct {
	Denom    string `json:"denom"`
	Amount   string `json:"amount"`
	Sender   string `json:"sender"`
	Receiver string `json:"receiver"`
	Memo     string `json:"memo"`
}

func decodeData(bz []byte, enc string) (wireData, bool) {
	var d wireData
	switch enc {
	case "", transfertypes.EncodingJSON:
		if json.Unmarshal(bz, &d) != nil {
			return d, false
		}
		return d, true
	case transfertypes.EncodingProtobuf:
		var p transfertypes.FungibleTokenPacketData
		if proto.Unmarshal(bz, &p) != nil {
			return d, false
		}
		return wireData{p.Denom, p.Amount, p.Sender, p.Receiver, p.Memo}, true
	case transfertypes.EncodingABI:
		p, err := transfertypes.DecodeABIFungibleTokenPacketData(bz)
		if err != nil {
			return d, false
		}
		return wireData{p.Denom, p.Amount, p.Sender, p.Receiver, p.Memo}, true
	}
	return d, false
}

// Exec runs one op, updates the model from the observed protocol outcome (transaction result,
// no-op flag, acknowledgement status) and brackets the single transaction with bank snapshots
// of every chain.
func (w *World) Exec(no int, op Op) *Step {
	w.StepNo = no
	st := &Step{No: no, Op: op, Kind: "none", Chain: -1, Signer: Pick(len(w.Chains[0].SenderAccounts), op.Sig)}
	n := len(w.Chains)
	switch op.K {
	case "block":
		st.Kind = "block"
		st.Before = w.Banks()
		w.Block(Pick(n, op.C), 1+Pick(3, op.N))
		st.After = w.Banks()
	case "time":
		st.Kind = "time"
		st.Before = w.Banks()
		w.AdvanceTime(time.Duration(1+Pick(7200, op.N)) * time.Second)
		st.After = w.Banks()
	case "update":
		if len(w.Links) == 0 {
			return st
		}
		st.Kind = "update"
		l := w.Links[Pick(len(w.Links), op.L)]
		side := Pick(2, op.C)
		st.Chain = l.Chain[side]
		st.Before = w.Banks()
		st.Res = w.UpdateClient(st.Chain, l.Client(side), l.Chain[1-side], st.Signer)
		st.HadTx = true
		st.After = w.Banks()
	case "force":
		st.Kind = "force"
		c := Pick(n, op.C)
		st.Before = w.Banks()
		w.SetReceiveEnabled(c, op.On)
		st.After = w.Banks()
	case "donate":
		w.execDonate(st)
	case "grant":
		w.execGrant(st)
	case "transfer":
		w.execTransfer(st)
	case "recv", "ack", "timeout":
		w.execRelay(st)
	case "erecv", "etimeout":
		w.execEdge(st)
	case "dup":
		w.execDup(st)
	}
	if st.Before == nil {
		st.Before = w.Banks()
		st.After = st.Before
	}
	return st
}

func (w *World) execDonate(st *Step) {
	op := st.Op
	c := Pick(len(w.Chains), op.C)
	ends := w.EndsOn(c)
	if len(ends) == 0 {
		return
	}
	st.Kind = "donate"
	e := ends[Pick(len(ends), op.L)]
	s := Pick(NAcct, op.S)
	d := w.chooseDenom(c, s, op.Den, op.Pref)
	amt := op.Amt
	if amt <= 0 {
		amt = 1
	}
	st.Chain, st.Signer, st.Sender, st.Coin = c, s, s, d.Coin()
	st.Amount = big.NewInt(amt)
	msg := banktypes.NewMsgSend(w.Addr(c, s), e.Escrow, sdk.NewCoins(sdk.NewCoin(d.Coin(), sdkmath.NewInt(amt))))
	st.Msg = msg
	st.allow(c, AcctLabel(s), EscrowLabel(e.ID))
	st.Before = w.Banks()
	st.Res = w.Deliver(c, s, msg)
	st.HadTx = true
	st.After = w.Banks()
	if st.Res.OK {
		w.M.onDonate(c, s, e, d.Coin(), st.Amount)
		st.Effect = "donate"
	}
}

func (w *World) execTransfer(st *Step) {
	op := st.Op
	c := Pick(len(w.Chains), op.C)
	routes := w.RoutesFrom(c)
	if len(routes) == 0 {
		return
	}
	st.Kind = "transfer"
	rt := routes[Pick(len(routes), op.L)]
	l, dir := rt.Link, rt.Dir
	src, dstEnd := w.EndOf(l, dir), w.EndOf(l, 1-dir)
	dst := l.Chain[1-dir]
	kind := SpecKind(l)
	s := Pick(NAcct, op.S)
	sig := st.Signer
	st.Chain, st.Sender, st.SrcEnd, st.LinkKind = c, s, src, kind
	now := w.Now()

	type legReq struct {
		d    Denom
		amt  *big.Int
		wire string // amount string put into the message
		recv string
		rk   int
		r    int
		memo string
	}
	mkLeg := func(den, r int) legReq {
		d := w.chooseDenom(c, s, den, op.Pref)
		bal := w.M.BalOf(c, AcctLabel(s), d.Coin())
		amt := big.NewInt(op.Amt)
		if amt.Sign() <= 0 {
			amt = big.NewInt(1)
		}
		switch Pick(4, op.AM) {
		case 1:
			amt = new(big.Int).Set(bal)
		case 2:
			amt = new(big.Int).Rsh(bal, 1)
		case 3:
			amt = new(big.Int).Add(bal, amt)
		}
		if amt.Sign() <= 0 {
			amt = big.NewInt(1)
		}
		rk := Pick(3, op.RK)
		return legReq{d: d, amt: amt, wire: amt.String(), recv: w.receiverString(dst, rk, r), rk: rk, r: Pick(NAcct, r), memo: Memos[Pick(len(Memos), op.Memo)]}
	}
	legs := []legReq{mkLeg(op.Den, op.R)}
	st.SendDenom, st.Coin, st.Amount = legs[0].d, legs[0].d.Coin(), legs[0].amt

	senderAddr := w.Addr(c, s).String()
	var msg sdk.Msg
	via := "msgtransfer"
	enc := ""
	// timeouts
	tt := op.TT
	var th clienttypes.Height
	if kind == KV1 {
		if op.TH > 0 {
			th = clienttypes.NewHeight(clienttypes.ParseChainID(w.Chains[dst].ChainID), uint64(w.Height(dst)+int64(op.TH)))
		} else if tt <= 0 {
			tt = 3600
		}
	} else if tt <= 0 {
		tt = 3600
	}
	var tsNano, tsSec uint64
	if tt > 0 {
		tsNano = uint64(now.Add(time.Duration(tt) * time.Second).UnixNano())
		tsSec = uint64(now.Unix() + int64(tt))
	}
	coinOf := func(lr legReq) sdk.Coin {
		a := sdkmath.NewIntFromBigInt(lr.amt)
		return sdk.NewCoin(lr.d.Coin(), a)
	}
	switch {
	case kind == KV1:
		lr := legs[0]
		coin := coinOf(lr)
		if Pick(4, op.AM) == 1 {
			coin.Amount = transfertypes.UnboundedSpendLimit()
		}
		msg = transfertypes.NewMsgTransfer(Port, src.ID, coin, senderAddr, lr.recv, th, tsNano, lr.memo)
	case Pick(2, op.Via) == 0:
		lr := legs[0]
		coin := coinOf(lr)
		if Pick(4, op.AM) == 1 {
			coin.Amount = transfertypes.UnboundedSpendLimit()
		}
		enc = Encodings[Pick(len(Encodings), op.Enc)]
		msg = transfertypes.NewMsgTransferWithEncoding(Port, src.ID, coin, senderAddr, lr.recv, clienttypes.ZeroHeight(), tsSec, lr.memo, enc, kind == KAlias)
	default:
		via = "sendpacket"
		enc = Encodings[Pick(len(Encodings), op.Enc)]
		if op.Leg2 > 0 {
			l2 := mkLeg(op.Den+op.Leg2, op.R+op.Leg2)
			// two payloads moving the same denomination must fit the balance together; that is
			// for the chain to decide, the model just follows the outcome
			legs = append(legs, l2)
		}
		var pls []channeltypesv2.Payload
		for _, lr := range legs {
			data := transfertypes.NewFungibleTokenPacketData(lr.d.Path(), lr.wire, senderAddr, lr.recv, lr.memo)
			bz, err := transfertypes.MarshalPacketData(data, transfertypes.V1, enc)
			if err != nil {
				vx.Harnessf("MarshalPacketData(%s): %v", enc, err)
			}
			pls = append(pls, channeltypesv2.NewPayload(Port, Port, transfertypes.V1, enc, bz))
		}
		inner := w.Addr(c, sig).String()
		if op.Exec && Pick(2, op.Inner) == 0 {
			inner = senderAddr
		}
		msg = channeltypesv2.NewMsgSendPacket(src.ID, tsSec, inner, pls...)
	}
	st.Msg = msg
	if op.Exec {
		st.ExecWrap = true
		via += "/exec"
		st.Covered = w.grantCovers(c, sig, msg, now)
		ex := authz.NewMsgExec(w.Addr(c, sig), []sdk.Msg{msg})
		msg = &ex
	}
	st.allow(c, AcctLabel(s), EscrowLabel(src.ID), "mod:"+transfertypes.ModuleName)

	st.Before = w.Banks()
	st.Res = w.Deliver(c, sig, msg)
	st.HadTx = true
	st.After = w.Banks()
	if !st.Res.OK {
		return
	}
	if op.Exec {
		w.grantConsume(c, sig, st.Msg, now)
	}
	// recover the committed packet from the events
	sp := &sim.Pkt{Idx: len(w.Pkts), Link: l.Idx, Dir: dir, SrcHeight: st.Res.Height}
	var datas []wireData
	if kind == KV1 {
		p1, err := ibctesting.ParseV1PacketFromEvents(st.Res.Events)
		if err != nil {
			vx.Harnessf("transfer committed but no v1 packet in events: %v", err)
		}
		sp.P1 = p1
		d, ok := decodeData(p1.Data, "")
		if !ok {
			vx.Harnessf("cannot decode committed v1 packet data %q", p1.Data)
		}
		datas = append(datas, d)
		if p1.SourceChannel != src.ID || p1.DestinationChannel != dstEnd.ID || p1.SourcePort != Port || p1.DestinationPort != l.Port(1-dir) {
			st.DataNote += fmt.Sprintf("packet route %s/%s->%s/%s; ", p1.SourcePort, p1.SourceChannel, p1.DestinationPort, p1.DestinationChannel)
		}
	} else {
		p2, err := ibctesting.ParseV2PacketFromEvents(st.Res.Events)
		if err != nil {
			vx.Harnessf("send committed but no v2 packet in events: %v", err)
		}
		sp.V2, sp.P2 = true, p2
		if p2.SourceClient != src.ID || p2.DestinationClient != dstEnd.ID {
			st.DataNote += fmt.Sprintf("packet route %s->%s; ", p2.SourceClient, p2.DestinationClient)
		}
		if len(p2.Payloads) != len(legs) {
			vx.Harnessf("committed packet has %d payloads, message had %d", len(p2.Payloads), len(legs))
		}
		for _, pl := range p2.Payloads {
			d, ok := decodeData(pl.Value, pl.Encoding)
			if !ok {
				vx.Harnessf("cannot decode committed payload (%s)", pl.Encoding)
			}
			datas = append(datas, d)
		}
	}
	w.Pkts = append(w.Pkts, sp)
	tp := &TPkt{P: sp, Src: src, Dst: dstEnd, Kind: kind, Via: via, RecvStep: -1, EndStep: -1}
	if w.IsMock(l) {
		tp.Kind = KMock
	}
	for i, lr := range legs {
		d := datas[i]
		amt, ok := new(big.Int).SetString(d.Amount, 10)
		if !ok {
			vx.Harnessf("committed amount %q is not a number", d.Amount)
		}
		if d.Denom != lr.d.Path() || d.Sender != senderAddr || d.Receiver != lr.recv || d.Memo != lr.memo || amt.Cmp(lr.amt) != 0 {
			st.DataNote += fmt.Sprintf("leg %d committed {%s %s %s->%s memo %q} for message {%s %s %s->%s memo %q}; ", i, d.Amount, d.Denom, d.Sender, d.Receiver, d.Memo, lr.amt, lr.d.Path(), senderAddr, lr.recv, lr.memo)
		}
		tp.Legs = append(tp.Legs, Leg{Denom: lr.d, Amount: amt, Sender: s, RKind: lr.rk, Receiver: lr.r, Return: lr.d.HasPrefix(src.ID), Memo: lr.memo})
	}
	w.TP = append(w.TP, tp)
	w.SentBy[st.No] = len(w.TP) - 1
	w.M.onSend(tp)
	st.Pkt, st.Sent, st.Effect = tp, true, "send"
}

// AckIsSuccess classifies the acknowledgement noted on a packet (nil: unknown).
func AckIsSuccess(p *sim.Pkt) (success, known bool) {
	if p.V2 {
		if p.Ack2 == nil || len(p.Ack2.AppAcknowledgements) == 0 {
			return false, false
		}
		for _, a := range p.Ack2.AppAcknowledgements {
			if bytes.Equal(a, channeltypesv2.ErrorAcknowledgement[:]) {
				return false, true
			}
		}
		return true, true
	}
	if p.Ack1 == nil {
		return false, false
	}
	var a struct {
		Result []byte `json:"result"`
		Error  string `json:"error"`
	}
	if json.Unmarshal(p.Ack1, &a) != nil {
		return false, false
	}
	return a.Error == "" && len(a.Result) > 0, true
}

// SuccessAck1 / ErrorAck1 are the v1 ICS-20 acknowledgement bytes.
func SuccessAck1() []byte { return channeltypes.NewResultAcknowledgement([]byte{1}).Acknowledgement() }
func ErrorAck1() []byte {
	return channeltypes.NewErrorAcknowledgement(transfertypes.ErrReceiveFailed).Acknowledgement()
}

func (w *World) execRelay(st *Step) {
	op := st.Op
	p := w.pktFor(op)
	if p == nil {
		return
	}
	st.Kind, st.Pkt = op.K, p
	l := w.Links[p.P.Link]
	sig := st.Signer
	var msg sdk.Msg
	switch op.K {
	case "recv":
		side := 1 - p.P.Dir
		st.Chain = l.Chain[side]
		h := pktsim.ChooseHeight(w.World, l, side, op.H, sig)
		msg = w.BuildRecv(p.P, h, sig)
	case "ack":
		side := p.P.Dir
		st.Chain = l.Chain[side]
		h := pktsim.ChooseHeight(w.World, l, side, op.H, sig)
		succ, known := AckIsSuccess(p.P)
		if !known {
			succ = true
		}
		a1 := p.P.Ack1
		var a2 channeltypesv2.Acknowledgement
		if p.P.Ack2 != nil {
			a2 = *p.P.Ack2
		}
		if !known || op.Forge {
			if known {
				succ = !succ
			}
			if succ {
				a1 = SuccessAck1()
				apps := make([][]byte, 0, len(p.Legs))
				for range p.Legs {
					apps = append(apps, SuccessAck1())
				}
				a2 = channeltypesv2.Acknowledgement{AppAcknowledgements: apps}
			} else {
				a1 = ErrorAck1()
				a2 = channeltypesv2.Acknowledgement{AppAcknowledgements: [][]byte{channeltypesv2.ErrorAcknowledgement[:]}}
			}
		}
		st.AckSuccess = succ
		msg = w.BuildAck(p.P, a1, a2, h, sig)
	case "timeout":
		side := p.P.Dir
		st.Chain = l.Chain[side]
		h := pktsim.ChooseHeight(w.World, l, side, op.H, sig)
		var nsr uint64
		if !p.P.V2 {
			nsr = w.NextSeqRecv(p.P)
		}
		msg = w.BuildTimeout(p.P, nsr, h, sig)
	}
	w.deliverRelay(st, op.K, p, msg, sig)
}

// timeoutSec is the packet's timestamp timeout in whole seconds (0: none).
func timeoutSec(p *sim.Pkt) int64 {
	if p.V2 {
		return int64(p.P2.TimeoutTimestamp)
	}
	return int64(p.P1.TimeoutTimestamp / 1_000_000_000)
}

// execEdge runs the boundary-race ops (see Op.HD).
func (w *World) execEdge(st *Step) {
	op := st.Op
	p := w.pktFor(op)
	if p == nil {
		return
	}
	l := w.Links[p.P.Link]
	sig := st.Signer
	srcSide, dstSide := p.P.Dir, 1-p.P.Dir
	sc, dc := l.Chain[srcSide], l.Chain[dstSide]
	hd := Pick(3, op.HD+1) - 1
	st.Pkt, st.Edge = p, true
	switch op.K {
	case "erecv":
		st.Kind, st.Chain = "recv", dc
		h := w.FreshHeight(l, dstSide, sig)
		T := timeoutSec(p.P)
		if T > 0 {
			target := T + int64(hd)*5
			if op.Pre {
				for k := 0; k < 24 && w.Now().Unix() < target-5; k++ {
					w.Block(dc, 1)
				}
				if w.Now().Unix() == target-5 {
					w.UpdateClientNoCommit(sc, l.Client(srcSide), dc, sig)
				}
			}
			for k := 0; k < 24 && w.Now().Unix() < target; k++ {
				w.Block(dc, 1)
			}
		}
		st.EdgeAligned = T > 0 && w.Now().Unix() == T && w.Now().Nanosecond() == 0
		msg := w.BuildRecv(p.P, h, sig)
		w.deliverRelay(st, "recv", p, msg, sig)
		p.EdgeH = st.Res.Height
	case "etimeout":
		st.Kind, st.Chain = "timeout", sc
		target := p.EdgeH + int64(hd)
		if p.EdgeH == 0 {
			target = w.Height(dc) + int64(hd)
		}
		if target < 2 {
			target = 2
		}
		h := uint64(target)
		have := func() bool {
			for _, x := range w.StoredHeights(l, srcSide) {
				if x == h {
					return true
				}
			}
			return false
		}
		if !have() {
			for k := 0; k < 3 && w.Height(dc) < target; k++ {
				w.Block(dc, 1)
			}
			if w.Height(dc) == target {
				w.UpdateClientNoCommit(sc, l.Client(srcSide), dc, sig)
			}
		}
		if have() {
			st.EdgeAligned = true
		} else {
			// the exact header is gone: the closest stored height at or above, else a fresh one
			h = 0
			for _, x := range w.StoredHeights(l, srcSide) {
				if x >= uint64(target) && (h == 0 || x < h) {
					h = x
				}
			}
			if h == 0 {
				h = w.FreshHeight(l, srcSide, sig)
			}
		}
		var nsr uint64
		if !p.P.V2 {
			nsr = w.NextSeqRecv(p.P)
		}
		msg := w.BuildTimeout(p.P, nsr, h, sig)
		w.deliverRelay(st, "timeout", p, msg, sig)
	}
}

func (w *World) execDup(st *Step) {
	if len(w.Relays) == 0 {
		return
	}
	m := w.Relays[len(w.Relays)-1-Pick(len(w.Relays), st.Op.N)]
	st.Kind, st.Dup, st.Pkt, st.Chain, st.Signer = m.Kind, true, m.Pkt, m.Chain, m.Signer
	if m.Kind == "ack" {
		switch a := m.Msg.(type) {
		case *channeltypes.MsgAcknowledgement:
			st.AckSuccess = bytes.Equal(a.Acknowledgement, SuccessAck1())
		case *channeltypesv2.MsgAcknowledgement:
			st.AckSuccess = true
			for _, x := range a.Acknowledgement.AppAcknowledgements {
				if bytes.Equal(x, channeltypesv2.ErrorAcknowledgement[:]) {
					st.AckSuccess = false
				}
			}
		}
	}
	w.deliverRelay(st, m.Kind, m.Pkt, m.Msg, m.Signer)
}

func (w *World) deliverRelay(st *Step, kind string, p *TPkt, msg sdk.Msg, sig int) {
	st.Msg = msg
	c := st.Chain
	tm := "mod:" + transfertypes.ModuleName
	if kind == "recv" {
		st.allow(c, EscrowLabel(p.Dst.ID), tm)
		for _, lg := range p.Legs {
			switch lg.RKind {
			case RAcct:
				st.allow(c, AcctLabel(lg.Receiver))
			case RBlocked:
				st.allow(c, BlockedLabel())
			}
		}
	} else {
		st.allow(c, EscrowLabel(p.Src.ID), tm)
		for _, lg := range p.Legs {
			st.allow(c, AcctLabel(lg.Sender))
		}
	}
	if kind == "recv" {
		st.ExpectOK = w.ExpectRecvSuccess(p)
	}
	st.Before = w.Banks()
	st.Res = w.Deliver(c, sig, msg)
	st.HadTx = true
	st.After = w.Banks()
	if !st.Dup {
		w.Relays = append(w.Relays, RelayMsg{Chain: c, Signer: sig, Msg: msg, Kind: kind, Pkt: p})
	}
	if !st.Res.OK {
		return
	}
	st.Noop = sim.ResultIsNoop(st.Res)
	if st.Noop {
		return
	}
	switch kind {
	case "recv":
		if p.Status != StSent {
			st.Effect = "again"
			return
		}
		w.NoteAck(p.P, st.Res)
		succ, known := AckIsSuccess(p.P)
		if !known {
			vx.Harnessf("receive of %s committed without a readable acknowledgement", p)
		}
		st.AckSuccess = succ
		w.M.onRecv(p, succ)
		p.RecvStep = st.No
		if succ {
			st.Effect = "recv-ok"
		} else {
			st.Effect = "recv-err"
		}
	case "ack":
		if p.Status == StAcked || p.Status == StRefunded {
			st.Effect = "again"
			return
		}
		p.EndStep = st.No
		if st.AckSuccess {
			p.Status, p.Terminal, st.Effect = StAcked, "ack-ok", "ack-ok"
		} else {
			w.M.onRefund(p)
			p.Terminal, st.Effect = "ack-err", "refund"
		}
	case "timeout":
		if p.Status == StAcked || p.Status == StRefunded {
			st.Effect = "again"
			return
		}
		p.EndStep = st.No
		w.M.onRefund(p)
		p.Terminal, st.Effect = "timeout", "refund"
	}
}

// CheckFrame evaluates "only the named accounts change": a failed or no-op transaction and
// every non-transaction step change no balance and no supply anywhere; a committed transaction
// changes only the balances of the accounts its op names (sender / receiver / escrow of that
// end / transfer module account) on the chain that ran it, the supply of voucher denominations
// there, and nothing on any other chain.
func (w *World) CheckFrame(st *Step) []Finding {
	var out []Finding
	committed := st.HadTx && st.Res.OK && !st.Noop
	for i := range w.Chains {
		for _, ch := range BankDiff(st.Before[i], st.After[i]) {
			isSup, label, coin := SplitKey(ch.Key)
			switch {
			case !committed || st.Kind == "update" || st.Kind == "grant":
				out = append(out, Finding{"balance-changed-without-effective-tx", fmt.Sprintf("step %d (%s, tx=%v ok=%v noop=%v): chain%d %s", st.No, st.Kind, st.HadTx, st.Res.OK, st.Noop, i, ch)})
			case i != st.Chain:
				out = append(out, Finding{"other-chain-changed", fmt.Sprintf("step %d (%s on chain%d): chain%d %s", st.No, st.Kind, st.Chain, i, ch)})
			case isSup:
				if _, native := w.M.Supply0[i][coin]; native {
					out = append(out, Finding{"native-supply-changed", fmt.Sprintf("step %d (%s): chain%d %s", st.No, st.Kind, i, ch)})
				}
			case !st.Allowed[i][label]:
				out = append(out, Finding{"unnamed-account-changed", fmt.Sprintf("step %d (%s): chain%d %s (named: %v)", st.No, st.Kind, i, ch, keys(st.Allowed[i]))})
			}
		}
	}
	return out
}

func keys(m map[string]bool) []string {
	out := make([]string, 0, len(m))
	for k := range m {
		out = append(out, k)
	}
	sortStrings(out)
	return out
}

// Describe renders a step for violation messages.
func (st *Step) Describe() string {
	p := "-"
	if st.Pkt != nil {
		p = st.Pkt.String()
	}
	return fmt.Sprintf("step %d kind=%s dup=%v chain=%d signer=%d tx=%v ok=%v noop=%v effect=%q pkt=%s err=%v op=%+v", st.No, st.Kind, st.Dup, st.Chain, st.Signer, st.HadTx, st.Res.OK, st.Noop, st.Effect, p, st.Res.Err, st.Op)
}

// ---- honest relaying helpers (setup phases, C32 scenarios) -----------------------------------

// RelayRecv delivers the receive of packet index pi with a fresh proof.
func (w *World) RelayRecv(no, pi, signer int) *Step {
	return w.Exec(no, Op{K: "recv", P: pi, H: -1, Sig: signer})
}

// RelayAck delivers the acknowledgement of packet index pi with a fresh proof.
func (w *World) RelayAck(no, pi, signer int) *Step {
	return w.Exec(no, Op{K: "ack", P: pi, H: -1, Sig: signer})
}

// RelayTimeout delivers the timeout of packet index pi with a fresh proof.
func (w *World) RelayTimeout(no, pi, signer int) *Step {
	return w.Exec(no, Op{K: "timeout", P: pi, H: -1, Sig: signer})
}
