package codec

import (
	"encoding/hex"
	"encoding/json"
	"fmt"
	"strings"
	"sync"
	"testing"

	"github.com/cosmos/gogoproto/proto"
	"pgregory.net/rapid"

	sdkmath "cosmossdk.io/math"

	sdk "github.com/cosmos/cosmos-sdk/types"
	banktypes "github.com/cosmos/cosmos-sdk/x/bank/types"

	gmptypes "github.com/cosmos/ibc-go/v11/modules/apps/27-gmp/types"
	icatypes "github.com/cosmos/ibc-go/v11/modules/apps/27-interchain-accounts/types"
	callbacktypes "github.com/cosmos/ibc-go/v11/modules/apps/callbacks/types"
	pfmtypes "github.com/cosmos/ibc-go/v11/modules/apps/packet-forward-middleware/types"
	transfertypes "github.com/cosmos/ibc-go/v11/modules/apps/transfer/types"
	clienttypes "github.com/cosmos/ibc-go/v11/modules/core/02-client/types"
	connectiontypes "github.com/cosmos/ibc-go/v11/modules/core/03-connection/types"
	channeltypes "github.com/cosmos/ibc-go/v11/modules/core/04-channel/types"
	channeltypesv2 "github.com/cosmos/ibc-go/v11/modules/core/04-channel/v2/types"
	porttypes "github.com/cosmos/ibc-go/v11/modules/core/05-port/types"
	host "github.com/cosmos/ibc-go/v11/modules/core/24-host"
	ibcexported "github.com/cosmos/ibc-go/v11/modules/core/exported"

	"github.com/cosmos/ibc-go/v11/modules/apps/callbacks/verifx/vx"
)

// C47: message stateless validation, identifier/height/denomination parsing, and decoding
// of packet data, memos, interchain-account metadata, forward metadata, callback data and
// acknowledgements never panic, whatever the input. A panic IS the violation.

// ---- messages built from hostile pools ---------------------------------------------------

type c47MsgCase struct {
	Type string // protobuf type URL of a registered ibc-go type
	Tape []byte // decisions of the structure-aware filler
}

func genC47Msg(t *rapid.T) c47MsgCase {
	e := getEnv()
	if rapid.IntRange(0, 60).Draw(t, "known-demo") == 37 {
		return c47MsgCase{Type: "known-demo", Tape: []byte{byte(rapid.IntRange(0, len(c47Demos)-1).Draw(t, "demo"))}}
	}
	var u string
	if rapid.IntRange(0, 4).Draw(t, "msg-or-other") > 0 {
		u = rapid.SampledFrom(e.msgs).Draw(t, "type")
	} else {
		u = rapid.SampledFrom(e.others).Draw(t, "othertype")
	}
	var tp []byte
	switch rapid.IntRange(0, 3).Draw(t, "tapekind") {
	case 0: // mostly well-formed with a few hostile decisions
		n := rapid.IntRange(0, 300).Draw(t, "tapelen")
		tp = make([]byte, n)
		k := rapid.IntRange(0, 6).Draw(t, "nhostile")
		for i := 0; i < k && n > 0; i++ {
			tp[rapid.IntRange(0, n-1).Draw(t, "hpos")] = rapid.Byte().Draw(t, "hval")
		}
	case 1: // well-formed decisions of varying flavour with a few hostile ones
		n := rapid.IntRange(0, 300).Draw(t, "tapelen")
		tp = make([]byte, n)
		for i := range tp {
			tp[i] = byte(rapid.IntRange(0, 95).Draw(t, "low"))
		}
		k := rapid.IntRange(0, 4).Draw(t, "nhostile")
		for i := 0; i < k && n > 0; i++ {
			tp[rapid.IntRange(0, n-1).Draw(t, "hpos")] = byte(rapid.IntRange(160, 255).Draw(t, "hval"))
		}
	default:
		// rapid favours small byte values; spread them over the whole range so that hostile
		// decisions (high values) are as common as well-formed ones
		tp = rapid.SliceOfN(rapid.Byte(), 0, 400).Draw(t, "tape")
		for i := range tp {
			tp[i] = tp[i]*167 + 13
		}
	}
	return c47MsgCase{Type: u, Tape: tp}
}

// c47Msg builds the message, runs its stateless validation in memory, sends it through
// the wire (encode, decode with interface unpacking) and validates the decoded copy.
func c47Msg(c c47MsgCase, m counters) (findings, *tape) {
	var out findings
	e := getEnv()
	if c.Type == "known-demo" {
		k := 0
		if len(c.Tape) > 0 {
			k = int(c.Tape[0]) % len(c47Demos)
		}
		c47Demos[k].Run(&out)
		return out, &tape{}
	}
	msg, tp := buildMsg(c.Type, c.Tape)
	tn := typeName(msg)
	in := func() string { return fmt.Sprintf("type=%s tape=%x value=%s", c.Type, c.Tape, dumpMsg(msg)) }
	vals := validators(msg)
	if len(vals) == 0 {
		m["no_stateless_validation"]++
	}
	for _, name := range []string{"ValidateBasic", "Validate"} {
		f, ok := vals[name]
		if !ok {
			continue
		}
		var err error
		if noPanic(&out, tn+"."+name, in, func() { err = f() }) {
			if err == nil {
				m["validate_ok"]++
			} else {
				m["validate_err"]++
			}
		}
	}
	// wire path: what a node does with submitted bytes
	var bz []byte
	var err error
	if panicked, _ := vx.Recover(func() { bz, err = e.cdc.Marshal(msg) }); panicked || err != nil {
		m["not_encodable"]++ // harness side: this in-memory value has no wire form
		return out, tp
	}
	fresh := e.newMsg(c.Type)
	inw := func() string { return fmt.Sprintf("type=%s wire=%x (tape=%x)", c.Type, bz, c.Tape) }
	if !noPanic(&out, tn+".Unmarshal", inw, func() { err = e.cdc.Unmarshal(bz, fresh) }) {
		return out, tp
	}
	if err != nil {
		m["decode_rejected"]++
		return out, tp
	}
	m["decode_accepted"]++
	for _, name := range []string{"ValidateBasic", "Validate"} {
		if f, ok := validators(fresh)[name]; ok {
			if noPanic(&out, tn+"."+name, inw, func() { err = f() }) && err == nil {
				m["decoded_validate_ok"]++
			}
		}
	}
	return out, tp
}

func runC47Msgs(t rapid.TB, c c47MsgCase, rec *vx.Case) {
	m := counters{}
	out, tp := c47Msg(c, m)
	m.flush(rec)
	out.report(t, rec, "C47")
	e := getEnv()
	if c.Type == "known-demo" {
		rec.Class("known-demo")
		return
	}
	rec.Class("group:" + e.group[c.Type])
	if m["validate_ok"] > 0 {
		rec.Class("validation-passes")
	}
	if m["validate_err"] > 0 {
		rec.Class("validation-rejects")
	}
	if tp.nil > 0 {
		rec.Class("nil-nested")
	}
	if tp.anyCached > 0 {
		rec.Class("any-cached")
	}
	if tp.anyRaw > 0 {
		rec.Class("any-uncached-or-garbage")
	}
	if tp.hostile > 0 {
		rec.Class("hostile-leaf")
	}
	rec.Add("valid_choices", int64(tp.valid))
	rec.Add("hostile_choices", int64(tp.hostile))
	// beyond the first validation branch: the message decodes and at least two fields are well-formed
	rec.NonTrivialIf(m["decode_accepted"] > 0 && tp.valid >= 2 && (tp.hostile > 0 || tp.nil > 0 || tp.anyRaw > 0 || m["validate_ok"] > 0))
}

func TestC47Msgs(t *testing.T) {
	e := getEnv()
	vx.Check(t, vx.Prop[c47MsgCase]{
		ID: "C47",
		Rule: fmt.Sprintf("one of the %d sdk.Msg types (plus %d other registered ibc-go types with stateless validation: client/consensus states, headers, misbehaviour, authorizations) taken from the simapp interface registry, every field filled by a tape-driven reflective filler "+
			"(field-name-aware well-formed content vs hostile pools: empty, blank, 5 kB, invalid UTF-8, out-of-range sequences, max ints, nil nested messages, nil/empty/garbage/uncached/wrong-interface Any, corrupted copies of well-formed client states); "+
			"ValidateBasic/Validate run on the in-memory value, then on the copy decoded from its wire form with interface unpacking; non-trivial = decodes, >=2 well-formed fields and at least one hostile/nil/uncached element or passing validation; distinct by (type, tape)", len(e.msgs), len(e.others)),
		MinNTFrac: 0.3,
		Gen:       genC47Msg,
		Run:       runC47Msgs,
	})
}

// ---- parsers and decoders ----------------------------------------------------------------

type fakeICAChannelKeeper struct {
	porttypes.ICS4Wrapper
	counterparty string
}

func (fakeICAChannelKeeper) GetChannel(sdk.Context, string, string) (channeltypes.Channel, bool) {
	return channeltypes.Channel{}, false
}
func (fakeICAChannelKeeper) GetNextSequenceSend(sdk.Context, string, string) (uint64, bool) {
	return 0, false
}
func (k fakeICAChannelKeeper) GetConnection(sdk.Context, string) (connectiontypes.ConnectionEnd, error) {
	return connectiontypes.ConnectionEnd{Counterparty: connectiontypes.Counterparty{ConnectionId: k.counterparty}}, nil
}
func (fakeICAChannelKeeper) GetAllChannelsWithPortPrefix(sdk.Context, string) []channeltypes.IdentifiedChannel {
	return nil
}

// parser targets: name -> body. Each body feeds the input to a family of parsers and
// returns how many of them accepted it (for the non-trivial rule). Panics are converted
// into findings by noPanic.
type parserFn func(data []byte, n uint64, out *findings, m counters) (accepted int)

func okIf(err error) int {
	if err == nil {
		return 1
	}
	return 0
}

var parserTargets = map[string]parserFn{
	"identifiers": func(data []byte, n uint64, out *findings, m counters) (acc int) {
		s := string(data)
		in := func() string { return fmt.Sprintf("%q", s) }
		noPanic(out, "host.ClientIdentifierValidator", in, func() { acc += okIf(host.ClientIdentifierValidator(s)) })
		noPanic(out, "host.ConnectionIdentifierValidator", in, func() { acc += okIf(host.ConnectionIdentifierValidator(s)) })
		noPanic(out, "host.ChannelIdentifierValidator", in, func() { acc += okIf(host.ChannelIdentifierValidator(s)) })
		noPanic(out, "host.PortIdentifierValidator", in, func() { acc += okIf(host.PortIdentifierValidator(s)) })
		noPanic(out, "host.NewPathValidator", in, func() {
			acc += okIf(host.NewPathValidator(func(string) error { return nil })(s))
		})
		noPanic(out, "host.ParseIdentifier", in, func() {
			for _, p := range []string{"channel-", "connection-", "client-", "-"} {
				_, err := host.ParseIdentifier(s, p)
				acc += okIf(err)
			}
		})
		noPanic(out, "host.ParseConnectionPath", in, func() { _, err := host.ParseConnectionPath(s); acc += okIf(err) })
		noPanic(out, "host.ParseChannelPath", in, func() { _, _, err := host.ParseChannelPath(s); acc += okIf(err) })
		noPanic(out, "clienttypes.ParseClientIdentifier", in, func() { _, _, err := clienttypes.ParseClientIdentifier(s); acc += okIf(err) })
		noPanic(out, "clienttypes.IsValidClientID", in, func() { clienttypes.IsValidClientID(s) })
		noPanic(out, "clienttypes.ValidateClientType", in, func() { acc += okIf(clienttypes.ValidateClientType(s)) })
		noPanic(out, "connectiontypes.ParseConnectionSequence", in, func() { _, err := connectiontypes.ParseConnectionSequence(s); acc += okIf(err) })
		noPanic(out, "connectiontypes.IsValidConnectionID", in, func() { connectiontypes.IsValidConnectionID(s) })
		noPanic(out, "channeltypes.ParseChannelSequence", in, func() { _, err := channeltypes.ParseChannelSequence(s); acc += okIf(err) })
		noPanic(out, "channeltypes.IsValidChannelID", in, func() { channeltypes.IsValidChannelID(s) })
		noPanic(out, "icatypes.NewControllerPortID", in, func() { _, err := icatypes.NewControllerPortID(s); acc += okIf(err) })
		noPanic(out, "icatypes.ValidateAccountAddress", in, func() { acc += okIf(icatypes.ValidateAccountAddress(s)) })
		noPanic(out, "gmptypes.BuildAddressPredictable", in, func() {
			_, err := gmptypes.BuildAddressPredictable(&gmptypes.AccountIdentifier{ClientId: s, Sender: s, Salt: data})
			acc += okIf(err)
		})
		return acc
	},
	"heights": func(data []byte, n uint64, out *findings, m counters) (acc int) {
		s := string(data)
		in := func() string { return fmt.Sprintf("%q", s) }
		noPanic(out, "clienttypes.ParseHeight", in, func() { _, err := clienttypes.ParseHeight(s); acc += okIf(err) })
		noPanic(out, "clienttypes.IsRevisionFormat", in, func() {
			if clienttypes.IsRevisionFormat(s) {
				acc++
			}
		})
		noPanic(out, "clienttypes.ParseChainID", in, func() { clienttypes.ParseChainID(s) })
		noPanic(out, "clienttypes.SetRevisionNumber", in, func() { _, err := clienttypes.SetRevisionNumber(s, n); acc += okIf(err) })
		return acc
	},
	"denoms": func(data []byte, n uint64, out *findings, m counters) (acc int) {
		s := string(data)
		in := func() string { return fmt.Sprintf("%q", s) }
		noPanic(out, "transfertypes.ExtractDenomFromPath", in, func() {
			d := transfertypes.ExtractDenomFromPath(s)
			acc += okIf(d.Validate())
			_ = d.Path()
			_ = d.Hash()
			_ = d.IBCDenom()
			_ = d.HasPrefix("transfer", "channel-0")
			_ = transfertypes.Denoms{d, d}.Validate()
		})
		noPanic(out, "transfertypes.ParseHexHash", in, func() { _, err := transfertypes.ParseHexHash(s); acc += okIf(err) })
		noPanic(out, "transfertypes.Token.Validate", in, func() {
			tk := transfertypes.Token{Denom: transfertypes.ExtractDenomFromPath(s), Amount: s}
			acc += okIf(tk.Validate())
			tk.Amount = "1"
			// ToCoin builds an sdk.Coin, which by contract panics on a denom the SDK rejects: callers
			// only use it on tokens whose denom went through the bank / coin validation
			if tk.Validate() == nil && sdk.ValidateDenom(tk.Denom.IBCDenom()) == nil {
				_, _ = tk.ToCoin()
			}
		})
		noPanic(out, "transfertypes.MsgTransfer.ValidateBasic", in, func() {
			msg := transfertypes.MsgTransfer{SourcePort: "transfer", SourceChannel: "channel-0", Token: sdk.Coin{Denom: s, Amount: sdkmath.NewInt(1)}, Sender: goodAddr, Receiver: "r", TimeoutTimestamp: 1}
			acc += okIf(msg.ValidateBasic())
		})
		noPanic(out, "transfertypes.FungibleTokenPacketData.ValidateBasic", in, func() {
			acc += okIf(transfertypes.FungibleTokenPacketData{Denom: s, Amount: s, Sender: s, Receiver: s}.ValidateBasic())
			acc += okIf(transfertypes.FungibleTokenPacketData{Denom: s, Amount: "1", Sender: "s", Receiver: "r"}.ValidateBasic())
		})
		return acc
	},
	"ics20-packet-data": func(data []byte, n uint64, out *findings, m counters) (acc int) {
		in := func() string { return short(data) }
		for _, enc := range []string{encJSON, encProto, encABI, "", "bogus"} {
			enc := enc
			noPanic(out, "transfertypes.UnmarshalPacketData/"+enc, in, func() {
				r, err := transfertypes.UnmarshalPacketData(data, transfertypes.V1, enc)
				if err == nil {
					acc++
					_ = r.ValidateBasic()
					_ = r.GetCustomPacketData("forward")
					if sdk.ValidateDenom(r.Token.Denom.IBCDenom()) == nil {
						_, _ = r.Token.ToCoin()
					}
				}
			})
		}
		noPanic(out, "transfertypes.UnmarshalPacketData/version", in, func() { _, _ = transfertypes.UnmarshalPacketData(data, string(data), encJSON) })
		return acc
	},
	"pfm-memo": func(data []byte, n uint64, out *findings, m counters) (acc int) {
		in := func() string { return short(data) }
		for _, prov := range memoProviders(string(data)) {
			prov := prov
			noPanic(out, "pfmtypes.GetPacketMetadataFromPacketdata", in, func() {
				md, isPFM, err := pfmtypes.GetPacketMetadataFromPacketdata(prov)
				if isPFM {
					acc++
				}
				if err == nil {
					acc++
					for f := &md.Forward; f != nil; {
						_ = f.Validate()
						_ = f.ToMap()
						if f.Next == nil {
							break
						}
						f = &f.Next.Forward
					}
					_, _ = md.ToMemo()
				}
			})
		}
		return acc
	},
	"callbacks-memo": func(data []byte, n uint64, out *findings, m counters) (acc int) {
		in := func() string { return short(data) }
		for _, prov := range memoProviders(string(data)) {
			for _, key := range []string{callbacktypes.SourceCallbackKey, callbacktypes.DestinationCallbackKey} {
				prov, key := prov, key
				noPanic(out, "callbacktypes.GetCallbackData", in, func() {
					cb, isCb, err := callbacktypes.GetCallbackData(prov, "ics20-1", "transfer", n, n/2+1, key)
					if isCb {
						acc++
					}
					if err == nil {
						acc++
						_ = cb.AllowRetry()
					}
				})
			}
		}
		noPanic(out, "callbacktypes.GetCallbackData/not-a-provider", in, func() { _, _, _ = callbacktypes.GetCallbackData(data, "", "", n, n, callbacktypes.SourceCallbackKey) })
		return acc
	},
	"ica-metadata": func(data []byte, n uint64, out *findings, m counters) (acc int) {
		s := string(data)
		in := func() string { return short(data) }
		noPanic(out, "icatypes.MetadataFromVersion", in, func() {
			md, err := icatypes.MetadataFromVersion(s)
			if err != nil {
				return
			}
			acc++
			_ = icatypes.IsPreviousMetadataEqual(s, md)
			k := fakeICAChannelKeeper{counterparty: md.HostConnectionId}
			acc += okIf(icatypes.ValidateControllerMetadata(sdk.Context{}, k, []string{md.ControllerConnectionId}, md))
			k = fakeICAChannelKeeper{counterparty: md.ControllerConnectionId}
			acc += okIf(icatypes.ValidateHostMetadata(sdk.Context{}, k, []string{md.HostConnectionId}, md))
		})
		noPanic(out, "icatypes.IsPreviousMetadataEqual", in, func() { _ = icatypes.IsPreviousMetadataEqual(s, icatypes.Metadata{}) })
		return acc
	},
	"ica-packet-data": func(data []byte, n uint64, out *findings, m counters) (acc int) {
		e := getEnv()
		in := func() string { return short(data) }
		noPanic(out, "icatypes.InterchainAccountPacketData.UnmarshalJSON", in, func() {
			var pd icatypes.InterchainAccountPacketData
			if err := pd.UnmarshalJSON(data); err != nil {
				return
			}
			acc++
			acc += okIf(pd.ValidateBasic())
			_ = pd.GetBytes()
			_ = pd.GetCustomPacketData("src_callback")
			for _, enc := range []string{icatypes.EncodingProtobuf, icatypes.EncodingProto3JSON} {
				msgs, err := icatypes.DeserializeCosmosTx(e.cdc, pd.Data, enc)
				if err == nil {
					acc++
					validateAll(msgs)
				}
			}
		})
		for _, enc := range []string{icatypes.EncodingProtobuf, icatypes.EncodingProto3JSON, "bogus"} {
			enc := enc
			noPanic(out, "icatypes.DeserializeCosmosTx/"+enc, in, func() {
				msgs, err := icatypes.DeserializeCosmosTx(e.cdc, data, enc)
				if err == nil {
					acc++
					validateAll(msgs)
				}
			})
		}
		noPanic(out, "gmptypes.DeserializeCosmosTx", in, func() {
			msgs, err := gmptypes.DeserializeCosmosTx(e.cdc, data)
			if err == nil {
				acc++
				validateAll(msgs)
			}
		})
		return acc
	},
	"acknowledgements": func(data []byte, n uint64, out *findings, m counters) (acc int) {
		in := func() string { return short(data) }
		noPanic(out, "channeltypes.Acknowledgement/json", in, func() {
			var ack channeltypes.Acknowledgement
			if err := channeltypes.SubModuleCdc.UnmarshalJSON(data, &ack); err != nil {
				return
			}
			acc++
			acc += okIf(ack.ValidateBasic())
			_ = ack.Success()
			_ = ack.Acknowledgement()
		})
		noPanic(out, "channeltypes.Acknowledgement/transfer-cdc-json", in, func() {
			var ack channeltypes.Acknowledgement
			if err := transfertypes.ModuleCdc.UnmarshalJSON(data, &ack); err == nil {
				acc++
				_ = ack.ValidateBasic()
			}
		})
		noPanic(out, "channeltypes.Acknowledgement/proto", in, func() {
			var ack channeltypes.Acknowledgement
			if err := proto.Unmarshal(data, &ack); err != nil {
				return
			}
			acc++
			acc += okIf(ack.ValidateBasic())
			_ = ack.Success()
			_ = ack.Acknowledgement()
		})
		noPanic(out, "channeltypesv2.Acknowledgement/proto", in, func() {
			var ack channeltypesv2.Acknowledgement
			if err := proto.Unmarshal(data, &ack); err != nil {
				return
			}
			acc++
			if ack.Validate() == nil {
				acc++
				_ = ack.Success() // Success is only defined for a validated acknowledgement
				_ = ack.Acknowledgement()
			}
		})
		for _, enc := range allEncs {
			enc := enc
			noPanic(out, "gmptypes.UnmarshalAcknowledgement/"+enc, in, func() {
				a, err := gmptypes.UnmarshalAcknowledgement(data, gmptypes.Version, enc)
				if err == nil {
					acc++
					_ = a.ValidateBasic()
				}
			})
		}
		return acc
	},
	"gmp-packet-data": func(data []byte, n uint64, out *findings, m counters) (acc int) {
		in := func() string { return short(data) }
		for _, enc := range []string{encJSON, encProto, encABI, "", "bogus"} {
			enc := enc
			noPanic(out, "gmptypes.UnmarshalPacketData/"+enc, in, func() {
				d, err := gmptypes.UnmarshalPacketData(data, gmptypes.Version, enc)
				if err == nil {
					acc++
					acc += okIf(d.ValidateBasic())
					_ = d.GetCustomPacketData("dest_callback")
					_ = d.GetCustomPacketData(callbacktypes.SourceCallbackKey)
				}
			})
		}
		noPanic(out, "gmptypes.UnmarshalPacketData/version", in, func() { _, _ = gmptypes.UnmarshalPacketData(data, string(data), encJSON) })
		return acc
	},
}

func validateAll(msgs []sdk.Msg) {
	for _, m := range msgs {
		for _, f := range validators(m) {
			_ = f()
		}
	}
}

// memoProviders wraps a memo string in every packet data type that exposes memo JSON.
func memoProviders(memo string) []ibcexported.PacketDataProvider {
	return []ibcexported.PacketDataProvider{
		transfertypes.FungibleTokenPacketData{Denom: "uatom", Amount: "1", Sender: "s", Receiver: "r", Memo: memo},
		transfertypes.InternalTransferRepresentation{Sender: "s", Receiver: "r", Memo: memo},
		gmptypes.GMPPacketData{Sender: "s", Memo: memo},
		icatypes.InterchainAccountPacketData{Type: icatypes.EXECUTE_TX, Data: []byte{1}, Memo: memo},
	}
}

var parserTargetNames = []string{"identifiers", "heights", "denoms", "ics20-packet-data", "pfm-memo", "callbacks-memo", "ica-metadata", "ica-packet-data", "acknowledgements", "gmp-packet-data"}

type c47ParserCase struct {
	Target string
	Data   []byte
	N      uint64
}

var jsonKeys = []string{"forward", "receiver", "port", "channel", "timeout", "retries", "next", "src_callback", "dest_callback", "address", "gas_limit", "calldata",
	"version", "controller_connection_id", "host_connection_id", "encoding", "tx_type", "type", "data", "memo", "result", "error", "denom", "amount", "sender", "salt", "payload", "messages", "@type", "", "forward "}

var jsonLeafStrings = []string{"", " ", "a", "transfer", "channel-0", "channel-18446744073709551616", "connection-0", "ics27-1", "proto3", "proto3json", "sdk_multi_msg", "TYPE_EXECUTE_TX", "10m", "1h30m", "-5s", "9999999999h", "1e3s", "1000000",
	"18446744073709551615", "18446744073709551616", "-1", "0x10", "00ff", "zz", "0", "AQ==", "AQ", "!!", "/cosmos.bank.v1beta1.MsgSend", "/ibc.applications.transfer.v1.MsgTransfer", "\u0000", "é", strings.Repeat("a", 3000)}

// genJSONValue draws an arbitrary JSON value over the key dictionary of the parsers.
func genJSONValue(t *rapid.T, depth int) any {
	k := rapid.IntRange(0, 11).Draw(t, "jk")
	if depth <= 0 && k >= 8 {
		k = k % 8
	}
	switch k {
	case 0, 1, 2:
		return rapid.SampledFrom(jsonLeafStrings).Draw(t, "jstr")
	case 3:
		return rapid.SampledFrom([]float64{0, 1, -1, 2, 255, 256, 1.5, 1e30, -1e30, 9007199254740993, 600000000000, 1e-9}).Draw(t, "jnum")
	case 4:
		return rapid.Bool().Draw(t, "jbool")
	case 5:
		return nil
	case 6:
		return genFromAlphabet(t, idAlphabet, 1, 12, "jid")
	case 7:
		return fmt.Sprint(rapid.Uint64().Draw(t, "jnumstr"))
	case 8:
		n := rapid.IntRange(0, 3).Draw(t, "jarr")
		arr := make([]any, n)
		for i := range arr {
			arr[i] = genJSONValue(t, depth-1)
		}
		return arr
	case 9: // JSON carried as a string (the forward "next" field allows it)
		b, _ := json.Marshal(genJSONObject(t, depth-1))
		return string(b)
	default:
		return genJSONObject(t, depth-1)
	}
}

func genJSONObject(t *rapid.T, depth int) map[string]any {
	n := rapid.IntRange(0, 5).Draw(t, "jobj")
	obj := map[string]any{}
	for i := 0; i < n; i++ {
		obj[rapid.SampledFrom(jsonKeys).Draw(t, "jkey")] = genJSONValue(t, depth)
	}
	return obj
}

// genForwardChain builds a well-formed forward memo of the given depth, then corrupts a
// few leaves; "next" is randomly an object or a string holding JSON.
func genForwardChain(t *rapid.T, depth int) any {
	fwd := map[string]any{"receiver": "cosmos1xyz", "port": "transfer", "channel": "channel-" + fmt.Sprint(depth)}
	if rapid.IntRange(0, 2).Draw(t, "fto") == 0 {
		fwd["timeout"] = rapid.SampledFrom([]any{"10m", 600000000000.0, 1e30, -1.0, "x", nil, map[string]any{}, "9999999999h"}).Draw(t, "ftimeout")
	}
	if rapid.IntRange(0, 2).Draw(t, "fre") == 0 {
		fwd["retries"] = rapid.SampledFrom([]any{0.0, 2.0, 255.0, 256.0, -1.0, 1.5, 1e30, "2", nil}).Draw(t, "fretries")
	}
	if rapid.IntRange(0, 7).Draw(t, "fcorrupt") == 0 {
		fwd[rapid.SampledFrom([]string{"receiver", "port", "channel"}).Draw(t, "fwhich")] = genJSONValue(t, 1)
	}
	if depth > 1 {
		next := genForwardChain(t, depth-1)
		switch rapid.IntRange(0, 3).Draw(t, "fnextkind") {
		case 0:
			b, _ := json.Marshal(next)
			fwd["next"] = string(b)
		case 1:
			if rapid.IntRange(0, 5).Draw(t, "fnextbad") == 0 {
				fwd["next"] = genJSONValue(t, 1)
			} else {
				fwd["next"] = next
			}
		default:
			fwd["next"] = next
		}
	}
	return map[string]any{"forward": fwd}
}

func genCallbackMemo(t *rapid.T) any {
	cb := func() any {
		if rapid.IntRange(0, 6).Draw(t, "cbbad") == 0 {
			return genJSONValue(t, 1)
		}
		m := map[string]any{"address": rapid.SampledFrom([]any{"cosmos1xyz", "", " ", 5.0, nil, map[string]any{}}).Draw(t, "cbaddr")}
		if rapid.Bool().Draw(t, "cbgas") {
			m["gas_limit"] = rapid.SampledFrom([]any{"100000", "", "0", "18446744073709551615", "18446744073709551616", "-1", "0x10", " 1", 100000.0, nil, []any{}}).Draw(t, "cbgasv")
		}
		if rapid.Bool().Draw(t, "cbdata") {
			m["calldata"] = rapid.SampledFrom([]any{"00ff", "", "zz", "0", 5.0, nil, strings.Repeat("ab", 2000)}).Draw(t, "cbdatav")
		}
		return m
	}
	out := map[string]any{}
	if rapid.Bool().Draw(t, "cbsrc") {
		out["src_callback"] = cb()
	}
	if rapid.Bool().Draw(t, "cbdst") {
		out["dest_callback"] = cb()
	}
	if rapid.IntRange(0, 3).Draw(t, "cbfwd") == 0 {
		out["forward"] = genForwardChain(t, 2).(map[string]any)["forward"]
	}
	return out
}

var (
	parserSeedsOnce sync.Once
	parserSeedTable map[string][][]byte
)

// parserSeeds: well-formed inputs per parser family (mutated by the generator).
func parserSeeds() map[string][][]byte {
	parserSeedsOnce.Do(func() {
		e := getEnv()
		s := map[string][][]byte{}
		for _, x := range []string{"channel-0", "connection-12", "07-tendermint-3", "09-localhost", "transfer", "icacontroller-cosmos1xyz", "clients/07-tendermint-0/clientState", "connections/connection-0", "channelEnds/ports/transfer/channels/channel-0", "06-solomachine"} {
			s["identifiers"] = append(s["identifiers"], []byte(x))
		}
		for _, x := range hostileStrings {
			s["identifiers"] = append(s["identifiers"], []byte(x))
			s["heights"] = append(s["heights"], []byte(x))
			s["denoms"] = append(s["denoms"], []byte(x))
		}
		for _, x := range []string{"1-10", "0-1", "18446744073709551615-18446744073709551615", "testchain-1", "cosmoshub-4", "a-b-1", "chain--1", "chain-01", "1-1-1"} {
			s["heights"] = append(s["heights"], []byte(x))
		}
		for _, x := range []string{"uatom", "transfer/channel-0/uatom", "transfer/channel-0/transfer/07-tendermint-1/gamm/pool/1", "gamm/pool-1", "1", "0x10", "27394FB092D2ECCD56123C74F36E4C1F926001CEADA9CA97EA622B25F41E5EB2"} {
			s["denoms"] = append(s["denoms"], []byte(x))
		}
		for _, tg := range []string{"ics20/json", "ics20/proto", "ics20/abi"} {
			s["ics20-packet-data"] = append(s["ics20-packet-data"], c35Seeds(tg)...)
		}
		for _, tg := range []string{"gmp/json", "gmp/proto", "gmp/abi"} {
			s["gmp-packet-data"] = append(s["gmp-packet-data"], c35Seeds(tg)...)
		}
		for _, tg := range []string{"gmpack/json", "gmpack/proto", "gmpack/abi"} {
			s["acknowledgements"] = append(s["acknowledgements"], c35Seeds(tg)...)
		}
		for _, x := range []string{`{"result":"AQ=="}`, `{"error":"boom"}`, `{"result":""}`, `{"error":" "}`, `{}`, `{"result":"AQ==","error":"x"}`, `{"result":1}`, `null`, `{"response":{"result":"AQ=="}}`} {
			s["acknowledgements"] = append(s["acknowledgements"], []byte(x))
		}
		for _, a := range []proto.Message{&channeltypes.Acknowledgement{Response: &channeltypes.Acknowledgement_Result{Result: []byte{1}}}, &channeltypes.Acknowledgement{Response: &channeltypes.Acknowledgement_Error{Error: "e"}},
			&channeltypesv2.Acknowledgement{AppAcknowledgements: [][]byte{{1}, {2}}}, &channeltypesv2.Acknowledgement{AppAcknowledgements: [][]byte{channeltypesv2.ErrorAcknowledgement[:]}}, &channeltypesv2.Acknowledgement{}} {
			if bz, err := proto.Marshal(a); err == nil {
				s["acknowledgements"] = append(s["acknowledgements"], bz)
			}
		}
		for _, x := range []string{`{"forward":{"receiver":"a","port":"transfer","channel":"channel-0"}}`, `{"forward":{"receiver":"a","port":"transfer","channel":"channel-0","timeout":"10m","retries":2,"next":{"forward":{"receiver":"b","port":"transfer","channel":"channel-1"}}}}`,
			`{"forward":{"receiver":"a","port":"transfer","channel":"channel-0","next":"{\"forward\":{\"receiver\":\"b\",\"port\":\"transfer\",\"channel\":\"channel-1\"}}"}}`, `{"forward":null}`, `{"forward":[]}`, `{"forward":{"next":{"forward":null}}}`,
			strings.Repeat(`{"forward":{"receiver":"a","port":"transfer","channel":"channel-0","next":`, 60) + `null` + strings.Repeat(`}}`, 60), strings.Repeat(`{"forward":{"next":`, 6000)} {
			s["pfm-memo"] = append(s["pfm-memo"], []byte(x))
		}
		for _, x := range []string{`{"src_callback":{"address":"a"}}`, `{"dest_callback":{"address":"a","gas_limit":"100","calldata":"00ff"}}`, `{"src_callback":{"address":5}}`, `{"src_callback":null}`, `{"src_callback":{"address":"a","gas_limit":100}}`, `{"src_callback":{"address":"a","gas_limit":"18446744073709551616"}}`} {
			s["callbacks-memo"] = append(s["callbacks-memo"], []byte(x))
		}
		s["ica-metadata"] = append(s["ica-metadata"], []byte(icatypes.NewDefaultMetadataString("connection-0", "connection-1")),
			[]byte(`{"version":"ics27-1","controller_connection_id":"connection-0","host_connection_id":"connection-1","address":"cosmos1xyz","encoding":"proto3json","tx_type":"sdk_multi_msg"}`),
			[]byte(`{"version":1}`), []byte(`{"unknown":1}`), []byte(`{}`), []byte(`{"address":null}`))
		send := &banktypes.MsgSend{FromAddress: goodAddr, ToAddress: goodAddr, Amount: sdk.NewCoins(sdk.NewCoin("stake", sdkmath.NewInt(1)))}
		xfer := &transfertypes.MsgTransfer{SourcePort: "transfer", SourceChannel: "channel-0", Token: sdk.NewCoin("stake", sdkmath.NewInt(1)), Sender: goodAddr, Receiver: "r", TimeoutTimestamp: 1}
		for _, enc := range []string{icatypes.EncodingProtobuf, icatypes.EncodingProto3JSON} {
			for _, msgs := range [][]proto.Message{{send}, {send, xfer}, {}} {
				bz, err := icatypes.SerializeCosmosTx(e.cdc, msgs, enc)
				if err != nil {
					continue
				}
				s["ica-packet-data"] = append(s["ica-packet-data"], bz)
				pd := icatypes.InterchainAccountPacketData{Type: icatypes.EXECUTE_TX, Data: bz, Memo: `{"src_callback":{"address":"a"}}`}
				s["ica-packet-data"] = append(s["ica-packet-data"], pd.GetBytes())
			}
		}
		s["ica-packet-data"] = append(s["ica-packet-data"], []byte(`{"messages":[{"@type":"/cosmos.bank.v1beta1.MsgSend"}]}`), []byte(`{"messages":[{"@type":"/ibc.core.client.v1.MsgCreateClient","client_state":{"@type":"/ibc.lightclients.tendermint.v1.ClientState","chain_id":"a-99999999999999999999"}}]}`),
			[]byte(`{"messages":[null]}`), []byte(`{"messages":[{}]}`), []byte(`{"type":"TYPE_EXECUTE_TX","data":"AQ==","memo":""}`), []byte(`{"type":7,"data":null}`),
			[]byte(`{"messages":[{"@type":"/google.protobuf.Any","value":{"@type":"/google.protobuf.Any"}}]}`))
		parserSeedTable = s
	})
	return parserSeedTable
}

func genC47Parser(t *rapid.T) c47ParserCase {
	c := c47ParserCase{Target: rapid.SampledFrom(parserTargetNames).Draw(t, "target"), N: vx.U64().Draw(t, "n")}
	if rapid.IntRange(0, 80).Draw(t, "known-demo") == 37 {
		// deterministic regression case of one fixed defect
		return c47ParserCase{Target: "known-demo", N: uint64(rapid.IntRange(0, len(c47Demos)-1).Draw(t, "demo"))}
	}
	seeds := parserSeeds()[c.Target]
	k := rapid.IntRange(0, 9).Draw(t, "how")
	switch {
	case k <= 1 && c.Target == "pfm-memo":
		depth := rapid.SampledFrom([]int{1, 2, 3, 5, 10, 20, 40}).Draw(t, "depth")
		c.Data, _ = json.Marshal(genForwardChain(t, depth))
	case k <= 1 && c.Target == "callbacks-memo":
		c.Data, _ = json.Marshal(genCallbackMemo(t))
	case k <= 2 && (c.Target == "identifiers" || c.Target == "heights" || c.Target == "denoms"):
		n := rapid.IntRange(1, 6).Draw(t, "nseg")
		var segs []string
		for i := 0; i < n; i++ {
			segs = append(segs, genSegment(t, "s"))
		}
		c.Data = []byte(strings.Join(segs, rapid.SampledFrom([]string{"/", "-", "", "/"}).Draw(t, "sep")))
	case k <= 3:
		c.Data, _ = json.Marshal(genJSONObject(t, 4))
	case k == 4:
		c.Data = rapid.SliceOfN(rapid.Byte(), 0, 120).Draw(t, "raw")
	default:
		if len(seeds) == 0 {
			c.Data = rapid.SliceOfN(rapid.Byte(), 0, 120).Draw(t, "raw")
		} else {
			c.Data = mutate(t, seeds[rapid.IntRange(0, len(seeds)-1).Draw(t, "seed")])
		}
	}
	return c
}

func c47Parser(c c47ParserCase, m counters) (findings, int) {
	var out findings
	if c.Target == "known-demo" {
		d := c47Demos[int(c.N%uint64(len(c47Demos)))]
		d.Run(&out)
		return out, 0
	}
	f, ok := parserTargets[c.Target]
	if !ok {
		panic(vx.HarnessError{Msg: "unknown parser target " + c.Target})
	}
	acc := f(c.Data, c.N, &out, m)
	return out, acc
}

func runC47Parsers(t rapid.TB, c c47ParserCase, rec *vx.Case) {
	m := counters{}
	out, acc := c47Parser(c, m)
	m.flush(rec)
	out.report(t, rec, "C47")
	rec.Class(c.Target)
	if acc > 0 {
		rec.Class("accepted:" + c.Target)
	}
	if c.Target != "denoms" && c.Target != "identifiers" && c.Target != "heights" && len(c.Data) > 0 && (c.Data[0] == '{' || c.Data[0] == '[') {
		rec.Class("json-input")
	}
	rec.Add("accepting_parsers", int64(acc))
	rec.NonTrivialIf(acc > 0)
}

func TestC47Parsers(t *testing.T) {
	vx.Check(t, vx.Prop[c47ParserCase]{
		ID: "C47",
		Rule: "one of 10 parser families (identifiers; heights/chain ids; denoms/hex hashes/tokens; ICS-20 packet data in all encodings; forward memo; callback memo via all 4 packet-data providers; ICA metadata incl. controller/host validation; ICA packet data + CosmosTx in both encodings + GMP CosmosTx; " +
			"v1/v2/GMP acknowledgements; GMP packet data) fed with: segment soups from the C34 alphabet, forward chains nested 1-40 deep with object/string 'next' and corrupted leaves, callback memos with wrong-typed fields, arbitrary JSON over the parsers' key dictionary, raw bytes, mutated well-formed seeds; " +
			"non-trivial = at least one parser of the family accepted the input; distinct by (family, input)",
		MinNTFrac: 0.3,
		Gen:       genC47Parser,
		Run:       runC47Parsers,
	})
}

// ---- byte-level targets (shared with the native fuzz targets) -----------------------------

// fuzz target -> sub-targets selected by the first data byte. "msg:<typeURL>" decodes the
// rest as that message and validates it; "tape:<typeURL>" drives the structure-aware
// filler; "parse:<family>" feeds a parser family.
var (
	c47FuzzOnce    sync.Once
	c47FuzzTargets map[string][]string
)

func c47Fuzz() map[string][]string {
	c47FuzzOnce.Do(func() {
		e := getEnv()
		tb := map[string][]string{
			"FuzzC47Idents": {"parse:identifiers", "parse:heights", "parse:denoms"},
			"FuzzC47Memo":   {"parse:pfm-memo", "parse:callbacks-memo"},
			"FuzzC47ICA":    {"parse:ica-metadata", "parse:ica-packet-data"},
			"FuzzC47Ack":    {"parse:acknowledgements", "parse:gmp-packet-data", "parse:ics20-packet-data"},
		}
		for _, u := range e.all {
			tb["FuzzC47MsgTape"] = append(tb["FuzzC47MsgTape"], "tape:"+u)
			g := e.group[u]
			switch {
			case strings.HasPrefix(g, "core.channel"):
				tb["FuzzC47MsgChannel"] = append(tb["FuzzC47MsgChannel"], "msg:"+u)
			case strings.HasPrefix(g, "core.") || strings.HasPrefix(g, "lightclients."):
				tb["FuzzC47MsgCore"] = append(tb["FuzzC47MsgCore"], "msg:"+u)
			default:
				tb["FuzzC47MsgApps"] = append(tb["FuzzC47MsgApps"], "msg:"+u)
			}
		}
		c47FuzzTargets = tb
	})
	return c47FuzzTargets
}

var c47FuzzNames = []string{"FuzzC47MsgCore", "FuzzC47MsgChannel", "FuzzC47MsgApps", "FuzzC47MsgTape", "FuzzC47Idents", "FuzzC47Memo", "FuzzC47ICA", "FuzzC47Ack"}

// c47Bytes is the byte-level oracle: no panic, whatever the bytes.
func c47Bytes(target string, data []byte, m counters) findings {
	kind, arg, _ := strings.Cut(target, ":")
	switch kind {
	case "parse":
		n := uint64(len(data))
		if len(data) >= 8 {
			n = uint64(data[0]) | uint64(data[1])<<8 | uint64(data[2])<<16 | uint64(data[3])<<24 | uint64(data[4])<<32 | uint64(data[5])<<40 | uint64(data[6])<<48 | uint64(data[7])<<56
		}
		out, acc := c47Parser(c47ParserCase{Target: arg, Data: data, N: n}, m)
		if acc > 0 {
			m["decode_accepted"]++
		}
		return out
	case "tape":
		out, _ := c47Msg(c47MsgCase{Type: arg, Tape: data}, m)
		return out
	case "msg":
		var out findings
		e := getEnv()
		msg := e.newMsg(arg)
		tn := typeName(msg)
		in := func() string { return fmt.Sprintf("type=%s wire=%s", arg, hex.EncodeToString(data)) }
		var err error
		if !noPanic(&out, tn+".Unmarshal", in, func() { err = e.cdc.Unmarshal(data, msg) }) || err != nil {
			return out
		}
		m["decode_accepted"]++
		for name, f := range validators(msg) {
			noPanic(&out, tn+"."+name, in, func() { _ = f() })
		}
		return out
	}
	panic(vx.HarnessError{Msg: "unknown C47 byte target " + target})
}

// c47Seeds: wire forms of tape-built messages (all-well-formed tape, some fixed mixed
// tapes) for msg targets; the tapes themselves for tape targets; parser seeds for parsers.
func c47Seeds(target string) [][]byte {
	kind, arg, _ := strings.Cut(target, ":")
	tapes := [][]byte{{}, make([]byte, 64), bytesOf(1, 200), bytesOf(2, 200), bytesOf(3, 120), mixTape(7), mixTape(31), mixTape(101)}
	switch kind {
	case "parse":
		return parserSeeds()[arg]
	case "tape":
		return tapes
	case "msg":
		e := getEnv()
		var out [][]byte
		for _, tp := range tapes {
			msg, _ := buildMsg(arg, tp)
			var bz []byte
			var err error
			if panicked, _ := vx.Recover(func() { bz, err = e.cdc.Marshal(msg) }); !panicked && err == nil {
				out = append(out, bz)
			}
		}
		out = append(out, []byte{}, []byte{0x0a, 0xff, 0xff, 0xff, 0xff, 0x0f}, []byte{0x12, 0x02, 0x0a, 0x00})
		return out
	}
	return nil
}

func bytesOf(v byte, n int) []byte {
	b := make([]byte, n)
	for i := range b {
		b[i] = v
	}
	return b
}

// mixTape: deterministic pseudo-random tape with mostly well-formed decisions.
func mixTape(seed uint32) []byte {
	b := make([]byte, 250)
	x := seed
	for i := range b {
		x = x*1664525 + 1013904223
		v := byte(x >> 24)
		if v%5 != 0 {
			v %= 96
		}
		b[i] = v
	}
	return b
}

var (
	c47TargetsOnce sync.Once
	c47TargetList  []byteTarget
)

func c47ByteTargets() []byteTarget {
	c47TargetsOnce.Do(func() {
		var names []string
		for _, fz := range c47FuzzNames {
			if fz == "FuzzC47MsgTape" {
				continue // tape cases are what TestC47Msgs generates; only their saved corpus is replayed here
			}
			names = append(names, c47Fuzz()[fz]...)
		}
		names = append(names, c47Fuzz()["FuzzC47MsgTape"]...)
		c47TargetList = targetsWithCorpus("C47", names, c47Fuzz(), c47Seeds)
	})
	return c47TargetList
}

func runC47Bytes(t rapid.TB, c byteCase, rec *vx.Case) {
	m := counters{}
	out := c47Bytes(c.Target, c.Data, m)
	m.flush(rec)
	out.report(t, rec, "C47")
	kind, arg, _ := strings.Cut(c.Target, ":")
	if kind == "parse" {
		rec.Class(c.Target)
	} else {
		rec.Class(kind + ":" + getEnv().group["/"+strings.TrimPrefix(arg, "/")])
	}
	if m["decode_accepted"] > 0 {
		rec.Class("accepted:" + kind)
	}
	rec.NonTrivialIf(m["decode_accepted"] > 0)
}

func TestC47Bytes(t *testing.T) {
	targets := c47ByteTargets()
	n := 0
	for _, tg := range targets {
		for _, s := range tg.Seeds {
			n++
			for _, f := range c47Bytes(tg.Name, s, counters{}) {
				if !vx.IsKnown("C47", f.Sig) {
					t.Fatalf("VIOLATION property=C47 sig=%q: corpus entry for %s: %s", f.Sig, tg.Name, f.Msg)
				}
			}
		}
	}
	vx.Check(t, vx.Prop[byteCase]{
		ID: "C47",
		Rule: fmt.Sprintf("bytes for one of %d byte-level targets (Unmarshal with interface unpacking + ValidateBasic/Validate per registered message type; the 10 parser families; the filler tape): %d seeds = wire forms of filler-built messages + parser seeds + saved fuzz corpus (all replayed unmutated first), "+
			"then truncated / bit-flipped / spliced, or raw random; oracle = no panic; non-trivial = the bytes decode (message) or some parser accepts; distinct by (target, bytes)", len(targets), n),
		MinNTFrac: 0.1,
		Gen:       genByteCase(targets),
		Run:       runC47Bytes,
	})
}

func fuzzC47(f *testing.F, name string) {
	tgs := c47Fuzz()[name]
	for i, tg := range tgs {
		for _, s := range c47Seeds(tg) {
			if len(s) <= 1<<14 {
				f.Add(cat([]byte{byte(i)}, s))
			}
		}
	}
	f.Fuzz(func(t *testing.T, data []byte) {
		if len(data) == 0 || len(data) > 1<<16 {
			return
		}
		c47Bytes(tgs[int(data[0])%len(tgs)], data[1:], counters{}).failFuzz(t, "C47")
	})
}

func FuzzC47MsgCore(f *testing.F)    { fuzzC47(f, "FuzzC47MsgCore") }
func FuzzC47MsgChannel(f *testing.F) { fuzzC47(f, "FuzzC47MsgChannel") }
func FuzzC47MsgApps(f *testing.F)    { fuzzC47(f, "FuzzC47MsgApps") }
func FuzzC47MsgTape(f *testing.F)    { fuzzC47(f, "FuzzC47MsgTape") }
func FuzzC47Idents(f *testing.F)     { fuzzC47(f, "FuzzC47Idents") }
func FuzzC47Memo(f *testing.F)       { fuzzC47(f, "FuzzC47Memo") }
func FuzzC47ICA(f *testing.F)        { fuzzC47(f, "FuzzC47ICA") }
func FuzzC47Ack(f *testing.F)        { fuzzC47(f, "FuzzC47Ack") }
