package codec

import (
	"bytes"
	"crypto/sha256"
	"encoding/hex"
	"fmt"
	"strings"
	"testing"

	"pgregory.net/rapid"

	sdkmath "cosmossdk.io/math"

	sdk "github.com/cosmos/cosmos-sdk/types"
	minttypes "github.com/cosmos/cosmos-sdk/x/mint/types"

	transfertypes "github.com/cosmos/ibc-go/v11/modules/apps/transfer/types"
	clienttypes "github.com/cosmos/ibc-go/v11/modules/core/02-client/types"
	channeltypes "github.com/cosmos/ibc-go/v11/modules/core/04-channel/types"
	host "github.com/cosmos/ibc-go/v11/modules/core/24-host"
	ibctesting "github.com/cosmos/ibc-go/v11/testing"

	"github.com/cosmos/ibc-go/v11/modules/apps/callbacks/verifx/sim"
	"github.com/cosmos/ibc-go/v11/modules/apps/callbacks/verifx/vx"
)

// C34: every denomination path that ICS-20 accepts serialises back to the same string
// after being parsed into trace and base; the voucher denomination does not depend on
// how the path was split; distinct (port, channel) pairs get distinct escrow addresses;
// a chain records each voucher under the hash of exactly its full path.

// ---- pure part -------------------------------------------------------------------------

type idPair struct{ Port, Channel string }

type c34Case struct {
	Segs  []string // the path is strings.Join(Segs, "/")
	Pairs []idPair // valid (port, channel) identifier pairs
}

const (
	idAlphabet    = "abcdefghijklmnopqrstuvwxyzABCDEFGHIJKLMNOPQRSTUVWXYZ0123456789._+-#[]<>"
	denomAlphabet = "abcdefghijklmnopqrstuvwxyzABCDEFGHIJKLMNOPQRSTUVWXYZ0123456789:._-"
)

func genFromAlphabet(t *rapid.T, alphabet string, minLen, maxLen int, label string) string {
	n := rapid.IntRange(minLen, maxLen).Draw(t, label+"len")
	b := make([]byte, n)
	for i := range b {
		b[i] = alphabet[rapid.IntRange(0, len(alphabet)-1).Draw(t, label+"ch")]
	}
	return string(b)
}

// numbers that sit on the edges of what the identifier parsers accept
var seqPool = []string{"0", "1", "7", "10", "00", "01", "18446744073709551615", "18446744073709551616", "99999999999999999999", "999999999999999999999", "-1", "+1", "1a", ""}

func genSeq(t *rapid.T, label string) string {
	if rapid.IntRange(0, 2).Draw(t, label+"k") == 0 {
		return rapid.SampledFrom(seqPool).Draw(t, label+"pool")
	}
	return fmt.Sprint(rapid.Uint64Range(0, 300).Draw(t, label+"n"))
}

// genSegment draws one path segment: identifier-like (the shapes the hop heuristic looks
// for), port-like, ordinary denom text, or awkward (empty, blank, very short).
func genSegment(t *rapid.T, label string) string {
	switch rapid.IntRange(0, 11).Draw(t, label+"kind") {
	case 0, 1:
		return "channel-" + genSeq(t, label+"seq")
	case 2:
		ct := rapid.SampledFrom([]string{"07-tendermint", "06-solomachine", "08-wasm", "client", "x", "a-b", "09-localhost", "10-attestations", "pool", "channel"}).Draw(t, label+"ct")
		return ct + "-" + genSeq(t, label+"seq")
	case 3:
		return rapid.SampledFrom([]string{"transfer", "icahost", "ibc", "gamm", "factory", "transfer", "ab", "a", "port-1", "channel", "channel-", "connection-0", "09-localhost", "pool"}).Draw(t, label+"port")
	case 4:
		return rapid.SampledFrom([]string{"", " ", "  ", "\t", "a b", "é", "\xff", ".", "-", "channel-0 ", " channel-0", "CHANNEL-0", "channel-0\n"}).Draw(t, label+"odd")
	case 5:
		h := sha256.Sum256([]byte(genFromAlphabet(t, denomAlphabet, 1, 4, label+"hsrc")))
		return strings.ToUpper(hex.EncodeToString(h[:]))
	case 6:
		return genFromAlphabet(t, idAlphabet, 1, 12, label+"id")
	default:
		return genFromAlphabet(t, denomAlphabet, 1, 10, label+"txt")
	}
}

func genIDPair(t *rapid.T, label string, prev []idPair) idPair {
	port := func() string {
		if rapid.Bool().Draw(t, label+"pstd") {
			return rapid.SampledFrom([]string{"transfer", "icahost", "tr", "transfer-1", "transfer.channel-0", "icacontroller-cosmos1xyz"}).Draw(t, label+"pp")
		}
		return genFromAlphabet(t, idAlphabet, 2, 20, label+"port")
	}
	channel := func() string {
		if rapid.Bool().Draw(t, label+"cstd") {
			return "channel-" + fmt.Sprint(rapid.Uint64Range(0, 30).Draw(t, label+"cn"))
		}
		return genFromAlphabet(t, idAlphabet, 8, 20, label+"chan")
	}
	// reuse components of earlier pairs so that pairs differing in exactly one component,
	// or by moving text across the separator, are common
	if len(prev) > 0 {
		p := prev[rapid.IntRange(0, len(prev)-1).Draw(t, label+"prev")]
		switch rapid.IntRange(0, 5).Draw(t, label+"how") {
		case 0:
			return idPair{p.Port, channel()}
		case 1:
			return idPair{port(), p.Channel}
		case 2:
			return p
		case 3:
			// move one character across the separator when lengths allow it
			if len(p.Port) >= 3 && len(p.Channel) < 64 {
				return idPair{p.Port[:len(p.Port)-1], p.Port[len(p.Port)-1:] + p.Channel}
			}
		}
	}
	return idPair{port(), channel()}
}

func genC34(t *rapid.T) c34Case {
	var c c34Case
	n := rapid.IntRange(1, 9).Draw(t, "nseg")
	for i := 0; i < n; i++ {
		c.Segs = append(c.Segs, genSegment(t, "s"))
	}
	// often force a well-formed hop prefix so that accepted multi-hop paths are common
	if rapid.IntRange(0, 2).Draw(t, "wellformed") > 0 {
		hops := rapid.IntRange(0, 3).Draw(t, "hops")
		var pre []string
		for i := 0; i < hops; i++ {
			p := genIDPair(t, "hp", nil)
			if rapid.IntRange(0, 3).Draw(t, "hopclient") == 0 {
				p.Channel = "07-tendermint-" + fmt.Sprint(rapid.Uint64Range(0, 30).Draw(t, "hcn"))
			}
			pre = append(pre, p.Port, p.Channel)
		}
		c.Segs = append(pre, c.Segs...)
	}
	np := rapid.IntRange(2, 5).Draw(t, "npairs")
	for i := 0; i < np; i++ {
		c.Pairs = append(c.Pairs, genIDPair(t, "pair", c.Pairs))
	}
	return c
}

func upperHexSHA(p string) string {
	h := sha256.Sum256([]byte(p))
	return strings.ToUpper(hex.EncodeToString(h[:]))
}

func identifierLike(seg string) bool {
	return channeltypes.IsValidChannelID(seg) || clienttypes.IsValidClientID(seg)
}

func runC34(t rapid.TB, c c34Case, rec *vx.Case) {
	const id = "C34"
	p := strings.Join(c.Segs, "/")
	sum := sha256.Sum256([]byte(p))

	data := transfertypes.FungibleTokenPacketData{Denom: p, Amount: "1", Sender: "s", Receiver: "r"}
	accepted := data.ValidateBasic() == nil
	d := transfertypes.ExtractDenomFromPath(p)

	// (1) round trip of the parsed form
	if got := d.Path(); got != p {
		if accepted {
			vx.Violatef(t, rec, id, "roundtrip", "ICS-20 accepts denom path %q but ExtractDenomFromPath(..).Path() = %q (trace %v base %q)", p, got, d.Trace, d.Base)
		}
		rec.Add("rejected_paths_not_roundtripping", 1)
	}
	if accepted {
		rec.Add("accepted", 1)
		// (2) hash and voucher name of the parsed form are those of the full path string
		if !bytes.Equal(d.Hash(), sum[:]) {
			vx.Violatef(t, rec, id, "hash-of-parsed", "path %q: Hash() of the parsed denom = %X, sha256(path) = %X", p, []byte(d.Hash()), sum[:])
		}
		want := p
		if len(d.Trace) > 0 {
			want = "ibc/" + upperHexSHA(p)
		}
		if got := d.IBCDenom(); got != want {
			vx.Violatef(t, rec, id, "ibcdenom-of-parsed", "path %q (trace len %d): IBCDenom() = %q want %q", p, len(d.Trace), got, want)
		}
	} else {
		rec.Add("rejected", 1)
	}

	// (3) independence from the split: every way of cutting the same string into k
	// (port, channel) pairs and a non-empty remainder serialises to the same string, hashes
	// to the same value and (for k >= 1) gives the same voucher name.
	splits := 0
	for k := 0; 2*k < len(c.Segs); k++ {
		var trace []transfertypes.Hop
		for i := 0; i < k; i++ {
			trace = append(trace, transfertypes.NewHop(c.Segs[2*i], c.Segs[2*i+1]))
		}
		base := strings.Join(c.Segs[2*k:], "/")
		alt := transfertypes.NewDenom(base, trace...)
		if !accepted {
			// still must not panic; nothing else is claimed for paths ICS-20 rejects
			_ = alt.Path()
			_ = alt.Hash()
			_ = alt.IBCDenom()
			continue
		}
		splits++
		if got := alt.Path(); got != p {
			vx.Violatef(t, rec, id, "split-path", "split of %q into %d hops + base %q serialises to %q", p, k, base, got)
		}
		if !bytes.Equal(alt.Hash(), sum[:]) {
			vx.Violatef(t, rec, id, "split-hash", "split of %q into %d hops + base %q hashes to %X, sha256(path) = %X", p, k, base, []byte(alt.Hash()), sum[:])
		}
		want := "ibc/" + upperHexSHA(p)
		if k == 0 {
			want = p
		}
		if got := alt.IBCDenom(); got != want {
			vx.Violatef(t, rec, id, "split-ibcdenom", "split of %q into %d hops + base %q: IBCDenom() = %q want %q", p, k, base, got, want)
		}
	}
	rec.Add("splits_checked", int64(splits))

	// (4) escrow addresses: distinct valid (port, channel) pairs => distinct addresses
	for _, pr := range c.Pairs {
		if host.PortIdentifierValidator(pr.Port) != nil || host.ChannelIdentifierValidator(pr.Channel) != nil {
			vx.Harnessf("generator produced an invalid identifier pair %q / %q", pr.Port, pr.Channel)
		}
	}
	distinctPairs := 0
	for i := range c.Pairs {
		for j := i + 1; j < len(c.Pairs); j++ {
			a, b := c.Pairs[i], c.Pairs[j]
			ea, eb := transfertypes.GetEscrowAddress(a.Port, a.Channel), transfertypes.GetEscrowAddress(b.Port, b.Channel)
			if len(ea) != 20 || len(eb) != 20 {
				vx.Violatef(t, rec, id, "escrow-length", "escrow address of %v has %d bytes", a, len(ea))
			}
			if a == b {
				if !ea.Equals(eb) {
					vx.Violatef(t, rec, id, "escrow-not-a-function", "escrow address of %v differs between two calls", a)
				}
				continue
			}
			distinctPairs++
			if ea.Equals(eb) {
				vx.Violatef(t, rec, id, "escrow-collision", "distinct pairs (%q,%q) and (%q,%q) share escrow address %X", a.Port, a.Channel, b.Port, b.Channel, []byte(ea))
			}
			if a.Port == b.Port {
				rec.Class("pairs-same-port")
			}
			if a.Channel == b.Channel {
				rec.Class("pairs-same-channel")
			}
			if a.Port+a.Channel == b.Port+b.Channel {
				rec.Class("pairs-same-concatenation")
			}
		}
	}
	rec.Add("distinct_pairs_checked", int64(distinctPairs))

	// classification
	idLike := false
	for _, s := range c.Segs {
		if identifierLike(s) {
			idLike = true
		}
	}
	switch {
	case !accepted:
		rec.Class("rejected")
	case len(d.Trace) == 0:
		rec.Class("accepted-native")
	default:
		rec.Class("accepted-hops-%d", min(len(d.Trace), 4))
	}
	if accepted && idLike && strings.Contains(d.Base, "/") {
		rec.Class("accepted-base-with-slash")
	}
	if accepted && len(d.Trace) == 0 && idLike {
		rec.Class("accepted-native-with-identifier-like-segment")
	}
	if accepted && len(d.Trace) > 0 && identifierLikeInBase(d.Base) {
		rec.Class("accepted-identifier-like-segment-inside-base")
	}
	rec.NonTrivialIf(accepted && len(c.Segs) >= 3 && idLike)
	rec.Key("%q", p)
}

func identifierLikeInBase(base string) bool {
	for _, s := range strings.Split(base, "/") {
		if identifierLike(s) {
			return true
		}
	}
	return false
}

func TestC34(t *testing.T) {
	vx.Check(t, vx.Prop[c34Case]{
		ID: "C34",
		Rule: "paths = 1..15 '/'-joined segments drawn from identifier-like (channel-N, <type>-N incl. out-of-range N), port-like, hash-like, free denom text and awkward (empty/blank/non-ASCII) segments, often behind a well-formed hop prefix; " +
			"2..5 valid (port,channel) pairs over the full identifier alphabet sharing components; non-trivial = path accepted by FungibleTokenPacketData.ValidateBasic with >=3 segments incl. a channel-/client-id-like one; distinct by path string",
		MinNTFrac: 0.2,
		Gen:       genC34,
		Run:       runC34,
	})
}

// ---- stateful part: what a chain records after a real receive ------------------------------

type c34Hop struct {
	Link int // 0 or 1: which of the two transfer channels between the chains carries the hop
}

type c34RecvCase struct {
	Base   string // native denomination minted on chain 0
	Amount uint64
	Hops   []c34Hop // hop i goes from chain i%2 to chain (i+1)%2
}

var nativeBasePool = []string{
	"uatom", "gamm/pool-1", "gamm/pool/1", "ab/client-10/e", "ab/channel-5/e", "ab/07-tendermint-0/x", "factory/cosmos1xyz/sub",
	"transfer/channel-9/foo", "transfer/channel-0/foo", "transfer/channel-1/foo", "x/channel-0", "ab/channel-0", "ibcfoo", "a/b/c/d",
	"tr/channel-7/channel-8/q", "erc20:0xabc", "a.b-c_d", "ab/channel-18446744073709551616/e",
}

func genC34Recv(t *rapid.T) c34RecvCase {
	var c c34RecvCase
	if rapid.Bool().Draw(t, "poolbase") {
		c.Base = rapid.SampledFrom(nativeBasePool).Draw(t, "base")
	} else {
		// a valid SDK coin denom: [a-zA-Z][a-zA-Z0-9/:._-]{2,127}
		n := rapid.IntRange(1, 4).Draw(t, "bsegs")
		var segs []string
		for i := 0; i < n; i++ {
			switch rapid.IntRange(0, 3).Draw(t, "bk") {
			case 0:
				segs = append(segs, "channel-"+fmt.Sprint(rapid.Uint64Range(0, 12).Draw(t, "bn")))
			case 1:
				segs = append(segs, rapid.SampledFrom([]string{"transfer", "client-3", "07-tendermint-1", "pool-1", "gamm"}).Draw(t, "bs"))
			default:
				segs = append(segs, genFromAlphabet(t, "abcdefghijklmnopqrstuvwxyz0123456789", 2, 8, "bt"))
			}
		}
		c.Base = "d" + strings.Join(segs, "/")
		if rapid.Bool().Draw(t, "noprefix") && segs[0][0] >= 'a' && segs[0][0] <= 'z' {
			c.Base = strings.Join(segs, "/")
		}
	}
	c.Amount = rapid.Uint64Range(1, 1_000_000).Draw(t, "amount")
	n := rapid.IntRange(1, 5).Draw(t, "nhops")
	for i := 0; i < n; i++ {
		c.Hops = append(c.Hops, c34Hop{Link: rapid.IntRange(0, 1).Draw(t, "link")})
	}
	return c
}

func runC34Recv(outer *testing.T) func(t rapid.TB, c c34RecvCase, rec *vx.Case) {
	return func(t rapid.TB, c c34RecvCase, rec *vx.Case) {
		const id = "C34"
		if sdk.ValidateDenom(c.Base) != nil {
			vx.Harnessf("generator produced an invalid native denom %q", c.Base)
		}
		w := sim.NewWorld(outer, 2, nil)
		var paths [2]*ibctesting.Path
		sim.Guard("transfer path setup", func() {
			for i := range paths {
				paths[i] = ibctesting.NewTransferPath(w.Chains[0], w.Chains[1])
				paths[i].Setup()
			}
		})
		// mint the native denomination on chain 0
		amt := sdkmath.NewIntFromUint64(c.Amount)
		sim.Guard("mint", func() {
			coins := sdk.NewCoins(sdk.NewCoin(c.Base, amt))
			ctx := w.Ctx(0)
			if err := w.App(0).BankKeeper.MintCoins(ctx, minttypes.ModuleName, coins); err != nil {
				vx.Harnessf("mint: %v", err)
			}
			if err := w.App(0).BankKeeper.SendCoinsFromModuleToAccount(ctx, minttypes.ModuleName, w.Chains[0].SenderAccount.GetAddress(), coins); err != nil {
				vx.Harnessf("fund: %v", err)
			}
			w.Chains[0].NextBlock()
		})

		// model: the full path string and the ICS-20 string rule for sender-is-source
		fullPath := c.Base
		held := c.Base // bank denom held by the current sender
		vouchers, unwinds, errAcks := 0, 0, 0
		for i, hop := range c.Hops {
			src, dst := i%2, (i+1)%2
			path := paths[hop.Link]
			epSrc, epDst := path.EndpointA, path.EndpointB
			if src == 1 {
				epSrc, epDst = path.EndpointB, path.EndpointA
			}
			sender := w.Chains[src].SenderAccount.GetAddress()
			receiver := w.Chains[dst].SenderAccount.GetAddress()
			msg := transfertypes.NewMsgTransfer(epSrc.ChannelConfig.PortID, epSrc.ChannelID, sdk.NewCoin(held, amt), sender.String(), receiver.String(),
				clienttypes.NewHeight(1, 100000), 0, "")
			var packet channeltypes.Packet
			var ack []byte
			sent := false
			sim.Guard("transfer", func() {
				res, err := w.Chains[src].SendMsgs(msg)
				if err != nil {
					return // the sending chain refused: nothing was received, nothing to check
				}
				pkt, err := ibctesting.ParseV1PacketFromEvents(res.Events)
				if err != nil {
					vx.Harnessf("no packet in send events: %v", err)
				}
				packet = pkt
				_, a, err := path.RelayPacketWithResults(packet)
				if err != nil {
					vx.Harnessf("relay: %v", err)
				}
				ack, sent = a, true
			})
			if !sent {
				rec.Class("send-refused")
				rec.Add("send_refused", 1)
				break
			}
			var ackv channeltypes.Acknowledgement
			if err := channeltypes.SubModuleCdc.UnmarshalJSON(ack, &ackv); err != nil {
				vx.Harnessf("ack does not decode: %v", err)
			}
			if !ackv.Success() {
				// the receive failed: no voucher was created, nothing is claimed by C34
				errAcks++
				rec.Class("error-ack")
				break
			}
			// the packet carried exactly the full path
			var pd transfertypes.FungibleTokenPacketData
			if err := pd.UnmarshalJSON(packet.Data); err != nil {
				vx.Harnessf("packet data: %v", err)
			}
			if pd.Denom != fullPath {
				vx.Violatef(t, rec, id, "packet-denom-not-full-path", "hop %d: packet carries denom %q, the token's full path is %q", i, pd.Denom, fullPath)
			}
			srcPrefix := epSrc.ChannelConfig.PortID + "/" + epSrc.ChannelID + "/"
			if strings.HasPrefix(fullPath, srcPrefix) {
				fullPath = strings.TrimPrefix(fullPath, srcPrefix)
				unwinds++
			} else {
				fullPath = epDst.ChannelConfig.PortID + "/" + epDst.ChannelID + "/" + fullPath
			}
			ctx := w.Ctx(dst)
			if fullPath == c.Base {
				held = c.Base // back home as the native token
			} else {
				vouchers++
				sum := sha256.Sum256([]byte(fullPath))
				held = "ibc/" + upperHexSHA(fullPath)
				rec2, found := w.App(dst).TransferKeeper.GetDenom(ctx, sum[:])
				if !found {
					vx.Violatef(t, rec, id, "voucher-not-recorded-under-path-hash", "hop %d: after a successful receive chain %d has no denom record under sha256(%q)", i, dst, fullPath)
				} else if rec2.Path() != fullPath {
					vx.Violatef(t, rec, id, "record-path-differs", "hop %d: chain %d record under sha256(%q) has path %q", i, dst, fullPath, rec2.Path())
				}
			}
			if bal := w.App(dst).BankKeeper.GetBalance(ctx, receiver, held); !bal.Amount.Equal(amt) {
				vx.Violatef(t, rec, id, "voucher-balance-under-other-name", "hop %d: receiver on chain %d holds %s of %q (full path %q), expected %s", i, dst, bal.Amount, held, fullPath, amt)
			}
			// every record of both chains is keyed by the hash of exactly its own path
			for ch := 0; ch < 2; ch++ {
				st := w.Snapshot(ch, transfertypes.StoreKey)[transfertypes.StoreKey]
				for k, v := range st {
					if !strings.HasPrefix(k, string(transfertypes.DenomKey)) {
						continue
					}
					var dn transfertypes.Denom
					if err := w.App(ch).AppCodec().Unmarshal([]byte(v), &dn); err != nil {
						vx.Harnessf("denom record does not decode: %v", err)
					}
					h := sha256.Sum256([]byte(dn.Path()))
					if k[len(transfertypes.DenomKey):] != string(h[:]) {
						vx.Violatef(t, rec, id, "record-key-not-path-hash", "chain %d stores denom with path %q under key %X, sha256(path) = %X", ch, dn.Path(), k[len(transfertypes.DenomKey):], h[:])
					}
					rec.Add("records_checked", 1)
				}
			}
		}
		rec.Add("vouchers_created", int64(vouchers))
		rec.Add("unwinds", int64(unwinds))
		rec.Add("error_acks", int64(errAcks))
		if identifierLikeInBase(c.Base) {
			rec.Class("base-with-identifier-like-segment")
		}
		if vouchers >= 2 {
			rec.Class("multi-hop")
		}
		if unwinds > 0 {
			rec.Class("unwound")
		}
		rec.NonTrivialIf(vouchers >= 1)
	}
}

func TestC34Recv(t *testing.T) {
	vx.Check(t, vx.Prop[c34RecvCase]{
		ID: "C34",
		Rule: "a native denom (pool incl. identifier-like second segments, or generated) minted on chain 0 is sent over 1..5 hops alternating between two chains, each hop over one of two transfer channels (so traces grow to several hops or unwind); " +
			"after every successful receive the receiving chain must hold a denom record under sha256(full path) whose Path() is the full path, the receiver's balance must be under ibc/HEX(sha256(full path)), and every stored record's key must be the hash of its own path; non-trivial = at least one voucher created",
		MinNTFrac: 0.5,
		Gen:       genC34Recv,
		Run:       runC34Recv(t),
	})
}
