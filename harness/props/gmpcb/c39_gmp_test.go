package gmpcb

import (
	"bytes"
	"crypto/sha256"
	"fmt"
	"math/big"
	"sort"
	"testing"

	"github.com/cosmos/gogoproto/proto"
	"pgregory.net/rapid"

	sdkmath "cosmossdk.io/math"

	sdk "github.com/cosmos/cosmos-sdk/types"
	banktypes "github.com/cosmos/cosmos-sdk/x/bank/types"

	gmptypes "github.com/cosmos/ibc-go/v11/modules/apps/27-gmp/types"
	channeltypesv2 "github.com/cosmos/ibc-go/v11/modules/core/04-channel/v2/types"

	"github.com/cosmos/ibc-go/v11/modules/apps/callbacks/verifx/sim"
	"github.com/cosmos/ibc-go/v11/modules/apps/callbacks/verifx/vx"
)

// C39 (b): GMP accounts on a live chain pair (chain 0 = sender side "A", chain 1 = executing
// side "B", one IBC v2 client pair, gmp routed on the v2 router).
//
// Every case owns a small pool of triples. A triple is either "real" (client = B's client of
// A, sender = bech32 of an A account, salt) and then reachable by genuine packets, or a
// variant of a real one with K bytes moved across a field boundary (same prefix-free
// concatenation) and then only reachable by calling the GMP keeper's receive entry point
// directly (a counterparty chain chooses the sender string freely).

type gTrip struct {
	Acct int    `json:"acct"` // A-side account whose bech32 is the sender
	Salt []byte `json:"salt"`
	Mode string `json:"mode,omitempty"` // "" | salt>sender | sender>salt | sender>client | client>sender
	K    int    `json:"k,omitempty"`
}

type gMsg struct {
	Kind  string `json:"kind"`            // send | multi
	From  []int  `json:"from"`            // one entry per signer/input: 0 self, 1|2 foreign B accounts, 3 the next triple's account
	Amt   int64  `json:"amt"`             // amount per input (stake)
	Big   bool   `json:"big,omitempty"`   // amount exceeds every balance (message fails)
	BadTo bool   `json:"badto,omitempty"` // recipient is not an address (message fails)
}

type gOp struct {
	K      string `json:"k"` // fund | packet | direct | spoof
	T      int    `json:"t"`
	Signer int    `json:"signer,omitempty"` // spoof: transaction signer (differs from the sender account)
	Via    string `json:"via,omitempty"`    // "" MsgSendPacket | call (MsgSendCall)
	Enc    int    `json:"enc,omitempty"`    // packet data encoding 0 protobuf 1 json 2 abi
	PJSON  bool   `json:"pjson,omitempty"`  // CosmosTx payload as proto3 JSON
	Amt    int64  `json:"amt,omitempty"`
	Memo   string `json:"memo,omitempty"`
	Msgs   []gMsg `json:"msgs,omitempty"`
}

type c39gCase struct {
	Trips []gTrip `json:"trips"`
	Ops   []gOp   `json:"ops"`
}

var gmpEncodings = []string{gmptypes.EncodingProtobuf, gmptypes.EncodingJSON, gmptypes.EncodingABI}

func genGMsg(t *rapid.T, honest bool) gMsg {
	m := gMsg{Kind: "send", Amt: rapid.Int64Range(1, 150).Draw(t, "amt")}
	if honest {
		m.From = []int{0}
		if rapid.IntRange(0, 3).Draw(t, "honestMulti") == 0 {
			m.Kind = "multi"
		}
		return m
	}
	signer := func() int {
		// mostly self; sometimes a foreign signer or another GMP account
		return rapid.SampledFrom([]int{0, 0, 0, 0, 0, 1, 2, 3}).Draw(t, "from")
	}
	switch rapid.IntRange(0, 9).Draw(t, "msgKind") {
	case 0: // multi-send without inputs: zero signers
		m.Kind, m.From = "multi", []int{}
	case 1: // multi-send with two inputs: two signers
		m.Kind = "multi"
		a := signer()
		b := rapid.SampledFrom([]int{0, 1, 2, 3}).Draw(t, "from2")
		if a == b {
			b = (a + 1) % 4
		}
		m.From = []int{a, b}
	case 2: // multi-send with one input
		m.Kind, m.From = "multi", []int{signer()}
	default:
		m.From = []int{signer()}
	}
	switch rapid.IntRange(0, 9).Draw(t, "fail") {
	case 0:
		m.Big = true
	case 1:
		m.BadTo = true
	}
	return m
}

func genC39g(t *rapid.T) c39gCase {
	var c c39gCase
	salts := [][]byte{nil, []byte("s"), []byte("salt"), []byte("salt2"), {0, 0, 0, 0, 0, 0, 0, 1}, bytes.Repeat([]byte{0xab}, 32)}
	nReal := rapid.IntRange(1, 3).Draw(t, "nReal")
	for i := 0; i < nReal; i++ {
		c.Trips = append(c.Trips, gTrip{Acct: rapid.IntRange(0, 2).Draw(t, "acct"), Salt: rapid.SampledFrom(salts).Draw(t, "salt")})
	}
	nVar := rapid.IntRange(0, 2).Draw(t, "nVar")
	for i := 0; i < nVar; i++ {
		base := c.Trips[rapid.IntRange(0, nReal-1).Draw(t, "base")]
		v := gTrip{Acct: base.Acct, Salt: base.Salt, K: rapid.IntRange(1, 6).Draw(t, "k")}
		v.Mode = rapid.SampledFrom([]string{"salt>sender", "sender>salt", "sender>client", "client>sender"}).Draw(t, "mode")
		c.Trips = append(c.Trips, v)
	}
	for i := range c.Trips {
		if rapid.IntRange(0, 3).Draw(t, "prefund") > 0 {
			c.Ops = append(c.Ops, gOp{K: "fund", T: i, Amt: rapid.Int64Range(100, 1500).Draw(t, "prefundAmt")})
		}
	}
	nOps := rapid.IntRange(2, 6).Draw(t, "nOps")
	for i := 0; i < nOps; i++ {
		op := gOp{T: rapid.IntRange(0, len(c.Trips)-1).Draw(t, "t")}
		switch rapid.IntRange(0, 9).Draw(t, "opKind") {
		case 0:
			op.K = "fund"
			op.Amt = rapid.Int64Range(1, 1000).Draw(t, "fundAmt")
		case 3:
			op.K = "spoof"
			op.Signer = rapid.IntRange(1, 2).Draw(t, "spoofSigner") // offset from the sender account
		case 4, 5, 6:
			op.K = "direct"
		default:
			op.K = "packet"
		}
		if op.K != "fund" {
			if rapid.IntRange(0, 3).Draw(t, "via") == 0 {
				op.Via = "call"
			}
			op.Enc = rapid.IntRange(0, 2).Draw(t, "enc")
			op.PJSON = rapid.IntRange(0, 4).Draw(t, "pjson") == 0
			op.Memo = rapid.SampledFrom([]string{"", "", "memo", `{"dest_callback":{"address":"x"}}`}).Draw(t, "memo")
			n := rapid.SampledFrom([]int{0, 1, 1, 1, 2, 2, 2, 3, 3, 4}).Draw(t, "nMsgs")
			// profiles: all-honest payload / honest with exactly one hostile message at a random position / arbitrary
			// profiles: 0-2 all-honest payload / 3-4 honest and authorized, but one message (any position) fails /
			// 5-7 honest with exactly one hostile message at a random position / 8-9 arbitrary
			profile := rapid.IntRange(0, 9).Draw(t, "profile")
			bad := -1
			if n > 0 && profile >= 3 && profile <= 7 {
				bad = rapid.IntRange(0, n-1).Draw(t, "badPos")
			}
			for j := 0; j < n; j++ {
				m := genGMsg(t, profile <= 4 || (profile <= 7 && j != bad))
				if j == bad && profile <= 4 {
					if rapid.Bool().Draw(t, "failHow") {
						m.Big = true
					} else {
						m.BadTo = true
					}
				}
				op.Msgs = append(op.Msgs, m)
			}
		}
		c.Ops = append(c.Ops, op)
	}
	return c
}

type gmpRun struct {
	t     rapid.TB
	rec   *vx.Case
	w     *sim.World
	l     *sim.Link
	trips []triple
	real  []bool
	sink  sdk.AccAddress
	used  map[int]bool
	// counters for the non-trivial rule
	multiForeign, coincUsed int
}

const c39 = "C39"

func (r *gmpRun) resolve(c c39gCase) {
	destClient := r.l.ID(1)
	for _, g := range c.Trips {
		tr := triple{C: destClient, S: r.w.Addr(0, g.Acct).String(), X: append([]byte{}, g.Salt...)}
		if g.Salt == nil {
			tr.X = nil
		}
		k := g.K
		switch g.Mode {
		case "salt>sender":
			if k > len(tr.X) {
				k = len(tr.X)
			}
			tr.S, tr.X = tr.S+string(tr.X[:k]), tr.X[k:]
		case "sender>salt":
			tr.S, tr.X = tr.S[:len(tr.S)-k], append([]byte(tr.S[len(tr.S)-k:]), tr.X...)
		case "sender>client":
			tr.C, tr.S = tr.C+tr.S[:k], tr.S[k:]
		case "client>sender":
			tr.C, tr.S = tr.C[:len(tr.C)-k], tr.C[len(tr.C)-k:]+tr.S
		}
		r.trips = append(r.trips, tr)
		r.real = append(r.real, g.Mode == "" || (g.Mode == "salt>sender" && k == 0))
	}
}

func (r *gmpRun) refAcc(i int) sdk.AccAddress { return sdk.AccAddress(refAddress(r.trips[i])) }

// queryAddr asks the chain for the account address of a triple (does not modify state).
func (r *gmpRun) queryAddr(tr triple) (string, error) {
	id := gmptypes.NewAccountIdentifier(tr.C, tr.S, tr.X)
	return r.w.App(1).GMPKeeper.GetOrComputeICS27Address(r.w.Ctx(1), &id)
}

// checkMapping: every triple of the pool maps to the address of the reference scheme, now.
func (r *gmpRun) checkMapping(when string) {
	seen := map[string]int{}
	for i, tr := range r.trips {
		got, err := r.queryAddr(tr)
		if err != nil {
			r.rec.Add("query_rejected", 1)
			continue
		}
		want := r.refAcc(i).String()
		if got != want {
			sig := "address-differs-from-scheme"
			if r.used[i] {
				sig = "address-changed-after-use"
			}
			vx.Violatef(r.t, r.rec, c39, sig, "%s: triple #%d %v maps to %s, the scheme gives %s (used=%v)", when, i, tr, got, want, r.used[i])
		}
		if j, dup := seen[got]; dup && !r.trips[j].eq(tr) {
			vx.Violatef(r.t, r.rec, c39, "address-shared", "%s: distinct triples #%d %v and #%d %v share address %s", when, j, r.trips[j], i, tr, got)
		}
		seen[got] = i
		if r.used[i] {
			acc, err := r.w.App(1).GMPKeeper.GetAccount(r.w.Ctx(1), r.refAcc(i))
			if err == nil && acc.AccountId != nil {
				back := triple{C: acc.AccountId.ClientId, S: acc.AccountId.Sender, X: acc.AccountId.Salt}
				if !back.eq(tr) {
					vx.Violatef(r.t, r.rec, c39, "address-shared", "%s: address of used triple #%d %v is registered for %v", when, i, tr, back)
				}
			}
		}
	}
}

func (r *gmpRun) stake(a sdk.AccAddress) *big.Int {
	return r.w.Balance(1, a, sdk.DefaultBondDenom).Amount.BigInt()
}

// tracked addresses: every pool account, the two foreign accounts, the sink.
func (r *gmpRun) tracked() []sdk.AccAddress {
	var out []sdk.AccAddress
	for i := range r.trips {
		out = append(out, r.refAcc(i))
	}
	return append(out, r.w.Addr(1, 1), r.w.Addr(1, 2), r.sink)
}

type balMap map[string]*big.Int

func (b balMap) String() string {
	keys := make([]string, 0, len(b))
	for k := range b {
		keys = append(keys, k)
	}
	sort.Strings(keys)
	out := ""
	for _, k := range keys {
		out += fmt.Sprintf("%s..%s=%s ", k[:10], k[len(k)-4:], b[k])
	}
	return out
}

func (r *gmpRun) balances() balMap {
	m := balMap{}
	for _, a := range r.tracked() {
		m[a.String()] = r.stake(a)
	}
	return m
}

// signerAddr resolves a signer reference of a message of triple ti.
func (r *gmpRun) signerAddr(ti, ref int) sdk.AccAddress {
	switch ref {
	case 0:
		return r.refAcc(ti)
	case 1, 2:
		return r.w.Addr(1, ref)
	default:
		return r.refAcc((ti + 1) % len(r.trips))
	}
}

// bigAmt exceeds every balance on the chain.
var bigAmt, _ = new(big.Int).SetString("1000000000000000000000000000000000000000000", 10)

// build constructs the sdk messages of an op and, independently, the model of what they
// are: the signer list of every message and its bank effect.
type modelMsg struct {
	signers []string
	moves   [][3]any // from, to, amount
	fails   bool     // fails regardless of balances
}

func (r *gmpRun) build(ti int, msgs []gMsg) ([]proto.Message, []modelMsg) {
	var out []proto.Message
	var model []modelMsg
	coin := func(n *big.Int) sdk.Coins { return sdk.NewCoins(sdk.NewCoin(sdk.DefaultBondDenom, sdkmath.NewIntFromBigInt(n))) }
	for _, m := range msgs {
		amt := big.NewInt(m.Amt)
		if m.Big {
			amt = bigAmt
		}
		to := r.sink.String()
		if m.BadTo {
			to = "not-an-address"
		}
		var mm modelMsg
		mm.fails = m.BadTo
		if m.Kind == "send" {
			from := r.signerAddr(ti, m.From[0])
			out = append(out, &banktypes.MsgSend{FromAddress: from.String(), ToAddress: to, Amount: coin(amt)})
			mm.signers = []string{from.String()}
			mm.moves = append(mm.moves, [3]any{from.String(), r.sink.String(), amt})
		} else {
			ms := &banktypes.MsgMultiSend{}
			total := new(big.Int)
			for _, f := range m.From {
				from := r.signerAddr(ti, f)
				ms.Inputs = append(ms.Inputs, banktypes.Input{Address: from.String(), Coins: coin(amt)})
				mm.signers = append(mm.signers, from.String())
				mm.moves = append(mm.moves, [3]any{from.String(), r.sink.String(), amt})
				total.Add(total, amt)
			}
			if total.Sign() == 0 {
				total = amt
			}
			ms.Outputs = []banktypes.Output{{Address: to, Coins: coin(total)}}
			if len(m.From) != 1 {
				mm.fails = true // bank itself refuses anything but exactly one input
			}
			out = append(out, ms)
		}
		model = append(model, mm)
	}
	return out, model
}

// expected computes the model verdict: authorized (every message has exactly one signer and
// it is the account) and the balances after running all messages in order (nil when some
// message fails).
func expected(pre balMap, self string, model []modelMsg) (authorized bool, full balMap) {
	authorized = len(model) > 0
	for _, m := range model {
		if len(m.signers) != 1 || m.signers[0] != self {
			authorized = false
		}
	}
	bal := balMap{}
	for k, v := range pre {
		bal[k] = new(big.Int).Set(v)
	}
	ok := len(model) > 0
	for _, m := range model {
		if m.fails {
			ok = false
			break
		}
		for _, mv := range m.moves {
			from, to, amt := mv[0].(string), mv[1].(string), mv[2].(*big.Int)
			if bal[from] == nil || bal[to] == nil {
				vx.Harnessf("untracked address in model move %v", mv)
			}
			if bal[from].Cmp(amt) < 0 {
				ok = false
				break
			}
			bal[from].Sub(bal[from], amt)
			bal[to].Add(bal[to], amt)
		}
		if !ok {
			break
		}
	}
	if !ok {
		return authorized, nil
	}
	return authorized, bal
}

func sameBal(a, b balMap) bool {
	if len(a) != len(b) {
		return false
	}
	for k, v := range a {
		if b[k] == nil || b[k].Cmp(v) != 0 {
			return false
		}
	}
	return true
}

// judge applies the execution oracle to one processed GMP call.
func (r *gmpRun) judge(what string, ti int, op gOp, model []modelMsg, pre, post balMap, ackOK bool) {
	self := r.refAcc(ti).String()
	authorized, full := expected(pre, self, model)
	changed := !sameBal(pre, post)
	multiForeign := false
	if len(model) >= 2 {
		for _, m := range model {
			for _, s := range m.signers {
				if s != self {
					multiForeign = true
				}
			}
		}
	}
	if multiForeign {
		r.multiForeign++
		r.rec.Class("multi-msg-foreign-signer")
	}
	for _, m := range model {
		r.rec.Class("signers=%d", len(m.signers))
	}
	if len(model) == 0 {
		r.rec.Class("empty-msg-list")
	}
	switch {
	case !changed:
		r.rec.Add("not_executed", 1)
		if authorized && full != nil && !sameBal(full, pre) {
			r.rec.Add("converse_miss", 1) // model would allow it; health metric only
		}
		if !authorized {
			r.rec.Class("rejected-unauthorized")
		} else if full == nil {
			r.rec.Class("rejected-failing-msg")
			if len(model) >= 2 && !model[0].fails {
				r.rec.Class("authorized-fails-after-first-msg")
			}
		}
		if ackOK && full != nil && !sameBal(full, pre) {
			vx.Violatef(r.t, r.rec, c39, "success-ack-without-effects", "%s: success acknowledgement but no message effect; triple %v msgs %+v", what, r.trips[ti], op.Msgs)
		}
	case full != nil && sameBal(post, full):
		r.rec.Add("executed", 1)
		r.rec.Class("executed")
		if !authorized {
			vx.Violatef(r.t, r.rec, c39, "executed-unauthorized", "%s: messages executed although not every message has exactly one signer equal to the account %s; triple %v msgs %+v model %+v", what, self, r.trips[ti], op.Msgs, model)
		}
	default:
		if !authorized {
			vx.Violatef(r.t, r.rec, c39, "executed-unauthorized", "%s: balances changed (%v -> %v) although the payload is not authorized for %s; triple %v msgs %+v", what, pre, post, self, r.trips[ti], op.Msgs)
		}
		vx.Violatef(r.t, r.rec, c39, "partial-execution", "%s: balances after (%v) are neither the balances before (%v) nor the effect of all messages (%v); triple %v msgs %+v", what, post, pre, full, r.trips[ti], op.Msgs)
	}
}

func (r *gmpRun) payload(ti int, op gOp, msgs []proto.Message) []byte {
	cdc := r.w.App(1).AppCodec()
	bz, err := gmptypes.SerializeCosmosTx(cdc, msgs)
	if err != nil {
		vx.Harnessf("SerializeCosmosTx: %v", err)
	}
	if op.PJSON {
		var tx gmptypes.CosmosTx
		if err := cdc.Unmarshal(bz, &tx); err != nil {
			vx.Harnessf("CosmosTx unmarshal: %v", err)
		}
		if bz, err = cdc.MarshalJSON(&tx); err != nil {
			vx.Harnessf("CosmosTx json: %v", err)
		}
	}
	return bz
}

func isSuccessAck(a *channeltypesv2.Acknowledgement) bool {
	if a == nil || len(a.AppAcknowledgements) != 1 {
		return false
	}
	return !bytes.Equal(a.AppAcknowledgements[0], channeltypesv2.ErrorAcknowledgement[:])
}

func runC39g(outer *testing.T) func(rapid.TB, c39gCase, *vx.Case) {
	return func(t rapid.TB, c c39gCase, rec *vx.Case) {
		w := sim.NewWorld(outer, 2, nil)
		l := w.AddLink(sim.V2Clients, 0, 1, nil)
		h := sha256.Sum256([]byte("c39-sink"))
		r := &gmpRun{t: t, rec: rec, w: w, l: l, sink: sdk.AccAddress(h[:20]), used: map[int]bool{}}
		r.resolve(c)
		r.checkMapping("initially")

		for step, op := range c.Ops {
			w.StepNo = step
			ti := op.T % len(r.trips)
			tr := r.trips[ti]
			acct := c.Trips[ti].Acct
			what := fmt.Sprintf("step %d (%s)", step, op.K)
			switch op.K {
			case "fund":
				// B account 0 funds the account address given by the reference scheme - possibly before its first use
				msg := &banktypes.MsgSend{FromAddress: w.Addr(1, 0).String(), ToAddress: r.refAcc(ti).String(),
					Amount: sdk.NewCoins(sdk.NewCoin(sdk.DefaultBondDenom, sdkmath.NewInt(op.Amt)))}
				if res := w.Deliver(1, 0, msg); !res.OK {
					vx.Harnessf("funding failed: %v", res.Err)
				}
				rec.Add("funded", 1)

			case "spoof", "packet":
				if !r.real[ti] {
					// variants are not reachable by packets: exercise them through the keeper
					r.direct(what, ti, op)
					continue
				}
				msgs, model := r.build(ti, op.Msgs)
				data := gmptypes.NewGMPPacketData(tr.S, "", tr.X, r.payload(ti, op, msgs), op.Memo)
				if len(data.Salt) == 0 {
					data.Salt = nil
				}
				if len(op.Msgs) > 0 && len(op.Msgs)%2 == 0 {
					data.Receiver = r.refAcc(ti).String()
				}
				enc := gmpEncodings[op.Enc%3]
				signer := acct
				if op.K == "spoof" {
					signer = (acct + 1 + (op.Signer+1)%2) % 3 // one of the two other A accounts
				}
				timeout := uint64(w.Ctx(0).BlockTime().Unix()) + 3600
				before := w.Snapshot(0)
				var res sim.TxResult
				var pkt *sim.Pkt
				if op.Via == "call" {
					call := gmptypes.NewMsgSendCall(l.ID(0), tr.S, data.Receiver, data.Payload, data.Salt, timeout, enc, data.Memo)
					res = w.Deliver(0, signer, call)
					if res.OK {
						bz, err := gmptypes.MarshalPacketData(&data, gmptypes.Version, enc)
						if err != nil {
							vx.Harnessf("MarshalPacketData: %v", err)
						}
						seq := r.nextSeq()
						pl := channeltypesv2.NewPayload(gmptypes.PortID, gmptypes.PortID, gmptypes.Version, enc, bz)
						pkt = &sim.Pkt{Idx: len(w.Pkts), Link: l.Idx, Dir: 0, V2: true, SrcHeight: res.Height,
							P2: channeltypesv2.NewPacket(seq, l.ID(0), l.ID(1), timeout, pl)}
						w.Pkts = append(w.Pkts, pkt)
					}
				} else {
					bz, err := gmptypes.MarshalPacketData(&data, gmptypes.Version, enc)
					if err != nil {
						vx.Harnessf("MarshalPacketData: %v", err)
					}
					pl := channeltypesv2.NewPayload(gmptypes.PortID, gmptypes.PortID, gmptypes.Version, enc, bz)
					pkt, res = w.SendV2(l, 0, signer, timeout, pl)
				}
				if op.K == "spoof" {
					rec.Add("spoof_attempts", 1)
					rec.Class("spoof-%s", map[string]string{"": "sendpacket", "call": "sendcall"}[op.Via])
					if res.OK {
						vx.Violatef(t, rec, c39, "send-sender-not-signer", "%s: outgoing GMP packet with sender %s accepted in a transaction signed by %s (via %q)", what, tr.S, w.Addr(0, signer), op.Via)
					}
					if d := sim.Diff(before, w.Snapshot(0)); len(d) > 0 {
						vx.Violatef(t, rec, c39, "rejected-send-changed-state", "%s: rejected spoofed send changed state %v", what, d)
					}
					continue
				}
				if !res.OK {
					rec.Add("honest_send_rejected", 1)
					rec.Class("honest-send-rejected")
					continue
				}
				rec.Add("honest_send_accepted", 1)
				if !w.HasCommitment(pkt) {
					vx.Harnessf("%s: sent packet has no commitment (sequence bookkeeping wrong?)", what)
				}
				// relay to B
				pre := r.balances()
				hgt := w.FreshHeight(l, 1, 0)
				rres := w.Deliver(1, 0, w.BuildRecv(pkt, hgt, 0))
				post := r.balances()
				if !rres.OK {
					rec.Add("recv_tx_failed", 1)
					rec.Class("recv-tx-failed")
					if !sameBal(pre, post) {
						vx.Violatef(t, rec, c39, "partial-execution", "%s: failed receive transaction changed balances %v -> %v", what, pre, post)
					}
					continue
				}
				w.NoteAck(pkt, rres)
				ackOK := isSuccessAck(pkt.Ack2)
				if ackOK {
					r.used[ti] = true
				}
				r.judge(what, ti, op, model, pre, post, ackOK)
				rec.Class("packet-enc-%s", enc)
				r.checkMapping(what)
				// finish the lifecycle on A
				if pkt.Ack2 != nil {
					ah := w.FreshHeight(l, 0, 0)
					if ares := w.Deliver(0, 0, w.BuildAck(pkt, nil, *pkt.Ack2, ah, 0)); !ares.OK {
						rec.Add("ack_tx_failed", 1)
					}
				}

			case "direct":
				r.direct(what, ti, op)
			}
		}
		r.checkMapping("finally")
		coinc := 0
		for i := range r.trips {
			for j := range r.trips {
				if i < j && !r.trips[i].eq(r.trips[j]) && naiveConcat(r.trips[i]) == naiveConcat(r.trips[j]) && (r.used[i] || r.used[j]) {
					coinc++
				}
			}
		}
		if coinc > 0 {
			rec.Class("coinciding-pair-used")
		}
		rec.Add("triples", int64(len(r.trips)))
		rec.NonTrivialIf(coinc > 0 || r.multiForeign > 0)
	}
}

// nextSeq: the sequence the last accepted MsgSendCall used on the A side.
func (r *gmpRun) nextSeq() uint64 {
	next, ok := r.w.App(0).IBCKeeper.ChannelKeeperV2.GetNextSequenceSend(r.w.Ctx(0), r.l.ID(0))
	if !ok || next < 2 {
		vx.Harnessf("no next sequence send for %s", r.l.ID(0))
	}
	return next - 1
}

// direct calls the GMP keeper's receive entry point on B with an arbitrary triple (what a
// counterparty chain could put into a packet), commits the outcome either way (the keeper
// itself promises atomic execution), and applies the same oracle.
func (r *gmpRun) direct(what string, ti int, op gOp) {
	tr := r.trips[ti]
	msgs, model := r.build(ti, op.Msgs)
	data := gmptypes.NewGMPPacketData(tr.S, "", tr.X, r.payload(ti, op, msgs), op.Memo)
	pre := r.balances()
	ctx, write := r.w.Ctx(1).CacheContext()
	var err error
	sim.Guard("gmp OnRecvPacket", func() { _, err = r.w.App(1).GMPKeeper.OnRecvPacket(ctx, &data, tr.C) })
	write()
	r.w.Block(1, 1)
	post := r.balances()
	r.rec.Class("direct")
	if !r.real[ti] {
		r.rec.Class("direct-variant-%s", "triple")
	}
	if err == nil {
		r.used[ti] = true
	} else if acc, gerr := r.w.App(1).GMPKeeper.GetAccount(r.w.Ctx(1), r.refAcc(ti)); gerr == nil && acc != nil {
		r.used[ti] = true // the account was registered although execution failed
	}
	r.judge(what+" direct", ti, op, model, pre, post, err == nil)
	r.checkMapping(what + " direct")
}

func TestC39Gmp(t *testing.T) {
	vx.Check(t, vx.Prop[c39gCase]{
		ID:        "C39",
		Rule:      "2 chains + v2 client pair; pool of 1-5 triples (real, and variants with bytes moved across a field boundary); ops fund/packet/direct/spoof with payloads of 0-4 bank messages having 0/1/2 signers, foreign signers, other GMP accounts, failing messages at any position, 3 packet encodings, proto/JSON payload; non-trivial = a used triple has a coinciding-concatenation sibling in the pool, or a multi-message payload contains a foreign signer; distinct by full history",
		MinNTFrac: 0.3,
		Gen:       genC39g,
		Run:       runC39g(t),
	})
}
