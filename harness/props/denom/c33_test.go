package denom

import (
	"fmt"
	"strings"
	"testing"

	sdkmath "cosmossdk.io/math"

	sdk "github.com/cosmos/cosmos-sdk/types"

	"pgregory.net/rapid"

	transfertypes "github.com/cosmos/ibc-go/v11/modules/apps/transfer/types"

	"github.com/cosmos/ibc-go/v11/modules/apps/callbacks/verifx/sim"
	"github.com/cosmos/ibc-go/v11/modules/apps/callbacks/verifx/vx"
)

// C33: a voucher received over a channel can always be sent back over the same channel (channel
// open, funds suffice); on arrival the origin releases the ORIGINAL denomination from that
// channel's escrow to the receiver; for every base denomination the origin accepts for transfer,
// including names with '/' segments.
//
// Domain = whatever a real MsgTransfer on the origin accepts (rejections are counted, never
// violations). Oracle (exactness, written from the statement): after the return leg the receiver
// on the origin gained exactly the returned amount of the denomination that was sent out, that
// channel's escrow account lost exactly that amount of it, and the voucher supply on the far chain
// dropped by exactly that amount (so a full return brings it back to its start).

const sigHopLike = "hoplike-base-segment"

type c33Denom struct {
	Base   string `json:"base"`
	Amount string `json:"amount"`
	Route  int    `json:"route"` // 0: A->B->A   1: A->B->C->B->A
	F1     int    `json:"f1"`    // quarters of the voucher forwarded B->C
	F2     int    `json:"f2"`    // quarters of that returned C->B
	F3     int    `json:"f3"`    // quarters of B's holdings returned B->A
}

type c33Case struct {
	Denoms   []c33Denom `json:"denoms"`
	Skip     [4]int     `json:"skip"`     // channel-sequence skips: A, B (link A-B), B, C (link B-C)
	Excluded int        `json:"excluded"` // draws repaired out of the recorded class hoplike-base-segment
}

func genC33(t *rapid.T) c33Case {
	var c c33Case
	n := rapid.IntRange(1, 3).Draw(t, "ndenoms")
	seen := map[string]bool{}
	for i := 0; i < n; i++ {
		base, ex := genBase(t, "base", repairHopLike)
		c.Excluded += ex
		if seen[base] {
			continue
		}
		seen[base] = true
		c.Denoms = append(c.Denoms, c33Denom{
			Base:   base,
			Amount: genAmount(t, "amount"),
			Route:  rapid.SampledFrom([]int{0, 0, 1}).Draw(t, "route"),
			F1:     rapid.IntRange(1, 4).Draw(t, "f1"),
			F2:     rapid.SampledFrom([]int{4, 4, 1, 2, 3}).Draw(t, "f2"),
			F3:     rapid.SampledFrom([]int{4, 4, 1, 2, 3}).Draw(t, "f3"),
		})
	}
	for i := range c.Skip {
		c.Skip[i] = rapid.IntRange(0, 3).Draw(t, "skip")
	}
	return c
}

// the recorded finding, re-demonstrated deterministically: the three probe denoms plus close
// relatives, all inside the class hopLikeBase.
var c33KnownDenoms = []string{"gamm/pool-1", "ab/client-10/e", "transfer/channel-0/foo", "factory/channel-7", "lp/07-tendermint-0/share/x"}

func genC33Known(t *rapid.T) c33Case {
	base := rapid.SampledFrom(c33KnownDenoms).Draw(t, "known-base")
	return c33Case{Denoms: []c33Denom{{Base: base, Amount: genAmount(t, "amount"), Route: rapid.SampledFrom([]int{0, 1}).Draw(t, "route"), F1: 4, F2: 4, F3: 4}}}
}

type c33Run struct {
	t    rapid.TB
	rec  *vx.Case
	w    *sim.World
	base string // the native base denomination this round trip is about (for the signature)
}

func (x *c33Run) violate(stage, format string, args ...any) bool {
	sig := stage
	if hopLikeBase(x.base) {
		sig = sigHopLike
	}
	return vx.Violatef(x.t, x.rec, "C33", sig, "base denom %q: %s: %s", x.base, stage, fmt.Sprintf(format, args...))
}

// returnLeg sends `amt` of `voucher` from side `fromSide` of link l back over the channel it came
// in on and checks the three clauses of the statement on the chain that issued it. It returns
// false when a violation was recorded as a known finding (stop checking this denom).
func (x *c33Run) returnLeg(l *sim.Link, fromSide int, voucher string, amt sdkmath.Int, orig string, holderAcct, recvAcct int) bool {
	w := x.w
	far, origin := l.Chain[fromSide], l.Chain[1-fromSide]
	recvAddr := w.Addr(origin, recvAcct)
	escrow := transfertypes.GetEscrowAddress(l.Port(1-fromSide), l.ID(1-fromSide))
	recv0 := balances(w, origin, recvAddr)
	esc0 := w.Balance(origin, escrow, orig).Amount
	sup0 := w.Supply(far, voucher).Amount

	p, res := sendTransfer(w, l, fromSide, holderAcct, sdk.NewCoin(voucher, amt), recvAddr.String(), "")
	if p == nil {
		return !x.violate("return-send-rejected", "MsgTransfer of %s%s back over %s/%s was rejected: %v %s", amt, voucher, l.Port(fromSide), l.ID(fromSide), res.Err, logOf(res))
	}
	rr := relay(w, p)
	if !rr.Recv.OK {
		return !x.violate("return-recv-tx-failed", "MsgRecvPacket of the return leg failed on the origin: %v %s", rr.Recv.Err, logOf(rr.Recv))
	}
	if !rr.HaveAck || !rr.AckOK {
		return !x.violate("return-error-ack", "return leg of %s%s ended in acknowledgement %s (packet denom %q)", amt, voucher, string(p.Ack1), packetDenom(p))
	}
	recv1 := balances(w, origin, recvAddr)
	got := recv1[orig]
	if got.IsNil() {
		got = sdkmath.ZeroInt()
	}
	had := recv0[orig]
	if had.IsNil() {
		had = sdkmath.ZeroInt()
	}
	if !got.Sub(had).Equal(amt) {
		ds, by := gained(recv0, recv1)
		return !x.violate("return-not-original-denom", "receiver gained %s of %q instead of %s; gained instead: %v %v", got.Sub(had), orig, amt, ds, by)
	}
	if esc1 := w.Balance(origin, escrow, orig).Amount; !esc0.Sub(esc1).Equal(amt) {
		return !x.violate("escrow-not-released", "escrow of %s/%s held %s %q before and %s after a return of %s", l.Port(1-fromSide), l.ID(1-fromSide), esc0, orig, esc1, amt)
	}
	if sup1 := w.Supply(far, voucher).Amount; !sup0.Sub(sup1).Equal(amt) {
		return !x.violate("voucher-supply", "voucher %s supply on the far chain went %s -> %s for a return of %s", voucher, sup0, sup1, amt)
	}
	x.rec.Add("return_legs_ok", 1)
	return true
}

// forwardLeg sends amt of coin over l from side fromSide and returns the voucher denom the
// holder account received (""/false if the leg did not complete: not a C33 matter, counted).
func (x *c33Run) forwardLeg(l *sim.Link, fromSide int, denom string, amt sdkmath.Int, fromAcct int) (voucher string, accepted, ok bool) {
	w := x.w
	dst := l.Chain[1-fromSide]
	holder := w.Addr(dst, acctHolder)
	h0 := balances(w, dst, holder)
	p, _ := sendTransfer(w, l, fromSide, fromAcct, sdk.NewCoin(denom, amt), holder.String(), "")
	if p == nil {
		return "", false, false
	}
	rr := relay(w, p)
	ds, by := gained(h0, balances(w, dst, holder))
	if !rr.Recv.OK || !rr.AckOK || len(ds) != 1 || !by[ds[0]].Equal(amt) {
		return "", true, false
	}
	return ds[0], true, true
}

func runC33(outer *testing.T) func(t rapid.TB, c c33Case, rec *vx.Case) {
	return func(t rapid.TB, c c33Case, rec *vx.Case) {
		three := false
		for _, d := range c.Denoms {
			if d.Route == 1 {
				three = true
			}
		}
		n := 2
		if three {
			n = 3
		}
		w := sim.NewWorld(outer, n, nil)
		ab := addTransferLink(w, 0, 1, c.Skip[0], c.Skip[1])
		var bc *sim.Link
		if three {
			bc = addTransferLink(w, 1, 2, c.Skip[2], c.Skip[3])
		}
		rec.Add("excluded_known", int64(c.Excluded))
		nt := false
		for _, d := range c.Denoms {
			for _, s := range strings.Split(d.Base, "/") {
				selfCheckHopLike(s)
			}
			if err := sdk.ValidateDenom(d.Base); err != nil {
				rec.Add("not_an_sdk_denom", 1)
				continue
			}
			x := &c33Run{t: t, rec: rec, w: w, base: d.Base}
			m := mustInt(d.Amount)
			mintTo(w, 0, w.Addr(0, acctSender), sdk.NewCoins(sdk.NewCoin(d.Base, m)))

			v1, accepted, ok := x.forwardLeg(ab, 0, d.Base, m, acctSender)
			if !accepted {
				rec.Add("origin_rejected", 1)
				rec.Class("origin-rejected")
				continue
			}
			rec.Add("origin_accepted", 1)
			if !ok {
				rec.Add("forward_failed", 1)
				rec.Class("forward-failed")
				continue
			}
			segs := strings.Split(d.Base, "/")
			rec.Class("route-%d", d.Route)
			rec.Class("segments-%d", len(segs))
			for i, s := range segs {
				if hopLike(s) {
					rec.Class("id-like-segment-at-%d", i)
				}
			}
			hold := m
			if d.Route == 1 {
				k := frac(m, d.F1)
				v2, acc2, ok2 := x.forwardLeg(bc, 0, v1, k, acctHolder)
				if !acc2 || !ok2 {
					// the voucher could not move FORWARD: outside this property (counted)
					rec.Add("forward2_failed", 1)
					rec.Class("forward2-failed")
				} else {
					k2 := frac(k, d.F2)
					if !x.returnLeg(bc, 1, v2, k2, v1, acctHolder, acctHolder) {
						continue
					}
					hold = m.Sub(k).Add(k2)
				}
			}
			back := frac(hold, d.F3)
			if !x.returnLeg(ab, 1, v1, back, d.Base, acctHolder, acctReceiver) {
				continue
			}
			if back.Equal(m) {
				rec.Class("full-return")
				if s := w.Supply(1, v1).Amount; !s.IsZero() {
					x.violate("voucher-supply", "voucher %s supply is %s after everything was returned", v1, s)
				}
			} else {
				rec.Class("partial-return")
			}
			rec.Add("round_trips_ok", 1)
			if len(segs) >= 2 && hasIdentifierLikeSegment(d.Base) {
				nt = true
			}
		}
		rec.NonTrivialIf(nt)
	}
}

func logOf(r sim.TxResult) string {
	if r.Res != nil && r.Res.Log != "" {
		l := r.Res.Log
		if len(l) > 300 {
			l = l[:300]
		}
		return "log=" + l
	}
	return ""
}

func packetDenom(p *sim.Pkt) string {
	var d transfertypes.FungibleTokenPacketData
	if err := transfertypes.ModuleCdc.UnmarshalJSON(p.P1.Data, &d); err != nil {
		return "?"
	}
	return d.Denom
}

func TestC33(t *testing.T) {
	vx.Check(t, vx.Prop[c33Case]{
		ID: "C33",
		Rule: "1-3 base denoms per world, built from 1-6 '/'-separated segments of shapes {word, channel-N, near-channel, client-like, near-client, port, numeric, 1-char, ibc, empty}, any amount up to 2^128; " +
			"domain = accepted by a real MsgTransfer on the origin; routes A->B->A and A->B->C->B->A with partial returns, channel ids differing per side; " +
			"the recorded class hoplike-base-segment (segment 1 hop-like) is repaired out by construction (metric excluded_known); " +
			"non-trivial = a completed round trip of a base denom with >=1 '/' and an identifier-like (channel-/client-id shaped) segment; distinct by full case",
		MinNTFrac: 0.2,
		Gen:       genC33,
		Run:       runC33(t),
	})
}

// TestC33Known re-demonstrates the recorded finding on every run: round trips of base denoms
// whose second segment is channel- or client-id shaped. A failure is reported with the signature
// hoplike-base-segment (KNOWN-FINDING when listed in known_findings.json, VIOLATION otherwise).
func TestC33Known(t *testing.T) {
	run := runC33(t)
	vx.Check(t, vx.Prop[c33Case]{
		ID:   "C33",
		Rule: "deterministic re-demonstration of hoplike-base-segment on {gamm/pool-1, ab/client-10/e, transfer/channel-0/foo, factory/channel-7, lp/07-tendermint-0/share/x}; every evaluated case counts",
		Gen:  genC33Known,
		Run: func(t rapid.TB, c c33Case, rec *vx.Case) {
			run(t, c, rec)
			rec.Class("known-subcase")
			rec.NonTrivial()
		},
	})
}
