package denom

import (
	"fmt"
	"math/big"
	"sort"
	"strings"
	"testing"

	"cosmossdk.io/log/v2"
	sdkmath "cosmossdk.io/math"

	cmtproto "github.com/cometbft/cometbft/proto/tendermint/types"

	sdk "github.com/cosmos/cosmos-sdk/types"

	"pgregory.net/rapid"

	transfertypes "github.com/cosmos/ibc-go/v11/modules/apps/transfer/types"
	clienttypes "github.com/cosmos/ibc-go/v11/modules/core/02-client/types"

	"github.com/cosmos/ibc-go/v11/modules/apps/callbacks/verifx/vx"
)

// C36 (model part): TransferAuthorization.Accept over request sequences, used exactly the way
// x/authz uses it: the grant is decoded from its stored bytes for every request, Accept is called,
// and the stored grant is deleted (Delete), replaced (Updated != nil) or left alone.
//
// Reference model (written from the statement): per allocated (port, channel) a map
// denom -> remaining (a big integer, or "unbounded"), an allow list and a memo list.
//   safety    Accept => channel allocated AND receiver allowed AND memo allowed AND
//             amount <= remaining (the 2^256-1 "entire balance" sentinel therefore only against
//             an unbounded limit). Rejections are never violations.
//   exactness after an acceptance the stored grant equals the model: that remaining decreased by
//             exactly the amount (unbounded: unchanged), everything else untouched, the allocation
//             gone when nothing remains, the grant deleted when no allocation remains.
//   cumulative  sum of accepted amounts per (port, channel, denom) <= granted.

const unbounded = "U"

var maxU256 = new(big.Int).Sub(new(big.Int).Lsh(big.NewInt(1), 256), big.NewInt(1))

type c36Coin struct {
	Denom  string `json:"d"`
	Amount string `json:"a"` // decimal or "U"
}

type c36Alloc struct {
	Port    string    `json:"port"`
	Channel string    `json:"ch"`
	Limits  []c36Coin `json:"limits"`
	Allow   []int     `json:"allow"` // indices into c36Receivers; empty: anyone
	Memos   []string  `json:"memos"`
}

type c36Req struct {
	Port     string `json:"port"`
	Channel  string `json:"ch"`
	Denom    string `json:"d"`
	Kind     string `json:"k"`   // eq | less | more | half | one | sentinel | abs  (relative to the model's remaining limit)
	Abs      string `json:"abs"` // for kind abs
	Receiver int    `json:"r"`
	Memo     string `json:"memo"`
}

type c36Case struct {
	Allocs []c36Alloc `json:"allocs"`
	Reqs   []c36Req   `json:"reqs"`
}

var (
	c36Receivers = []string{"cosmos1receiver0", "cosmos1receiver1", "0x7a69", "osmo1xyz"}
	c36Denoms    = []string{"stake", "uatom", "gamm/pool/1", "ibc/27394FB092D2ECCD56123C74F36E4C1F926001CEADA9CA97EA622B25F41E5EB2"}
	c36Ports     = []string{"transfer", "transfer", "transfer", "transfer2"}
	c36Channels  = []string{"channel-0", "channel-1", "channel-2", "channel-10"}
	c36MemoLists = [][]string{nil, nil, {"*"}, {"*"}, {"memo-a"}, {"memo-a", `{"wasm":{"k":1}}`}, {" padded "}, {"*", "memo-a"}}
	c36Memos     = []string{"", "", "", "memo-a", " memo-a ", "other", "*", "  ", `{"wasm":{"k":1}}`, "padded"}
	c36Sender    = sdk.AccAddress([]byte("granter_____________")).String()
)

func genC36Allocs(t *rapid.T, ports, channels []string, denoms []string, maxAllocs int) []c36Alloc {
	n := rapid.IntRange(1, maxAllocs).Draw(t, "nalloc")
	var out []c36Alloc
	used := map[string]bool{}
	for i := 0; i < n; i++ {
		ch := rapid.SampledFrom(channels).Draw(t, "alloc-ch")
		if used[ch] { // ValidateBasic forbids two allocations for one channel id
			continue
		}
		used[ch] = true
		a := c36Alloc{Port: rapid.SampledFrom(ports).Draw(t, "alloc-port"), Channel: ch}
		nd := rapid.IntRange(1, 3).Draw(t, "nlimits")
		seen := map[string]bool{}
		for j := 0; j < nd; j++ {
			d := rapid.SampledFrom(denoms).Draw(t, "limit-denom")
			if seen[d] {
				continue
			}
			seen[d] = true
			amt := rapid.SampledFrom([]string{"1", "2", "5", "10", "100", "1000", unbounded, unbounded, "18446744073709551616",
				"115792089237316195423570985008687907853269984665640564039457584007913129639934"}).Draw(t, "limit-amt")
			a.Limits = append(a.Limits, c36Coin{Denom: d, Amount: amt})
		}
		switch rapid.IntRange(0, 3).Draw(t, "allow-kind") {
		case 0, 1: // anyone
		case 2:
			a.Allow = []int{rapid.IntRange(0, 3).Draw(t, "allow1")}
		default:
			x := rapid.IntRange(0, 3).Draw(t, "allow1")
			a.Allow = []int{x, (x + 1 + rapid.IntRange(0, 2).Draw(t, "allow2")) % 4}
		}
		a.Memos = rapid.SampledFrom(c36MemoLists).Draw(t, "memolist")
		out = append(out, a)
	}
	return out
}

func genC36Reqs(t *rapid.T, allocs []c36Alloc, ports, channels, denoms []string, maxReqs int) []c36Req {
	n := rapid.IntRange(1, maxReqs).Draw(t, "nreq")
	reqs := make([]c36Req, 0, n)
	for i := 0; i < n; i++ {
		r := c36Req{}
		// mostly aim at an existing allocation and one of its denoms, allowed receiver / memo
		a := allocs[rapid.IntRange(0, len(allocs)-1).Draw(t, "target")]
		r.Port, r.Channel = a.Port, a.Channel
		r.Denom = a.Limits[rapid.IntRange(0, len(a.Limits)-1).Draw(t, "target-denom")].Denom
		r.Receiver = rapid.IntRange(0, 3).Draw(t, "recv")
		if len(a.Allow) > 0 && rapid.IntRange(0, 3).Draw(t, "recv-ok") > 0 {
			r.Receiver = a.Allow[rapid.IntRange(0, len(a.Allow)-1).Draw(t, "recv-allowed")]
		}
		r.Memo = rapid.SampledFrom(c36Memos).Draw(t, "memo")
		if len(a.Memos) > 0 && a.Memos[0] != "*" && rapid.IntRange(0, 2).Draw(t, "memo-ok") > 0 {
			r.Memo = a.Memos[rapid.IntRange(0, len(a.Memos)-1).Draw(t, "memo-allowed")]
		}
		if len(a.Memos) == 0 && rapid.IntRange(0, 3).Draw(t, "memo-empty") > 0 {
			r.Memo = ""
		}
		switch rapid.IntRange(0, 11).Draw(t, "deviate") {
		case 0:
			r.Channel = rapid.SampledFrom(channels).Draw(t, "other-ch")
		case 1:
			r.Port = rapid.SampledFrom(ports).Draw(t, "other-port")
		case 2:
			r.Denom = rapid.SampledFrom(denoms).Draw(t, "other-denom")
		}
		r.Kind = rapid.SampledFrom([]string{"eq", "eq", "less", "more", "more", "half", "half", "one", "sentinel", "abs"}).Draw(t, "amt-kind")
		if r.Kind == "abs" {
			r.Abs = rapid.SampledFrom([]string{"1", "3", "7", "50", "1000", "18446744073709551615", "115792089237316195423570985008687907853269984665640564039457584007913129639934"}).Draw(t, "abs")
		}
		reqs = append(reqs, r)
	}
	return reqs
}

func genC36(t *rapid.T) c36Case {
	allocs := genC36Allocs(t, c36Ports, c36Channels, c36Denoms, 3)
	return c36Case{Allocs: allocs, Reqs: genC36Reqs(t, allocs, c36Ports, c36Channels, c36Denoms, 12)}
}

// ---- the reference model -----------------------------------------------------------

type mAlloc struct {
	port, ch string
	rem      map[string]*big.Int // bounded remaining (>0)
	unb      map[string]bool     // unbounded denoms
	allow    []string
	memos    []string
}

func (a *mAlloc) exhausted() bool { return len(a.rem) == 0 && len(a.unb) == 0 }

type mGrant struct{ allocs []*mAlloc }

func newModel(allocs []c36Alloc, receivers []string) *mGrant {
	g := &mGrant{}
	for _, a := range allocs {
		m := &mAlloc{port: a.Port, ch: a.Channel, rem: map[string]*big.Int{}, unb: map[string]bool{}, memos: append([]string(nil), a.Memos...)}
		for _, c := range a.Limits {
			if c.Amount == unbounded {
				m.unb[c.Denom] = true
			} else {
				v, _ := new(big.Int).SetString(c.Amount, 10)
				m.rem[c.Denom] = v
			}
		}
		for _, i := range a.Allow {
			m.allow = append(m.allow, receivers[i])
		}
		g.allocs = append(g.allocs, m)
	}
	return g
}

func (g *mGrant) find(port, ch string) *mAlloc {
	for _, a := range g.allocs {
		if a.port == port && a.ch == ch {
			return a
		}
	}
	return nil
}

func memoAllowedModel(list []string, memo string) bool {
	if len(list) == 0 {
		return strings.TrimSpace(memo) == ""
	}
	for _, m := range list {
		if m == "*" || strings.TrimSpace(m) == strings.TrimSpace(memo) {
			return true
		}
	}
	return false
}

// verdict returns "" when the model accepts, else the reason it forbids acceptance.
func (g *mGrant) verdict(port, ch, denom string, amt *big.Int, receiver, memo string) string {
	a := g.find(port, ch)
	if a == nil {
		return "unallocated-channel"
	}
	if len(a.allow) > 0 {
		ok := false
		for _, r := range a.allow {
			if r == receiver {
				ok = true
			}
		}
		if !ok {
			return "receiver-not-allowed"
		}
	}
	if !memoAllowedModel(a.memos, memo) {
		return "memo-not-allowed"
	}
	if a.unb[denom] {
		return ""
	}
	rem := a.rem[denom]
	if rem == nil {
		rem = new(big.Int)
	}
	if amt.Cmp(rem) > 0 {
		if amt.Cmp(maxU256) == 0 {
			return "sentinel-on-bounded-limit"
		}
		return "over-limit"
	}
	return ""
}

func (g *mGrant) apply(port, ch, denom string, amt *big.Int) {
	a := g.find(port, ch)
	if a.unb[denom] {
		return
	}
	a.rem[denom] = new(big.Int).Sub(a.rem[denom], amt)
	if a.rem[denom].Sign() == 0 {
		delete(a.rem, denom)
	}
	if a.exhausted() {
		for i, x := range g.allocs {
			if x == a {
				g.allocs = append(g.allocs[:i:i], g.allocs[i+1:]...)
				break
			}
		}
	}
}

func (g *mGrant) remaining(port, ch, denom string) (*big.Int, bool) {
	a := g.find(port, ch)
	if a == nil {
		return new(big.Int), false
	}
	if a.unb[denom] {
		return nil, true
	}
	if r := a.rem[denom]; r != nil {
		return new(big.Int).Set(r), false
	}
	return new(big.Int), false
}

// render gives a canonical text of a grant (model or implementation) for exact comparison.
func (g *mGrant) render() string {
	var sb strings.Builder
	for _, a := range g.allocs {
		var ks []string
		for d, v := range a.rem {
			ks = append(ks, d+"="+v.String())
		}
		for d := range a.unb {
			ks = append(ks, d+"="+maxU256.String())
		}
		sort.Strings(ks)
		fmt.Fprintf(&sb, "[%s %s {%s} allow=%q memos=%q]", a.port, a.ch, strings.Join(ks, ","), a.allow, a.memos)
	}
	return sb.String()
}

func renderImpl(a *transfertypes.TransferAuthorization) string {
	var sb strings.Builder
	for _, al := range a.Allocations {
		var ks []string
		for _, c := range al.SpendLimit {
			ks = append(ks, c.Denom+"="+c.Amount.String())
		}
		sort.Strings(ks)
		fmt.Fprintf(&sb, "[%s %s {%s} allow=%q memos=%q]", al.SourcePort, al.SourceChannel, strings.Join(ks, ","), []string(al.AllowList), []string(al.AllowedPacketData))
	}
	return sb.String()
}

func buildAuthorization(allocs []c36Alloc, receivers []string) *transfertypes.TransferAuthorization {
	var out []transfertypes.Allocation
	for _, a := range allocs {
		var coins sdk.Coins
		for _, c := range a.Limits {
			amt := transfertypes.UnboundedSpendLimit()
			if c.Amount != unbounded {
				amt = mustInt(c.Amount)
			}
			coins = append(coins, sdk.NewCoin(c.Denom, amt))
		}
		al := transfertypes.Allocation{SourcePort: a.Port, SourceChannel: a.Channel, SpendLimit: coins.Sort()}
		for _, i := range a.Allow {
			al.AllowList = append(al.AllowList, receivers[i])
		}
		al.AllowedPacketData = append([]string(nil), a.Memos...)
		out = append(out, al)
	}
	return transfertypes.NewTransferAuthorization(out...)
}

// resolveAmount turns the request's relative amount into a concrete positive integer using the
// model's current remaining limit.
func resolveAmount(r c36Req, rem *big.Int, isUnb bool) *big.Int {
	base := rem
	if isUnb || base == nil {
		base = big.NewInt(1000)
	}
	var v *big.Int
	switch r.Kind {
	case "eq":
		v = new(big.Int).Set(base)
	case "less":
		v = new(big.Int).Sub(base, big.NewInt(1))
	case "more":
		v = new(big.Int).Add(base, big.NewInt(1))
	case "half":
		v = new(big.Int).Rsh(base, 1)
	case "sentinel":
		v = new(big.Int).Set(maxU256)
	case "abs":
		v, _ = new(big.Int).SetString(r.Abs, 10)
	default:
		v = big.NewInt(1)
	}
	if v == nil || v.Sign() <= 0 {
		v = big.NewInt(1)
	}
	if v.Cmp(maxU256) > 0 {
		v = new(big.Int).Set(maxU256)
	}
	return v
}

func runC36(t rapid.TB, c c36Case, rec *vx.Case) {
	const id = "C36"
	auth := buildAuthorization(c.Allocs, c36Receivers)
	if err := auth.ValidateBasic(); err != nil {
		vx.Harnessf("generated grant fails ValidateBasic: %v", err)
	}
	stored, err := auth.Marshal()
	if err != nil {
		vx.Harnessf("marshal grant: %v", err)
	}
	model := newModel(c.Allocs, c36Receivers)
	if renderImpl(auth) != model.render() {
		vx.Harnessf("initial model %s differs from grant %s", model.render(), renderImpl(auth))
	}
	ctx := sdk.NewContext(nil, cmtproto.Header{}, false, log.NewNopLogger())
	spent := map[string]*big.Int{}
	granted := map[string]*big.Int{}
	for _, a := range model.allocs {
		for d, v := range a.rem {
			granted[a.port+"/"+a.ch+"/"+d] = new(big.Int).Set(v)
		}
	}
	deleted := false
	var accepted, exhausted, sentinelUsed, rejected int
	for i, r := range c.Reqs {
		if deleted {
			rec.Add("requests_after_delete", 1)
			break
		}
		rem, isUnb := model.remaining(r.Port, r.Channel, r.Denom)
		amt := resolveAmount(r, rem, isUnb)
		receiver := c36Receivers[r.Receiver]
		msg := transfertypes.NewMsgTransfer(r.Port, r.Channel, sdk.NewCoin(r.Denom, sdkmath.NewIntFromBigInt(amt)), c36Sender, receiver,
			clienttypes.NewHeight(1, 1000), 0, r.Memo)
		if err := msg.ValidateBasic(); err != nil {
			rec.Add("rejected_statelessly", 1)
			continue
		}
		if amt.Cmp(maxU256) == 0 {
			sentinelUsed++
		}
		var cur transfertypes.TransferAuthorization
		if err := cur.Unmarshal(stored); err != nil {
			vx.Harnessf("unmarshal stored grant: %v", err)
		}
		resp, err := cur.Accept(ctx, msg)
		why := model.verdict(r.Port, r.Channel, r.Denom, amt, receiver, r.Memo)
		if err != nil || !resp.Accept {
			rejected++
			if why == "" { // converse: measured, never a violation
				star := false
				if a := model.find(r.Port, r.Channel); a != nil && len(a.memos) > 1 {
					for _, m := range a.memos {
						star = star || m == "*"
					}
				}
				if star { // the model reads "*" inside a longer memo list as a wildcard, ibc-go as a literal
					rec.Add("model_ok_impl_rejects_star_in_longer_memo_list", 1)
				} else {
					rec.Add("model_ok_impl_rejects_other", 1)
				}
			}
			continue
		}
		accepted++
		if why != "" {
			vx.Violatef(t, rec, id, "accept-"+why, "request %d %+v (amount %s) accepted although the model forbids it (%s); grant before: %s", i, r, amt, why, model.render())
			return
		}
		// exactness: what authz would persist now
		model.apply(r.Port, r.Channel, r.Denom, amt)
		if !isUnb {
			k := r.Port + "/" + r.Channel + "/" + r.Denom
			if spent[k] == nil {
				spent[k] = new(big.Int)
			}
			spent[k].Add(spent[k], amt)
			if spent[k].Cmp(granted[k]) > 0 {
				vx.Violatef(t, rec, id, "cumulative-overspend", "accepted %s in total on %s, granted %s", spent[k], k, granted[k])
				return
			}
		}
		switch {
		case resp.Delete:
			if len(model.allocs) != 0 {
				vx.Violatef(t, rec, id, "delete-with-allocations-left", "request %d: Delete=true but the model still has %s", i, model.render())
				return
			}
			deleted = true
		default:
			if len(model.allocs) == 0 {
				vx.Violatef(t, rec, id, "no-delete-when-exhausted", "request %d: every allocation is exhausted but Delete=false (Updated=%v)", i, resp.Updated != nil)
				return
			}
			if resp.Updated != nil {
				upd, ok := resp.Updated.(*transfertypes.TransferAuthorization)
				if !ok {
					vx.Violatef(t, rec, id, "updated-wrong-type", "Updated is %T", resp.Updated)
					return
				}
				if stored, err = upd.Marshal(); err != nil {
					vx.Harnessf("marshal updated grant: %v", err)
				}
			}
			var now transfertypes.TransferAuthorization
			if err := now.Unmarshal(stored); err != nil {
				vx.Harnessf("unmarshal updated grant: %v", err)
			}
			if got, want := renderImpl(&now), model.render(); got != want {
				sig := "remaining-not-exact"
				if len(now.Allocations) != len(model.allocs) {
					sig = "allocation-not-removed"
				}
				vx.Violatef(t, rec, id, sig, "request %d %+v (amount %s) accepted; stored grant is now %s, model says %s", i, r, amt, got, want)
				return
			}
		}
		if a := model.find(r.Port, r.Channel); a == nil || (!isUnb && a.rem[r.Denom] == nil) {
			exhausted++
		}
	}
	rec.Add("accepted", int64(accepted))
	rec.Add("rejected", int64(rejected))
	rec.Add("limits_exhausted", int64(exhausted))
	rec.Add("sentinel_requests", int64(sentinelUsed))
	if deleted {
		rec.Class("grant-deleted")
	}
	if exhausted > 0 {
		rec.Class("limit-exhausted")
	}
	if sentinelUsed > 0 {
		rec.Class("sentinel-amount")
	}
	rec.Class("allocs-%d", len(c.Allocs))
	if accepted == 0 {
		rec.Class("nothing-accepted")
	}
	rec.NonTrivialIf(accepted > 0 && (exhausted > 0 || sentinelUsed > 0))
}

func TestC36(t *testing.T) {
	vx.Check(t, vx.Prop[c36Case]{
		ID: "C36",
		Rule: "grants of 1-3 allocations (port/channel), 1-3 spend-limit denoms incl. the unbounded sentinel, allow lists of 0-2 receivers, memo lists {empty, *, specific, padded, *+specific}; " +
			"1-12 requests aimed at the model's remaining limit (eq/less/more/half/one), the 2^256-1 sentinel amount, other receivers/memos/channels/ports/denoms; " +
			"non-trivial = at least one acceptance and (a limit exhausted or a sentinel-amount request); distinct by full case",
		MinNTFrac: 0.3,
		Gen:       genC36,
		Run:       runC36,
	})
}
