package rlpfm

// C41: rate-limit flows track exactly the in-window accepted transfers.
//
// Reference window model (written from the property statement, not from the keeper):
//   * a rate-limited path is (chain, bank denom on that chain, channel on that chain);
//   * a window starts when the limit is added, updated, reset by the authority, or reset at an hour
//     epoch whose number is a multiple of the limit's DurationHours; at window start inflow = outflow
//     = 0 and the channel value is frozen to the bank supply of the denom at that moment;
//   * an accepted send adds its amount to outflow, a receive that ends in a successful (or still
//     pending, i.e. forwarded) acknowledgement adds its amount to inflow - unless the packet's
//     (sender, receiver) pair is whitelisted on that chain;
//   * a send that later times out / is error-acknowledged, or a pending receive whose asynchronous
//     acknowledgement turns out to be an error, is subtracted again iff it was counted in the window
//     that is current at that moment (each packet at most once, floor 0);
//   * an accepted transfer satisfies  (flow in its direction - opposite flow + amount)
//         <= floor(channelValue * maxPercent / 100)      [types/quota.go: amount.GT(threshold) rejects]
//     evaluated on the model's flows before the transfer.
// After every step RateLimitKeeper.GetRateLimit is compared with the model for every candidate
// path in both directions (existence, quota, Inflow, Outflow, ChannelValue: exact equality).

import (
	"fmt"
	"sort"
	"strings"
	"testing"
	"time"

	sdkmath "cosmossdk.io/math"

	sdk "github.com/cosmos/cosmos-sdk/types"

	ratelimittypes "github.com/cosmos/ibc-go/v11/modules/apps/rate-limiting/types"
	transfertypes "github.com/cosmos/ibc-go/v11/modules/apps/transfer/types"

	"pgregory.net/rapid"

	"github.com/cosmos/ibc-go/v11/modules/apps/callbacks/verifx/sim"
	"github.com/cosmos/ibc-go/v11/modules/apps/callbacks/verifx/vx"
)

const c41 = "C41"

// Known-finding signatures (see the report): stale pending-packet markers survive
// UpdateRateLimit / RemoveRateLimit, and a zero channel value disables the quota.
const (
	sigStaleSendUpdate = "stale-pending-after-update"
	sigStaleSendRemove = "stale-pending-after-remove-readd"
	sigStaleRecvUpdate = "stale-pending-recv-after-update"
	sigStaleRecvRemove = "stale-pending-recv-after-remove-readd"
	sigZeroCV          = "zero-channel-value-unlimited"
)

// ---- plain-data history -------------------------------------------------------------------

type rlLimit struct {
	Chain int `json:"chain"`
	Lane  int `json:"lane"`
	PS    int `json:"ps"`
	PR    int `json:"pr"`
	Dur   int `json:"dur"`
}

// rlOp kinds: send fsend recv ack timeout epoch block add update remove reset wl bl
type rlOp struct {
	K     string `json:"k"`
	Chain int    `json:"chain,omitempty"` // admin / wl / bl / epoch / block: chain
	Dir   int    `json:"dir,omitempty"`   // send: source chain; wl: source chain of the pair
	Lane  int    `json:"lane,omitempty"`  // send / admin / bl: lane = kind*2 + channel
	From  int    `json:"from,omitempty"`  // sender account (1..2)
	To    int    `json:"to,omitempty"`    // receiver account (1..2)
	Mode  string `json:"mode,omitempty"`  // amount: rem | frac | abs | all
	D     int    `json:"d,omitempty"`     // rem: delta; frac: sixteenths of the balance; abs: amount
	Short bool   `json:"short,omitempty"` // 90 s packet timeout instead of 3 h
	Bad   bool   `json:"bad,omitempty"`   // (final) receiver is not an address -> error acknowledgement
	Pick  int    `json:"pick,omitempty"`  // recv / ack / timeout: index into the eligible packets (fallback)
	ID    int    `json:"id,omitempty"`    // send / fsend: identifier of the transfer (>= 1)
	Ref   int    `json:"ref,omitempty"`   // recv / ack / timeout: ID of the transfer whose packet is meant (0: use Pick)
	Child bool   `json:"child,omitempty"` // with Ref: the packet forwarded by PFM when that packet was received
	PS    int    `json:"ps,omitempty"`
	PR    int    `json:"pr,omitempty"`
	Dur   int    `json:"dur,omitempty"`
	On    bool   `json:"on,omitempty"`
	Hours int    `json:"hours,omitempty"`
}

type rlCase struct {
	Mint   [2][2]int64 `json:"mint"`   // [kind][account-1]: native amount minted to accounts 1 and 2 of the home chain
	Pre    int64       `json:"pre"`    // voucher pre-funding per lane (account 1 of the other chain)
	Epoch0 int         `json:"epoch0"` // hour-epoch number at the start of the history
	NoDust bool        `json:"nodust"` // demonstration cases only: no never-returning dust holder
	Demo   string      `json:"demo,omitempty"`
	Lims   []rlLimit   `json:"lims"`
	Ops    []rlOp      `json:"ops"`
}

// ---- the model --------------------------------------------------------------------------------

type rlKey struct {
	chain int
	denom string
	ch    string
}

type rlPath struct {
	ps, pr      int64
	dur         uint64
	in, out, cv int64
	gen         int
}

type rlTag struct {
	on        bool // counted in window `gen` of path `key`
	key       rlKey
	gen       int
	done      bool // finalized or undone: can never be undone (again)
	cleared   bool // an authority/epoch reset happened on the path since (or the path was absent at undo time)
	sawRemove bool // the path was removed since the packet was counted
}

type rlPkt struct {
	amt              int64
	sender, receiver string
	src, dst         int
	sendKey, recvKey rlKey
	sTag, rTag       rlTag
	received         bool
	resolved         bool // acked or timed out on the source
}

type rlModel struct {
	w      *sim.World
	keys   []rlKey // candidate paths, fixed order
	paths  map[rlKey]*rlPath
	wl     [2]map[string]bool
	epoch  [2]uint64
	genCtr int
	pk     map[int]*rlPkt
	supply map[rlKey]int64 // captured before the current primitive

	staleRefunds int
	accepted     int
	rejected     int
	converseMiss int
	counted      int
	epochResets  int
	undone       int
}

func (m *rlModel) captureSupply() {
	for _, k := range m.keys {
		a := m.w.Supply(k.chain, k.denom).Amount
		if !a.IsInt64() {
			vx.Harnessf("supply of %q on chain %d is %s", k.denom, k.chain, a)
		}
		m.supply[k] = a.Int64()
	}
}

func (m *rlModel) startWindow(k rlKey, p *rlPath) {
	m.genCtr++
	p.gen, p.in, p.out, p.cv = m.genCtr, 0, 0, m.supply[k]
}

// clearTags: an authority/epoch reset forgets every packet counted so far on the path.
func (m *rlModel) markTags(k rlKey, f func(t *rlTag)) {
	for _, p := range m.pk {
		for _, t := range []*rlTag{&p.sTag, &p.rTag} {
			if t.on && !t.done && t.key == k {
				f(t)
			}
		}
	}
}

func (m *rlModel) reset(k rlKey) {
	if p := m.paths[k]; p != nil {
		m.startWindow(k, p)
		m.markTags(k, func(t *rlTag) { t.cleared = true })
	}
}

// syncEpoch applies the hour-epoch resets that the chain's BeginBlockers ran since the last call.
// The epoch counter itself is read from the keeper (the clock is an input, not under test here).
func (m *rlModel) syncEpoch(chain int) {
	ep, err := m.w.App(chain).RateLimitKeeper.GetHourEpoch(m.w.Ctx(chain))
	if err != nil {
		vx.Harnessf("hour epoch: %v", err)
	}
	for x := m.epoch[chain] + 1; x <= ep.EpochNumber; x++ {
		for _, k := range m.keys {
			if p := m.paths[k]; p != nil && k.chain == chain && p.dur > 0 && x%p.dur == 0 {
				m.reset(k)
				m.epochResets++
			}
		}
	}
	m.epoch[chain] = ep.EpochNumber
}

func wlKey(s, r string) string { return s + "|" + r }

// parseTrace splits an ICS-20 denomination path (slash-free base denominations only).
func parseTrace(path string) trace {
	seg := strings.Split(path, "/")
	t := trace{Base: seg[len(seg)-1]}
	for i := 0; i+1 < len(seg)-1; i += 2 {
		t.Hops = append(t.Hops, hop{seg[i], seg[i+1]})
	}
	return t
}

// register derives everything the model needs about a packet from its own data.
func (m *rlModel) register(p *sim.Pkt) *rlPkt {
	if q, ok := m.pk[p.Idx]; ok {
		return q
	}
	var d transfertypes.FungibleTokenPacketData
	if err := transfertypes.ModuleCdc.UnmarshalJSON(p.P1.Data, &d); err != nil {
		vx.Harnessf("packet data: %v", err)
	}
	amt, ok := sdkmath.NewIntFromString(d.Amount)
	if !ok {
		vx.Harnessf("packet amount %q", d.Amount)
	}
	tr := parseTrace(d.Denom)
	src, dst := m.w.SrcChain(p), m.w.DstChain(p)
	q := &rlPkt{amt: amt.Int64(), sender: d.Sender, receiver: d.Receiver, src: src, dst: dst,
		sendKey: rlKey{src, tr.denom(), p.P1.SourceChannel},
		recvKey: rlKey{dst, tr.after(p.P1.SourcePort, p.P1.SourceChannel, p.P1.DestinationPort, p.P1.DestinationChannel).denom(), p.P1.DestinationChannel}}
	m.pk[p.Idx] = q
	return q
}

type rlViolation struct{ sig, msg string }

// count adds an accepted transfer to the window; it returns a violation when the model's quota
// forbids what the implementation accepted.
func (m *rlModel) count(q *rlPkt, send bool) *rlViolation {
	k, t := q.recvKey, &q.rTag
	if send {
		k, t = q.sendKey, &q.sTag
	}
	p := m.paths[k]
	if p == nil || m.wl[k.chain][wlKey(q.sender, q.receiver)] {
		return nil
	}
	m.counted++
	var net, pct int64
	if send {
		net, pct = p.out-p.in+q.amt, p.ps
	} else {
		net, pct = p.in-p.out+q.amt, p.pr
	}
	thr := sdkmath.NewInt(p.cv).Mul(sdkmath.NewInt(pct)).Quo(sdkmath.NewInt(100)).Int64()
	var v *rlViolation
	if net > thr {
		dir := "receive"
		if send {
			dir = "send"
		}
		if p.cv == 0 {
			v = &rlViolation{sigZeroCV, fmt.Sprintf("%s of %d accepted on path %v although the window's channel value is 0 (net flow %d > threshold 0)", dir, q.amt, k, net)}
		} else {
			v = &rlViolation{dir + "-over-quota", fmt.Sprintf("%s of %d accepted on path %v: model net flow %d > floor(%d*%d/100)=%d (in=%d out=%d)", dir, q.amt, k, net, p.cv, pct, thr, p.in, p.out)}
		}
	}
	if send {
		p.out += q.amt
	} else {
		p.in += q.amt
	}
	*t = rlTag{on: true, key: k, gen: p.gen}
	return v
}

// wouldAllow: the model's view of whether a transfer of q would be within the quota.
func (m *rlModel) wouldAllow(q *rlPkt, send bool) bool {
	k := q.recvKey
	if send {
		k = q.sendKey
	}
	p := m.paths[k]
	if p == nil || m.wl[k.chain][wlKey(q.sender, q.receiver)] {
		return true
	}
	var net, pct int64
	if send {
		net, pct = p.out-p.in+q.amt, p.ps
	} else {
		net, pct = p.in-p.out+q.amt, p.pr
	}
	return net <= p.cv*pct/100
}

func (m *rlModel) finalize(t *rlTag) { t.done = true }

// poisoned: the tag belongs to an older window of a path that exists now, and no reset happened in
// between - the situation in which stale pending markers of the implementation are consulted.
func (m *rlModel) poisoned(t *rlTag) bool {
	p := m.paths[t.key]
	return t.on && !t.done && !t.cleared && p != nil && p.gen != t.gen
}

func (m *rlModel) undo(q *rlPkt, send bool) {
	t := &q.rTag
	if send {
		t = &q.sTag
	}
	if !t.on || t.done {
		return
	}
	t.done = true
	m.undone++
	p := m.paths[t.key]
	if p != nil && p.gen == t.gen {
		if send {
			p.out = max(0, p.out-q.amt)
		} else {
			p.in = max(0, p.in-q.amt)
		}
		return
	}
	m.staleRefunds++
}

// ---- the world --------------------------------------------------------------------------------

var rlBase = [2]string{"uaaa", "ubbb"} // not "ufoo": ibctesting pre-funds every genesis account with it

type rlWorld struct {
	w     *sim.World
	links [2]*sim.Link
	m     *rlModel
}

// traceOn: the token of lane on chain c (kind k is native to chain k and travels over channel lane%2).
func (rw *rlWorld) traceOn(c, lane int) trace {
	k := lane / 2
	if c == k {
		return trace{Base: rlBase[k]}
	}
	l := rw.links[lane%2]
	return trace{Hops: []hop{{l.Port(c), l.ID(c)}}, Base: rlBase[k]}
}

func (rw *rlWorld) key(c, lane int) rlKey {
	return rlKey{c, rw.traceOn(c, lane).denom(), rw.links[lane%2].ID(c)}
}

const badReceiver = "this-is-not-a-bech32-address"

func newRLWorld(outer *testing.T, c rlCase) *rlWorld {
	w := sim.NewWorld(outer, 2, nil)
	rw := &rlWorld{w: w}
	rw.links[0] = addTransferLink(w, 0, 1)
	rw.links[1] = addTransferLink(w, 0, 1)
	for k := 0; k < 2; k++ {
		for a := 0; a < 2; a++ {
			mintTo(w, k, w.Addr(k, a+1), rlBase[k], c.Mint[k][a])
		}
		w.Block(k, 1)
	}
	// voucher pre-funding: every lane's token also exists on the other chain (accounts 1 and 2), plus
	// a dust holder (account 3) that never sends, so a voucher supply never returns to zero (this
	// excludes the recorded finding sigZeroCV by construction; NoDust demonstrates it).
	far := now(w).Add(24 * time.Hour).UnixNano()
	for lane := 0; lane < 4; lane++ {
		k := lane / 2
		l := rw.links[lane%2]
		recv := [][2]int64{{1, c.Pre}}
		if !c.NoDust {
			recv = append(recv, [2]int64{2, c.Pre}, [2]int64{3, 5})
		}
		for _, r := range recv {
			p, res := sendTransfer(w, l, k, 1, sdk.NewInt64Coin(rlBase[k], r[1]), w.Addr(1-k, int(r[0])).String(), uint64(far), "")
			if p == nil {
				vx.Harnessf("pre-funding send failed: %v", res.Err)
			}
			if r, _ := relayRecv(w, p); !r.OK || p.Ack1 == nil {
				vx.Harnessf("pre-funding recv failed: %v", r.Err)
			}
			if r, _ := relayAck(w, p); !r.OK {
				vx.Harnessf("pre-funding ack failed: %v", r.Err)
			}
		}
	}
	// ibctesting starts chains with a zero genesis time, which leaves the module's hour epoch
	// uninitialised (BeginBlocker then never starts an epoch): install a proper one.
	for ch := 0; ch < 2; ch++ {
		ep := ratelimittypes.HourEpoch{EpochNumber: uint64(c.Epoch0), Duration: time.Hour, EpochStartTime: now(w).Truncate(time.Hour), EpochStartHeight: w.Height(ch)}
		if err := w.App(ch).RateLimitKeeper.SetHourEpoch(w.Ctx(ch), ep); err != nil {
			vx.Harnessf("SetHourEpoch: %v", err)
		}
		w.Block(ch, 1)
	}
	m := &rlModel{w: w, paths: map[rlKey]*rlPath{}, pk: map[int]*rlPkt{}, supply: map[rlKey]int64{}}
	m.wl[0], m.wl[1] = map[string]bool{}, map[string]bool{}
	for ch := 0; ch < 2; ch++ {
		for lane := 0; lane < 4; lane++ {
			m.keys = append(m.keys, rw.key(ch, lane))
		}
	}
	for ch := 0; ch < 2; ch++ {
		ep, err := w.App(ch).RateLimitKeeper.GetHourEpoch(w.Ctx(ch))
		if err != nil {
			vx.Harnessf("hour epoch: %v", err)
		}
		m.epoch[ch] = ep.EpochNumber
	}
	rw.m = m
	return rw
}

// admin applies one authority operation through the keeper and mirrors it in the model.
func (rw *rlWorld) admin(kind string, chain, lane, ps, pr, dur int) (implErr error) {
	w, m := rw.w, rw.m
	k := rw.key(chain, lane)
	keeper := w.App(chain).RateLimitKeeper
	ctx := w.Ctx(chain)
	m.captureSupply()
	switch kind {
	case "add":
		implErr = keeper.AddRateLimit(ctx, &ratelimittypes.MsgAddRateLimit{Denom: k.denom, ChannelOrClientId: k.ch,
			MaxPercentSend: sdkmath.NewInt(int64(ps)), MaxPercentRecv: sdkmath.NewInt(int64(pr)), DurationHours: uint64(dur)})
		if m.paths[k] == nil && m.supply[k] > 0 {
			p := &rlPath{ps: int64(ps), pr: int64(pr), dur: uint64(dur)}
			m.paths[k] = p
			m.startWindow(k, p)
		}
	case "update":
		implErr = keeper.UpdateRateLimit(ctx, &ratelimittypes.MsgUpdateRateLimit{Denom: k.denom, ChannelOrClientId: k.ch,
			MaxPercentSend: sdkmath.NewInt(int64(ps)), MaxPercentRecv: sdkmath.NewInt(int64(pr)), DurationHours: uint64(dur)})
		if p := m.paths[k]; p != nil {
			p.ps, p.pr, p.dur = int64(ps), int64(pr), uint64(dur)
			m.startWindow(k, p)
		}
	case "remove":
		keeper.RemoveRateLimit(ctx, k.denom, k.ch)
		if m.paths[k] != nil {
			delete(m.paths, k)
			m.markTags(k, func(t *rlTag) { t.sawRemove = true })
		}
	case "reset":
		implErr = keeper.ResetRateLimit(ctx, k.denom, k.ch)
		m.reset(k)
	}
	w.Block(chain, 1)
	m.syncEpoch(chain)
	return implErr
}

func istr(v int64) string { return fmt.Sprint(v) }

// compare checks the keeper's rate limits against the model for every candidate path.
func (rw *rlWorld) compare(t rapid.TB, rec *vx.Case, step int, what, hint string) bool {
	w, m := rw.w, rw.m
	for _, k := range m.keys {
		rl, found := w.App(k.chain).RateLimitKeeper.GetRateLimit(w.Ctx(k.chain), k.denom, k.ch)
		p := m.paths[k]
		sig, msg := "", ""
		switch {
		case found != (p != nil):
			sig, msg = "existence-mismatch", fmt.Sprintf("limit found=%v, model exists=%v", found, p != nil)
		case !found:
		case rl.Quota.MaxPercentSend.String() != istr(p.ps) || rl.Quota.MaxPercentRecv.String() != istr(p.pr) || rl.Quota.DurationHours != p.dur:
			sig, msg = "quota-mismatch", fmt.Sprintf("quota %v, model send=%d recv=%d dur=%d", rl.Quota, p.ps, p.pr, p.dur)
		case rl.Flow.ChannelValue.String() != istr(p.cv):
			sig, msg = "channel-value-mismatch", fmt.Sprintf("channel value %s, model %d", rl.Flow.ChannelValue, p.cv)
		case rl.Flow.Outflow.String() != istr(p.out):
			sig, msg = "outflow-mismatch", fmt.Sprintf("outflow %s, model %d (inflow %s / %d)", rl.Flow.Outflow, p.out, rl.Flow.Inflow, p.in)
		case rl.Flow.Inflow.String() != istr(p.in):
			sig, msg = "inflow-mismatch", fmt.Sprintf("inflow %s, model %d (outflow %s / %d)", rl.Flow.Inflow, p.in, rl.Flow.Outflow, p.out)
		}
		if sig != "" {
			if hint != "" {
				sig = hint
			}
			return vx.Violatef(t, rec, c41, sig, "step %d (%s): path chain=%d denom=%s channel=%s: %s", step, what, k.chain, k.denom, k.ch, msg)
		}
	}
	for ch := 0; ch < 2; ch++ {
		n := 0
		for k := range m.paths {
			if k.chain == ch {
				n++
			}
		}
		if all := w.App(ch).RateLimitKeeper.GetAllRateLimits(w.Ctx(ch)); len(all) != n {
			return vx.Violatef(t, rec, c41, "existence-mismatch", "step %d (%s): chain %d stores %d rate limits, model %d", step, what, ch, len(all), n)
		}
	}
	return false
}

func (rw *rlWorld) eligible(f func(p *sim.Pkt, q *rlPkt) bool) []*sim.Pkt {
	var out []*sim.Pkt
	for _, p := range rw.w.Pkts {
		if q, ok := rw.m.pk[p.Idx]; ok && f(p, q) {
			out = append(out, p)
		}
	}
	return out
}

// staleSig returns the known-finding signature that relaying a failure for packet q (source
// side) or writing an error ack for q (destination side) would hit, "" if none.
func (m *rlModel) staleSig(q *rlPkt, send bool) string {
	t := &q.rTag
	if send {
		t = &q.sTag
	}
	if !m.poisoned(t) {
		return ""
	}
	switch {
	case send && t.sawRemove:
		return sigStaleSendRemove
	case send:
		return sigStaleSendUpdate
	case t.sawRemove:
		return sigStaleRecvRemove
	default:
		return sigStaleRecvUpdate
	}
}

// upstream returns the packet whose asynchronous acknowledgement the resolution of p decides (the
// packet that was received and forwarded as p), nil if p is not a forward.
func (rw *rlWorld) upstream(fw map[int]int, p *sim.Pkt) *sim.Pkt {
	if i, ok := fw[p.Idx]; ok {
		return rw.w.Pkts[i]
	}
	return nil
}

func runC41(outer *testing.T) func(t rapid.TB, c rlCase, rec *vx.Case) {
	return func(t rapid.TB, c rlCase, rec *vx.Case) {
		rw := newRLWorld(outer, c)
		w, m := rw.w, rw.m
		for _, l := range c.Lims {
			if err := rw.admin("add", l.Chain, l.Lane, l.PS, l.PR, l.Dur); err != nil {
				vx.Harnessf("initial AddRateLimit: %v", err)
			}
		}
		if rw.compare(t, rec, -1, "setup", "") {
			return
		}
		fw := map[int]int{} // forwarded packet idx -> upstream packet idx
		child := map[int]*sim.Pkt{}
		sendPk := map[int]*sim.Pkt{} // transfer ID -> its packet (absent when the send was rejected)
		choose := func(op rlOp, el []*sim.Pkt) *sim.Pkt {
			if target := sendPk[op.Ref]; op.Ref > 0 && target != nil {
				if op.Child {
					target = child[target.Idx]
				}
				for _, e := range el {
					if e == target {
						return e
					}
				}
			}
			return el[op.Pick%len(el)]
		}
		kinds := map[string]bool{}
		excluded := 0

		// after: common post-processing of a relay primitive executed for packet p.
		// ackedBefore: which registered packets had an ack noted before the primitive.
		noteAcked := func() map[int]bool {
			s := map[int]bool{}
			for _, p := range w.Pkts {
				if p.Ack1 != nil {
					s[p.Idx] = true
				}
			}
			return s
		}
		// asyncAcks: packets (other than `self`) whose ack was written by the primitive.
		asyncAcks := func(before map[int]bool, self *sim.Pkt) []*sim.Pkt {
			var out []*sim.Pkt
			for _, p := range w.Pkts {
				if p.Ack1 != nil && !before[p.Idx] && p != self {
					out = append(out, p)
				}
			}
			return out
		}
		applyAsync := func(ps []*sim.Pkt) {
			for _, u := range ps {
				uq := m.register(u)
				if ok, dec := ackSuccess(u.Ack1); dec && ok {
					m.finalize(&uq.rTag)
				} else {
					m.undo(uq, false)
				}
			}
		}

		for i, op := range c.Ops {
			w.StepNo = i
			hint := ""
			var viol *rlViolation
			m.captureSupply()
			switch op.K {
			case "send", "fsend":
				src, dst := op.Dir, 1-op.Dir
				l := rw.links[op.Lane%2]
				tr := rw.traceOn(src, op.Lane)
				bal := w.Balance(src, w.Addr(src, op.From), tr.denom()).Amount.Int64()
				if bal <= 0 {
					rec.Class("noop-no-balance")
					continue
				}
				// amount placed relative to the model's remaining quota
				probe := &rlPkt{sender: w.Addr(src, op.From).String(), sendKey: rw.key(src, op.Lane), recvKey: rw.key(dst, op.Lane)}
				amt := int64(0)
				switch op.Mode {
				case "rem":
					if p := m.paths[probe.sendKey]; p != nil {
						amt = p.cv*p.ps/100 - (p.out - p.in) + int64(op.D)
					} else if p := m.paths[probe.recvKey]; p != nil {
						amt = p.cv*p.pr/100 - (p.in - p.out) + int64(op.D)
					} else {
						amt = bal * 3 / 16
					}
				case "remfrac": // a fraction of the remaining quota: accepted by the model
					if p := m.paths[probe.sendKey]; p != nil {
						amt = (p.cv*p.ps/100 - (p.out - p.in)) * int64(op.D) / 8
					} else if p := m.paths[probe.recvKey]; p != nil {
						amt = (p.cv*p.pr/100 - (p.in - p.out)) * int64(op.D) / 8
					} else {
						amt = bal * int64(op.D) / 64
					}
				case "frac":
					amt = bal * int64(op.D) / 16
				case "all":
					amt = bal
				default:
					amt = int64(op.D)
				}
				amt = min(max(amt, 1), bal)
				receiver := w.Addr(dst, op.To).String()
				memo := ""
				if op.K == "fsend" {
					// forward back to the source chain over the other channel
					final := w.Addr(src, op.To).String()
					if op.Bad {
						final = badReceiver
					}
					l2 := rw.links[1-op.Lane%2]
					memo = fmt.Sprintf(`{"forward":{"receiver":%q,"port":%q,"channel":%q}}`, final, l2.Port(dst), l2.ID(dst))
				} else if op.Bad {
					receiver = badReceiver
				}
				to := now(w).Add(3 * time.Hour)
				if op.Short {
					to = now(w).Add(90 * time.Second)
				}
				probe.receiver, probe.amt = receiver, amt
				allowed := m.wouldAllow(probe, true)
				p, res := sendTransfer(w, l, src, op.From, sdk.NewCoin(tr.denom(), sdkmath.NewInt(amt)), receiver, uint64(to.UnixNano()), memo)
				m.syncEpoch(src)
				if p != nil && op.ID > 0 {
					sendPk[op.ID] = p
				}
				if p == nil {
					m.rejected++
					rec.Class("send-rejected")
					if allowed {
						m.converseMiss++
					}
					_ = res
					break
				}
				m.accepted++
				kinds[op.K] = true
				rec.Class(op.K + "-accepted")
				viol = m.count(m.register(p), true)
			case "recv":
				el := rw.eligible(func(p *sim.Pkt, q *rlPkt) bool { return !q.received && !q.resolved })
				if len(el) == 0 {
					rec.Class("noop-nothing-to-recv")
					continue
				}
				p := choose(op, el)
				q := m.register(p)
				allowed := m.wouldAllow(q, false)
				before := noteAcked()
				res, sent := relayRecv(w, p)
				m.syncEpoch(0)
				m.syncEpoch(1)
				if !res.OK {
					rec.Class("recv-tx-failed") // e.g. the packet has expired
					dbg("step %d recv tx failed: %v %s", i, res.Err, logOf(res))
					break
				}
				q.received = true
				switch {
				case p.Ack1 == nil: // forwarded: asynchronous acknowledgement
					rec.Class("recv-async")
					kinds["recv-async"] = true
					viol = m.count(q, false)
					for _, f := range sent {
						fw[f.Idx] = p.Idx
						child[p.Idx] = f
						if v := m.count(m.register(f), true); v != nil && viol == nil {
							viol = v
						}
					}
				default:
					ok, dec := ackSuccess(p.Ack1)
					if !dec {
						vx.Harnessf("undecodable ack %q", p.Ack1)
					}
					if ok {
						rec.Class("recv-ok")
						kinds["recv-ok"] = true
						viol = m.count(q, false)
						m.finalize(&q.rTag)
					} else {
						rec.Class("recv-error-ack")
						kinds["recv-err"] = true
						if allowed {
							m.converseMiss++ // includes non-quota reasons (bad receiver, blacklist)
						}
					}
				}
				_ = before
			case "ack", "timeout":
				var el []*sim.Pkt
				if op.K == "ack" {
					el = rw.eligible(func(p *sim.Pkt, q *rlPkt) bool { return q.received && !q.resolved && p.Ack1 != nil })
				} else {
					el = rw.eligible(func(p *sim.Pkt, q *rlPkt) bool { return !q.received && !q.resolved })
				}
				if len(el) == 0 {
					rec.Class("noop-nothing-to-" + op.K)
					continue
				}
				p := choose(op, el)
				q := m.register(p)
				fails := op.K == "timeout"
				if op.K == "ack" {
					ok, _ := ackSuccess(p.Ack1)
					fails = !ok
				}
				if fails {
					// which known-finding signature (if any) this refund would run into
					hint = m.staleSig(q, true)
					if up := rw.upstream(fw, p); up != nil && hint == "" {
						hint = m.staleSig(m.register(up), false)
					}
					if hint != "" && c.Demo == "" && vx.IsKnown(c41, hint) {
						excluded++
						rec.Class("excluded-known-" + hint)
						continue
					}
				}
				before := noteAcked()
				var res sim.TxResult
				if op.K == "ack" {
					res, _ = relayAck(w, p)
				} else {
					res, _ = relayTimeout(w, p)
				}
				m.syncEpoch(0)
				m.syncEpoch(1)
				if !res.OK {
					rec.Class(op.K + "-tx-failed")
					dbg("step %d %s tx failed: %v %s", i, op.K, res.Err, logOf(res))
					break
				}
				q.resolved = true
				if fails {
					rec.Class(op.K + "-refund")
					kinds["refund"] = true
					m.undo(q, true)
				} else {
					rec.Class("ack-success")
					m.finalize(&q.sTag)
				}
				applyAsync(asyncAcks(before, p))
			case "epoch":
				w.AdvanceTime(time.Duration(op.Hours) * time.Hour)
				for _, ch := range []int{0, 1} {
					if op.Chain == ch || op.Chain == 2 {
						for b := 0; b < max(op.D, 1); b++ {
							w.Block(ch, 1)
							m.syncEpoch(ch)
						}
					}
				}
				kinds["epoch"] = true
			case "block":
				w.Block(op.Chain, 1)
				m.syncEpoch(op.Chain)
			case "add", "update", "remove", "reset":
				had := m.paths[rw.key(op.Chain, op.Lane)] != nil
				err := rw.admin(op.K, op.Chain, op.Lane, op.PS, op.PR, op.Dur)
				rec.Class("admin-%s-had=%v-err=%v", op.K, had, err != nil)
				kinds["admin"] = true
			case "wl":
				src := op.Dir
				pair := ratelimittypes.WhitelistedAddressPair{Sender: w.Addr(src, op.From).String(), Receiver: w.Addr(1-src, op.To).String()}
				k := w.App(op.Chain).RateLimitKeeper
				if op.On {
					k.SetWhitelistedAddressPair(w.Ctx(op.Chain), pair)
					m.wl[op.Chain][wlKey(pair.Sender, pair.Receiver)] = true
				} else {
					k.RemoveWhitelistedAddressPair(w.Ctx(op.Chain), pair.Sender, pair.Receiver)
					delete(m.wl[op.Chain], wlKey(pair.Sender, pair.Receiver))
				}
				w.Block(op.Chain, 1)
				m.syncEpoch(op.Chain)
				kinds["wl"] = true
			case "bl":
				k := w.App(op.Chain).RateLimitKeeper
				d := rw.traceOn(op.Chain, op.Lane).denom()
				if op.On {
					k.AddDenomToBlacklist(w.Ctx(op.Chain), d)
				} else {
					k.RemoveDenomFromBlacklist(w.Ctx(op.Chain), d)
				}
				w.Block(op.Chain, 1)
				m.syncEpoch(op.Chain)
				kinds["bl"] = true
			default:
				vx.Harnessf("unknown op %q", op.K)
			}
			if viol != nil {
				if vx.Violatef(t, rec, c41, viol.sig, "step %d (%+v): %s", i, op, viol.msg) {
					return
				}
			}
			if rw.compare(t, rec, i, fmt.Sprintf("%+v", op), hint) {
				return
			}
		}
		rec.Add("sends_accepted", int64(m.accepted))
		rec.Add("sends_rejected", int64(m.rejected))
		rec.Add("transfers_counted_in_a_window", int64(m.counted))
		rec.Add("model_allows_impl_rejects", int64(m.converseMiss))
		rec.Add("refunds_in_window", int64(m.undone-m.staleRefunds))
		rec.Add("refunds_of_older_window", int64(m.staleRefunds))
		rec.Add("epoch_resets", int64(m.epochResets))
		rec.Add("excluded_known", int64(excluded))
		rec.Add("packets", int64(len(w.Pkts)))
		if m.staleRefunds > 0 {
			rec.Class("refund-after-window-end")
		}
		var ks []string
		for k := range kinds {
			ks = append(ks, k)
		}
		sort.Strings(ks)
		rec.Class("kinds=%d", len(ks))
		rec.NonTrivialIf(m.staleRefunds > 0 && m.counted >= 2)
	}
}

// ---- generator --------------------------------------------------------------------------------

func genPct(t *rapid.T, label string) int {
	if rapid.IntRange(0, 3).Draw(t, label+"-big") == 0 {
		return rapid.IntRange(1, 100).Draw(t, label)
	}
	return rapid.IntRange(1, 30).Draw(t, label)
}

func genC41(t *rapid.T) rlCase {
	c := rlCase{Pre: rapid.SampledFrom([]int64{3001, 2500, 4099}).Draw(t, "pre"), Epoch0: rapid.IntRange(0, 5).Draw(t, "epoch0")}
	for k := 0; k < 2; k++ {
		for a := 0; a < 2; a++ {
			c.Mint[k][a] = rapid.SampledFrom([]int64{20000, 19973, 31337, 25001}).Draw(t, "mint")
		}
	}
	nl := rapid.IntRange(1, 2).Draw(t, "nlims")
	type cl struct{ chain, lane int }
	var hot []cl
	for i := 0; i < nl; i++ {
		h := cl{rapid.IntRange(0, 1).Draw(t, "lchain"), rapid.IntRange(0, 3).Draw(t, "llane")}
		dup := false
		for _, o := range hot {
			dup = dup || o == h
		}
		if dup {
			continue
		}
		hot = append(hot, h)
		c.Lims = append(c.Lims, rlLimit{Chain: h.chain, Lane: h.lane, PS: genPct(t, "ps"), PR: genPct(t, "pr"), Dur: rapid.IntRange(1, 3).Draw(t, "dur")})
	}
	pickHot := func() cl {
		if rapid.IntRange(0, 9).Draw(t, "hotp") < 8 {
			return hot[rapid.IntRange(0, len(hot)-1).Draw(t, "hoti")]
		}
		return cl{rapid.IntRange(0, 1).Draw(t, "chain"), rapid.IntRange(0, 3).Draw(t, "lane")}
	}
	// transfers with their planned life cycles (each a sequence of ops that must stay in order)
	var seqs [][]rlOp
	nextID := 0
	// transfer draws one transfer; h/out/fate fix the path, direction and fate when non-zero
	transfer := func(fixed *cl, fwd int, fate string, small bool) []rlOp {
		nextID++
		id := nextID
		op := rlOp{K: "send", ID: id}
		if fwd == 1 || (fwd == 0 && rapid.IntRange(0, 4).Draw(t, "fwd") == 0) {
			op.K = "fsend"
		}
		var h cl
		if fixed != nil {
			h = *fixed
			op.Dir = h.chain
			if op.K == "fsend" {
				op.Dir = 1 - h.chain // a forward is received (asynchronously) on the limited chain
			}
		} else {
			h = pickHot()
			op.Dir = h.chain // out of the limited chain ...
			into := 1
			if op.K == "fsend" {
				into = 2 // a forward's asynchronous receive is the interesting side
			}
			if rapid.IntRange(0, 3).Draw(t, "into") < into {
				op.Dir = 1 - h.chain // ... or into it
			}
		}
		op.Lane = h.lane
		op.From = rapid.IntRange(1, 2).Draw(t, "from")
		op.To = rapid.IntRange(1, 2).Draw(t, "to")
		if small {
			op.Mode, op.D = "remfrac", rapid.IntRange(1, 3).Draw(t, "eighths")
		} else {
			op.Mode = rapid.SampledFrom([]string{"remfrac", "remfrac", "remfrac", "rem", "rem", "frac", "abs"}).Draw(t, "mode")
			switch op.Mode {
			case "remfrac":
				op.D = rapid.IntRange(1, 8).Draw(t, "eighths")
			case "rem":
				op.D = rapid.IntRange(-2, 2).Draw(t, "delta")
			case "frac":
				op.D = rapid.IntRange(1, 6).Draw(t, "num")
			default:
				op.D = rapid.IntRange(1, 60).Draw(t, "abs")
			}
		}
		seq := []rlOp{op}
		ref := func(k string, child bool) rlOp {
			return rlOp{K: k, Ref: id, Child: child, Pick: rapid.IntRange(0, 7).Draw(t, "pick")}
		}
		if op.K == "send" {
			if fate == "" {
				fate = rapid.SampledFrom([]string{"timeout", "timeout", "errack", "errack", "ok", "ok", "recvonly", "none"}).Draw(t, "fate")
			}
			switch fate {
			case "timeout":
				seq[0].Short = true
				seq = append(seq, ref("timeout", false))
			case "errack":
				seq[0].Bad = true
				seq = append(seq, ref("recv", false), ref("ack", false))
			case "ok":
				seq = append(seq, ref("recv", false), ref("ack", false))
			case "recvonly":
				seq = append(seq, ref("recv", false))
			}
		} else {
			if fate == "" {
				fate = rapid.SampledFrom([]string{"badfinal", "badfinal", "childtimeout", "ok", "timeout", "recvonly"}).Draw(t, "ffate")
			}
			switch fate {
			case "badfinal":
				seq[0].Bad = true
				seq = append(seq, ref("recv", false), ref("recv", true), ref("ack", true), ref("ack", false))
			case "ok":
				seq = append(seq, ref("recv", false), ref("recv", true), ref("ack", true), ref("ack", false))
			case "childtimeout":
				seq = append(seq, ref("recv", false), ref("timeout", true), ref("ack", false))
			case "timeout":
				seq[0].Short = true
				seq = append(seq, ref("timeout", false))
			case "recvonly":
				seq = append(seq, ref("recv", false))
			}
		}
		return seq
	}
	windowEnd := func(h cl) []rlOp {
		ps, pr, dur := genPct(t, "ps"), genPct(t, "pr"), rapid.IntRange(1, 3).Draw(t, "dur")
		switch rapid.SampledFrom([]string{"update", "update", "readd", "reset", "epoch"}).Draw(t, "end") {
		case "update":
			return []rlOp{{K: "update", Chain: h.chain, Lane: h.lane, PS: max(ps, 20), PR: max(pr, 20), Dur: dur}}
		case "readd":
			return []rlOp{{K: "remove", Chain: h.chain, Lane: h.lane}, {K: "add", Chain: h.chain, Lane: h.lane, PS: max(ps, 20), PR: max(pr, 20), Dur: dur}}
		case "reset":
			return []rlOp{{K: "reset", Chain: h.chain, Lane: h.lane}}
		default:
			return []rlOp{{K: "epoch", Chain: 2, Hours: rapid.IntRange(1, 3).Draw(t, "hours"), D: rapid.IntRange(1, 3).Draw(t, "blocks")}}
		}
	}
	nt := rapid.IntRange(1, 6).Draw(t, "ntransfers")
	for i := 0; i < nt; i++ {
		seqs = append(seqs, transfer(nil, 0, "", false))
	}
	// motifs: a transfer counted on a limited path, the end of that window, a second counted
	// transfer in the next window, then the refund (send side) or the failing asynchronous
	// acknowledgement (receive side) of the first one
	for i, n := 0, rapid.IntRange(0, 2).Draw(t, "nmotifs"); i < n; i++ {
		h := hot[rapid.IntRange(0, len(hot)-1).Draw(t, "mhot")]
		var t1, t2 []rlOp
		if rapid.IntRange(0, 3).Draw(t, "mrecv") == 0 {
			t1 = transfer(&h, 1, rapid.SampledFrom([]string{"badfinal", "childtimeout"}).Draw(t, "mfate"), true)
			// second transfer: a plain transfer into the limited chain on the same lane
			t2 = transfer(&cl{1 - h.chain, h.lane}, -1, "", true)
			t2[0].Dir = 1 - h.chain
			seq := []rlOp{t1[0], t1[1]} // send, recv (counted on h), then usually the window ends
			if rapid.IntRange(0, 2).Draw(t, "mend") > 0 {
				seq = append(seq, windowEnd(h)...)
			}
			seq = append(seq, t2[0])
			if len(t2) > 1 {
				seq = append(seq, t2[1]) // its receive is what the new window counts
			}
			seq = append(seq, t1[2:]...)
			if len(t2) > 2 {
				seq = append(seq, t2[2:]...)
			}
			seqs = append(seqs, seq)
			continue
		}
		t1 = transfer(&h, -1, rapid.SampledFrom([]string{"timeout", "errack"}).Draw(t, "mfate"), true)
		t2 = transfer(&h, -1, "", true)
		seq := append([]rlOp{t1[0]}, windowEnd(h)...)
		seq = append(seq, t2[0])
		seq = append(seq, t1[1:]...)
		seq = append(seq, t2[1:]...)
		seqs = append(seqs, seq)
	}
	// administration, epochs and free relay ops: singletons
	na := rapid.IntRange(1, 8).Draw(t, "nadmin")
	kinds := []string{"epoch", "epoch", "update", "update", "update", "remove", "add", "add", "reset", "reset", "wl", "bl", "block", "recv", "ack", "timeout"}
	for i := 0; i < na; i++ {
		op := rlOp{K: rapid.SampledFrom(kinds).Draw(t, "kind")}
		switch op.K {
		case "recv", "ack", "timeout":
			op.Pick = rapid.IntRange(0, 7).Draw(t, "pick")
		case "epoch":
			op.Hours = rapid.IntRange(1, 3).Draw(t, "hours")
			op.Chain = rapid.IntRange(0, 2).Draw(t, "echain")
			op.D = rapid.IntRange(1, 3).Draw(t, "blocks")
		case "block":
			op.Chain = rapid.IntRange(0, 1).Draw(t, "chain")
		case "add", "update", "remove", "reset":
			h := pickHot()
			op.Chain, op.Lane = h.chain, h.lane
			op.PS, op.PR, op.Dur = genPct(t, "ps"), genPct(t, "pr"), rapid.IntRange(1, 3).Draw(t, "dur")
		case "wl":
			h := pickHot()
			op.Chain = h.chain
			op.Dir = rapid.IntRange(0, 1).Draw(t, "dir")
			op.From = rapid.IntRange(1, 2).Draw(t, "from")
			op.To = rapid.IntRange(1, 2).Draw(t, "to")
			op.On = rapid.IntRange(0, 2).Draw(t, "on") > 0
		case "bl":
			h := pickHot()
			op.Chain, op.Lane = h.chain, h.lane
			op.On = rapid.IntRange(0, 1).Draw(t, "on") > 0
		}
		seqs = append(seqs, []rlOp{op})
		if op.K == "remove" && rapid.Bool().Draw(t, "readd") {
			seqs[len(seqs)-1] = append(seqs[len(seqs)-1], rlOp{K: "add", Chain: op.Chain, Lane: op.Lane, PS: genPct(t, "ps"), PR: genPct(t, "pr"), Dur: rapid.IntRange(1, 3).Draw(t, "dur")})
		}
	}
	// random order-preserving merge
	for {
		var live []int
		for i, s := range seqs {
			if len(s) > 0 {
				live = append(live, i)
			}
		}
		if len(live) == 0 {
			break
		}
		i := live[rapid.IntRange(0, len(live)-1).Draw(t, "merge")]
		c.Ops = append(c.Ops, seqs[i][0])
		seqs[i] = seqs[i][1:]
	}
	return c
}

func TestC41(t *testing.T) {
	vx.Check(t, vx.Prop[rlCase]{
		ID: c41,
		Rule: "2 chains, 2 ICS-20 v1 channels, tokens ufoo (native to chain 0) and ubar (native to chain 1) on 4 lanes; 1-2 rate limits (quota 1-100 %, 1-3 h) on (chain, lane) paths; " +
			"1-6 transfers with planned life cycles (timeout / error ack / success / left pending; PFM round-trip forwards with asynchronous acks) sized around the model's remaining quota, 0-2 window-end motifs (counted transfer, update / remove+add / reset / epoch, second counted transfer, refund of the first), merged in random order with 1-8 hour-epoch jumps, add/update/remove/reset by the authority, whitelist and blacklist toggles and free relay ops; " +
			"non-trivial = a packet counted in one window was refunded (timeout / error ack) after that window ended by an epoch or authority reset, update or removal, with >= 2 transfers counted; distinct by full history",
		MinNTFrac: 0.12,
		Assumptions: []string{
			"hour-epoch counter (GetHourEpoch) is an input of the model; the window model decides which limits reset at which epoch numbers (multiples of DurationHours)",
			"channel value = bank supply of the path's denom at window start (ibc-go's definition); bank is trusted",
			"whitelisted (sender, receiver) pairs are exempt from accounting; blacklisting only causes rejections (never violations)",
		},
		Gen: genC41,
		Run: runC41(t),
	})
}

// ---- deterministic demonstrations of the recorded findings ---------------------------------

func demoC41(name string) rlCase {
	c := rlCase{Pre: 3000, Demo: name}
	c.Mint = [2][2]int64{{20000, 20000}, {20000, 20000}}
	send := func(dir, lane int, amt int, short bool) rlOp {
		return rlOp{K: "send", Dir: dir, Lane: lane, From: 1, To: 1, Mode: "abs", D: amt, Short: short}
	}
	switch name {
	case sigStaleSendUpdate:
		c.Lims = []rlLimit{{Chain: 0, Lane: 0, PS: 50, PR: 50, Dur: 1}}
		c.Ops = []rlOp{send(0, 0, 100, true), {K: "update", Chain: 0, Lane: 0, PS: 40, PR: 40, Dur: 1}, send(0, 0, 150, false), {K: "timeout", Pick: 0}}
	case sigStaleSendRemove:
		c.Lims = []rlLimit{{Chain: 0, Lane: 0, PS: 50, PR: 50, Dur: 1}}
		c.Ops = []rlOp{send(0, 0, 100, true), {K: "remove", Chain: 0, Lane: 0}, {K: "add", Chain: 0, Lane: 0, PS: 40, PR: 40, Dur: 1}, send(0, 0, 150, false), {K: "timeout", Pick: 0}}
	case sigStaleRecvUpdate:
		// chain 1 limits the voucher of ufoo on channel 0; a forward 0 -> 1 -> 0 whose last hop fails
		c.Lims = []rlLimit{{Chain: 1, Lane: 0, PS: 90, PR: 90, Dur: 1}}
		c.Ops = []rlOp{{K: "fsend", Dir: 0, Lane: 0, From: 1, To: 1, Mode: "abs", D: 100, Bad: true}, {K: "recv", Pick: 0},
			{K: "update", Chain: 1, Lane: 0, PS: 80, PR: 80, Dur: 1}, send(0, 0, 150, false), {K: "recv", Pick: 1},
			{K: "recv", Pick: 0}, {K: "ack", Pick: 0}}
	case sigZeroCV:
		// chain 0 limits the voucher of ubar (lane 2); all of it leaves through a whitelisted pair,
		// the authority resets the limit (channel value 0), then any amount may come in.
		c.NoDust = true
		c.Lims = []rlLimit{{Chain: 0, Lane: 2, PS: 10, PR: 10, Dur: 1}}
		c.Ops = []rlOp{{K: "wl", Chain: 0, Dir: 0, From: 1, To: 1, On: true}, {K: "send", Dir: 0, Lane: 2, From: 1, To: 1, Mode: "all"}, {K: "recv"}, {K: "ack"},
			{K: "reset", Chain: 0, Lane: 2}, {K: "wl", Chain: 0, Dir: 0, From: 1, To: 1, On: false}, send(1, 2, 2000, false), {K: "recv"}}
	}
	return c
}

var c41Demos = []string{sigStaleSendUpdate, sigStaleSendRemove, sigStaleRecvUpdate, sigZeroCV}

type rlDemoSet struct {
	Demos []string `json:"demos"`
}

func TestC41Known(t *testing.T) {
	run := runC41(t)
	vx.Check(t, vx.Prop[rlDemoSet]{
		ID:        c41,
		Rule:      "deterministic re-demonstrations of the recorded C41 findings: one fixed history per signature, all of them in every case",
		MinNTFrac: 0,
		Gen: func(t *rapid.T) rlDemoSet {
			return rlDemoSet{Demos: rapid.Just(c41Demos).Draw(t, "demos")}
		},
		Run: func(t rapid.TB, c rlDemoSet, rec *vx.Case) {
			for _, d := range c.Demos {
				rec.Class("demo-" + d)
				run(t, demoC41(d), rec)
			}
		},
	})
}
