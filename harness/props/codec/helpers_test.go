package codec

import (
	"encoding/binary"
	"fmt"
	"os"
	"path/filepath"
	"runtime"
	"sort"
	"strconv"
	"strings"
	"testing"

	"pgregory.net/rapid"

	"github.com/cosmos/ibc-go/v11/modules/apps/callbacks/verifx/vx"
)

// finding is one oracle verdict of a byte-level / value-level oracle that is shared by a
// rapid test and a native fuzz target.
type finding struct {
	Sig string
	Msg string
}

type findings []finding

func (f *findings) addf(sig, format string, args ...any) {
	*f = append(*f, finding{Sig: sig, Msg: fmt.Sprintf(format, args...)})
}

// report sends the findings of one case through vx.Violatef (known signatures are counted
// and skipped, anything else fails the test).
func (f findings) report(t rapid.TB, rec *vx.Case, id string) {
	for _, x := range f {
		vx.Violatef(t, rec, id, x.Sig, "%s", x.Msg)
	}
}

// failFuzz is the native-fuzz counterpart of report.
func (f findings) failFuzz(t *testing.T, id string) {
	for _, x := range f {
		if vx.IsKnown(id, x.Sig) {
			continue
		}
		t.Fatalf("VIOLATION property=%s sig=%q: %s", id, x.Sig, x.Msg)
	}
}

// panicSite turns the text produced by vx.Recover ("<panic value>\n<stack from panic()>")
// into a short structural label "<kind>@<function>": the kind of the panic and the
// innermost ibc-go function on the stack (or, when the panic is raised below a library
// call made from test code, the innermost non-runtime frame). It deliberately drops the
// message and all argument values, so one defect has one label whatever the input and
// whichever entry point reached it.
func panicSite(msg string) string {
	first, rest, _ := strings.Cut(msg, "\n")
	kind := "explicit"
	switch {
	case strings.Contains(first, "nil pointer dereference"), strings.Contains(first, "nil map"):
		kind = "nil-deref"
	case strings.Contains(first, "index out of range"):
		kind = "index"
	case strings.Contains(first, "slice bounds out of range"):
		kind = "slice-bounds"
	case strings.Contains(first, "divide by zero"):
		kind = "div0"
	case strings.Contains(first, "interface conversion"):
		kind = "type-assert"
	case strings.Contains(first, "makeslice"), strings.Contains(first, "out of memory"):
		kind = "alloc"
	case strings.Contains(first, "reflect"):
		kind = "reflect"
	}
	var firstAny, firstIBC string
	for _, ln := range strings.Split(rest, "\n") {
		if strings.HasPrefix(ln, "\t") || ln == "" {
			continue
		}
		i := strings.LastIndex(ln, "(")
		if i <= 0 {
			continue
		}
		fn := ln[:i]
		if fn == "panic" || strings.HasPrefix(fn, "runtime.") || strings.HasPrefix(fn, "runtime/") || strings.HasPrefix(fn, "created by") {
			continue
		}
		if strings.Contains(fn, "/verifx/") {
			break // test code: nothing below is code under test
		}
		if firstAny == "" {
			firstAny = fn
		}
		if strings.HasPrefix(fn, "github.com/cosmos/ibc-go/") {
			firstIBC = fn
			break
		}
	}
	site := firstIBC
	if site == "" {
		site = firstAny
	}
	if site == "" {
		site = "unknown"
	}
	site = strings.TrimPrefix(site, "github.com/cosmos/ibc-go/v11/")
	site = strings.TrimPrefix(site, "modules/")
	return kind + "@" + site
}

// noPanic runs f and appends a finding "panic:<kind>@<site>" if it panics (what = entry point, for the message).
func noPanic(out *findings, what string, input func() string, f func()) (ok bool) {
	panicked, msg := vx.Recover(f)
	if !panicked {
		return true
	}
	out.addf("panic:"+panicSite(msg), "%s panicked on input %s: %s", what, input(), msg)
	return false
}

func short(b []byte) string {
	if len(b) > 400 {
		return fmt.Sprintf("%q...(%d bytes)", b[:400], len(b))
	}
	return fmt.Sprintf("%q", b)
}

// ---- corpus plumbing -------------------------------------------------------------------

func pkgDir() string {
	_, file, _, _ := runtime.Caller(0)
	return filepath.Dir(file)
}

// loadCorpus reads saved native-fuzz inputs (single []byte argument) of the target from
// testdata/fuzz/<target>/ of this package and from /verif/replays/<id>/<target>-*.
func loadCorpus(id, target string) [][]byte {
	var out [][]byte
	var files []string
	dir := filepath.Join(pkgDir(), "testdata", "fuzz", target)
	if es, err := os.ReadDir(dir); err == nil {
		for _, e := range es {
			files = append(files, filepath.Join(dir, e.Name()))
		}
	}
	rdir := filepath.Join(pkgDir(), "..", "..", "..", "replays", id)
	if es, err := os.ReadDir(rdir); err == nil {
		for _, e := range es {
			if strings.HasPrefix(e.Name(), target+"-") {
				files = append(files, filepath.Join(rdir, e.Name()))
			}
		}
	}
	sort.Strings(files)
	for _, f := range files {
		b, err := os.ReadFile(f)
		if err != nil {
			continue
		}
		lines := strings.Split(strings.TrimSpace(string(b)), "\n")
		if len(lines) != 2 || strings.TrimSpace(lines[0]) != "go test fuzz v1" {
			continue
		}
		ln := strings.TrimSpace(lines[1])
		if !strings.HasPrefix(ln, "[]byte(") || !strings.HasSuffix(ln, ")") {
			continue
		}
		s, err := strconv.Unquote(ln[len("[]byte(") : len(ln)-1])
		if err != nil {
			continue
		}
		out = append(out, []byte(s))
	}
	return out
}

// ---- byte mutation (rapid side; native fuzzing has its own mutator) ------------------------

var hostileChunks = [][]byte{
	{}, {0}, {0xff}, {0x7f}, {0x80}, []byte("\xff\xff\xff\xff\xff\xff\xff\xff\xff\x01"), []byte("\x80\x80\x80\x80\x80\x80\x80\x80\x80\x80\x80"),
	[]byte("{}"), []byte("null"), []byte("[]"), []byte(`""`), []byte(`{"a":`), []byte("\xef\xbb\xbf"), []byte("\xc3\x28"), []byte("\\u0000"), []byte("1e999"),
	word(0), word(0x20), word(0x40), word(1 << 31), word(1<<63 - 1), wordMax(), append(make([]byte, 24), 0xff, 0xff, 0xff, 0xff, 0xff, 0xff, 0xff, 0xff),
}

func word(n uint64) []byte {
	w := make([]byte, 32)
	binary.BigEndian.PutUint64(w[24:], n)
	return w
}

func wordMax() []byte {
	w := make([]byte, 32)
	for i := range w {
		w[i] = 0xff
	}
	return w
}

func cat(parts ...[]byte) []byte {
	var out []byte
	for _, p := range parts {
		out = append(out, p...)
	}
	return out
}

// mutate applies 0..4 structural mutations to base: truncation, bit flips, overwriting or
// inserting hostile chunks (incl. 32-byte ABI words and over-long varints), duplication.
func mutate(t *rapid.T, base []byte) []byte {
	b := append([]byte(nil), base...)
	n := rapid.IntRange(0, 4).Draw(t, "nmut")
	for i := 0; i < n; i++ {
		switch rapid.IntRange(0, 7).Draw(t, "mut") {
		case 0: // truncate
			if len(b) > 0 {
				b = b[:rapid.IntRange(0, len(b)-1).Draw(t, "cut")]
			}
		case 1: // bit flip
			if len(b) > 0 {
				p := rapid.IntRange(0, len(b)-1).Draw(t, "pos")
				b[p] ^= 1 << uint(rapid.IntRange(0, 7).Draw(t, "bit"))
			}
		case 2: // overwrite with a hostile chunk, aligned to 32 when possible
			if len(b) > 0 {
				ch := rapid.SampledFrom(hostileChunks).Draw(t, "chunk")
				p := rapid.IntRange(0, len(b)-1).Draw(t, "pos")
				if len(ch) == 32 {
					p -= p % 32
				}
				for k := 0; k < len(ch) && p+k < len(b); k++ {
					b[p+k] = ch[k]
				}
			}
		case 3: // insert a hostile chunk
			ch := rapid.SampledFrom(hostileChunks).Draw(t, "chunk")
			p := rapid.IntRange(0, len(b)).Draw(t, "pos")
			b = cat(b[:p], ch, b[p:])
		case 4: // overwrite one byte with any value
			if len(b) > 0 {
				b[rapid.IntRange(0, len(b)-1).Draw(t, "pos")] = rapid.Byte().Draw(t, "val")
			}
		case 5: // duplicate a range
			if len(b) > 1 {
				p := rapid.IntRange(0, len(b)-1).Draw(t, "pos")
				q := rapid.IntRange(p, min(len(b), p+64)).Draw(t, "end")
				b = cat(b[:q], b[p:q], b[q:])
			}
		case 6: // drop a range
			if len(b) > 1 {
				p := rapid.IntRange(0, len(b)-1).Draw(t, "pos")
				q := rapid.IntRange(p, min(len(b), p+40)).Draw(t, "end")
				b = cat(b[:p], b[q:])
			}
		case 7: // append random tail
			b = append(b, rapid.SliceOfN(rapid.Byte(), 0, 40).Draw(t, "tail")...)
		}
	}
	return b
}

// byteCase is the replay unit of the byte-level tests: which decoder, which bytes.
type byteCase struct {
	Target string
	Data   []byte
}

type byteTarget struct {
	Name  string
	Seeds [][]byte
}

// genByteCase picks a target, then a seed (or nothing) and mutates it.
func genByteCase(targets []byteTarget) func(t *rapid.T) byteCase {
	return func(t *rapid.T) byteCase {
		tg := targets[rapid.IntRange(0, len(targets)-1).Draw(t, "target")]
		var data []byte
		switch {
		case len(tg.Seeds) > 0 && rapid.IntRange(0, 9).Draw(t, "fromseed") > 0:
			data = mutate(t, tg.Seeds[rapid.IntRange(0, len(tg.Seeds)-1).Draw(t, "seed")])
		default:
			data = rapid.SliceOfN(rapid.Byte(), 0, 200).Draw(t, "raw")
		}
		return byteCase{Target: tg.Name, Data: data}
	}
}
