package ica

import (
	"fmt"
	"sort"
	"strings"
	"testing"

	sdkmath "cosmossdk.io/math"

	sdk "github.com/cosmos/cosmos-sdk/types"
	stakingtypes "github.com/cosmos/cosmos-sdk/x/staking/types"

	icacontrollertypes "github.com/cosmos/ibc-go/v11/modules/apps/27-interchain-accounts/controller/types"
	icatypes "github.com/cosmos/ibc-go/v11/modules/apps/27-interchain-accounts/types"
	clienttypes "github.com/cosmos/ibc-go/v11/modules/core/02-client/types"
	channeltypes "github.com/cosmos/ibc-go/v11/modules/core/04-channel/types"
	host "github.com/cosmos/ibc-go/v11/modules/core/24-host"
	ibctesting "github.com/cosmos/ibc-go/v11/testing"

	"github.com/cosmos/ibc-go/v11/modules/apps/callbacks/verifx/sim"
	"github.com/cosmos/ibc-go/v11/modules/apps/callbacks/verifx/vx"
)

// Chain roles and fixed account roles used by the ICA checks. Every simapp chain is both
// a controller and a host; the roles below are only a convention of the histories.
const (
	ctrl    = 0 // index of the controller chain in the sim world
	hostc   = 1 // index of the host chain
	relayer = 7 // account index (on both chains) that signs every relay message
	funder  = 8 // host account that funds interchain accounts
)

// env is a 2-chain world with one or more OPEN connections and no channels.
type env struct {
	w     *sim.World
	conns []*ibctesting.Path // clients + connection per index; channel fields unused
}

func newEnv(outer *testing.T, nconn int) *env {
	e := &env{w: sim.NewWorld(outer, 2, nil)}
	sim.Guard("ica connection setup", func() {
		for i := 0; i < nconn; i++ {
			p := ibctesting.NewPath(e.w.Chains[ctrl], e.w.Chains[hostc])
			p.SetupConnections()
			e.conns = append(e.conns, p)
		}
	})
	return e
}

func (e *env) ep(conn, side int) *ibctesting.Endpoint {
	p := e.conns[conn%len(e.conns)]
	if side == ctrl {
		return p.EndpointA
	}
	return p.EndpointB
}

func (e *env) connID(conn, side int) string   { return e.ep(conn, side).ConnectionID }
func (e *env) clientID(conn, side int) string { return e.ep(conn, side).ClientID }
func (e *env) addr(chain, k int) string       { return e.w.Addr(chain, k).String() }

// freshProof updates the light client of chain `of` that lives on the other chain and
// returns a proof for `key` in chain `of`'s IBC store that verifies against that update.
func (e *env) freshProof(conn, of int, key []byte) ([]byte, clienttypes.Height) {
	v := 1 - of
	e.w.UpdateClient(v, e.clientID(conn, v), of, relayer)
	h := e.w.Chains[v].GetClientLatestHeight(e.clientID(conn, v)).GetRevisionHeight()
	return e.w.Proof(of, key, h)
}

func (e *env) channel(chain int, port, ch string) (channeltypes.Channel, bool) {
	return e.w.App(chain).IBCKeeper.ChannelKeeper.GetChannel(e.w.Ctx(chain), port, ch)
}

func channelKey(port, ch string) []byte { return host.ChannelKey(port, ch) }

func ctrlPort(owner string) string { return icatypes.ControllerPortPrefix + owner }

// version builds an ICS-27 metadata version string for connection index conn.
func (e *env) version(conn int, encoding string) string {
	md := icatypes.NewDefaultMetadata(e.connID(conn, ctrl), e.connID(conn, hostc))
	md.Encoding = encoding
	return string(icatypes.ModuleCdc.MustMarshalJSON(&md))
}

// register delivers MsgRegisterInterchainAccount signed by account `signer` of the
// controller chain; returns the result and the new channel id (empty on failure).
func (e *env) register(signer int, conn int, owner, version string, order channeltypes.Order) (sim.TxResult, string) {
	msg := icacontrollertypes.NewMsgRegisterInterchainAccount(e.connID(conn, ctrl), owner, version, order)
	res := e.w.Deliver(ctrl, signer, msg)
	if !res.OK {
		return res, ""
	}
	id, err := ibctesting.ParseChannelIDFromEvents(res.Events)
	if err != nil {
		vx.Harnessf("register: no channel id in events: %v", err)
	}
	return res, id
}

// chanTry relays ChanOpenTry to the host for the controller channel (port, ch).
func (e *env) chanTry(conn int, port, ch string) (sim.TxResult, string) {
	c, ok := e.channel(ctrl, port, ch)
	if !ok {
		vx.Harnessf("chanTry: controller channel %s/%s missing", port, ch)
	}
	proof, ph := e.freshProof(conn, ctrl, host.ChannelKey(port, ch))
	msg := channeltypes.NewMsgChannelOpenTry(icatypes.HostPortID, "", c.Ordering, []string{e.connID(conn, hostc)},
		port, ch, c.Version, proof, ph, e.addr(hostc, relayer))
	res := e.w.Deliver(hostc, relayer, msg)
	if !res.OK {
		return res, ""
	}
	id, err := ibctesting.ParseChannelIDFromEvents(res.Events)
	if err != nil {
		vx.Harnessf("chanTry: no channel id in events: %v", err)
	}
	return res, id
}

// chanAck relays ChanOpenAck to the controller for (port, ch) with counterparty hostCh.
func (e *env) chanAck(conn int, port, ch, hostCh string) sim.TxResult {
	hc, ok := e.channel(hostc, icatypes.HostPortID, hostCh)
	if !ok {
		vx.Harnessf("chanAck: host channel %s missing", hostCh)
	}
	proof, ph := e.freshProof(conn, hostc, host.ChannelKey(icatypes.HostPortID, hostCh))
	msg := channeltypes.NewMsgChannelOpenAck(port, ch, hostCh, hc.Version, proof, ph, e.addr(ctrl, relayer))
	return e.w.Deliver(ctrl, relayer, msg)
}

// chanConfirm relays ChanOpenConfirm to the host for hostCh (counterparty (port, ch)).
func (e *env) chanConfirm(conn int, port, ch, hostCh string) sim.TxResult {
	proof, ph := e.freshProof(conn, ctrl, host.ChannelKey(port, ch))
	msg := channeltypes.NewMsgChannelOpenConfirm(icatypes.HostPortID, hostCh, proof, ph, e.addr(hostc, relayer))
	return e.w.Deliver(hostc, relayer, msg)
}

// chanCloseConfirm relays ChanCloseConfirm to the host for hostCh.
func (e *env) chanCloseConfirm(conn int, port, ch, hostCh string) sim.TxResult {
	proof, ph := e.freshProof(conn, ctrl, host.ChannelKey(port, ch))
	msg := channeltypes.NewMsgChannelCloseConfirm(icatypes.HostPortID, hostCh, proof, ph, e.addr(hostc, relayer))
	return e.w.Deliver(hostc, relayer, msg)
}

// link wraps an ICA channel pair into a sim.Link so that sim's packet relay builders work.
func (e *env) link(conn int, ordered bool, port, ch, hostCh string) *sim.Link {
	base := e.conns[conn%len(e.conns)]
	p := ibctesting.NewPath(e.w.Chains[ctrl], e.w.Chains[hostc])
	p.EndpointA.ClientID, p.EndpointA.ConnectionID = base.EndpointA.ClientID, base.EndpointA.ConnectionID
	p.EndpointB.ClientID, p.EndpointB.ConnectionID = base.EndpointB.ClientID, base.EndpointB.ConnectionID
	p.EndpointA.ChannelConfig.PortID, p.EndpointA.ChannelID = port, ch
	p.EndpointB.ChannelConfig.PortID, p.EndpointB.ChannelID = icatypes.HostPortID, hostCh
	kind := sim.V1Unordered
	if ordered {
		kind = sim.V1Ordered
	}
	l := &sim.Link{Idx: len(e.w.Links), Kind: kind, Chain: [2]int{ctrl, hostc}, Path: p}
	e.w.Links = append(e.w.Links, l)
	return l
}

// openICA runs the honest four-step handshake started by the owner's
// MsgRegisterInterchainAccount and returns the link and the interchain account address.
func (e *env) openICA(conn, ownerIdx int, ordered bool, encoding string) (*sim.Link, sdk.AccAddress) {
	owner := e.addr(ctrl, ownerIdx)
	order := channeltypes.UNORDERED
	if ordered {
		order = channeltypes.ORDERED
	}
	port := ctrlPort(owner)
	res, ch := e.register(ownerIdx, conn, owner, e.version(conn, encoding), order)
	if !res.OK {
		vx.Harnessf("honest register failed: %v", res.Err)
	}
	res, hostCh := e.chanTry(conn, port, ch)
	if !res.OK {
		vx.Harnessf("honest ChanOpenTry failed: %v", res.Err)
	}
	if res = e.chanAck(conn, port, ch, hostCh); !res.OK {
		vx.Harnessf("honest ChanOpenAck failed: %v", res.Err)
	}
	if res = e.chanConfirm(conn, port, ch, hostCh); !res.OK {
		vx.Harnessf("honest ChanOpenConfirm failed: %v", res.Err)
	}
	a, ok := e.w.App(hostc).ICAHostKeeper.GetInterchainAccountAddress(e.w.Ctx(hostc), e.connID(conn, hostc), port)
	if !ok {
		vx.Harnessf("no interchain account registered after handshake")
	}
	return e.link(conn, ordered, port, ch, hostCh), sdk.MustAccAddressFromBech32(a)
}

// sendTx delivers MsgSendTx{Owner: owner} signed by controller account `signer`.
func (e *env) sendTx(signer int, conn int, owner string, relTimeoutNs uint64, data icatypes.InterchainAccountPacketData) sim.TxResult {
	return e.w.Deliver(ctrl, signer, icacontrollertypes.NewMsgSendTx(owner, e.connID(conn, ctrl), relTimeoutNs, data))
}

// notePacket registers a packet emitted by a controller transaction with the sim world.
func (e *env) notePacket(l *sim.Link, res sim.TxResult) *sim.Pkt {
	p1, err := ibctesting.ParseV1PacketFromEvents(res.Events)
	if err != nil {
		return nil
	}
	p := &sim.Pkt{Idx: len(e.w.Pkts), Link: l.Idx, Dir: 0, P1: p1, SrcHeight: res.Height}
	e.w.Pkts = append(e.w.Pkts, p)
	return p
}

// relayRecv relays p to the host with a fresh proof.
func (e *env) relayRecv(l *sim.Link, p *sim.Pkt) sim.TxResult {
	h := e.w.FreshHeight(l, 1, relayer)
	return e.w.Deliver(hostc, relayer, e.w.BuildRecv(p, h, relayer))
}

// relayTimeout relays MsgTimeout for p to the controller with a fresh non-receipt proof.
func (e *env) relayTimeout(l *sim.Link, p *sim.Pkt) sim.TxResult {
	h := e.w.FreshHeight(l, 0, relayer)
	return e.w.Deliver(ctrl, relayer, e.w.BuildTimeout(p, e.w.NextSeqRecv(p), h, relayer))
}

// ---- bank / staking observation -----------------------------------------------------

// ledger is the part of a chain's state the C37 oracle compares: balances (all denoms) of
// every non-module account and bonded tokens per delegator, keyed by symbolic labels.
type ledger map[string]sdkmath.Int

// labels maps raw addresses to run-independent names.
type labels map[string]string

func (e *env) hostLabels() labels {
	l := labels{}
	for k := range e.w.Chains[hostc].SenderAccounts {
		l[e.addr(hostc, k)] = fmt.Sprintf("h%d", k)
	}
	return l
}

func (l labels) of(addr string) string {
	if s, ok := l[addr]; ok {
		return s
	}
	return "other:" + addr
}

func (e *env) ledger(chain int, l labels) ledger { return e.ledgerAt(e.w.Ctx(chain), chain, l) }

// ledgerAt reads the ledger from an explicit (possibly cached) context of the chain.
func (e *env) ledgerAt(ctx sdk.Context, chain int, l labels) ledger {
	app := e.w.App(chain)
	out := ledger{}
	module := map[string]bool{}
	app.BankKeeper.IterateAllBalances(ctx, func(a sdk.AccAddress, c sdk.Coin) bool {
		s := a.String()
		isMod, seen := module[s]
		if !seen {
			_, isMod = app.AccountKeeper.GetAccount(ctx, a).(sdk.ModuleAccountI)
			module[s] = isMod
		}
		if !isMod {
			out["bal/"+l.of(s)+"/"+c.Denom] = c.Amount
		}
		return false
	})
	dels, err := app.StakingKeeper.GetAllDelegations(ctx)
	if err != nil {
		vx.Harnessf("GetAllDelegations: %v", err)
	}
	vals := map[string]stakingtypes.Validator{}
	for _, d := range dels {
		v, ok := vals[d.ValidatorAddress]
		if !ok {
			va, err := sdk.ValAddressFromBech32(d.ValidatorAddress)
			if err != nil {
				vx.Harnessf("bad validator address: %v", err)
			}
			if v, err = app.StakingKeeper.GetValidator(ctx, va); err != nil {
				vx.Harnessf("GetValidator: %v", err)
			}
			vals[d.ValidatorAddress] = v
		}
		k := "bonded/" + l.of(d.DelegatorAddress)
		cur, ok := out[k]
		if !ok {
			cur = sdkmath.ZeroInt()
		}
		out[k] = cur.Add(v.TokensFromShares(d.Shares).TruncateInt())
	}
	return out
}

// delta returns after-before for every key that changed, as key -> signed amount.
func delta(before, after ledger) map[string]sdkmath.Int {
	d := map[string]sdkmath.Int{}
	for k, a := range after {
		b, ok := before[k]
		if !ok {
			b = sdkmath.ZeroInt()
		}
		if !a.Equal(b) {
			d[k] = a.Sub(b)
		}
	}
	for k, b := range before {
		if _, ok := after[k]; !ok && !b.IsZero() {
			d[k] = b.Neg()
		}
	}
	return d
}

func fmtDelta(d map[string]sdkmath.Int) string {
	ks := make([]string, 0, len(d))
	for k := range d {
		ks = append(ks, k)
	}
	sort.Strings(ks)
	var sb strings.Builder
	sb.WriteString("{")
	for i, k := range ks {
		if i > 0 {
			sb.WriteString(", ")
		}
		fmt.Fprintf(&sb, "%s:%s", k, d[k])
	}
	sb.WriteString("}")
	return sb.String()
}

func sameDelta(a, b map[string]sdkmath.Int) bool {
	if len(a) != len(b) {
		return false
	}
	for k, v := range a {
		w, ok := b[k]
		if !ok || !v.Equal(w) {
			return false
		}
	}
	return true
}

// ackOf extracts the acknowledgement written by a receive transaction.
func ackOf(res sim.TxResult) (channeltypes.Acknowledgement, bool) {
	bz, err := ibctesting.ParseAckFromEvents(res.Events)
	if err != nil {
		return channeltypes.Acknowledgement{}, false
	}
	var ack channeltypes.Acknowledgement
	if err := channeltypes.SubModuleCdc.UnmarshalJSON(bz, &ack); err != nil {
		return channeltypes.Acknowledgement{}, false
	}
	return ack, true
}
