package token

import (
	"fmt"
	"testing"

	"pgregory.net/rapid"

	"github.com/cosmos/ibc-go/v11/modules/apps/callbacks/verifx/tokensim"
	"github.com/cosmos/ibc-go/v11/modules/apps/callbacks/verifx/vx"
)

// C32: a single transfer whose outcome is enumerated. World: three chains; the transfer under
// test leaves chain 0 over link L0 (kind Link) toward chain 1. The token the sender holds is a
// native of chain 0 (Hops 0) or a voucher that first travelled 1 or 2 hops over setup links
// (honestly relayed). With Return the voucher arrived over L0 itself, so the transfer under test
// burns it (sink zone, refund = re-mint); otherwise it is escrowed (source zone, refund = release).
//
// Oracle: bank snapshot (every balance of every address, every supply, all three chains) taken
// before the send. Failure outcome (error acknowledgement for each receive-side failure reason,
// timeout by height, timeout by time): after the terminal message the snapshot is restored
// exactly -- first the sender's balance of the original denomination, then everything else.
// Success: the acknowledgement transaction changes no balance or supply on the sending chain.
// Any further terminal message (verbatim duplicate, fresh ack, fresh timeout, forged ack) changes
// nothing anywhere. In these honest scenarios a due refund must also actually happen: when the
// error acknowledgement is written (resp. the packet has timed out unreceived) and the relay with a
// fresh proof is refused twice while the packet stays pending, the sender is never refunded -- that
// is reported too (error-ack-refund-refused / timeout-refund-refused).

type c32Case struct {
	Link     int   `json:"link"`     // kind of L0: 0 v1, 1 v2, 2 alias, 3 v1 channel whose counterparty port is "mock" (scripted app answering every receive with an error ack)
	Hops     int   `json:"hops"`     // 0 native, 1, 2
	Return   bool  `json:"return"`   // Hops>0: send the voucher back over the end it arrived on
	Setup    []int `json:"setup"`    // kinds of the two setup links
	Outcome  int   `json:"outcome"`  // 0 success, 1 receive disabled, 2 invalid receiver, 3 blocked receiver, 4 timeout by height (v1; time for v2), 5 timeout by time, 6 boundary race (receive in the block whose time == timeout, then timeout proven at exactly that height)
	Via      int   `json:"via"`      // v2/alias: 0 MsgTransfer, 1 MsgSendPacket
	Enc      int   `json:"enc"`      //
	Denom    int   `json:"denom"`    // native denomination (pool index)
	Amt      int64 `json:"amt"`      //
	AM       int   `json:"am"`       // 0 exactly Amt, 1 entire balance, 2 half
	S        int   `json:"s"`        // sender account on chain 0
	R        int   `json:"r"`        // receiver account
	Memo     int   `json:"memo"`     //
	Dups     []int `json:"dups"`     // further terminal messages: 0 verbatim duplicate, 1 fresh ack, 2 fresh timeout, 3 forged ack
	Relayer  int   `json:"relayer"`  // account signing relay messages
	LateRecv bool  `json:"lateRecv"` // timeout outcomes: try a receive after expiry first
	Disable  bool  `json:"disable"`  // failure outcomes 2,3: additionally disable receiving
}

var c32Pool = []string{"ufoo", "atom2", "ubar", "gamm/pool/1", "factory/osmo1abc/tok"}

func genC32(t *rapid.T) c32Case {
	c := c32Case{
		Link:     rapid.SampledFrom([]int{0, 1, 2, 0, 1, 2, 3}).Draw(t, "link"),
		Hops:     rapid.SampledFrom([]int{0, 1, 1, 2, 2}).Draw(t, "hops"),
		Return:   rapid.Bool().Draw(t, "return"),
		Setup:    []int{rapid.IntRange(0, 2).Draw(t, "setup1"), rapid.IntRange(0, 2).Draw(t, "setup2")},
		Outcome:  rapid.SampledFrom([]int{0, 1, 2, 3, 4, 5, 1, 2, 3, 4, 5, 6, 6}).Draw(t, "outcome"),
		Via:      rapid.IntRange(0, 1).Draw(t, "via"),
		Enc:      rapid.IntRange(0, 2).Draw(t, "enc"),
		Amt:      rapid.Int64Range(1, 4000).Draw(t, "amt"),
		AM:       rapid.SampledFrom([]int{0, 0, 1, 2}).Draw(t, "am"),
		S:        rapid.IntRange(0, tokensim.NAcct-1).Draw(t, "s"),
		R:        rapid.IntRange(0, tokensim.NAcct-1).Draw(t, "r"),
		Memo:     rapid.SampledFrom([]int{0, 0, 1, 2}).Draw(t, "memo"),
		Relayer:  rapid.IntRange(0, 9).Draw(t, "relayer"),
		LateRecv: rapid.Bool().Draw(t, "laterecv"),
		Disable:  rapid.IntRange(0, 4).Draw(t, "disable") == 0,
	}
	if c.Link == tokensim.KMock {
		// the mock counterparty cannot succeed: error ack, timeouts, boundary race
		c.Outcome = rapid.SampledFrom([]int{1, 4, 5, 4, 5, 6}).Draw(t, "mockoutcome")
	}
	allV1 := c.Link == 0 && (c.Hops == 0 || (c.Setup[0] == 0 && c.Setup[1] == 0))
	if allV1 {
		c.Denom = rapid.IntRange(0, len(c32Pool)-1).Draw(t, "denom")
	} else {
		c.Denom = rapid.IntRange(0, 2).Draw(t, "denomplain")
	}
	for k := rapid.IntRange(1, 3).Draw(t, "ndups"); k > 0; k-- {
		c.Dups = append(c.Dups, rapid.IntRange(0, 3).Draw(t, "dup"))
	}
	return c
}

// routeIdx finds the index, among the routes leaving chain c, of the first route of the given kind to peer.
func routeIdx(spec tokensim.Spec, c, peer, kind int) int {
	for i, r := range spec.PlanRoutes(c) {
		if r.Peer == peer && r.K == kind {
			return i
		}
	}
	return -1
}

func bankEq(a, b []tokensim.Bank) []string {
	var out []string
	for i := range a {
		for _, ch := range tokensim.BankDiff(a[i], b[i]) {
			out = append(out, fmt.Sprintf("chain%d %s", i, ch))
		}
	}
	return out
}

func runC32(outer *testing.T) func(t rapid.TB, c c32Case, rec *vx.Case) {
	return func(t rapid.TB, c c32Case, rec *vx.Case) {
		const id = "C32"
		denom := c32Pool[tokensim.Pick(len(c32Pool), c.Denom)]
		setup := []int{0, 0}
		for i := 0; i < 2 && i < len(c.Setup); i++ {
			setup[i] = tokensim.Pick(3, c.Setup[i])
		}
		c.Link = tokensim.Pick(4, c.Link)
		mock := c.Link == tokensim.KMock
		if mock {
			c.Return = false // the mock side cannot send, so no voucher ever arrives over L0
		}
		spec := tokensim.Spec{Chains: 3, Links: []tokensim.LinkSpec{{K: c.Link, A: 0, B: 1}, {K: setup[0], A: 1, B: 2}, {K: setup[1], A: 2, B: 0}}}
		hops := tokensim.Pick(3, c.Hops)
		// where is the token native, and which hops bring it to chain 0
		type hop struct{ from, to, kind int }
		var path []hop
		home := 0
		switch {
		case hops == 1 && c.Return:
			home, path = 1, []hop{{1, 0, c.Link}}
		case hops == 2 && c.Return:
			home, path = 2, []hop{{2, 1, setup[0]}, {1, 0, c.Link}}
		case hops == 1:
			home, path = 2, []hop{{2, 0, setup[1]}}
		case hops == 2:
			home, path = 1, []hop{{1, 2, setup[0]}, {2, 0, setup[1]}}
		}
		spec.Denoms = [][]string{{"ufoo"}, {"ufoo"}, {"ufoo"}}
		spec.Denoms[home] = []string{denom}
		w := tokensim.NewWorld(outer, spec)
		no := 0
		step := func(op tokensim.Op) *tokensim.Step { st := w.Exec(no, op); no++; return st }
		s := tokensim.Pick(tokensim.NAcct, c.S)
		rel := tokensim.Pick(10, c.Relayer)
		kindName := tokensim.KindName(c.Link)

		// ---- setup: bring the voucher to account s of chain 0
		holder := (s + 1) % tokensim.NAcct
		for hi, h := range path {
			to := (s + 2 + hi) % tokensim.NAcct
			if hi == len(path)-1 {
				to = s
			}
			li := routeIdx(spec, h.from, h.to, h.kind)
			if li < 0 {
				vx.Harnessf("no planned route %d->%d kind %d", h.from, h.to, h.kind)
			}
			op := tokensim.Op{K: "transfer", C: h.from, L: li, S: holder, R: to, Sig: holder, Amt: 20000, Pref: 1}
			if hi == 0 {
				op.Pref = 2
				op.Den = 0
			}
			st := step(op)
			if !st.Sent || st.SendDenom.Base != denom {
				rec.Class("setup-send-rejected")
				rec.Add("setup_failed", 1)
				return
			}
			pi := len(w.TP) - 1
			r1 := w.RelayRecv(no, pi, rel)
			no++
			r2 := w.RelayAck(no, pi, rel)
			no++
			if r1.Effect != "recv-ok" || r2.Effect != "ack-ok" {
				rec.Class("setup-relay-failed")
				rec.Add("setup_failed", 1)
				return
			}
			holder = to
		}

		// ---- the transfer under test
		dst := 1
		li := routeIdx(spec, 0, 1, c.Link)
		outcome := tokensim.Pick(7, c.Outcome)
		if mock && outcome <= 3 {
			outcome = 1 // the only receive result of the mock application is an error acknowledgement
		}
		if !mock && (outcome == 1 || (c.Disable && (outcome == 2 || outcome == 3))) {
			step(tokensim.Op{K: "force", C: dst, On: false})
		}
		before := w.Banks()
		op := tokensim.Op{K: "transfer", C: 0, L: li, S: s, R: c.R, Sig: s, Amt: c.Amt, AM: tokensim.Pick(3, c.AM), Memo: c.Memo, Via: c.Via, Enc: c.Enc}
		if hops == 0 {
			op.Pref, op.Den = 2, 0
		} else {
			op.Pref, op.Den = 1, 0
		}
		switch outcome {
		case 2:
			op.RK = tokensim.RInvalid
		case 3:
			op.RK = tokensim.RBlocked
		case 4:
			op.TH, op.TT = 2, 0 // v1: height only; v2/alias have no height timeouts and fall back to the default time
			if c.Link != 0 {
				op.TT = 20
			}
		case 5:
			op.TT = 20
		case 6:
			op.TT = 30 // on the 5 s block grid of the shared clock
		}
		send := step(op)
		if !send.Sent {
			rec.Class("send-rejected")
			rec.Add("send_rejected", 1)
			return
		}
		if hops == 0 && send.SendDenom.Hops() != 0 || hops > 0 && (send.SendDenom.Hops() != hops || send.SendDenom.Base != denom) {
			vx.Harnessf("scenario sent %q, wanted a %d-hop voucher of %s", send.SendDenom.Path(), hops, denom)
		}
		if hops > 0 && send.Pkt.Legs[0].Return != c.Return {
			vx.Harnessf("scenario return=%v but leg return=%v", c.Return, send.Pkt.Legs[0].Return)
		}
		pi := len(w.TP) - 1
		senderKey := "b|" + tokensim.AcctLabel(s) + "|" + send.Coin
		afterSend := w.Banks()
		debited := before[0].Get(senderKey).Cmp(afterSend[0].Get(senderKey)) > 0
		rec.Add("send_debited_sender", b2i(debited))

		zone := "source-zone"
		if hops > 0 && c.Return {
			zone = "sink-zone"
		}
		terminalKind := ""
		switch outcome {
		case 0:
			r := step(tokensim.Op{K: "recv", P: pi, H: -1, Sig: rel})
			if r.Effect != "recv-ok" {
				rec.Class("success-scenario-not-received")
				rec.Add("scenario_failed", 1)
				return
			}
			a := step(tokensim.Op{K: "ack", P: pi, H: -1, Sig: rel})
			if a.Effect != "ack-ok" {
				rec.Class("success-ack-not-committed")
				rec.Add("scenario_failed", 1)
				return
			}
			if d := tokensim.BankDiff(a.Before[0], a.After[0]); len(d) > 0 {
				vx.Violatef(t, rec, id, "success-ack-changed-sending-chain", "%s %d-hop %s: success acknowledgement changed balances on the sending chain: %v -- %s", kindName, hops, zone, d, a.Describe())
				return
			}
			terminalKind = "ack"
			rec.Class("success/%s/%d-hop", kindName, hops)
		case 1, 2, 3:
			r := step(tokensim.Op{K: "recv", P: pi, H: -1, Sig: rel})
			if r.Effect != "recv-err" {
				rec.Class("forced-failure-but-%s", r.Effect)
				rec.Add("scenario_failed", 1)
				return
			}
			if d := bankEq(r.Before, r.After); len(d) > 0 {
				// a failed receive must leave the destination untouched, otherwise nothing can be "restored"
				vx.Violatef(t, rec, id, "failed-receive-changed-balances", "%s: receive that wrote an error acknowledgement changed balances: %v -- %s", kindName, d, r.Describe())
				return
			}
			if !mock && (outcome == 1 || c.Disable) {
				step(tokensim.Op{K: "force", C: dst, On: true})
			}
			a := step(tokensim.Op{K: "ack", P: pi, H: -1, Sig: rel})
			if a.Effect != "refund" {
				a = step(tokensim.Op{K: "ack", P: pi, H: -1, Sig: rel})
			}
			if a.Effect != "refund" {
				if w.HasCommitment(send.Pkt.P) {
					// the error acknowledgement is written and proven, yet the refund is refused: the sender is never made whole
					vx.Violatef(t, rec, id, "error-ack-refund-refused", "%s %d-hop %s: honest relay of the written error acknowledgement (fresh proof, twice) does not commit, the packet stays pending and the sender is not refunded -- %s", kindName, hops, zone, a.Describe())
					return
				}
				rec.Class("error-ack-not-committed")
				rec.Add("scenario_failed", 1)
				return
			}
			terminalKind = "ack"
			reason := []string{"", "recv-disabled", "invalid-receiver", "blocked-receiver"}[outcome]
			if mock {
				reason = "mock-app-error-ack"
			}
			rec.Class("%s/%s/%d-hop/%s", reason, kindName, hops, zone)
		case 4, 5:
			step(tokensim.Op{K: "block", C: dst, N: 2})
			step(tokensim.Op{K: "time", N: 60})
			if c.LateRecv {
				r := step(tokensim.Op{K: "recv", P: pi, H: -1, Sig: rel})
				if r.Effect != "" {
					rec.Class("late-receive-accepted")
					rec.Add("scenario_failed", 1)
					return
				}
			}
			to := step(tokensim.Op{K: "timeout", P: pi, H: -1, Sig: rel})
			if to.Effect != "refund" {
				to = step(tokensim.Op{K: "timeout", P: pi, H: -1, Sig: rel})
			}
			if to.Effect != "refund" {
				if w.HasCommitment(send.Pkt.P) && send.Pkt.Status == tokensim.StSent {
					// the destination is 3 blocks and 60 s past the timeout, never received the packet, the
					// proof is fresh -- and still no refund
					vx.Violatef(t, rec, id, "timeout-refund-refused", "%s %d-hop %s: the packet timed out unreceived (destination 3 blocks and 60 s past the timeout, fresh non-receipt proof, two attempts) but MsgTimeout does not commit, the packet stays pending and the sender is not refunded -- %s", kindName, hops, zone, to.Describe())
					return
				}
				rec.Class("timeout-not-committed")
				rec.Add("scenario_failed", 1)
				return
			}
			terminalKind = "timeout"
			by := "time"
			if outcome == 4 && c.Link == 0 {
				by = "height"
			}
			rec.Class("timeout-by-%s/%s/%d-hop/%s", by, kindName, hops, zone)
		case 6:
			// boundary race: the receive lands in the destination block whose time equals the timeout,
			// then the timeout is proven at exactly that block's height. Whatever the receive did, a
			// committed timeout must restore the pre-send state; if the timeout is refused the
			// transfer must complete as a success.
			r := step(tokensim.Op{K: "erecv", P: pi, HD: 0, Pre: c.LateRecv, Sig: rel})
			rec.Add("race_recv_in_block_with_time_eq_timeout", b2i(r.EdgeAligned))
			to := step(tokensim.Op{K: "etimeout", P: pi, HD: 0, Sig: rel})
			rec.Add("race_timeout_proven_at_exact_height", b2i(to.EdgeAligned))
			switch {
			case to.Effect == "refund":
				terminalKind = "timeout"
				rec.Class("boundary-race-timeout/%s/%d-hop/%s", kindName, hops, zone)
			case r.Effect == "recv-ok":
				a := step(tokensim.Op{K: "ack", P: pi, H: -1, Sig: rel})
				if a.Effect != "ack-ok" {
					rec.Class("race-ack-not-committed")
					rec.Add("scenario_failed", 1)
					return
				}
				if d := tokensim.BankDiff(a.Before[0], a.After[0]); len(d) > 0 {
					vx.Violatef(t, rec, id, "success-ack-changed-sending-chain", "%s %d-hop %s: success acknowledgement changed balances on the sending chain: %v -- %s", kindName, hops, zone, d, a.Describe())
					return
				}
				outcome, terminalKind = 0, "ack"
				rec.Class("boundary-race-resolved-as-success/%s", kindName)
			default:
				rec.Class("boundary-race-unresolved")
				rec.Add("scenario_failed", 1)
				return
			}
		}
		if outcome != 0 {
			now := w.Banks()
			if now[0].Get(senderKey).Cmp(before[0].Get(senderKey)) != 0 {
				vx.Violatef(t, rec, id, "sender-not-restored", "%s %d-hop %s outcome %d: sender acct%d balance of %s (%s) was %s before the send, %s after the send, %s after the %s", kindName, hops, zone, outcome, s, send.Coin, send.SendDenom.Path(), before[0].Get(senderKey), afterSend[0].Get(senderKey), now[0].Get(senderKey), terminalKind)
				return
			}
			if d := bankEq(before, now); len(d) > 0 {
				vx.Violatef(t, rec, id, "others-not-restored", "%s %d-hop %s outcome %d: after the %s these balances / supplies differ from before the send: %v", kindName, hops, zone, outcome, terminalKind, d)
				return
			}
		}
		// ---- further terminal messages change nothing
		for _, d := range c.Dups {
			var dop tokensim.Op
			switch tokensim.Pick(4, d) {
			case 0:
				dop = tokensim.Op{K: "dup", N: 0}
			case 1:
				dop = tokensim.Op{K: "ack", P: pi, H: -1, Sig: (rel + 1) % 10}
			case 2:
				dop = tokensim.Op{K: "timeout", P: pi, H: -1, Sig: (rel + 2) % 10}
			default:
				dop = tokensim.Op{K: "ack", P: pi, H: -1, Sig: (rel + 3) % 10, Forge: true}
			}
			st := step(dop)
			rec.Add("second_terminal_messages", 1)
			if st.HadTx && st.Res.OK {
				rec.Add("second_terminal_committed_as_noop", b2i(st.Noop))
			}
			if df := bankEq(st.Before, st.After); len(df) > 0 {
				vx.Violatef(t, rec, id, "second-terminal-changed-balances", "%s %d-hop %s outcome %d: a further terminal message changed balances: %v -- %s", kindName, hops, zone, outcome, df, st.Describe())
				return
			}
		}
		if outcome != 0 {
			if d := bankEq(before, w.Banks()); len(d) > 0 {
				vx.Violatef(t, rec, id, "others-not-restored", "%s %d-hop %s outcome %d: after duplicates the state differs from before the send: %v", kindName, hops, zone, outcome, d)
				return
			}
		}
		rec.Add("completed", 1)
		rec.NonTrivialIf(outcome != 0 && hops >= 1)
	}
}

func b2i(b bool) int64 {
	if b {
		return 1
	}
	return 0
}

func TestC32(t *testing.T) {
	vx.Check(t, vx.Prop[c32Case]{
		ID: "C32",
		Rule: "single transfers from chain 0 to chain 1 of a 3-chain world: link kind {v1, v2, alias, v1 channel transfer<->mock port (counterparty is not the transfer port; its app error-acks every receive)} x denomination {native, 1-hop voucher, 2-hop voucher; vouchers either forwarded (escrowed) or returned over the end they arrived on (burned)} x outcome {success, receive disabled, invalid receiver, blocked receiver, timeout by height, timeout by time, timeout-boundary race (receive delivered in the destination block whose time == timeout, then MsgTimeout proven at exactly that height)} x route {MsgTransfer, MsgSendPacket} x encoding x amount mode (exact / entire balance / half), followed by 1-3 further terminal messages (verbatim duplicate, fresh ack, fresh timeout, forged ack); " +
			"non-trivial = a failure outcome on a voucher denomination that ran to completion; distinct by the whole case",
		MinNTFrac:   0.35,
		Assumptions: []string{assumeDenoms, "timeout-on-close is not reachable for transfer channels (user-initiated close is rejected by the transfer module) and is not enumerated"},
		Gen:         genC32,
		Run:         runC32(t),
	})
}
