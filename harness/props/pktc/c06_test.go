package pktc

import (
	"testing"

	"github.com/cosmos/ibc-go/v11/modules/apps/callbacks/verifx/vx"
)

// C06: the sender processes an acknowledgement only for a packet whose fields hash to the commitment it stored
// and only if exactly those ack bytes (v1) / app-ack list (v2) were proven committed by the counterparty for that
// packet's destination and sequence; anything else is rejected and changes no state.
func TestC06(t *testing.T) {
	vx.Check(t, vx.Prop[mcase]{
		ID: "C06",
		Rule: "2 chains (optionally asymmetric ids) with v1-unordered, v1-ordered, v2 and v2-alias links and twin packets on the sibling link; honest prefix (5-7 sends, receives with success / error / " +
			"async-then-written acks, 0-1 acks), then per trial a MsgAcknowledgement valid at that moment gets 1-3 catalogue mutations (ack bytes / app-ack list, packet fields, proof, proof height, environment) " +
			"and is submitted before the unmutated control; non-trivial = at least one model-forbidden mutated message whose control was accepted (or whose honest form was valid before an environment mutation); " +
			"distinct by (link kind, mutation labels per trial)",
		MinNTFrac: 0.6,
		Assumptions: []string{"honest counterparty chains (ibctesting) with Tendermint light clients; the true acknowledgement of a packet is what the destination emitted in its write_acknowledgement event or what the async application wrote",
			"environment mutations (closed channel, non-OPEN connection, frozen/expired client, passed timeout) are only perturbations for C06: acceptance under them is counted, not flagged"},
		Gen: genCase("C06"),
		Run: runCase(t),
	})
}

// TestC06Directed runs the same oracles on the identifier-confusion corner of the case space (see genDirected).
func TestC06Directed(t *testing.T) {
	vx.Check(t, vx.Prop[mcase]{
		ID:        "C06",
		Rule:      "as TestC06, narrowed to worlds where a sibling identifier on the proof chain equals the identifier the message names for the other chain, with single-mutation trials drawn from the wrong-key / wrong-counterparty catalogue entries; non-trivial and distinctness as TestC06",
		MinNTFrac: 0.6,
		Gen:       genDirected("C06"),
		Run:       runCase(t),
	})
}
