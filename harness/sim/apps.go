package sim

import (
	"encoding/json"
	"errors"
	"fmt"

	sdk "github.com/cosmos/cosmos-sdk/types"

	channeltypes "github.com/cosmos/ibc-go/v11/modules/core/04-channel/types"
	channeltypesv2 "github.com/cosmos/ibc-go/v11/modules/core/04-channel/v2/types"
	"github.com/cosmos/ibc-go/v11/modules/core/exported"
)

// Script is the packet data / payload value understood by the scripted mock applications.
// It tells the receiving application what to write and how to answer, and the sending
// application how to behave in its ack / timeout callbacks.
type Script struct {
	N   int      `json:"n"`           // nonce: makes every packet's data unique
	W   []string `json:"w,omitempty"` // app-store keys the receiver writes before answering
	Out string   `json:"o"`           // receiver outcome: ok | err | async | panic | sentinel (v2)
	Ack string   `json:"a,omitempty"` // sender's ack callback: "" (ok) | err | panic
	TO  string   `json:"t,omitempty"` // sender's timeout callback: "" (ok) | err | panic
}

func (s Script) Bytes() []byte {
	b, _ := json.Marshal(s)
	return b
}

func ParseScript(b []byte) (Script, bool) {
	var s Script
	if json.Unmarshal(b, &s) != nil {
		return Script{}, false
	}
	return s, true
}

// AppStore is the store the scripted applications write into (a KV store key of the app
// that no keeper iterates; keys are prefixed).
const AppStore = "gmp"

const appPrefix = "\xffvx/"

// AppKey is the raw store key a script key is written under.
func AppKey(k string) []byte { return []byte(appPrefix + k) }

// Event is one application callback invocation.
type Event struct {
	Step     int
	Chain    int
	Kind     string // recv | ack | timeout | send
	V2       bool
	Port     string // this chain's port (v1) / payload port on this chain (v2)
	ID       string // this chain's channel id (v1) or client id (v2)
	Seq      uint64
	Payload  int
	Data     []byte
	Ack      []byte
	Relayer  string
	Reverted bool // the carrying transaction failed: nothing of this callback persisted
	CheckTx  bool // the callback ran in CheckTx/ReCheckTx mode (mempool check state, never committed)
}

// Step is incremented by properties to tag log entries with the history step.
var _ = fmt.Sprint

func (w *World) logEvent(ctx sdk.Context, e Event) {
	e.Step = w.StepNo
	if ctx.IsCheckTx() || ctx.IsReCheckTx() {
		e.CheckTx, e.Reverted = true, true
	}
	w.Log = append(w.Log, e)
}

// Committed returns the log entries whose transaction committed.
func (w *World) Committed() []Event {
	var out []Event
	for _, e := range w.Log {
		if !e.Reverted {
			out = append(out, e)
		}
	}
	return out
}

// OKAck is the acknowledgement the scripted v1 app returns for script nonce n.
func OKAck(n int) channeltypes.Acknowledgement {
	return channeltypes.NewResultAcknowledgement([]byte(fmt.Sprintf("ok-%d", n)))
}

// ErrAck is the error acknowledgement of the scripted v1 app.
func ErrAck() channeltypes.Acknowledgement {
	return channeltypes.NewErrorAcknowledgement(errors.New("scripted failure"))
}

// OKAck2 is the app acknowledgement the scripted v2 app returns.
func OKAck2(n int) []byte { return []byte(fmt.Sprintf("ok2-%d", n)) }

func runWrites(ctx sdk.Context, w *World, chain int, s Script) {
	st := ctx.KVStore(w.App(chain).GetKey(AppStore))
	for _, k := range s.W {
		st.Set(AppKey(k), []byte(fmt.Sprintf("v%d", s.N)))
	}
}

func (w *World) installApps(i int) {
	app := w.App(i)
	chain := i

	// ---- v1 mock application (port "mock")
	m := app.IBCMockModule.IBCApp
	m.OnRecvPacket = func(ctx sdk.Context, _ string, p channeltypes.Packet, relayer sdk.AccAddress) exported.Acknowledgement {
		w.logEvent(ctx, Event{Chain: chain, Kind: "recv", Port: p.DestinationPort, ID: p.DestinationChannel, Seq: p.Sequence, Data: p.Data, Relayer: relayer.String()})
		s, ok := ParseScript(p.Data)
		if !ok {
			return ErrAck()
		}
		runWrites(ctx, w, chain, s)
		switch s.Out {
		case "ok":
			return OKAck(s.N)
		case "async":
			return nil
		case "panic":
			panic("scripted panic in OnRecvPacket")
		default:
			return ErrAck()
		}
	}
	m.OnAcknowledgementPacket = func(ctx sdk.Context, _ string, p channeltypes.Packet, ack []byte, relayer sdk.AccAddress) error {
		w.logEvent(ctx, Event{Chain: chain, Kind: "ack", Port: p.SourcePort, ID: p.SourceChannel, Seq: p.Sequence, Data: p.Data, Ack: ack, Relayer: relayer.String()})
		if s, ok := ParseScript(p.Data); ok {
			switch s.Ack {
			case "err":
				return errors.New("scripted ack callback error")
			case "panic":
				panic("scripted panic in OnAcknowledgementPacket")
			}
		}
		return nil
	}
	m.OnTimeoutPacket = func(ctx sdk.Context, _ string, p channeltypes.Packet, relayer sdk.AccAddress) error {
		w.logEvent(ctx, Event{Chain: chain, Kind: "timeout", Port: p.SourcePort, ID: p.SourceChannel, Seq: p.Sequence, Data: p.Data, Relayer: relayer.String()})
		if s, ok := ParseScript(p.Data); ok {
			switch s.TO {
			case "err":
				return errors.New("scripted timeout callback error")
			case "panic":
				panic("scripted panic in OnTimeoutPacket")
			}
		}
		return nil
	}

	// ---- v2 mock applications (ports mockv2A / mockv2B)
	for _, mod := range []*struct {
		port string
	}{{"mockv2A"}, {"mockv2B"}} {
		port := mod.port
		a := app.MockModuleV2A.IBCApp
		if port == "mockv2B" {
			a = app.MockModuleV2B.IBCApp
		}
		a.OnSendPacket = func(ctx sdk.Context, src, dst string, seq uint64, pl channeltypesv2.Payload, signer sdk.AccAddress) error {
			w.logEvent(ctx, Event{Chain: chain, Kind: "send", V2: true, Port: port, ID: src, Seq: seq, Data: pl.Value, Relayer: signer.String()})
			return nil
		}
		a.OnRecvPacket = func(ctx sdk.Context, src, dst string, seq uint64, pl channeltypesv2.Payload, relayer sdk.AccAddress) channeltypesv2.RecvPacketResult {
			w.logEvent(ctx, Event{Chain: chain, Kind: "recv", V2: true, Port: port, ID: dst, Seq: seq, Data: pl.Value, Relayer: relayer.String()})
			s, ok := ParseScript(pl.Value)
			if !ok {
				return channeltypesv2.RecvPacketResult{Status: channeltypesv2.PacketStatus_Failure}
			}
			runWrites(ctx, w, chain, s)
			switch s.Out {
			case "ok":
				return channeltypesv2.RecvPacketResult{Status: channeltypesv2.PacketStatus_Success, Acknowledgement: OKAck2(s.N)}
			case "sentinel":
				return channeltypesv2.RecvPacketResult{Status: channeltypesv2.PacketStatus_Success, Acknowledgement: channeltypesv2.ErrorAcknowledgement[:]}
			case "async":
				return channeltypesv2.RecvPacketResult{Status: channeltypesv2.PacketStatus_Async}
			case "panic":
				panic("scripted panic in v2 OnRecvPacket")
			default:
				return channeltypesv2.RecvPacketResult{Status: channeltypesv2.PacketStatus_Failure}
			}
		}
		a.OnAcknowledgementPacket = func(ctx sdk.Context, src, dst string, seq uint64, pl channeltypesv2.Payload, ack []byte, relayer sdk.AccAddress) error {
			w.logEvent(ctx, Event{Chain: chain, Kind: "ack", V2: true, Port: port, ID: src, Seq: seq, Data: pl.Value, Ack: ack, Relayer: relayer.String()})
			if s, ok := ParseScript(pl.Value); ok && s.Ack == "err" {
				return errors.New("scripted ack callback error")
			}
			return nil
		}
		a.OnTimeoutPacket = func(ctx sdk.Context, src, dst string, seq uint64, pl channeltypesv2.Payload, relayer sdk.AccAddress) error {
			w.logEvent(ctx, Event{Chain: chain, Kind: "timeout", V2: true, Port: port, ID: src, Seq: seq, Data: pl.Value, Relayer: relayer.String()})
			if s, ok := ParseScript(pl.Value); ok && s.TO == "err" {
				return errors.New("scripted timeout callback error")
			}
			return nil
		}
	}
}
