package tmv

// C25 (upgrade half): a Tendermint upgrade succeeds only to a strictly greater height and
// only when the counterparty really committed that upgraded client and consensus state under
// the client's upgrade path for the client's latest height; the result keeps the client's own
// trust level and clock drift and scales the trusting period when unbonding shrinks; nothing
// outside the client's namespace changes.
//
// Chain B is REAL: the upgraded client / consensus state are put into its x/upgrade store and
// committed exactly as ibc-go's own upgrade tests do; proofs are real ABCI store proofs.
// The oracle for "both proofs verify under the committed upgrade path" is ground truth, not a
// second verifier: the bytes B committed (read from B's store at the version the client's
// latest consensus state refers to) must equal the submitted (zeroed) client / consensus
// state, and the client's upgrade path must be the path B commits under.
//
// Trusting-period scaling, ibc-go's exact formula (07-tendermint/upgrade.go,
// calculateNewTrustingPeriod): LegacyDec(trusting).Mul(LegacyDec(newUnbonding)).Quo(LegacyDec(oldUnbonding)).TruncateInt64()
// i.e. the 18-decimal rounded quotient, truncated. For unbonding periods below ~63 years
// (2e18 ns) the rounding at 1e-18 cannot reach the next integer, so this equals
// floor(trusting*newUnbonding/oldUnbonding), which is what the reference computes with math/big.

import (
	"bytes"
	"math/big"
	"testing"
	"time"

	"pgregory.net/rapid"

	abci "github.com/cometbft/cometbft/abci/types"

	upgradetypes "github.com/cosmos/cosmos-sdk/x/upgrade/types"

	clienttypes "github.com/cosmos/ibc-go/v11/modules/core/02-client/types"
	commitmenttypes "github.com/cosmos/ibc-go/v11/modules/core/23-commitment/types"
	ibctm "github.com/cosmos/ibc-go/v11/modules/light-clients/07-tendermint"
	ibctesting "github.com/cosmos/ibc-go/v11/testing"

	"github.com/cosmos/ibc-go/v11/modules/apps/callbacks/verifx/sim"
	"github.com/cosmos/ibc-go/v11/modules/apps/callbacks/verifx/vx"
)

type c25uCase struct {
	TrustN     uint64 `json:"tn"`
	TrustD     uint64 `json:"tdn"`
	TrustingS  int64  `json:"trusting_s"`
	UnbondS    int64  `json:"unbond_s"`
	DriftS     int64  `json:"drift_s"`
	ClientPath string `json:"client_path"` // default | other-key | other-store | single | empty
	NewRev     bool   `json:"new_rev"`     // upgraded chain id bumps the revision
	NewHOff    int64  `json:"new_h_off"`   // same revision: upgraded latest height = client latest + this; new revision: height = 1 + |this|
	RevMismatch bool  `json:"rev_mismatch"` // upgraded chain id revision does not match the upgraded height's revision
	NewUnbondNs int64 `json:"new_unbond_ns"`
	PlanOff    int64  `json:"plan_off"`    // B commits under plan height = (honest plan height) + this
	CommitCons bool   `json:"commit_cons"` // B commits the upgraded consensus state as well
	Extra      bool   `json:"extra_update"` // the client is updated once more after the plan height
	ProofClient string `json:"proof_client"` // ok | other-key | other-plan | other-height | mutated | empty
	ProofCons   string `json:"proof_cons"`
	Submit     string `json:"submit"`      // committed | custom | unbonding | chain-id | height | path | specs
	SubmitCons string `json:"submit_cons"` // committed | nextvals | timestamp
	NewPath    string `json:"new_path"`    // upgrade path inside the upgraded client: default | other
	Arg        int    `json:"arg"`
}

// scaledTrusting is the reference for the scaled trusting period: floor(trusting*newUnbonding/oldUnbonding).
func scaledTrusting(trusting, oldUnbonding time.Duration, newUnbondingNs int64) time.Duration {
	q := new(big.Int).Mul(big.NewInt(int64(trusting)), big.NewInt(newUnbondingNs))
	q.Quo(q, big.NewInt(int64(oldUnbonding)))
	return time.Duration(q.Int64())
}

func upgradeStoreGet(w *sim.World, chain int, key []byte, version int64) []byte {
	if version < 1 {
		return nil
	}
	res, err := w.Chains[chain].App.Query(w.Ctx(chain).Context(), &abci.RequestQuery{Path: "store/" + upgradetypes.StoreKey + "/key", Height: version, Data: key})
	if err != nil || res == nil {
		return nil
	}
	return res.Value
}

func runC25U(outer *testing.T) func(t rapid.TB, c c25uCase, rec *vx.Case) {
	return func(t rapid.TB, c c25uCase, rec *vx.Case) {
		const id = "C25"
		w := sim.NewWorld(outer, 2, nil)
		A, B := w.Chains[0], w.Chains[1]
		cdc := w.App(0).AppCodec()
		_ = A

		path := append([]string(nil), ibctesting.UpgradePath...)
		switch c.ClientPath {
		case "other-key":
			path = []string{"upgrade", "upgradedIBCStateX"}
		case "other-store":
			path = []string{"ibc", "upgradedIBCState"}
		case "single":
			path = []string{"upgrade"}
		case "empty":
			path = []string{}
		}
		own := ibctm.NewClientState(B.ChainID, ibctm.Fraction{Numerator: c.TrustN, Denominator: c.TrustD},
			time.Duration(c.TrustingS)*time.Second, time.Duration(c.UnbondS)*time.Second, time.Duration(c.DriftS)*time.Second,
			clienttypes.ZeroHeight(), commitmenttypes.GetSDKSpecs(), path)
		mk := func(cs *ibctm.ClientState) string {
			w.Block(1, 1)
			hdr := B.LatestCommittedHeader
			cp := *cs
			cp.LatestHeight = hdr.GetHeight().(clienttypes.Height)
			return createClient(w, &cp, hdr.ConsensusState())
		}
		client := mk(own)
		bystander := mk(ibctm.NewClientState(B.ChainID, ibctm.DefaultTrustLevel, ibctesting.TrustingPeriod, ibctesting.UnbondingPeriod, ibctesting.MaxClockDrift,
			clienttypes.ZeroHeight(), commitmenttypes.GetSDKSpecs(), ibctesting.UpgradePath))
		if res := w.UpdateClient(0, client, 1, 0); !res.OK {
			vx.Harnessf("honest update failed: %v", res.Err)
		}
		_ = bystander

		// ---- what B commits -----------------------------------------------------------------------
		rev := clienttypes.ParseChainID(B.ChainID)
		honestPlan := B.GetContext().BlockHeight() + 1 // the height the client will be at after commit + update
		newChain := B.ChainID
		newHeight := clienttypes.NewHeight(rev, uint64(honestPlan+c.NewHOff))
		if c.NewRev {
			newChain, _ = clienttypes.SetRevisionNumber(B.ChainID, rev+1)
			off := c.NewHOff
			if off < 0 {
				off = -off
			}
			newHeight = clienttypes.NewHeight(rev+1, uint64(1+off))
		}
		if c.RevMismatch {
			newChain, _ = clienttypes.SetRevisionNumber(B.ChainID, rev+5)
		}
		newPath := append([]string(nil), ibctesting.UpgradePath...)
		if c.NewPath == "other" {
			newPath = []string{"upgrade", "nextUpgradedIBCState"}
		}
		committed := ibctm.NewClientState(newChain, ibctm.Fraction{Numerator: 9, Denominator: 10}, 77*time.Second, time.Duration(c.NewUnbondNs), 55*time.Second,
			newHeight, commitmenttypes.GetSDKSpecs(), newPath).ZeroCustomFields()
		committedCons := &ibctm.ConsensusState{Timestamp: w.Coord.CurrentTime, NextValidatorsHash: sha("upgraded-next-vals")}
		committedBz, err := clienttypes.MarshalClientState(cdc, committed)
		if err != nil {
			vx.Harnessf("marshal: %v", err)
		}
		committedConsBz, err := clienttypes.MarshalConsensusState(cdc, committedCons)
		if err != nil {
			vx.Harnessf("marshal: %v", err)
		}
		planH := honestPlan + c.PlanOff
		uk := w.App(1).UpgradeKeeper
		if err := uk.SetUpgradedClient(B.GetContext(), planH, committedBz); err != nil {
			vx.Harnessf("SetUpgradedClient: %v", err)
		}
		if c.CommitCons {
			if err := uk.SetUpgradedConsensusState(B.GetContext(), planH, committedConsBz); err != nil {
				vx.Harnessf("SetUpgradedConsensusState: %v", err)
			}
		}
		w.Block(1, 1)
		if res := w.UpdateClient(0, client, 1, 0); !res.OK {
			vx.Harnessf("honest update failed: %v", res.Err)
		}
		if c.Extra {
			if res := w.UpdateClient(0, client, 1, 0); !res.OK {
				vx.Harnessf("honest update failed: %v", res.Err)
			}
		}
		before := tmClientState(w, client)
		L := before.LatestHeight
		if !c.Extra && int64(L.RevisionHeight) != honestPlan {
			vx.Harnessf("client latest %s, expected plan height %d", L, honestPlan)
		}

		// ---- what the relayer submits ---------------------------------------------------------------
		sub := *committed
		sub.ProofSpecs = commitmenttypes.GetSDKSpecs()
		sub.UpgradePath = append([]string(nil), committed.UpgradePath...)
		switch c.Submit {
		case "custom", "committed":
		case "unbonding":
			sub.UnbondingPeriod += time.Duration(1 + c.Arg%1000)
		case "chain-id":
			sub.ChainId = "x" + sub.ChainId
		case "height":
			sub.LatestHeight = clienttypes.NewHeight(sub.LatestHeight.RevisionNumber, sub.LatestHeight.RevisionHeight+1+uint64(c.Arg%5))
		case "path":
			sub.UpgradePath = []string{"upgrade", "relayerChosen"}
		case "specs":
			sp := sub.ProofSpecs
			sub.ProofSpecs = append(sp[:0:0], sp[1], sp[0])
		}
		if c.Submit != "committed" {
			// relayer-chosen custom fields: must be ignored by the upgrade
			sub.TrustLevel = ibctm.Fraction{Numerator: 2, Denominator: 3}
			if c.TrustN == 2 && c.TrustD == 3 {
				sub.TrustLevel = ibctm.Fraction{Numerator: 1, Denominator: 2}
			}
			sub.TrustingPeriod = time.Duration(c.TrustingS)*time.Second + 17*time.Second
			sub.MaxClockDrift = time.Duration(c.DriftS)*time.Second + 3*time.Second
			sub.AllowUpdateAfterExpiry = c.Arg%2 == 0
		}
		subCons := *committedCons
		switch c.SubmitCons {
		case "nextvals":
			subCons.NextValidatorsHash = sha("other-next-vals", c.Arg)
		case "timestamp":
			subCons.Timestamp = subCons.Timestamp.Add(time.Duration(1 + c.Arg%1000))
		}

		proof := func(kind string, which string) []byte {
			keyFor := func(h int64, what string) []byte {
				if what == "client" {
					return upgradetypes.UpgradedClientKey(h)
				}
				return upgradetypes.UpgradedConsStateKey(h)
			}
			key, ph := keyFor(int64(L.RevisionHeight), which), L.RevisionHeight
			switch kind {
			case "other-key":
				if which == "client" {
					key = keyFor(int64(L.RevisionHeight), "cons")
				} else {
					key = keyFor(int64(L.RevisionHeight), "client")
				}
			case "other-plan": // a genuine proof of what B committed, wherever B committed it
				key = keyFor(planH, which)
				if planH == int64(L.RevisionHeight) {
					key = keyFor(planH+1, which)
				}
			case "other-height":
				ph = L.RevisionHeight - 1
			case "empty":
				return nil
			}
			bz, _ := w.ProofForStore(1, upgradetypes.StoreKey, key, ph)
			if kind == "mutated" && len(bz) > 0 {
				bz = flipBit(bz, 8*(len(bz)/2)+c.Arg%8)
			}
			return bz
		}
		pc, pcs := proof(c.ProofClient, "client"), proof(c.ProofCons, "cons")

		// ---- reference ------------------------------------------------------------------------------
		var failed []string
		if !sub.LatestHeight.GT(L) {
			failed = append(failed, "height-not-greater")
		}
		realPath := len(before.UpgradePath) == 2 && before.UpgradePath[0] == upgradetypes.StoreKey && before.UpgradePath[1] == upgradetypes.KeyUpgradedIBCState
		if !realPath {
			failed = append(failed, "upgrade-path")
		}
		version := int64(L.RevisionHeight) - 1 // the consensus state at L commits to B's state after block L-1
		wantClient, err := clienttypes.MarshalClientState(cdc, sub.ZeroCustomFields())
		if err != nil {
			vx.Harnessf("marshal: %v", err)
		}
		wantCons, err := clienttypes.MarshalConsensusState(cdc, &subCons)
		if err != nil {
			vx.Harnessf("marshal: %v", err)
		}
		gotClient := upgradeStoreGet(w, 1, upgradetypes.UpgradedClientKey(int64(L.RevisionHeight)), version)
		gotCons := upgradeStoreGet(w, 1, upgradetypes.UpgradedConsStateKey(int64(L.RevisionHeight)), version)
		if len(gotClient) == 0 || !bytes.Equal(gotClient, wantClient) {
			failed = append(failed, "client-not-committed")
		}
		if len(gotCons) == 0 || !bytes.Equal(gotCons, wantCons) {
			failed = append(failed, "consensus-state-not-committed")
		}
		allowed := len(failed) == 0

		msg, err := clienttypes.NewMsgUpgradeClient(client, &sub, &subCons, pc, pcs, signer(w))
		if err != nil {
			vx.Harnessf("NewMsgUpgradeClient: %v", err)
		}
		pre := w.Snapshot(0)
		res := w.Deliver(0, 0, msg)
		post := w.Snapshot(0)
		diff := rawDiff(pre, post)

		shrunk := time.Duration(c.NewUnbondNs) < before.UnbondingPeriod
		rec.Class("client-path:%s", c.ClientPath)
		rec.Class("proof-client:%s", c.ProofClient)
		rec.Class("proof-cons:%s", c.ProofCons)
		rec.Class("submit:%s/%s", c.Submit, c.SubmitCons)
		rec.Class("plan-off:%d extra:%v commit-cons:%v", c.PlanOff, c.Extra, c.CommitCons)
		switch {
		case c.NewRev:
			rec.Class("height:new-revision")
		case sub.LatestHeight.GT(L):
			rec.Class("height:greater")
		case sub.LatestHeight.EQ(L):
			rec.Class("height:equal")
		default:
			rec.Class("height:lower")
		}
		switch {
		case shrunk:
			rec.Class("unbonding:shrunk")
		case time.Duration(c.NewUnbondNs) == before.UnbondingPeriod:
			rec.Class("unbonding:same")
		default:
			rec.Class("unbonding:grown")
		}
		rec.Class("reference-failures:%d", len(failed))
		for _, f := range failed {
			rec.Class("reference-fails:%s", f)
		}

		if !res.OK {
			rec.Class("outcome:rejected")
			if allowed {
				rec.Add("allowed_but_rejected", 1)
				switch {
				case c.ProofClient != "ok" || c.ProofCons != "ok":
					rec.Add("allowed_but_rejected/bad-proof", 1)
				case c.RevMismatch:
					rec.Add("allowed_but_rejected/revision-mismatch-invalid-client", 1)
				case shrunk && scaledTrusting(before.TrustingPeriod, before.UnbondingPeriod, c.NewUnbondNs) == 0:
					rec.Add("allowed_but_rejected/scaled-trusting-period-zero", 1)
				default:
					rec.Add("allowed_but_rejected/other", 1)
				}
			} else {
				rec.Add("forbidden_rejected", 1)
			}
			if bad := outsideNamespace(diff, "\x00none"); len(bad) > 0 {
				vx.Violatef(t, rec, id, "failed-upgrade-changes-state", "failed upgrade changed %v", bad)
			}
		} else {
			rec.Class("outcome:upgraded")
			rec.Add("upgraded", 1)
			if !allowed {
				vx.Violatef(t, rec, id, "upgraded-"+failed[0], "upgrade of %s (latest %s, path %v) to %s succeeded although: %v", client, L, before.UpgradePath, sub.LatestHeight, failed)
			}
			after := tmClientState(w, client)
			if after.TrustLevel != before.TrustLevel {
				vx.Violatef(t, rec, id, "upgrade-trust-level-not-own", "trust level after upgrade %v, the client's own was %v", after.TrustLevel, before.TrustLevel)
			}
			if after.MaxClockDrift != before.MaxClockDrift {
				vx.Violatef(t, rec, id, "upgrade-clock-drift-not-own", "max clock drift after upgrade %s, the client's own was %s", after.MaxClockDrift, before.MaxClockDrift)
			}
			want := before.TrustingPeriod
			if shrunk {
				want = scaledTrusting(before.TrustingPeriod, before.UnbondingPeriod, c.NewUnbondNs)
				rec.Add("upgraded_with_shrunk_unbonding", 1)
			}
			if after.TrustingPeriod != want {
				vx.Violatef(t, rec, id, "upgrade-trusting-period", "trusting period after upgrade %d ns, expected %d ns (own %d, unbonding %d -> %d)", after.TrustingPeriod, want, before.TrustingPeriod, before.UnbondingPeriod, c.NewUnbondNs)
			}
			if !after.LatestHeight.GT(L) || !after.LatestHeight.EQ(sub.LatestHeight) {
				vx.Violatef(t, rec, id, "upgrade-height", "latest height after upgrade %s (was %s, upgraded client says %s)", after.LatestHeight, L, sub.LatestHeight)
			}
			if bad := outsideNamespace(diff, client); len(bad) > 0 {
				vx.Violatef(t, rec, id, "upgrade-writes-outside-client", "upgrade of %s changed keys outside its namespace: %v", client, bad)
			}
		}
		rec.NonTrivialIf(shrunk)
	}
}

func genC25U(t *rapid.T) c25uCase {
	pick := func(l string, xs ...string) string { return xs[upick(t, len(xs), l)] }
	c := c25uCase{CommitCons: true, ProofClient: "ok", ProofCons: "ok", Submit: "custom", SubmitCons: "committed", ClientPath: "default", NewPath: "default",
		Arg: rapid.IntRange(0, 9999).Draw(t, "arg")}
	tl := rapid.SampledFrom([][2]uint64{{1, 3}, {1, 2}, {2, 3}, {3, 4}}).Draw(t, "trust")
	c.TrustN, c.TrustD = tl[0], tl[1]
	c.TrustingS = int64(rapid.IntRange(3600, 14*86400).Draw(t, "trusting"))
	c.UnbondS = c.TrustingS + int64(rapid.IntRange(1, 21*86400).Draw(t, "unbond-extra"))
	c.DriftS = int64(rapid.IntRange(1, 600).Draw(t, "drift"))
	c.NewRev = rapid.Bool().Draw(t, "new-rev")
	c.NewHOff = 1 + int64(rapid.IntRange(0, 20).Draw(t, "new-h"))
	c.NewPath = pick("new-path", "default", "default", "other")
	old := c.UnbondS * int64(time.Second)
	switch pick("unbond", "shrink", "shrink", "shrink", "same", "grow") {
	case "same":
		c.NewUnbondNs = old
	case "grow":
		c.NewUnbondNs = old + int64(rapid.IntRange(1, 1<<40).Draw(t, "grow"))
	default:
		switch pick("shrink-kind", "minus", "fraction", "fraction", "any", "tiny") {
		case "minus":
			c.NewUnbondNs = old - int64(rapid.IntRange(1, 1000).Draw(t, "minus"))
		case "fraction":
			c.NewUnbondNs = old/int64(rapid.IntRange(2, 7).Draw(t, "den"))*int64(rapid.IntRange(1, 6).Draw(t, "num")) + int64(rapid.IntRange(0, 999).Draw(t, "ns"))
			if c.NewUnbondNs >= old {
				c.NewUnbondNs = old - 1
			}
		case "any":
			c.NewUnbondNs = rapid.Int64Range(1, old-1).Draw(t, "any")
		default:
			c.NewUnbondNs = int64(rapid.IntRange(1, 5).Draw(t, "tiny"))
		}
	}
	// zero or one deviation from the honest upgrade (sometimes two)
	nd := rapid.SampledFrom([]int{0, 1, 1, 1, 2, 2}).Draw(t, "deviations")
	for i := 0; i < nd; i++ {
		switch pick("deviation", "height", "client-path", "plan-off", "no-cons", "extra", "proof-client", "proof-cons", "submit", "submit-cons", "rev-mismatch") {
		case "height":
			c.NewRev = false
			c.NewHOff = int64(rapid.IntRange(-3, 0).Draw(t, "h-off"))
		case "client-path":
			c.ClientPath = pick("client-path", "other-key", "other-store", "single", "empty")
		case "plan-off":
			c.PlanOff = int64(rapid.SampledFrom([]int{-1, 1, 2}).Draw(t, "plan-off"))
		case "no-cons":
			c.CommitCons = false
		case "extra":
			c.Extra = true
		case "proof-client":
			c.ProofClient = pick("proof-client", "other-key", "other-plan", "other-height", "mutated", "empty")
		case "proof-cons":
			c.ProofCons = pick("proof-cons", "other-key", "other-plan", "other-height", "mutated", "empty")
		case "submit":
			c.Submit = pick("submit", "committed", "unbonding", "chain-id", "height", "path", "specs")
		case "submit-cons":
			c.SubmitCons = pick("submit-cons", "nextvals", "timestamp")
		case "rev-mismatch":
			c.RevMismatch = true
		}
	}
	return c
}

func TestC25Upgrade(t *testing.T) {
	vx.Check(t, vx.Prop[c25uCase]{
		ID: "C25",
		Rule: "upgrade requests against a client of a REAL second chain that commits an upgraded client / consensus state in its x/upgrade store: the honest request with 0,1 or 2 deviations " +
			"(upgraded height <=,=,> latest or new revision; client upgrade path; plan height off by one; missing consensus state; client moved past the plan; proofs of another key / plan / height, mutated, empty; " +
			"relayer-altered chain-chosen field or consensus state; relayer-chosen custom fields always different from the client's own); unbonding shrunk in ~60% of the cases. " +
			"non-trivial = the upgraded client shrinks the unbonding period; distinctness keyed on the case JSON",
		MinNTFrac: 0.4,
		Assumptions: []string{
			"'both proofs verify under the committed upgrade path' is judged by ground truth: chain B's upgrade store at the version behind the client's latest consensus state holds exactly the submitted (zeroed) client and consensus state under upgradedIBCState/<latest>/..., and the client's path is [upgrade upgradedIBCState]",
			"no upgrade Plan is scheduled on B (ibc-go's own tests do not either): only the upgraded client / consensus state are committed",
			"trusting-period reference = floor(trusting*newUnbonding/oldUnbonding) with math/big; identical to ibc-go's LegacyDec formula for unbonding periods below ~63 years (generated: <= 35 days)",
		},
		Gen: genC25U, Run: runC25U(t)})
}
