// Package vx is the small support library shared by every property check:
// a generic "draw a plain-data history, then run it" runner on top of rapid,
// per-run statistics (evaluations, class histogram, distinct non-trivial cases via a
// mergeable k-minimum-values sketch, samples), replay-file plumbing and the
// known-findings lookup. Nothing in here draws randomness of its own.
package vx

import (
	"crypto/sha256"
	"encoding/binary"
	"encoding/json"
	"fmt"
	"os"
	"runtime/debug"
	"sort"
	"strings"
	"sync"
	"testing"

	"pgregory.net/rapid"
)

// HarnessError is panicked by harness code when the harness itself (not the code under
// test) misbehaves; it is never reported as a property violation.
type HarnessError struct{ Msg string }

func (e HarnessError) Error() string { return "harness: " + e.Msg }

// cur is the case being executed (one at a time per process).
var cur struct {
	tb rapid.TB
	st *Stats
}

// Harnessf aborts the current case as a harness error: it is counted and the case is
// discarded (rapid "skip"); the driver turns too many of them into exit 2. It never
// becomes a property violation.
func Harnessf(format string, args ...any) {
	msg := fmt.Sprintf(format, args...)
	if cur.tb == nil {
		panic(HarnessError{Msg: msg})
	}
	mu.Lock()
	cur.st.HarnessErrors++
	if cur.st.HarnessSample == "" {
		cur.st.HarnessSample = msg
	}
	mu.Unlock()
	cur.tb.Skipf("harness error: %s", msg)
	panic(HarnessError{Msg: msg}) // testing.T.Skipf does runtime.Goexit; rapid panics; not reached
}

// Case is the per-execution recorder handed to a property's Run function.
type Case struct {
	classes    []string
	nontrivial bool
	key        string // distinctness key; defaults to the JSON of the history
	metrics    map[string]int64
	known      []string
}

// Class tags the case with a class label (counted in the histogram).
func (c *Case) Class(format string, args ...any) {
	if c == nil {
		return
	}
	s := format
	if len(args) > 0 {
		s = fmt.Sprintf(format, args...)
	}
	for _, e := range c.classes {
		if e == s {
			return
		}
	}
	c.classes = append(c.classes, s)
}

// NonTrivial marks the case non-trivial by the property's stated rule.
func (c *Case) NonTrivial() {
	if c != nil {
		c.nontrivial = true
	}
}

// NonTrivialIf marks the case non-trivial when cond holds.
func (c *Case) NonTrivialIf(cond bool) {
	if c != nil && cond {
		c.nontrivial = true
	}
}

// Key overrides the distinctness key of the case.
func (c *Case) Key(format string, args ...any) {
	if c != nil {
		c.key = fmt.Sprintf(format, args...)
	}
}

// Add adds n to a named numeric metric (summed over the run).
func (c *Case) Add(name string, n int64) {
	if c == nil {
		return
	}
	if c.metrics == nil {
		c.metrics = map[string]int64{}
	}
	c.metrics[name] += n
}

// Known records that a listed known finding was re-observed in this case.
func (c *Case) Known(sig string) {
	if c != nil {
		c.known = append(c.known, sig)
	}
}

const kmvK = 1 << 16

// Stats is what one process writes for the driver.
type Stats struct {
	ID            string           `json:"id"`
	Test          string           `json:"test"`
	Rule          string           `json:"rule"`
	Evaluations   int64            `json:"evaluations"`
	NonTrivial    int64            `json:"nontrivial"`
	Classes       map[string]int64 `json:"classes"`
	Metrics       map[string]int64 `json:"metrics"`
	KMV           []uint64         `json:"kmv"` // k smallest 64-bit hashes of distinct non-trivial keys
	Samples       []any            `json:"samples"`
	HarnessErrors int64            `json:"harness_errors"`
	HarnessSample string           `json:"harness_sample,omitempty"`
	Known         map[string]int64 `json:"known"`
	Failed        bool             `json:"failed"`
	FailMsg       string           `json:"fail_msg,omitempty"`
	MinNTFrac     float64          `json:"min_nt_frac"`
	Assumptions   []string         `json:"assumptions,omitempty"`

	kmvSet      map[uint64]struct{}
	kmvMax      uint64
	sampleClass map[string]bool
}

var (
	mu       sync.Mutex
	allStats = map[string]*Stats{}
)

func getStats(id, test string) *Stats {
	k := id + "/" + test
	s, ok := allStats[k]
	if !ok {
		s = &Stats{ID: id, Test: test, Classes: map[string]int64{}, Metrics: map[string]int64{}, Known: map[string]int64{},
			kmvSet: map[uint64]struct{}{}, sampleClass: map[string]bool{}}
		allStats[k] = s
	}
	return s
}

func (s *Stats) addDigest(h uint64) {
	if _, ok := s.kmvSet[h]; ok {
		return
	}
	if len(s.kmvSet) < kmvK {
		s.kmvSet[h] = struct{}{}
		if h > s.kmvMax {
			s.kmvMax = h
		}
		return
	}
	if h >= s.kmvMax {
		return
	}
	delete(s.kmvSet, s.kmvMax)
	s.kmvSet[h] = struct{}{}
	var m uint64
	for v := range s.kmvSet {
		if v > m {
			m = v
		}
	}
	s.kmvMax = m
}

func truncateSample(v any) any {
	b, err := json.Marshal(v)
	if err != nil {
		return fmt.Sprintf("%+v", v)
	}
	if len(b) > 6000 {
		return string(b[:6000]) + "...(truncated)"
	}
	return json.RawMessage(b)
}

func (s *Stats) record(c *Case, h any) {
	s.Evaluations++
	for _, cl := range c.classes {
		s.Classes[cl]++
	}
	for k, v := range c.metrics {
		s.Metrics[k] += v
	}
	for _, k := range c.known {
		s.Known[k]++
	}
	if c.nontrivial {
		s.NonTrivial++
		key := c.key
		if key == "" {
			b, _ := json.Marshal(h)
			key = string(b)
		}
		sum := sha256.Sum256([]byte(key))
		s.addDigest(binary.BigEndian.Uint64(sum[:8]))
	}
	// samples: first two non-trivial cases, then the first case of each new class (cap 6)
	if len(s.Samples) < 6 {
		take := false
		if c.nontrivial && s.NonTrivial <= 2 {
			take = true
		}
		for _, cl := range c.classes {
			if !s.sampleClass[cl] && (c.nontrivial || len(s.Samples) < 2) {
				take = true
			}
		}
		if take {
			for _, cl := range c.classes {
				s.sampleClass[cl] = true
			}
			s.Samples = append(s.Samples, map[string]any{"classes": c.classes, "nontrivial": c.nontrivial, "case": truncateSample(h)})
		}
	}
}

// Flush writes all statistics to $VERIF_STATS (a JSON list). Called from TestMain.
func Flush() {
	path := os.Getenv("VERIF_STATS")
	if path == "" {
		return
	}
	mu.Lock()
	defer mu.Unlock()
	var out []*Stats
	keys := make([]string, 0, len(allStats))
	for k := range allStats {
		keys = append(keys, k)
	}
	sort.Strings(keys)
	for _, k := range keys {
		s := allStats[k]
		s.KMV = s.KMV[:0]
		for v := range s.kmvSet {
			s.KMV = append(s.KMV, v)
		}
		sort.Slice(s.KMV, func(i, j int) bool { return s.KMV[i] < s.KMV[j] })
		out = append(out, s)
	}
	b, _ := json.Marshal(out)
	_ = os.WriteFile(path, b, 0o644)
}

// Main is the TestMain body for every props package.
func Main(m *testing.M) {
	code := m.Run()
	Flush()
	os.Exit(code)
}

// ---- known findings ---------------------------------------------------------------

type knownEntry struct {
	Property  string `json:"property"`
	Signature string `json:"signature"`
	Status    string `json:"status"` // "known" or "fixed"
}

var (
	knownOnce sync.Once
	knownSet  map[string]bool
)

// IsKnown reports whether (property, signature) is listed as a recorded (not fixed)
// finding in the known-findings file named by $VERIF_KNOWN.
func IsKnown(id, sig string) bool {
	knownOnce.Do(func() {
		knownSet = map[string]bool{}
		p := os.Getenv("VERIF_KNOWN")
		if p == "" {
			return
		}
		b, err := os.ReadFile(p)
		if err != nil {
			return
		}
		var f struct {
			Findings []knownEntry `json:"findings"`
		}
		if json.Unmarshal(b, &f) != nil {
			return
		}
		for _, e := range f.Findings {
			if e.Status == "known" {
				knownSet[e.Property+"|"+e.Signature] = true
			}
		}
	})
	return knownSet[id+"|"+sig]
}

// ---- the runner -------------------------------------------------------------------

// Prop describes one executable property over plain-data histories of type H.
type Prop[H any] struct {
	ID   string
	Rule string
	// MinNTFrac is the floor for the fraction of non-trivial cases; the driver turns a
	// run below the floor into "inconclusive" (exit 2), never into a pass.
	MinNTFrac   float64
	Assumptions []string
	Gen         func(t *rapid.T) H
	// Run executes one history. It must be a pure function of h and the code under
	// test. Report a violation with Violatef / t.Fatalf.
	Run func(t rapid.TB, h H, c *Case)
}

// Violatef reports a property violation with a structural signature. When the
// signature is a recorded known finding it is counted and the function returns true
// (the caller should stop checking this case); otherwise the test fails.
func Violatef(t rapid.TB, c *Case, id, sig, format string, args ...any) bool {
	t.Helper()
	if sig != "" && IsKnown(id, sig) {
		c.Known(sig)
		return true
	}
	t.Fatalf("VIOLATION property=%s sig=%q: %s", id, sig, fmt.Sprintf(format, args...))
	return false
}

type lastCase struct {
	json []byte
}

// Check runs the property under rapid (or replays a single saved history when
// $VERIF_REPLAY_IN is set) and keeps statistics.
func Check[H any](t *testing.T, p Prop[H]) {
	t.Helper()
	st := getStats(p.ID, t.Name())
	st.Rule = p.Rule
	st.MinNTFrac = p.MinNTFrac
	st.Assumptions = p.Assumptions

	exec := func(tb rapid.TB, h H, counted bool) {
		c := &Case{}
		cur.tb, cur.st = tb, st
		p.Run(tb, h, c)
		cur.tb = nil
		if counted && !tb.Failed() {
			mu.Lock()
			st.record(c, h)
			mu.Unlock()
		}
	}

	if in := os.Getenv("VERIF_REPLAY_IN"); in != "" {
		b, err := os.ReadFile(in)
		if err != nil {
			t.Fatalf("replay: %v", err)
		}
		var h H
		if err := json.Unmarshal(b, &h); err != nil {
			t.Fatalf("replay: cannot decode %s: %v", in, err)
		}
		exec(t, h, true)
		return
	}

	var last lastCase
	t.Cleanup(func() {
		if t.Failed() {
			mu.Lock()
			st.Failed = true
			mu.Unlock()
			if out := os.Getenv("VERIF_REPLAY_OUT"); out != "" && last.json != nil {
				_ = os.WriteFile(out, last.json, 0o644)
			}
		}
	})
	rapid.Check(t, func(rt *rapid.T) {
		h := p.Gen(rt)
		last.json, _ = json.MarshalIndent(h, "", " ")
		exec(rt, h, true)
	})
}

// Recover runs f and converts a panic into an error string (used by no-panic
// properties, where a panic IS the violation).
func Recover(f func()) (panicked bool, msg string) {
	defer func() {
		if r := recover(); r != nil {
			if he, ok := r.(HarnessError); ok {
				panic(he)
			}
			panicked = true
			st := string(debug.Stack())
			if i := strings.Index(st, "panic("); i >= 0 {
				st = st[i:]
			}
			if len(st) > 1500 {
				st = st[:1500]
			}
			msg = fmt.Sprintf("%v\n%s", r, st)
		}
	}()
	f()
	return false, ""
}
