package pkta

import (
	"testing"

	"pgregory.net/rapid"

	"github.com/cosmos/ibc-go/v11/modules/apps/callbacks/verifx/pktsim"
	"github.com/cosmos/ibc-go/v11/modules/apps/callbacks/verifx/sim"
	"github.com/cosmos/ibc-go/v11/modules/apps/callbacks/verifx/vx"
)

// C03: for every packet a chain commits, the sending application observes at most one of
// {acknowledgement, timeout}, at most once. After either has been processed the packet
// commitment is gone and any further acknowledgement / timeout / timeout-on-close relay for
// that packet is a no-op (no committed callback, state snapshot unchanged). Before it, the
// commitment is present (commitment present <=> no terminal outcome yet, for sent packets).
//
// Observation point: the scripted mock applications' callback log on the source chain keyed by
// pktsim.SrcKey, and the commitment key in the source chain's IBC store.

// terminalKind returns the kind ("ack" / "timeout") of the first committed terminal callback
// the sending application saw for key k ("" if none).
func terminalKind(w *sim.World, k pktsim.EvKey) string {
	for _, e := range w.Log {
		if !e.Reverted && (e.Kind == "ack" || e.Kind == "timeout") && e.Chain == k.Chain && e.ID == k.ID && e.Seq == k.Seq {
			return e.Kind
		}
	}
	return ""
}

func runC03(outer *testing.T) func(t rapid.TB, h pktsim.History, rec *vx.Case) {
	return func(t rapid.TB, h pktsim.History, rec *vx.Case) {
		const id = "C03"
		w := pktsim.NewWorld(outer, h)
		type subm struct{ ack, to, late bool }
		submitted := map[int]*subm{} // by packet index
		var acksOK, timeoutsOK, tocOK, late, lateNoop, lateRejected, pending, revertedCb int64
		for i, op := range h.Ops {
			termBefore := pktsim.CommittedSteps(w, "ack", "timeout")
			st := execX(w, i, op)
			kind := relayKind(w, st)
			if kind == "ack" || kind == "timeout" || kind == "toc" {
				p := st.Pkt
				key := pktsim.SrcKey(w, p)
				lk := w.Links[p.Link].Kind
				s := submitted[p.Idx]
				if s == nil {
					s = &subm{}
					submitted[p.Idx] = s
				}
				if kind == "ack" {
					s.ack = true
				} else {
					s.to = true
				}
				cb := committedIn(w, st, "ack", "timeout")
				if len(termBefore[key]) > 0 {
					// the packet already had its terminal outcome: this relay must be a no-op
					late++
					s.late = true
					rec.Class("late-%s-after-%s", kind, terminalKind(w, key))
					rec.Class("late-on-%s", lk)
					if len(cb) > 0 {
						vx.Violatef(t, rec, id, "late-relay-reaches-app", "step %d: %s relay for %s after its terminal outcome (%s at step %v) committed %d callback(s) (first: %s chain %d %s seq %d); %s", i, kind, p, terminalKind(w, key), termBefore[key], len(cb), cb[0].Kind, cb[0].Chain, cb[0].ID, cb[0].Seq, pktsim.Describe(st))
					}
					if d := stateDiff(st.Before, st.After); len(d) > 0 {
						vx.Violatef(t, rec, id, "late-relay-changes-state", "step %d: %s relay for %s after its terminal outcome (%s at step %v) changed state %v; %s", i, kind, p, terminalKind(w, key), termBefore[key], d, pktsim.Describe(st))
					}
					if st.Res.OK && sim.ResultIsNoop(st.Res) {
						lateNoop++
					} else if !st.Res.OK {
						lateRejected++
					}
				} else {
					mine := false
					for _, e := range cb {
						if e.Chain == key.Chain && e.ID == key.ID && e.Seq == key.Seq {
							mine = true
						}
					}
					switch {
					case mine && kind == "ack":
						acksOK++
						rec.Class("ack-ok-%s", lk)
					case mine && kind == "timeout":
						timeoutsOK++
						rec.Class("timeout-ok-%s", lk)
					case mine && kind == "toc":
						tocOK++
						rec.Class("toc-ok-%s", lk)
					default:
						pending++
						if len(w.Log) > st.LogStart && len(cb) == 0 {
							revertedCb++ // callback ran but its transaction was reverted
						}
					}
				}
			}
			// invariants after every step, for every packet ever sent
			term := pktsim.CommittedSteps(w, "ack", "timeout")
			for _, p := range w.Pkts {
				key := pktsim.SrcKey(w, p)
				n := len(term[key])
				if n > 1 {
					vx.Violatef(t, rec, id, "double-terminal", "step %d: %s has committed ack/timeout callbacks in %d transactions (steps %v); %s", i, p, n, term[key], pktsim.Describe(st))
				}
				has := w.HasCommitment(p)
				if n >= 1 && has {
					vx.Violatef(t, rec, id, "commitment-after-terminal", "step %d: %s still has its commitment after its terminal outcome (%s at step %v); %s", i, p, terminalKind(w, key), term[key], pktsim.Describe(st))
				}
				if n == 0 && !has {
					vx.Violatef(t, rec, id, "commitment-gone-without-terminal", "step %d: commitment of %s is absent although the sender observed neither acknowledgement nor timeout; %s", i, p, pktsim.Describe(st))
				}
			}
		}
		raced := 0
		for _, s := range submitted {
			if s.ack && s.to && s.late {
				raced++
			}
		}
		rec.Add("packets", int64(len(w.Pkts)))
		rec.Add("acks_ok", acksOK)
		rec.Add("timeouts_ok", timeoutsOK)
		rec.Add("timeouts_on_close_ok", tocOK)
		rec.Add("relays_before_terminal_not_accepted", pending)
		rec.Add("terminal_callback_reverted", revertedCb)
		rec.Add("late_relays", late)
		rec.Add("late_relays_noop_result", lateNoop)
		rec.Add("late_relays_rejected", lateRejected)
		rec.Add("raced_packets", int64(raced))
		if acksOK > 0 && timeoutsOK+tocOK > 0 {
			rec.Class("ack-and-timeout-outcomes-in-one-history")
		}
		rec.NonTrivialIf(raced >= 1)
	}
}

// genC03 draws histories made of episodes. An episode sends one packet (short or long timeout)
// on some link and then races receive / acknowledgement / timeout / timeout-on-close /
// verbatim duplicates for the most recent packets, with blocks and clock jumps that let short
// timeouts pass and channel closes that enable timeout-on-close.
func genC03(maxOps int) func(t *rapid.T) pktsim.History {
	return func(t *rapid.T) pktsim.History {
		h := pktsim.History{}
		switch rapid.IntRange(0, 3).Draw(t, "world") {
		case 0:
			h.Links = []int{int(sim.V1Unordered), int(sim.V2Alias)}
		case 1:
			h.Links = []int{int(sim.V1Ordered), int(sim.V2Clients)}
		case 2:
			h.Links = []int{int(sim.V1Ordered), int(sim.V1Unordered)}
		default:
			h.Links = []int{int(sim.V1Unordered), int(sim.V1Ordered), int(sim.V2Clients), int(sim.V2Alias)}
		}
		sig := func() int { return rapid.IntRange(0, 2).Draw(t, "sig") }
		target := func() int { // mostly the packet of this episode, sometimes an older one
			if x := rapid.IntRange(0, 9).Draw(t, "older"); x >= 8 {
				return -(x - 6) // -2, -3
			}
			return -1
		}
		add := func(op pktsim.Op) { op.Sig = sig(); h.Ops = append(h.Ops, op) }
		relay := func(k string) {
			add(pktsim.Op{K: k, P: target(), H: genSel(t, 88)})
		}
		pass := func(dstChain int) { // let time / destination height advance
			if rapid.Bool().Draw(t, "passByTime") {
				add(pktsim.Op{K: "time", N: rapid.IntRange(5, 90).Draw(t, "secs")})
			} else {
				add(pktsim.Op{K: "block", D: dstChain, N: rapid.IntRange(0, 2).Draw(t, "nblocks")})
			}
		}
		nEp := rapid.IntRange(1, 4).Draw(t, "episodes")
		l0 := rapid.IntRange(0, len(h.Links)-1).Draw(t, "firstLink")
		n := 0
		for ep := 0; ep < nEp && len(h.Ops) < maxOps-6; ep++ {
			l := (l0 + ep) % len(h.Links)
			if rapid.IntRange(0, 4).Draw(t, "sameLink") == 0 {
				l = l0
			}
			kind := sim.LinkKind(h.Links[l])
			v2 := kind == sim.V2Clients || kind == sim.V2Alias
			dir := rapid.IntRange(0, 1).Draw(t, "dir")
			dst := 1 - dir // chains are indexed like link sides in pktsim worlds
			plan := rapid.SampledFrom([]string{"timeoutFirst", "ackFirst", "free", "timeoutFirst", "ackFirst", "tocFirst"}).Draw(t, "plan")
			if plan == "tocFirst" && v2 {
				plan = "timeoutFirst"
			}
			send := pktsim.Op{K: "send", L: l, D: dir}
			np := 1
			if v2 {
				np = rapid.IntRange(1, 2).Draw(t, "npayloads")
			}
			for j := 0; j < np; j++ {
				s := genScript(t, n, []string{"ok", "ok", "ok", "err"})
				n++
				switch rapid.IntRange(0, 11).Draw(t, "cbScript") {
				case 10:
					s.Ack = "err"
				case 11:
					s.TO = "err"
				}
				send.S = append(send.S, s)
				send.App = append(send.App, rapid.SampledFrom([]string{"A", "B"}).Draw(t, "app"))
			}
			short := plan == "timeoutFirst" || rapid.IntRange(0, 2).Draw(t, "short") != 0
			if short {
				if v2 || rapid.Bool().Draw(t, "byTime") {
					send.TT = rapid.IntRange(5, 60).Draw(t, "tt")
				} else {
					send.TH = rapid.IntRange(1, 6).Draw(t, "th")
				}
			}
			add(send)
			var pool []string
			switch plan {
			case "ackFirst":
				relay("recv")
				relay("ack")
				pool = []string{"timeout", "dupterm", "ack", "toc", "pass", "timeout", "replay"}
			case "timeoutFirst":
				for k := rapid.IntRange(1, 3).Draw(t, "passes"); k > 0; k-- {
					pass(dst)
				}
				relay("timeout")
				pool = []string{"ack", "dupterm", "timeout", "recv", "toc", "pass", "replay"}
			case "tocFirst":
				add(pktsim.Op{K: "close", L: l, D: dst})
				relay("toc")
				pool = []string{"timeout", "dupterm", "toc", "ack", "recv", "pass"}
			default:
				pool = []string{"recv", "ack", "timeout", "pass", "dupterm", "toc", "replay", "close"}
			}
			for k := rapid.IntRange(2, 6).Draw(t, "tail"); k > 0 && len(h.Ops) < maxOps; k-- {
				switch x := rapid.SampledFrom(pool).Draw(t, "tailKind"); x {
				case "pass":
					pass(dst)
				case "dupterm":
					add(pktsim.Op{K: "dupterm", N: rapid.IntRange(0, 3).Draw(t, "which")})
				case "replay":
					add(pktsim.Op{K: "replay", N: rapid.IntRange(0, 40).Draw(t, "which")})
				case "close":
					add(pktsim.Op{K: "close", L: l, D: rapid.IntRange(0, 1).Draw(t, "side")})
				default:
					relay(x)
				}
			}
		}
		return h
	}
}

func TestC03(t *testing.T) {
	vx.Check(t, vx.Prop[pktsim.History]{
		ID:        "C03",
		Rule:      "histories of 1-4 episodes over 2 chains with v1-unordered, v1-ordered, v2 and v2-alias links; an episode sends a packet (short height/time timeout or long) and races recv / ack / timeout / timeout-on-close / verbatim duplicates for the recent packets, with blocks, clock jumps and channel closes; non-trivial = >=1 packet that reached a terminal outcome, got a further ack/timeout relay afterwards, and had both an acknowledgement and a timeout message submitted; distinct by full history",
		MinNTFrac: 0.3,
		Gen:       genC03(32),
		Run:       runC03(t),
	})
}
