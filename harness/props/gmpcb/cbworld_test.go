package gmpcb

import (
	"encoding/json"
	"fmt"
	"testing"

	dbm "github.com/cosmos/cosmos-db"

	"cosmossdk.io/log/v2"

	"github.com/cosmos/cosmos-sdk/client"
	simtestutil "github.com/cosmos/cosmos-sdk/testutil/sims"
	sdk "github.com/cosmos/cosmos-sdk/types"

	abci "github.com/cometbft/cometbft/abci/types"

	cbsimapp "github.com/cosmos/ibc-go/v11/modules/apps/callbacks/testing/simapp"
	ibctesting "github.com/cosmos/ibc-go/v11/testing"

	"github.com/cosmos/ibc-go/v11/modules/apps/callbacks/verifx/sim"
	"github.com/cosmos/ibc-go/v11/modules/apps/callbacks/verifx/vx"
)

// A two-chain world on the callbacks test application (transfer and gmp wrapped by the
// callbacks middleware, mock contract keeper with overridable callbacks). sim.World assumes
// the default simapp, so this file has its own minimal driver on top of ibctesting.

type shimTB struct{ testing.TB }

func (s shimTB) Errorf(format string, args ...any) {
	vx.Harnessf("ibctesting assertion: "+format, args...)
}
func (s shimTB) Error(args ...any)                 { vx.Harnessf("ibctesting assertion: %s", fmt.Sprint(args...)) }
func (s shimTB) Fatalf(format string, args ...any) { vx.Harnessf("ibctesting fatal: "+format, args...) }
func (s shimTB) Fatal(args ...any)                 { vx.Harnessf("ibctesting fatal: %s", fmt.Sprint(args...)) }
func (s shimTB) FailNow()                          { vx.Harnessf("ibctesting FailNow") }
func (s shimTB) Fail()                             { vx.Harnessf("ibctesting Fail") }

func cbAppCreator() (ibctesting.TestingApp, map[string]json.RawMessage) {
	app := cbsimapp.NewSimApp(log.NewNopLogger(), dbm.NewMemDB(), nil, true, simtestutil.EmptyAppOptions{})
	return app, app.DefaultGenesis()
}

type cbWorld struct {
	Coord *ibctesting.Coordinator
	A, B  *ibctesting.TestChain
	Path  *ibctesting.Path
}

func cbApp(c *ibctesting.TestChain) *cbsimapp.SimApp {
	app, ok := c.App.(*cbsimapp.SimApp)
	if !ok {
		vx.Harnessf("chain app is %T, not the callbacks simapp", c.App)
	}
	return app
}

func newCbWorld(outer *testing.T) *cbWorld {
	w := &cbWorld{}
	sim.Guard("callbacks world setup", func() {
		w.Coord = ibctesting.NewCustomAppCoordinator(outer, 2, cbAppCreator)
		w.A = w.Coord.GetChain(ibctesting.GetChainID(1))
		w.B = w.Coord.GetChain(ibctesting.GetChainID(2))
		w.A.TB, w.B.TB = shimTB{outer}, shimTB{outer}
		w.Path = ibctesting.NewPath(w.A, w.B)
	})
	return w
}

// gasTxConfig makes every transaction built through it carry a fixed gas limit (ibctesting
// hard-codes the gas limit of the transactions it signs).
type gasTxConfig struct {
	client.TxConfig
	gas uint64
}

func (c gasTxConfig) NewTxBuilder() client.TxBuilder {
	return gasTxBuilder{TxBuilder: c.TxConfig.NewTxBuilder(), gas: c.gas}
}

type gasTxBuilder struct {
	client.TxBuilder
	gas uint64
}

func (b gasTxBuilder) SetGasLimit(uint64) { b.TxBuilder.SetGasLimit(b.gas) }

type cbTx struct {
	Res *abci.ExecTxResult
	Err error
	OK  bool
}

// deliver signs msgs with the chain's first account and delivers them as one transaction in
// one block; gas > 0 overrides the transaction's gas limit. A failing transaction is a
// normal outcome.
func (w *cbWorld) deliver(c *ibctesting.TestChain, gas uint64, msgs ...sdk.Msg) cbTx {
	acc := c.SenderAccount
	if on := cbApp(c).AccountKeeper.GetAccount(c.GetContext(), acc.GetAddress()); on != nil {
		_ = acc.SetSequence(on.GetSequence())
	}
	orig := c.TxConfig
	if gas > 0 {
		c.TxConfig = gasTxConfig{TxConfig: orig, gas: gas}
	}
	var out cbTx
	func() {
		defer func() { c.TxConfig = orig }()
		sim.Guard("SendMsgs", func() { out.Res, out.Err = c.SendMsgs(msgs...) })
	}()
	out.OK = out.Err == nil && out.Res != nil && out.Res.Code == 0
	return out
}

// updateClient updates the client on ep's chain with the counterparty's latest header.
func updateClient(ep *ibctesting.Endpoint) {
	sim.Guard("UpdateClient", func() {
		if err := ep.UpdateClient(); err != nil {
			vx.Harnessf("UpdateClient: %v", err)
		}
	})
}
