package purea

import (
	"bytes"
	"encoding/binary"
	"fmt"
	"math"
	"regexp"
	"sort"
	"strconv"
	"strings"
	"testing"

	"pgregory.net/rapid"

	clienttypes "github.com/cosmos/ibc-go/v11/modules/core/02-client/types"
	channeltypesv2 "github.com/cosmos/ibc-go/v11/modules/core/04-channel/v2/types"
	host "github.com/cosmos/ibc-go/v11/modules/core/24-host"
	hostv2 "github.com/cosmos/ibc-go/v11/modules/core/24-host/v2"

	"github.com/cosmos/ibc-go/v11/modules/apps/callbacks/verifx/vx"
)

// C16 (pure part): store keys of distinct protocol objects never collide (v1 x v1, v2 x v2,
// v1 x v2), and prefix iteration for one client / channel returns exactly its entries.
//
// A key is identified by the tuple (kind, ids..., sequence / path). The oracle is
//   (a) pairwise: two different tuples of a generated batch never produce equal key bytes;
//   (b) cross-layout inversion: every produced key is parsed back under EVERY key layout by
//       an independent parser; if any layout yields a well-formed tuple other than the one
//       that produced the key, two distinct objects share a key;
//   (c) prefix isolation: for every XPrefixKey(ids) the batch entries whose key bytes start
//       with the prefix are exactly the model's entries of that kind and those ids.
// Precondition taken from the property (DESIGN C16 N): AsyncPacketKey / AliasKey are only
// claimed for generated-format identifiers ({type}-{N}, channel-{N}).

const (
	kChanEnd   = "v1/channelEnd"
	kSeqRecv   = "v1/nextSeqRecv"
	kSeqAck    = "v1/nextSeqAck"
	kCommit    = "v1/commitment"
	kAck       = "v1/ack"
	kReceipt   = "v1/receipt"
	kRecvStart = "v1/recvStartSeq"
	kConn      = "connection"
	kClientSub = "client/sub" // clients/<id>/<path>
	k2Commit   = "v2/commitment"
	k2Receipt  = "v2/receipt"
	k2Ack      = "v2/ack"
	k2SeqSend  = "v2/nextSeqSend"
	kAsync     = "v2/async"
	kAlias     = "v2/alias"
	kGlobal    = "global"
)

var c16Globals = []string{clienttypes.KeyNextClientSequence, "nextConnectionSequence", "nextChannelSequence", "clientParams", "connectionParams"}

// c16T is the abstract identity of a stored object.
type c16T struct {
	K      string
	A, B   string // ids (port, channel) / (id) / (client, path)
	N      uint64
	HasSeq bool
}

func (t c16T) String() string {
	if t.HasSeq {
		return fmt.Sprintf("%s(%q,%q,%d)", t.K, t.A, t.B, t.N)
	}
	return fmt.Sprintf("%s(%q,%q)", t.K, t.A, t.B)
}

// c16Key calls the constructor under test.
func c16Key(t c16T) []byte {
	switch t.K {
	case kChanEnd:
		return host.ChannelKey(t.A, t.B)
	case kSeqRecv:
		return host.NextSequenceRecvKey(t.A, t.B)
	case kSeqAck:
		return host.NextSequenceAckKey(t.A, t.B)
	case kCommit:
		return host.PacketCommitmentKey(t.A, t.B, t.N)
	case kAck:
		return host.PacketAcknowledgementKey(t.A, t.B, t.N)
	case kReceipt:
		return host.PacketReceiptKey(t.A, t.B, t.N)
	case kRecvStart:
		return host.RecvStartSequenceKey(t.A, t.B)
	case kConn:
		return host.ConnectionKey(t.A)
	case kClientSub:
		switch {
		case t.B == host.KeyClientState:
			return host.FullClientStateKey(t.A)
		case t.B == host.KeyConnectionPrefix:
			return host.ClientConnectionsKey(t.A)
		case strings.HasPrefix(t.B, host.KeyConsensusStatePrefix+"/"):
			if h, err := clienttypes.ParseHeight(t.B[len(host.KeyConsensusStatePrefix)+1:]); err == nil {
				return host.FullConsensusStateKey(t.A, h)
			}
		}
		return host.FullClientKey(t.A, []byte(t.B))
	case k2Commit:
		return hostv2.PacketCommitmentKey(t.A, t.N)
	case k2Receipt:
		return hostv2.PacketReceiptKey(t.A, t.N)
	case k2Ack:
		return hostv2.PacketAcknowledgementKey(t.A, t.N)
	case k2SeqSend:
		return hostv2.NextSequenceSendKey(t.A)
	case kAsync:
		return channeltypesv2.AsyncPacketKey(t.A, t.N)
	case kAlias:
		return channeltypesv2.AliasKey(t.A)
	case kGlobal:
		return []byte(t.A)
	}
	vx.Harnessf("unknown kind %q", t.K)
	return nil
}

// ---- independent identifier validity (from the property: the IsValidID alphabet, '/'-free, length ranges)

func c16ValidID(s string, lo, hi int) bool {
	if len(s) < lo || len(s) > hi {
		return false
	}
	for i := 0; i < len(s); i++ {
		c := s[i]
		if !(c >= 'a' && c <= 'z' || c >= 'A' && c <= 'Z' || c >= '0' && c <= '9' || strings.IndexByte("._+-#[]<>", c) >= 0) {
			return false
		}
	}
	return true
}

func c16Port(s string) bool   { return c16ValidID(s, 2, 128) }
func c16Chan(s string) bool   { return c16ValidID(s, 8, 64) }
func c16Client(s string) bool { return c16ValidID(s, 4, 64) }
func c16Conn(s string) bool   { return c16ValidID(s, 10, 64) }
func c16V2ID(s string) bool   { return c16ValidID(s, 4, 64) } // client id or (alias) channel id

var c16GenClientRe = regexp.MustCompile(`^[A-Za-z0-9_]([A-Za-z0-9_-]*[A-Za-z0-9_])?-(0|[1-9][0-9]{0,19})$`)
var c16GenChanRe = regexp.MustCompile(`^channel-(0|[1-9][0-9]{0,19})$`)

func c16GenFormatClient(s string) bool {
	if !c16Client(s) || !c16GenClientRe.MatchString(s) {
		return false
	}
	_, err := strconv.ParseUint(s[strings.LastIndexByte(s, '-')+1:], 10, 64)
	return err == nil
}

func c16GenFormatChan(s string) bool {
	if !c16Chan(s) || !c16GenChanRe.MatchString(s) {
		return false
	}
	_, err := strconv.ParseUint(s[len("channel-"):], 10, 64)
	return err == nil
}

// wellFormed tells whether a tuple denotes an object the property speaks about.
func (t c16T) wellFormed() bool {
	switch t.K {
	case kChanEnd, kSeqRecv, kSeqAck, kRecvStart:
		return c16Port(t.A) && c16Chan(t.B) && !t.HasSeq
	case kCommit, kAck, kReceipt:
		return c16Port(t.A) && c16Chan(t.B) && t.HasSeq
	case kConn:
		return c16Conn(t.A) && t.B == "" && !t.HasSeq
	case kClientSub:
		return c16Client(t.A) && !t.HasSeq
	case k2Commit, k2Receipt, k2Ack:
		return c16V2ID(t.A) && t.B == "" && t.HasSeq
	case k2SeqSend:
		return c16V2ID(t.A) && t.B == "" && !t.HasSeq
	case kAsync:
		return (c16GenFormatClient(t.A) || c16GenFormatChan(t.A)) && t.B == "" && t.HasSeq
	case kAlias:
		return c16GenFormatChan(t.A) && t.B == "" && !t.HasSeq
	case kGlobal:
		for _, g := range c16Globals {
			if g == t.A {
				return t.B == "" && !t.HasSeq
			}
		}
	}
	return false
}

// ---- independent parsers: key bytes -> every tuple that could have produced them ------------

func c16Dec(s string) (uint64, bool) {
	if s == "" || (len(s) > 1 && s[0] == '0') {
		return 0, false
	}
	for i := 0; i < len(s); i++ {
		if s[i] < '0' || s[i] > '9' {
			return 0, false
		}
	}
	n, err := strconv.ParseUint(s, 10, 64)
	return n, err == nil
}

func c16Invert(key []byte) []c16T {
	var out []c16T
	s := string(key)
	parts := strings.Split(s, "/")
	// v1 channel-scoped layouts: <kw>/ports/<p>/channels/<c>[/sequences/<n>]
	if len(parts) >= 5 && parts[1] == "ports" && parts[3] == "channels" {
		kw, p, c := parts[0], parts[2], parts[4]
		if len(parts) == 5 {
			for _, m := range [][2]string{{"channelEnds", kChanEnd}, {"nextSequenceRecv", kSeqRecv}, {"nextSequenceAck", kSeqAck}, {"recvStartSequence", kRecvStart}} {
				if kw == m[0] {
					out = append(out, c16T{K: m[1], A: p, B: c})
				}
			}
		}
		if len(parts) == 7 && parts[5] == "sequences" {
			if n, ok := c16Dec(parts[6]); ok {
				for _, m := range [][2]string{{"commitments", kCommit}, {"acks", kAck}, {"receipts", kReceipt}} {
					if kw == m[0] {
						out = append(out, c16T{K: m[1], A: p, B: c, N: n, HasSeq: true})
					}
				}
			}
		}
	}
	if len(parts) == 2 && parts[0] == "connections" {
		out = append(out, c16T{K: kConn, A: parts[1]})
	}
	if len(parts) >= 3 && parts[0] == "clients" {
		out = append(out, c16T{K: kClientSub, A: parts[1], B: strings.Join(parts[2:], "/")})
	}
	if strings.HasPrefix(s, "nextSequenceSend//") {
		out = append(out, c16T{K: k2SeqSend, A: s[len("nextSequenceSend//"):]})
	}
	// v2 layouts: id | kind byte | 8-byte big endian
	if len(key) >= 9 {
		idp, kb, n := s[:len(s)-9], key[len(key)-9], binary.BigEndian.Uint64(key[len(key)-8:])
		switch kb {
		case 1:
			out = append(out, c16T{K: k2Commit, A: idp, N: n, HasSeq: true})
		case 2:
			out = append(out, c16T{K: k2Receipt, A: idp, N: n, HasSeq: true})
		case 3:
			out = append(out, c16T{K: k2Ack, A: idp, N: n, HasSeq: true})
		}
	}
	if len(key) >= 20 && s[len(s)-20:len(s)-8] == "async_packet" {
		out = append(out, c16T{K: kAsync, A: s[:len(s)-20], N: binary.BigEndian.Uint64(key[len(key)-8:]), HasSeq: true})
	}
	if strings.HasSuffix(s, "alias") {
		out = append(out, c16T{K: kAlias, A: s[:len(s)-5]})
	}
	for _, g := range c16Globals {
		if s == g {
			out = append(out, c16T{K: kGlobal, A: g})
		}
	}
	return out
}

// ---- case ------------------------------------------------------------------------------------

type c16Case struct {
	Batch []c16T
}

var c16Words = []string{"alias", "async_packet", "sequences", "channels", "ports", "clients", "commitments", "acks", "receipts", "nextSequenceSend", "channelEnds", "connections", "clientState", "consensusStates", "channel-", "connection-", "07-tendermint-", "nextSequenceRecv"}

func c16GenID(t *rapid.T, label string, lo, hi int, pool []string) string {
	alpha := []rune("ab01-._+#[]<>AZ")
	var s string
	switch rapid.IntRange(0, 7).Draw(t, label+"how") {
	case 0, 1: // reuse / extend / truncate an earlier id => prefix relations
		if len(pool) > 0 {
			base := pool[rapid.IntRange(0, len(pool)-1).Draw(t, label+"pi")]
			switch rapid.IntRange(0, 3).Draw(t, label+"rel") {
			case 0:
				s = base
			case 1:
				s = base + rapid.StringOfN(rapid.SampledFrom(alpha), 1, 3, -1).Draw(t, label+"ext")
			case 2:
				s = base + rapid.SampledFrom(c16Words).Draw(t, label+"extw")
			default:
				s = base[:len(base)-1]
			}
		}
	case 2: // keyword-bearing
		s = rapid.StringOfN(rapid.SampledFrom(alpha), 0, 3, -1).Draw(t, label+"pre") + rapid.SampledFrom(c16Words).Draw(t, label+"w") + rapid.StringOfN(rapid.SampledFrom(alpha), 0, 4, -1).Draw(t, label+"post")
	case 3: // generated format
		s = rapid.SampledFrom([]string{"channel-", "connection-", "07-tendermint-", "06-solomachine-", "08-wasm-", "client-"}).Draw(t, label+"gp") + fmt.Sprint(rapid.SampledFrom([]uint64{0, 1, 10, 11, 100, 101, 2, 20, math.MaxUint64, 1844674407370955161}).Draw(t, label+"gn"))
	case 4: // length boundaries
		n := rapid.SampledFrom([]int{lo, lo + 1, hi - 1, hi}).Draw(t, label+"len")
		s = rapid.StringOfN(rapid.SampledFrom(alpha), n, n, -1).Draw(t, label+"lb")
	default:
		s = rapid.StringOfN(rapid.SampledFrom(alpha), lo, lo+8, -1).Draw(t, label+"rnd")
	}
	// repair to the allowed length range by padding / cutting (construction, not filtering)
	for len(s) < lo {
		s += "0"
	}
	if len(s) > hi {
		s = s[:hi]
	}
	return s
}

func c16GenSeq(t *rapid.T, label string) uint64 {
	switch rapid.IntRange(0, 5).Draw(t, label+"k") {
	case 0: // bytes that spell separators / kind bytes / keywords
		b := rapid.SampledFrom([]string{"sequence", "async_pa", "ket\x00\x00\x00\x00\x01", "\x00\x00\x00alias", "/////\x01\x02\x03", "\x01\x00\x00\x00\x00\x00\x00\x01", "\x02\x00\x00\x00\x00\x00\x00\x00", "abcalias", "0\x01\x00\x00\x00\x00\x00\x00", "-1\x03\x00\x00\x00\x00\x07"}).Draw(t, label+"pat")
		return binary.BigEndian.Uint64([]byte(b))
	case 1:
		return rapid.Uint64Range(0, 12).Draw(t, label+"small")
	case 2:
		return rapid.SampledFrom([]uint64{1, 10, 11, 100, 110, 101}).Draw(t, label+"dec")
	default:
		return vx.U64().Draw(t, label+"u")
	}
}

func genC16(t *rapid.T) c16Case {
	var c c16Case
	var ports, chans, clients, conns, gens []string
	n := rapid.IntRange(6, 14).Draw(t, "n")
	kinds := []string{kChanEnd, kSeqRecv, kSeqAck, kCommit, kCommit, kAck, kReceipt, kRecvStart, kConn, kClientSub, kClientSub, k2Commit, k2Commit, k2Receipt, k2Ack, k2SeqSend, kAsync, kAlias, kGlobal}
	paths := []string{"clientState", "connections", "counterparty", "config", "creator", "consensusStates/0-1", "consensusStates/1-10", "consensusStates/1-1", "consensusStates/1-1/processedTime", "consensusStates/1-1/processedHeight", "iterateConsensusStates\x00\x00\x00\x00\x00\x00\x00\x01\x00\x00\x00\x00\x00\x00\x00\x01", "a/b", "/", "x\x01"}
	for i := 0; i < n; i++ {
		l := fmt.Sprintf("t%d", i)
		k := rapid.SampledFrom(kinds).Draw(t, l+"kind")
		tu := c16T{K: k}
		switch k {
		case kChanEnd, kSeqRecv, kSeqAck, kRecvStart, kCommit, kAck, kReceipt:
			tu.A = c16GenID(t, l+"port", 2, 128, append(append([]string{}, ports...), chans...))
			tu.B = c16GenID(t, l+"chan", 8, 64, append(append([]string{}, chans...), gens...))
			ports, chans = append(ports, tu.A), append(chans, tu.B)
		case kConn:
			tu.A = c16GenID(t, l+"conn", 10, 64, conns)
			conns = append(conns, tu.A)
		case kClientSub:
			tu.A = c16GenID(t, l+"client", 4, 64, append(append([]string{}, clients...), gens...))
			tu.B = rapid.SampledFrom(paths).Draw(t, l+"path")
			clients = append(clients, tu.A)
		case k2Commit, k2Receipt, k2Ack, k2SeqSend:
			tu.A = c16GenID(t, l+"v2id", 4, 64, append(append(append([]string{}, clients...), chans...), gens...))
			clients = append(clients, tu.A)
		case kAsync, kAlias:
			// generated-format identifiers only (documented precondition of these constructors)
			pre := "channel-"
			if k == kAsync {
				pre = rapid.SampledFrom([]string{"channel-", "07-tendermint-", "08-wasm-", "06-solomachine-", "x_y-"}).Draw(t, l+"gpre")
			}
			tu.A = pre + fmt.Sprint(rapid.SampledFrom([]uint64{0, 1, 10, 11, 100, 2, 20, 7, 70, math.MaxUint64, 1844674407370955161}).Draw(t, l+"gnum"))
			gens = append(gens, tu.A)
		case kGlobal:
			tu.A = rapid.SampledFrom(c16Globals).Draw(t, l+"g")
		}
		switch k {
		case kCommit, kAck, kReceipt, k2Commit, k2Receipt, k2Ack, kAsync:
			tu.HasSeq = true
			tu.N = c16GenSeq(t, l+"seq")
		}
		c.Batch = append(c.Batch, tu)
		// siblings: same arguments under the sibling kinds, neighbouring sequences
		if rapid.IntRange(0, 1).Draw(t, l+"sib") == 0 {
			var sibs []string
			switch k {
			case kCommit, kAck, kReceipt:
				sibs = []string{kCommit, kAck, kReceipt}
			case kChanEnd, kSeqRecv, kSeqAck, kRecvStart:
				sibs = []string{kChanEnd, kSeqRecv, kSeqAck, kRecvStart}
			case k2Commit, k2Receipt, k2Ack:
				sibs = []string{k2Commit, k2Receipt, k2Ack}
			}
			for _, sk := range sibs {
				if sk != k {
					s := tu
					s.K = sk
					c.Batch = append(c.Batch, s)
				}
			}
			if tu.HasSeq {
				s := tu
				s.N = tu.N*10 + uint64(rapid.IntRange(0, 1).Draw(t, l+"d"))
				c.Batch = append(c.Batch, s)
				s.N = tu.N ^ (1 << uint(rapid.IntRange(0, 63).Draw(t, l+"bit")))
				c.Batch = append(c.Batch, s)
			}
			if (k == k2Commit || k == k2Receipt || k == k2Ack) && (c16GenFormatChan(tu.A) || c16GenFormatClient(tu.A)) {
				c.Batch = append(c.Batch, c16T{K: kAsync, A: tu.A, N: tu.N, HasSeq: true})
				c.Batch = append(c.Batch, c16T{K: k2SeqSend, A: tu.A})
				if c16GenFormatChan(tu.A) {
					c.Batch = append(c.Batch, c16T{K: kAlias, A: tu.A})
				}
			}
		}
	}
	return c
}

func runC16(t rapid.TB, c c16Case, rec *vx.Case) {
	const id = "C16"
	// de-duplicate tuples (equal tuples are the same object)
	uniq := map[c16T]bool{}
	var batch []c16T
	for _, tu := range c.Batch {
		if !tu.wellFormed() {
			rec.Add("ill_formed_tuples_skipped", 1)
			continue
		}
		// validity as seen by ibc-go must agree for what we call valid (harness sanity, not a verdict)
		if !uniq[tu] {
			uniq[tu] = true
			batch = append(batch, tu)
		}
	}
	keys := make([][]byte, len(batch))
	byKey := map[string]c16T{}
	for i, tu := range batch {
		k := c16Key(tu)
		if again := c16Key(tu); !bytes.Equal(k, again) {
			vx.Violatef(t, rec, id, "key-nondeterministic", "%v gave %q then %q", tu, k, again)
		}
		keys[i] = k
		// (a) pairwise within the batch
		if prev, dup := byKey[string(k)]; dup {
			vx.Violatef(t, rec, id, c16PairSig(prev, tu), "distinct objects %v and %v share the store key %q", prev, tu, k)
		}
		byKey[string(k)] = tu
		// (b) inversion under every layout
		foundSelf := false
		for _, cand := range c16Invert(k) {
			if cand == tu {
				foundSelf = true
				continue
			}
			if !cand.wellFormed() {
				continue
			}
			if ck := c16Key(cand); bytes.Equal(ck, k) {
				vx.Violatef(t, rec, id, c16PairSig(tu, cand), "key %q of %v is also the key of the distinct object %v", k, tu, cand)
			}
		}
		if !foundSelf {
			// the independent parser does not understand the layout: the layout changed (or the
			// parser is wrong); either way the key is not what the specification describes
			vx.Violatef(t, rec, id, "layout-"+tu.K, "key %q of %v does not parse back to it under the documented layout (parsed: %v)", k, tu, c16Invert(k))
		}
	}

	// (c) prefix isolation
	type pfx struct {
		kind string
		a, b string
		p    []byte
	}
	var pfxs []pfx
	seenP := map[string]bool{}
	for _, tu := range batch {
		var p pfx
		switch tu.K {
		case kCommit:
			p = pfx{kCommit, tu.A, tu.B, append(host.PacketCommitmentPrefixKey(tu.A, tu.B), '/')}
		case kAck:
			p = pfx{kAck, tu.A, tu.B, append(host.PacketAcknowledgementPrefixKey(tu.A, tu.B), '/')}
		case k2Commit:
			p = pfx{k2Commit, tu.A, "", hostv2.PacketCommitmentPrefixKey(tu.A)}
		case k2Receipt:
			p = pfx{k2Receipt, tu.A, "", hostv2.PacketReceiptPrefixKey(tu.A)}
		case k2Ack:
			p = pfx{k2Ack, tu.A, "", hostv2.PacketAcknowledgementPrefixKey(tu.A)}
		case kAsync:
			p = pfx{kAsync, tu.A, "", channeltypesv2.AsyncPacketPrefixKey(tu.A)}
		case kClientSub:
			p = pfx{kClientSub, tu.A, "*", host.FullClientKey(tu.A, nil)}
		default:
			continue
		}
		if !seenP[p.kind+"|"+p.a+"|"+p.b] {
			seenP[p.kind+"|"+p.a+"|"+p.b] = true
			pfxs = append(pfxs, p)
		}
		// the un-slashed v1 prefix constructors as used by the keeper iterators
		if tu.K == kCommit || tu.K == kAck {
			raw := host.PacketCommitmentPrefixKey(tu.A, tu.B)
			if tu.K == kAck {
				raw = host.PacketAcknowledgementPrefixKey(tu.A, tu.B)
			}
			if !seenP["raw"+p.kind+"|"+p.a+"|"+p.b] {
				seenP["raw"+p.kind+"|"+p.a+"|"+p.b] = true
				pfxs = append(pfxs, pfx{p.kind, p.a, p.b, raw})
			}
		}
	}
	leaks := 0
	for _, p := range pfxs {
		for i, tu := range batch {
			has := bytes.HasPrefix(keys[i], p.p)
			belongs := tu.K == p.kind && tu.A == p.a && (p.b == "*" || tu.B == p.b)
			if !c16Claimed(p.kind, p.a, tu) {
				// async/alias key space shared with a v2 identifier that is not in generated format:
				// outside the documented precondition of these constructors
				if has && !belongs {
					rec.Add("unclaimed_async_vs_free_form_v2_id_prefix_overlaps", 1)
				}
				continue
			}
			if has && !belongs {
				leaks++
				vx.Violatef(t, rec, id, "prefix-leak-"+p.kind, "iterating prefix %q of %s(%q,%q) returns the entry %v (key %q) of another object", p.p, p.kind, p.a, p.b, tu, keys[i])
			}
			if belongs && !has {
				vx.Violatef(t, rec, id, "prefix-miss-"+p.kind, "entry %v (key %q) is not under its own prefix %q", tu, keys[i], p.p)
			}
		}
	}

	// ---- evidence: prefix-related ids, separator-bearing sequences
	var ids []string
	for _, tu := range batch {
		ids = append(ids, tu.A)
		if tu.K != kClientSub && tu.B != "" {
			ids = append(ids, tu.B)
		}
	}
	sort.Strings(ids)
	prefixRel := false
	for i := 0; i+1 < len(ids); i++ {
		if ids[i] != ids[i+1] && strings.HasPrefix(ids[i+1], ids[i]) {
			prefixRel = true
		}
	}
	sepSeq := false
	v1, v2 := false, false
	for _, tu := range batch {
		if tu.HasSeq {
			var b [8]byte
			binary.BigEndian.PutUint64(b[:], tu.N)
			if bytes.ContainsAny(b[:], "/\x01\x02\x03") || bytes.Contains(b[:], []byte("alias")) || bytes.Contains(b[:], []byte("async")) {
				sepSeq = true
			}
		}
		if strings.HasPrefix(tu.K, "v1/") {
			v1 = true
		}
		if strings.HasPrefix(tu.K, "v2/") {
			v2 = true
		}
	}
	if prefixRel {
		rec.Class("ids-in-prefix-relation")
	}
	if sepSeq {
		rec.Class("sequence-embeds-separator-bytes")
	}
	if v1 && v2 {
		rec.Class("v1-and-v2-keys")
	}
	rec.Add("keys", int64(len(batch)))
	rec.Add("prefixes_checked", int64(len(pfxs)))
	rec.NonTrivialIf(prefixRel || sepSeq)
}

// c16Claimed implements the documented precondition: relations between the async/alias key
// space and v2 keys are only claimed when the v2 identifier is in generated format.
func c16Claimed(prefixKind, prefixID string, other c16T) bool {
	isV2 := func(k string) bool { return k == k2Commit || k == k2Receipt || k == k2Ack || k == k2SeqSend }
	gen := func(s string) bool { return c16GenFormatChan(s) || c16GenFormatClient(s) }
	if (other.K == kAsync || other.K == kAlias) && isV2(prefixKind) && !gen(prefixID) {
		return false
	}
	if (prefixKind == kAsync || prefixKind == kAlias) && isV2(other.K) && !gen(other.A) {
		return false
	}
	return true
}

func c16PairSig(a, b c16T) string {
	x, y := a.K, b.K
	if x > y {
		x, y = y, x
	}
	return "collision:" + x + "|" + y
}

func TestC16Keys(t *testing.T) {
	vx.Check(t, vx.Prop[c16Case]{
		ID:        "C16",
		Rule:      "pure: batch of 6-60 object tuples over all key constructors of 24-host, 24-host/v2, 04-channel/v2/types/keys.go and clients/<id>/<path>; ids over the full IsValidID alphabet and length ranges, derived from each other (equal / extended / truncated / keyword-bearing / generated-format 1,10,100...), sibling kinds with equal arguments, sequences spelling '/', 0x01-0x03, 'alias', 'async_pa'. non-trivial = two ids in the batch in proper-prefix relation or a sequence whose big-endian bytes embed separator / kind bytes / keywords; distinct by full batch",
		MinNTFrac: 0.5,
		Assumptions: []string{
			"AsyncPacketKey / AliasKey are exercised only with generated-format identifiers ({type}-{N}, channel-{N}) - documented precondition (DESIGN C16 N)",
		},
		Gen: genC16,
		Run: runC16,
	})
}
