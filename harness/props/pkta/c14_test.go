package pkta

import (
	"testing"

	"pgregory.net/rapid"

	channeltypes "github.com/cosmos/ibc-go/v11/modules/core/04-channel/types"

	"github.com/cosmos/ibc-go/v11/modules/apps/callbacks/verifx/pktsim"
	"github.com/cosmos/ibc-go/v11/modules/apps/callbacks/verifx/sim"
	"github.com/cosmos/ibc-go/v11/modules/apps/callbacks/verifx/vx"
)

// C14: after a packet on an ORDERED channel is timed out (timeout or timeout-on-close) the
// sender's channel end is CLOSED; no further packet can be sent, received or acknowledged on
// that end, and other in-flight packets can only be timed out.
//
// A "successful timeout" is a committed transaction in which the sending application's
// OnTimeoutPacket callback ran. Right after it the channel end is read through
// ChannelKeeper.GetChannel. From then on every send / receive / acknowledgement that targets
// that end must be rejected, commit no callback and leave the snapshot unchanged; timeouts of
// the remaining commitments are the only packet messages that may succeed (measured).

func runC14(outer *testing.T) func(t rapid.TB, h pktsim.History, rec *vx.Case) {
	return func(t rapid.TB, h pktsim.History, rec *vx.Case) {
		const id = "C14"
		w := pktsim.NewWorld(outer, h)
		type endInfo struct {
			link *sim.Link
			side int
		}
		ordered := map[endKey]endInfo{}
		for _, l := range w.Links {
			if l.Kind == sim.V1Ordered {
				ordered[endKey{l.Chain[0], l.ID(0)}] = endInfo{l, 0}
				ordered[endKey{l.Chain[1], l.ID(1)}] = endInfo{l, 1}
			}
		}
		inflight := func(e endKey) int {
			n := 0
			for _, p := range w.Pkts {
				if !p.V2 && srcEnd(w, p) == e && w.HasCommitment(p) {
					n++
				}
			}
			return n
		}
		closedAt := map[endKey]int{}
		var closedOrder []endKey
		maxInflightAtClose := 0
		var laterSend, laterRecv, laterAck, laterRecvPlausible, laterAckPlausible, laterTimeoutOK, laterTimeoutTried, tocCloses, timeoutCloses int64
		for i, op := range h.Ops {
			// pre-step facts needed by the oracle
			pre := map[endKey]int{}
			for e := range ordered {
				pre[e] = inflight(e)
			}
			recvd := seqsOf(w, "recv")
			st := execX(w, i, op)
			kind := relayKind(w, st)

			// must-fail check for a message that targets an end closed by a timeout
			mustFail := func(what string, e endKey, accepted bool) {
				rec.Class("after-close-%s", what)
				if accepted {
					vx.Violatef(t, rec, id, what+"-accepted-on-closed-end", "step %d: %s on ORDERED end chain %d %s succeeded although the end was closed by the timeout at step %d; %s", i, what, e.Chain, e.ID, closedAt[e], pktsim.Describe(st))
				}
				if cb := committedIn(w, st, "recv", "ack", "timeout"); len(cb) > 0 {
					vx.Violatef(t, rec, id, what+"-reaches-app-on-closed-end", "step %d: %s on ORDERED end chain %d %s (closed by the timeout at step %d) committed %d callback(s) (first: %s seq %d); %s", i, what, e.Chain, e.ID, closedAt[e], len(cb), cb[0].Kind, cb[0].Seq, pktsim.Describe(st))
				}
				if d := stateDiff(st.Before, st.After); len(d) > 0 {
					vx.Violatef(t, rec, id, what+"-changes-state-on-closed-end", "step %d: %s on ORDERED end chain %d %s (closed by the timeout at step %d) changed state %v; %s", i, what, e.Chain, e.ID, closedAt[e], d, pktsim.Describe(st))
				}
			}

			switch {
			case st.Op.K == "send" && len(w.Links) > 0:
				l := w.Links[pktsim.Pick(len(w.Links), st.Op.L)]
				if l.Kind != sim.V1Ordered {
					break
				}
				dir := pktsim.Pick(2, st.Op.D)
				e := endKey{l.Chain[dir], l.ID(dir)}
				if _, c := closedAt[e]; c {
					laterSend++
					mustFail("send", e, st.Sent)
				}
			case kind == "recv" && !st.Pkt.V2:
				e := dstEnd(w, st.Pkt)
				if _, c := closedAt[e]; c {
					laterRecv++
					if st.Pkt.Seq() == uint64(len(recvd[e]))+1 && w.HasCommitment(st.Pkt) && st.Op.K == "recv" && st.Op.H < 0 {
						laterRecvPlausible++ // would have been accepted on an open end
					}
					mustFail("recv", e, st.Res.OK && !sim.ResultIsNoop(st.Res))
				}
			case kind == "ack" && !st.Pkt.V2:
				e := srcEnd(w, st.Pkt)
				if _, c := closedAt[e]; c {
					laterAck++
					if st.Pkt.Ack1 != nil && w.HasCommitment(st.Pkt) && st.Op.K == "ack" && st.Op.H < 0 {
						laterAckPlausible++ // received packet, known ack, fresh proof
					}
					mustFail("ack", e, st.Res.OK && !sim.ResultIsNoop(st.Res))
				}
			case (kind == "timeout" || kind == "toc") && !st.Pkt.V2:
				e := srcEnd(w, st.Pkt)
				info, isOrdered := ordered[e]
				if !isOrdered {
					break
				}
				_, already := closedAt[e]
				if already {
					laterTimeoutTried++
				}
				if st.Res.OK && len(committedIn(w, st, "timeout")) > 0 {
					// successful timeout of a packet sent from ORDERED end e
					state, found := channelState(w, info.link, info.side)
					if !found || state != channeltypes.CLOSED {
						vx.Violatef(t, rec, id, "not-closed-after-timeout", "step %d: after the successful %s of %s the sender's ORDERED end chain %d %s is in state %s (found=%v), want CLOSED; %s", i, kind, st.Pkt, e.Chain, e.ID, state, found, pktsim.Describe(st))
					}
					if already {
						laterTimeoutOK++
					} else {
						closedAt[e] = i
						closedOrder = append(closedOrder, e)
						if pre[e] > maxInflightAtClose {
							maxInflightAtClose = pre[e]
						}
						if kind == "toc" {
							tocCloses++
							rec.Class("closed-by-timeout-on-close")
						} else {
							timeoutCloses++
							rec.Class("closed-by-timeout")
						}
						rec.Class("inflight-at-close=%d", min(pre[e], 4))
					}
				}
			}
			// an end closed by a timeout stays CLOSED
			for _, e := range closedOrder {
				info := ordered[e]
				if state, found := channelState(w, info.link, info.side); !found || state != channeltypes.CLOSED {
					vx.Violatef(t, rec, id, "not-closed-after-timeout", "step %d: ORDERED end chain %d %s closed by the timeout at step %d is now in state %s (found=%v); %s", i, e.Chain, e.ID, closedAt[e], state, found, pktsim.Describe(st))
				}
			}
		}
		rec.Add("packets", int64(len(w.Pkts)))
		rec.Add("ends_closed_by_timeout", timeoutCloses)
		rec.Add("ends_closed_by_timeout_on_close", tocCloses)
		rec.Add("after_close_send_attempts", laterSend)
		rec.Add("after_close_recv_attempts", laterRecv)
		rec.Add("after_close_recv_attempts_otherwise_valid", laterRecvPlausible)
		rec.Add("after_close_ack_attempts", laterAck)
		rec.Add("after_close_ack_attempts_otherwise_valid", laterAckPlausible)
		rec.Add("after_close_timeout_attempts", laterTimeoutTried)
		rec.Add("after_close_timeouts_ok", laterTimeoutOK)
		if laterTimeoutOK > 0 {
			rec.Class("remaining-commitment-timed-out-after-close")
		}
		if len(closedOrder) == 0 {
			rec.Class("no-timeout-succeeded")
		}
		rec.NonTrivialIf(maxInflightAtClose >= 2 && laterSend+laterRecv+laterAck >= 1)
	}
}

// genC14 draws three-phase histories on one ORDERED link: (1) packets in both directions,
// some received / acknowledged in order, then a packet that will time out plus more packets
// behind it; (2) the timeout (after blocks / clock jumps) or the counterparty's close followed
// by timeout-on-close; (3) arbitrary further sends, receives, acknowledgements, timeouts and
// duplicates aimed at the closed end.
func genC14(maxTail int) func(t *rapid.T) pktsim.History {
	return func(t *rapid.T) pktsim.History {
		h := pktsim.History{}
		L := 0
		switch rapid.IntRange(0, 2).Draw(t, "world") {
		case 0:
			h.Links = []int{int(sim.V1Ordered)}
		case 1:
			h.Links = []int{int(sim.V1Ordered), int(sim.V1Ordered)}
		default:
			h.Links = []int{int(sim.V1Unordered), int(sim.V1Ordered)}
			L = 1
		}
		d := rapid.IntRange(0, 1).Draw(t, "dir") // the end on side d will be closed
		sig := func() int { return rapid.IntRange(0, 2).Draw(t, "sig") }
		add := func(op pktsim.Op) { op.Sig = sig(); h.Ops = append(h.Ops, op) }
		nsend := 0
		var fwd, rev []int // packet indices by direction (assuming the sends are accepted)
		send := func(dir int, th, tt int) {
			// packets addressed to the end that will be closed are often answered asynchronously:
			// without a synchronous WriteAcknowledgement the receive handler's own channel-state
			// check is the only guard on that path
			outs := []string{"ok", "ok", "err", "async"}
			if dir != d {
				outs = []string{"async", "ok", "async", "err"}
			}
			add(pktsim.Op{K: "send", L: L, D: dir, TH: th, TT: tt, S: []sim.Script{genScript(t, nsend, outs)}})
			if dir == d {
				fwd = append(fwd, nsend)
			} else {
				rev = append(rev, nsend)
			}
			nsend++
		}
		mediumTT := func() int { // remaining packets: long timeout, or one a clock jump can pass
			if rapid.IntRange(0, 3).Draw(t, "medium") != 0 {
				return rapid.IntRange(300, 1500).Draw(t, "mediumTT")
			}
			return 0
		}
		mode := rapid.SampledFrom([]string{"timeout", "timeout", "toc"}).Draw(t, "mode")

		// phase 1
		before := rapid.IntRange(0, 3).Draw(t, "before")
		for k := 0; k < before; k++ {
			send(d, 0, mediumTT())
		}
		for k := rapid.IntRange(0, 2).Draw(t, "reverse"); k > 0; k-- {
			send(1-d, 0, 0)
		}
		nrecv := rapid.IntRange(0, before).Draw(t, "received")
		for k := 0; k < nrecv; k++ {
			add(pktsim.Op{K: "recvnext", L: L, D: d, H: -1, P: -1})
		}
		if nrecv > 0 {
			for k := rapid.IntRange(0, nrecv-1).Draw(t, "acked"); k > 0; k-- {
				add(pktsim.Op{K: "acknext", L: L, D: d, H: -1, P: -1})
			}
		}
		// the packet that will time out, and packets behind it
		x := nsend
		xTH, xTT := 0, 0
		switch {
		case mode == "toc":
			xTT = mediumTT()
		case rapid.Bool().Draw(t, "byHeight"):
			xTH = rapid.IntRange(1, 6).Draw(t, "th")
		default:
			xTT = rapid.IntRange(5, 60).Draw(t, "tt")
		}
		send(d, xTH, xTT)
		minBehind := 0
		if before == 0 {
			minBehind = 1
		}
		for k := rapid.IntRange(minBehind, 2).Draw(t, "behind"); k > 0; k-- {
			send(d, 0, mediumTT())
		}
		if rapid.IntRange(0, 2).Draw(t, "lateReverse") == 0 {
			send(1-d, 0, 0)
		}

		// phase 2
		if mode == "toc" {
			add(pktsim.Op{K: "close", L: L, D: 1 - d})
			add(pktsim.Op{K: "toc", P: x, H: -1})
		} else {
			// usually enough blocks / seconds to pass the timeout (sometimes too few: then the
			// timeout is premature and must be rejected, and a later attempt may succeed)
			enough := rapid.IntRange(0, 9).Draw(t, "enough") != 0
			if xTH > 0 {
				for k := 0; enough && k < (xTH+2)/3; k++ {
					add(pktsim.Op{K: "block", D: 1 - d, N: 2})
				}
			} else if enough {
				add(pktsim.Op{K: "time", N: xTT + rapid.IntRange(0, 60).Draw(t, "slack")})
			}
			add(pktsim.Op{K: "timeout", P: x, H: -1})
		}

		// phase 3
		pick := func(xs []int) int {
			if len(xs) == 0 {
				return rapid.IntRange(0, nsend-1).Draw(t, "anyPkt")
			}
			return rapid.SampledFrom(xs).Draw(t, "pkt")
		}
		tail := rapid.IntRange(3, maxTail).Draw(t, "tail")
		for k := 0; k < tail; k++ {
			tk := rapid.SampledFrom([]string{"send", "ack", "recv", "recvfwd", "timeout", "acknext", "time", "timeout", "sendrev", "dupterm", "replay", "toc", "update"}).Draw(t, "tailKind")
			if tk == "timeout" && mode == "toc" && rapid.Bool().Draw(t, "tocInstead") {
				tk = "toc"
			}
			switch tk {
			case "send":
				send(d, 0, mediumTT())
			case "sendrev":
				send(1-d, 0, 0)
			case "ack":
				add(pktsim.Op{K: "ack", P: pick(fwd), H: genSel(t, 90)})
			case "acknext":
				add(pktsim.Op{K: "acknext", L: L, D: d, P: pick(fwd), H: -1})
			case "recv": // packets addressed to the closed end
				if rapid.Bool().Draw(t, "inOrder") {
					add(pktsim.Op{K: "recvnext", L: L, D: 1 - d, P: pick(rev), H: -1})
				} else {
					add(pktsim.Op{K: "recv", P: pick(rev), H: genSel(t, 90)})
				}
			case "recvfwd": // the counterparty may still receive what is in flight (its end is open)
				add(pktsim.Op{K: "recvnext", L: L, D: d, P: pick(fwd), H: -1})
			case "timeout":
				add(pktsim.Op{K: "timeout", P: pick(fwd), H: genSel(t, 90)})
			case "toc":
				add(pktsim.Op{K: "toc", P: pick(fwd), H: genSel(t, 90)})
			case "time":
				add(pktsim.Op{K: "time", N: rapid.IntRange(600, 3500).Draw(t, "secs")})
			case "dupterm":
				add(pktsim.Op{K: "dupterm", N: rapid.IntRange(0, 3).Draw(t, "which")})
			case "replay":
				add(pktsim.Op{K: "replay", N: rapid.IntRange(0, 40).Draw(t, "which")})
			case "update":
				add(pktsim.Op{K: "update", L: L, D: rapid.IntRange(0, 1).Draw(t, "side")})
			}
		}
		// final sweep (drawn last): a clock jump past the medium timeouts, then fresh-proof
		// timeouts (timeout-on-close when the counterparty closed) of packets sent from the
		// closed end - the only packet messages that may still succeed there
		if rapid.IntRange(0, 2).Draw(t, "sweep") != 0 {
			add(pktsim.Op{K: "time", N: 3500})
			for k := rapid.IntRange(1, 3).Draw(t, "sweepN"); k > 0; k-- {
				kind := "timeout"
				if mode == "toc" && rapid.Bool().Draw(t, "sweepToc") {
					kind = "toc"
				}
				add(pktsim.Op{K: kind, P: pick(fwd), H: -1})
			}
		}
		return h
	}
}

func TestC14(t *testing.T) {
	vx.Check(t, vx.Prop[pktsim.History]{
		ID:        "C14",
		Rule:      "three-phase histories on one ORDERED v1 link over 2 chains: packets in both directions (some received / acknowledged in order), a packet that times out with more packets behind it; the timeout after blocks / clock jumps, or counterparty close + timeout-on-close; then 3-12 further sends, receives (often of asynchronously answered packets), acknowledgements, timeouts, duplicates aimed at the closed end and usually a final sweep of fresh-proof timeouts after a clock jump; non-trivial = a timeout succeeded with >=2 commitments in flight on that end and >=1 later send/receive/acknowledgement targeted the closed end; distinct by full history",
		MinNTFrac: 0.4,
		Gen:       genC14(12),
		Run:       runC14(t),
	})
}
