package gen

import (
	"encoding/json"
	"testing"
	"time"

	dbm "github.com/cosmos/cosmos-db"

	"cosmossdk.io/log/v2"

	"github.com/cosmos/cosmos-sdk/baseapp"
	simtestutil "github.com/cosmos/cosmos-sdk/testutil/sims"

	ratelimittypes "github.com/cosmos/ibc-go/v11/modules/apps/rate-limiting/types"
	ibctesting "github.com/cosmos/ibc-go/v11/testing"
	"github.com/cosmos/ibc-go/v11/testing/simapp"

	"github.com/cosmos/ibc-go/v11/modules/apps/callbacks/verifx/pktsim"
	"github.com/cosmos/ibc-go/v11/modules/apps/callbacks/verifx/sim"
)

// patchGenesis gives the chain an initialised rate-limiting hour epoch. ibctesting calls
// InitChain without a genesis time, which leaves the default epoch (number 0) with a zero
// start time: the rate-limiting BeginBlocker then rejects the epoch as invalid in every
// block and no quota is ever reset. Any chain with a real genesis time has a valid epoch;
// epoch 23 starting 2020-01-01T23:00Z puts the first roll-over at ibctesting's start time.
func patchGenesis(app *simapp.SimApp, gen map[string]json.RawMessage) {
	gs := ratelimittypes.DefaultGenesis()
	gs.HourEpoch = ratelimittypes.HourEpoch{EpochNumber: 23, Duration: time.Hour, EpochStartTime: time.Date(2020, 1, 1, 23, 0, 0, 0, time.UTC), EpochStartHeight: 1}
	gen[ratelimittypes.ModuleName] = app.AppCodec().MustMarshalJSON(gs)
}

// defaultCreator is ibctesting.SetupTestingApp plus patchGenesis and optional BaseApp options.
func defaultCreator(opts ...func(*baseapp.BaseApp)) ibctesting.AppCreator {
	return func() (ibctesting.TestingApp, map[string]json.RawMessage) {
		app := simapp.NewSimApp(log.NewNopLogger(), dbm.NewMemDB(), nil, true, simtestutil.EmptyAppOptions{}, opts...)
		gen := app.DefaultGenesis()
		patchGenesis(app, gen)
		return app, gen
	}
}

// newWorld is pktsim.NewWorld with a custom app creator.
//
// skewClientIDs creates one extra light client on chain B first, so that the two ends of
// every later client pair have DIFFERENT client ids (07-tendermint-k on A, 07-tendermint-(k+1)
// on B). With equal ids on both chains the exported clientv2 genesis is rejected by its own
// Validate() (proposed known finding "v2-counterparty-equal-client-id-rejected", demonstrated
// by TestC44Known); skewing the ids excludes that signature by construction.
func newWorld(outer *testing.T, h pktsim.History, creator ibctesting.AppCreator, skewClientIDs bool) *sim.World {
	w := sim.NewWorld(outer, 2, creator)
	if skewClientIDs {
		sim.Guard("skew client ids", func() {
			ibctesting.NewPath(w.Chains[0], w.Chains[1]).EndpointB.CreateClient()
		})
	}
	var base *sim.Link
	for _, k := range h.Links {
		kind := sim.LinkKind(k)
		if kind == sim.V2Alias {
			if base == nil {
				base = w.AddLink(sim.V1Unordered, 0, 1, nil)
			}
			w.AddLink(kind, 0, 1, base)
			continue
		}
		l := w.AddLink(kind, 0, 1, nil)
		if kind == sim.V1Unordered && base == nil {
			base = l
		}
	}
	return w
}
