package gen

import (
	"bytes"
	"context"
	"crypto/sha256"
	"encoding/hex"
	"encoding/json"
	"fmt"
	"os"
	"os/exec"
	"path/filepath"
	"runtime"
	"sort"
	"strings"
	"sync"
	"testing"

	dbm "github.com/cosmos/cosmos-db"
	"github.com/cosmos/gogoproto/proto"
	"pgregory.net/rapid"

	"cosmossdk.io/log/v2"

	"github.com/cosmos/cosmos-sdk/baseapp"
	storetypes "github.com/cosmos/cosmos-sdk/store/v2/types"
	simtestutil "github.com/cosmos/cosmos-sdk/testutil/sims"
	sdk "github.com/cosmos/cosmos-sdk/types"
	"github.com/cosmos/cosmos-sdk/types/query"
	banktypes "github.com/cosmos/cosmos-sdk/x/bank/types"

	abci "github.com/cometbft/cometbft/abci/types"
	cmtproto "github.com/cometbft/cometbft/proto/tendermint/types"

	ratelimittypes "github.com/cosmos/ibc-go/v11/modules/apps/rate-limiting/types"
	transfertypes "github.com/cosmos/ibc-go/v11/modules/apps/transfer/types"
	clienttypes "github.com/cosmos/ibc-go/v11/modules/core/02-client/types"
	connectiontypes "github.com/cosmos/ibc-go/v11/modules/core/03-connection/types"
	channeltypes "github.com/cosmos/ibc-go/v11/modules/core/04-channel/types"
	channeltypesv2 "github.com/cosmos/ibc-go/v11/modules/core/04-channel/v2/types"
	ibctesting "github.com/cosmos/ibc-go/v11/testing"
	"github.com/cosmos/ibc-go/v11/testing/simapp"

	"github.com/cosmos/ibc-go/v11/modules/apps/callbacks/verifx/pktsim"
	"github.com/cosmos/ibc-go/v11/modules/apps/callbacks/verifx/sim"
	"github.com/cosmos/ibc-go/v11/modules/apps/callbacks/verifx/vx"
)

// C45: the same blocks and transactions executed on independently started nodes (other
// process, other GOMAXPROCS, other map iteration seeds) give the same app hash after every
// block, the same exported genesis and the same results for ordered queries.
//
// One world is run with a recording ABCI listener on both chains. The recorded stream per
// chain is: the InitChain request, every FinalizeBlock request with the app hash it
// produced, and — because sim/ibctesting perform a few state changes as direct keeper
// calls between blocks (mock-application sends, the governance-only AddRateLimit) — those
// calls as explicit "direct" items that the replayer performs through the same keeper entry
// points at the same position. Replayers are fresh processes of this test binary.

const c45 = "C45"

// ---- the recorded stream ----------------------------------------------------------------

type streamItem struct {
	Kind     string   `json:"kind"` // init | block | v1send | addratelimit
	Req      []byte   `json:"req,omitempty"`
	AppHash  []byte   `json:"app_hash,omitempty"` // block: hash returned by the recorder's FinalizeBlock
	Height   int64    `json:"height,omitempty"`
	Writes   int      `json:"writes,omitempty"` // block: size of the committed write set (health metric)
	Txs      int      `json:"txs,omitempty"`
	WriteSet []string `json:"write_set,omitempty"` // block: "store/key=sha(value)" of every committed write, for diagnostics
	// direct items
	Port    string `json:"port,omitempty"`
	Channel string `json:"channel,omitempty"`
	TH      []byte `json:"th,omitempty"` // proto clienttypes.Height
	TS      uint64 `json:"ts,omitempty"`
	Data    []byte `json:"data,omitempty"`
	Msg     []byte `json:"msg,omitempty"` // proto MsgAddRateLimit
}

type chainStream struct {
	ChainID string       `json:"chain_id"`
	Items   []streamItem `json:"items"`
}

type recorder struct {
	mu     sync.Mutex
	stream chainStream
}

func (r *recorder) ListenFinalizeBlock(_ context.Context, req abci.RequestFinalizeBlock, res abci.ResponseFinalizeBlock) error {
	bz, err := proto.Marshal(&req)
	if err != nil {
		return err
	}
	r.mu.Lock()
	defer r.mu.Unlock()
	r.stream.Items = append(r.stream.Items, streamItem{Kind: "block", Req: bz, AppHash: append([]byte(nil), res.AppHash...), Height: req.Height, Txs: len(req.Txs)})
	return nil
}

func (r *recorder) ListenCommit(_ context.Context, _ abci.ResponseCommit, changeSet []*storetypes.StoreKVPair) error {
	r.mu.Lock()
	defer r.mu.Unlock()
	if n := len(r.stream.Items); n > 0 && r.stream.Items[n-1].Kind == "block" {
		r.stream.Items[n-1].Writes = len(changeSet)
		r.stream.Items[n-1].WriteSet = writeSet(changeSet)
	}
	return nil
}

func writeSet(changeSet []*storetypes.StoreKVPair) []string {
	out := make([]string, 0, len(changeSet))
	for _, kv := range changeSet {
		sum := sha256.Sum256(kv.Value)
		out = append(out, fmt.Sprintf("%s/%q del=%v val=%x(%d)", kv.StoreKey, kv.Key, kv.Delete, sum[:6], len(kv.Value)))
	}
	return out
}

// writeSetDiff lists writes present in only one of the two (ordered) write sets.
func writeSetDiff(rec, rep []string) string {
	count := map[string]int{}
	for _, w := range rec {
		count[w]++
	}
	for _, w := range rep {
		count[w]--
	}
	var only []string
	for w, n := range count {
		if n > 0 {
			only = append(only, "recorded only: "+w)
		} else if n < 0 {
			only = append(only, "replay only:   "+w)
		}
	}
	sort.Strings(only)
	if len(only) > 12 {
		only = append(only[:12], fmt.Sprintf("... (%d more)", len(only)-12))
	}
	if len(only) == 0 {
		return "write sets are equal as multisets (order or earlier state differs)"
	}
	return strings.Join(only, "\n")
}

// insertBeforeLastBlock places a direct item in front of the block that committed it.
func (r *recorder) insertBeforeLastBlock(it streamItem) {
	r.mu.Lock()
	defer r.mu.Unlock()
	n := len(r.stream.Items)
	if n == 0 || r.stream.Items[n-1].Kind != "block" {
		vx.Harnessf("recorder: no carrier block for direct item %s", it.Kind)
	}
	r.stream.Items = append(r.stream.Items, streamItem{})
	copy(r.stream.Items[n:], r.stream.Items[n-1:])
	r.stream.Items[n-1] = it
}

// recordingCreator builds the default simapp with the listener attached; InitChain is
// captured by wrapping the app's InitChainer (set before the app is sealed).
func recordingCreator(recs *[]*recorder) ibctesting.AppCreator {
	return func() (ibctesting.TestingApp, map[string]json.RawMessage) {
		r := &recorder{}
		*recs = append(*recs, r)
		opt := func(ba *baseapp.BaseApp) {
			ba.SetStreamingManager(storetypes.StreamingManager{ABCIListeners: []storetypes.ABCIListener{r}, StopNodeOnErr: true})
		}
		app := simapp.NewSimApp(log.NewNopLogger(), dbm.NewMemDB(), nil, false, simtestutil.EmptyAppOptions{}, opt)
		app.SetInitChainer(func(ctx sdk.Context, req *abci.RequestInitChain) (*abci.ResponseInitChain, error) {
			bz, err := proto.Marshal(req)
			if err != nil {
				return nil, err
			}
			r.stream.ChainID = req.ChainId
			r.stream.Items = append(r.stream.Items, streamItem{Kind: "init", Req: bz})
			return app.InitChainer(ctx, req)
		})
		app.CommitMultiStore().AddListeners(app.GetStoreKeys())
		if err := app.LoadLatestVersion(); err != nil {
			panic(err)
		}
		gen := app.DefaultGenesis()
		patchGenesis(app, gen)
		return app, gen
	}
}

// ---- replay -----------------------------------------------------------------------------

type replayOut struct {
	GoMaxProcs int      `json:"gomaxprocs"`
	Pid        int      `json:"pid"`
	Hashes     []string `json:"hashes"`   // app hash after every block
	Mismatch   string   `json:"mismatch"` // first block whose hash differs from the recorded one
	Export     string   `json:"export"`   // sha256 of the exported app state JSON
	ExportJSON string   `json:"export_json,omitempty"`
	Queries    []string `json:"queries"` // "<path> <request> => sha256(response)" in fixed order
	Error      string   `json:"error,omitempty"`
}

func fmtHash(b []byte) string { return hex.EncodeToString(b) }

// replayStream runs a recorded stream on a fresh default SimApp.
func replayStream(tb testing.TB, s chainStream, keepExport bool) (out replayOut) {
	out.GoMaxProcs, out.Pid = runtime.GOMAXPROCS(0), os.Getpid()
	defer func() {
		if r := recover(); r != nil {
			out.Error = fmt.Sprintf("panic during replay: %v", r)
		}
	}()
	lst := &recorder{}
	app := simapp.NewSimApp(log.NewNopLogger(), dbm.NewMemDB(), nil, true, simtestutil.EmptyAppOptions{}, func(ba *baseapp.BaseApp) {
		ba.SetStreamingManager(storetypes.StreamingManager{ABCIListeners: []storetypes.ABCIListener{lst}, StopNodeOnErr: true})
	})
	app.CommitMultiStore().AddListeners(app.GetStoreKeys())
	baseapp.SetChainID(s.ChainID)(app.GetBaseApp())
	sim.NewDetachedWorld(tb, app) // same scripted mock applications as the recording node
	var next *abci.RequestFinalizeBlock
	nextBlock := func(from int) *abci.RequestFinalizeBlock {
		for _, it := range s.Items[from:] {
			if it.Kind == "block" {
				var req abci.RequestFinalizeBlock
				if err := proto.Unmarshal(it.Req, &req); err != nil {
					panic(err)
				}
				return &req
			}
		}
		return nil
	}
	directCtx := func(i int) sdk.Context {
		next = nextBlock(i)
		if next == nil {
			panic("direct item without a following block")
		}
		return app.GetBaseApp().NewNextBlockContext(cmtproto.Header{ChainID: s.ChainID, Height: next.Height, Time: next.Time})
	}
	pendingDirect := false
	for i, it := range s.Items {
		switch it.Kind {
		case "init":
			var req abci.RequestInitChain
			if err := proto.Unmarshal(it.Req, &req); err != nil {
				panic(err)
			}
			if _, err := app.InitChain(&req); err != nil {
				out.Error = "InitChain: " + err.Error()
				return out
			}
		case "v1send":
			var ctx sdk.Context
			if pendingDirect {
				ctx = app.GetBaseApp().NewContextLegacy(false, cmtproto.Header{ChainID: s.ChainID, Height: nextBlock(i).Height, Time: nextBlock(i).Time})
			} else {
				ctx = directCtx(i)
			}
			pendingDirect = true
			var th clienttypes.Height
			if err := proto.Unmarshal(it.TH, &th); err != nil {
				panic(err)
			}
			cctx, write := ctx.CacheContext()
			if _, err := app.IBCKeeper.ChannelKeeper.SendPacket(cctx, it.Port, it.Channel, th, it.TS, it.Data); err != nil {
				out.Error = fmt.Sprintf("item %d: recorded application send fails on replay: %v", i, err)
				return out
			}
			write()
		case "addratelimit":
			var ctx sdk.Context
			if pendingDirect {
				ctx = app.GetBaseApp().NewContextLegacy(false, cmtproto.Header{ChainID: s.ChainID, Height: nextBlock(i).Height, Time: nextBlock(i).Time})
			} else {
				ctx = directCtx(i)
			}
			pendingDirect = true
			var msg ratelimittypes.MsgAddRateLimit
			if err := proto.Unmarshal(it.Msg, &msg); err != nil {
				panic(err)
			}
			if err := app.RateLimitKeeper.AddRateLimit(ctx, &msg); err != nil {
				out.Error = fmt.Sprintf("item %d: recorded AddRateLimit fails on replay: %v", i, err)
				return out
			}
		case "block":
			pendingDirect = false
			var req abci.RequestFinalizeBlock
			if err := proto.Unmarshal(it.Req, &req); err != nil {
				panic(err)
			}
			res, err := app.FinalizeBlock(&req)
			if err != nil {
				out.Error = fmt.Sprintf("FinalizeBlock %d: %v", req.Height, err)
				return out
			}
			if _, err := app.Commit(); err != nil {
				out.Error = fmt.Sprintf("Commit %d: %v", req.Height, err)
				return out
			}
			out.Hashes = append(out.Hashes, fmtHash(res.AppHash))
			if out.Mismatch == "" && !bytes.Equal(res.AppHash, it.AppHash) {
				// the app hash returned by FinalizeBlock(h) reflects the writes of block h
				var mine []string
				if n := len(lst.stream.Items); n > 0 {
					mine = lst.stream.Items[n-1].WriteSet
				}
				out.Mismatch = fmt.Sprintf("block %d (%d txs): replay app hash %x != recorded %x\n%s", req.Height, len(req.Txs), res.AppHash, it.AppHash, writeSetDiff(it.WriteSet, mine))
			}
		}
	}
	exp, queries := observe(app, s.ChainID)
	sum := sha256.Sum256(exp)
	out.Export = fmtHash(sum[:])
	if keepExport {
		out.ExportJSON = string(exp)
	}
	out.Queries = queries
	return out
}

// observe exports the full application state (what ExportAppStateAndValidators marshals:
// ModuleManager.ExportGenesis in export order, JSON with sorted module names) and runs the
// fixed list of ordered gRPC queries through the ABCI query path.
func observe(app *simapp.SimApp, chainID string) ([]byte, []string) {
	ctx := app.GetBaseApp().NewContextLegacy(true, cmtproto.Header{ChainID: chainID, Height: app.LastBlockHeight()})
	gen, err := app.ModuleManager.ExportGenesis(ctx, app.AppCodec())
	if err != nil {
		panic(err)
	}
	exp, err := json.Marshal(gen)
	if err != nil {
		panic(err)
	}
	var out []string
	q := func(path string, req proto.Message) []byte {
		bz, err := proto.Marshal(req)
		if err != nil {
			panic(err)
		}
		res, err := app.Query(context.Background(), &abci.RequestQuery{Path: path, Data: bz})
		var val []byte
		code := uint32(0)
		if res != nil {
			val, code = res.Value, res.Code
		}
		sum := sha256.Sum256(val)
		out = append(out, fmt.Sprintf("%s %x => code=%d err=%v len=%d sha256=%x", path, bz, code, err != nil, len(val), sum[:8]))
		return val
	}
	page := &query.PageRequest{Limit: 1000, CountTotal: true}
	var cs clienttypes.QueryClientStatesResponse
	if v := q("/ibc.core.client.v1.Query/ClientStates", &clienttypes.QueryClientStatesRequest{Pagination: page}); v != nil {
		_ = proto.Unmarshal(v, &cs)
	}
	for _, c := range cs.ClientStates {
		q("/ibc.core.client.v1.Query/ConsensusStates", &clienttypes.QueryConsensusStatesRequest{ClientId: c.ClientId, Pagination: page})
		q("/ibc.core.client.v1.Query/ConsensusStateHeights", &clienttypes.QueryConsensusStateHeightsRequest{ClientId: c.ClientId, Pagination: page})
		q("/ibc.core.channel.v2.Query/PacketCommitments", &channeltypesv2.QueryPacketCommitmentsRequest{ClientId: c.ClientId, Pagination: page})
		q("/ibc.core.channel.v2.Query/PacketAcknowledgements", &channeltypesv2.QueryPacketAcknowledgementsRequest{ClientId: c.ClientId, Pagination: page})
	}
	q("/ibc.core.connection.v1.Query/Connections", &connectiontypes.QueryConnectionsRequest{Pagination: page})
	var chs channeltypes.QueryChannelsResponse
	if v := q("/ibc.core.channel.v1.Query/Channels", &channeltypes.QueryChannelsRequest{Pagination: page}); v != nil {
		_ = proto.Unmarshal(v, &chs)
	}
	for _, c := range chs.Channels {
		q("/ibc.core.channel.v1.Query/PacketCommitments", &channeltypes.QueryPacketCommitmentsRequest{PortId: c.PortId, ChannelId: c.ChannelId, Pagination: page})
		q("/ibc.core.channel.v1.Query/PacketAcknowledgements", &channeltypes.QueryPacketAcknowledgementsRequest{PortId: c.PortId, ChannelId: c.ChannelId, Pagination: page})
		q("/ibc.core.channel.v2.Query/PacketCommitments", &channeltypesv2.QueryPacketCommitmentsRequest{ClientId: c.ChannelId, Pagination: page})
	}
	var dn transfertypes.QueryDenomsResponse
	if v := q("/ibc.applications.transfer.v1.Query/Denoms", &transfertypes.QueryDenomsRequest{Pagination: page}); v != nil {
		_ = proto.Unmarshal(v, &dn)
	}
	for _, d := range dn.Denoms {
		q("/ibc.applications.transfer.v1.Query/TotalEscrowForDenom", &transfertypes.QueryTotalEscrowForDenomRequest{Denom: d.IBCDenom()})
	}
	q("/ibc.applications.transfer.v1.Query/TotalEscrowForDenom", &transfertypes.QueryTotalEscrowForDenomRequest{Denom: sdk.DefaultBondDenom})
	q("/ibc.applications.rate_limiting.v1.Query/AllRateLimits", &ratelimittypes.QueryAllRateLimitsRequest{})
	q("/cosmos.bank.v1beta1.Query/TotalSupply", &banktypes.QueryTotalSupplyRequest{Pagination: page})
	return exp, out
}

// ---- worker process ------------------------------------------------------------------------

const (
	envStream = "VERIF_C45_STREAM"
	envOut    = "VERIF_C45_OUT"
)

// TestReplayWorker is the replayer process: it is only meaningful when re-executed by TestC45.
func TestReplayWorker(t *testing.T) {
	in, outPath := os.Getenv(envStream), os.Getenv(envOut)
	if in == "" || outPath == "" {
		t.Skip("replay worker: not invoked by TestC45")
	}
	bz, err := os.ReadFile(in)
	if err != nil {
		t.Fatalf("worker: %v", err)
	}
	var streams []chainStream
	if err := json.Unmarshal(bz, &streams); err != nil {
		t.Fatalf("worker: %v", err)
	}
	var outs []replayOut
	for _, s := range streams {
		outs = append(outs, replayStream(t, s, os.Getenv("VERIF_C45_KEEP_EXPORT") != ""))
	}
	res, _ := json.Marshal(outs)
	if err := os.WriteFile(outPath, res, 0o644); err != nil {
		t.Fatalf("worker: %v", err)
	}
}

func runWorker(dir string, streamFile string, idx int, gomaxprocs int) ([]replayOut, error) {
	outFile := filepath.Join(dir, fmt.Sprintf("out-%d.json", idx))
	self, err := os.Executable()
	if err != nil {
		return nil, err
	}
	cmd := exec.Command(self, "-test.run", "^TestReplayWorker$", "-test.count", "1", "-test.timeout", "600s")
	var env []string
	for _, e := range os.Environ() {
		// the worker must not touch the parent's statistics / replay files
		if strings.HasPrefix(e, "VERIF_") || strings.HasPrefix(e, "GOMAXPROCS=") {
			continue
		}
		env = append(env, e)
	}
	env = append(env, envStream+"="+streamFile, envOut+"="+outFile, fmt.Sprintf("GOMAXPROCS=%d", gomaxprocs))
	env = append(env, "VERIF_C45_KEEP_EXPORT=1")
	cmd.Env = env
	cmd.Dir = dir
	if b, err := cmd.CombinedOutput(); err != nil {
		return nil, fmt.Errorf("worker %d (GOMAXPROCS=%d): %v\n%s", idx, gomaxprocs, err, tail(b, 1500))
	}
	bz, err := os.ReadFile(outFile)
	if err != nil {
		return nil, err
	}
	var outs []replayOut
	if err := json.Unmarshal(bz, &outs); err != nil {
		return nil, err
	}
	return outs, nil
}

func tail(b []byte, n int) string {
	if len(b) > n {
		b = b[len(b)-n:]
	}
	return string(b)
}

// ---- the case ---------------------------------------------------------------------------------

type c45Case struct {
	H      pktsim.History `json:"h"`
	Extras Extras         `json:"extras"`
	Flush  bool           `json:"flush"` // after the history, relay (recv + ack) every packet still in flight
}

var c45Kinds = []string{"send", "send", "send", "recv", "recv", "recv", "ack", "ack", "timeout", "update", "block", "time", "close", "replay"}

func genC45(t *rapid.T) c45Case {
	c := c45Case{H: pktsim.GenLifecycle(t, 36, c45Kinds, []string{"ok", "ok", "err", "async"})}
	c.Extras.Transfer = rapid.IntRange(0, 3).Draw(t, "xfer") > 0
	if c.Extras.Transfer {
		c.Extras.AliasXfer = rapid.Bool().Draw(t, "aliasxfer")
		c.Extras.RateLimit = rapid.Bool().Draw(t, "ratelimit")
		c.Extras.PFM = rapid.Bool().Draw(t, "pfm")
	}
	c.Extras.ICA = rapid.Bool().Draw(t, "ica")
	c.Extras.GMP = rapid.IntRange(0, 2).Draw(t, "gmp")
	c.Flush = rapid.IntRange(0, 3).Draw(t, "flush") > 0
	// multi-payload packets only exercise the per-payload paths when every payload succeeds
	for i := range c.H.Ops {
		if op := &c.H.Ops[i]; op.K == "send" && len(op.S) > 1 && rapid.Bool().Draw(t, "allok") {
			for j := range op.S {
				op.S[j].Out = "ok"
			}
		}
	}
	return c
}

// newReplayableWorld is newWorld without the out-of-band writes ibctesting performs by
// default: channel ids are NOT drawn from ibctesting's process-global counter (that is a
// direct SetNextChannelSequence store write before every handshake step). To keep the two
// ends of a channel distinguishable one throw-away ChanOpenInit is executed on chain B
// first, so chain B's channel ids run one ahead of chain A's.
func newReplayableWorld(outer *testing.T, h pktsim.History, creator ibctesting.AppCreator) *sim.World {
	w := sim.NewWorld(outer, 2, creator)
	sim.Guard("skew client ids", func() {
		ibctesting.NewPath(w.Chains[0], w.Chains[1]).EndpointB.CreateClient()
	})
	skewed := false
	setup := func(kind sim.LinkKind) *ibctesting.Path {
		var p *ibctesting.Path
		sim.Guard("link setup", func() {
			p = ibctesting.NewPath(w.Chains[0], w.Chains[1]).DisableUniqueChannelIDs()
			if kind == sim.V1Ordered {
				p.SetChannelOrdered()
			}
			if kind == sim.V2Clients {
				p.SetupV2()
				return
			}
			p.SetupConnections()
			if !skewed {
				skewed = true
				dummy := ibctesting.NewPath(w.Chains[0], w.Chains[1]).DisableUniqueChannelIDs()
				dummy.EndpointB.ClientID, dummy.EndpointB.ConnectionID = p.EndpointB.ClientID, p.EndpointB.ConnectionID
				dummy.EndpointA.ClientID, dummy.EndpointA.ConnectionID = p.EndpointA.ClientID, p.EndpointA.ConnectionID
				if err := dummy.EndpointB.ChanOpenInit(); err != nil {
					vx.Harnessf("skew ChanOpenInit: %v", err)
				}
			}
			p.CreateChannels()
		})
		return p
	}
	var base *sim.Link
	for _, k := range h.Links {
		kind := sim.LinkKind(k)
		if kind == sim.V2Alias {
			if base == nil {
				base = addLink(w, sim.V1Unordered, setup(sim.V1Unordered), nil)
			}
			addLink(w, sim.V2Alias, base.Path, base)
			continue
		}
		l := addLink(w, kind, setup(kind), nil)
		if kind == sim.V1Unordered && base == nil {
			base = l
		}
	}
	return w
}

func runC45(outer *testing.T) func(t rapid.TB, c c45Case, rec *vx.Case) {
	return func(t rapid.TB, c c45Case, rec *vx.Case) {
		var recs []*recorder
		w := newReplayableWorld(outer, c.H, recordingCreator(&recs))
		if len(recs) != 2 {
			vx.Harnessf("expected 2 recorders, have %d", len(recs))
		}
		addExtrasRecorded(w, c.Extras, recs)
		kinds := map[sim.LinkKind]bool{}
		multiOK := 0
		note := func(st pktsim.Step) {
			if st.Op.K == "recv" && st.Res.OK && st.Pkt != nil && st.Pkt.V2 && len(st.Pkt.P2.Payloads) > 1 && !sim.ResultIsNoop(st.Res) {
				multiOK++
			}
		}
		for i, op := range c.H.Ops {
			st := pktsim.Exec(w, i, op)
			note(st)
			if st.Pkt != nil && (st.HadTx || st.Sent) {
				kinds[w.Links[st.Pkt.Link].Kind] = true
			}
			if op.K == "send" && st.Sent && st.Pkt != nil && !st.Pkt.V2 {
				// the mock application's send is a direct keeper call committed by the following block
				th, _ := proto.Marshal(&st.Pkt.P1.TimeoutHeight)
				recs[st.Chain].insertBeforeLastBlock(streamItem{Kind: "v1send", Port: st.Pkt.P1.SourcePort, Channel: st.Pkt.P1.SourceChannel, TH: th, TS: st.Pkt.P1.TimeoutTimestamp, Data: st.Pkt.P1.Data})
			}
		}
		if c.Flush {
			n := len(c.H.Ops)
			for _, p := range append([]*sim.Pkt(nil), w.Pkts...) {
				if !w.HasCommitment(p) {
					continue
				}
				note(pktsim.Exec(w, n, pktsim.Op{K: "recv", P: p.Idx, H: -1, Sig: p.Idx % 3}))
				note(pktsim.Exec(w, n+1, pktsim.Op{K: "ack", P: p.Idx, H: -1, Sig: (p.Idx + 1) % 3}))
				n += 2
			}
			rec.Class("flushed")
		}
		for _, p := range w.Pkts {
			kinds[w.Links[p.Link].Kind] = true
		}
		// the recorder's own view (same process, GOMAXPROCS of the test)
		var streams []chainStream
		blocks, ibcBlocks, writes := 0, 0, 0
		for _, r := range recs {
			streams = append(streams, r.stream)
			for _, it := range r.stream.Items {
				if it.Kind == "block" {
					blocks++
					writes += it.Writes
					if it.Txs > 0 {
						ibcBlocks++
					}
				}
			}
		}
		rec.Add("multi_payload_recv_ok", int64(multiOK))
		rec.Add("blocks", int64(blocks))
		rec.Add("blocks_with_txs", int64(ibcBlocks))
		rec.Add("committed_writes", int64(writes))
		var recObs []replayOut
		for i := range w.Chains {
			exp, qs := observe(w.App(i), w.Chains[i].ChainID)
			sum := sha256.Sum256(exp)
			recObs = append(recObs, replayOut{Export: fmtHash(sum[:]), ExportJSON: string(exp), Queries: qs})
		}

		dir, err := os.MkdirTemp("", "c45-")
		if err != nil {
			vx.Harnessf("tempdir: %v", err)
		}
		defer os.RemoveAll(dir)
		bz, _ := json.Marshal(streams)
		streamFile := filepath.Join(dir, "stream.json")
		if err := os.WriteFile(streamFile, bz, 0o644); err != nil {
			vx.Harnessf("write stream: %v", err)
		}
		procs := []int{1, 4, 16}
		outs := make([][]replayOut, len(procs))
		errs := make([]error, len(procs))
		var wg sync.WaitGroup
		for i, n := range procs {
			wg.Add(1)
			go func(i, n int) {
				defer wg.Done()
				outs[i], errs[i] = runWorker(dir, streamFile, i, n)
			}(i, n)
		}
		wg.Wait()
		for i, e := range errs {
			if e != nil {
				vx.Harnessf("replay worker %d failed: %v", i, e)
			}
		}
		rec.Add("replays", int64(len(procs)*len(streams)))
		for ci := range streams {
			nblocks := 0
			for _, it := range streams[ci].Items {
				if it.Kind == "block" {
					nblocks++
				}
			}
			for wi, n := range procs {
				o := outs[wi][ci]
				who := fmt.Sprintf("chain %d replayed in process %d (GOMAXPROCS=%d)", ci, o.Pid, n)
				if o.Error != "" {
					vx.Violatef(t, rec, c45, "replay-fails", "%s: %s", who, o.Error)
				}
				if o.Mismatch != "" {
					vx.Violatef(t, rec, c45, "app-hash-differs", "%s: %s", who, o.Mismatch)
				}
				if len(o.Hashes) != nblocks {
					vx.Violatef(t, rec, c45, "replay-fails", "%s: %d of %d blocks replayed", who, len(o.Hashes), nblocks)
				}
				ref := outs[0][ci]
				if o.Export != ref.Export {
					vx.Violatef(t, rec, c45, "export-differs", "%s: exported app state differs from the GOMAXPROCS=%d replayer: %s", who, procs[0], jsonDiff(ref.ExportJSON, o.ExportJSON))
				}
				if d := firstDiff(o.Queries, ref.Queries); d != "" {
					vx.Violatef(t, rec, c45, "query-differs", "%s: ordered query results differ from the GOMAXPROCS=%d replayer: %s", who, procs[0], d)
				}
			}
			// replayers vs the recording node itself
			if outs[0][ci].Export != recObs[ci].Export {
				vx.Violatef(t, rec, c45, "export-differs", "chain %d: exported app state of the replayers differs from the recording node: %s", ci, jsonDiff(recObs[ci].ExportJSON, outs[0][ci].ExportJSON))
			}
			if d := firstDiff(outs[0][ci].Queries, recObs[ci].Queries); d != "" {
				vx.Violatef(t, rec, c45, "query-differs", "chain %d: ordered query results of the replayers differ from the recording node: %s", ci, d)
			}
			rec.Add("queries_compared", int64(len(recObs[ci].Queries)))
		}
		var ks []string
		for k := range kinds {
			ks = append(ks, k.String())
		}
		sort.Strings(ks)
		rec.Class("kinds=%s", strings.Join(ks, ","))
		classExtras(rec, c.Extras)
		if multiOK > 0 {
			rec.Class("multi-payload-recv")
		}
		rec.Class("blocks>=%d", blocks/50*50)
		rec.NonTrivialIf(ibcBlocks >= 20 && len(kinds) >= 2)
	}
}

func firstDiff(a, b []string) string {
	if len(a) != len(b) {
		return fmt.Sprintf("%d vs %d query results", len(a), len(b))
	}
	for i := range a {
		if a[i] != b[i] {
			return fmt.Sprintf("query %d: %s  VS  %s", i, a[i], b[i])
		}
	}
	return ""
}

// jsonDiff names the first module whose exported genesis differs.
func jsonDiff(a, b string) string {
	var ma, mb map[string]json.RawMessage
	if json.Unmarshal([]byte(a), &ma) != nil || json.Unmarshal([]byte(b), &mb) != nil {
		return "undecodable export"
	}
	var names []string
	for k := range ma {
		names = append(names, k)
	}
	sort.Strings(names)
	for _, k := range names {
		if !bytes.Equal(ma[k], mb[k]) {
			x, y := string(ma[k]), string(mb[k])
			i := 0
			for i < len(x) && i < len(y) && x[i] == y[i] {
				i++
			}
			lo := max(0, i-120)
			return fmt.Sprintf("module %q differs at byte %d: ...%s  VS  ...%s", k, i, x[lo:min(len(x), i+120)], y[lo:min(len(y), i+120)])
		}
	}
	return "module sets differ"
}

// addExtrasRecorded is addExtras plus the stream item for the one direct keeper call it makes.
func addExtrasRecorded(w *sim.World, ex Extras, recs []*recorder) {
	st := addExtrasWith(w, ex, func(msg *ratelimittypes.MsgAddRateLimit) {
		bz, _ := proto.Marshal(msg)
		recs[0].insertBeforeLastBlock(streamItem{Kind: "addratelimit", Msg: bz})
	}, true)
	_ = st
}

func TestC45(t *testing.T) {
	vx.Check(t, vx.Prop[c45Case]{
		ID: c45,
		Rule: "pktsim lifecycle histories (v1-unordered / v1-ordered / v2 / v2-alias links, replays, closes, timeouts) plus ICS-20 (v1 and v2-over-alias), rate limit, packet-forward, ICA and GMP activity, recorded on both chains and replayed in 3 fresh processes (GOMAXPROCS 1, 4, 16); " +
			"non-trivial = >=20 recorded blocks carrying transactions and packets on >=2 link kinds; distinct by full case",
		MinNTFrac: 0.5,
		Assumptions: []string{
			"state changes that sim/ibctesting make as direct keeper calls between blocks (mock-application SendPacket, governance AddRateLimit) are part of the recorded stream and replayed through the same keeper entry points",
			"ibctesting's process-global unique-channel-id counter (a direct store write) is disabled in recorded worlds",
		},
		Gen: genC45,
		Run: runC45(t),
	})
}
