package hs

import (
	"os"
	"testing"

	"github.com/cosmos/ibc-go/v11/modules/apps/callbacks/verifx/vx"
)

// TestSmoke runs fixed happy-path histories (manual harness validation: HS_SMOKE=1).
func TestSmoke(t *testing.T) {
	if os.Getenv("HS_SMOKE") == "" {
		t.Skip("manual")
	}
	c13 := c13Case{NCl: 1, VLists: [][]pver{{{ID: "1", F: []string{fO}}}}, Attempts: []c13Attempt{{IV: 0, Delay: 7, First: 0, Ord: 1}},
		Ops: []c13Op{
			{K: "init", C: 0, H: -1, V: -1}, {K: "try", C: 1, R: 0, H: -1, V: -1}, {K: "ack", C: 0, L: 0, R: 0, H: -1, V: -1}, {K: "confirm", C: 1, L: 0, H: -1, V: -1},
			{K: "chaninit", C: 0, L: 0, H: -1, V: -1}, {K: "chantry", C: 1, L: 0, R: -1, H: -1, V: -1},
			{K: "plant", C: 0, L: 0, M: "v1o"}, {K: "chaninit", C: 0, L: 0, O: 1, H: -1, V: -1}, {K: "chaninit", C: 0, L: 0, O: 2, H: -1, V: -1},
			{K: "lh", C: 0, N: 0, H: -1, R: -1}, {K: "lh", C: 1, N: 1, H: -1, R: -1}, {K: "lh", C: 0, N: 2, H: -1, R: -1}, {K: "lh", C: 0, N: 3, H: -1, R: -1},
		}}
	runC13(t)(t, c13, &vx.Case{})
	c12 := c12Case{NConn: 1, Attempts: []c12Attempt{{Ord: 2, Ver: "a>b", Conn: 0, First: 0}},
		Ops: []c12Op{
			{K: "init", C: 0, H: -1}, {K: "try", C: 1, R: 0, H: -1}, {K: "ack", C: 0, L: 0, R: 0, H: -1}, {K: "confirm", C: 1, L: 0, H: -1},
			{K: "closeconfirm", C: 1, L: 0, H: -1}, {K: "closeinit", C: 0, L: 0}, {K: "replay", C: 0, M: "ack"}, {K: "closeconfirm", C: 1, L: 0, H: -1}, {K: "replay", C: 1, M: "confirm"},
		}}
	runC12(t)(t, c12, &vx.Case{})
}
